package main

import (
	"fmt"
	"net/http"
	"strings"
	"time"

	"verif/harness/internal/prng"
	"verif/harness/internal/proto"
)

const t0base = int64(1_700_000_000_000_000_000)

var subSecond = []int64{0, 1, 250_000_000, 500_000_000, 999_999_999}
var plainJumps = []int64{0, 1, 62_500_000, 124_999_999, 125_000_000, 125_000_001, 250_000_000, 1_000_000_000, 3_000_000_000}

// timeline mirrors the virtual clock of the case being generated and remembers the instants the property
// talks about (expiry instants, provider instants) so that clock moves can land exactly on / next to them.
type timeline struct {
	r       *prng.R
	now     int64
	marks   []int64
	ops     []string
	pending int // rough number of sleepers that may still be pending (upper bound)
}

func (tl *timeline) mark(t int64) { tl.marks = append(tl.marks, t) }

// move emits one clock operation (and sometimes late firings after a skip).
func (tl *timeline) move() {
	r := tl.r
	d := prng.Pick(r, plainJumps)
	if len(tl.marks) > 0 && r.Chance(70) {
		// newest marks are the most interesting ones
		idx := len(tl.marks) - 1 - r.Intn(min(len(tl.marks), 3))
		target := tl.marks[idx] + int64(r.Range(-1, 1))
		if target >= tl.now {
			d = target - tl.now
		}
	}
	tl.now += d
	if r.Chance(65) {
		tl.ops = append(tl.ops, fmt.Sprintf("adv d=%d", d))
		return
	}
	tl.ops = append(tl.ops, fmt.Sprintf("skip d=%d", d))
}

func (tl *timeline) fire() {
	tl.ops = append(tl.ops, fmt.Sprintf("fire i=%d", tl.r.Intn(4)))
}

var malformed = []string{"frob x=1", "get", "adv d=x", "set k=a", "req m=GET", "probe now", "fire", "resp m=GET u=a.com pp=a id=r st=200 body=b tag=%n ra=%n", "skip d=-1"}

func maybeMalformed(r *prng.R, ops []string) []string {
	if !r.Chance(6) {
		return ops
	}
	i := 1 + r.Intn(len(ops))
	out := append([]string{}, ops[:i]...)
	out = append(out, prng.Pick(r, malformed))
	return append(out, ops[i:]...)
}

func genCache(r *prng.R, n int) []string {
	t0 := t0base + prng.Pick(r, subSecond)
	max := "none"
	if r.Chance(75) {
		max = fmt.Sprint(prng.Pick(r, []int{0, 3, 5, 6, 8, 9, 12, 12, 20, 20, 40, 1000, 1000}))
	}
	tl := &timeline{r: r, now: t0, ops: []string{fmt.Sprintf("cfg cache t0=%d max=%s", t0, max)}}
	keys := []string{"a", "b", "cc", "d"}
	if r.Chance(40) {
		keys = keys[:2]
	}
	vals := []string{"", "x", "x", "yy", "yy", "zzzz", "0123456789"}
	ttls := []int{-1, 0, 1, 1, 1, 2, 2, 4, 8}
	gated := r.Chance(50)
	wallSteps := r.Chance(40)
	for len(tl.ops) <= n {
		k := proto.Enc(prng.Pick(r, keys))
		switch x := r.Intn(100); {
		case x < 28:
			ttl := prng.Pick(r, ttls)
			tl.ops = append(tl.ops, fmt.Sprintf("set k=%s v=%s ttl8=%d", k, proto.Enc(prng.Pick(r, vals)), ttl))
			tl.mark(tl.now + int64(ttl)*ttlUnit)
		case x < 56:
			tl.ops = append(tl.ops, "get k="+k)
		case x < 64:
			tl.ops = append(tl.ops, "has k="+k)
		case x < 68:
			if r.Chance(15) {
				tl.ops = append(tl.ops, "del2 k="+k, "probe")
			} else {
				tl.ops = append(tl.ops, "del k="+k)
			}
		case x < 80 && gated:
			// concurrent callers: park a Set before its insert / a Get or Has after its lookup, release later
			id := 1 + r.Intn(4)
			switch r.Intn(6) {
			case 0, 1:
				ttl := prng.Pick(r, ttls)
				tl.ops = append(tl.ops, fmt.Sprintf("cset id=%d k=%s v=%s ttl8=%d", id, k, proto.Enc(prng.Pick(r, vals)), ttl))
				tl.mark(tl.now + int64(ttl)*ttlUnit)
			case 2:
				tl.ops = append(tl.ops, fmt.Sprintf("cget id=%d k=%s", id, k))
			case 3:
				tl.ops = append(tl.ops, fmt.Sprintf("chas id=%d k=%s", id, k))
			default:
				tl.ops = append(tl.ops, fmt.Sprintf("crel id=%d", id))
			}
		case x < 86:
			tl.move()
		case x < 91 && wallSteps:
			// the wall clock is stepped (NTP, VM resume); no time elapses
			tl.ops = append(tl.ops, fmt.Sprintf("wstep d=%d", prng.Pick(r, []int64{-1_000_000_000, -125_000_001, -125_000_000, -1, 1, 125_000_000, 1_000_000_000})))
		case x < 94:
			tl.fire()
		default:
			tl.ops = append(tl.ops, "probe")
		}
	}
	tl.ops = append(tl.ops, "probe")
	return tl.ops
}

// respExtras: the response arrives with a nil header map, and/or a later remedy of the chain writes a header into
// the transaction's header map after the plugin has returned.
func respExtras(r *prng.R, noHeaders bool) string {
	out := ""
	if noHeaders && r.Chance(30) {
		out += " nil=1"
	}
	if r.Chance(35) {
		out += " edit=" + prng.Pick(r, []string{"x-lunar-retry-after:7", "x-edited:1", "X-Tag:forged"})
	}
	return out
}

type ppChoice struct{ pp string }

var ppsByPaths = map[string][]string{
	"":     {"", "a:1", "a:2"},
	"a":    {"a:1", "a:2", "a:1,b:9", "", "a:"},
	"a,b":  {"a:x.b:y", "a:x,b:y", "a:x", "a:1,b:2", "a:1.b:2", "b:y", "a:1", "a:x\".\"b\":\"y", "a:x\\,b:y"},
	"a,!b": {"a:1,b:1", "a:1,b:2", "a:2,b:1", "a:1"},
	"b,a":  {"a:x,b:y", "b:y.a:x", "a:x", "b:y"},
}
var pathCfgs = []string{"", "a", "a", "a,b", "a,b", "a,!b", "b,a"}

func genCaching(r *prng.R, n int) []string {
	t0 := t0base + prng.Pick(r, subSecond)
	paths := prng.Pick(r, pathCfgs)
	ttl := prng.Pick(r, []int{1, 1, 2, 2, 4, 8, 0, -1})
	maxrec := prng.Pick(r, []int{0, 2, 5, 1000, 1000})
	maxb := prng.Pick(r, []int{0, 100, 107, 108, 109, 120, 215, 216, 217, 230, 330, 100000, 100000})
	tl := &timeline{r: r, now: t0, ops: []string{fmt.Sprintf("cfg caching t0=%d ttl8=%d maxrec=%d maxb=%d paths=%s",
		t0, ttl, maxrec, maxb, proto.Enc(paths))}}
	methods := []string{"GET", "POST"}
	urls := []string{"a.com/u/1", "a.com/u/2"}
	if r.Chance(50) {
		methods, urls = methods[:1], urls[:1]
	}
	pps := ppsByPaths[paths]
	if r.Chance(50) && len(pps) > 2 {
		pps = pps[:2]
	}
	bodies := []string{"", "b1", "body2", "longer body 3"}
	rid := 0
	for len(tl.ops) <= n {
		key := fmt.Sprintf("m=%s u=%s pp=%s", prng.Pick(r, methods), proto.Enc(prng.Pick(r, urls)), proto.Enc(prng.Pick(r, pps)))
		switch x := r.Intn(100); {
		case x < 30:
			rid++
			tag, ra := "%n", "%n"
			if r.Chance(70) {
				tag = fmt.Sprintf("t%d", rid)
			}
			if r.Chance(30) {
				ra = "1"
			}
			if r.Chance(25) {
				tag, ra = "%n", "%n" // a provider response with NO header at all
			}
			tl.ops = append(tl.ops, fmt.Sprintf("resp %s id=r%d st=%d body=%s tag=%s ra=%s%s", key, rid,
				prng.Pick(r, []int{200, 200, 404, 500}), proto.Enc(prng.Pick(r, bodies)), tag, ra, respExtras(r, tag == "%n" && ra == "%n")))
			tl.mark(tl.now + int64(ttl)*ttlUnit)
		case x < 62:
			tl.ops = append(tl.ops, "req "+key)
		case x < 82:
			tl.move()
		case x < 90:
			tl.fire()
		default:
			tl.ops = append(tl.ops, "probe")
		}
	}
	tl.ops = append(tl.ops, "probe")
	return tl.ops
}

// several caching remedies (different TTLs, record and size limits, path configurations) on the one plugin
func genShared(r *prng.R, n int) []string {
	t0 := t0base + prng.Pick(r, subSecond)
	nrem := r.Range(2, 3)
	type rem struct {
		ttl   int
		paths string
	}
	var rems []rem
	cfg := fmt.Sprintf("cfg shared t0=%d", t0)
	pathChoices := []string{"a", "a", "", "a,b", "b,a", "a,!b"}
	for i := 0; i < nrem; i++ {
		rm := rem{ttl: prng.Pick(r, []int{1, 2, 4, 8, 0}), paths: prng.Pick(r, pathChoices)}
		if i > 0 && r.Chance(50) {
			rm.paths = rems[0].paths // same key space as remedy 0
		}
		rems = append(rems, rm)
		cfg += fmt.Sprintf(" r%d=%d/%d/%d/%s", i, rm.ttl, prng.Pick(r, []int{0, 5, 1000, 1000}),
			prng.Pick(r, []int{0, 110, 120, 220, 330, 100000, 100000}), rm.paths)
	}
	tl := &timeline{r: r, now: t0, ops: []string{cfg}}
	pps := []string{"a:1", "a:2", "a:1,b:2", "", "b:2"}
	bodies := []string{"", "b1", "body2", "longer body 3"}
	rid := 0
	for len(tl.ops) <= n {
		ri := r.Intn(nrem)
		key := fmt.Sprintf("r=%d m=GET u=a.com/u/1 pp=%s", ri, proto.Enc(prng.Pick(r, pps)))
		switch x := r.Intn(100); {
		case x < 30:
			rid++
			stag := fmt.Sprintf("t%d", rid)
			if r.Chance(30) {
				stag = "%n"
			}
			tl.ops = append(tl.ops, fmt.Sprintf("resp %s id=r%d st=200 body=%s tag=%s ra=%%n%s", key, rid,
				proto.Enc(prng.Pick(r, bodies)), stag, respExtras(r, stag == "%n")))
			tl.mark(tl.now + int64(rems[ri].ttl)*ttlUnit)
			if r.Chance(60) {
				tl.ops = append(tl.ops, "probe") // what did THIS remedy add?
			}
		case x < 64:
			tl.ops = append(tl.ops, "req "+key)
		case x < 84:
			tl.move()
		case x < 90:
			tl.fire()
		default:
			tl.ops = append(tl.ops, "probe")
		}
	}
	tl.ops = append(tl.ops, "probe")
	return tl.ops
}

// several throttling configurations (own header name / type / statuses) on the one plugin
func genTShared(r *prng.R, n int) []string {
	t0 := t0base + prng.Pick(r, subSecond)
	nrem := r.Range(2, 3)
	hdrNames := []string{"retry-after", "x-ratelimit-reset", "x_reset"}
	type rem struct{ ty, hdr string }
	var rems []rem
	cfg := fmt.Sprintf("cfg tshared t0=%d", t0)
	for i := 0; i < nrem; i++ {
		rm := rem{ty: prng.Pick(r, []string{"rel", "rel", "rel", "abs", "undef"}), hdr: prng.Pick(r, hdrNames)}
		rems = append(rems, rm)
		cfg += fmt.Sprintf(" r%d=%s/%s/%s", i, rm.ty, prng.Pick(r, []string{"429", "429,503", "429,503"}), rm.hdr)
	}
	tl := &timeline{r: r, now: t0, ops: []string{cfg}}
	urls := []string{"a.com/x", "a.com/y"}
	if r.Chance(60) {
		urls = urls[:1]
	}
	rid := 0
	for len(tl.ops) <= n {
		ri := r.Intn(nrem)
		key := fmt.Sprintf("r=%d m=GET u=%s", ri, prng.Pick(r, urls))
		switch x := r.Intn(100); {
		case x < 30:
			rid++
			// each header of the alphabet is present with probability 1/2 (sorted by name), own value form
			var hs []string
			for _, name := range []string{"content-type", "retry-after", "x-ratelimit-reset", "x_reset"} {
				if name == "content-type" {
					if r.Chance(40) {
						hs = append(hs, name+":text/plain")
					}
					continue
				}
				if !r.Chance(55) {
					continue
				}
				var v string
				form := r.Intn(6)
				for _, rm := range rems {
					// an epoch-sized value read by a relative configuration cannot be compared in exact ns (float64)
					if rm.ty == "rel" && rm.hdr == name && form == 0 {
						form = 2
					}
				}
				switch form {
				case 0:
					v = fmt.Sprint(tl.now/1_000_000_000 + int64(r.Range(0, 3)))
					tl.mark((tl.now/1_000_000_000 + 3) * 1_000_000_000)
				case 1:
					v = prng.Pick(r, []string{"abc", "", "-1"})
				default:
					v = prng.Pick(r, []string{"1", "2", "0.5", "1.5", "30"})
					tl.mark(tl.now + dyadic2[v])
				}
				hs = append(hs, name+":"+v)
			}
			tl.ops = append(tl.ops, fmt.Sprintf("resp %s id=r%d st=%d body=%s h=%s", key, rid,
				prng.Pick(r, []int{429, 429, 503, 200}), proto.Enc(fmt.Sprintf("slow %d", rid)), proto.Enc(strings.Join(hs, ","))))
		case x < 66:
			tl.ops = append(tl.ops, "req "+key)
		case x < 88:
			tl.move()
		case x < 95:
			tl.fire()
		default:
			tl.ops = append(tl.ops, "probe")
		}
	}
	return tl.ops
}

var dyadic2 = map[string]int64{"1": 1e9, "2": 2e9, "0.5": 5e8, "1.5": 15e8, "30": 30e9}

func genThrottle(r *prng.R, n int) []string {
	t0 := t0base + prng.Pick(r, subSecond)
	ty := prng.Pick(r, []string{"rel", "rel", "rel", "abs", "abs", "undef"})
	sts := prng.Pick(r, []string{"429", "429,503", "429,503", ""})
	// header names over the whole RFC 7230 token alphabet (providers do announce limits in x_ratelimit_reset-like names)
	hdr := prng.Pick(r, []string{"Retry-After", "Retry-After", "retry-after", "X-RA", "x-ra", "x_ratelimit_reset_after",
		"ratelimit.reset", "x-ra!#$%&'*+.^_`|~0"})
	// where the remedy configuration comes from (production loader / persisted copy)
	src := prng.Pick(r, []string{"", "", " src=struct", " src=yaml", " src=yaml", " src=persisted"})
	// names under which the header may arrive: the configured one, its lower/upper-case forms, the canonical form
	arriving := []string{hdr, strings.ToLower(hdr), strings.ToUpper(hdr), http.CanonicalHeaderKey(hdr)}
	caseMix := r.Chance(60)
	tl := &timeline{r: r, now: t0, ops: []string{fmt.Sprintf("cfg throttle t0=%d type=%s statuses=%s hdr=%s%s", t0, ty, proto.Enc(sts), proto.Enc(hdr), src)}}
	if src == " src=persisted" && n > 8 {
		n = 8 // today the persisted copy is refused: the rest of the case only checks that nothing is configured
	}
	methods := []string{"GET", "POST"}
	urls := []string{"a.com/x", "a.com/y"}
	if r.Chance(50) {
		methods, urls = methods[:1], urls[:1]
	}
	relVals := []string{"1", "1", "2", "0.5", "1.5", "0.125", ".25", "0", "-1", "abc", "", "1s", "%n", "+1", "3.", "100000",
		"Tue, 14 Nov 2023", "14 Nov 2023 22:13:21 GMT", "DATE", "DATE", "DATE"}
	rid := 0
	for len(tl.ops) <= n {
		key := fmt.Sprintf("m=%s u=%s pp=%%e", prng.Pick(r, methods), proto.Enc(prng.Pick(r, urls)))
		switch x := r.Intn(100); {
		case x < 30:
			rid++
			ra := ""
			if ty == "abs" && r.Chance(80) {
				sec := tl.now/1_000_000_000 + int64(r.Range(-1, 3))
				ra = fmt.Sprint(sec)
				inst := sec * 1_000_000_000
				if r.Chance(25) {
					ra += ".5"
					inst += 500_000_000
				}
				tl.mark(inst)
				tl.mark(inst + tl.now%1_000_000_000)
			} else {
				ra = prng.Pick(r, relVals)
				if ra == "DATE" {
					// an HTTP-date (IMF-fixdate) a few seconds around now: RFC 9110's second form of Retry-After
					sec := tl.now/1_000_000_000 + int64(r.Range(-2, 4))
					ra = time.Unix(sec, 0).UTC().Format(http.TimeFormat)
					tl.mark(sec * 1_000_000_000)
				}
				if f, ok := dyadic[ra]; ok {
					tl.mark(tl.now + f)
				}
			}
			if ra != "%n" {
				ra = proto.Enc(ra)
			}
			tag := "%n"
			if r.Chance(70) {
				tag = fmt.Sprintf("t%d", rid)
			}
			extra := ""
			if caseMix && r.Chance(50) {
				extra += " hn=" + proto.Enc(prng.Pick(r, arriving))
			}
			if caseMix && r.Chance(35) {
				extra += " via=wire"
			}
			tl.ops = append(tl.ops, fmt.Sprintf("resp %s id=r%d st=%d body=%s tag=%s ra=%s%s", key, rid,
				prng.Pick(r, []int{429, 429, 429, 503, 200}), proto.Enc(fmt.Sprintf("slow down %d", rid)), tag, ra, extra))
		case x < 62:
			tl.ops = append(tl.ops, "req "+key)
		case x < 84:
			tl.move()
		case x < 94:
			tl.fire()
		default:
			tl.ops = append(tl.ops, "probe")
		}
	}
	return tl.ops
}

var dyadic = map[string]int64{"1": 1e9, "2": 2e9, "0.5": 5e8, "1.5": 15e8, "0.125": 125e6, ".25": 25e7, "0": 0, "-1": -1e9, "+1": 1e9, "3.": 3e9}

// enumerate calls f with every sequence of length n over alphabet.
func enumerate(alphabet []string, n int, f func([]string)) {
	idx := make([]int, n)
	seq := make([]string, n)
	for {
		for i, j := range idx {
			seq[i] = alphabet[j]
		}
		f(seq)
		k := n - 1
		for k >= 0 {
			idx[k]++
			if idx[k] < len(alphabet) {
				break
			}
			idx[k] = 0
			k--
		}
		if k < 0 {
			return
		}
	}
}

func gen(r *prng.R, f proto.Flags, emit func(proto.Case)) {
	n := 1000
	if f.Tier == "thorough" {
		n = 15000
	}
	n *= f.Budget
	id := 0
	for k := 0; k < n; k++ {
		rr := r.Fork()
		ln := rr.Range(6, 30)
		var ops []string
		switch k % 5 {
		case 0:
			ops = genCache(rr, ln)
		case 1:
			ops = genCaching(rr, ln)
		case 2:
			ops = genThrottle(rr, ln)
		case 3:
			ops = genShared(rr, ln)
		default:
			ops = genTShared(rr, ln)
		}
		ops = maybeMalformed(rr, ops)
		id++
		emit(proto.Case{ID: fmt.Sprintf("g%d", id), Ops: ops})
	}
	if f.Tier != "thorough" {
		return
	}
	// (1) every sequence of 5 operations over a 9-letter alphabet on one/two keys of the raw cache, for 3 size
	//     limits: re-store at/after expiry with the old sleeper released before/after, all firing orders.
	alpha := []string{"set k=a v=x ttl8=1", "set k=a v=yy ttl8=1", "set k=b v=x ttl8=2", "get k=a",
		"skip d=125000000", "skip d=1", "adv d=125000000", "fire i=0", "fire i=1"}
	for _, max := range []string{"none", "3", "4"} {
		enumerate(alpha, 5, func(seq []string) {
			id++
			ops := append([]string{fmt.Sprintf("cfg cache t0=%d max=%s", t0base+1, max)}, seq...)
			ops = append(ops, "get k=a", "get k=b", "probe")
			emit(proto.Case{ID: fmt.Sprintf("e%d", id), Ops: ops})
		})
	}
	// (1c) concurrent callers: every sequence of 5 over 11 letters (two Sets parked before their insert, a Get
	//      parked after its lookup, releases in any order, an ordinary Set, expiry, a late sleeper), 2 size limits.
	alphaG := []string{"cset id=1 k=a v=xx ttl8=1", "cset id=2 k=b v=yy ttl8=1", "cset id=2 k=a v=zz ttl8=2", "crel id=1", "crel id=2",
		"cget id=3 k=a", "crel id=3", "set k=a v=ww ttl8=1", "skip d=125000001", "fire i=0", "get k=a"}
	for _, max := range []string{"3", "6"} {
		enumerate(alphaG, 5, func(seq []string) {
			id++
			ops := append([]string{fmt.Sprintf("cfg cache t0=%d max=%s", t0base+1, max)}, seq...)
			ops = append(ops, "probe", "crel id=1", "crel id=2", "crel id=3", "get k=a", "get k=b", "probe")
			emit(proto.Case{ID: fmt.Sprintf("k%d", id), Ops: ops})
		})
	}
	// (1b) three stores, then the three pending sleepers released in every order (indices 0..2, 27 sequences),
	//      reading both keys after every release: the stale sleepers of overwritten entries fire before/after.
	sets := []string{"set k=a v=x ttl8=1", "set k=a v=yy ttl8=1", "set k=b v=x ttl8=2"}
	for _, gap := range []string{"skip d=125000000", "skip d=125000001", "skip d=1"} {
		enumerate(sets, 3, func(st []string) {
			stores := append([]string{}, st...)
			enumerate([]string{"fire i=0", "fire i=1", "fire i=2"}, 3, func(fs []string) {
				id++
				ops := []string{fmt.Sprintf("cfg cache t0=%d max=12", t0base+1), stores[0], gap, stores[1], gap, stores[2],
					"get k=a", "get k=b", "skip d=250000000", "probe"}
				for _, f := range fs {
					ops = append(ops, f, "get k=a", "get k=b", "probe")
				}
				emit(proto.Case{ID: fmt.Sprintf("s%d", id), Ops: ops})
			})
		})
	}
	// (2) throttling, relative and absolute: every sequence of 5 over 8 letters around one Retry-After.
	for _, ty := range []string{"rel", "abs"} {
		ra := "1"
		if ty == "abs" {
			ra = fmt.Sprint(t0base/1_000_000_000 + 1)
		}
		alphaT := []string{
			"resp m=GET u=a.com/x pp=%e id=r1 st=429 body=one tag=t1 ra=" + ra,
			"resp m=GET u=a.com/x pp=%e id=r2 st=429 body=two tag=%n ra=" + ra,
			"req m=GET u=a.com/x pp=%e", "req m=GET u=a.com/y pp=%e",
			"skip d=999999999", "skip d=1", "adv d=500000000", "fire i=0"}
		enumerate(alphaT, 5, func(seq []string) {
			id++
			ops := append([]string{fmt.Sprintf("cfg throttle t0=%d type=%s statuses=429 hdr=Retry-After", t0base+250_000_000, ty)}, seq...)
			ops = append(ops, "req m=GET u=a.com/x pp=%e")
			emit(proto.Case{ID: fmt.Sprintf("t%d", id), Ops: ops})
		})
	}
	// (3) caching: every sequence of 5 over 8 letters with two colliding-capable parameter maps.
	alphaC := []string{
		"resp m=GET u=a.com/u pp=a:1 id=r1 st=200 body=one tag=t1 ra=%n",
		"resp m=GET u=a.com/u pp=a:2 id=r2 st=200 body=two tag=%n ra=%n",
		"req m=GET u=a.com/u pp=a:1", "req m=GET u=a.com/u pp=a:2",
		"skip d=125000000", "skip d=1", "adv d=125000000", "fire i=0"}
	for _, maxb := range []int{100000, 106, 105} {
		enumerate(alphaC, 5, func(seq []string) {
			id++
			ops := append([]string{fmt.Sprintf("cfg caching t0=%d ttl8=1 maxrec=1000 maxb=%d paths=a", t0base, maxb)}, seq...)
			ops = append(ops, "req m=GET u=a.com/u pp=a:1", "probe")
			emit(proto.Case{ID: fmt.Sprintf("c%d", id), Ops: ops})
		})
	}
	// (4) two remedies with the same key space on the shared plugin: every sequence of 5 over 9 letters.
	alphaS := []string{
		"resp r=0 m=GET u=a.com/u pp=a:1 id=r1 st=200 body=one tag=t1 ra=%n",
		"resp r=1 m=GET u=a.com/u pp=a:1 id=r2 st=200 body=two2 tag=%n ra=%n",
		"req r=0 m=GET u=a.com/u pp=a:1", "req r=1 m=GET u=a.com/u pp=a:1",
		"skip d=125000000", "skip d=1", "adv d=125000000", "fire i=0", "probe"}
	for _, lim := range []string{"r0=1/1000/100000/a r1=2/3/100000/a", "r0=2/1000/104/a r1=1/1000/100000/a"} {
		enumerate(alphaS, 5, func(seq []string) {
			id++
			ops := append([]string{fmt.Sprintf("cfg shared t0=%d %s", t0base, lim)}, seq...)
			ops = append(ops, "req r=0 m=GET u=a.com/u pp=a:1", "probe")
			emit(proto.Case{ID: fmt.Sprintf("h%d", id), Ops: ops})
		})
	}
	_ = strings.Join
}
