package main

import (
	"fmt"
	"strconv"
	"sync"
	"time"

	"verif/harness/internal/detclock"
	"verif/harness/internal/proto"
)

// gateClock is the manual clock plus a gate in Now(): when armed, the next caller of Now() parks there until
// released and then reads the clock.  MemoryCache.Set calls clock.Now() exactly once, between its size
// pre-check and its write-locked insert; Get/Has call it once, after their read-locked map lookup.  So a parked
// call sits exactly between two critical sections - no hook in /repo is needed to schedule them.
// It also separates WALL time from ELAPSED time: Sleep/After live on the manual (elapsed) timeline, Now() adds
// `offset`, which `wstep` moves (NTP step, VM resume) without any time elapsing.
type gateClock struct {
	*detclock.Manual
	mu      sync.Mutex
	offset  time.Duration
	armed   bool
	reached chan chan struct{} // the parked call hands over its release channel
}

func newGateClock(t0 int64) *gateClock {
	return &gateClock{Manual: detclock.NewManual(t0), reached: make(chan chan struct{}, 1)}
}

func (g *gateClock) Now() time.Time {
	g.mu.Lock()
	if g.armed {
		g.armed = false
		g.mu.Unlock()
		rel := make(chan struct{})
		g.reached <- rel
		<-rel
		return g.wall()
	}
	g.mu.Unlock()
	return g.wall()
}

func (g *gateClock) wall() time.Time {
	g.mu.Lock()
	off := g.offset
	g.mu.Unlock()
	return g.Manual.Now().Add(off)
}

func (g *gateClock) Since(t time.Time) time.Duration { return g.wall().Sub(t) }
func (g *gateClock) Until(t time.Time) time.Duration { return t.Sub(g.wall()) }

func (g *gateClock) step(d time.Duration) {
	g.mu.Lock()
	g.offset += d
	g.mu.Unlock()
}

func (g *gateClock) arm(on bool) {
	g.mu.Lock()
	g.armed = on
	g.mu.Unlock()
}

type gatedCall struct {
	rel  chan struct{}
	done chan string
}

// startGated runs f in a goroutine with the gate armed; returns "gated" when it parked in Now(), else its answer.
func (e *env) startGated(id int64, f func() string) string {
	if _, dup := e.gated[id]; dup {
		return "dup"
	}
	done := make(chan string, 1)
	e.gate.arm(true)
	go func() { done <- f() }()
	select {
	case rel := <-e.gate.reached:
		e.gated[id] = &gatedCall{rel: rel, done: done}
		return "gated"
	case ans := <-done:
		e.gate.arm(false)
		e.quiesce()
		return ans
	case <-time.After(5 * time.Second):
		e.stuck = true
		return "stuck"
	}
}

func (e *env) release(id int64) string {
	g, ok := e.gated[id]
	if !ok {
		return "none"
	}
	delete(e.gated, id)
	close(g.rel)
	select {
	case ans := <-g.done:
		e.quiesce()
		return ans
	case <-time.After(5 * time.Second):
		e.stuck = true
		return "stuck"
	}
}

func (e *env) gatedOp(w []string) (string, bool) {
	switch w[0] {
	case "cset":
		id, ok0 := kvN(w[1:], "id")
		k, ok1 := kvS(w[1:], "k")
		v, ok2 := kvS(w[1:], "v")
		ttl8, ok3 := kvI(w[1:], "ttl8")
		if !ok0 || !ok1 || !ok2 || !ok3 {
			return "bad-op", true
		}
		if ttl8 > 1<<23 || ttl8 < -(1<<23) {
			panic("harness: ttl8 out of range")
		}
		e.cnt("gated-set")
		return e.startGated(id, func() string {
			if err := e.mc.Set(k, v, float64(ttl8)/8); err != nil {
				return "err:full"
			}
			return "ok"
		}), true
	case "cget", "chas":
		if len(w) != 3 {
			return "bad-op", true
		}
		id, ok0 := kvN(w[1:], "id")
		k, ok1 := kvS(w[1:], "k")
		if !ok0 || !ok1 {
			return "bad-op", true
		}
		if w[0] == "cget" {
			e.cnt("gated-get")
			return e.startGated(id, func() string {
				if v, found := e.mc.Get(k); found {
					return "hit v=" + proto.Enc(v)
				}
				return "miss"
			}), true
		}
		e.cnt("gated-has")
		return e.startGated(id, func() string { return strconv.FormatBool(e.mc.Has(k)) }), true
	case "wstep":
		if len(w) != 2 {
			return "bad-op", true
		}
		d, ok := kvI(w[1:], "d")
		if !ok {
			return "bad-op", true
		}
		e.gate.step(time.Duration(d))
		e.cnt("wall-step")
		return "ok", true
	case "crel":
		if len(w) != 2 {
			return "bad-op", true
		}
		id, ok := kvN(w[1:], "id")
		if !ok {
			return "bad-op", true
		}
		return e.release(id), true
	}
	return "", false
}

var _ = fmt.Sprint
