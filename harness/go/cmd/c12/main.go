// Harness for C12: drives the real utils.MemoryCache, remedies.CachingPlugin and
// remedies.ResponseBasedThrottlingPlugin on a manual clock.  Every Set starts a real sleeper goroutine that
// registers with detclock.Manual; the harness releases sleepers explicitly (`adv` = timers on time, `skip` +
// `fire i` = a sleeper scheduled late) and waits for quiescence after every operation.
package main

import (
	"fmt"
	"math"
	"os"
	"path/filepath"
	"reflect"
	"runtime"
	"sort"
	"strconv"
	"strings"
	"sync"
	"sync/atomic"
	"time"

	"lunar/engine/actions"
	"lunar/engine/config"
	lunarMessages "lunar/engine/messages"
	"lunar/engine/services/remedies"
	"lunar/engine/utils"
	sharedConfig "lunar/shared-model/config"

	"github.com/rs/zerolog"

	"verif/harness/internal/detclock"
	"verif/harness/internal/proto"
)

const rule = "histories over 2 methods x 2 URLs x path-parameter values (raw cache: 4 keys) with stores, reads, " +
	"clock moves landing on expiry-1ns/expiry/expiry+1ns, late sleepers fired individually, sizes around the limit; " +
	"raw cache also with callers parked between their critical sections (gated clock), several remedies on one plugin; non-trivial = at least one hit/replay AND at least one miss/no-replay after a store of the same key; " +
	"distinct by (ops, answers)"

const mb = 1048576.0
const ttlUnit = 125_000_000 // ns; TTLs are multiples of 1/8 s so that every float conversion in the code is exact

type env struct {
	clk   *detclock.Manual
	gate  *gateClock
	gated map[int64]*gatedCall
	base  int
	mode  string
	mc    *utils.MemoryCache[string, string]
	cp    *remedies.CachingPlugin
	ccfg  sharedConfig.CachingConfig
	rems  []sharedConfig.CachingConfig
	trems []sharedConfig.ResponseBasedThrottlingConfig
	tp    *remedies.ResponseBasedThrottlingPlugin
	tcfg  sharedConfig.ResponseBasedThrottlingConfig
	hdr   string
	o     *proto.Out
	stuck bool
	count bool
}

// quiesce waits until every goroutine started by the code under test is either finished or parked in
// clock.Sleep (registered with the manual clock).  A new goroutine is counted by runtime.NumGoroutine as soon
// as the `go` statement has executed, so the condition is exact as long as `base` is.
func (e *env) quiesce() {
	if e.stuck {
		return
	}
	deadline := time.Now().Add(5 * time.Second)
	for i := 0; ; i++ {
		if runtime.NumGoroutine() <= e.base+len(e.clk.Pending())+len(e.gated) {
			return
		}
		if i < 200 {
			runtime.Gosched()
			continue
		}
		time.Sleep(20 * time.Microsecond)
		if time.Now().After(deadline) {
			e.stuck = true
			return
		}
	}
}

// globalBase is the number of goroutines of the idle harness (measured before the first case).
var globalBase = -1

// waitIdle makes sure no goroutine of an earlier case is still alive.
func waitIdle() bool {
	if globalBase < 0 {
		globalBase = runtime.NumGoroutine()
	}
	deadline := time.Now().Add(5 * time.Second)
	for runtime.NumGoroutine() > globalBase {
		time.Sleep(50 * time.Microsecond)
		if time.Now().After(deadline) {
			return false
		}
	}
	return true
}

func (e *env) cnt(k string) {
	if e.count {
		e.o.Count(k)
	}
}

func kvS(w []string, k string) (string, bool) {
	s, ok := proto.KV(w, k)
	if !ok {
		return "", false
	}
	return proto.Dec(s), true
}

func kvI(w []string, k string) (int64, bool) {
	s, ok := proto.KV(w, k)
	if !ok {
		return 0, false
	}
	n, err := strconv.ParseInt(s, 10, 64)
	if err != nil {
		return 0, false
	}
	return n, true
}

func kvN(w []string, k string) (int64, bool) {
	s, ok := proto.KV(w, k)
	if !ok || s == "" || s[0] == '-' || s[0] == '+' {
		return 0, false
	}
	n, err := strconv.ParseInt(s, 10, 64)
	if err != nil {
		return 0, false
	}
	return n, true
}

func optDec(s string) (string, bool) {
	if s == "%n" {
		return "", false
	}
	return proto.Dec(s), true
}

func optEnc(s string, ok bool) string {
	if !ok {
		return "%n"
	}
	return proto.Enc(s)
}

func parsePP(word string) (map[string]string, bool) {
	s := proto.Dec(word)
	m := map[string]string{}
	if s == "" {
		return m, true
	}
	for _, p := range strings.Split(s, ",") {
		i := strings.IndexByte(p, ':')
		if i < 0 {
			return nil, false
		}
		m[p[:i]] = p[i+1:]
	}
	return m, true
}

// throttlingFromYAML sends the configuration through the production loader (and, for the persisted copy, through
// the production writer and the loader again) and returns what the engine would run with.
func throttlingFromYAML(c sharedConfig.ResponseBasedThrottlingConfig, ty string, persisted bool) (*sharedConfig.ResponseBasedThrottlingConfig, string) {
	dir, err := os.MkdirTemp("", "c12-policies")
	if err != nil {
		panic(err)
	}
	defer os.RemoveAll(dir)
	quote := func(x string) string {
		return `"` + strings.NewReplacer(`\`, `\\`, `"`, `\"`).Replace(x) + `"`
	}
	sts := make([]string, len(c.RelevantStatuses))
	for i, x := range c.RelevantStatuses {
		sts[i] = strconv.Itoa(x)
	}
	y := "endpoints:\n  - url: a.com/x\n    method: GET\n    remedies:\n      - name: provider throttling\n        enabled: true\n" +
		"        config:\n          response_based_throttling:\n            retry_after_header: " + quote(c.RetryAfterHeader) + "\n"
	switch ty {
	case "rel":
		y += "            retry_after_type: relative_seconds\n"
	case "abs":
		y += "            retry_after_type: absolute_epoch\n"
	}
	y += "            relevant_statuses: [" + strings.Join(sts, ", ") + "]\n"
	file := filepath.Join(dir, "policies.yaml")
	if err := os.WriteFile(file, []byte(y), 0o600); err != nil {
		panic(err)
	}
	pick := func(p *sharedConfig.PoliciesConfig) *sharedConfig.ResponseBasedThrottlingConfig {
		if p == nil || len(p.Endpoints) != 1 || len(p.Endpoints[0].Remedies) != 1 {
			return nil
		}
		return p.Endpoints[0].Remedies[0].Config.ResponseBasedThrottling
	}
	loaded, err := config.ReadPoliciesConfig(file)
	if err != nil || pick(loaded) == nil {
		return nil, "err:load"
	}
	if !persisted {
		return pick(loaded), "ok"
	}
	copyFile := filepath.Join(dir, "loaded-policies.yaml")
	if err := config.WritePoliciesConfig(copyFile, loaded); err != nil {
		return nil, "err:persist"
	}
	reloaded, err := config.ReadPoliciesConfig(copyFile)
	if err != nil || pick(reloaded) == nil {
		return nil, "err:reload"
	}
	return pick(reloaded), "ok"
}

func cachingConfig(ttl8, maxrec, maxb int64, paths string) sharedConfig.CachingConfig {
	if ttl8 > 1<<23 || ttl8 < -(1<<23) || maxb >= 1<<24 {
		panic("harness: ttl8/maxb outside the exactly representable range")
	}
	c := sharedConfig.CachingConfig{
		TTLSeconds:            float32(ttl8) / 8,
		MaxRecordSizeBytes:    int(maxrec),
		MaxCacheSizeMegabytes: float32(maxb) / float32(mb),
	}
	if paths != "" {
		for _, p := range strings.Split(paths, ",") {
			pt := sharedConfig.PayloadRequestPathParams.String()
			if strings.HasPrefix(p, "!") {
				pt = sharedConfig.PayloadResponseHeaders.String()
				p = p[1:]
			}
			c.RequestPayloadPaths = append(c.RequestPayloadPaths, sharedConfig.PayloadPath{PayloadType: pt, Path: p})
		}
	}
	return c
}

func (e *env) cfg(w []string) string {
	if e.mode != "" || len(w) < 2 {
		return "bad-op"
	}
	t0, ok := kvI(w[2:], "t0")
	if !ok {
		return "bad-op"
	}
	switch w[1] {
	case "cache":
		mx, ok := proto.KV(w[2:], "max")
		if !ok {
			return "bad-op"
		}
		var maxBytes int64 = -1
		if mx != "none" {
			n, ok := kvN(w[2:], "max")
			if !ok {
				return "bad-op"
			}
			maxBytes = n
		}
		e.gate = newGateClock(t0)
		e.clk = e.gate.Manual
		e.mc = utils.NewMemoryCache[string, string](e.gate)
		if maxBytes >= 0 {
			e.mc.WithMaxCacheSize(func(k, v string) float64 { rvMeet(); return float64(len(k)+len(v)) / 1024 / 1024 },
				float64(maxBytes)/mb)
		}
	case "caching":
		ttl8, ok1 := kvI(w[2:], "ttl8")
		maxrec, ok2 := kvN(w[2:], "maxrec")
		maxb, ok3 := kvN(w[2:], "maxb")
		paths, ok4 := proto.KV(w[2:], "paths")
		if !ok1 || !ok2 || !ok3 || !ok4 {
			return "bad-op"
		}
		e.ccfg = cachingConfig(ttl8, maxrec, maxb, proto.Dec(paths))
		e.hdr = "Retry-After"
		e.clk = detclock.NewManual(t0)
		e.cp = remedies.NewCachingPlugin(e.clk)
	case "tshared":
		for _, name := range []string{"r0", "r1", "r2", "r3"} {
			spec, ok := proto.KV(w[2:], name)
			if !ok {
				continue
			}
			f := strings.Split(spec, "/")
			if len(f) != 3 {
				return "bad-op"
			}
			var c sharedConfig.ResponseBasedThrottlingConfig
			switch f[0] {
			case "rel":
				c.RetryAfterType = sharedConfig.RetryAfterRelativeSeconds
			case "abs":
				c.RetryAfterType = sharedConfig.RetryAfterAbsoluteEpoch
			case "undef":
				c.RetryAfterType = sharedConfig.RetryAfterUndefined
			default:
				return "bad-op"
			}
			if st := proto.Dec(f[1]); st != "" {
				for _, p := range strings.Split(st, ",") {
					n, err := strconv.ParseUint(p, 10, 31)
					if err != nil || strings.HasPrefix(p, "+") {
						return "bad-op"
					}
					c.RelevantStatuses = append(c.RelevantStatuses, int(n))
				}
			}
			c.RetryAfterHeader = proto.Dec(f[2])
			e.trems = append(e.trems, c)
		}
		if len(e.trems) == 0 {
			return "bad-op"
		}
		e.clk = detclock.NewManual(t0)
		e.tp = remedies.NewResponseBasedThrottlingPlugin(e.clk)
	case "shared":
		for _, name := range []string{"r0", "r1", "r2", "r3"} {
			spec, ok := proto.KV(w[2:], name)
			if !ok {
				continue
			}
			f := strings.Split(spec, "/")
			if len(f) != 4 {
				return "bad-op"
			}
			ttl8, err1 := strconv.ParseInt(f[0], 10, 64)
			maxrec, err2 := strconv.ParseInt(f[1], 10, 64)
			maxb, err3 := strconv.ParseInt(f[2], 10, 64)
			if err1 != nil || err2 != nil || err3 != nil || maxrec < 0 || maxb < 0 {
				return "bad-op"
			}
			e.rems = append(e.rems, cachingConfig(ttl8, maxrec, maxb, proto.Dec(f[3])))
		}
		if len(e.rems) == 0 {
			return "bad-op"
		}
		e.hdr = "Retry-After"
		e.clk = detclock.NewManual(t0)
		e.cp = remedies.NewCachingPlugin(e.clk)
	case "throttle":
		ty, ok1 := proto.KV(w[2:], "type")
		sts, ok2 := proto.KV(w[2:], "statuses")
		hdr, ok3 := kvS(w[2:], "hdr")
		if !ok1 || !ok2 || !ok3 {
			return "bad-op"
		}
		switch ty {
		case "rel":
			e.tcfg.RetryAfterType = sharedConfig.RetryAfterRelativeSeconds
		case "abs":
			e.tcfg.RetryAfterType = sharedConfig.RetryAfterAbsoluteEpoch
		case "undef":
			e.tcfg.RetryAfterType = sharedConfig.RetryAfterUndefined
		default:
			return "bad-op"
		}
		if s := proto.Dec(sts); s != "" {
			for _, p := range strings.Split(s, ",") {
				n, err := strconv.ParseUint(p, 10, 31)
				if err != nil || strings.HasPrefix(p, "+") {
					return "bad-op"
				}
				e.tcfg.RelevantStatuses = append(e.tcfg.RelevantStatuses, int(n))
			}
		}
		e.tcfg.RetryAfterHeader = hdr
		e.hdr = hdr
		// where the remedy configuration comes from: a Go struct, the operator's policies YAML read by
		// config.ReadPoliciesConfig, or the gateway's own persisted copy (WritePoliciesConfig -> ReadPoliciesConfig,
		// what a revert to the last loaded policies reads)
		if src, ok := proto.KV(w[2:], "src"); ok && src != "struct" {
			if src != "yaml" && src != "persisted" {
				return "bad-op"
			}
			loaded, ans := throttlingFromYAML(e.tcfg, ty, src == "persisted")
			if loaded == nil {
				return ans
			}
			e.tcfg = *loaded
		}
		e.clk = detclock.NewManual(t0)
		e.tp = remedies.NewResponseBasedThrottlingPlugin(e.clk)
	default:
		return "bad-op"
	}
	e.mode = w[1]
	e.clk.Settle = e.quiesce
	return "ok"
}

func (e *env) clockOp(w []string) (string, bool) {
	switch w[0] {
	case "adv":
		if len(w) != 2 {
			return "bad-op", true
		}
		d, ok := kvN(w[1:], "d")
		if !ok {
			return "bad-op", true
		}
		before := len(e.clk.Pending())
		e.clk.Advance(time.Duration(d))
		return fmt.Sprintf("ok fired=%d", before-len(e.clk.Pending())), true
	case "skip":
		if len(w) != 2 {
			return "bad-op", true
		}
		d, ok := kvN(w[1:], "d")
		if !ok {
			return "bad-op", true
		}
		e.clk.SetNow(e.clk.Now().UnixNano() + d)
		return "ok", true
	case "fire":
		if len(w) != 2 {
			return "bad-op", true
		}
		i, ok := kvN(w[1:], "i")
		if !ok {
			return "bad-op", true
		}
		p := e.clk.Pending()
		if i >= int64(len(p)) {
			return "none", true
		}
		if p[i] > e.clk.Now().UnixNano() {
			return "not-due", true
		}
		e.clk.FireIndex(int(i))
		return "fired", true
	case "probe":
		if len(w) != 1 {
			return "bad-op", true
		}
		return e.probe(), true
	}
	return "", false
}

// probe reads (by reflection, nothing is modified) currentCacheSize, the stored map and sums the real sizes.
func (e *env) probe() string {
	var c reflect.Value
	switch e.mode {
	case "cache":
		c = reflect.ValueOf(e.mc).Elem()
	case "caching", "shared":
		c = reflect.ValueOf(e.cp).Elem().FieldByName("responseCache").Elem().Elem()
	case "throttle", "tshared":
		c = reflect.ValueOf(e.tp).Elem().FieldByName("responseCache").Elem().Elem()
	}
	tr := c.FieldByName("currentCacheSize").Float() * mb
	tracked := fmt.Sprintf("%d", int64(tr))
	if tr != math.Trunc(tr) {
		tracked = "nonint:" + strconv.FormatFloat(tr, 'g', -1, 64)
	}
	m := c.FieldByName("cache")
	held := 0
	it := m.MapRange()
	for it.Next() {
		k, v := it.Key(), it.Value().FieldByName("value")
		switch e.mode {
		case "cache":
			held += len(k.String()) + len(v.String())
		case "caching", "shared":
			held += len(k.FieldByName("Method").String()) + len(k.FieldByName("URL").String()) +
				len(k.FieldByName("HashedRequestPayload").String())
			held += len(v.FieldByName("ID").String()) + len(v.FieldByName("Body").String()) + 12
			hi := v.FieldByName("Headers").MapRange()
			for hi.Next() {
				held += len(hi.Key().String()) + len(hi.Value().String())
			}
		}
	}
	return fmt.Sprintf("tracked=%s held=%d n=%d pending=%d", tracked, held, m.Len(), len(e.clk.Pending()))
}

func (e *env) cacheOp(w []string) string {
	switch w[0] {
	case "set":
		k, ok1 := kvS(w[1:], "k")
		v, ok2 := kvS(w[1:], "v")
		ttl8, ok3 := kvI(w[1:], "ttl8")
		if !ok1 || !ok2 || !ok3 {
			return "bad-op"
		}
		if ttl8 > 1<<23 || ttl8 < -(1<<23) {
			panic("harness: ttl8 out of range")
		}
		err := e.mc.Set(k, v, float64(ttl8)/8)
		e.quiesce()
		if err != nil {
			e.cnt("cache-set-full")
			return "err:full"
		}
		e.cnt("cache-set-ok")
		return "ok"
	case "get", "has", "del", "del2":
		if len(w) != 2 {
			return "bad-op"
		}
		k, ok := kvS(w[1:], "k")
		if !ok {
			return "bad-op"
		}
		switch w[0] {
		case "get":
			v, found := e.mc.Get(k)
			if found {
				e.cnt("cache-hit")
				return "hit v=" + proto.Enc(v)
			}
			e.cnt("cache-miss")
			return "miss"
		case "has":
			return strconv.FormatBool(e.mc.Has(k))
		case "del2":
			// two overlapping removals of one key.  The size function (ours) holds a caller for up to rvWait until
			// a second caller is inside it too: in code that measures the entry under the write lock no second
			// caller can get there (the wait runs out, the answer is that of one removal followed by a no-op);
			// code that measures outside the lock lets both in and they both subtract.
			rvArmed.Store(true)
			var wg sync.WaitGroup
			for g := 0; g < 2; g++ {
				wg.Add(1)
				go func() { defer wg.Done(); e.mc.Del(k) }()
			}
			wg.Wait()
			rvArmed.Store(false)
			e.cnt("cache-del2")
			return "ok"
		default:
			e.mc.Del(k)
			return "ok"
		}
	}
	return "bad-op"
}

func (e *env) pluginOp(w []string) string {
	m, ok1 := kvS(w[1:], "m")
	u, ok2 := kvS(w[1:], "u")
	ppw, ok3 := proto.KV(w[1:], "pp")
	if !ok1 || !ok2 || !ok3 {
		return "bad-op"
	}
	pp, ok := parsePP(ppw)
	if !ok {
		return "bad-op"
	}
	ccfg := &e.ccfg
	if e.mode == "shared" {
		idx, ok := kvN(w[1:], "r")
		if !ok || idx >= int64(len(e.rems)) {
			return "bad-op"
		}
		ccfg = &e.rems[idx]
	}
	caching := e.mode == "caching" || e.mode == "shared"
	switch w[0] {
	case "resp":
		id, ok1 := kvS(w[1:], "id")
		st, ok2 := kvN(w[1:], "st")
		body, ok3 := kvS(w[1:], "body")
		tagw, ok4 := proto.KV(w[1:], "tag")
		raw, ok5 := proto.KV(w[1:], "ra")
		if !ok1 || !ok2 || !ok3 || !ok4 || !ok5 {
			return "bad-op"
		}
		// the Retry-After value arrives under `hn` (default: the configured name); `via=wire` sends the header block
		// through utils.ParseHeaders, as routing/messages_handler.go does (names come out lower-cased)
		name := e.hdr
		wire := false
		if e.mode == "throttle" {
			if hn, ok := kvS(w[1:], "hn"); ok {
				name = hn
			}
			if via, ok := proto.KV(w[1:], "via"); ok {
				if via != "wire" {
					return "bad-op"
				}
				wire = true
			}
		}
		h := map[string]string{}
		if wire {
			block := ""
			if v, ok := optDec(raw); ok {
				block += name + ": " + v + "\r\n"
			}
			if v, ok := optDec(tagw); ok {
				block += "X-Tag: " + v + "\r\n"
			}
			h = utils.ParseHeaders(&block)
		} else {
			if v, ok := optDec(raw); ok {
				h[name] = v
			}
			if v, ok := optDec(tagw); ok {
				h["X-Tag"] = v
			}
		}
		// nil=1: the provider response arrives with a nil header map
		if nl, ok := proto.KV(w[1:], "nil"); ok {
			if nl != "1" || len(h) != 0 {
				return "bad-op"
			}
			h = nil
		}
		// edit=name:value: after the plugin returned, a later remedy of the chain writes this header into the
		// transaction's own header map (retry's x-lunar-retry-after, a ModifyResponseAction, ...)
		var editName, editValue string
		if ed, ok := kvS(w[1:], "edit"); ok {
			i := strings.IndexByte(ed, ':')
			if i <= 0 {
				return "bad-op"
			}
			editName, editValue = ed[:i], ed[i+1:]
		}
		defer func() {
			if editName != "" && h != nil {
				h[editName] = editValue
			}
		}()
		resp := lunarMessages.OnResponse{ID: id, Method: m, URL: u, Status: int(st), Body: body, Headers: h}
		var act actions.RespLunarAction
		var err error
		if caching {
			act, err = e.cp.OnResponse(resp, ccfg, pp)
		} else {
			act, err = e.tp.OnResponse(resp, &e.tcfg)
		}
		e.quiesce()
		if err != nil {
			return "err:" + proto.Enc(err.Error())
		}
		if _, isNoop := act.(*actions.NoOpAction); !isNoop {
			return fmt.Sprintf("other:%T", act)
		}
		return "noop"
	case "req":
		req := lunarMessages.OnRequest{ID: "q", Method: m, URL: u}
		var act actions.ReqLunarAction
		var err error
		if caching {
			act, err = e.cp.OnRequest(req, ccfg, pp)
		} else {
			act, err = e.tp.OnRequest(req, &e.tcfg)
		}
		if err != nil {
			return "err:" + proto.Enc(err.Error())
		}
		switch a := act.(type) {
		case *actions.NoOpAction:
			e.cnt(e.mode + "-noop")
			return "noop"
		case *actions.EarlyResponseAction:
			e.cnt(e.mode + "-replay")
			// the replay is observed where it leaves the engine: the SPOE variables of ReqToSpoeActions, the header
			// dump read as lunar.lua reads it (one header per line, name and value separated by the first ':')
			status, body, headers, okView := spoeView(a)
			if !okView {
				return "early-without-spoe-variables"
			}
			// header names are case-insensitive for the observer: report the value whatever the case of its name
			tag, hasTag := foldGet(headers, "X-Tag")
			ra, hasRa := foldGet(headers, e.hdr)
			extra := len(headers)
			if hasTag {
				extra--
			}
			if hasRa {
				extra--
			}
			out := fmt.Sprintf("early st=%d body=%s tag=%s", status, proto.Enc(body), optEnc(tag, hasTag))
			done := false
			if e.mode == "throttle" && e.tcfg.RetryAfterType == sharedConfig.RetryAfterRelativeSeconds && hasRa {
				if f, err := strconv.ParseFloat(ra, 64); err == nil && math.Abs(f) < 1e6 {
					// seconds -> integer ns; |f| < 1e6 s keeps the rounding error far below 0.5 ns
					out += fmt.Sprintf(" ra-ns=%d", int64(math.Round(f*1e9)))
					done = true
				}
			}
			if !done {
				out += " ra=" + optEnc(ra, hasRa)
			}
			if extra != 0 {
				out += fmt.Sprintf(" extra-headers=%d", extra)
			}
			return out
		default:
			return fmt.Sprintf("other:%T", act)
		}
	}
	return "bad-op"
}

// exec runs one case; if the process could not be brought to quiescence (machine overloaded) the case is
// run again from scratch, and a persistent failure is reported loudly instead of producing unreliable answers.
// tsharedOp: one call of the single throttling plugin under one of several configurations.
func (e *env) tsharedOp(w []string) string {
	idx, ok0 := kvN(w[1:], "r")
	m, ok1 := kvS(w[1:], "m")
	u, ok2 := kvS(w[1:], "u")
	if !ok0 || !ok1 || !ok2 || idx >= int64(len(e.trems)) {
		return "bad-op"
	}
	cfg := &e.trems[idx]
	if w[0] == "resp" {
		id, ok1 := kvS(w[1:], "id")
		st, ok2 := kvN(w[1:], "st")
		body, ok3 := kvS(w[1:], "body")
		hw, ok4 := proto.KV(w[1:], "h")
		if !ok1 || !ok2 || !ok3 || !ok4 {
			return "bad-op"
		}
		h, ok := parsePP(hw)
		if !ok {
			return "bad-op"
		}
		act, err := e.tp.OnResponse(lunarMessages.OnResponse{ID: id, Method: m, URL: u, Status: int(st), Body: body, Headers: h}, cfg)
		e.quiesce()
		if err != nil {
			return "err:" + proto.Enc(err.Error())
		}
		if _, isNoop := act.(*actions.NoOpAction); !isNoop {
			return fmt.Sprintf("other:%T", act)
		}
		return "noop"
	}
	act, err := e.tp.OnRequest(lunarMessages.OnRequest{ID: "q", Method: m, URL: u}, cfg)
	if err != nil {
		return "err:" + proto.Enc(err.Error())
	}
	switch a := act.(type) {
	case *actions.NoOpAction:
		e.cnt("tshared-noop")
		return "noop"
	case *actions.EarlyResponseAction:
		e.cnt("tshared-replay")
		status, body, headers, okView := spoeView(a)
		if !okView {
			return "early-without-spoe-variables"
		}
		names := make([]string, 0, len(headers))
		for k := range headers {
			names = append(names, k)
		}
		sort.Strings(names)
		parts := make([]string, len(names))
		for i, k := range names {
			v := headers[k]
			// the answering configuration's own header under a relative policy is a recomputed float: report it in ns
			if k == cfg.RetryAfterHeader && cfg.RetryAfterType == sharedConfig.RetryAfterRelativeSeconds {
				if f, err := strconv.ParseFloat(v, 64); err == nil && math.Abs(f) < 1e6 {
					v = fmt.Sprintf("#%d", int64(math.Round(f*1e9)))
				}
			}
			parts[i] = k + ":" + v
		}
		return fmt.Sprintf("early st=%d body=%s h=%s", status, proto.Enc(body), proto.Enc(strings.Join(parts, ",")))
	default:
		return fmt.Sprintf("other:%T", act)
	}
}

// spoeView decodes what an early response hands to the proxy.
func spoeView(a *actions.EarlyResponseAction) (status int, body string, headers map[string]string, ok bool) {
	headers = map[string]string{}
	seen := 0
	for _, act := range a.ReqToSpoeActions() {
		switch act.Name {
		case actions.StatusCodeActionName:
			if v, isInt := act.Value.(int); isInt {
				status = v
				seen |= 1
			}
		case actions.ResponseBodyActionName:
			if v, isBytes := act.Value.([]byte); isBytes {
				body = string(v)
				seen |= 2
			}
		case actions.ResponseHeadersActionName:
			if v, isString := act.Value.(string); isString {
				for _, line := range strings.Split(v, "\n") {
					if line == "" {
						continue
					}
					name, value, _ := strings.Cut(line, ":")
					headers[name] = value
				}
				seen |= 4
			}
		}
	}
	return status, body, headers, seen == 7
}

// foldGet looks a header up ignoring the letter case of its name (exact name first; then the smallest matching key).
func foldGet(h map[string]string, name string) (string, bool) {
	if v, ok := h[name]; ok {
		return v, true
	}
	keys := make([]string, 0, len(h))
	for k := range h {
		if strings.EqualFold(k, name) {
			keys = append(keys, k)
		}
	}
	if len(keys) == 0 {
		return "", false
	}
	sort.Strings(keys)
	return h[keys[0]], true
}

func exec(c proto.Case, o *proto.Out) []string {
	for attempt := 0; attempt < 3; attempt++ {
		if !waitIdle() {
			o.Count("harness-idle-timeout")
			globalBase = runtime.NumGoroutine()
		}
		outs, stuck := execOnce(c, o, attempt == 0)
		if !stuck {
			return outs
		}
		o.Count("harness-quiesce-retry")
	}
	panic("harness: no quiescence after 3 attempts (overloaded machine?)")
}

func execOnce(c proto.Case, o *proto.Out, count bool) ([]string, bool) {
	outs := make([]string, len(c.Ops))
	e := &env{o: o, base: globalBase, count: count, gated: map[int64]*gatedCall{}}
	hit, missAfterStore := false, false
	stored := map[string]bool{}
	for i, op := range c.Ops {
		w := strings.Fields(op)
		if len(w) == 0 {
			outs[i] = "bad-op"
			continue
		}
		if w[0] == "cfg" {
			outs[i] = e.cfg(w)
			continue
		}
		if e.mode == "" {
			outs[i] = "bad-op"
			continue
		}
		if ans, ok := e.clockOp(w); ok {
			outs[i] = ans
			continue
		}
		if e.mode == "cache" {
			if ans, ok := e.gatedOp(w); ok {
				outs[i] = ans
				continue
			}
		}
		if e.mode == "tshared" && (w[0] == "resp" || w[0] == "req") {
			outs[i] = e.tsharedOp(w)
			key := ""
			m, _ := proto.KV(w[1:], "m")
			u, _ := proto.KV(w[1:], "u")
			key = m + " " + u
			switch {
			case w[0] == "resp":
				stored[key] = true
			case strings.HasPrefix(outs[i], "early"):
				hit = true
			case outs[i] == "noop" && stored[key]:
				missAfterStore = true
			}
			continue
		}
		switch {
		case e.mode == "cache" && (w[0] == "set" || w[0] == "get" || w[0] == "has" || w[0] == "del" || w[0] == "del2"):
			outs[i] = e.cacheOp(w)
		case e.mode != "cache" && (w[0] == "resp" || w[0] == "req"):
			outs[i] = e.pluginOp(w)
		default:
			outs[i] = "bad-op"
		}
		// bookkeeping for the non-triviality rule
		key := ""
		if k, ok := proto.KV(w[1:], "k"); ok {
			key = k
		} else {
			m, _ := proto.KV(w[1:], "m")
			u, _ := proto.KV(w[1:], "u")
			p, _ := proto.KV(w[1:], "pp")
			key = m + " " + u + " " + p
		}
		switch {
		case (w[0] == "set" && outs[i] == "ok") || w[0] == "resp":
			stored[key] = true
		case strings.HasPrefix(outs[i], "hit") || strings.HasPrefix(outs[i], "early"):
			hit = true
		case (outs[i] == "miss" || (w[0] == "req" && outs[i] == "noop")) && stored[key]:
			missAfterStore = true
		}
	}
	for id := range e.gated {
		e.release(id)
	}
	if e.clk != nil {
		// release every sleeper so that no goroutine of this case survives it
		e.clk.Advance(time.Duration(1) << 61)
		e.quiesce()
	}
	if e.stuck {
		return outs, true
	}
	if e.mode != "" {
		o.Count("mode-" + e.mode)
	}
	if hit && missAfterStore {
		o.NonTrivial(strings.Join(c.Ops, "|") + "#" + strings.Join(outs, "|"))
	}
	return outs, false
}

func main() {
	zerolog.SetGlobalLevel(zerolog.Disabled)
	proto.Main(proto.Harness{Rule: rule, Gen: gen, Exec: exec})
}

var _ = sort.Strings

// rendezvous inside the cache's size function (see "del2")
const rvWait = 25 * time.Millisecond

var (
	rvArmed atomic.Bool
	rvCh    = make(chan struct{})
)

func rvMeet() {
	if !rvArmed.Load() {
		return
	}
	select {
	case rvCh <- struct{}{}:
	case <-rvCh:
	case <-time.After(rvWait):
	}
}
