package main

// The REAL SPOE message handler (routing.Handler through the verif hook routing.VerifHandlerForStream) over a
// real streams.Stream loaded from flow files, for request AND response messages, with the context manager's
// context live or cancelled (the gateway is draining after SIGTERM).
//
//	hreq  ctx=<live|draining> url=<s> hdrs=<hdrs> body=<s> p=<action>…
//	hresp ctx=<live|draining> url=<s> status=<int> hdrs=<hdrs> body=<s> p=<action>…
//
// The `p=` words are the actions the flows of the loaded configuration produce for this message (rendered by the
// generator from a direct Stream.ExecuteFlow on the same arguments; flows are opaque to the model).  Answer: the
// variables the handler leaves in request.Actions.  Model: a response message leaves with the encoding of the
// fold of its produced actions whatever the context; a request message too while live, and with the
// "gateway is shutting down" early response while draining (modelled, not judged).

import (
	"context"
	"fmt"
	"sort"
	"strconv"
	"strings"

	"lunar/engine/actions"
	messages "lunar/engine/messages"
	"lunar/engine/metrics"
	"lunar/engine/routing"
	streamconfig "lunar/engine/streams/config"
	"lunar/engine/streams/processors"
	public_types "lunar/engine/streams/public-types"
	lunar_context "lunar/engine/streams/lunar-context"
	stream_types "lunar/engine/streams/types"
	"lunar/engine/utils"
	context_manager "lunar/toolkit-core/context-manager"

	"github.com/negasus/haproxy-spoe-go/message"
	"github.com/negasus/haproxy-spoe-go/payload/kv"
	"github.com/negasus/haproxy-spoe-go/request"

	"verif/harness/internal/engine"
	"verif/harness/internal/proto"
)

func transformProc(name, dir string, set map[string]string, del []string) string {
	var b strings.Builder
	fmt.Fprintf(&b, "  %s:\n    processor: TransformAPICall\n    parameters:\n", name)
	if len(set) > 0 {
		b.WriteString("      - key: set\n        value:\n")
		keys := make([]string, 0, len(set))
		for k := range set {
			keys = append(keys, k)
		}
		sort.Strings(keys)
		for _, k := range keys {
			fmt.Fprintf(&b, "          \"$.%s.%s\": \"%s\"\n", dir, k, set[k])
		}
	}
	if len(del) > 0 {
		b.WriteString("      - key: delete\n        value:\n")
		for _, d := range del {
			fmt.Fprintf(&b, "          - \"$.%s.%s\"\n", dir, d)
		}
	}
	return b.String()
}

func chain(names []string) string {
	var b strings.Builder
	if len(names) == 0 {
		return ""
	}
	fmt.Fprintf(&b, "    - from:\n        stream:\n          name: globalStream\n          at: start\n      to:\n        processor:\n          name: %s\n", names[0])
	for i := 1; i < len(names); i++ {
		fmt.Fprintf(&b, "    - from:\n        processor:\n          name: %s\n      to:\n        processor:\n          name: %s\n", names[i-1], names[i])
	}
	fmt.Fprintf(&b, "    - from:\n        processor:\n          name: %s\n      to:\n        stream:\n          name: globalStream\n          at: end\n", names[len(names)-1])
	return b.String()
}

// handlerFlows: the configuration every handler case loads.
func handlerFlows() map[string]string {
	flowA := "name: FlowA\nfilter:\n  url: flowa.test/*\nprocessors:\n" +
		transformProc("ReqA", "request", map[string]string{"headers['x-first']": "one"}, nil) +
		transformProc("RespA", "response", map[string]string{"headers['x-resp']": "one"}, nil) +
		"flow:\n  request:\n" + chain([]string{"ReqA"}) + "  response:\n" + chain([]string{"RespA"})
	flowB := "name: FlowB\nfilter:\n  url: flowb.test/*\nprocessors:\n" +
		transformProc("ReqB1", "request", map[string]string{"headers['x-first']": "one", "headers['x-b']": "1"}, nil) +
		transformProc("ReqB2", "request", map[string]string{"headers['x-first']": "uno"}, []string{"headers['x-b']"}) +
		transformProc("RespB1", "response", map[string]string{"headers['x-resp']": "one", "headers['x-b']": "1"}, nil) +
		transformProc("RespB2", "response", map[string]string{"headers['x-resp']": "uno", "body.a": "changed"}, []string{"headers['x-b']"}) +
		"flow:\n  request:\n" + chain([]string{"ReqB1", "ReqB2"}) + "  response:\n" + chain([]string{"RespB1", "RespB2"})
	flowC := "name: FlowC\nfilter:\n  url: flowc.test/*\nprocessors:\n" +
		"  BrewFilter:\n    processor: Filter\n    parameters:\n      - key: url\n        value: flowc.test/*\n" +
		"  Teapot:\n    processor: GenerateResponse\n    parameters:\n      - key: status\n        value: 418\n      - key: body\n        value: short and stout\n" +
		transformProc("RespC", "response", map[string]string{"headers['x-resp']": "c"}, nil) +
		"flow:\n  request:\n" +
		"    - from:\n        stream:\n          name: globalStream\n          at: start\n      to:\n        processor:\n          name: BrewFilter\n" +
		"    - from:\n        processor:\n          name: BrewFilter\n          condition: hit\n      to:\n        processor:\n          name: Teapot\n" +
		"    - from:\n        processor:\n          name: BrewFilter\n          condition: miss\n      to:\n        stream:\n          name: globalStream\n          at: end\n" +
		"  response:\n" +
		"    - from:\n        processor:\n          name: Teapot\n      to:\n        processor:\n          name: RespC\n" +
		"    - from:\n        processor:\n          name: RespC\n      to:\n        stream:\n          name: globalStream\n          at: end\n"
	files := map[string]string{"flows/a.yaml": flowA, "flows/b.yaml": flowB, "flows/c.yaml": flowC}
	for host, dirs := range emitFlows {
		name := "Emit" + strings.ToUpper(host[4:5])
		files["flows/"+name+".yaml"] = emitFlowYAML(name, host, dirs)
	}
	return files
}

// VEmit: a scripted processor for flows mode.  It emits the configured action (any kind) with the configured
// ProcessorIO type (the real retry processor, e.g., emits its RetryRequestAction with IO type "request"), so that the
// REAL collection step of streams/stream.ExecuteFlow is exercised with every action kind in every position.
const emitDef = `name: VEmit
description: verification processor emitting a configured action
exec: vemit.go
parameters:
  act:
    type: string
    description: percent-encoded rendering of the action to emit
    required: true
  io:
    type: string
    description: ProcessorIO type (request, response, any)
    default: "any"
    required: false
output_streams:
  - type: StreamTypeAny
input_stream:
  type: StreamTypeAny
`

type emitProc struct {
	name string
	act  string
	io   public_types.StreamType
}

func (p *emitProc) GetName() string { return p.name }
func (p *emitProc) GetRequirement() *stream_types.ProcessorRequirement {
	return &stream_types.ProcessorRequirement{}
}

func (p *emitProc) Execute(_ string, apiStream public_types.APIStreamI) (stream_types.ProcessorIO, error) {
	obj, ok := parseObj(strings.Fields(p.act)) // a FRESH action object per execution
	io := stream_types.ProcessorIO{Type: p.io}
	if !ok {
		return io, fmt.Errorf("VEmit: bad action %q", p.act)
	}
	if apiStream.GetType() == public_types.StreamTypeRequest {
		if a, isReq := obj.(actions.ReqLunarAction); isReq {
			io.ReqAction = a
		}
	} else if a, isResp := obj.(actions.RespLunarAction); isResp {
		io.RespAction = a
	}
	return io, nil
}

func emitFactory(md *stream_types.ProcessorMetaData) (stream_types.ProcessorI, error) {
	p := &emitProc{name: md.Name, io: public_types.StreamTypeAny}
	if v, ok := md.Parameters["act"]; ok && v.Value != nil {
		p.act = proto.Dec(v.Value.GetString())
	}
	if v, ok := md.Parameters["io"]; ok && v.Value != nil {
		switch v.Value.GetString() {
		case "request":
			p.io = public_types.StreamTypeRequest
		case "response":
			p.io = public_types.StreamTypeResponse
		}
	}
	return p, nil
}

type emitSpec struct{ act, io string }

// scripted flows: url prefix -> emitted actions per direction (what the processors produce, by construction)
var emitFlows = map[string][2][]emitSpec{
	"flowd.test": {
		{{"modhdr h=x-first|one;x|1", "request"}, {"genreq h=x-gen|g;x|2 rm=content-length body=g", "request"}, {"modhdr h=x-after|a", "any"}},
		{{"noop", "response"}, {"retry h=x-retry|r", "request"}, {"noop", "any"}},
	},
	"flowe.test": {
		{{"modreq h=x-first|one host=h2 path=/p2 query=%e body=%e", "request"}, {"noop", "any"}, {"early status=429 body=slow h=retry-after|1", "request"}, {"modhdr h=x-after|a", "request"}},
		{{"modresp h=x-resp|one body=b1 status=201", "response"}, {"retry h=x-retry|r", "request"}, {"modresp h=x-resp|uno;y|Y body=b2 status=404", "any"}},
	},
	"flowf.test": {
		{{"genreq h=x-gen|g rm=_ body=%e", "any"}, {"genreq h=x-gen|g2;z|Z rm=a body=b", "request"}, {"modreq h=x-first|one host=%e path=%e query=q=1 body=%e", "request"}},
		{{"retry h=x-retry|r", "request"}, {"retry h=x-retry|r2;z|Z", "any"}, {"noop", "response"}},
	},
}

func emitFlowYAML(name, host string, dirs [2][]emitSpec) string {
	var b strings.Builder
	fmt.Fprintf(&b, "name: %s\nfilter:\n  url: %s/*\nprocessors:\n", name, host)
	var names [2][]string
	for d, list := range dirs {
		for i, e := range list {
			n := fmt.Sprintf("%s%c%d", name, "QS"[d], i)
			names[d] = append(names[d], n)
			fmt.Fprintf(&b, "  %s:\n    processor: VEmit\n    parameters:\n      - key: act\n        value: \"%s\"\n      - key: io\n        value: %s\n", n, proto.Enc(e.act), e.io)
		}
	}
	b.WriteString("flow:\n  request:\n" + chain(names[0]) + "  response:\n" + chain(names[1]))
	return b.String()
}

type handlerRig struct {
	eng     *engine.Engine
	handler routing.MessageHandler
	seq     int
}

func newHandlerRig() (*handlerRig, error) {
	e, err := engine.NewWith(handlerFlows(), engine.Options{
		Defs:      map[string]string{"VEmit": emitDef},
		Factories: map[string]processors.ProcessorFactory{"VEmit": emitFactory},
	})
	if err != nil {
		return nil, err
	}
	context_manager.Get().WithContext(context.Background())
	mm, _ := metrics.NewMetricManager()
	return &handlerRig{eng: e, handler: routing.VerifHandlerForStream(e.Stream, mm)}, nil
}

func (r *handlerRig) close() {
	context_manager.Get().WithContext(context.Background())
	r.eng.Close()
}

func headerString(h map[string]string) string {
	keys := make([]string, 0, len(h))
	for k := range h {
		keys = append(keys, k)
	}
	sort.Strings(keys)
	var b strings.Builder
	for _, k := range keys {
		fmt.Fprintf(&b, "%s: %s\n", k, h[k])
	}
	return b.String()
}

type hmsg struct {
	isReq  bool
	url    string
	status int
	hdrs   map[string]string
	body   string
}

func parseHMsg(isReq bool, w []string) (m hmsg, draining bool, produced []string, ok bool) {
	m.isReq = isReq
	ctxSeen := false
	for _, x := range w {
		switch {
		case x == "ctx=live":
			ctxSeen = true
		case x == "ctx=draining":
			ctxSeen, draining = true, true
		case strings.HasPrefix(x, "url="):
			m.url = proto.Dec(x[4:])
		case strings.HasPrefix(x, "status="):
			n, err := strconv.Atoi(x[7:])
			if err != nil {
				return m, false, nil, false
			}
			m.status = n
		case strings.HasPrefix(x, "hdrs="):
			h, okh := parseHdrs(x[5:])
			if !okh {
				return m, false, nil, false
			}
			m.hdrs = h
		case strings.HasPrefix(x, "body="):
			m.body = proto.Dec(x[5:])
		case strings.HasPrefix(x, "p="):
			produced = append(produced, proto.Dec(x[2:]))
		default:
			return m, false, nil, false
		}
	}
	return m, draining, produced, ctxSeen
}

func pathOf(url string) string {
	if i := strings.IndexByte(url, '/'); i >= 0 {
		return url[i:]
	}
	return "/"
}

// producedBy runs the loaded flows directly (Stream.ExecuteFlow) on the message and renders the collected actions.
func (r *handlerRig) producedBy(m hmsg, id string) []string {
	if i := strings.IndexByte(m.url, '/'); i > 0 {
		if dirs, scripted := emitFlows[m.url[:i]]; scripted {
			// what the scripted processors produce, by construction (independent of the collection in ExecuteFlow)
			d := 1
			if m.isReq {
				d = 0
			}
			var out []string
			for _, e := range dirs[d] {
				obj, _ := parseObj(strings.Fields(e.act))
				out = append(out, fmtAction(obj))
			}
			return out
		}
	}
	hs := headerString(m.hdrs)
	var out []string
	state := lunar_context.NewMemoryState[[]byte]()
	if m.isReq {
		args := messages.OnRequest{LunarName: messages.LunarFullRequest, ID: id, SequenceID: id, Method: "GET", Scheme: "https",
			URL: m.url, Path: pathOf(m.url), Headers: utils.ParseHeaders(&hs), RawBody: []byte(m.body)}
		acts := &streamconfig.StreamActions{Request: &streamconfig.RequestStream{}}
		if err := r.eng.Stream.ExecuteFlow(stream_types.NewRequestAPIStream(args, state), acts); err != nil {
			return []string{"error"}
		}
		for _, a := range acts.Request.Actions {
			out = append(out, fmtAction(a))
		}
		return out
	}
	args := messages.OnResponse{LunarName: messages.LunarFullResponse, ID: id, SequenceID: id, Method: "GET", URL: m.url,
		Status: m.status, Headers: utils.ParseHeaders(&hs), RawBody: []byte(m.body)}
	acts := &streamconfig.StreamActions{Response: &streamconfig.ResponseStream{}}
	if err := r.eng.Stream.ExecuteFlow(stream_types.NewResponseAPIStream(args, state), acts); err != nil {
		return []string{"error"}
	}
	for _, a := range acts.Response.Actions {
		out = append(out, fmtAction(a))
	}
	return out
}

func (r *handlerRig) send(m hmsg, draining bool) string {
	r.seq++
	id := fmt.Sprintf("h%d", r.seq)
	kvs := kv.NewKV()
	kvs.Add("id", id)
	kvs.Add("sequence_id", id)
	kvs.Add("method", "GET")
	kvs.Add("url", m.url)
	kvs.Add("headers", headerString(m.hdrs))
	kvs.Add("body", []byte(m.body))
	name := messages.LunarFullResponse
	if m.isReq {
		name = messages.LunarFullRequest
		kvs.Add("scheme", "https")
		kvs.Add("path", pathOf(m.url))
		kvs.Add("query", "")
	} else {
		kvs.Add("status", int64(m.status))
	}
	req := &request.Request{Messages: &message.Messages{{Name: name, KV: kvs}}}
	cm := context_manager.Get()
	if draining {
		ctx, cancel := context.WithCancel(context.Background())
		cancel()
		cm.WithContext(ctx)
	} else {
		cm.WithContext(context.Background())
	}
	r.handler(req)
	cm.WithContext(context.Background())
	return fmtSpoe(req.Actions)
}

func execHandlerOp(rig **handlerRig, isReq bool, w []string) string {
	m, draining, want, ok := parseHMsg(isReq, w)
	if !ok {
		return "bad-op"
	}
	if *rig == nil {
		r, err := newHandlerRig()
		if err != nil {
			return "err:engine " + proto.Enc(err.Error())
		}
		*rig = r
	}
	got := (*rig).producedBy(m, fmt.Sprintf("d%d", (*rig).seq))
	if strings.Join(got, "\x00") != strings.Join(want, "\x00") {
		return "err:produced-differs " + proto.Enc(strings.Join(got, " ; "))
	}
	return (*rig).send(m, draining)
}

// handlerOp renders an op line (with its p= words) for the generator.
func handlerOp(rig *handlerRig, m hmsg, draining bool) string {
	op, ctx := "hresp", "live"
	if m.isReq {
		op = "hreq"
	}
	if draining {
		ctx = "draining"
	}
	line := fmt.Sprintf("%s ctx=%s url=%s", op, ctx, proto.Enc(m.url))
	if !m.isReq {
		line += fmt.Sprintf(" status=%d", m.status)
	}
	line += " hdrs=" + fmtHdrs(m.hdrs) + " body=" + proto.Enc(m.body)
	for _, p := range rig.producedBy(m, "g") {
		line += " p=" + proto.Enc(p)
	}
	return line
}

var _ = actions.NoOpAction{}
