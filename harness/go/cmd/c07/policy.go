package main

// Policy-mode fold sites: runner.runOnRequest / runOnResponse are reached through the exported
// runner.DispatchOnRequest / DispatchOnResponse with REAL remedy plugins.  An action object of the
// case is turned into a remedy that produces exactly that action:
//   noop                                   -> account_orchestration with an account without tokens
//   early status=S (fixed body/headers)    -> fixed_response status_code=S (request carries early-response: true)
//   modreq h=H (H non-empty, rest empty)   -> account_orchestration with an account whose tokens are H
//   (response) noop                        -> fixed_response (its OnResponse is a no-op)
//   (response) modresp h={x-lunar-retry-after:N} body="" status=0 -> retry attempts=1 initial_cooldown_seconds=N
// Anything else is answered `err:not-expressible-as-remedy` (the model applies the same rule).

import (
	"fmt"
	"sort"
	"strconv"

	"lunar/engine/actions"
	"lunar/engine/config"
	messages "lunar/engine/messages"
	"lunar/engine/runner"
	"lunar/engine/services"
	"lunar/engine/services/remedies"
	sharedConfig "lunar/shared-model/config"
	"lunar/toolkit-core/clock"

	spoe "github.com/negasus/haproxy-spoe-go/action"
)

const fixedBody = "{\"message\": \"GO Lunar\"}"
const fixedHdrName, fixedHdrValue = "powered-by", "Lunar Interventions Inc."

func newPolicyServices() *services.PoliciesServices {
	clk := clock.NewMockClock()
	return &services.PoliciesServices{
		Remedies: services.RemedyPlugins{
			FixedResponsePlugin:        remedies.NewFixedResponsePlugin(clk),
			AccountOrchestrationPlugin: remedies.NewAccountOrchestrationPlugin(),
			RetryPlugin:                remedies.NewRetryPlugin(clk),
		},
	}
}

// stripActive removes the trailing `<request|response>_active_remedies` variable the dispatcher appends.
func stripActive(as spoe.Actions, name string) (spoe.Actions, bool) {
	if len(as) == 0 || as[len(as)-1].Name != name {
		return as, false
	}
	return as[:len(as)-1], true
}

func reqPolicy(objs []any) string {
	pc := &sharedConfig.PoliciesConfig{Accounts: map[sharedConfig.AccountID]sharedConfig.Account{}}
	headers := map[string]string{}
	for i, obj := range objs {
		name := fmt.Sprintf("r%d", i)
		switch x := obj.(type) {
		case *actions.NoOpAction:
			acc := sharedConfig.AccountID(name)
			pc.Accounts[acc] = sharedConfig.Account{}
			pc.Global.Remedies = append(pc.Global.Remedies, sharedConfig.Remedy{Enabled: true, Name: name,
				Config: sharedConfig.RemedyConfig{AccountOrchestration: &sharedConfig.AccountOrchestrationConfig{
					RoundRobin: []sharedConfig.AccountID{acc}}}})
		case *actions.EarlyResponseAction:
			if x.Body != fixedBody || len(x.Headers) != 1 || x.Headers[fixedHdrName] != fixedHdrValue {
				return "err:not-expressible-as-remedy"
			}
			headers["early-response"] = "true"
			pc.Global.Remedies = append(pc.Global.Remedies, sharedConfig.Remedy{Enabled: true, Name: name,
				Config: sharedConfig.RemedyConfig{FixedResponse: &sharedConfig.FixedResponseConfig{StatusCode: x.Status}}})
		case *actions.ModifyRequestAction:
			if len(x.HeadersToSet) == 0 || x.Host != "" || x.Path != "" || x.QueryParams != "" || x.Body != "" {
				return "err:not-expressible-as-remedy"
			}
			keys := make([]string, 0, len(x.HeadersToSet))
			for k := range x.HeadersToSet {
				keys = append(keys, k)
			}
			sort.Strings(keys)
			var toks []sharedConfig.Token
			for _, k := range keys {
				toks = append(toks, sharedConfig.Token{Header: &sharedConfig.Header{Name: k, Value: x.HeadersToSet[k]}})
			}
			acc := sharedConfig.AccountID(name)
			pc.Accounts[acc] = sharedConfig.Account{Tokens: toks}
			pc.Global.Remedies = append(pc.Global.Remedies, sharedConfig.Remedy{Enabled: true, Name: name,
				Config: sharedConfig.RemedyConfig{AccountOrchestration: &sharedConfig.AccountOrchestrationConfig{
					RoundRobin: []sharedConfig.AccountID{acc}}}})
		default:
			return "err:not-expressible-as-remedy"
		}
	}
	tree, err := config.BuildEndpointPolicyTree(nil)
	if err != nil {
		return "err:policy-tree"
	}
	req := messages.OnRequest{ID: "t1", SequenceID: "t1", Method: "GET", Scheme: "https", URL: "verif.test/c07",
		Path: "/c07", Headers: headers}
	out, err := runner.DispatchOnRequest(req, tree, pc, newPolicyServices(), runner.NewDiagnosisWorker())
	if err != nil {
		return "err:dispatch"
	}
	out, ok := stripActive(out, "request_active_remedies")
	if !ok {
		return "err:no-active-remedies-variable " + fmtSpoe(out)
	}
	return fmtSpoe(out)
}

func respPolicy(objs []any) string {
	var global sharedConfig.Global
	for i, obj := range objs {
		name := fmt.Sprintf("r%d", i)
		switch x := obj.(type) {
		case *actions.NoOpAction:
			global.Remedies = append(global.Remedies, sharedConfig.Remedy{Enabled: true, Name: name,
				Config: sharedConfig.RemedyConfig{FixedResponse: &sharedConfig.FixedResponseConfig{StatusCode: 200}}})
		case *actions.ModifyResponseAction:
			v, has := x.HeadersToSet[remedies.LunarRetryAfterHeaderName]
			n, err := strconv.Atoi(v)
			if !has || len(x.HeadersToSet) != 1 || err != nil || n < 0 || strconv.Itoa(n) != v || x.Body != "" || x.Status != 0 {
				return "err:not-expressible-as-remedy"
			}
			global.Remedies = append(global.Remedies, sharedConfig.Remedy{Enabled: true, Name: name,
				Config: sharedConfig.RemedyConfig{Retry: &sharedConfig.RetryConfig{Attempts: 1, InitialCooldownSeconds: n,
					CooldownMultiplier: 1,
					// 0..599: the first ModifyResponseAction (Status 0) is written into the arguments by
					// EnsureResponseIsUpdated before the next remedy runs
					Conditions: sharedConfig.RetryConfigConditions{StatusCode: []sharedConfig.Range[int]{{From: 0, To: 599}}}}}})
		default:
			return "err:not-expressible-as-remedy"
		}
	}
	tree, err := config.BuildEndpointPolicyTree(nil)
	if err != nil {
		return "err:policy-tree"
	}
	resp := messages.OnResponse{ID: "t1", SequenceID: "t1", Method: "GET", URL: "verif.test/c07", Status: 503,
		Headers: map[string]string{}}
	out, err := runner.DispatchOnResponse(resp, tree, &global, newPolicyServices(), runner.NewDiagnosisWorker())
	if err != nil {
		return "err:dispatch"
	}
	out, ok := stripActive(out, "response_active_remedies")
	if !ok {
		return "err:no-active-remedies-variable " + fmtSpoe(out)
	}
	return fmtSpoe(out)
}
