package main

// Policy-mode fold sites: runner.runOnRequest / runOnResponse are reached through the exported
// runner.DispatchOnRequest / DispatchOnResponse with REAL remedy plugins.  An action object of the
// case is turned into a remedy that produces exactly that action:
//   noop                                   -> account_orchestration with an account without tokens
//   early status=S (fixed body/headers)    -> fixed_response status_code=S (request carries early-response: true)
//   modreq h=H (H non-empty, rest empty)   -> account_orchestration with an account whose tokens are H
//   (response) noop                        -> fixed_response (its OnResponse is a no-op)
//   (response) modresp h={x-lunar-retry-after:N} body="" status=0 -> retry attempts=1 initial_cooldown_seconds=N
// Anything else is answered `err:not-expressible-as-remedy` (the model applies the same rule).

import (
	"fmt"
	"sort"
	"strconv"
	"strings"
	"time"

	"lunar/engine/actions"
	"lunar/engine/config"
	messages "lunar/engine/messages"
	"lunar/engine/runner"
	"lunar/engine/services"
	"lunar/engine/services/remedies"
	sharedConfig "lunar/shared-model/config"
	"lunar/toolkit-core/clock"

	spoe "github.com/negasus/haproxy-spoe-go/action"

	"verif/harness/internal/proto"
)

const fixedBody = "{\"message\": \"GO Lunar\"}"
const fixedHdrName, fixedHdrValue = "powered-by", "Lunar Interventions Inc."

func newPolicyServices() *services.PoliciesServices {
	clk := clock.NewMockClock()
	return &services.PoliciesServices{
		Remedies: services.RemedyPlugins{
			FixedResponsePlugin:        remedies.NewFixedResponsePlugin(clk),
			AccountOrchestrationPlugin: remedies.NewAccountOrchestrationPlugin(),
			RetryPlugin:                remedies.NewRetryPlugin(clk),
		},
	}
}

// stripActive removes the trailing `<request|response>_active_remedies` variable the dispatcher appends.
func stripActive(as spoe.Actions, name string) (spoe.Actions, bool) {
	if len(as) == 0 || as[len(as)-1].Name != name {
		return as, false
	}
	return as[:len(as)-1], true
}

func reqPolicy(objs []any) string {
	pc := &sharedConfig.PoliciesConfig{Accounts: map[sharedConfig.AccountID]sharedConfig.Account{}}
	headers := map[string]string{}
	for i, obj := range objs {
		name := fmt.Sprintf("r%d", i)
		switch x := obj.(type) {
		case *actions.NoOpAction:
			acc := sharedConfig.AccountID(name)
			pc.Accounts[acc] = sharedConfig.Account{}
			pc.Global.Remedies = append(pc.Global.Remedies, sharedConfig.Remedy{Enabled: true, Name: name,
				Config: sharedConfig.RemedyConfig{AccountOrchestration: &sharedConfig.AccountOrchestrationConfig{
					RoundRobin: []sharedConfig.AccountID{acc}}}})
		case *actions.EarlyResponseAction:
			if x.Body != fixedBody || len(x.Headers) != 1 || x.Headers[fixedHdrName] != fixedHdrValue {
				return "err:not-expressible-as-remedy"
			}
			headers["early-response"] = "true"
			pc.Global.Remedies = append(pc.Global.Remedies, sharedConfig.Remedy{Enabled: true, Name: name,
				Config: sharedConfig.RemedyConfig{FixedResponse: &sharedConfig.FixedResponseConfig{StatusCode: x.Status}}})
		case *actions.ModifyRequestAction:
			if len(x.HeadersToSet) == 0 || x.Host != "" || x.Path != "" || x.QueryParams != "" || x.Body != "" {
				return "err:not-expressible-as-remedy"
			}
			keys := make([]string, 0, len(x.HeadersToSet))
			for k := range x.HeadersToSet {
				keys = append(keys, k)
			}
			sort.Strings(keys)
			var toks []sharedConfig.Token
			for _, k := range keys {
				toks = append(toks, sharedConfig.Token{Header: &sharedConfig.Header{Name: k, Value: x.HeadersToSet[k]}})
			}
			acc := sharedConfig.AccountID(name)
			pc.Accounts[acc] = sharedConfig.Account{Tokens: toks}
			pc.Global.Remedies = append(pc.Global.Remedies, sharedConfig.Remedy{Enabled: true, Name: name,
				Config: sharedConfig.RemedyConfig{AccountOrchestration: &sharedConfig.AccountOrchestrationConfig{
					RoundRobin: []sharedConfig.AccountID{acc}}}})
		default:
			return "err:not-expressible-as-remedy"
		}
	}
	tree, err := config.BuildEndpointPolicyTree(nil)
	if err != nil {
		return "err:policy-tree"
	}
	req := messages.OnRequest{ID: "t1", SequenceID: "t1", Method: "GET", Scheme: "https", URL: "verif.test/c07",
		Path: "/c07", Headers: headers}
	out, err := runner.DispatchOnRequest(req, tree, pc, newPolicyServices(), runner.NewDiagnosisWorker())
	if err != nil {
		return "err:dispatch"
	}
	out, ok := stripActive(out, "request_active_remedies")
	if !ok {
		return "err:no-active-remedies-variable " + fmtSpoe(out)
	}
	return fmtSpoe(out)
}

func respPolicy(objs []any) string {
	var global sharedConfig.Global
	for i, obj := range objs {
		name := fmt.Sprintf("r%d", i)
		switch x := obj.(type) {
		case *actions.NoOpAction:
			global.Remedies = append(global.Remedies, sharedConfig.Remedy{Enabled: true, Name: name,
				Config: sharedConfig.RemedyConfig{FixedResponse: &sharedConfig.FixedResponseConfig{StatusCode: 200}}})
		case *actions.ModifyResponseAction:
			v, has := x.HeadersToSet[remedies.LunarRetryAfterHeaderName]
			n, err := strconv.Atoi(v)
			if !has || len(x.HeadersToSet) != 1 || err != nil || n < 0 || strconv.Itoa(n) != v || x.Body != "" || x.Status != 0 {
				return "err:not-expressible-as-remedy"
			}
			global.Remedies = append(global.Remedies, sharedConfig.Remedy{Enabled: true, Name: name,
				Config: sharedConfig.RemedyConfig{Retry: &sharedConfig.RetryConfig{Attempts: 1, InitialCooldownSeconds: n,
					CooldownMultiplier: 1,
					// 0..599: the first ModifyResponseAction (Status 0) is written into the arguments by
					// EnsureResponseIsUpdated before the next remedy runs
					Conditions: sharedConfig.RetryConfigConditions{StatusCode: []sharedConfig.Range[int]{{From: 0, To: 599}}}}}})
		default:
			return "err:not-expressible-as-remedy"
		}
	}
	tree, err := config.BuildEndpointPolicyTree(nil)
	if err != nil {
		return "err:policy-tree"
	}
	resp := messages.OnResponse{ID: "t1", SequenceID: "t1", Method: "GET", URL: "verif.test/c07", Status: 503,
		Headers: map[string]string{}}
	out, err := runner.DispatchOnResponse(resp, tree, &global, newPolicyServices(), runner.NewDiagnosisWorker())
	if err != nil {
		return "err:dispatch"
	}
	out, ok := stripActive(out, "response_active_remedies")
	if !ok {
		return "err:no-active-remedies-variable " + fmtSpoe(out)
	}
	return fmtSpoe(out)
}

// ---------------------------------------------------------------- legacy dispatch with remedy specs
//
// `legacyreq h=<request headers> <remedy>…` / `legacyresp status=<S> <remedy>…`: the configured global
// remedies, in order, on the REAL runner.DispatchOnRequest / DispatchOnResponse (runOnRequest,
// obtainModifiedEarlyResponse, runOnResponse) with the real plugins:
//   fixed=<S>         fixed_response{status_code S}     (answers when the request carries early-response: true)
//   acct=<hdrs>       account_orchestration, one account whose tokens are <hdrs>
//   apikey=<hdrs>     authentication with an api_key account
//   oauth=<secret>    authentication with an o_auth account {client_secret: secret}  (GenerateRequestAction)
//   retry=<N>,<lo>,<hi>  retry{attempts 1, initial_cooldown_seconds N, status_code lo..hi}
//   throttle=<S>      concurrency_based_throttling{max_concurrent_requests 0, response_status_code S}
//   cache=on          caching (one URL, so one record): stores on the response leg, answers a hit on the request leg
// All legacy ops of one case share ONE set of plugin objects (legacyState): a case is a sequence of transactions.
// The *_active_remedies variables are removed from the answer.

func parseHdrList(s string) ([][2]string, bool) {
	if s == "_" {
		return nil, true
	}
	var out [][2]string
	seen := map[string]int{}
	for _, item := range splitNonEmpty(s, ";") {
		kv := splitNonEmpty(item, "|")
		if len(kv) != 2 {
			return nil, false
		}
		k, v := proto.Dec(kv[0]), proto.Dec(kv[1])
		if i, dup := seen[k]; dup { // like the driver: a later binding replaces the earlier one, at the end
			out = append(out[:i], out[i+1:]...)
			for kk, ii := range seen {
				if ii > i {
					seen[kk] = ii - 1
				}
			}
		}
		seen[k] = len(out)
		out = append(out, [2]string{k, v})
	}
	return out, true
}

func splitNonEmpty(s, sep string) []string { return strings.Split(s, sep) }

func buildLegacy(words []string) (*sharedConfig.PoliciesConfig, bool) {
	pc := &sharedConfig.PoliciesConfig{Accounts: map[sharedConfig.AccountID]sharedConfig.Account{}}
	for i, w := range words {
		eq := strings.IndexByte(w, '=')
		if eq < 0 {
			return nil, false
		}
		kind, val := w[:eq], w[eq+1:]
		name := fmt.Sprintf("r%d", i)
		acc := sharedConfig.AccountID(name)
		var cfg sharedConfig.RemedyConfig
		switch kind {
		case "fixed":
			n, err := strconv.Atoi(val)
			if err != nil {
				return nil, false
			}
			cfg.FixedResponse = &sharedConfig.FixedResponseConfig{StatusCode: n}
		case "acct":
			l, ok := parseHdrList(val)
			if !ok {
				return nil, false
			}
			var toks []sharedConfig.Token
			for _, kv := range l {
				toks = append(toks, sharedConfig.Token{Header: &sharedConfig.Header{Name: kv[0], Value: kv[1]}})
			}
			pc.Accounts[acc] = sharedConfig.Account{Tokens: toks}
			cfg.AccountOrchestration = &sharedConfig.AccountOrchestrationConfig{RoundRobin: []sharedConfig.AccountID{acc}}
		case "apikey":
			l, ok := parseHdrList(val)
			if !ok {
				return nil, false
			}
			var toks []sharedConfig.Header
			for _, kv := range l {
				toks = append(toks, sharedConfig.Header{Name: kv[0], Value: kv[1]})
			}
			pc.Accounts[acc] = sharedConfig.Account{Authentication: sharedConfig.Authentication{APIKey: &sharedConfig.APIKey{Tokens: toks}}}
			cfg.Authentication = &sharedConfig.AuthConfig{Account: acc}
		case "oauth":
			sec := proto.Dec(val)
			for i := 0; i < len(sec); i++ {
				c := sec[i]
				if !(c >= 'a' && c <= 'z' || c >= 'A' && c <= 'Z' || c >= '0' && c <= '9') {
					return nil, false
				}
			}
			pc.Accounts[acc] = sharedConfig.Account{Authentication: sharedConfig.Authentication{
				OAuth: &sharedConfig.OAuth{Tokens: []sharedConfig.Body{{Name: "client_secret", Value: sec}}}}}
			cfg.Authentication = &sharedConfig.AuthConfig{Account: acc}
		case "throttle":
			n, err := strconv.Atoi(val)
			if err != nil {
				return nil, false
			}
			// no slot is ever free: every request is answered 429-style by the plugin
			cfg.ConcurrencyBasedThrottling = &sharedConfig.ConcurrencyBasedThrottlingConfig{MaxConcurrentRequests: 0, ResponseStatusCode: n}
		case "cache":
			if val != "on" {
				return nil, false
			}
			cfg.Caching = &sharedConfig.CachingConfig{TTLSeconds: 100000, MaxRecordSizeBytes: 100000, MaxCacheSizeMegabytes: 10}
		case "retry":
			p := strings.Split(val, ",")
			if len(p) != 3 {
				return nil, false
			}
			n, e1 := strconv.Atoi(p[0])
			lo, e2 := strconv.Atoi(p[1])
			hi, e3 := strconv.Atoi(p[2])
			if e1 != nil || e2 != nil || e3 != nil || n < 0 || strconv.Itoa(n) != p[0] {
				return nil, false
			}
			cfg.Retry = &sharedConfig.RetryConfig{Attempts: 1, InitialCooldownSeconds: n, CooldownMultiplier: 1,
				Conditions: sharedConfig.RetryConfigConditions{StatusCode: []sharedConfig.Range[int]{{From: lo, To: hi}}}}
		default:
			return nil, false
		}
		pc.Global.Remedies = append(pc.Global.Remedies, sharedConfig.Remedy{Enabled: true, Name: name, Config: cfg})
	}
	return pc, true
}

// legacyState: the plugin objects of one case and a transaction counter (fresh transaction id per op).
type legacyState struct {
	svc *services.PoliciesServices
	txn int
}

func (st *legacyState) services() *services.PoliciesServices {
	if st.svc == nil {
		clk := clock.NewMockClock()
		s := newPolicyServices()
		s.Remedies.AuthPlugin = remedies.NewAuthPlugin()
		s.Remedies.ConcurrencyBasedThrottlingPlugin = remedies.NewConcurrencyBasedThrottlingPlugin(clk, 10*time.Second)
		s.Remedies.CachingPlugin = remedies.NewCachingPlugin(clk)
		st.svc = s
	}
	return st.svc
}

func (st *legacyState) nextID() string {
	st.txn++
	return fmt.Sprintf("t%d", st.txn)
}

func stripAllActive(as spoe.Actions) spoe.Actions {
	out := spoe.Actions{}
	for _, a := range as {
		if a.Name == "request_active_remedies" || a.Name == "response_active_remedies" {
			continue
		}
		out = append(out, a)
	}
	return out
}

func legacyReq(st *legacyState, w []string) string {
	if len(w) < 1 || !strings.HasPrefix(w[0], "h=") {
		return "bad-op"
	}
	h, ok := parseHdrs(w[0][2:])
	if !ok {
		return "bad-op"
	}
	pc, ok := buildLegacy(w[1:])
	if !ok {
		return "bad-op"
	}
	tree, err := config.BuildEndpointPolicyTree(nil)
	if err != nil {
		return "err:policy-tree"
	}
	id := st.nextID()
	req := messages.OnRequest{ID: id, SequenceID: id, Method: "GET", Scheme: "https", URL: "verif.test/c07",
		Path: "/c07", Headers: h}
	out, err := runner.DispatchOnRequest(req, tree, pc, st.services(), runner.NewDiagnosisWorker())
	if err != nil {
		return "err:dispatch"
	}
	return fmtSpoe(stripAllActive(out))
}

func legacyResp(st *legacyState, w []string) string {
	if len(w) < 1 || !strings.HasPrefix(w[0], "status=") {
		return "bad-op"
	}
	status, err := strconv.Atoi(w[0][7:])
	if err != nil {
		return "bad-op"
	}
	rest := w[1:]
	body := ""
	rh := map[string]string{}
	if len(rest) > 0 && strings.HasPrefix(rest[0], "body=") {
		body = proto.Dec(rest[0][5:])
		rest = rest[1:]
	}
	if len(rest) > 0 && strings.HasPrefix(rest[0], "rh=") {
		h, ok := parseHdrs(rest[0][3:])
		if !ok {
			return "bad-op"
		}
		rh = h
		rest = rest[1:]
	}
	pc, ok := buildLegacy(rest)
	if !ok {
		return "bad-op"
	}
	tree, err := config.BuildEndpointPolicyTree(nil)
	if err != nil {
		return "err:policy-tree"
	}
	id := st.nextID()
	resp := messages.OnResponse{ID: id, SequenceID: id, Method: "GET", URL: "verif.test/c07", Status: status,
		Body: body, Headers: rh}
	out, err := runner.DispatchOnResponse(resp, tree, &pc.Global, st.services(), runner.NewDiagnosisWorker())
	if err != nil {
		return "err:dispatch"
	}
	return fmtSpoe(stripAllActive(out))
}
