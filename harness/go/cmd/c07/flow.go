package main

// Flows mode: REAL processors (TransformAPICall, DataSanitation, CustomScript) are run in sequence over one REAL
// API stream (stream_types.NewRequestAPIStream / NewResponseAPIStream), their actions are collected the way
// streams/stream.ExecuteFlow does (ReqAction / RespAction appended when available) and folded + encoded by the
// REAL routing.getSPOEReqActions / getSPOERespActions.
//
// Op lines:  reqflow  req=<json request>  procs=<json [spec…]>  p=<action>…
//            respflow resp=<json response> procs=<json [spec…]>  p=<action>…
// The `p=` words are what each processor produced WHEN it produced it (rendered immediately after its
// Execute; computed by the generator, which runs the same real processors).  The executor renders the actions
// again at production time (they must equal the `p=` words, else `err:produced-differs`) and answers the
// variables the fold site returns for the collected action OBJECTS after all processors have run.  Model and
// judge work on the `p=` values: the variables must be those of the fold of the produced actions.

import (
	"encoding/json"
	"fmt"
	"strings"

	"lunar/engine/actions"
	messages "lunar/engine/messages"
	"lunar/engine/routing"
	customscript "lunar/engine/streams/processors/custom-script"
	datasanitation "lunar/engine/streams/processors/data-sanitation"
	transformapicall "lunar/engine/streams/processors/transform-api-call"
	public_types "lunar/engine/streams/public-types"
	stream_types "lunar/engine/streams/types"
	lunar_context "lunar/engine/streams/lunar-context"

	"verif/harness/internal/proto"
)

type procSpec struct {
	K      string            `json:"k"`                // T | D | S
	Set    map[string]string `json:"set,omitempty"`    // T: JSONPath -> value
	Del    []string          `json:"del,omitempty"`    // T: JSONPaths
	Block  []string          `json:"block,omitempty"`  // D: blocklisted entities
	Script string            `json:"script,omitempty"` // S: script text
}

type flowReq struct {
	Method  string            `json:"method"`
	URL     string            `json:"url"`
	Path    string            `json:"path"`
	Query   string            `json:"query"`
	Headers map[string]string `json:"headers"`
	Body    string            `json:"body"`
	Status  int               `json:"status"` // respflow only
}

func buildProc(i int, s procSpec) (stream_types.ProcessorI, error) {
	params := map[string]stream_types.ProcessorParam{}
	name := fmt.Sprintf("p%d", i)
	switch s.K {
	case "T":
		if len(s.Set) > 0 {
			m := map[string]any{}
			for k, v := range s.Set {
				m[k] = v
			}
			params["set"] = stream_types.ProcessorParam{Name: "set", Value: public_types.NewParamValue(m)}
		}
		if len(s.Del) > 0 {
			params["delete"] = stream_types.ProcessorParam{Name: "delete", Value: public_types.NewParamValue(s.Del)}
		}
		return transformapicall.NewProcessor(&stream_types.ProcessorMetaData{Name: name, Parameters: params})
	case "D":
		params["blocklisted_entities"] = stream_types.ProcessorParam{Name: "blocklisted_entities", Value: public_types.NewParamValue(s.Block)}
		return datasanitation.NewProcessor(&stream_types.ProcessorMetaData{Name: name, Parameters: params})
	case "S":
		params["script_text"] = stream_types.ProcessorParam{Name: "script_text", Value: public_types.NewParamValue(s.Script)}
		return customscript.NewProcessor(&stream_types.ProcessorMetaData{Name: name, Parameters: params})
	}
	return nil, fmt.Errorf("unknown processor kind %q", s.K)
}

// runFlow returns the renderings of the produced actions (at production time) and the fold site's variables.
func runFlow(isReq bool, rq flowReq, specs []procSpec) (produced []string, spoeOut string, err error) {
	procs := make([]stream_types.ProcessorI, len(specs))
	for i, s := range specs {
		p, e := buildProc(i, s)
		if e != nil {
			return nil, "", e
		}
		procs[i] = p
	}
	state := lunar_context.NewMemoryState[[]byte]()
	hdrs := map[string]string{}
	for k, v := range rq.Headers {
		hdrs[k] = v
	}
	if isReq {
		args := messages.OnRequest{LunarName: messages.LunarFullRequest, ID: "f1", SequenceID: "f1", Method: rq.Method,
			Scheme: "https", URL: rq.URL, Path: rq.Path, Query: rq.Query, Headers: hdrs, RawBody: []byte(rq.Body)}
		apiStream := stream_types.NewRequestAPIStream(args, state)
		var collected []actions.ReqLunarAction
		for _, p := range procs {
			io, e := p.Execute("verif-flow", apiStream)
			if e != nil {
				continue // ExecuteFlow aborts the flow; nothing is collected from this processor
			}
			if io.IsRequestActionAvailable() {
				collected = append(collected, io.ReqAction)
				produced = append(produced, fmtAction(io.ReqAction))
			}
		}
		return produced, fmtSpoe(routing.VerifSPOEReqActions(messages.OnRequest{Headers: map[string]string{}}, collected)), nil
	}
	args := messages.OnResponse{LunarName: messages.LunarFullResponse, ID: "f1", SequenceID: "f1", Method: rq.Method,
		URL: rq.URL, Status: rq.Status, Headers: hdrs, RawBody: []byte(rq.Body)}
	apiStream := stream_types.NewResponseAPIStream(args, state)
	var collected []actions.RespLunarAction
	for _, p := range procs {
		io, e := p.Execute("verif-flow", apiStream)
		if e != nil {
			continue
		}
		if io.IsResponseActionAvailable() {
			collected = append(collected, io.RespAction)
			produced = append(produced, fmtAction(io.RespAction))
		}
	}
	return produced, fmtSpoe(routing.VerifSPOERespActions(messages.OnResponse{Headers: map[string]string{}}, collected)), nil
}

func parseFlowOp(w []string) (rq flowReq, specs []procSpec, produced []string, ok bool) {
	var haveReq, haveProcs bool
	for _, x := range w {
		switch {
		case strings.HasPrefix(x, "req="), strings.HasPrefix(x, "resp="):
			if json.Unmarshal([]byte(proto.Dec(x[strings.IndexByte(x, '=')+1:])), &rq) != nil {
				return rq, nil, nil, false
			}
			haveReq = true
		case strings.HasPrefix(x, "procs="):
			if json.Unmarshal([]byte(proto.Dec(x[6:])), &specs) != nil {
				return rq, nil, nil, false
			}
			haveProcs = true
		case strings.HasPrefix(x, "p="):
			produced = append(produced, proto.Dec(x[2:]))
		default:
			return rq, nil, nil, false
		}
	}
	return rq, specs, produced, haveReq && haveProcs
}

func execFlow(isReq bool, w []string) string {
	rq, specs, want, ok := parseFlowOp(w)
	if !ok {
		return "bad-op"
	}
	got, out, err := runFlow(isReq, rq, specs)
	if err != nil {
		return "err:bad-processor"
	}
	if strings.Join(got, "\x00") != strings.Join(want, "\x00") {
		return "err:produced-differs " + proto.Enc(strings.Join(got, " ; "))
	}
	return out
}

// flowOp builds the op line for a generated flow case by running the real processors once.
func flowOp(isReq bool, rq flowReq, specs []procSpec) (string, bool) {
	produced, _, err := runFlow(isReq, rq, specs)
	if err != nil {
		return "", false
	}
	rj, _ := json.Marshal(rq)
	pj, _ := json.Marshal(specs)
	op, key := "respflow", "resp="
	if isReq {
		op, key = "reqflow", "req="
	}
	line := op + " " + key + proto.Enc(string(rj)) + " procs=" + proto.Enc(string(pj))
	for _, p := range produced {
		line += " p=" + proto.Enc(p)
	}
	return line, true
}
