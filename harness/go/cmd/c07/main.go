// Harness for C07: builds real action values (lunar/engine/actions) and
//   - hands them to the REAL fold sites routing.getSPOEReqActions / getSPOERespActions (through the
//     verif-tagged exports routing.VerifSPOEReqActions / VerifSPOERespActions) and prints the SPOE
//     variables they return (ops `reqsite` / `respsite`);
//   - as a cross-check that also shows every intermediate result, folds them step by step with the
//     same three-line loop (`acc = &NoOpAction{}; a.Ensure…IsUpdated(&args); acc = acc.XPrioritize(a)`)
//     and prints the accumulated action and its real encoding after every step (ops `rq` / `rs`).
// Everything that came out of a Go map is printed sorted.
package main

import (
	"fmt"
	"os"
	"sort"
	"strconv"
	"strings"

	"lunar/engine/actions"
	messages "lunar/engine/messages"
	"lunar/engine/routing"

	spoe "github.com/negasus/haproxy-spoe-go/action"
	"github.com/rs/zerolog"

	"verif/harness/internal/prng"
	"verif/harness/internal/proto"
)

const rule = "sequences of request/response action objects folded from a fresh NoOp, every prefix observed " +
	"(action + SPOE variables); non-trivial = some fold step combined two non-no-op actions " +
	"(merge, early response displacing/absorbing, modify/retry displacement); distinct by (ops, answers)"

// ---------------------------------------------------------------- canonical text

func fmtHdrs(h map[string]string) string {
	if len(h) == 0 {
		return "_"
	}
	keys := make([]string, 0, len(h))
	for k := range h {
		keys = append(keys, k)
	}
	sort.Strings(keys)
	parts := make([]string, len(keys))
	for i, k := range keys {
		parts[i] = proto.Enc(k) + "|" + proto.Enc(h[k])
	}
	return strings.Join(parts, ";")
}

func fmtList(l []string) string {
	if len(l) == 0 {
		return "_"
	}
	parts := make([]string, len(l))
	for i, s := range l {
		parts[i] = proto.Enc(s)
	}
	return strings.Join(parts, ";")
}

func fmtAction(a any) string {
	switch x := a.(type) {
	case nil:
		return "nil"
	case *actions.NoOpAction:
		return "noop"
	case *actions.EarlyResponseAction:
		return fmt.Sprintf("early status=%d body=%s h=%s", x.Status, proto.Enc(x.Body), fmtHdrs(x.Headers))
	case *actions.ModifyHeadersAction:
		return fmt.Sprintf("modhdr h=%s", fmtHdrs(x.HeadersToSet))
	case *actions.ModifyRequestAction:
		return fmt.Sprintf("modreq h=%s host=%s path=%s query=%s body=%s", fmtHdrs(x.HeadersToSet),
			proto.Enc(x.Host), proto.Enc(x.Path), proto.Enc(x.QueryParams), proto.Enc(x.Body))
	case *actions.GenerateRequestAction:
		return fmt.Sprintf("genreq h=%s rm=%s body=%s", fmtHdrs(x.HeadersToSet), fmtList(x.HeadersToRemove), proto.Enc(x.Body))
	case *actions.ModifyResponseAction:
		return fmt.Sprintf("modresp h=%s body=%s status=%d", fmtHdrs(x.HeadersToSet), proto.Enc(x.Body), x.Status)
	case *actions.RetryRequestAction:
		return fmt.Sprintf("retry h=%s", fmtHdrs(x.HeadersToSet))
	default:
		return fmt.Sprintf("unknown:%T", a)
	}
}

func kindOf(a any) string {
	return strings.SplitN(fmtAction(a), " ", 2)[0]
}

// canonDump sorts the lines of a DumpHeaders string (map iteration order is random).
func canonDump(d string) string {
	ps := strings.Split(d, "\n")
	if len(ps) > 0 && ps[len(ps)-1] == "" {
		ps = ps[:len(ps)-1]
	}
	sort.Strings(ps)
	return strings.Join(ps, "\n") + "\n"
}

func isDumpVar(n string) bool {
	return n == "response_headers" || n == "request_headers" || n == "retry_headers"
}

func fmtSpoe(as spoe.Actions) string {
	var b strings.Builder
	fmt.Fprintf(&b, "spoe %d", len(as))
	for _, a := range as {
		sc := "?"
		switch a.Scope {
		case spoe.ScopeTransaction:
			sc = "txn"
		case spoe.ScopeRequest:
			sc = "req"
		case spoe.ScopeResponse:
			sc = "res"
		default:
			sc = fmt.Sprintf("scope%d", a.Scope)
		}
		if a.Type != spoe.TypeSetVar {
			sc = "unset-" + sc
		}
		var v string
		switch x := a.Value.(type) {
		case bool:
			v = "b:" + strconv.FormatBool(x)
		case int:
			v = "i:" + strconv.Itoa(x)
		case []byte:
			v = "y:" + proto.Enc(string(x))
		case string:
			if isDumpVar(a.Name) {
				x = canonDump(x)
			}
			v = "s:" + proto.Enc(x)
		default:
			v = fmt.Sprintf("?:%T", a.Value)
		}
		fmt.Fprintf(&b, " %s:%s=%s", sc, a.Name, v)
	}
	return b.String()
}

// ---------------------------------------------------------------- parsing op lines

func parseHdrs(s string) (map[string]string, bool) {
	h := map[string]string{}
	if s == "_" {
		return h, true
	}
	for _, item := range strings.Split(s, ";") {
		kv := strings.Split(item, "|")
		if len(kv) != 2 {
			return nil, false
		}
		h[proto.Dec(kv[0])] = proto.Dec(kv[1])
	}
	return h, true
}

func parseList(s string) []string {
	if s == "_" {
		return nil
	}
	parts := strings.Split(s, ";")
	for i := range parts {
		parts[i] = proto.Dec(parts[i])
	}
	return parts
}

type fields struct {
	w  []string
	ok bool
}

func (f *fields) str(k string) string {
	s, ok := proto.KV(f.w, k)
	if !ok {
		f.ok = false
		return ""
	}
	return proto.Dec(s)
}

func (f *fields) num(k string) int {
	s, ok := proto.KV(f.w, k)
	if !ok {
		f.ok = false
		return 0
	}
	n, err := strconv.Atoi(s)
	if err != nil {
		f.ok = false
	}
	return n
}

func (f *fields) hdrs() map[string]string {
	s, ok := proto.KV(f.w, "h")
	if !ok {
		f.ok = false
		return nil
	}
	h, ok := parseHdrs(s)
	if !ok {
		f.ok = false
	}
	return h
}

// parseObj builds a REAL action object from the words after `obj <name>`.
func parseObj(w []string) (any, bool) {
	if len(w) == 0 {
		return nil, false
	}
	f := &fields{w: w[1:], ok: true}
	var o any
	switch w[0] {
	case "noop":
		if len(w) != 1 {
			return nil, false
		}
		o = &actions.NoOpAction{}
	case "early":
		o = &actions.EarlyResponseAction{Status: f.num("status"), Body: f.str("body"), Headers: f.hdrs()}
	case "modhdr":
		o = &actions.ModifyHeadersAction{HeadersToSet: f.hdrs()}
	case "modreq":
		o = &actions.ModifyRequestAction{HeadersToSet: f.hdrs(), Host: f.str("host"), Path: f.str("path"),
			QueryParams: f.str("query"), Body: f.str("body")}
	case "genreq":
		rm, ok := proto.KV(f.w, "rm")
		if !ok {
			return nil, false
		}
		o = &actions.GenerateRequestAction{HeadersToSet: f.hdrs(), HeadersToRemove: parseList(rm), Body: f.str("body")}
	case "modresp":
		o = &actions.ModifyResponseAction{HeadersToSet: f.hdrs(), Body: f.str("body"), Status: f.num("status")}
	case "retry":
		o = &actions.RetryRequestAction{HeadersToSet: f.hdrs()}
	default:
		return nil, false
	}
	return o, f.ok
}

// ---------------------------------------------------------------- executor

func exec(c proto.Case, o *proto.Out) []string {
	outs := make([]string, len(c.Ops))
	objs := map[string]any{}
	var reqAcc actions.ReqLunarAction = &actions.NoOpAction{}
	var respAcc actions.RespLunarAction = &actions.NoOpAction{}
	// the fold sites pass the transaction's arguments to Ensure…IsUpdated; not observed here
	reqArgs := messages.OnRequest{Headers: map[string]string{}}
	respArgs := messages.OnResponse{Headers: map[string]string{}}
	used := map[string]bool{}
	nontrivial := false
	legacy := &legacyState{}
	var rig *handlerRig
	defer func() {
		if rig != nil {
			rig.close()
		}
	}()
	for i, op := range c.Ops {
		w := strings.Fields(op)
		if len(w) == 0 {
			outs[i] = "bad-op"
			continue
		}
		switch {
		case w[0] == "obj" && len(w) >= 3:
			obj, ok := parseObj(w[2:])
			if !ok {
				outs[i] = "bad-op"
			} else if _, dup := objs[w[1]]; dup {
				outs[i] = "err:duplicate-name"
			} else {
				objs[w[1]] = obj
				outs[i] = "ok"
			}
		case w[0] == "reqstart" && len(w) == 1:
			reqAcc = &actions.NoOpAction{}
			outs[i] = "ok"
		case w[0] == "respstart" && len(w) == 1:
			respAcc = &actions.NoOpAction{}
			outs[i] = "ok"
		case w[0] == "rq" && len(w) == 2:
			obj, ok := objs[w[1]]
			if !ok {
				outs[i] = "err:unknown-object"
				break
			}
			a, ok := obj.(actions.ReqLunarAction)
			if !ok {
				outs[i] = "err:not-request-action"
				break
			}
			ka, kb := kindOf(reqAcc), kindOf(a)
			o.Count("req:" + ka + "x" + kb)
			if ka != "noop" && kb != "noop" {
				nontrivial = true
			}
			if used[w[1]] {
				o.Count("req-object-reused")
			}
			used[w[1]] = true
			a.EnsureRequestIsUpdated(&reqArgs)
			reqAcc = reqAcc.ReqPrioritize(a)
			if reqAcc == nil {
				outs[i] = "act nil spoe 0"
				reqAcc = &actions.NoOpAction{}
				break
			}
			outs[i] = "act " + fmtAction(reqAcc) + " " + fmtSpoe(reqAcc.ReqToSpoeActions())
		case w[0] == "rs" && len(w) == 2:
			obj, ok := objs[w[1]]
			if !ok {
				outs[i] = "err:unknown-object"
				break
			}
			a, ok := obj.(actions.RespLunarAction)
			if !ok {
				outs[i] = "err:not-response-action"
				break
			}
			ka, kb := kindOf(respAcc), kindOf(a)
			o.Count("resp:" + ka + "x" + kb)
			if ka != "noop" && kb != "noop" {
				nontrivial = true
			}
			a.EnsureResponseIsUpdated(&respArgs)
			respAcc = respAcc.RespPrioritize(a)
			if respAcc == nil {
				outs[i] = "act nil spoe 0"
				respAcc = &actions.NoOpAction{}
				break
			}
			outs[i] = "act " + fmtAction(respAcc) + " " + fmtSpoe(respAcc.RespToSpoeActions())
		case w[0] == "reqsite":
			var list []actions.ReqLunarAction
			errAns := ""
			for _, n := range w[1:] {
				obj, ok := objs[n]
				if !ok {
					errAns = "err:unknown-object"
					break
				}
				a, ok := obj.(actions.ReqLunarAction)
				if !ok {
					errAns = "err:not-request-action"
					break
				}
				list = append(list, a)
			}
			if errAns != "" {
				outs[i] = errAns
				break
			}
			nn := 0
			for k, a := range list {
				o.Count("site-req:" + kindOf(a))
				if kindOf(a) != "noop" {
					nn++
				}
				if k > 0 {
					o.Count("site-req-pair:" + kindOf(list[k-1]) + ">" + kindOf(a))
				}
				if used[w[1+k]] {
					o.Count("req-object-reused")
				}
				used[w[1+k]] = true
			}
			if nn >= 2 {
				nontrivial = true
			}
			// neutral transaction arguments: the site calls EnsureRequestIsUpdated(&args) on every
			// action and on the result; that writes to args only
			args := messages.OnRequest{Headers: map[string]string{}}
			outs[i] = fmtSpoe(routing.VerifSPOEReqActions(args, list))
		case w[0] == "respsite":
			var list []actions.RespLunarAction
			errAns := ""
			for _, n := range w[1:] {
				obj, ok := objs[n]
				if !ok {
					errAns = "err:unknown-object"
					break
				}
				a, ok := obj.(actions.RespLunarAction)
				if !ok {
					errAns = "err:not-response-action"
					break
				}
				list = append(list, a)
			}
			if errAns != "" {
				outs[i] = errAns
				break
			}
			nn := 0
			for _, a := range list {
				o.Count("site-resp:" + kindOf(a))
				if kindOf(a) != "noop" {
					nn++
				}
			}
			if nn >= 2 {
				nontrivial = true
			}
			args := messages.OnResponse{Headers: map[string]string{}}
			outs[i] = fmtSpoe(routing.VerifSPOERespActions(args, list))
		case w[0] == "hreq" || w[0] == "hresp":
			outs[i] = execHandlerOp(&rig, w[0] == "hreq", w[1:])
			o.Count("handler-" + w[0] + ":" + func() string {
				for _, x := range w[1:] {
					if strings.HasPrefix(x, "ctx=") {
						return x[4:]
					}
				}
				return "?"
			}())
			nontrivial = true
		case w[0] == "reqflow" || w[0] == "respflow":
			outs[i] = execFlow(w[0] == "reqflow", w[1:])
			np := 0
			for _, x := range w[1:] {
				if strings.HasPrefix(x, "p=") {
					np++
					o.Count("flow-" + w[0][:3] + "-produced:" + strings.SplitN(proto.Dec(x[2:]), " ", 2)[0])
				}
			}
			if np >= 2 {
				nontrivial = true
			}
		case w[0] == "legacyreq":
			outs[i] = legacyReq(legacy, w[1:])
			if len(w) > 2 && !strings.HasPrefix(outs[i], "bad-op") {
				for _, r := range w[2:] {
					o.Count("legacy-req:" + strings.SplitN(r, "=", 2)[0])
				}
			}
			if len(w) > 3 {
				nontrivial = true
			}
			if strings.Contains(outs[i], "return_early_response") {
				o.Count("legacy-req-early")
				if strings.Contains(outs[i], "x-lunar-retry-after") {
					o.Count("legacy-req-early-modified-by-response-remedy")
				}
			}
		case w[0] == "legacyresp":
			outs[i] = legacyResp(legacy, w[1:])
			if len(w) > 3 {
				nontrivial = true
			}
		case w[0] == "reqpolicy" || w[0] == "resppolicy":
			var list []any
			errAns := ""
			for _, n := range w[1:] {
				obj, ok := objs[n]
				if !ok {
					errAns = "err:unknown-object"
					break
				}
				if _, isReq := obj.(actions.ReqLunarAction); w[0] == "reqpolicy" && !isReq {
					errAns = "err:not-request-action"
					break
				}
				if _, isResp := obj.(actions.RespLunarAction); w[0] == "resppolicy" && !isResp {
					errAns = "err:not-response-action"
					break
				}
				list = append(list, obj)
			}
			if errAns != "" {
				outs[i] = errAns
				break
			}
			nn := 0
			for _, a := range list {
				o.Count("policy-" + w[0][:4] + ":" + kindOf(a))
				if kindOf(a) != "noop" {
					nn++
				}
			}
			if nn >= 2 {
				nontrivial = true
			}
			if w[0] == "reqpolicy" {
				outs[i] = reqPolicy(list)
			} else {
				outs[i] = respPolicy(list)
			}
		case w[0] == "show" && len(w) == 2:
			obj, ok := objs[w[1]]
			if !ok {
				outs[i] = "err:unknown-object"
				break
			}
			outs[i] = "obj " + fmtAction(obj)
		default:
			outs[i] = "bad-op"
		}
	}
	if nontrivial {
		o.NonTrivial(strings.Join(c.Ops, "|") + "#" + strings.Join(outs, "|"))
	}
	return outs
}

// ---------------------------------------------------------------- generators

const hA = "a|A;x|1"
const hB = "b|B;x|2"

// nine representative request actions: every kind, two header maps with the conflicting key `x`,
// the empty map, empty and non-empty path/query/host/body.
var reqReps = []string{
	"noop",
	"early status=429 body=e1 h=" + hA,
	"early status=503 body=%e h=_",
	"modhdr h=" + hA,
	"modhdr h=" + hB,
	"modreq h=" + hA + " host=h1 path=/p1 query=q=1 body=b1",
	"modreq h=" + hB + " host=%e path=%e query=%e body=%e",
	"genreq h=" + hA + " rm=r1 body=g1",
	"genreq h=" + hB + " rm=r2;r3 body=%e",
}

var respReps = []string{
	"noop",
	"modresp h=" + hA + " body=b1 status=200",
	"modresp h=" + hB + " body=%e status=404",
	"modresp h=_ body=b3 status=0",
	"retry h=" + hA,
	"retry h=" + hB,
	"retry h=_",
}

// enumerate emits every sequence over reps of length 0..maxLen as one case each.
func enumerate(prefix string, reps []string, step, start, site string, maxLen int, emit func(proto.Case)) {
	n := len(reps)
	idx := make([]int, 0, maxLen)
	id := 0
	var rec func()
	rec = func() {
		ops := make([]string, 0, 2*len(idx)+1)
		for k, r := range idx {
			ops = append(ops, fmt.Sprintf("obj o%d %s", k, reps[r]))
		}
		ops = append(ops, start)
		for k := range idx {
			ops = append(ops, fmt.Sprintf("%s o%d", step, k))
		}
		// the same sequence, fresh objects, through the real fold site
		site := site
		for k, r := range idx {
			ops = append(ops, fmt.Sprintf("obj p%d %s", k, reps[r]))
			site += fmt.Sprintf(" p%d", k)
		}
		ops = append(ops, site)
		id++
		emit(proto.Case{ID: fmt.Sprintf("%s%d", prefix, id), Ops: ops})
		if len(idx) == maxLen {
			return
		}
		for r := 0; r < n; r++ {
			idx = append(idx, r)
			rec()
			idx = idx[:len(idx)-1]
		}
	}
	rec()
}

// enumerateAliased emits every sequence of NAMES of length 1..maxLen over five shared request
// objects (so the same pointer may occur several times in one fold), followed by the state of the
// objects and a second fold over the two mutable ones: exercises the in-place assignment of
// ModifyRequestAction.ReqPrioritize on every reachable aliasing pattern.
func enumerateAliased(maxLen int, emit func(proto.Case)) {
	defs := []string{
		"obj m modreq h=" + hA + " host=h1 path=/p1 query=%e body=%e",
		"obj k modreq h=c|C host=%e path=%e query=q=2 body=b2",
		"obj h modhdr h=" + hB,
		"obj g genreq h=x|3;g|G rm=r1 body=g1",
		"obj e early status=429 body=e1 h=x|9",
	}
	names := []string{"m", "k", "h", "g", "e"}
	idx := make([]int, 0, maxLen)
	id := 0
	var rec func()
	rec = func() {
		if len(idx) > 0 {
			ops := append([]string{}, defs...)
			ops = append(ops, "reqstart")
			for _, i := range idx {
				ops = append(ops, "rq "+names[i])
			}
			for _, n := range names {
				ops = append(ops, "show "+n)
			}
			ops = append(ops, "reqstart", "rq k", "rq m")
			id++
			emit(proto.Case{ID: fmt.Sprintf("ea%d", id), Ops: ops})
			// the same through the real fold site
			ops = append([]string{}, defs...)
			site := "reqsite"
			for _, i := range idx {
				site += " " + names[i]
			}
			ops = append(ops, site)
			for _, n := range names {
				ops = append(ops, "show "+n)
			}
			ops = append(ops, "reqsite k m")
			emit(proto.Case{ID: fmt.Sprintf("eb%d", id), Ops: ops})
		}
		if len(idx) == maxLen {
			return
		}
		for i := range names {
			idx = append(idx, i)
			rec()
			idx = idx[:len(idx)-1]
		}
	}
	rec()
}

// enumeratePolicy: policy-mode fold sites (runner.runOnRequest/runOnResponse through
// runner.DispatchOnRequest/DispatchOnResponse with real remedy plugins): all sequences of length <= 5
// over remedy-expressible actions, plus one inexpressible case.
func enumeratePolicy(emit func(proto.Case)) {
	fixed := " body=" + proto.Enc(fixedBody) + " h=" + proto.Enc(fixedHdrName) + "|" + proto.Enc(fixedHdrValue)
	reqs := []string{"noop", "early status=429" + fixed, "early status=503" + fixed,
		"modreq h=" + hA + " host=%e path=%e query=%e body=%e", "modreq h=" + hB + " host=%e path=%e query=%e body=%e"}
	resps := []string{"noop", "modresp h=x-lunar-retry-after|1 body=%e status=0",
		"modresp h=x-lunar-retry-after|2 body=%e status=0", "modresp h=x-lunar-retry-after|30 body=%e status=0"}
	run := func(prefix, op string, reps []string, maxLen int) {
		idx := make([]int, 0, maxLen)
		id := 0
		var rec func()
		rec = func() {
			var ops []string
			line := op
			for k, r := range idx {
				ops = append(ops, fmt.Sprintf("obj o%d %s", k, reps[r]))
				line += fmt.Sprintf(" o%d", k)
			}
			ops = append(ops, line)
			id++
			emit(proto.Case{ID: fmt.Sprintf("%s%d", prefix, id), Ops: ops})
			if len(idx) == maxLen {
				return
			}
			for r := range reps {
				idx = append(idx, r)
				rec()
				idx = idx[:len(idx)-1]
			}
		}
		rec()
	}
	run("pq", "reqpolicy", reqs, 5)
	run("ps", "resppolicy", resps, 5)
	emit(proto.Case{ID: "px1", Ops: []string{"obj a modhdr h=" + hA, "obj b modresp h=x|1 body=b status=200",
		"obj c modresp h=x-lunar-retry-after|01 body=%e status=0", "obj d early status=429 body=e h=_",
		"reqpolicy a", "resppolicy b", "resppolicy c", "reqpolicy d", "reqpolicy b", "resppolicy a", "reqpolicy nobody"}})
}

// enumerateLegacy: legacy (policies) mode dispatch.  ALL remedy lists of length <= maxLen over an
// alphabet producing every action kind the legacy plugins can answer (no-op, early response,
// ModifyRequest from two plugins, GenerateRequest; response side no-op and header-only ModifyResponse),
// each with and without the early-response trigger (so that the response-side remedies re-run on the
// gateway-made answer), plus all response dispatches for three statuses, plus random longer lists.
func enumerateLegacy(maxLen int, r *prng.R, emit func(proto.Case)) {
	alpha := []string{"fixed=418", "fixed=503", "acct=" + hA, "acct=" + hB, "acct=_", "apikey=k|K;x|3",
		"oauth=s3cr3t", "retry=5,400,499", "retry=7,0,599", "throttle=429"}
	id := 0
	idx := make([]int, 0, maxLen)
	var rec func()
	rec = func() {
		line := ""
		for _, i := range idx {
			line += " " + alpha[i]
		}
		id++
		ops := []string{"legacyreq h=early-response|true;q|Q" + line, "legacyreq h=q|Q;x|0" + line}
		if len(idx) <= 3 {
			ops = append(ops, "legacyresp status=418"+line, "legacyresp status=200"+line)
		}
		emit(proto.Case{ID: fmt.Sprintf("el%d", id), Ops: ops})
		if len(idx) == maxLen {
			return
		}
		for i := range alpha {
			idx = append(idx, i)
			rec()
			idx = idx[:len(idx)-1]
		}
	}
	// SEQUENCES of transactions against the same plugin objects: all pairs of remedy lists of length <= 2 over a
	// small alphabet (early answers from two plugins, retry firing / not firing, header edits, cached auth
	// headers), then random sequences of 3-5 transactions with different remedy lists and request headers:
	// a transaction's variables may carry only what its own remedies answered.
	small := []string{"throttle=429", "fixed=418", "retry=5,400,499", "retry=9,200,299", "retry=7,0,99", "acct=x|1", "apikey=k|K", "cache=on"}
	var lists []string
	for a := range small {
		lists = append(lists, " "+small[a])
		for b := range small {
			lists = append(lists, " "+small[a]+" "+small[b])
		}
	}
	pid := 0
	for _, l1 := range lists {
		for _, l2 := range lists {
			pid++
			emit(proto.Case{ID: fmt.Sprintf("lp%d", pid), Ops: []string{"legacyresp status=200 body=B rh=h|1" + l1,
				"legacyreq h=early-response|true" + l2, "legacyreq h=early-response|true;q|Q" + l1, "legacyreq h=_" + l2}})
		}
	}
	rec()
	for k := 0; k < 400; k++ {
		rr := r.Fork()
		n := rr.Range(1, 8)
		line := ""
		for j := 0; j < n; j++ {
			switch rr.Intn(6) {
			case 0:
				line += fmt.Sprintf(" fixed=%d", prng.Pick(rr, []int{200, 418, 429, 503}))
			case 1:
				line += " acct=" + genHdrs(rr, 10)
			case 2:
				line += " apikey=" + genHdrs(rr, 10)
			case 3:
				line += " oauth=" + prng.Pick(rr, []string{"s3cr3t", "t", "A1"})
			default:
				lo := prng.Pick(rr, []int{0, 200, 400, 418, 500})
				line += fmt.Sprintf(" retry=%d,%d,%d", rr.Intn(40), lo, lo+prng.Pick(rr, []int{0, 18, 99, 599}))
			}
		}
		h := genHdrs(rr, 0)
		if rr.Chance(60) {
			if h == "_" {
				h = "early-response|true"
			} else {
				h += ";early-response|true"
			}
		}
		emit(proto.Case{ID: fmt.Sprintf("gl%d", k+1), Ops: []string{"legacyreq h=" + h + line,
			fmt.Sprintf("legacyresp status=%d", prng.Pick(rr, []int{0, 200, 418, 499, 500})) + line}})
	}
	rems := append(append([]string{}, alpha...), "throttle=503", "retry=3,429,429", "retry=11,500,599", "retry=9,200,299", "apikey=x|4;z|Z", "oauth=t2", "cache=on", "cache=on")
	for k := 0; k < 300; k++ {
		rr := r.Fork()
		var ops []string
		for t := rr.Range(3, 5); t > 0; t-- {
			line := ""
			for j := rr.Range(1, 4); j > 0; j-- {
				line += " " + prng.Pick(rr, rems)
			}
			h := prng.Pick(rr, []string{"_", "early-response|true", "early-response|true;q|Q", "x|0"})
			if rr.Chance(30) {
				ops = append(ops, fmt.Sprintf("legacyresp status=%d body=%s rh=%s", prng.Pick(rr, []int{200, 418, 429, 503}),
					genStr(rr), genHdrs(rr, 10))+line)
			} else {
				ops = append(ops, "legacyreq h="+h+line)
			}
		}
		emit(proto.Case{ID: fmt.Sprintf("ls%d", k+1), Ops: ops})
	}
	emit(proto.Case{ID: "lx1", Ops: []string{"legacyreq", "legacyreq h=_", "legacyreq h=_ bogus=1", "legacyreq x=1 fixed=418",
		"legacyreq h=_ oauth=a%20b", "legacyreq h=_ retry=1,2", "legacyresp", "legacyresp status=zz", "legacyresp status=200",
		"legacyresp status=200 fixed=x", "legacyresp status=200 rh=zz cache=on", "legacyresp status=200 body=b cache=off", "legacyreq h=_ cache=on"}})
}

// enumerateFlows: flows mode.  ALL sequences of length <= 3 (thorough 4) over real processor configurations on one
// request stream and on one response stream (header sets that conflict, deletes of headers an earlier processor
// set, host/path/body rewrites, a body scrubber, scripts that add / delete / rewrite headers, a script that fails),
// plus random longer ones.  The op line carries what each processor produced when it produced it.
func enumerateFlows(tier string, r *prng.R, emit func(proto.Case)) {
	reqProcs := []procSpec{
		{K: "T", Set: map[string]string{"$.request.headers['x-first']": "one"}},
		{K: "T", Set: map[string]string{"$.request.headers['x-second']": "two"}, Del: []string{"$.request.headers['x-first']"}},
		{K: "T", Set: map[string]string{"$.request.headers['x-first']": "uno", "$.request.host": "h2.example.com", "$.request.path": "/v2/things"},
			Del: []string{"$.request.headers.authorization"}},
		{K: "T", Set: map[string]string{"$.request.body.a": "changed"}, Del: []string{"$.request.headers['x-second']", "$.request.headers['x-script']"}},
		{K: "D", Block: []string{"email"}},
		{K: "S", Script: "request.headers['x-script'] = 'S'; delete request.headers['authorization']; delete request.headers['x-first'];"},
		{K: "S", Script: "request.headers['x-first'] = 'scripted'; request.headers['x-second'] = 'scripted';"},
		{K: "S", Script: "throw new Error('boom');"},
	}
	respProcs := []procSpec{
		{K: "T", Set: map[string]string{"$.response.headers['x-first']": "one"}},
		{K: "T", Set: map[string]string{"$.response.headers['x-second']": "two"}, Del: []string{"$.response.headers['x-first']"}},
		{K: "T", Set: map[string]string{"$.response.headers['x-first']": "uno", "$.response.body.a": "changed"}, Del: []string{"$.response.headers['x-upstream']"}},
		{K: "T", Del: []string{"$.response.headers['x-first']", "$.response.headers['x-second']", "$.response.headers['x-script']"}},
		{K: "S", Script: "response.headers['x-script'] = 'S'; delete response.headers['x-first'];"},
		{K: "S", Script: "response.headers['x-first'] = 'scripted';"},
	}
	rq := flowReq{Method: "POST", URL: "api.example.com/v1/items", Path: "/v1/items", Query: "limit=10",
		Headers: map[string]string{"host": "api.example.com", "content-type": "application/json", "authorization": "Bearer client"},
		Body: `{"a":1,"mail":"joe@example.com"}`}
	rs := flowReq{Method: "GET", URL: "api.example.com/v1/items", Status: 200,
		Headers: map[string]string{"content-type": "application/json", "x-upstream": "u1"}, Body: `{"a":1}`}
	maxLen := 3
	if tier == "thorough" {
		maxLen = 4
	}
	id := 0
	run := func(isReq bool, base flowReq, alpha []procSpec, maxLen int) {
		idx := make([]int, 0, maxLen)
		var rec func()
		rec = func() {
			if len(idx) > 0 {
				specs := make([]procSpec, len(idx))
				for k, i := range idx {
					specs[k] = alpha[i]
				}
				if line, ok := flowOp(isReq, base, specs); ok {
					id++
					emit(proto.Case{ID: fmt.Sprintf("fl%d", id), Ops: []string{line}})
				}
			}
			if len(idx) == maxLen {
				return
			}
			for i := range alpha {
				idx = append(idx, i)
				rec()
				idx = idx[:len(idx)-1]
			}
		}
		rec()
	}
	run(true, rq, reqProcs, maxLen)
	run(false, rs, respProcs, maxLen)
	for k := 0; k < 150; k++ {
		rr := r.Fork()
		isReq := rr.Chance(60)
		alpha, base := respProcs, rs
		if isReq {
			alpha, base = reqProcs, rq
		}
		n := rr.Range(4, 7)
		specs := make([]procSpec, n)
		for j := range specs {
			specs[j] = prng.Pick(rr, alpha)
		}
		base.Headers = map[string]string{}
		for k2, v := range map[string]string{"content-type": "application/json", "x-first": "orig", "x-upstream": "u1", "authorization": "Bearer c", "host": "api.example.com"} {
			if rr.Chance(60) {
				base.Headers[k2] = v
			}
		}
		if line, ok := flowOp(isReq, base, specs); ok {
			id++
			emit(proto.Case{ID: fmt.Sprintf("fg%d", id), Ops: []string{line}})
		}
	}
	// (request and processor configurations are opaque to the model: only structurally malformed lines here)
	emit(proto.Case{ID: "fx1", Ops: []string{"reqflow", "respflow bogus=1", "reqflow req=%7B%7D", "respflow procs=%5B%5D p=noop"}})
}

// enumerateHandler: the real message handler.  For every flow of the loaded configuration (one transform, two
// conflicting transforms, an early response whose response leg is modified, no flow at all): a request and a response
// message while the context is live and while it is cancelled (draining), in every order of the two context states;
// then random sequences of messages in which the context state changes back and forth.
func enumerateHandler(r *prng.R, emit func(proto.Case)) {
	rig, err := newHandlerRig()
	if err != nil {
		fmt.Fprintln(os.Stderr, "c07: handler rig cannot be built:", err)
		emit(proto.Case{ID: "hx0", Ops: []string{"hreq"}})
		return
	}
	defer rig.close()
	urls := []string{"flowa.test/x", "flowb.test/y", "flowc.test/brew", "free.test/z", "flowd.test/s", "flowe.test/s", "flowf.test/s"}
	hdrSets := []map[string]string{{}, {"content-type": "application/json", "x-upstream": "u1"}, {"x-first": "orig", "x-resp": "orig", "x-b": "0"}}
	id := 0
	for _, u := range urls {
		for _, h := range hdrSets {
			for _, order := range [][]bool{{false, true}, {true, false}, {true, true}, {false, false}} {
				var ops []string
				for _, dr := range order {
					ops = append(ops, handlerOp(rig, hmsg{isReq: true, url: u, hdrs: h, body: `{"a":1}`}, dr))
					ops = append(ops, handlerOp(rig, hmsg{isReq: false, url: u, status: 200, hdrs: h, body: `{"a":1}`}, dr))
				}
				id++
				emit(proto.Case{ID: fmt.Sprintf("hd%d", id), Ops: ops})
			}
		}
	}
	for k := 0; k < 40; k++ {
		rr := r.Fork()
		var ops []string
		for n := rr.Range(3, 8); n > 0; n-- {
			m := hmsg{isReq: rr.Bool(), url: prng.Pick(rr, urls), status: prng.Pick(rr, []int{200, 404, 503}), hdrs: prng.Pick(rr, hdrSets),
				body: prng.Pick(rr, []string{"", `{"a":1}`, `{"a":2,"b":"x"}`})}
			ops = append(ops, handlerOp(rig, m, rr.Chance(50)))
		}
		id++
		emit(proto.Case{ID: fmt.Sprintf("hg%d", id), Ops: ops})
	}
	emit(proto.Case{ID: "hx1", Ops: []string{"hreq", "hresp url=x", "hreq ctx=maybe url=x", "hresp ctx=live status=zz", "hreq ctx=live bogus=1"}})
}

var keyPool = []string{"x", "a", "b", "x-lunar", "X", "a-b", "content-type", "é"}
// values are BYTE strings: valid UTF-8 (é, €), ISO-8859-1 text, lone continuation byte, truncated 2/3/4-byte
// sequences, overlong form, 0xC0/0xFF/0xFE, NBSP byte
var valPool = []string{"1", "2", "", "v", "a b", "k=v;w|z", "100%", "é", "http://h/p?q", "t:1:2",
	"r\xe9sum\xe9.pdf", "\x80", "\xc3", "\xc0\xaf", "\xff\xfe", "\xe2\x82", "\xf0\x9f\x98", "€", "a\xa0b", "x\xe9\ny", "\xc0"}
var unsafeKeys = []string{"a:b", "k\nz", ":", "", "bad name", "k\r", "x(y)", "k\xe9", "\xff", "\xc3\x28", "a\x80"}
var unsafeVals = []string{"v\ninjected:1", "\n", "a\n\nb", "v\r\nx:1", "\r"}
var strPool = []string{"", "", "h1", "/p", "q=1&r=2", "body", "a b\tc", "%e", "_", "x|y;z", "b\xe9", "\xc0\xaf", "\xff", "caf\xc3\xa9", "\xe2\x82"}
var statuses = []int{0, 200, 404, 429, 503, -1}

func genHdrs(r *prng.R, unsafePct int) string {
	n := r.Intn(4)
	if n == 0 {
		return "_"
	}
	seen := map[string]bool{}
	var parts []string
	for len(parts) < n {
		k := prng.Pick(r, keyPool)
		v := prng.Pick(r, valPool)
		if r.Chance(unsafePct) {
			if r.Bool() {
				k = prng.Pick(r, unsafeKeys)
			} else {
				v = prng.Pick(r, unsafeVals)
			}
		}
		if seen[k] {
			n--
			continue
		}
		seen[k] = true
		parts = append(parts, proto.Enc(k)+"|"+proto.Enc(v))
	}
	if len(parts) == 0 {
		return "_"
	}
	return strings.Join(parts, ";")
}

func genStr(r *prng.R) string { return proto.Enc(prng.Pick(r, strPool)) }

func genReqObj(r *prng.R, unsafePct int) string {
	switch r.Intn(10) {
	case 0, 1:
		return "noop"
	case 2:
		return fmt.Sprintf("early status=%d body=%s h=%s", prng.Pick(r, statuses), genStr(r), genHdrs(r, unsafePct))
	case 3, 4, 5:
		return "modhdr h=" + genHdrs(r, unsafePct)
	case 6, 7:
		return fmt.Sprintf("modreq h=%s host=%s path=%s query=%s body=%s", genHdrs(r, unsafePct), genStr(r), genStr(r), genStr(r), genStr(r))
	default:
		var rm []string
		for k := r.Intn(3); k > 0; k-- {
			rm = append(rm, prng.Pick(r, keyPool))
		}
		return fmt.Sprintf("genreq h=%s rm=%s body=%s", genHdrs(r, unsafePct), fmtList(rm), genStr(r))
	}
}

func genRespObj(r *prng.R, unsafePct int) string {
	switch r.Intn(8) {
	case 0, 1:
		return "noop"
	case 2, 3, 4:
		return fmt.Sprintf("modresp h=%s body=%s status=%d", genHdrs(r, unsafePct), genStr(r), prng.Pick(r, statuses))
	default:
		return "retry h=" + genHdrs(r, unsafePct)
	}
}

// genRandom: one case with a request fold and a response fold over fresh objects; optionally a
// name is repeated / a second fold re-uses the objects (pointer aliasing), and objects are shown.
func genRandom(r *prng.R, id string, maxLen int) proto.Case {
	unsafePct := 0
	if r.Chance(12) {
		unsafePct = 25
	}
	alias := r.Chance(12)
	var ops []string
	n := r.Range(0, maxLen)
	for k := 0; k < n; k++ {
		ops = append(ops, fmt.Sprintf("obj q%d %s", k, genReqObj(r, unsafePct)))
	}
	m := r.Range(0, maxLen)
	for k := 0; k < m; k++ {
		ops = append(ops, fmt.Sprintf("obj s%d %s", k, genRespObj(r, unsafePct)))
	}
	viaSite := r.Chance(60)
	reqOps, respOps := []string{"reqstart"}, []string{"respstart"}
	reqSite, respSite := "reqsite", "respsite"
	for k := 0; k < n; k++ {
		reqOps = append(reqOps, fmt.Sprintf("rq q%d", k))
		reqSite += fmt.Sprintf(" q%d", k)
		if alias && k > 0 && r.Chance(30) {
			j := r.Intn(k + 1)
			reqOps = append(reqOps, fmt.Sprintf("rq q%d", j))
			reqSite += fmt.Sprintf(" q%d", j)
		}
	}
	for k := 0; k < m; k++ {
		respOps = append(respOps, fmt.Sprintf("rs s%d", k))
		respSite += fmt.Sprintf(" s%d", k)
		if alias && k > 0 && r.Chance(30) {
			j := r.Intn(k + 1)
			respOps = append(respOps, fmt.Sprintf("rs s%d", j))
			respSite += fmt.Sprintf(" s%d", j)
		}
	}
	if viaSite {
		ops = append(ops, reqSite, respSite)
	} else {
		ops = append(ops, reqOps...)
		ops = append(ops, respOps...)
	}
	if alias || r.Chance(10) {
		for k := 0; k < n; k++ {
			ops = append(ops, fmt.Sprintf("show q%d", k))
		}
	}
	if alias && n > 0 {
		// a second fold over (some of) the same objects
		second := []string{"reqstart"}
		site2 := "reqsite"
		for k := 0; k < n; k++ {
			if r.Chance(70) {
				second = append(second, fmt.Sprintf("rq q%d", k))
				site2 += fmt.Sprintf(" q%d", k)
			}
		}
		if viaSite {
			ops = append(ops, site2)
		} else {
			ops = append(ops, second...)
		}
	}
	return proto.Case{ID: id, Ops: ops}
}

var malformed = [][]string{
	{"bogus"},
	{"obj a bogus", "rq a"},
	{"obj a early status=1", "reqstart", "rq a"},
	{"obj a modhdr h=x", "rq a"},
	{"obj a modresp h=_ body=b status=zz"},
	{"obj a noop", "obj a noop", "rq a", "rs a", "show a"},
	{"obj a retry h=" + hA, "reqstart", "rq a", "rs a", "rq nobody", "rs nobody", "show nobody"},
	{"obj a modhdr h=" + hA, "respstart", "rs a", "rq a"},
	{"rq", "rs", "show", "obj", "obj a", "reqstart now"},
	{"obj a modhdr h=x|1;x|2", "rq a", "show a"},
	{"obj a modhdr h=" + hA, "obj r retry h=" + hB, "reqsite", "respsite", "reqsite a r", "respsite r a", "reqsite a nobody", "respsite nobody r", "reqsite r nobody"},
}

func gen(r *prng.R, f proto.Flags, emit func(proto.Case)) {
	for i, ops := range malformed {
		emit(proto.Case{ID: fmt.Sprintf("m%d", i+1), Ops: ops})
	}
	reqLen, respLen, nRand, randLen := 4, 5, 3000, 12
	if f.Tier == "thorough" {
		reqLen, respLen, nRand, randLen = 5, 6, 30000, 16
	}
	enumerate("eq", reqReps, "rq", "reqstart", "reqsite", reqLen, emit)
	enumerate("es", respReps, "rs", "respstart", "respsite", respLen, emit)
	enumerateAliased(reqLen, emit)
	enumerateHandler(r.Fork(), emit)
	enumerateFlows(f.Tier, r.Fork(), emit)
	legacyLen := 3
	if f.Tier == "thorough" {
		enumeratePolicy(emit)
		legacyLen = 4
	}
	enumerateLegacy(legacyLen, r.Fork(), emit)
	nRand *= f.Budget
	for k := 0; k < nRand; k++ {
		emit(genRandom(r.Fork(), fmt.Sprintf("g%d", k+1), randLen))
	}
}

func main() {
	zerolog.SetGlobalLevel(zerolog.Disabled)
	proto.Main(proto.Harness{Rule: rule, Gen: gen, Exec: exec})
}
