// Harness for C14: (L1) the real config.HaproxyEndpointFormat on generated patterns; (L2) Go regexp (RE2
// syntax) on generated (expression, subject) pairs — the real engine the Lean regex semantics is tied to
// (HAProxy's PCRE is not in the sandbox; for the subset delimited by inSubset the two agree); (L3) end to end:
// flows mode = real streamfilter.FilterTree (AddFlow / GetFlow) + the registration loop of
// routing.buildHAProxyFlowsEndpointsRequest applied to the real filters grouped by the real ToComparable
// (the function is unexported: the loop is repeated in register.go, cross-checked against a real streams.Stream
// loaded from YAML when the case is YAML-expressible), policy mode = real config.BuildEndpointPolicyTree / Lookup
// + real config.BuildHAProxyEndpointsRequest; per request: which declarations the ENGINE selects, and whether
// the PROXY would forward it (manage-all or some registered expression found by regexp.MatchString in
// "METHOD:::url", exactly the sample fetch of haproxy.cfg:178).
package main

import (
	"regexp"
	"sort"
	"strconv"
	"strings"
	"time"

	"lunar/engine/config"
	lunarMessages "lunar/engine/messages"
	streamconfig "lunar/engine/streams/config"
	streamfilter "lunar/engine/streams/filter"
	streamflow "lunar/engine/streams/flow"
	internaltypes "lunar/engine/streams/internal-types"
	lunarContext "lunar/engine/streams/lunar-context"
	publictypes "lunar/engine/streams/public-types"
	streamtypes "lunar/engine/streams/types"
	sharedConfig "lunar/shared-model/config"

	"github.com/rs/zerolog"

	"verif/harness/internal/proto"
)

const rule = "L1 generated URL patterns (dots, path/host parameters, odd parameter names, wildcards, regex metacharacters) " +
	"through HaproxyEndpointFormat; L2 generated/enumerated (expression, subject) pairs through Go regexp; L3 sets of flow " +
	"filters / endpoint policies x method lists x requests (instantiated, literal-metacharacter, trimmed, truncated, extended " +
	"URLs, unregistered methods); non-trivial = an L3 case in which at least one request is selected by the engine and managed " +
	"and at least one is unselected or unmanaged; distinct by (ops, answers)"

var shared = lunarContext.NewMemoryState[[]byte]()

func isAlnum(c byte) bool {
	return c >= '0' && c <= '9' || c >= 'a' && c <= 'z' || c >= 'A' && c <= 'Z'
}

func isDigit(c byte) bool { return c >= '0' && c <= '9' }

// inSubset mirrors Regex.inSubset (lean/LunarVerif/Model/Regex.lean).
func inSubset(s string) bool {
	for i := 0; i < len(s); {
		c := s[i]
		switch {
		case c == '\\' && i+1 < len(s):
			d := s[i+1]
			if isAlnum(d) || d >= 128 {
				return false
			}
			i += 2
			continue
		case c == '(' && i+1 < len(s) && s[i+1] == '?':
			return false
		case c == '[' && i+1 < len(s) && s[i+1] == ':':
			return false
		case c == '{' && i+2 < len(s) && isDigit(s[i+1]) && isDigit(s[i+2]):
			return false
		}
		if c >= 128 {
			return false
		}
		i++
	}
	return true
}

func reAnswer(e, s string) string {
	if !inSubset(e) {
		return "unsupported"
	}
	re, err := regexp.Compile(e)
	if err != nil {
		return "err:syntax"
	}
	if re.MatchString(s) {
		return "match"
	}
	return "nomatch"
}

type flowDecl struct {
	name    string
	url     string
	methods []string
	expr    bool // the filter carries `expressions`
}

// a response-side expression: request legs are validated by validateExpr with nothing to check
const flowExpression = "$.response.status"

func (f flowDecl) filter() *streamconfig.Filter {
	flt := &streamconfig.Filter{Name: f.name, URL: f.url, Method: append([]string(nil), f.methods...)}
	if f.expr {
		flt.Expressions = []string{flowExpression}
	}
	return flt
}

func (f flowDecl) build() internaltypes.FlowI {
	return streamflow.NewFlow(nil, &streamconfig.FlowRepresentation{Name: f.name, Filter: f.filter(),
		Type: internaltypes.UserFlow}, nil)
}

func safeAdd(ft internaltypes.FilterTreeI, fl internaltypes.FlowI) (res string) {
	defer func() {
		if r := recover(); r != nil {
			res = "panic"
		}
	}()
	if err := ft.AddFlow(fl); err != nil {
		return "err"
	}
	return "ok"
}

type polDecl struct {
	name, method, url string
	rem, diag         []bool // enabled flags of the endpoint's remedies / diagnoses, in declaration order
}

func parseFlags(s string) []bool {
	if s == "-" {
		return nil
	}
	var out []bool
	for _, f := range strings.Split(s, ",") {
		out = append(out, f == "1")
	}
	return out
}

type state struct {
	mode   int
	ft     internaltypes.FilterTreeI
	flows  []internaltypes.FlowI
	decls  []flowDecl
	dead   bool
	pols   []polDecl
	glob   bool
	built  bool
	pt     *config.EndpointPolicyTree
	ma     bool
	eps    []string
	res    []*regexp.Regexp
	subset bool
	extra  []regVariant // other requests the REAL registration function produced for the same flows
	rl     *reloadWorld
}

// regVariant: one registration request as the proxy would hold it
type regVariant struct {
	ma     bool
	res    []*regexp.Regexp
	subset bool
}

func newVariant(req *config.HAProxyEndpointsRequest) regVariant {
	v := regVariant{ma: req.ManageAll, subset: true}
	for _, e := range req.ManagedEndpoints {
		if !inSubset(e.Endpoint) {
			v.subset = false
		}
		if re, err := regexp.Compile(e.Endpoint); err == nil {
			v.res = append(v.res, re)
		}
	}
	return v
}

func (v regVariant) managed(subj string) string {
	if v.ma {
		return "1"
	}
	if !v.subset {
		return "?"
	}
	for _, re := range v.res {
		if re.MatchString(subj) {
			return "1"
		}
	}
	return "0"
}

func fmtNames(n []string) string {
	if len(n) == 0 {
		return "-"
	}
	return strings.Join(n, ",")
}

func splitMethods(s string) []string {
	if s == "-" {
		return nil
	}
	var out []string
	for _, m := range strings.Split(s, ",") {
		out = append(out, proto.Dec(m))
	}
	return out
}

func (st *state) setRegistered(req *config.HAProxyEndpointsRequest) string {
	st.ma = req.ManageAll
	st.eps = nil
	st.res = nil
	st.subset = true
	for _, e := range req.ManagedEndpoints {
		st.eps = append(st.eps, e.Endpoint)
		if !inSubset(e.Endpoint) {
			st.subset = false
		}
		// an expression the regex engine rejects cannot be loaded into the map: it matches nothing
		if re, err := regexp.Compile(e.Endpoint); err == nil {
			st.res = append(st.res, re)
		}
	}
	st.built = true
	encs := make([]string, len(st.eps))
	for i, e := range st.eps {
		encs[i] = proto.Enc(e)
	}
	sort.Strings(encs)
	ma := "0"
	if st.ma {
		ma = "1"
	}
	l := "-"
	if len(encs) > 0 {
		l = strings.Join(encs, ";")
	}
	return "ma=" + ma + " n=" + itoa(len(encs)) + " eps=" + l
}

func itoa(n int) string {
	if n == 0 {
		return "0"
	}
	var b []byte
	for n > 0 {
		b = append([]byte{byte('0' + n%10)}, b...)
		n /= 10
	}
	return string(b)
}

// managed: under EVERY registration request seen for this configuration (0 beats ? beats 1)
func (st *state) managed(m, u string) string {
	subj := m + ":::" + u
	res := regVariant{ma: st.ma, res: st.res, subset: st.subset}.managed(subj)
	for _, v := range st.extra {
		switch r := v.managed(subj); {
		case r == "0":
			res = "0"
		case r == "?" && res == "1":
			res = "?"
		}
	}
	return res
}

func exec(c proto.Case, o *proto.Out) []string {
	outs := make([]string, len(c.Ops))
	st := &state{}
	selMan, other := 0, 0
	lifetime := false
	for i, op := range c.Ops {
		w := strings.Fields(op)
		if len(w) == 0 {
			outs[i] = "bad-op"
			continue
		}
		kv := func(k string) (string, bool) { return proto.KV(w[1:], k) }
		switch w[0] {
		case "fmt":
			m, ok1 := kv("m")
			u, ok2 := kv("url")
			if !ok1 || !ok2 {
				outs[i] = "bad-op"
				break
			}
			outs[i] = proto.Enc(config.HaproxyEndpointFormat(proto.Dec(m), proto.Dec(u), nil).Endpoint)
			o.Count("L1-fmt")
		case "re":
			e, ok1 := kv("e")
			s, ok2 := kv("s")
			if !ok1 || !ok2 {
				outs[i] = "bad-op"
				break
			}
			outs[i] = reAnswer(proto.Dec(e), proto.Dec(s))
			o.Count("L2-" + outs[i])
		case "mode":
			if len(w) == 2 && w[1] == "flows" {
				st.mode = 1
				st.ft = streamfilter.NewFilterTree()
				outs[i] = "ok"
			} else if len(w) == 2 && w[1] == "policy" {
				st.mode = 2
				outs[i] = "ok"
			} else if len(w) == 2 && w[1] == "reload" {
				st.mode = 3
				st.rl = newReloadWorld()
				defer st.rl.close()
				outs[i] = "ok"
			} else {
				outs[i] = "bad-op"
			}
		case "flow":
			n, ok1 := kv("name")
			u, ok2 := kv("url")
			ms, ok3 := kv("methods")
			if !ok1 || !ok2 || !ok3 || st.mode != 1 {
				outs[i] = "bad-op"
				break
			}
			if st.dead {
				outs[i] = "dead"
				break
			}
			ex, _ := kv("expr")
			d := flowDecl{n, proto.Dec(u), splitMethods(ms), ex == "1"}
			fl := d.build()
			outs[i] = safeAdd(st.ft, fl)
			o.Count("L3-addflow-" + outs[i])
			if outs[i] == "ok" {
				st.flows = append(st.flows, fl)
				st.decls = append(st.decls, d)
			} else {
				st.dead = true
			}
		case "policy":
			n, ok1 := kv("name")
			m, ok2 := kv("m")
			u, ok3 := kv("url")
			on, okOn := kv("on")
			rs, okR := kv("r")
			ds, okD := kv("d")
			if !ok1 || !ok2 || !ok3 || st.mode != 2 || !(okOn && !okR && !okD || !okOn && okR && okD) {
				outs[i] = "bad-op"
				break
			}
			d := polDecl{name: n, method: proto.Dec(m), url: proto.Dec(u)}
			if okOn {
				d.diag = []bool{on == "1"}
			} else {
				d.rem, d.diag = parseFlags(rs), parseFlags(ds)
			}
			st.pols = append(st.pols, d)
			outs[i] = "ok"
		case "global":
			on, ok := kv("on")
			if !ok || st.mode != 2 {
				outs[i] = "bad-op"
				break
			}
			st.glob = on == "1"
			outs[i] = "ok"
		case "reload":
			g, ok1 := kv("g")
			es, ok2 := kv("eps")
			if !ok1 || !ok2 || st.mode != 3 {
				outs[i] = "bad-op"
				break
			}
			eps, ok := parseReloadEps(es)
			if !ok {
				outs[i] = "bad-op"
				break
			}
			now, _ := kv("now")
			outs[i] = st.rl.reload(g == "1", eps, now == "1", o)
		case "txn", "txn?":
			id, ok := kv("id")
			if !ok || st.mode != 3 || len(w) != 2 {
				outs[i] = "bad-op"
				break
			}
			if w[0] == "txn" {
				outs[i] = st.rl.anchor(id)
			} else {
				outs[i] = st.rl.txnView(id, o)
				lifetime = true
			}
		case "fail":
			ps, ok1 := kv("put")
			ds, ok2 := kv("del")
			pn, e1 := strconv.Atoi(ps)
			dn, e2 := strconv.Atoi(ds)
			if !ok1 || !ok2 || e1 != nil || e2 != nil || pn < 0 || dn < 0 || st.mode != 3 {
				outs[i] = "bad-op"
				break
			}
			outs[i] = st.rl.fail(pn, dn)
		case "advance":
			ms, ok := kv("ms")
			n, err := strconv.ParseInt(ms, 10, 64)
			if !ok || err != nil || n < 0 || st.mode != 3 {
				outs[i] = "bad-op"
				break
			}
			outs[i] = st.rl.advance(n)
		case "managed?":
			if st.mode != 3 || len(w) != 1 {
				outs[i] = "bad-op"
				break
			}
			outs[i] = st.rl.managed()
			if st.rl.reloads >= 2 {
				lifetime = true
			}
		case "build":
			switch {
			case len(w) != 1:
				outs[i] = "bad-op"
			case st.mode == 1 && st.dead:
				outs[i] = "dead"
			case st.mode == 1:
				filters := supportedFilters(st.flows)
				req := flowsEndpointsRequest(filters)
				outs[i] = st.setRegistered(req)
				st.extra = nil
				if real := realFlowsRequests(c.Ops, st.decls, o); real != nil {
					differs := 0
					for _, rq := range real {
						if endpointsKey(rq) != endpointsKey(req) {
							st.extra = append(st.extra, newVariant(rq))
							differs++
							if differs == 1 {
								outs[i] += " real-differs:" + strings.ReplaceAll((&state{}).setRegistered(rq), " ", ",")
							}
						}
					}
					if differs > 0 {
						outs[i] += " variants=" + itoa(len(real))
						o.Count("L3-realbuild-DIFFERS")
					} else {
						o.Count("L3-realbuild-same")
					}
				}
				o.Count("L3-build-flows")
			case st.mode == 2:
				outs[i] = st.buildPolicies(o)
			default:
				outs[i] = "bad-op"
			}
		case "req":
			m, ok1 := kv("m")
			u, ok2 := kv("url")
			if !ok1 || !ok2 {
				outs[i] = "bad-op"
				break
			}
			if st.dead {
				outs[i] = "sel=- managed=0"
				break
			}
			if !st.built {
				outs[i] = "no-build"
				break
			}
			method, url := proto.Dec(m), proto.Dec(u)
			var sel []string
			if st.mode == 2 {
				sel = st.selectPolicies(method, url)
			} else {
				sel = st.selectFlows(method, url, i)
			}
			man := st.managed(method, url)
			outs[i] = "sel=" + fmtNames(sel) + " managed=" + man
			switch {
			case len(sel) > 0 && man == "1":
				selMan++
				o.Count("L3-req-selected-managed")
			case len(sel) > 0 && man == "0":
				other++
				o.Count("L3-req-selected-UNMANAGED")
			case len(sel) == 0 && man == "1":
				other++
				o.Count("L3-req-unselected-managed")
			case man == "?":
				o.Count("L3-req-expression-outside-subset")
			default:
				other++
				o.Count("L3-req-unselected-unmanaged")
			}
		default:
			outs[i] = "bad-op"
		}
	}
	if (selMan > 0 && other > 0) || lifetime {
		o.NonTrivial(strings.Join(c.Ops, "|") + "#" + strings.Join(outs, "|"))
	}
	return outs
}

func (st *state) selectFlows(method, url string, i int) []string {
	id := "v" + itoa(i)
	api := streamtypes.NewRequestAPIStream(lunarMessages.OnRequest{ID: id, SequenceID: id, Method: method,
		Scheme: "https", URL: url, Headers: map[string]string{}, Time: time.Unix(1_700_000_000, 0)}, shared)
	r, found := st.ft.GetFlow(api)
	if !found {
		return nil
	}
	var out []string
	if fl, ok := r.GetUserFlow(); ok {
		for _, f := range fl {
			out = append(out, f.GetName())
		}
	}
	return out
}

func (st *state) buildPolicies(o *proto.Out) string {
	pc := &sharedConfig.PoliciesConfig{}
	if st.glob {
		pc.Global.Diagnosis = []sharedConfig.Diagnosis{{Name: "g", Enabled: true}}
	}
	for _, p := range st.pols {
		pc.Endpoints = append(pc.Endpoints, p.endpointConfig())
	}
	eps := make([]sharedConfig.EndpointConfig, len(pc.Endpoints))
	for i, e := range pc.Endpoints {
		e.Diagnosis = append([]sharedConfig.Diagnosis(nil), e.Diagnosis...)
		e.Remedies = append([]sharedConfig.Remedy(nil), e.Remedies...)
		eps[i] = e
	}
	pt, err := config.BuildEndpointPolicyTree(eps)
	if err != nil {
		st.dead = true
		o.Count("L3-build-policy-err")
		return "err"
	}
	st.pt = pt
	o.Count("L3-build-policy")
	return st.setRegistered(config.BuildHAProxyEndpointsRequest(pc))
}

// endpointConfig: remedies without a configuration have the undefined type, which the duplicate check ignores
func (p polDecl) endpointConfig() sharedConfig.EndpointConfig {
	e := sharedConfig.EndpointConfig{URL: p.url, Method: p.method}
	for _, on := range p.rem {
		e.Remedies = append(e.Remedies, sharedConfig.Remedy{Name: p.name, Enabled: on})
	}
	for _, on := range p.diag {
		e.Diagnosis = append(e.Diagnosis, sharedConfig.Diagnosis{Name: p.name, Enabled: on})
	}
	return e
}

// selectPolicies: the selection of runner.getRemedies / runner.getDiagnoses (unexported; five lines) on the REAL lookup result and
// the REAL policy map: the endpoint policies with an enabled plugin that the engine applies to the request.
func (st *state) selectPolicies(method, url string) []string {
	res := st.pt.Lookup(url)
	if res.Value == nil {
		return nil
	}
	pol, found := (*res.Value)[urltreeMethod(method)]
	if !found {
		return nil
	}
	// enabled remedies first, then enabled diagnoses; one name per endpoint policy
	var out []string
	seen := map[string]bool{}
	for _, r := range pol.Remedies {
		if r.Enabled && !seen[r.Name] {
			seen[r.Name] = true
			out = append(out, r.Name)
		}
	}
	for _, d := range pol.Diagnosis {
		if d.Enabled && !seen[d.Name] {
			seen[d.Name] = true
			out = append(out, d.Name)
		}
	}
	return out
}

func main() {
	ensureAdminPort()
	zerolog.SetGlobalLevel(zerolog.Disabled)
	proto.Main(proto.Harness{Rule: rule, Gen: gen, Exec: exec})
}

var _ publictypes.FilterI = (*streamconfig.Filter)(nil)
