package main

import (
	"fmt"
	"hash/fnv"
	"strings"

	"verif/harness/internal/prng"
	"verif/harness/internal/proto"
)

// 1 case in engineCheckEvery (by a hash of its op lines, so that Exec stays a pure function of the case) is
// cross-checked against a real streams.Stream loaded from YAML, at most engineCheckBudget per process.
const engineCheckEvery = 3

var engineCheckBudget = 400

func caseHash(ops []string) uint32 {
	h := fnv.New32a()
	for _, o := range ops {
		h.Write([]byte(o))
		h.Write([]byte{0})
	}
	return h.Sum32()
}

var (
	methodsAll   = []string{"GET", "POST", "PUT", "DELETE", "PATCH", "HEAD", "OPTIONS"}
	methodsDflt  = []string{"GET", "POST", "PUT", "DELETE", "PATCH"}
	hostLabels   = []string{"api", "a", "com", "x1", "org", "svc-1"}
	hostNasty    = []string{"{sub}", "*", "a+b", "API", "com:8080", "[ab]", "x(1)", "{p}", "{a.b}", "x*", "{}"}
	segPlain     = []string{"a", "b", "v1", "users", "posts", "7", "x-y_z", "v1.0", "a.b", ".well-known"}
	segParam     = []string{"{id}", "{user_id}", "{a-b}", "{X9}", "{p}", "{q}"}
	segOddParam  = []string{"{user.id}", "{id:int}", "{}", "{2}", "{a b}", "{id}x", "x{id}", "{{id}}", "{id}}", "{i/d}"}
	segMeta      = []string{"a+b", "c(1)", "x*", "[ab]", "a|b", "^a", "a$", "a\\", "a?", "x{2}", "(a", "a)", "a**", "[a", "a]", "$", "^", "+", "a{1,2}", "a\\.b", "(a|b)", "[^/]", "a.*", "\\(", "a{,2}", "a{2", "b+?"}
	paramValues  = []string{"7", "abc", "a.b", "x-y", "", "{id}", "*", "a+b", "42"}
	metaIntended = map[string][]string{"a+b": {"aab", "ab"}, "c(1)": {"c1"}, "x*": {"xx", ""}, "[ab]": {"a"}, "a|b": {"a"},
		"a?": {"a", ""}, "x{2}": {"xx"}, "a.b": {"aXb"}, "v1.0": {"v1x0"}, "a.*": {"aqq"}, "a{1,2}": {"aa"}, "(a|b)": {"b"}}
)

type patKind int

const (
	kSafe patKind = iota
	kMeta
	kOdd
	kHostVar
	kAny
)

func genHost(r *prng.R, k patKind) string {
	n := r.Range(2, 3)
	ls := make([]string, n)
	for i := range ls {
		ls[i] = prng.Pick(r, hostLabels)
	}
	if k == kHostVar || (k == kAny && r.Chance(15)) {
		ls[r.Intn(n)] = prng.Pick(r, hostNasty)
	}
	return strings.Join(ls, ".")
}

func genSeg(r *prng.R, k patKind) string {
	switch k {
	case kMeta:
		if r.Chance(55) {
			return prng.Pick(r, segMeta)
		}
	case kOdd:
		if r.Chance(55) {
			return prng.Pick(r, segOddParam)
		}
	case kAny:
		switch r.Intn(10) {
		case 0, 1:
			return prng.Pick(r, segMeta)
		case 2:
			return prng.Pick(r, segOddParam)
		}
	}
	if r.Chance(35) {
		return prng.Pick(r, segParam)
	}
	return prng.Pick(r, segPlain)
}

func genPattern(r *prng.R, k patKind) string {
	p := genHost(r, k)
	n := r.Range(0, 3)
	for i := 0; i < n; i++ {
		p += "/" + genSeg(r, k)
	}
	if r.Chance(30) {
		p += "/*"
	}
	if k == kAny || r.Chance(4) {
		switch r.Intn(12) {
		case 0:
			p += "/"
		case 1:
			p = "/" + p
		case 2:
			p += "."
		case 3:
			p = strings.Replace(p, "/", "/*/", 1)
		case 4:
			p = strings.Replace(p, "/", "//", 1)
		}
	}
	return p
}

func pickKind(r *prng.R) patKind {
	switch x := r.Intn(100); {
	case x < 40:
		return kSafe
	case x < 60:
		return kMeta
	case x < 72:
		return kOdd
	case x < 82:
		return kHostVar
	default:
		return kAny
	}
}

// derive: a pattern overlapping with p
func derive(r *prng.R, p string, k patKind) string {
	parts := strings.Split(p, "/")
	switch r.Intn(8) {
	case 7:
		// the host/path boundary moved: same trie keys, other side of the first '/'
		if i := strings.Index(p, "/"); i >= 0 && r.Bool() {
			return p[:i] + "." + p[i+1:]
		}
		if i := strings.LastIndex(strings.SplitN(p, "/", 2)[0], "."); i >= 0 {
			return p[:i] + "/" + p[i+1:]
		}
	case 0:
		return p + "/" + genSeg(r, k)
	case 1:
		return strings.TrimSuffix(p, "/*") + "/*"
	case 2:
		if len(parts) > 1 {
			i := r.Range(1, len(parts)-1)
			parts[i] = genSeg(r, k)
			return strings.Join(parts, "/")
		}
	case 3:
		if len(parts) > 1 {
			return strings.Join(parts[:len(parts)-1], "/")
		}
	case 4:
		return p
	case 5:
		if len(parts) > 1 {
			i := r.Range(1, len(parts)-1)
			parts[i] = prng.Pick(r, segParam)
			return strings.Join(parts, "/")
		}
	}
	return genPattern(r, k)
}

func isParamSeg(s string) bool { return strings.HasPrefix(s, "{") && strings.HasSuffix(s, "}") }

// instantiate: a request URL for pattern p
func instantiate(r *prng.R, p string) string {
	p = strings.Trim(p, "./")
	parts := strings.Split(p, "/")
	hs := strings.Split(parts[0], ".")
	for i, h := range hs {
		switch {
		case isParamSeg(h):
			hs[i] = prng.Pick(r, []string{"eu", "us-1", "x"})
		case h == "*":
			hs[i] = prng.Pick(r, []string{"x", "x.y"})
		}
	}
	out := []string{strings.Join(hs, ".")}
	for i, s := range parts[1:] {
		last := i == len(parts)-2
		switch {
		case s == "*" && last:
			for k := r.Intn(4); k > 0; k-- {
				out = append(out, prng.Pick(r, segPlain))
			}
		case isParamSeg(s):
			if r.Chance(80) {
				out = append(out, prng.Pick(r, paramValues[:4]))
			} else {
				out = append(out, prng.Pick(r, paramValues))
			}
		default:
			if alts, ok := metaIntended[s]; ok && r.Chance(25) {
				out = append(out, prng.Pick(r, alts))
			} else {
				out = append(out, s)
			}
		}
	}
	return strings.Join(out, "/")
}

func mutateURL(r *prng.R, u string) string {
	parts := strings.Split(u, "/")
	switch r.Intn(16) {
	case 0:
		return u + "/"
	case 1:
		return "/" + u
	case 2:
		return u + "."
	case 3:
		return u + "/" + prng.Pick(r, segPlain)
	case 4:
		if len(parts) > 1 {
			return strings.Join(parts[:len(parts)-1], "/")
		}
	case 5:
		if len(parts) > 1 {
			parts[r.Range(1, len(parts)-1)] = prng.Pick(r, segPlain)
			return strings.Join(parts, "/")
		}
	case 6:
		parts[0] += ":8080"
		return strings.Join(parts, "/")
	case 7:
		parts[0] = strings.ToUpper(parts[0])
		return strings.Join(parts, "/")
	case 8:
		return strings.Replace(u, "/", "//", 1)
	case 9:
		return u + "//"
	case 10:
		return "x" + u
	case 11:
		return u + "x"
	case 12:
		parts[0] += "." + prng.Pick(r, hostLabels)
		return strings.Join(parts, "/")
	case 13:
		return "." + u
	case 14:
		// the host/path boundary moved
		if i := strings.Index(u, "/"); i >= 0 {
			return u[:i] + "." + u[i+1:]
		}
	case 15:
		if i := strings.LastIndex(parts[0], "."); i >= 0 {
			return u[:i] + "/" + u[i+1:]
		}
	}
	return u
}

// method spellings in lower / mixed case on the FILTER side (the expression uses the text as written, the engine
// compares exactly; the proxy captures the method as sent, normally upper case)
var methodsOddCase = [][]string{{"get"}, {"Post"}, {"get", "POST"}, {"GET", "get"}, {"delete"}, {"pAtCh", "PUT"}}

func genMethods(r *prng.R) []string {
	if r.Chance(10) {
		// exactly the default list of GetSupportedMethods, spelled out (in any order): NOT the same filter as one
		// without a method list, which accepts every method
		ms := append([]string(nil), methodsDflt...)
		prng.Shuffle(r, ms)
		return ms
	}
	if r.Chance(12) {
		return append([]string(nil), prng.Pick(r, methodsOddCase)...)
	}
	switch r.Intn(10) {
	case 0, 1, 2:
		return nil
	case 3, 4:
		return []string{"GET"}
	case 5:
		return []string{"POST", "GET"}
	case 6:
		return []string{"HEAD"}
	case 7:
		return []string{prng.Pick(r, methodsAll)}
	case 8:
		return []string{"GET", "GET"}
	default:
		n := r.Range(1, 3)
		ms := make([]string, n)
		for i := range ms {
			ms[i] = prng.Pick(r, methodsAll)
		}
		return ms
	}
}

func encMethods(ms []string) string {
	if len(ms) == 0 {
		return "-"
	}
	out := make([]string, len(ms))
	for i, m := range ms {
		out[i] = proto.Enc(m)
	}
	return strings.Join(out, ",")
}

func reqOp(m, u string) string { return "req m=" + proto.Enc(m) + " url=" + proto.Enc(u) }

// caseVariant: the same URL with other letter case in a host label or a path segment (the proxy's map_reg
// is case-sensitive; so must be whatever the engine matches)
func caseVariant(r *prng.R, u string) string {
	parts := strings.Split(u, "/")
	switch r.Intn(4) {
	case 0:
		parts[0] = strings.ToUpper(parts[0])
	case 1:
		ls := strings.Split(parts[0], ".")
		i := r.Intn(len(ls))
		if ls[i] != "" {
			ls[i] = strings.ToUpper(ls[i][:1]) + ls[i][1:]
		}
		parts[0] = strings.Join(ls, ".")
	case 2:
		if len(parts) > 1 {
			i := r.Range(1, len(parts)-1)
			parts[i] = strings.ToUpper(parts[i])
		} else {
			parts[0] = strings.ToUpper(parts[0])
		}
	default:
		ls := strings.Split(parts[0], ".")
		i := r.Intn(len(ls))
		ls[i] = strings.ToUpper(ls[i])
		parts[0] = strings.Join(ls, ".")
	}
	return strings.Join(parts, "/")
}

func genReqs(r *prng.R, pats []string, methods [][]string, n int) []string {
	var ops []string
	for k := 0; k < n; k++ {
		i := r.Intn(len(pats))
		u := instantiate(r, pats[i])
		if r.Chance(40) {
			u = mutateURL(r, u)
		} else if r.Chance(15) {
			u = caseVariant(r, u)
		}
		var m string
		if r.Chance(65) {
			ms := methods[i]
			if len(ms) == 0 {
				ms = methodsDflt
			}
			m = prng.Pick(r, ms)
			if r.Chance(70) {
				m = strings.ToUpper(m) // the proxy's form: the method as captured from real traffic
			}
		} else {
			m = prng.Pick(r, methodsAll)
		}
		if r.Chance(4) {
			m = strings.ToLower(m) // methods are case-sensitive tokens: a lower-case request method is another method
		}
		ops = append(ops, reqOp(m, u))
	}
	return ops
}

func genFlowsCase(r *prng.R) []string {
	ops := []string{"mode flows"}
	k := pickKind(r)
	n := r.Range(1, 4)
	var pats []string
	var methods [][]string
	for i := 0; i < n; i++ {
		var p string
		if i == 0 || r.Chance(30) {
			p = genPattern(r, k)
		} else if r.Chance(25) {
			p = pats[r.Intn(len(pats))] // several features on ONE URL: their method lists decide the grouping
		} else {
			p = derive(r, pats[r.Intn(len(pats))], k)
		}
		if r.Chance(1) {
			p = prng.Pick(r, []string{"*", ".*"})
		}
		ms := genMethods(r)
		if i > 0 && r.Chance(15) {
			ms = nil
		}
		ex := ""
		if r.Chance(6) {
			// an expression filter (no method list): matched by URL + expression, registered like any other filter
			ms, ex = nil, " expr=1"
		}
		pats = append(pats, p)
		methods = append(methods, ms)
		ops = append(ops, fmt.Sprintf("flow name=f%d url=%s methods=%s%s", i+1, proto.Enc(p), encMethods(ms), ex))
	}
	ops = append(ops, "build")
	return append(ops, genReqs(r, pats, methods, r.Range(6, 14))...)
}

func genFlags(r *prng.R, max int) string {
	n := r.Intn(max + 1)
	if n == 0 {
		return "-"
	}
	fl := make([]string, n)
	for i := range fl {
		fl[i] = "0"
		if r.Bool() {
			fl[i] = "1"
		}
	}
	return strings.Join(fl, ",")
}

// catch-all flows ("*", ".*", "") next to other filter groups: manage-all must be requested whatever the order in
// which the registration function visits the groups
func genCatchAllCase(r *prng.R) []string {
	ops := []string{"mode flows"}
	n := r.Range(2, 4)
	at := r.Intn(n)
	var pats []string
	var methods [][]string
	for i := 0; i < n; i++ {
		p := genPattern(r, kSafe)
		if i == at {
			p = prng.Pick(r, []string{"*", ".*", "*", ""})
		}
		ms := genMethods(r)
		pats = append(pats, p)
		methods = append(methods, ms)
		ops = append(ops, fmt.Sprintf("flow name=f%d url=%s methods=%s", i+1, proto.Enc(p), encMethods(ms)))
	}
	ops = append(ops, "build")
	reqs := genReqs(r, pats, methods, r.Range(4, 8))
	return append(append(ops, reqs...), reqOp(prng.Pick(r, methodsAll), "other.org/"+prng.Pick(r, segPlain)))
}

func genPolicyCase(r *prng.R) []string {
	ops := []string{"mode policy"}
	k := pickKind(r)
	n := r.Range(1, 4)
	var pats []string
	var methods [][]string
	for i := 0; i < n; i++ {
		var p string
		if i == 0 || r.Chance(30) {
			p = genPattern(r, k)
		} else {
			p = derive(r, pats[r.Intn(len(pats))], k)
		}
		// `{{id}}` / `{id}}` / `{id}` are the same trie parts with different texts: the endpoint policy tree's
		// by-URL side table is C13's business (text vs parts key); keep one spelling per parameter here
		p = strings.NewReplacer("{{id}}", "{id:int}", "{id}}", "{user.id}").Replace(p)
		m := prng.Pick(r, methodsAll[:6])
		if r.Chance(12) {
			m = prng.Pick(r, []string{"get", "Post", "delete", "pUt"})
		}
		pats = append(pats, p)
		methods = append(methods, []string{m})
		if r.Chance(35) {
			on := 1
			if r.Chance(12) {
				on = 0
			}
			ops = append(ops, fmt.Sprintf("policy name=p%d m=%s url=%s on=%d", i+1, m, proto.Enc(p), on))
		} else {
			// 0-3 remedies x 0-2 diagnoses, every combination and order of enabled flags
			ops = append(ops, fmt.Sprintf("policy name=p%d m=%s url=%s r=%s d=%s", i+1, m, proto.Enc(p),
				genFlags(r, 3), genFlags(r, 2)))
		}
	}
	if r.Chance(4) {
		ops = append(ops, "global on=1")
	}
	ops = append(ops, "build")
	return append(ops, genReqs(r, pats, methods, r.Range(6, 14))...)
}

var fmtTokens = []string{".*", "{sub}.", ".{p}", "*", "/", "{", "}", "a", "-", "_", ".", "*", "/*", "/{id}", "{a}", "//", "/{", "}/", "\\", "$",
	"(/.*)?", "[^/]+", "/{a.b}", "/{}", "9", "Z", "/{a-b_C9}", "api.com", "+", "/{id", "id}", "/*/"}

func genFmtCase(r *prng.R) []string {
	var ops []string
	for k := r.Range(5, 10); k > 0; k-- {
		var u string
		if r.Chance(50) {
			u = genPattern(r, kAny)
		} else {
			for j := r.Range(1, 8); j > 0; j-- {
				u += prng.Pick(r, fmtTokens)
			}
		}
		ops = append(ops, "fmt m="+proto.Enc(prng.Pick(r, methodsAll))+" url="+proto.Enc(u))
	}
	return ops
}

// ---- L2: regular expressions

const reAlphabet = "ab/.:*+?()|[]^$\\{},-12c"

var reAtoms = []string{"[^./]", "[^:]", "(\\..*)", "a", "b", "c", "/", ":", "\\.", "\\+", "\\\\", ".", "[ab]", "[^/]", "[a-c]", "[]a]", "[^]]", "[a-]",
	"^", "$", "\\$", "\\(", "{", "}", "]", "[a\\]]", "[\\^a]", "-", "1"}
var rePostfix = []string{"*", "+", "?", "{1}", "{2}", "{1,}", "{0,2}", "{2,3}", "*?", "+?", "??", "{3,2}", "**", "{,2}", "{1,2}?"}

func genRe(r *prng.R, depth int) string {
	n := r.Range(1, 4)
	var b strings.Builder
	for i := 0; i < n; i++ {
		var atom string
		switch {
		case depth > 0 && r.Chance(25):
			atom = "(" + genRe(r, depth-1) + ")"
		case depth > 0 && r.Chance(10):
			atom = "(" + genRe(r, depth-1) + "|" + genRe(r, depth-1) + ")"
		default:
			atom = prng.Pick(r, reAtoms)
		}
		b.WriteString(atom)
		if r.Chance(35) {
			b.WriteString(prng.Pick(r, rePostfix))
		}
	}
	if depth > 0 && r.Chance(15) {
		b.WriteString("|" + genRe(r, depth-1))
	}
	return b.String()
}

func mutateStr(r *prng.R, s, alphabet string) string {
	for k := r.Range(1, 2); k > 0; k-- {
		pos := r.Intn(len(s) + 1)
		switch r.Intn(3) {
		case 0:
			s = s[:pos] + string(alphabet[r.Intn(len(alphabet))]) + s[pos:]
		case 1:
			if pos < len(s) {
				s = s[:pos] + s[pos+1:]
			}
		default:
			if pos < len(s) {
				s = s[:pos] + string(alphabet[r.Intn(len(alphabet))]) + s[pos+1:]
			}
		}
	}
	return s
}

const subjAlphabet = "aabbc/:.+\\$(]1-"

func genSubject(r *prng.R) string {
	n := r.Intn(9)
	var b strings.Builder
	for i := 0; i < n; i++ {
		if r.Chance(2) {
			b.WriteByte('\n')
		} else {
			b.WriteByte(subjAlphabet[r.Intn(len(subjAlphabet))])
		}
	}
	return b.String()
}

func reOp(e, s string) string { return "re e=" + proto.Enc(e) + " s=" + proto.Enc(s) }

func genReCase(r *prng.R) []string {
	var ops []string
	for k := 0; k < 3; k++ {
		e := genRe(r, 2)
		if r.Chance(30) {
			e = mutateStr(r, e, reAlphabet)
		}
		for j := 0; j < 3; j++ {
			ops = append(ops, reOp(e, genSubject(r)))
		}
		// the expression's own text as subject: literal characters must match themselves
		ops = append(ops, reOp(e, strings.NewReplacer("\\", "").Replace(e)))
	}
	return ops
}

// L2 on what L1 produces: a formatted pattern against an instantiated URL
func genFmtReCase(r *prng.R) []string {
	var ops []string
	for k := 0; k < 3; k++ {
		p := genPattern(r, pickKind(r))
		m := prng.Pick(r, methodsAll)
		ops = append(ops, "fmt m="+m+" url="+proto.Enc(p))
	}
	return ops
}

func enumerate(alphabet string, maxLen int, f func(string)) {
	var rec func(prefix string, left int)
	rec = func(prefix string, left int) {
		f(prefix)
		if left == 0 {
			return
		}
		for i := 0; i < len(alphabet); i++ {
			rec(prefix+string(alphabet[i]), left-1)
		}
	}
	rec("", maxLen)
}

// ---- L4: reload histories

var reloadPool = []string{"GET@api.com/x", "POST@api.com/y", "GET@api.com/users/{id}", "HEAD@a.org/v1/*",
	"PUT@api.com/a+b", "GET@{sub}.api.com/x", "GET@api.com/users/{uid}"}
var reloadSteps = []int64{0, 1, 4999, 5000, 5001, 9999, 10000, 20000, 29999, 30000, 30001, 60000}

func genReloadCase(r *prng.R) []string {
	ops := []string{"mode reload"}
	pool := append([]string(nil), reloadPool[:r.Range(3, len(reloadPool))]...)
	genReq := func() string {
		var eps []string
		for _, e := range pool {
			if r.Chance(55) {
				f := strings.SplitN(e, "@", 2)
				ep := f[0] + "@" + proto.Enc(f[1])
				if r.Chance(45) {
					// several plugins: one registered entry per ENABLED plugin (multiplicities 0..5 of one expression)
					ep += "@" + genFlags(r, 3) + "@" + genFlags(r, 2)
				}
				eps = append(eps, ep)
			}
		}
		g := 0
		if r.Chance(12) {
			g = 1
		}
		l := "-"
		if len(eps) > 0 {
			l = strings.Join(eps, ";")
		}
		return fmt.Sprintf("reload g=%d eps=%s", g, l)
	}
	last := ""
	ntx := 0
	for k := r.Range(2, 6); k > 0; k-- {
		if last != "" && r.Chance(45) {
			// a request leg reaches the engine just before the update: the transaction is anchored to the old version
			ntx++
			ops = append(ops, fmt.Sprintf("txn id=t%d", ntx))
		}
		req := genReq()
		if last != "" && r.Chance(35) {
			req = last // the same configuration applied again
		}
		if last != "" && r.Chance(20) {
			// manage-all toggled against the previous request, same endpoints
			if strings.HasPrefix(last, "reload g=0") {
				req = "reload g=1" + last[len("reload g=0"):]
			} else {
				req = "reload g=0" + last[len("reload g=1"):]
			}
		}
		last = req
		if r.Chance(12) {
			req += " now=1" // the fail-safe reverts: un-manage immediately
		}
		if r.Chance(15) {
			// the admin server refuses some of the PUTs of this update (any fault point of the request)
			ops = append(ops, fmt.Sprintf("fail put=%d del=0", r.Range(1, 3)))
		}
		ops = append(ops, req)
		if r.Chance(40) {
			ops = append(ops, "managed?")
		}
		for j := r.Intn(3); j > 0; j-- {
			ops = append(ops, fmt.Sprintf("advance ms=%d", prng.Pick(r, reloadSteps)))
			if r.Chance(50) {
				ops = append(ops, "managed?")
			}
			for t := 1; t <= ntx; t++ {
				if r.Chance(60) {
					ops = append(ops, fmt.Sprintf("txn? id=t%d", t))
				}
			}
		}
	}
	// let everything settle and look
	ops = append(ops, fmt.Sprintf("advance ms=%d", prng.Pick(r, []int64{29999, 30000, 30001, 60000})), "managed?",
		"advance ms=30000", "managed?")
	return ops
}

// scripted reload families: manage-all on/off/on inside the grace period, refused DELETEs of a single job,
// a refused PUT at every position of an update
func genReloadFamily(r *prng.R, k int) []string {
	ops := []string{"mode reload"}
	x := "GET@api.com/x"
	gap := prng.Pick(r, []int64{0, 1, 10000, 29999})
	switch k % 7 {
	case 6: // a transaction in flight across an update that removes its endpoint: the clock stepped through the
		// interval in which the engine still serves it from the old version
		ops = append(ops, "reload g=0 eps="+x+";POST@api.com/y", "txn id=t1", "reload g=0 eps=POST@api.com/y", "txn? id=t1")
		at := int64(0)
		for _, t := range []int64{1, 4999, 5000, 5001, 9999, 10000, 15000, 20000, 29999, 30000, 30001} {
			ops = append(ops, fmt.Sprintf("advance ms=%d", t-at), "txn? id=t1")
			at = t
		}
		ops = append(ops, "managed?")
	case 4: // multiplicity 2 -> 1 of the SAME expression (one of two plugins disabled), scheduled and immediate
		from := prng.Pick(r, []string{"@1,1@-", "@1@1", "@-@1,1", "@1,1,1@1"})
		to := prng.Pick(r, []string{"@1,0@-", "@1@0", "@-@0,1", "@0,0,1@0"})
		now := ""
		if k%12 >= 6 {
			now = " now=1"
		}
		ops = append(ops, "reload g=0 eps="+x+from+";POST@api.com/y", "managed?", "reload g=0 eps="+x+to+now, "managed?",
			"advance ms=30000", "managed?")
	case 5: // the same expression from two endpoints (same method+URL declared twice), then once
		now := ""
		if k%12 >= 6 {
			now = " now=1"
		}
		ops = append(ops, "reload g=0 eps="+x+";"+x+";PUT@api.com/z", "reload g=0 eps="+x+now, "advance ms=30000", "managed?")
	case 0: // global on -> off -> on within 30 s, then look after the first and the second deadline
		ops = append(ops, "reload g=1 eps="+x, "reload g=0 eps="+x, fmt.Sprintf("advance ms=%d", gap),
			"reload g=1 eps="+x, fmt.Sprintf("advance ms=%d", 30000-gap), "managed?", "advance ms=30000", "managed?")
	case 1: // entries A -> B -> A
		ops = append(ops, "reload g=0 eps="+x, "reload g=0 eps=POST@api.com/y", fmt.Sprintf("advance ms=%d", gap),
			"reload g=0 eps="+x, fmt.Sprintf("advance ms=%d", 30000-gap), "managed?", "advance ms=30000", "managed?")
	case 2: // one pending job, its DELETEs refused
		ops = append(ops, "reload g=0 eps="+x+";POST@api.com/y;PUT@api.com/z", "advance ms=60000",
			"reload g=0 eps="+x, fmt.Sprintf("fail put=0 del=%d", r.Range(1, 2)), "advance ms=30000", "managed?")
	default: // a PUT refused at position p of an update that adds entries; retry
		p := r.Range(1, 3)
		ops = append(ops, "reload g=0 eps="+x, "managed?", fmt.Sprintf("fail put=%d del=0", p),
			"reload g=0 eps=POST@api.com/y;PUT@api.com/z;GET@api.com/w", "managed?", "advance ms=30000", "managed?",
			"reload g=0 eps=POST@api.com/y;PUT@api.com/z;GET@api.com/w", "advance ms=30000", "managed?",
			"fail put=1 del=0", "reload g=1 eps="+x, "advance ms=30000", "managed?")
	}
	return ops
}

var malformed = []string{"fmt m=GET", "re e=a", "bogus", "flow name=f1", "req m=GET", "build now", "mode both", "policy name=p m=GET url=a.com",
	"reload g=0", "advance ms=x", "managed? now", "fail put=1", "txn t1", "txn? id"}

func gen(r *prng.R, f proto.Flags, emit func(proto.Case)) {
	nFmt, nRe, nFlows, nPol, enumLen, nReload := 200, 500, 1500, 700, 3, 150
	if f.Tier == "thorough" {
		nFmt, nRe, nFlows, nPol, enumLen, nReload = 3000, 8000, 30000, 12000, 4, 2500
		engineCheckBudget = 3000
	}
	nFmt, nRe, nFlows, nPol, nReload = nFmt*f.Budget, nRe*f.Budget, nFlows*f.Budget, nPol*f.Budget, nReload*f.Budget
	id := 0
	out := func(prefix string, ops []string, rr *prng.R) {
		if rr != nil && rr.Chance(3) {
			pos := rr.Intn(len(ops) + 1)
			ops = append(ops[:pos:pos], append([]string{prng.Pick(rr, malformed)}, ops[pos:]...)...)
		}
		id++
		emit(proto.Case{ID: fmt.Sprintf("%s%d", prefix, id), Ops: ops})
	}
	for k := 0; k < nFmt; k++ {
		rr := r.Fork()
		out("fmt", genFmtCase(rr), rr)
	}
	for k := 0; k < nRe; k++ {
		rr := r.Fork()
		out("re", genReCase(rr), rr)
	}
	for k := 0; k < nFlows; k++ {
		rr := r.Fork()
		out("fl", genFlowsCase(rr), rr)
	}
	for k := 0; k < nFlows/25+20; k++ {
		rr := r.Fork()
		out("ca", genCatchAllCase(rr), rr)
	}
	for k := 0; k < nPol; k++ {
		rr := r.Fork()
		out("po", genPolicyCase(rr), rr)
	}
	// every combination and order of enabled flags of 0-3 remedies x 0-2 diagnoses on one endpoint
	var flagLists func(max int) []string
	flagLists = func(max int) []string {
		out := []string{"-"}
		var rec func(prefix []string, left int)
		rec = func(prefix []string, left int) {
			if len(prefix) > 0 {
				out = append(out, strings.Join(prefix, ","))
			}
			if left == 0 {
				return
			}
			for _, b := range []string{"0", "1"} {
				rec(append(append([]string(nil), prefix...), b), left-1)
			}
		}
		rec(nil, max)
		return out
	}
	for _, rs := range flagLists(3) {
		for _, ds := range flagLists(2) {
			out("pe", []string{"mode policy", "policy name=p1 m=GET url=api.com/x r=" + rs + " d=" + ds,
				"policy name=p2 m=POST url=api.com/y on=1", "build", "req m=GET url=api.com/x", "req m=POST url=api.com/y"}, nil)
		}
	}
	for k := 0; k < nReload; k++ {
		rr := r.Fork()
		out("rl", genReloadCase(rr), rr)
	}
	for k := 0; k < nReload/5+14; k++ {
		rr := r.Fork()
		out("rf", genReloadFamily(rr, k), nil)
	}
	// exhaustive: every expression of length <= enumLen over the metacharacter alphabet x fixed subjects
	var batch []string
	enumerate("ab*+?()|.[]^$\\{},1-", enumLen, func(e string) {
		batch = append(batch, reOp(e, "aab"), reOp(e, "a{1,}|b$^.(-"))
		if len(batch) >= 40 {
			out("en", batch, nil)
			batch = nil
		}
	})
	if len(batch) > 0 {
		out("en", batch, nil)
	}
}
