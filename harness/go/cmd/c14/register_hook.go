//go:build c14hook

package main

import (
	"lunar/engine/config"
	"lunar/engine/routing"
	"lunar/engine/streams"
)

// With hooks/C14-export-flows-endpoints.patch applied to /repo (build the harness with -tags "verif c14hook"):
// the REAL (*HandlingDataManager).buildHAProxyFlowsEndpointsRequest.
func engineFlowsRequest(s *streams.Stream) *config.HAProxyEndpointsRequest {
	return routing.VerifBuildHAProxyFlowsEndpointsRequest(s)
}
