package main

import (
	"encoding/json"
	"fmt"
	"os"
	"sort"
	"strings"

	"lunar/engine/config"
	internaltypes "lunar/engine/streams/internal-types"
	publictypes "lunar/engine/streams/public-types"
	streamtypes "lunar/engine/streams/types"
	"lunar/toolkit-core/urltree"

	"verif/harness/internal/engine"
	"verif/harness/internal/proto"
)

func urltreeMethod(m string) urltree.Method { return urltree.Method(m) }

// supportedFilters: what Stream.Initialize collects (streams.go:157-165): the REAL filters of the loaded flows
// grouped by their REAL ToComparable key.
func supportedFilters(flows []internaltypes.FlowI) map[publictypes.ComparableFilter][]publictypes.FilterI {
	out := map[publictypes.ComparableFilter][]publictypes.FilterI{}
	for _, fl := range flows {
		k := fl.GetFilter().ToComparable()
		out[k] = append(out[k], fl.GetFilter())
	}
	return out
}

// flowsEndpointsRequest is the body of routing.(*HandlingDataManager).buildHAProxyFlowsEndpointsRequest
// (handling_data_manager.go:532-583, after F14b; unexported, needs a full HandlingDataManager), applied to the given
// supported filters.  With hooks/C14-export-flows-endpoints.patch applied it can be replaced by the real one.
func flowsEndpointsRequest(
	supported map[publictypes.ComparableFilter][]publictypes.FilterI,
) *config.HAProxyEndpointsRequest {
	manageAll := false
	bodyMessageForAll := false
	reqCaptureForAll := false

	managedEndpoints := []*config.HAProxyEndpointData{}
	for _, filters := range supported {
		if len(filters) == 0 {
			continue
		}
		requirements := &streamtypes.ProcessorRequirement{}
		for _, filter := range filters {
			adminFilter := filter.(internaltypes.FlowFilterI)
			filterRequirements := adminFilter.GetRequirements()
			requirements.IsBodyRequired = requirements.IsBodyRequired ||
				filterRequirements.IsBodyRequired
			requirements.IsReqCaptureRequired = requirements.IsReqCaptureRequired ||
				filterRequirements.IsReqCaptureRequired

			manageAll = manageAll || filter.IsAnyURLAccepted()

			bodyMessageForAll = bodyMessageForAll || (manageAll && requirements.IsBodyRequired)
			reqCaptureForAll = reqCaptureForAll || (manageAll && requirements.IsReqCaptureRequired)
		}

		methods := filters[0].GetAllowedMethods()
		if len(methods) == 0 {
			// a filter that names no method accepts every method: one expression for any method
			methods = []string{config.RegexToMatchAnyMethod}
		}
		for _, method := range methods {
			managedEndpoints = append(managedEndpoints,
				config.HaproxyEndpointFormat(method, filters[0].GetURL(), requirements))
		}
	}

	return &config.HAProxyEndpointsRequest{
		ManageAll:        manageAll,
		BodyNeededForAll: bodyMessageForAll,
		ReqCaptureForAll: reqCaptureForAll,
		ManagedEndpoints: managedEndpoints,
	}
}

func endpointsKey(req *config.HAProxyEndpointsRequest) string {
	var l []string
	for _, e := range req.ManagedEndpoints {
		l = append(l, e.Endpoint)
	}
	sort.Strings(l)
	return fmt.Sprintf("%v|%s", req.ManageAll, strings.Join(l, "\x00"))
}

const flowTmpl = `name: %s
filter:
  url: %s
%sprocessors:
  met:
    processor: UserDefinedMetrics
    parameters:
      - key: metric_name
        value: verif_c14
flow:
  request:
    - from:
        stream:
          name: globalStream
          at: start
      to:
        processor:
          name: met
    - from:
        processor:
          name: met
      to:
        stream:
          name: globalStream
          at: end
  response:
    - from:
        stream:
          name: globalStream
          at: start
      to:
        stream:
          name: globalStream
          at: end
`

var engineChecks int

const realBuildRepeats = 30

// realFlowsRequests loads the same flows into a REAL streams.Stream (YAML on disk, Stream.Initialize) and builds the
// registration with the REAL routing.buildHAProxyFlowsEndpointsRequest (verif hook) realBuildRepeats times — the
// function ranges over a Go map, so its result may depend on the iteration order — and returns the DISTINCT requests
// seen.  nil when the case is not selected for it (1 case in engineCheckEvery by a hash of its op lines, every case
// with a catch-all flow) or the engine does not initialise.
func realFlowsRequests(ops []string, decls []flowDecl, o *proto.Out) []*config.HAProxyEndpointsRequest {
	catchAll := false
	for _, d := range decls {
		if d.url == "*" || d.url == ".*" || d.url == "" || d.expr {
			catchAll = true // (catch-all or expression filter: always through the real Stream)
		}
	}
	if len(decls) == 0 || !catchAll && (caseHash(ops)%engineCheckEvery != 0 || engineChecks >= engineCheckBudget) {
		return nil
	}
	files := map[string]string{}
	for _, d := range decls {
		ub, _ := json.Marshal(d.url)
		ms := ""
		if len(d.methods) > 0 {
			mb, _ := json.Marshal(d.methods)
			ms = "  method: " + string(mb) + "\n"
		}
		if d.expr {
			ms += "  expressions: [\"" + flowExpression + "\"]\n"
		}
		files["flows/"+d.name+".yaml"] = fmt.Sprintf(flowTmpl, d.name, string(ub), ms)
	}
	engineChecks++
	e, err := engine.New(files, true)
	if err != nil {
		if os.Getenv("VERIF_DEBUG") != "" {
			fmt.Fprintln(os.Stderr, "engine check: init failed:", err)
		}
		o.Count("L3-enginecheck-init-failed")
		return nil
	}
	defer e.Close()
	seen := map[string]bool{}
	var out []*config.HAProxyEndpointsRequest
	for k := 0; k < realBuildRepeats; k++ {
		got := engineFlowsRequest(e.Stream)
		if key := endpointsKey(got); !seen[key] {
			seen[key] = true
			out = append(out, got)
		}
	}
	sort.Slice(out, func(i, j int) bool { return endpointsKey(out[i]) < endpointsKey(out[j]) })
	return out
}
