//go:build !c14hook

package main

import (
	"lunar/engine/config"
	"lunar/engine/streams"
)

// Without hooks/C14-export-flows-endpoints.patch in /repo: the repeated loop on the REAL supported filters.
func engineFlowsRequest(s *streams.Stream) *config.HAProxyEndpointsRequest {
	return flowsEndpointsRequest(s.GetSupportedFilters())
}
