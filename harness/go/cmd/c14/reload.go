package main

// L4 (lifetime): what stays registered with the proxy over a SEQUENCE of policy reloads.  The real
// config.TxnPoliciesAccessor.UpdatePoliciesData (ManageHAProxyEndpoints + the scheduled un-manage of the previous
// request after staleVersionTTL) talks to a fake HAProxy admin server that implements the map semantics of
// haproxy.cfg (PUT /managed_endpoint = set-map, DELETE = del-map, PUT /manage_all, DELETE /unmanage_global, …);
// time is the repo's MockClock.  The admin URL is fixed at package init from HAPROXY_MANAGE_ENDPOINTS_PORT, hence
// the one-time re-exec in main.  The flows path (routing.initializeStreams) computes its un-manage list with the
// same call on the same type and goes through the same exported config.ScheduleUnmanageHAProxyEndpoints; it needs
// a full HandlingDataManager and is covered by reading only.

import (
	"bytes"
	"fmt"
	"io"
	"net"
	"net/http"
	"os"
	"sort"
	"strconv"
	"strings"
	"sync"
	"sync/atomic"
	"syscall"
	"time"

	"lunar/engine/config"
	sharedConfig "lunar/shared-model/config"
	contextmanager "lunar/toolkit-core/context-manager"

	"github.com/rs/zerolog"
	"github.com/rs/zerolog/log"

	"verif/harness/internal/proto"
)

const adminPortEnv = "HAPROXY_MANAGE_ENDPOINTS_PORT"
const adminChildEnv = "VERIF_C14_ADMIN_CHILD"
const ttlMs = 30_000

// ensureAdminPort re-executes the harness once with a free port in HAPROXY_MANAGE_ENDPOINTS_PORT.
func ensureAdminPort() {
	if os.Getenv(adminChildEnv) != "" {
		return
	}
	l, err := net.Listen("tcp", "127.0.0.1:0")
	if err != nil {
		fmt.Fprintln(os.Stderr, "c14: no free port:", err)
		os.Exit(2)
	}
	port := l.Addr().(*net.TCPAddr).Port
	l.Close()
	os.Setenv(adminPortEnv, strconv.Itoa(port))
	os.Setenv(adminChildEnv, "1")
	exe, err := os.Executable()
	if err == nil {
		err = syscall.Exec(exe, os.Args, os.Environ())
	}
	fmt.Fprintln(os.Stderr, "c14: re-exec failed:", err)
	os.Exit(2)
}

// fakeAdmin: the admin frontend of haproxy.cfg as far as is_managed is concerned.
type fakeAdmin struct {
	mu        sync.Mutex
	endpoints map[string]bool // endpoints.map keys
	manageAll bool            // proc.manage_all
	calls     int
	failPut   int // refuse the next manage PUTs (/managed_endpoint, /manage_all)
	failDel   int // refuse the next un-manage DELETEs (/managed_endpoint, /unmanage_global)
}

var admin = &fakeAdmin{endpoints: map[string]bool{}}
var adminOnce sync.Once

func (a *fakeAdmin) reset() {
	a.mu.Lock()
	a.endpoints = map[string]bool{}
	a.manageAll = false
	a.calls = 0
	a.failPut, a.failDel = 0, 0
	a.mu.Unlock()
}

func (a *fakeAdmin) ServeHTTP(w http.ResponseWriter, r *http.Request) {
	body, _ := io.ReadAll(r.Body)
	key := string(body)
	a.mu.Lock()
	a.calls++
	manage := r.Method == http.MethodPut && (r.URL.Path == "/managed_endpoint" || r.URL.Path == "/manage_all")
	unmanage := r.Method == http.MethodDelete && (r.URL.Path == "/managed_endpoint" || r.URL.Path == "/unmanage_global")
	if manage && a.failPut > 0 || unmanage && a.failDel > 0 {
		if manage {
			a.failPut--
		} else {
			a.failDel--
		}
		a.mu.Unlock()
		w.WriteHeader(http.StatusInternalServerError)
		io.WriteString(w, "refused")
		return
	}
	switch r.URL.Path {
	case "/managed_endpoint":
		if r.Method == http.MethodPut {
			a.endpoints[key] = true
		} else if r.Method == http.MethodDelete {
			delete(a.endpoints, key)
		}
	case "/manage_all":
		if r.Method == http.MethodPut {
			a.manageAll = true
		}
	case "/unmanage_global":
		if r.Method == http.MethodDelete {
			a.manageAll = false
		}
	case "/unmanage_all":
		if r.Method == http.MethodPut {
			a.manageAll = false
			delete(a.endpoints, ".")
		}
	}
	a.mu.Unlock()
	w.WriteHeader(http.StatusOK)
	io.WriteString(w, "true")
}

// the engine never closes the response bodies of its admin calls: do it for it (else the process runs out of
// file descriptors)
type closingTransport struct{ rt http.RoundTripper }

func (t closingTransport) RoundTrip(r *http.Request) (*http.Response, error) {
	resp, err := t.rt.RoundTrip(r)
	if err == nil && resp.Body != nil {
		b, _ := io.ReadAll(resp.Body)
		resp.Body.Close()
		resp.Body = io.NopCloser(bytes.NewReader(b))
	}
	return resp, err
}

// jobLog counts, from the engine's own debug log, the un-manage goroutines that registered their 30 s sleep and
// those that finished, so that `advance` can wait for exactly the jobs that are due.
type jobLog struct {
	registered atomic.Int64
	finished   atomic.Int64
}

func (j *jobLog) Write(p []byte) (int, error) {
	if bytes.Contains(p, []byte("MockClock: After() called with duration 30s")) {
		j.registered.Add(1)
	}
	// one line per finished goroutine: unmanageHAProxyEndpointsVoided / unmanageGlobalVoided (NOT the inner
	// "Successfully unmanaged endpoints" of unmanageHAProxyEndpoints)
	if bytes.Contains(p, []byte("HAProxy endpoints\"")) && (bytes.Contains(p, []byte("Successfully unmanaged ")) ||
		bytes.Contains(p, []byte("Failed to unmanage HAProxy endpoints"))) ||
		bytes.Contains(p, []byte("Successfully unmanaged global")) {
		j.finished.Add(1)
	}
	return len(p), nil
}

// txnRec: the harness's own bookkeeping of an anchored transaction (when it was anchored, when its version was
// superseded) - only to decide whether the anchor is still inside the retention the model speaks about
type txnRec struct {
	anchor int64
	sup    int64 // -1: not superseded
	voided bool
}

type reloadWorld struct {
	acc     *config.TxnPoliciesAccessor
	jl      *jobLog
	nowMs   int64
	dues    []int64 // due time of every registered job
	seen    int64   // registrations accounted for in dues
	txns    map[string]*txnRec
	sync    int64   // "finished" log lines written synchronously by immediate un-manages (not jobs)
	reloads int
}

func startAdmin() {
	adminOnce.Do(func() {
		port := os.Getenv(adminPortEnv)
		l, err := net.Listen("tcp", "127.0.0.1:"+port)
		if err != nil {
			panic("c14: cannot listen on the admin port: " + err.Error())
		}
		go http.Serve(l, admin)
		http.DefaultClient.Transport = closingTransport{http.DefaultTransport}
	})
}

var origin = time.Unix(1_700_000_000, 0)

func newReloadWorld() *reloadWorld {
	startAdmin()
	admin.reset()
	w := &reloadWorld{jl: &jobLog{}, txns: map[string]*txnRec{}}
	log.Logger = zerolog.New(w.jl)
	zerolog.SetGlobalLevel(zerolog.DebugLevel)
	contextmanager.Get().SetMockClock().GetMockClock().Set(origin)
	pd, err := config.BuildPolicyData(&sharedConfig.PoliciesConfig{}, false)
	if err != nil {
		panic(err)
	}
	acc := config.NewTxnPoliciesAccessor(pd)
	w.acc = &acc
	return w
}

func (w *reloadWorld) close() {
	zerolog.SetGlobalLevel(zerolog.Disabled)
	log.Logger = zerolog.Nop()
}

// account for the goroutines that registered their sleep since the last call (all at the current instant)
func (w *reloadWorld) settleRegistrations() {
	last := int64(-1)
	for k := 0; k < 400; k++ {
		cur := w.jl.registered.Load()
		if cur == last && k >= 3 {
			break
		}
		last = cur
		time.Sleep(500 * time.Microsecond)
	}
	time.Sleep(300 * time.Microsecond) // the log line precedes the timer registration
	for w.seen < w.jl.registered.Load() {
		w.dues = append(w.dues, w.nowMs+ttlMs)
		w.seen++
	}
}

func parseReloadEps(s string) ([]polDecl, bool) {
	if s == "-" {
		return nil, true
	}
	var out []polDecl
	for i, it := range strings.Split(s, ";") {
		f := strings.Split(it, "@")
		d := polDecl{name: "p" + itoa(i+1), diag: []bool{true}}
		switch len(f) {
		case 2:
		case 4:
			d.rem, d.diag = parseFlags(f[2]), parseFlags(f[3])
		default:
			return nil, false
		}
		d.method, d.url = proto.Dec(f[0]), proto.Dec(f[1])
		out = append(out, d)
	}
	return out, true
}

func fmtRequest(req *config.HAProxyEndpointsRequest) string {
	encs := make([]string, 0, len(req.ManagedEndpoints))
	for _, e := range req.ManagedEndpoints {
		encs = append(encs, proto.Enc(e.Endpoint))
	}
	sort.Strings(encs)
	ma, l := "0", "-"
	if req.ManageAll {
		ma = "1"
	}
	if len(encs) > 0 {
		l = strings.Join(encs, ";")
	}
	return "ma=" + ma + " n=" + itoa(len(encs)) + " eps=" + l
}

func (w *reloadWorld) reload(glob bool, eps []polDecl, immediately bool, o *proto.Out) string {
	pc := &sharedConfig.PoliciesConfig{}
	if glob {
		pc.Global.Diagnosis = []sharedConfig.Diagnosis{{Name: "g", Enabled: true}}
	}
	for _, p := range eps {
		pc.Endpoints = append(pc.Endpoints, p.endpointConfig())
	}
	pd, err := config.BuildPolicyData(pc, false)
	if err != nil {
		o.Count("L4-reload-rejected")
		return "err"
	}
	before := w.jl.finished.Load()
	err = w.acc.UpdatePoliciesData(pd, immediately)
	// no sleeping job can finish while the clock stands still: what was logged now is the immediate un-manage
	w.sync += w.jl.finished.Load() - before
	if err != nil {
		w.reloads++
		w.settleRegistrations()
		if strings.Contains(err.Error(), "failed to initialize HAProxy endpoints") {
			o.Count("L4-reload-manage-refused")
			return "err:manage"
		}
		return "err:update:" + proto.Enc(err.Error())
	}
	w.reloads++
	w.settleRegistrations()
	for _, t := range w.txns {
		if t.sup < 0 {
			t.sup = w.nowMs
		}
		if immediately {
			t.voided = true
		}
	}
	o.Count("L4-reload")
	return fmtRequest(config.BuildHAProxyEndpointsRequest(pc))
}

func (w *reloadWorld) advance(ms int64) string {
	w.nowMs += ms
	contextmanager.Get().GetMockClock().AdvanceTime(time.Duration(ms) * time.Millisecond)
	due := int64(0)
	for _, d := range w.dues {
		if d <= w.nowMs {
			due++
		}
	}
	for k := 0; k < 4000 && w.jl.finished.Load()-w.sync < due; k++ {
		time.Sleep(500 * time.Microsecond)
	}
	if w.jl.finished.Load()-w.sync < due {
		return "err:jobs-not-finished"
	}
	return "ok"
}

func (w *reloadWorld) managed() string {
	admin.mu.Lock()
	defer admin.mu.Unlock()
	keys := make([]string, 0, len(admin.endpoints))
	for k := range admin.endpoints {
		keys = append(keys, proto.Enc(k))
	}
	sort.Strings(keys)
	all, l := "0", "-"
	if admin.manageAll {
		all = "1"
	}
	if len(keys) > 0 {
		l = strings.Join(keys, ";")
	}
	// the request of the policies IN FORCE in the engine (real accessor, real BuildHAProxyEndpointsRequest)
	cur := w.acc.GetCurrentPoliciesData().Config
	force := config.BuildHAProxyEndpointsRequest(&cur)
	fe := make([]string, 0, len(force.ManagedEndpoints))
	for _, e := range force.ManagedEndpoints {
		fe = append(fe, proto.Enc(e.Endpoint))
	}
	sort.Strings(fe)
	fma, fl := "0", "-"
	if force.ManageAll {
		fma = "1"
	}
	if len(fe) > 0 {
		fl = strings.Join(fe, ";")
	}
	return "all=" + all + " n=" + itoa(len(keys)) + " set=" + l + " fma=" + fma + " feps=" + fl
}

// anchor: the request leg of a transaction reaches the engine (real TxnPoliciesAccessor.GetTxnPoliciesData)
func (w *reloadWorld) anchor(id string) string {
	if _, ok := w.txns[id]; !ok {
		w.acc.GetTxnPoliciesData(config.TxnID(id))
		w.txns[id] = &txnRec{anchor: w.nowMs, sup: -1}
	}
	return "ok"
}

// txnView: what the engine would apply to the response leg NOW (the request of the policies data the real accessor
// serves the transaction from) next to what the proxy manages
func (w *reloadWorld) txnView(id string, o *proto.Out) string {
	t, ok := w.txns[id]
	if !ok || t.voided || w.nowMs >= t.anchor+ttlMs || t.sup >= 0 && w.nowMs >= t.sup+ttlMs {
		return "expired"
	}
	pd := w.acc.GetTxnPoliciesData(config.TxnID(id))
	req := config.BuildHAProxyEndpointsRequest(&pd.Config)
	te := make([]string, 0, len(req.ManagedEndpoints))
	for _, e := range req.ManagedEndpoints {
		te = append(te, proto.Enc(e.Endpoint))
	}
	sort.Strings(te)
	tma, tl := "0", "-"
	if req.ManageAll {
		tma = "1"
	}
	if len(te) > 0 {
		tl = strings.Join(te, ";")
	}
	m := w.managed()
	o.Count("L4-txn-view")
	return m[:strings.Index(m, " fma=")] + " tma=" + tma + " teps=" + tl
}

func (w *reloadWorld) fail(put, del int) string {
	admin.mu.Lock()
	admin.failPut, admin.failDel = put, del
	admin.mu.Unlock()
	return "ok"
}
