// Harness for C04 (flow execution follows the configured processor graph).
//
// Every case builds a FRESH real engine (streams.Stream) in a temp directory from generated flow
// YAML over a probe-processor vocabulary (factories registered through the `verif` hook
// Stream.VerifSetFactory, definitions written into a temp processors directory), optionally with
// quota files contributing system flows, and runs transactions through Stream.ExecuteFlow.
//
// Observables per op line:
//
//	load  -> `accept <canonical dump of every built flow direction>` | `reject[:<class>]`
//	txn   -> `<ok|err:class|...> ev=<flow-entered / processor-executed events> acts=<early-response actions>`
//
// Events are recorded by the probes themselves (P:flow:key:dir:out) and by a wrapper around the
// APIStream that logs every SetContext call of executeFlow (F:flow:dir).
package main

import (
	"fmt"
	"os"
	"strings"

	"github.com/rs/zerolog"

	"verif/harness/internal/proto"
)

const rule = "generated flow configurations (1-3 user flows on one URL, 0-2 quotas, probe processors) x output " +
	"assignments; non-trivial = configuration accepted by the real loader and at least one transaction executed " +
	">= 2 processors or took a short-circuit; distinct by (configuration, oracle, events)"

const maxBuildTries = 400

func parseEndp(w string) (endp, bool) {
	p := strings.Split(w, ":")
	if len(p) != 3 || (p[0] != "S" && p[0] != "P" && p[0] != "F") {
		return endp{}, false
	}
	return endp{kind: p[0][0], name: proto.Dec(p[1]), extra: proto.Dec(p[2])}, true
}

func parseOracle(s string) (map[string]outVal, bool) {
	m := map[string]outVal{}
	if s == "" || s == "-" {
		return m, true
	}
	for _, it := range strings.Split(s, ",") {
		kv := strings.SplitN(it, "=", 2)
		if len(kv) != 2 {
			return nil, false
		}
		path := strings.Split(kv[0], "/")
		if len(path) != 3 {
			return nil, false
		}
		key := proto.Dec(path[0]) + "/" + proto.Dec(path[1]) + "/" + path[2]
		v := kv[1]
		switch {
		case v == "x":
			m[key] = outVal{kind: 'x'}
		case strings.HasPrefix(v, "n:"):
			m[key] = outVal{kind: 'n', name: proto.Dec(v[2:])}
		case strings.HasPrefix(v, "e:"):
			m[key] = outVal{kind: 'e', name: proto.Dec(v[2:])}
		default:
			return nil, false
		}
	}
	return m, true
}

// refCycle: some flow (transitively) references itself.  Such configurations are not loaded by this harness
// (C05's F05b: unbounded recursion of incorporateFlow in the loader itself).
func refCycle(c *caseCfg) bool {
	adj := map[string][]string{}
	for _, f := range c.flows {
		if f.kind == "user" && (len(f.req) == 0 || len(f.res) == 0) {
			continue
		}
		for _, cs := range [][]connDef{f.req, f.res} {
			for _, cn := range cs {
				if cn.from.kind == 'F' {
					adj[f.name] = append(adj[f.name], cn.from.name)
				}
				if cn.to.kind == 'F' {
					adj[f.name] = append(adj[f.name], cn.to.name)
				}
			}
		}
	}
	state := map[string]int{}
	var visit func(n string) bool
	visit = func(n string) bool {
		switch state[n] {
		case 1:
			return true
		case 2:
			return false
		}
		state[n] = 1
		for _, t := range adj[n] {
			if visit(t) {
				return true
			}
		}
		state[n] = 2
		return false
	}
	for n := range adj {
		if visit(n) {
			return true
		}
	}
	return false
}

func hasRefs(c *caseCfg) bool {
	for _, f := range c.flows {
		for _, cs := range [][]connDef{f.req, f.res} {
			for _, cn := range cs {
				if cn.from.kind == 'F' || cn.to.kind == 'F' {
					return true
				}
			}
		}
	}
	return false
}

func decList(w []string, k string) []string {
	v, ok := proto.KV(w, k)
	if !ok || v == "" || v == "-" {
		return nil
	}
	var out []string
	for _, x := range strings.Split(v, ",") {
		out = append(out, proto.Dec(x))
	}
	return out
}

// decPairs: `k:v,k:v,k` (a key without value gets the value "\x00")
func decPairs(w []string, k string) [][2]string {
	var out [][2]string
	for _, x := range decList(w, k) {
		p := strings.SplitN(x, ":", 2)
		if len(p) == 2 {
			out = append(out, [2]string{p[0], p[1]})
		} else {
			out = append(out, [2]string{p[0], "\x00"})
		}
	}
	return out
}

func joinOr(xs []string, sep string) string {
	if len(xs) == 0 {
		return "-"
	}
	return strings.Join(xs, sep)
}

func exec(c proto.Case, o *proto.Out) []string {
	outs := make([]string, len(c.Ops))
	cfg := &caseCfg{}
	var eng *engine
	defer func() {
		if eng != nil {
			eng.close()
		}
	}()
	loaded := false
	unsafe := false
	nontriv := false
	for i, op := range c.Ops {
		w := strings.Fields(op)
		if len(w) == 0 {
			outs[i] = "bad-op"
			continue
		}
		switch w[0] {
		case "ptype":
			if len(w) < 2 {
				outs[i] = "bad-op"
				break
			}
			p := ptypeDef{name: proto.Dec(w[1])}
			ok := true
			for _, x := range w[2:] {
				j := strings.LastIndex(x, ":")
				if j < 0 {
					ok = false
					break
				}
				p.outs = append(p.outs, outDef{name: proto.Dec(x[:j]), typ: x[j+1:]})
			}
			if !ok {
				outs[i] = "bad-op"
				break
			}
			cfg.ptypes = append(cfg.ptypes, p)
			outs[i] = "ok"
		case "flow":
			kind, _ := proto.KV(w, "kind")
			if len(w) < 3 || w[2] != "kind=user" {
				outs[i] = "bad-op"
				break
			}
			fd := &flowDef{name: proto.Dec(w[1]), kind: kind}
			if u, ok := proto.KV(w, "u"); ok {
				fd.url = u
			}
			fd.methods = decList(w, "m")
			fd.headers = decPairs(w, "h")
			fd.status = decList(w, "st")
			fd.query = decPairs(w, "q")
			cfg.flows = append(cfg.flows, fd)
			outs[i] = "ok"
		case "proc":
			if len(w) != 4 || cfg.flow(proto.Dec(w[1])) == nil {
				outs[i] = "bad-op"
				break
			}
			f := cfg.flow(proto.Dec(w[1]))
			f.procs = append(f.procs, [2]string{proto.Dec(w[2]), proto.Dec(w[3])})
			outs[i] = "ok"
		case "conn":
			if len(w) != 5 || cfg.flow(proto.Dec(w[1])) == nil || (w[2] != "req" && w[2] != "res") {
				outs[i] = "bad-op"
				break
			}
			from, ok1 := parseEndp(w[3])
			to, ok2 := parseEndp(w[4])
			if !ok1 || !ok2 {
				outs[i] = "bad-op"
				break
			}
			f := cfg.flow(proto.Dec(w[1]))
			if w[2] == "req" {
				f.req = append(f.req, connDef{from, to})
			} else {
				f.res = append(f.res, connDef{from, to})
			}
			outs[i] = "ok"
		case "quota":
			kind, _ := proto.KV(w, "kind")
			if kind != "fixed" && kind != "concurrent" {
				outs[i] = "bad-op"
				break
			}
			u, _ := proto.KV(w, "url")
			if len(w) < 4 || (u != "exact" && u != "wild") {
				outs[i] = "bad-op"
				break
			}
			cfg.quotas = append(cfg.quotas, quotaDef{id: proto.Dec(w[1]), kind: kind, wild: u == "wild", methods: decList(w, "m")})
			outs[i] = "ok"
		case "load":
			ord, _ := proto.KV(w, "order")
			var order []string
			if ord != "" && ord != "-" {
				for _, n := range strings.Split(ord, ",") {
					order = append(order, proto.Dec(n))
				}
			}
			if eng != nil {
				eng.close()
				eng = nil
			}
			loaded = false
			covered := true
			for _, f := range cfg.flows {
				in := false
				for _, n := range order {
					in = in || n == f.name
				}
				covered = covered && in
			}
			if !covered {
				outs[i] = "bad-op" // the build order must name every user flow
				break
			}
			if hasRefs(cfg) && refCycle(cfg) {
				o.Count("load-unsafe-refcycle")
				outs[i] = "unsafe-refcycle"
				break
			}
			tries := 0
			for {
				tries++
				eng = buildEngine(cfg, order)
				if eng.loadErr != nil {
					break
				}
				es, ee := expectedSys(cfg)
				userOK := true
				for _, nodeNames := range eng.userNodes {
					userOK = userOK && orderMatches(order, nodeNames)
				}
				if userOK &&
					strings.Join(es, ",") == strings.Join(names(eng.start), ",") &&
					strings.Join(ee, ",") == strings.Join(names(eng.end), ",") {
					break
				}
				if tries >= maxBuildTries {
					panic(fmt.Sprintf("harness: flow order %v not reached after %d engine builds (last: %v %v %v)",
						order, tries, names(eng.start), names(eng.user), names(eng.end)))
				}
				eng.close()
			}
			o.Count(fmt.Sprintf("build-tries-%d", min(tries, 5)))
			if eng.loadErr != nil {
				cl := classifyLoadErr(eng.loadErr)
				if os.Getenv("VERIF_DEBUG") != "" {
					fmt.Fprintln(os.Stderr, "load error:", eng.loadErr)
				}
				o.Count("load-reject-" + cl)
				users := 0
				for _, f := range cfg.flows {
					if f.kind == "user" {
						users++
					}
				}
				if users == 1 && len(cfg.quotas) == 0 {
					outs[i] = "reject:" + cl
				} else {
					outs[i] = "reject"
				}
				break
			}
			loaded = true
			unsafe = eng.anyCycle(cfg)
			o.Count("load-accept")
			outs[i] = "accept " + eng.dump(cfg)
		case "txn":
			dir, _ := proto.KV(w, "dir")
			ostr, _ := proto.KV(w, "o")
			oracle, ok := parseOracle(ostr)
			if (dir != "req" && dir != "res") || !ok {
				outs[i] = "bad-op"
				break
			}
			if !loaded {
				outs[i] = "not-loaded"
				break
			}
			if unsafe {
				o.Count("txn-unsafe-cycle")
				outs[i] = "unsafe-cycle"
				break
			}
			at := defaultAttrs()
			if u, ok := proto.KV(w, "u"); ok && u == "y" {
				at.url = "y"
			}
			if m, ok := proto.KV(w, "m"); ok {
				at.method = proto.Dec(m)
			}
			if m, ok := proto.KV(w, "rm"); ok {
				at.respMethod = proto.Dec(m)
			}
			if st, ok := proto.KV(w, "st"); ok {
				fmt.Sscanf(st, "%d", &at.status)
			}
			at.headers = decPairs(w, "h")
			at.query = decPairs(w, "q")
			for k := range at.query {
				if at.query[k][1] == "\x00" {
					at.query[k][1] = ""
				}
			}
			res, evs, acts := eng.runTxn(dir, oracle, at)
			o.Count("txn-" + dir + "-" + res)
			np := 0
			for _, e := range evs {
				if strings.HasPrefix(e, "P:") {
					np++
				}
			}
			if np >= 2 || len(acts) > 0 {
				nontriv = true
			}
			if len(acts) > 0 {
				o.Count("txn-shortcircuit")
			}
			for k := range acts {
				acts[k] = proto.Enc(acts[k])
			}
			outs[i] = res + " ev=" + joinOr(evs, ",") + " acts=" + joinOr(acts, ",")
		case "pair":
			o1s, _ := proto.KV(w, "o1")
			o2s, _ := proto.KV(w, "o2")
			or1, ok1 := parseOracle(o1s)
			or2, ok2 := parseOracle(o2s)
			if !ok1 || !ok2 {
				outs[i] = "bad-op"
				break
			}
			if !loaded {
				outs[i] = "not-loaded"
				break
			}
			if unsafe {
				outs[i] = "unsafe-cycle"
				break
			}
			a1, a2 := defaultAttrs(), defaultAttrs()
			if u, _ := proto.KV(w, "u1"); u == "y" {
				a1.url = "y"
			}
			if u, _ := proto.KV(w, "u2"); u == "y" {
				a2.url = "y"
			}
			r1, r2 := eng.runPair(or1, or2, a1, a2)
			o.Count("pair")
			fmtR := func(r [3]interface{}) string {
				evs, _ := r[1].([]string)
				acts, _ := r[2].([]string)
				ea := make([]string, len(acts))
				for k := range acts {
					ea[k] = proto.Enc(acts[k])
				}
				return r[0].(string) + " ev=" + joinOr(evs, ",") + " acts=" + joinOr(ea, ",")
			}
			nontriv = true
			outs[i] = fmtR(r1) + " " + fmtR(r2)
		default:
			outs[i] = "bad-op"
		}
	}
	if nontriv {
		o.NonTrivial(strings.Join(c.Ops, "|") + "#" + strings.Join(outs, "|"))
	}
	return outs
}

func main() {
	zerolog.SetGlobalLevel(zerolog.Disabled)
	proto.Main(proto.Harness{Rule: rule, Gen: gen, Exec: exec})
}
