package main

// Building a fresh real engine (streams.Stream) from the op lines of one case, the probe
// processors, the observing APIStream wrapper and the dump of the built flow graphs.

import (
	"fmt"
	"os"
	"path/filepath"
	"reflect"
	"sort"
	"strings"
	"unsafe"

	"lunar/engine/actions"
	lunar_messages "lunar/engine/messages"
	"lunar/engine/streams"
	streamconfig "lunar/engine/streams/config"
	internaltypes "lunar/engine/streams/internal-types"
	lunar_context "lunar/engine/streams/lunar-context"
	publictypes "lunar/engine/streams/public-types"
	streamtypes "lunar/engine/streams/types"
	"lunar/engine/utils/environment"
	context_manager "lunar/toolkit-core/context-manager"

	"verif/harness/internal/proto"
)

const (
	txnHost = "verif.test"
	txnURL  = "verif.test/x"
	txnURLy = "verif.test/y"
	realPT  = "@real" // processor type of system-flow processors (real QuotaProcessorInc/Dec, not probes)
)

type outDef struct{ name, typ string } // typ: any|req|res

type ptypeDef struct {
	name string
	outs []outDef
}

type endp struct {
	kind  byte   // 'S' (stream), 'P' (processor) or 'F' (flow reference)
	name  string // stream name, processor key or flow name
	extra string // stream/flow: start|end ; processor: condition
}

type connDef struct{ from, to endp }

type flowDef struct {
	name  string
	kind  string // user|sysstart|sysend
	procs [][2]string
	req   []connDef
	res   []connDef
	url string // "" / "x": verif.test/x, "y": verif.test/y, "wild": verif.test/*
	// filter constraints besides the URL
	methods []string
	headers [][2]string
	status  []string
	query   [][2]string // value "\x00" = key only
}

// attributes of a transaction the flow filters look at
type txnAttrs struct {
	url                string // "x" | "y"
	method, respMethod string
	headers, query     [][2]string
	status             int
}

func defaultAttrs() txnAttrs { return txnAttrs{url: "x", method: "GET", respMethod: "GET", status: 200} }

func (a txnAttrs) fullURL() string {
	if a.url == "y" {
		return txnURLy
	}
	return txnURL
}

func (f *flowDef) fullURL() string {
	switch f.url {
	case "y":
		return txnURLy
	case "wild":
		return txnHost + "/*"
	}
	return txnURL
}

type quotaDef struct {
	id   string
	kind string // fixed|concurrent
	wild bool   // filter url verif.test/* instead of verif.test/x
	methods []string // `method:` list of the quota filter
}

func (q quotaDef) fkey() string {
	return fmt.Sprintf("%v|%s", q.wild, strings.Join(q.methods, ","))
}

// expectedSys: names of the system start / end flows in the model's canonical order: one pair per filter group
// (named after the group's first quota), wildcard-URL groups first, groups in quota-file order.
func expectedSys(c *caseCfg) (start, end []string) {
	for _, wild := range []bool{true, false} {
		seen := map[string]bool{}
		for _, q := range c.quotas {
			if q.wild != wild || seen[q.fkey()] {
				continue
			}
			seen[q.fkey()] = true
			start = append(start, "SystemFlow_"+q.id+"_SYSTEM_FLOW_START")
			conc := false
			for _, r := range c.quotas {
				if r.fkey() == q.fkey() && r.kind == "concurrent" {
					conc = true
				}
			}
			if conc {
				end = append(end, "SystemFlow_"+q.id+"_SYSTEM_FLOW_END")
			}
		}
	}
	return
}

func (q quotaDef) url() string {
	if q.wild {
		return txnHost + "/*"
	}
	return txnURL
}

type caseCfg struct {
	ptypes []ptypeDef
	flows  []*flowDef
	quotas []quotaDef
}

// flow returns the LAST declared flow of that name (op lines `proc`/`conn` refer to it).
func (c *caseCfg) flow(name string) *flowDef {
	for i := len(c.flows) - 1; i >= 0; i-- {
		if c.flows[i].name == name {
			return c.flows[i]
		}
	}
	return nil
}

// ---------------------------------------------------------------- probe processors

// oracle value: kind 'n' (normal output), 'e' (early response: output type "response"), 'x' (error)
type outVal struct {
	kind byte
	name string
}

type txnState struct {
	oracle map[string]outVal // "<flow>/<key>/<dir>"
	events []string
	ctxOf  map[publictypes.LunarContextI]string
	// parking: the first probe this transaction executes signals `parked` and waits for `release`
	parked  chan struct{}
	release chan struct{}
	didPark bool
}

// obsStream wraps the real APIStream: it logs every SetContext (= executeFlow entered a flow) and
// carries the per-transaction oracle and event log to the probes.
type obsStream struct {
	publictypes.APIStreamI
	st *txnState
}

func dirName(t publictypes.StreamType) string {
	if t.IsRequestType() {
		return "req"
	}
	if t.IsResponseType() {
		return "res"
	}
	return "other"
}

func (o *obsStream) SetContext(c publictypes.LunarContextI) {
	name, ok := o.st.ctxOf[c]
	if !ok {
		name = "?"
	}
	o.st.events = append(o.st.events, "F:"+proto.Enc(name)+":"+dirName(o.APIStreamI.GetType()))
	o.APIStreamI.SetContext(c)
}

type probe struct{ key, owner string } // owner: the flow whose `processors:` section created this instance

func (p *probe) GetName() string { return p.key }

func (p *probe) GetRequirement() *streamtypes.ProcessorRequirement {
	return &streamtypes.ProcessorRequirement{}
}

func (p *probe) Execute(flowName string, apiStream publictypes.APIStreamI) (streamtypes.ProcessorIO, error) {
	o, ok := apiStream.(*obsStream)
	if !ok {
		return streamtypes.ProcessorIO{}, fmt.Errorf("probe: unexpected stream type %T", apiStream)
	}
	if o.st.parked != nil && !o.st.didPark {
		o.st.didPark = true
		close(o.st.parked)
		<-o.st.release
	}
	dir := dirName(apiStream.GetType())
	v, found := o.st.oracle[flowName+"/"+p.key+"/"+dir]
	if !found {
		v = outVal{kind: 'n'}
	}
	desc := string(v.kind) + ":" + proto.Enc(v.name)
	if v.kind == 'x' {
		desc = "x"
	}
	// the instance that ran is reported as `<owning flow>.<key>`
	o.st.events = append(o.st.events, "P:"+proto.Enc(flowName)+":"+proto.Enc(p.owner+"."+p.key)+":"+dir+":"+desc)
	switch v.kind {
	case 'x':
		return streamtypes.ProcessorIO{}, fmt.Errorf("probe error")
	case 'e':
		var act actions.ReqLunarAction = &actions.EarlyResponseAction{Status: 418, Body: flowName + "/" + p.key}
		return streamtypes.ProcessorIO{Type: publictypes.StreamTypeResponse, Name: v.name, ReqAction: act}, nil
	}
	return streamtypes.ProcessorIO{Type: apiStream.GetType(), Name: v.name}, nil
}

func probeFactory(md *streamtypes.ProcessorMetaData) (streamtypes.ProcessorI, error) {
	owner := "?"
	if pv, ok := md.Parameters["owner"]; ok && pv.Value != nil {
		owner = pv.Value.GetString()
	}
	return &probe{key: md.Name, owner: owner}, nil
}

// ---------------------------------------------------------------- files

func typName(t string) string {
	switch t {
	case "req":
		return "StreamTypeRequest"
	case "res":
		return "StreamTypeResponse"
	}
	return "StreamTypeAny"
}

func writeFile(path, content string) {
	if err := os.WriteFile(path, []byte(content), 0o644); err != nil {
		panic(err)
	}
}

func ptypeYAML(p ptypeDef) string {
	var b strings.Builder
	fmt.Fprintf(&b, "name: %s\ndescription: probe\nexec: probe.go\nparameters:\n  owner:\n    type: string\n"+
		"    description: the flow that declares the processor\n    required: false\noutput_streams:\n", p.name)
	for _, o := range p.outs {
		if o.name == "" {
			fmt.Fprintf(&b, "  - type: %s\n", typName(o.typ))
		} else {
			fmt.Fprintf(&b, "  - name: %s\n    type: %s\n", o.name, typName(o.typ))
		}
	}
	if len(p.outs) == 0 {
		b.WriteString("  []\n")
	}
	b.WriteString("input_stream:\n  type: StreamTypeAny\n")
	return b.String()
}

func endpYAML(e endp, indent string) string {
	if e.kind == 'F' {
		return fmt.Sprintf("%sflow:\n%s  name: %s\n%s  at: %s\n", indent, indent, e.name, indent, e.extra)
	}
	if e.kind == 'S' {
		return fmt.Sprintf("%sstream:\n%s  name: %s\n%s  at: %s\n", indent, indent, e.name, indent, e.extra)
	}
	s := fmt.Sprintf("%sprocessor:\n%s  name: %s\n", indent, indent, e.name)
	if e.extra != "" {
		s += fmt.Sprintf("%s  condition: %s\n", indent, e.extra)
	}
	return s
}

func flowYAML(f *flowDef) string {
	var b strings.Builder
	fmt.Fprintf(&b, "name: %s\nfilter:\n  url: %s\n", f.name, f.fullURL())
	if len(f.methods) > 0 {
		fmt.Fprintf(&b, "  method: [%s]\n", strings.Join(f.methods, ", "))
	}
	if len(f.headers) > 0 {
		b.WriteString("  headers:\n")
		for _, h := range f.headers {
			fmt.Fprintf(&b, "    - key: %s\n      value: %s\n", h[0], h[1])
		}
	}
	if len(f.status) > 0 {
		fmt.Fprintf(&b, "  status_code: [%s]\n", strings.Join(f.status, ", "))
	}
	if len(f.query) > 0 {
		b.WriteString("  query_params:\n")
		for _, q := range f.query {
			if q[1] == "\x00" {
				fmt.Fprintf(&b, "    - key: %s\n", q[0])
			} else {
				fmt.Fprintf(&b, "    - key: %s\n      value: %s\n", q[0], q[1])
			}
		}
	}
	b.WriteString("processors:\n")
	if len(f.procs) == 0 {
		b.WriteString("  {}\n")
	}
	for _, p := range f.procs {
		fmt.Fprintf(&b, "  %s:\n    processor: %s\n    parameters:\n      - key: owner\n        value: %s\n", p[0], p[1], f.name)
	}
	b.WriteString("flow:\n")
	for _, d := range []struct {
		n  string
		cs []connDef
	}{{"request", f.req}, {"response", f.res}} {
		if len(d.cs) == 0 {
			fmt.Fprintf(&b, "  %s: []\n", d.n)
			continue
		}
		fmt.Fprintf(&b, "  %s:\n", d.n)
		for _, c := range d.cs {
			b.WriteString("    - from:\n" + endpYAML(c.from, "        ") + "      to:\n" + endpYAML(c.to, "        "))
		}
	}
	return b.String()
}

// all quotas of a case go into ONE file (the loader insists on a single file per host)
func quotasYAML(qs []quotaDef) string {
	var b strings.Builder
	b.WriteString("quotas:\n")
	for _, q := range qs {
		strat := "      fixed_window:\n        max: 1000000\n        interval: 1\n        interval_unit: hour\n"
		if q.kind == "concurrent" {
			strat = "      concurrent:\n        max_request_count: 1000000\n"
		}
		meth := ""
		if len(q.methods) > 0 {
			meth = fmt.Sprintf("      method: [%s]\n", strings.Join(q.methods, ", "))
		}
		fmt.Fprintf(&b, "  - id: %s\n    filter:\n      url: %s\n%s    strategy:\n%s", q.id, q.url(), meth, strat)
	}
	return b.String()
}

// ---------------------------------------------------------------- engine

type engine struct {
	s       *streams.Stream
	dir     string
	start   []internaltypes.FlowI
	user    []internaltypes.FlowI
	end     []internaltypes.FlowI
	ctxOf   map[publictypes.LunarContextI]string
	byName  map[string]internaltypes.FlowI
	loadErr error
	userNodes [][]string // names of the user flows of every filter node, in the node's order
}

func (e *engine) close() {
	if e.dir != "" {
		os.RemoveAll(e.dir)
	}
}

func filterTreeOf(s *streams.Stream) internaltypes.FilterTreeI {
	f := reflect.ValueOf(s).Elem().FieldByName("filterTree")
	return reflect.NewAt(f.Type(), unsafe.Pointer(f.UnsafeAddr())).Elem().Interface().(internaltypes.FilterTreeI)
}

// privField makes an unexported struct field readable.
func privField(v reflect.Value, name string) reflect.Value {
	f := v.FieldByName(name)
	return reflect.NewAt(f.Type(), unsafe.Pointer(f.UnsafeAddr())).Elem()
}

// allFlowsOf lists, in engine order, every flow registered in the filter tree on the nodes the test URL
// traverses — whatever the flows' filters say (FilterTree.GetFlow would apply them).
func allFlowsOf(s *streams.Stream) (start, user, end []internaltypes.FlowI, userNodes [][]string) {
	ft := reflect.ValueOf(filterTreeOf(s)).Elem() // streamfilter.FilterTree
	tree := privField(ft, "tree")                 // *urltree.URLTree[FilterNode]
	seen := map[string]bool{}
	for _, u := range []string{txnURL, txnURLy} {
		res := tree.MethodByName("Traversal").Call([]reflect.Value{reflect.ValueOf(u)})[0]
		nodes := res.FieldByName("Value") // []*FilterNode
		for i := 0; i < nodes.Len(); i++ {
			n := nodes.Index(i)
			for n.Kind() == reflect.Ptr {
				n = n.Elem()
			}
			// the wildcard node is on the path of both URLs: recognise it by its flows (flow names are unique)
			sig := ""
			for _, pn := range []string{"systemFlowStart", "userFlows", "systemFlowEnd"} {
				l := privField(n, pn)
				for j := 0; j < l.Len(); j++ {
					sig += l.Index(j).Interface().(internaltypes.FlowI).GetName() + "|"
				}
				sig += ";"
			}
			if seen[sig] {
				continue
			}
			seen[sig] = true
			for _, part := range []struct {
				name string
				dst  *[]internaltypes.FlowI
			}{{"systemFlowStart", &start}, {"userFlows", &user}, {"systemFlowEnd", &end}} {
				l := privField(n, part.name)
				var nm []string
				for j := 0; j < l.Len(); j++ {
					f := l.Index(j).Interface().(internaltypes.FlowI)
					*part.dst = append(*part.dst, f)
					nm = append(nm, f.GetName())
				}
				if part.name == "userFlows" {
					userNodes = append(userNodes, nm)
				}
			}
		}
	}
	return
}

func newReqStream(id string, a txnAttrs) publictypes.APIStreamI {
	h := map[string]string{"host": txnHost}
	for _, kv := range a.headers {
		h[strings.ToLower(kv[0])] = kv[1]
	}
	var q []string
	for _, kv := range a.query {
		q = append(q, kv[0]+"="+kv[1])
	}
	return streamtypes.NewRequestAPIStream(lunar_messages.OnRequest{
		ID: id, SequenceID: id, Method: a.method, Scheme: "https", URL: a.fullURL(), Path: "/" + a.url,
		Query: strings.Join(q, "&"), Headers: h,
	}, lunar_context.NewMemoryState[[]byte]())
}

func newResStream(id string, a txnAttrs) publictypes.APIStreamI {
	return streamtypes.NewResponseAPIStream(lunar_messages.OnResponse{
		ID: id, SequenceID: id, Method: a.respMethod, URL: a.fullURL(), Status: a.status,
		Headers: map[string]string{},
	}, lunar_context.NewMemoryState[[]byte]())
}

// buildEngine writes the configuration into a fresh temp dir and initialises a real engine.
// fileOrder: flow names in the order their files must sort (insertion order of the loader's map).
func buildEngine(c *caseCfg, fileOrder []string) *engine {
	dir, err := os.MkdirTemp("", "c04-")
	if err != nil {
		panic(err)
	}
	e := &engine{dir: dir, ctxOf: map[publictypes.LunarContextI]string{}, byName: map[string]internaltypes.FlowI{}}
	for _, sub := range []string{"flows", "quotas", "path_params", "processors"} {
		if err := os.MkdirAll(filepath.Join(dir, sub), 0o755); err != nil {
			panic(err)
		}
	}
	for _, p := range c.ptypes {
		writeFile(filepath.Join(dir, "processors", p.name+".yaml"), ptypeYAML(p))
	}
	regDir := filepath.Join(repoRoot(), "proxy/src/services/lunar-engine/streams/processors/registry")
	for _, fn := range []string{"quota_processor_inc.yaml", "quota_processor_dec.yaml"} {
		b, err := os.ReadFile(filepath.Join(regDir, fn))
		if err != nil {
			panic(err)
		}
		writeFile(filepath.Join(dir, "processors", fn), string(b))
	}
	pos := map[string]int{}
	for i, n := range fileOrder {
		pos[n] = i
	}
	k := len(fileOrder)
	for idx, f := range c.flows {
		if f.kind != "user" {
			continue
		}
		p, ok := pos[f.name]
		if !ok {
			p = k
			k++
		}
		writeFile(filepath.Join(dir, "flows", fmt.Sprintf("%02d_%s_%d.yaml", p, f.name, idx)), flowYAML(f))
	}
	if len(c.quotas) > 0 {
		writeFile(filepath.Join(dir, "quotas", "quotas.yaml"), quotasYAML(c.quotas))
	}
	environment.SetStreamsFlowsDirectory(filepath.Join(dir, "flows"))
	environment.SetQuotasDirectory(filepath.Join(dir, "quotas"))
	environment.SetPathParamsDirectory(filepath.Join(dir, "path_params"))
	os.Setenv("LUNAR_FLOWS_PATH_PARAM_CONFIG", filepath.Join(dir, "path_param_conf.yaml"))
	environment.SetProcessorsDirectory(filepath.Join(dir, "processors"))
	context_manager.Get().SetMockClock()

	s, err := streams.NewStream()
	if err != nil {
		e.loadErr = fmt.Errorf("new-stream: %w", err)
		return e
	}
	for _, p := range c.ptypes {
		s.VerifSetFactory(p.name, probeFactory)
	}
	if err := s.Initialize(); err != nil {
		e.loadErr = err
		return e
	}
	e.s = s
	e.start, e.user, e.end, e.userNodes = allFlowsOf(s)
	for _, l := range [][]internaltypes.FlowI{e.start, e.user, e.end} {
		for _, f := range l {
			e.ctxOf[f.GetExecutionContext()] = f.GetName()
			e.byName[f.GetName()] = f
		}
	}
	return e
}

func names(l []internaltypes.FlowI) []string {
	out := make([]string, len(l))
	for i, f := range l {
		out[i] = f.GetName()
	}
	return out
}

// subsequence of `order` restricted to the names in `have` must equal `have`.
func orderMatches(order []string, have []string) bool {
	in := map[string]bool{}
	for _, n := range have {
		in[n] = true
	}
	var sub []string
	for _, n := range order {
		if in[n] {
			sub = append(sub, n)
		}
	}
	return strings.Join(sub, ",") == strings.Join(have, ",") && len(sub) == len(have)
}

func isNil(i interface{}) bool {
	if i == nil {
		return true
	}
	v := reflect.ValueOf(i)
	return v.Kind() == reflect.Ptr && v.IsNil()
}

// dump renders the built graphs of every flow the engine selected for the test URL canonically
// (flows and nodes sorted by name, edges in order).  Node keys: the processors declared for the flow
// in the op lines; for system flows (not declared in the op lines) the processor keys of all quotas.
func (e *engine) dump(c *caseCfg) string {
	var fnames []string
	for n := range e.byName {
		fnames = append(fnames, n)
	}
	sort.Strings(fnames)
	var words []string
	for _, fname := range fnames {
		f := e.byName[fname]
		var keys []string
		if fd := c.flow(fname); fd != nil {
			keys = candidateKeys(c) // own nodes, nodes of referenced flows, borrowed processors
		} else {
			for _, q := range c.quotas {
				id := strings.ReplaceAll(q.id, ".", "")
				keys = append(keys, id+"_QuotaProcessorInc", id+"_QuotaProcessorDec")
			}
		}
		sort.Strings(keys)
		for _, d := range []publictypes.StreamType{publictypes.StreamTypeRequest, publictypes.StreamTypeResponse} {
			fdir := f.GetDirection(d)
			root := "-"
			if r, _ := fdir.GetRoot(); !isNil(r) && !isNil(r.GetNode()) {
				root = proto.Enc(r.GetNode().GetProcessorKey())
			}
			var b strings.Builder
			for _, k := range keys {
				n, err := fdir.GetNode(k)
				if err != nil || isNil(n) {
					continue
				}
				b.WriteString(proto.Enc(k))
				if n.GetFlowGraphName() != fname {
					b.WriteString("@" + proto.Enc(n.GetFlowGraphName())) // node created for another (referenced) flow
				}
				b.WriteString("[")
				for i, ed := range n.GetEdges() {
					if i > 0 {
						b.WriteString(",")
					}
					b.WriteString(proto.Enc(ed.GetCondition()) + ">")
					switch {
					case ed.IsNodeAvailable():
						b.WriteString("P." + proto.Enc(ed.GetTargetNode().GetProcessorKey()))
					case ed.IsStreamAvailable():
						b.WriteString("S." + proto.Enc(ed.GetTargetStream().GetName()) + "." + proto.Enc(ed.GetTargetStream().GetAt()))
					default:
						b.WriteString("?")
					}
				}
				b.WriteString("]")
			}
			words = append(words, proto.Enc(fname)+"."+dirName(d)+"="+root+":"+b.String())
		}
	}
	return strings.Join(words, " ")
}

// candidateKeys: every node key a direction can hold: the processor keys of all flows and the borrowed
// forms `flow.key`.
func candidateKeys(c *caseCfg) []string {
	var keys []string
	seen := map[string]bool{}
	add := func(k string) {
		if !seen[k] {
			seen[k] = true
			keys = append(keys, k)
		}
	}
	for _, g := range c.flows {
		for _, p := range g.procs {
			add(p[0])
			add(g.name + "." + p[0])
		}
	}
	return keys
}

// anyCycle: some built direction of some selected flow contains a processor cycle (conditions ignored).
// Such configurations are never executed by this harness (C05: F05a).
func (e *engine) anyCycle(c *caseCfg) bool {
	allKeys := candidateKeys(c)
	for _, q := range c.quotas {
		id := strings.ReplaceAll(q.id, ".", "")
		allKeys = append(allKeys, id+"_QuotaProcessorInc", id+"_QuotaProcessorDec")
	}
	for _, f := range e.byName {
		for _, d := range []publictypes.StreamType{publictypes.StreamTypeRequest, publictypes.StreamTypeResponse} {
			fdir := f.GetDirection(d)
			adj := map[string][]string{}
			for _, k := range allKeys {
				n, err := fdir.GetNode(k)
				if err != nil || isNil(n) {
					continue
				}
				for _, ed := range n.GetEdges() {
					if ed.IsNodeAvailable() {
						adj[k] = append(adj[k], ed.GetTargetNode().GetProcessorKey())
					}
				}
			}
			state := map[string]int{}
			var visit func(n string) bool
			visit = func(n string) bool {
				switch state[n] {
				case 1:
					return true
				case 2:
					return false
				}
				state[n] = 1
				for _, t := range adj[n] {
					if visit(t) {
						return true
					}
				}
				state[n] = 2
				return false
			}
			for n := range adj {
				if visit(n) {
					return true
				}
			}
		}
	}
	return false
}

func classifyLoadErr(err error) string {
	m := err.Error()
	switch {
	case strings.Contains(m, "foreign root node not found"):
		return "foreignroot"
	case strings.Contains(m, "root node not found for flow"):
		return "rootmissing"
	case strings.Contains(m, "failed to incorporate flow") && strings.Contains(m, "not found"):
		return "flowref"
	case strings.Contains(m, "invalid condition"):
		return "condition"
	case strings.Contains(m, "failed to build node"):
		return "node"
	case strings.Contains(m, "invalid connection configuration"):
		return "connection"
	case strings.Contains(m, "no valid root"):
		return "root"
	case strings.Contains(m, "is unconnected"):
		return "unconnected"
	case strings.Contains(m, "circular connection"):
		return "cycle"
	case strings.Contains(m, "no flow direction defined"):
		return "undefined"
	case strings.Contains(m, "failed to get flows"):
		return "yaml"
	}
	return "other"
}

// runTxn executes one transaction and returns (result class, events, early-response action bodies).
// runPair overlaps two request transactions on the one engine: the first is parked inside the first probe it
// executes, the second is served completely, then the first is released.
func (e *engine) runPair(or1, or2 map[string]outVal, a1, a2 txnAttrs) (r1, r2 [3]interface{}) {
	st1 := &txnState{oracle: or1, ctxOf: e.ctxOf, parked: make(chan struct{}), release: make(chan struct{})}
	done := make(chan [3]interface{}, 1)
	go func() {
		defer func() {
			if r := recover(); r != nil {
				done <- [3]interface{}{"panic", []string{proto.Enc(fmt.Sprint(r))}, []string(nil)}
			}
		}()
		res, evs, acts := e.runTxnSt("req", st1, a1)
		done <- [3]interface{}{res, evs, acts}
	}()
	finished := false
	select {
	case <-st1.parked:
	case r1 = <-done:
		finished = true
	}
	res, evs, acts := e.runTxn("req", or2, a2)
	r2 = [3]interface{}{res, evs, acts}
	if !finished {
		close(st1.release)
		r1 = <-done
	}
	return
}

func (e *engine) runTxn(dir string, oracle map[string]outVal, a txnAttrs) (string, []string, []string) {
	return e.runTxnSt(dir, &txnState{oracle: oracle, ctxOf: e.ctxOf}, a)
}

func (e *engine) runTxnSt(dir string, st *txnState, a txnAttrs) (string, []string, []string) {
	var inner publictypes.APIStreamI
	if dir == "req" {
		inner = newReqStream("t1", a)
	} else {
		inner = newResStream("t1", a)
	}
	api := &obsStream{APIStreamI: inner, st: st}
	acts := &streamconfig.StreamActions{
		Request:  &streamconfig.RequestStream{},
		Response: &streamconfig.ResponseStream{},
	}
	err := e.s.ExecuteFlow(api, acts)
	res := "ok"
	if err != nil {
		m := err.Error()
		switch {
		case strings.Contains(m, "probe error"):
			res = "err:proc"
		case strings.Contains(m, "failed to get response node"):
			res = "err:respnode"
		default:
			res = "err:other"
			if os.Getenv("VERIF_DEBUG") != "" {
				fmt.Fprintln(os.Stderr, "txn error:", m)
			}
		}
	}
	var early []string
	for _, a := range acts.Request.Actions {
		if ea, ok := a.(*actions.EarlyResponseAction); ok {
			early = append(early, ea.Body)
		} else {
			early = append(early, fmt.Sprintf("%T", a))
		}
	}
	return res, st.events, early
}

func repoRoot() string {
	if r := os.Getenv("VERIF_REPO"); r != "" {
		return r
	}
	return "/repo"
}
