package main

// Case generator: flow configurations over the probe vocabulary + output assignments.

import (
	"fmt"
	"strings"

	"verif/harness/internal/prng"
	"verif/harness/internal/proto"
)

// The probe vocabulary (processor definitions written into the temp processors directory).
var vocab = []ptypeDef{
	{"PA", []outDef{{"a", "any"}, {"b", "any"}}},                            // two-way branch
	{"PU", []outDef{{"", "any"}}},                                           // single unnamed output
	{"PG", []outDef{{"", "res"}}},                                           // GenerateResponse-like: answers the request
	{"PM", []outDef{{"a", "any"}, {"b", "any"}, {"e", "res"}, {"", "any"}}}, // branch or answer
	{"PR", []outDef{{"a", "req"}, {"b", "res"}}},                            // direction-specific names
}

func ptypeByName(n string) *ptypeDef {
	for i := range vocab {
		if vocab[i].name == n {
			return &vocab[i]
		}
	}
	return nil
}

// conditions a node of this type may carry as connection source in direction dir
func validConds(pt *ptypeDef, dir string) []string {
	var out []string
	for _, o := range pt.outs {
		if o.typ == "any" || o.typ == dir {
			out = append(out, o.name)
		}
	}
	return out
}

func canAnswer(pt *ptypeDef) bool {
	for _, o := range pt.outs {
		if o.typ == "res" {
			return true
		}
	}
	return false
}

func encEndp(e endp) string {
	return string(e.kind) + ":" + proto.Enc(e.name) + ":" + proto.Enc(e.extra)
}

func (c *caseCfg) opLines() []string {
	var ops []string
	for _, p := range c.ptypes {
		l := "ptype " + proto.Enc(p.name)
		for _, o := range p.outs {
			l += " " + proto.Enc(o.name) + ":" + o.typ
		}
		ops = append(ops, l)
	}
	for _, q := range c.quotas {
		u := "exact"
		if q.wild {
			u = "wild"
		}
		ql := "quota " + proto.Enc(q.id) + " kind=" + q.kind + " url=" + u
		if len(q.methods) > 0 {
			ql += " m=" + strings.Join(q.methods, ",")
		}
		ops = append(ops, ql)
	}
	for _, f := range c.flows {
		fl := "flow " + proto.Enc(f.name) + " kind=" + f.kind
		if f.url != "" && f.url != "x" {
			fl += " u=" + f.url
		}
		if len(f.methods) > 0 {
			fl += " m=" + strings.Join(f.methods, ",")
		}
		if len(f.headers) > 0 {
			fl += " h=" + encPairs(f.headers)
		}
		if len(f.status) > 0 {
			fl += " st=" + strings.Join(f.status, ",")
		}
		if len(f.query) > 0 {
			fl += " q=" + encPairs(f.query)
		}
		ops = append(ops, fl)
		for _, p := range f.procs {
			ops = append(ops, "proc "+proto.Enc(f.name)+" "+proto.Enc(p[0])+" "+proto.Enc(p[1]))
		}
		for _, d := range []struct {
			n  string
			cs []connDef
		}{{"req", f.req}, {"res", f.res}} {
			for _, cn := range d.cs {
				ops = append(ops, "conn "+proto.Enc(f.name)+" "+d.n+" "+encEndp(cn.from)+" "+encEndp(cn.to))
			}
		}
	}
	return ops
}

func encPairs(ps [][2]string) string {
	var xs []string
	for _, p := range ps {
		if p[1] == "\x00" {
			xs = append(xs, p[0])
		} else {
			xs = append(xs, p[0]+":"+p[1])
		}
	}
	return strings.Join(xs, ",")
}

// genFilter: with some probability give a user flow method / header / status / query constraints
func genFilter(r *prng.R, f *flowDef) {
	if !r.Chance(35) {
		return
	}
	if r.Chance(60) {
		f.methods = [][]string{{"GET"}, {"POST"}, {"GET", "POST"}, {"PUT"}}[r.Intn(4)]
	}
	if r.Chance(25) {
		f.headers = [][2]string{{"x-tag", prng.Pick(r, []string{"a", "b"})}}
		if r.Chance(30) {
			f.headers = append(f.headers, [2]string{"x-tag", "c"})
		}
	}
	if r.Chance(25) {
		f.status = [][]string{{"200"}, {"404"}, {"200", "500"}}[r.Intn(3)]
	}
	if r.Chance(20) {
		if r.Bool() {
			f.query = [][2]string{{"k", "\x00"}}
		} else {
			f.query = [][2]string{{"k", prng.Pick(r, []string{"v1", "v2"})}}
		}
	}
}

// genAttrs: the transaction attributes the filters look at (words appended to a txn line)
func genAttrs(r *prng.R) string {
	if r.Chance(40) {
		return ""
	}
	s := " m=" + prng.Pick(r, []string{"GET", "GET", "POST", "PUT"}) + " rm=" + prng.Pick(r, []string{"GET", "GET", "POST"}) +
		" st=" + prng.Pick(r, []string{"200", "200", "404", "500"})
	if r.Chance(50) {
		s += " h=x-tag:" + prng.Pick(r, []string{"a", "b", "c"})
	}
	if r.Chance(50) {
		s += " q=k:" + prng.Pick(r, []string{"v1", "v2"})
	}
	return s
}

var sStart = endp{'S', "globalStream", "start"}
var sEnd = endp{'S', "globalStream", "end"}

type genOpts struct {
	malformed bool
}

// genDirection generates the connection list of one direction over nodes keys[i] of types pts[i].
func genDirection(r *prng.R, dir string, keys []string, pts []*ptypeDef, withEntry bool, mustFrom []int, opt genOpts) []connDef {
	var cs []connDef
	n := len(keys)
	if withEntry {
		cs = append(cs, connDef{sStart, endp{'P', keys[0], ""}})
		if r.Chance(4) && n > 1 { // a second stream entry: the last one wins in the engine
			cs = append(cs, connDef{sStart, endp{'P', keys[r.Intn(n)], ""}})
		}
	}
	used := map[int]bool{}
	addFrom := func(i int, force bool) {
		conds := validConds(pts[i], dir)
		if len(conds) == 0 {
			if opt.malformed && r.Chance(30) {
				cs = append(cs, connDef{endp{'P', keys[i], ""}, sEnd})
			}
			return
		}
		deg := r.Intn(4)
		if force && deg == 0 {
			deg = 1
		}
		for k := 0; k < deg; k++ {
			cond := prng.Pick(r, conds)
			if opt.malformed && r.Chance(10) {
				cond = "zz"
			}
			var to endp
			switch {
			case r.Chance(25) || i == n-1 && !r.Chance(10):
				to = sEnd
				if r.Chance(10) {
					to = endp{'S', "otherStream", "end"}
				}
			case r.Chance(92):
				// forward edge (keeps the graph acyclic)
				if i+1 < n {
					to = endp{'P', keys[i+1+r.Intn(n-i-1)], ""}
				} else {
					to = sEnd
				}
			default:
				to = endp{'P', keys[r.Intn(n)], ""} // any target: may close a cycle
			}
			cs = append(cs, connDef{endp{'P', keys[i], cond}, to})
			if r.Chance(12) { // exact duplicate (de-duplicated by addEdge)
				cs = append(cs, connDef{endp{'P', keys[i], cond}, to})
			}
		}
		used[i] = true
	}
	for i := 0; i < n; i++ {
		if !withEntry && !contains(mustFrom, i) && r.Chance(60) {
			continue
		}
		// the entry node needs an outgoing connection (else "unconnected"), mostly respected
		addFrom(i, contains(mustFrom, i) || (withEntry && i == 0 && !r.Chance(6)))
	}
	if len(cs) == 0 || (!withEntry && r.Chance(30)) {
		cs = append(cs, connDef{sStart, sEnd})
	}
	if r.Chance(15) {
		prng.Shuffle(r, cs)
	}
	return cs
}

func contains(xs []int, x int) bool {
	for _, y := range xs {
		if y == x {
			return true
		}
	}
	return false
}

func genFlow(r *prng.R, name string, opt genOpts) *flowDef {
	f := &flowDef{name: name, kind: "user"}
	n := r.Range(1, 6)
	keys := make([]string, n)
	pts := make([]*ptypeDef, n)
	for i := 0; i < n; i++ {
		keys[i] = string(rune('A' + i))
		pts[i] = &vocab[r.Intn(len(vocab))]
		if i == 0 && r.Chance(85) {
			pts[i] = &vocab[[]int{0, 0, 1, 3}[r.Intn(4)]] // an entry type with outputs in both directions
		}
		f.procs = append(f.procs, [2]string{keys[i], pts[i].name})
	}
	if opt.malformed && r.Chance(30) && n > 1 {
		f.procs = f.procs[:n-1] // a referenced processor is not declared
	}
	// request direction
	switch {
	case r.Chance(8):
		f.req = []connDef{{sStart, sEnd}} // undefined request direction
	case opt.malformed && r.Chance(15):
		f.req = nil
	default:
		f.req = genDirection(r, "req", keys, pts, !(opt.malformed && r.Chance(20)), nil, opt)
	}
	// response direction: nodes that can answer the request get a continuation (mostly)
	var early []int
	for i := 0; i < n; i++ {
		if canAnswer(pts[i]) && r.Chance(85) {
			early = append(early, i)
		}
	}
	switch {
	case r.Chance(10) && len(early) == 0:
		f.res = []connDef{{sStart, sEnd}}
	case opt.malformed && r.Chance(10):
		f.res = nil
	default:
		f.res = genDirection(r, "res", keys, pts, r.Chance(50), early, opt)
	}
	return f
}

func genOracle(r *prng.R, c *caseCfg, dir string) string {
	var items []string
	for _, f := range c.flows {
		if f.kind != "user" {
			continue
		}
		for _, p := range f.procs {
			pt := ptypeByName(p[1])
			if pt == nil {
				continue
			}
			for _, d := range []string{"req", "res"} {
				if dir == "res" && d == "req" {
					continue
				}
				var v string
				names := []string{}
				for _, o := range pt.outs {
					names = append(names, o.name)
				}
				switch {
				case r.Chance(3):
					v = "x"
				case d == "req" && canAnswer(pt) && r.Chance(45):
					v = "e:" + proto.Enc(prng.Pick(r, names))
				case r.Chance(5):
					v = "n:zz"
				case r.Chance(4):
					continue // default: unnamed normal output
				default:
					v = "n:" + proto.Enc(prng.Pick(r, names))
				}
				items = append(items, proto.Enc(f.name)+"/"+proto.Enc(p[0])+"/"+d+"="+v)
			}
		}
	}
	return joinOr(items, ",")
}

func genCase(r *prng.R, id string) proto.Case {
	c := &caseCfg{ptypes: vocab}
	opt := genOpts{malformed: r.Chance(12)}
	nf := 1
	if r.Chance(45) {
		nf = r.Range(2, 3)
	}
	var order []string
	for i := 0; i < nf; i++ {
		name := fmt.Sprintf("f%d", i+1)
		fl := genFlow(r, name, opt)
		genFilter(r, fl)
		c.flows = append(c.flows, fl)
		order = append(order, name)
	}
	if opt.malformed && nf > 1 && r.Chance(10) {
		c.flows[1].name = c.flows[0].name // duplicate flow name: the loader refuses everything
		order = order[:1]
		for i := 2; i < nf; i++ {
			order = append(order, c.flows[i].name)
		}
	}
	prng.Shuffle(r, order)
	if r.Chance(35) {
		nq := r.Range(1, 2)
		if r.Chance(10) {
			nq = 3
		}
		for i := 0; i < nq; i++ {
			kind := "fixed"
			if r.Chance(60) {
				kind = "concurrent"
			}
			q := quotaDef{id: fmt.Sprintf("q%d", i+1), kind: kind, wild: r.Chance(50)}
			if r.Chance(45) { // quotas of one URL pattern with different method filters: separate system flows on one node
				q.methods = [][]string{{"GET"}, {"POST"}, {"PUT"}}[r.Intn(3)]
			}
			c.quotas = append(c.quotas, q)
		}
	}
	ops := c.opLines()
	ops = append(ops, "load order="+strings.Join(order, ","))
	for k := 0; k < 8; k++ {
		dir := "req"
		if k >= 6 {
			dir = "res"
		}
		ops = append(ops, "txn dir="+dir+" o="+genOracle(r, c, dir)+genAttrs(r))
	}
	return proto.Case{ID: id, Ops: ops}
}

// ---------------------------------------------------------------- flow references

// genRefCase: 2-3 user flows with globally unique processor keys, referencing each other ACYCLICALLY (flow i
// only references flows j < i: chains and diamonds), in both directions, with the canonical patterns
// (request: `flow g end -> P`, response: `P -> flow g start`), the mirrored ones (which the engine builds
// asymmetrically), references declared before/after the stream entry, unresolvable references and
// referenced directions without stream entry.
func genRefCase(r *prng.R, id string) proto.Case {
	c := &caseCfg{ptypes: vocab}
	nf := r.Range(2, 3)
	types := []string{"PA", "PU", "PU", "PM"}
	var order []string
	for i := 1; i <= nf; i++ {
		f := &flowDef{name: fmt.Sprintf("f%d", i), kind: "user"}
		n := r.Range(1, 3)
		keys := make([]string, n)
		pts := make([]*ptypeDef, n)
		for k := 0; k < n; k++ {
			keys[k] = fmt.Sprintf("%c%d", 'A'+k, i)
			pts[k] = ptypeByName(prng.Pick(r, types))
			f.procs = append(f.procs, [2]string{keys[k], pts[k].name})
		}
		// which flows this one references
		var refs []string
		for j := 1; j < i; j++ {
			if r.Chance(70) {
				refs = append(refs, fmt.Sprintf("f%d", j))
			}
		}
		if len(refs) == 0 && i > 1 {
			refs = append(refs, fmt.Sprintf("f%d", r.Range(1, i-1)))
		}
		if r.Chance(4) {
			refs = append(refs, "nope")
		}
		pickCond := func(k int, dir string) string {
			cs := validConds(pts[k], dir)
			if len(cs) == 0 {
				return ""
			}
			return prng.Pick(r, cs)
		}
		for _, dir := range []string{"req", "res"} {
			var cs []connDef
			// a small chain/branch over the own nodes
			entry := connDef{sStart, endp{'P', keys[0], ""}}
			withEntry := !(dir == "res" && r.Chance(15))
			for k := 0; k < n; k++ {
				if k+1 < n {
					cs = append(cs, connDef{endp{'P', keys[k], pickCond(k, dir)}, endp{'P', keys[k+1], ""}})
					if r.Chance(30) {
						cs = append(cs, connDef{endp{'P', keys[k], pickCond(k, dir)}, sEnd})
					}
				} else {
					cs = append(cs, connDef{endp{'P', keys[k], pickCond(k, dir)}, sEnd})
				}
			}
			usedEntryRef := false
			for _, g := range refs {
				canonical := r.Chance(75)
				asEntry := (dir == "req") == canonical // request canonical = `flow g end -> first`
				if r.Chance(20) {
					continue // this direction does not use the reference
				}
				if asEntry {
					ec := connDef{endp{'F', g, "end"}, endp{'P', keys[r.Intn(n)], ""}}
					if r.Chance(5) {
						ec.from.extra = "start" // wrong end: invalid connection configuration
					}
					cs = append([]connDef{ec}, cs...)
					usedEntryRef = true
				} else {
					k := r.Intn(n)
					rc := connDef{endp{'P', keys[k], pickCond(k, dir)}, endp{'F', g, "start"}}
					// put it somewhere, sometimes instead of the last `-> end`
					pos := r.Intn(len(cs) + 1)
					cs = append(cs[:pos], append([]connDef{rc}, cs[pos:]...)...)
				}
			}
			if withEntry && (!usedEntryRef || r.Chance(10)) {
				if r.Chance(25) {
					cs = append(cs, entry) // stream entry declared last
				} else {
					cs = append([]connDef{entry}, cs...)
				}
			}
			if len(cs) == 0 {
				cs = append(cs, connDef{sStart, sEnd})
			}
			if dir == "req" {
				f.req = cs
			} else {
				f.res = cs
			}
		}
		c.flows = append(c.flows, f)
		order = append(order, f.name)
	}
	prng.Shuffle(r, order)
	if r.Chance(20) {
		c.quotas = append(c.quotas, quotaDef{id: "q1", kind: "concurrent", wild: r.Chance(50)})
	}
	ops := c.opLines()
	ops = append(ops, "load order="+strings.Join(order, ","))
	// oracle: every flow may execute any processor key (nodes of referenced flows run under the outer flow's name)
	for k := 0; k < 6; k++ {
		dir := "req"
		if k >= 4 {
			dir = "res"
		}
		var items []string
		for _, outer := range c.flows {
			for _, inner := range c.flows {
				for _, p := range inner.procs {
					pt := ptypeByName(p[1])
					var names []string
					for _, o := range pt.outs {
						names = append(names, o.name)
					}
					for _, d := range []string{"req", "res"} {
						if dir == "res" && d == "req" {
							continue
						}
						var v string
						switch {
						case r.Chance(2):
							v = "x"
						case d == "req" && canAnswer(pt) && r.Chance(35):
							v = "e:" + proto.Enc(prng.Pick(r, names))
						default:
							v = "n:" + proto.Enc(prng.Pick(r, names))
						}
						items = append(items, proto.Enc(outer.name)+"/"+proto.Enc(p[0])+"/"+d+"="+v)
					}
				}
			}
		}
		ops = append(ops, "txn dir="+dir+" o="+joinOr(items, ","))
	}
	return proto.Case{ID: id, Ops: ops}
}

// ---------------------------------------------------------------- borrowed processors (`otherFlow.key`)

// genBorrowCase: flow f1 owns processors; flow f2 uses some of them with the dotted syntax `f1.key` (node key
// `f1.key`, processor instance `key` of f1), among them answering ones; f2 may also own a processor with the SAME
// bare key, wired differently in the response direction.
func genBorrowCase(r *prng.R, id string) proto.Case {
	c := &caseCfg{ptypes: vocab}
	f1 := &flowDef{name: "f1", kind: "user"}
	f1.procs = [][2]string{{"G", prng.Pick(r, []string{"PG", "PM", "PM"})}, {"H", prng.Pick(r, []string{"PU", "PA", "PM"})}}
	f1.req = []connDef{{sStart, endp{'P', "H", ""}}, {endp{'P', "H", pick1(r, "H", f1, "req")}, sEnd}}
	if r.Chance(50) {
		f1.req = []connDef{{sStart, endp{'P', "H", ""}}, {endp{'P', "H", pick1(r, "H", f1, "req")}, endp{'P', "G", ""}}}
	}
	f1.res = []connDef{{endp{'P', "G", pick1(r, "G", f1, "res")}, sEnd}}
	if r.Chance(40) {
		f1.res = append([]connDef{{sStart, endp{'P', "H", ""}}, {endp{'P', "H", pick1(r, "H", f1, "res")}, sEnd}}, f1.res...)
	}
	f2 := &flowDef{name: "f2", kind: "user"}
	f2.procs = [][2]string{{"A", prng.Pick(r, []string{"PA", "PU"})}, {"X", "PU"}, {"Y", "PU"}}
	localG := r.Chance(55)
	if localG {
		f2.procs = append(f2.procs, [2]string{"G", prng.Pick(r, []string{"PU", "PM", "PG"})})
	}
	bor := "f1.G"
	if r.Chance(5) {
		bor = "nope.G" // borrowed from a flow that does not exist
	}
	// request: start -> A -> f1.G (borrowed, answers), sometimes also A -> local G / A -> f1.H -> end
	f2.req = []connDef{{sStart, endp{'P', "A", ""}}, {endp{'P', "A", pick1(r, "A", f2, "req")}, endp{'P', bor, ""}}}
	if localG && r.Chance(40) {
		f2.req = append(f2.req, connDef{endp{'P', "A", pick1(r, "A", f2, "req")}, endp{'P', "G", ""}})
	}
	if r.Chance(40) {
		f2.req = append(f2.req, connDef{endp{'P', "A", pick1(r, "A", f2, "req")}, endp{'P', "f1.H", ""}},
			connDef{endp{'P', "f1.H", pick1(r, "H", f1, "req")}, sEnd})
	}
	// response: continuation of the borrowed node (mostly), continuation of the local G (differently), optional entry
	var res []connDef
	if r.Chance(88) {
		to := sEnd
		if r.Chance(75) {
			to = endp{'P', "X", ""}
		}
		res = append(res, connDef{endp{'P', bor, pick1(r, "G", f1, "res")}, to})
	}
	if localG && r.Chance(80) {
		to := endp{'P', "Y", ""}
		if r.Chance(20) {
			to = sEnd
		}
		res = append(res, connDef{endp{'P', "G", pick1(r, "G", f2, "res")}, to})
	}
	res = append(res, connDef{endp{'P', "X", ""}, sEnd}, connDef{endp{'P', "Y", ""}, sEnd})
	if r.Chance(40) {
		res = append([]connDef{{sStart, endp{'P', "Y", ""}}}, res...)
	}
	if r.Chance(15) {
		prng.Shuffle(r, res)
	}
	f2.res = res
	genFilter(r, f2)
	c.flows = []*flowDef{f1, f2}
	order := []string{"f1", "f2"}
	if r.Bool() {
		order = []string{"f2", "f1"}
	}
	ops := c.opLines()
	ops = append(ops, "load order="+strings.Join(order, ","))
	for k := 0; k < 5; k++ {
		dir := "req"
		if k == 4 {
			dir = "res"
		}
		var items []string
		for _, fl := range c.flows {
			for _, key := range []string{"A", "G", "H", "X", "Y"} {
				for _, d := range []string{"req", "res"} {
					if dir == "res" && d == "req" {
						continue
					}
					v := "n:" + proto.Enc(prng.Pick(r, []string{"", "a", "b", "e"}))
					if d == "req" && key == "G" && r.Chance(75) {
						v = "e:" + proto.Enc(prng.Pick(r, []string{"", "e"}))
					}
					items = append(items, fl.name+"/"+key+"/"+d+"="+v)
				}
			}
		}
		ops = append(ops, "txn dir="+dir+" o="+strings.Join(items, ",")+genAttrs(r))
	}
	return proto.Case{ID: id, Ops: ops}
}

// pick1: a condition valid for processor `key` of flow f in direction dir ("" if it has none)
func pick1(r *prng.R, key string, f *flowDef, dir string) string {
	for _, p := range f.procs {
		if p[0] == key {
			cs := validConds(ptypeByName(p[1]), dir)
			if len(cs) == 0 {
				return ""
			}
			return prng.Pick(r, cs)
		}
	}
	return ""
}

// ---------------------------------------------------------------- several URL patterns, overlapping transactions

// genPairCase: k user flows on the wildcard pattern host/*, flows on host/x and host/y; transactions to both URLs,
// sequentially and OVERLAPPING (`pair`: the first parked inside its first probe while the second is served).
func genPairCase(r *prng.R, id string) proto.Case {
	c := &caseCfg{ptypes: vocab}
	k := r.Range(1, 6) // at most 8 flows in all: Go's iteration order of a map of <= 8 entries is a rotation of the insertion order
	var order []string
	mk := func(name, url string) *flowDef {
		f := &flowDef{name: name, kind: "user", url: url}
		f.procs = [][2]string{{"A", "PU"}, {"B", prng.Pick(r, []string{"PU", "PA"})}}
		f.req = []connDef{{sStart, endp{'P', "A", ""}}, {endp{'P', "A", ""}, endp{'P', "B", ""}}, {endp{'P', "B", pick1(r, "B", f, "req")}, sEnd}}
		if r.Chance(50) {
			f.res = []connDef{{sStart, endp{'P', "B", ""}}, {endp{'P', "B", pick1(r, "B", f, "res")}, sEnd}}
		} else {
			f.res = []connDef{{sStart, sEnd}}
		}
		if url == "wild" && r.Chance(10) {
			genFilter(r, f)
		}
		return f
	}
	for i := 1; i <= k; i++ {
		f := mk(fmt.Sprintf("w%d", i), "wild")
		c.flows = append(c.flows, f)
		order = append(order, f.name)
	}
	for i, u := range []string{"x", "y", "x", "y"} {
		if i >= 2 && (k > 4 || !r.Chance(30)) {
			continue
		}
		f := mk(fmt.Sprintf("%s%d", u, i/2+1), u)
		c.flows = append(c.flows, f)
		order = append(order, f.name)
	}
	prng.Shuffle(r, order)
	ops := c.opLines()
	ops = append(ops, "load order="+strings.Join(order, ","))
	orc := func() string {
		var items []string
		for _, f := range c.flows {
			if r.Chance(30) {
				items = append(items, f.name+"/B/req=n:"+proto.Enc(prng.Pick(r, []string{"", "a", "b"})))
			}
		}
		return joinOr(items, ",")
	}
	us := []string{"x", "y"}
	for n := 0; n < 5; n++ {
		switch r.Intn(3) {
		case 0:
			dir := "req"
			if r.Chance(30) {
				dir = "res"
			}
			ops = append(ops, "txn dir="+dir+" o="+orc()+" u="+prng.Pick(r, us))
		default:
			u1 := prng.Pick(r, us)
			u2 := "y"
			if u1 == "y" || r.Chance(15) {
				u2 = "x"
			}
			ops = append(ops, "pair u1="+u1+" o1="+orc()+" u2="+u2+" o2="+orc())
		}
	}
	return proto.Case{ID: id, Ops: ops}
}

// ---------------------------------------------------------------- exhaustive small scope (thorough tier)

type candConn struct{ c connDef }

// enumDirection emits, for every subset of `cands` (in the given order), the case built by `mk`.
func enumSubsets(cands []connDef, emit func(sel []connDef)) {
	n := len(cands)
	for m := 0; m < 1<<n; m++ {
		var sel []connDef
		for b := 0; b < n; b++ {
			if m&(1<<b) != 0 {
				sel = append(sel, cands[b])
			}
		}
		emit(sel)
	}
}

func oracleCombos(keys []string, choices map[string][]string, flow, dir string) []string {
	res := []string{""}
	for _, k := range keys {
		var next []string
		for _, pre := range res {
			for _, v := range choices[k] {
				it := flow + "/" + k + "/" + dir + "=" + v
				if pre == "" {
					next = append(next, it)
				} else {
					next = append(next, pre+","+it)
				}
			}
		}
		res = next
	}
	return res
}

// all request directions over A (PM: a, b, answer), B (PA) with every subset of the 14 possible
// connections; fixed response direction `A -> B -> end` without stream entry... with and without entry.
func genExhaustive(emit func(proto.Case)) {
	p := func(k, c string) endp { return endp{'P', k, c} }
	// (1) request direction: all subsets over two nodes
	reqC := []connDef{
		{sStart, p("A", "")}, {sStart, p("B", "")},
		{p("A", "a"), p("A", "")}, {p("A", "a"), p("B", "")}, {p("A", "b"), p("A", "")}, {p("A", "b"), p("B", "")},
		{p("B", "a"), p("A", "")}, {p("B", "a"), p("B", "")}, {p("B", "b"), p("A", "")}, {p("B", "b"), p("B", "")},
		{p("A", "a"), sEnd}, {p("A", "b"), sEnd}, {p("B", "a"), sEnd}, {p("B", "b"), sEnd},
	}
	id := 0
	reqOr := oracleCombos([]string{"A", "B"}, map[string][]string{"A": {"n:a", "n:b", "e:e"}, "B": {"n:a", "n:b"}}, "f1", "req")
	for _, resEntry := range []bool{false, true} {
		res := []connDef{{p("A", "e"), p("B", "")}, {p("B", "a"), sEnd}}
		if resEntry {
			res = append([]connDef{{sStart, p("B", "")}}, res...)
		}
		enumSubsets(reqC, func(sel []connDef) {
			if len(sel) == 0 {
				return
			}
			c := &caseCfg{ptypes: vocab, flows: []*flowDef{{name: "f1", kind: "user",
				procs: [][2]string{{"A", "PM"}, {"B", "PA"}}, req: sel, res: res}}}
			ops := c.opLines()
			ops = append(ops, "load order=f1")
			for _, o := range reqOr {
				ops = append(ops, "txn dir=req o="+o)
			}
			id++
			emit(proto.Case{ID: fmt.Sprintf("xq%d", id), Ops: ops})
		})
	}
	// (2) response direction: all subsets over A (PM), B (PA), C (PU), forward and backward edges among
	// B, C restricted; the request direction is `start -> A`, `A -a-> B`, `B -> end` and A may answer.
	resC := []connDef{
		{sStart, p("B", "")}, {sStart, p("C", "")},
		{p("A", "e"), p("B", "")}, {p("A", "a"), p("C", "")}, {p("A", "e"), sEnd},
		{p("B", "a"), p("C", "")}, {p("B", "b"), p("C", "")}, {p("B", "a"), p("A", "")}, {p("B", "a"), sEnd},
		{p("C", ""), p("B", "")}, {p("C", ""), sEnd}, {p("C", ""), p("A", "")},
	}
	req := []connDef{{sStart, p("A", "")}, {p("A", "a"), p("B", "")}, {p("B", "a"), sEnd}, {p("B", "b"), sEnd}}
	ors := []string{
		"f1/A/req=e:e,f1/B/res=n:a", "f1/A/req=e:a,f1/B/res=n:b,f1/A/res=n:a", "f1/A/req=n:a,f1/B/req=n:a",
	}
	enumSubsets(resC, func(sel []connDef) {
		if len(sel) == 0 {
			return
		}
		c := &caseCfg{ptypes: vocab, flows: []*flowDef{{name: "f1", kind: "user",
			procs: [][2]string{{"A", "PM"}, {"B", "PA"}, {"C", "PU"}}, req: req, res: sel}}}
		ops := c.opLines()
		ops = append(ops, "load order=f1")
		for _, o := range ors {
			ops = append(ops, "txn dir=req o="+o)
		}
		ops = append(ops, "txn dir=res o=f1/B/res=n:a,f1/A/res=n:a", "txn dir=res o=f1/B/res=n:b,f1/A/res=n:e")
		id++
		emit(proto.Case{ID: fmt.Sprintf("xs%d", id), Ops: ops})
	})
}

func gen(r *prng.R, f proto.Flags, emit func(proto.Case)) {
	n := 2000
	if f.Tier == "thorough" {
		n = 20000
	}
	n *= f.Budget
	for k := 0; k < n; k++ {
		emit(genCase(r.Fork(), fmt.Sprintf("g%d", k+1)))
	}
	for k := 0; k < n; k++ {
		emit(genRefCase(r.Fork(), fmt.Sprintf("r%d", k+1)))
	}
	for k := 0; k < n/2; k++ {
		emit(genBorrowCase(r.Fork(), fmt.Sprintf("b%d", k+1)))
	}
	for k := 0; k < n/4; k++ {
		emit(genPairCase(r.Fork(), fmt.Sprintf("p%d", k+1)))
	}
	if f.Tier == "thorough" {
		genExhaustive(emit)
	}
}
