// Level 2 of the C20 harness: the REAL watcher built by failsafe.NewDiagnosisFailsafeStateChangeWatcher
// (configuration from the process environment, the real health predicate areSPOEConnectionsHealthy behind
// http.DefaultClient with a scripted RoundTripper, the real reactions on a REAL config.TxnPoliciesAccessor
// booted by config.BuildInitialFromFile) on the deterministic single-goroutine clock of level 1.
//
// Instrumentation: the three closures of the watcher's private `config` field are wrapped IN PLACE
// (reflect + unsafe; failsafe.Config is an exported type): the predicate wrapper is the rendez-vous with
// the script (pending non-observation ops run there, in the watcher's goroutine, then the clock is moved
// by the scripted latency and the real predicate is called); the reaction wrappers record which slot the
// watcher invoked and then call the real closure.  HAProxy's admin API (config/update_endpoints.go) also
// goes through http.DefaultClient and is answered by the same RoundTripper (200, or 500 after `admin fail`).
package main

import (
	"errors"
	"fmt"
	"io"
	"math/big"
	"net/http"
	"os"
	"path/filepath"
	"reflect"
	"regexp"
	"runtime"
	"strconv"
	"strings"
	"sync"
	"sync/atomic"
	"time"
	"unsafe"

	"lunar/engine/config"
	"lunar/engine/failsafe"
	contextmanager "lunar/toolkit-core/context-manager"

	"verif/harness/internal/detclock"
	"verif/harness/internal/proto"
)

// Column layout of HAProxy's `show stat` CSV (2.x), as served by /metrics;csv - every line ends with a comma.
const haproxyHeader = "# pxname,svname,qcur,qmax,scur,smax,slim,stot,bin,bout,dreq,dresp,ereq,econ,eresp,wretr,wredis,status,weight,act,bck," +
	"chkfail,chkdown,lastchg,downtime,qlimit,pid,iid,sid,throttle,lbtot,tracked,type,rate,rate_lim,rate_max,check_status,check_code," +
	"check_duration,hrsp_1xx,hrsp_2xx,hrsp_3xx,hrsp_4xx,hrsp_5xx,hrsp_other,hanafail,req_rate,req_rate_max,req_tot,cli_abrt,srv_abrt," +
	"comp_in,comp_out,comp_byp,comp_rsp,lastsess,last_chk,last_agt,qtime,ctime,rtime,ttime,agent_status,agent_code,agent_duration," +
	"check_desc,agent_desc,check_rise,check_fall,check_health,agent_rise,agent_fall,agent_health,addr,cookie,mode,algo,conn_rate," +
	"conn_rate_max,conn_tot,intercepted,dcon,dses,wrew,connect,reuse,cache_lookups,cache_hits,srv_icur,src_ilim,qtime_max,ctime_max," +
	"rtime_max,ttime_max,eint,idle_conn_cur,safe_conn_cur,used_conn_cur,need_conn_est,uweight,"

var envNames = map[string]string{
	"interval": "DIAGNOSIS_FAILSAFE_MIN_SEC_BETWEEN_CALLS",
	"n":        "DIAGNOSIS_FAILSAFE_CONSECUTIVE_N",
	"period":   "DIAGNOSIS_FAILSAFE_MIN_STABLE_SEC",
	"cooldown": "DIAGNOSIS_FAILSAFE_COOLDOWN_SEC",
	"rate":     "DIAGNOSIS_FAILSAFE_HEALTHY_SESSION_RATE",
	"max":      "DIAGNOSIS_FAILSAFE_HEALTHY_MAX_LAST_SESSION_SEC",
}

// ---------------------------------------------------------------- policies

type pol struct {
	k       int64
	g, e, r bool
}

func parsePol(s string) (pol, bool) {
	f := strings.Split(s, ".")
	if len(f) != 4 {
		return pol{}, false
	}
	k, err := strconv.ParseInt(f[0], 10, 64)
	if err != nil || k <= 0 || !allDigits(f[0]) { // label 0 is reserved for the empty policies
		return pol{}, false
	}
	for _, b := range f[1:] {
		if b != "0" && b != "1" {
			return pol{}, false
		}
	}
	return pol{k, f[1] == "1", f[2] == "1", f[3] == "1"}, true
}

func allDigits(s string) bool {
	for _, c := range s {
		if c < '0' || c > '9' {
			return false
		}
	}
	return s != ""
}

const diagBody = `      enabled: true
      config:
        har_exporter:
          transaction_max_size: 1000
          obfuscate:
            enabled: false
      export: file
`

func (p pol) yaml() string {
	var b strings.Builder
	b.WriteString("global:\n  remedies:\n")
	fmt.Fprintf(&b, "    - name: v%d\n      enabled: false\n      config:\n        fixed_response:\n          status_code: 200\n", p.k)
	if p.g {
		fmt.Fprintf(&b, "  diagnosis:\n    - name: gd%d\n%s", p.k, strings.ReplaceAll(diagBody, "      ", "      "))
	}
	fmt.Fprintf(&b, "endpoints:\n  - url: verif.example/p%d\n    method: GET\n    remedies:\n", p.k)
	fmt.Fprintf(&b, "      - name: er%d\n        enabled: %v\n        config:\n          fixed_response:\n            status_code: 200\n", p.k, p.r)
	if p.e {
		fmt.Fprintf(&b, "    diagnosis:\n      - name: ed%d\n%s", p.k, strings.ReplaceAll(diagBody, "      ", "        "))
	}
	b.WriteString("exporters:\n  file:\n    file_dir: /tmp\n    file_name: verif-c20\n")
	return b.String()
}

// not YAML at all: rejected by configuration.UnmarshalPolicyRawData whatever validators are registered
const badYAML = "global:\n  remedies: [\n    - name: broken\n"

// ---------------------------------------------------------------- scripted transport

type fetchSpec struct {
	kind   string // err | bodyerr | status
	status int
	body   string
	cls    string // input-distribution class
}

type transport struct {
	mu        sync.Mutex
	cur       *fetchSpec
	fetches   int
	adminFail bool
	adminLog  []string // requests the stub HAProxy admin API received since the last takeAdmin
}

var epLabel = regexp.MustCompile(`/p(\d+)\$?$`)

// takeAdmin returns and clears the admin-call log in the answer format ` adm=<call>,<call>…`.
func (t *transport) takeAdmin() string {
	t.mu.Lock()
	defer t.mu.Unlock()
	l := t.adminLog
	t.adminLog = nil
	if len(l) == 0 {
		return " adm=-"
	}
	return " adm=" + strings.Join(l, ",")
}

type errReader struct{}

func (errReader) Read([]byte) (int, error) { return 0, errors.New("verif: scripted body error") }
func (errReader) Close() error             { return nil }

func resp(req *http.Request, code int, body io.ReadCloser) *http.Response {
	return &http.Response{StatusCode: code, Status: fmt.Sprint(code), Proto: "HTTP/1.1", ProtoMajor: 1, ProtoMinor: 1,
		Header: http.Header{}, Body: body, Request: req, ContentLength: -1}
}

func (t *transport) RoundTrip(req *http.Request) (*http.Response, error) {
	var reqBody []byte
	if req.Body != nil {
		reqBody, _ = io.ReadAll(req.Body)
		req.Body.Close()
	}
	t.mu.Lock()
	defer t.mu.Unlock()
	if req.URL.Host == "localhost:9000" && strings.HasPrefix(req.URL.Path, "/metrics") {
		t.fetches++
		f := t.cur
		if f == nil {
			return nil, errors.New("verif: unscripted stats fetch")
		}
		switch f.kind {
		case "err":
			return nil, errors.New("verif: scripted transport error")
		case "bodyerr":
			return resp(req, 200, errReader{}), nil
		}
		return resp(req, f.status, io.NopCloser(strings.NewReader(f.body))), nil
	}
	if strings.HasPrefix(req.URL.Path, "/healthcheck") {
		return resp(req, 200, io.NopCloser(strings.NewReader("OK"))), nil
	}
	// HAProxy admin API: method, path and (for endpoint requests) the label of the endpoint in the body
	call := req.Method + req.URL.Path
	if m := epLabel.FindSubmatch(reqBody); m != nil {
		call += "/p" + string(m[1])
	} else if len(reqBody) > 0 {
		call += "/" + proto.Enc(string(reqBody))
	}
	t.adminLog = append(t.adminLog, call)
	if t.adminFail {
		return resp(req, 500, io.NopCloser(strings.NewReader("verif: scripted admin failure"))), nil
	}
	return resp(req, 200, io.NopCloser(strings.NewReader("OK"))), nil
}

// ---------------------------------------------------------------- fetch outcome grammar

var fieldOK = regexp.MustCompile(`^[^,"\r\n]*$`)

var junkBodies = map[string]string{
	"empty":   "",
	"html":    "<html><body>503 Service Unavailable</body></html>\n",
	"quote":   "# pxname,svname,\"rate,lastsess\nlunar,BACKEND,0,9\n",
	"nohdr":   "lunar,BACKEND,0,9\n",
}

// buildCSV lays the described table out as text: hdr = which of (# pxname, svname, rate, lastsess) exist;
// lay = real (HAProxy's column layout) | min (only the required columns) | rev (required columns, reversed, plus padding).
func buildCSV(mask, lay, rows string) (string, bool) {
	if len(mask) != 4 || strings.Trim(mask, "01") != "" {
		return "", false
	}
	req := []string{"# pxname", "svname", "rate", "lastsess"}
	var cols []string
	switch lay {
	case "real":
		cols = strings.Split(haproxyHeader, ",")
	case "min":
		cols = append([]string{}, req...)
	case "rev":
		cols = []string{"pad0", "lastsess", "rate", "pad1", "svname", "# pxname", "pad2"}
	default:
		return "", false
	}
	var hdr []string
	for _, c := range cols {
		drop := false
		for i, r := range req {
			if c == r && mask[i] == '0' {
				drop = true
			}
		}
		if drop {
			c = "x_" + strings.TrimPrefix(c, "# ")
		}
		hdr = append(hdr, c)
	}
	var b strings.Builder
	b.WriteString(strings.Join(hdr, ","))
	b.WriteByte('\n')
	if rows != "" {
		for _, row := range strings.Split(rows, ";") {
			f := strings.Split(row, "|")
			if len(f) != 5 {
				return "", false
			}
			vals := map[string]string{}
			for i, r := range req {
				v := proto.Dec(f[i])
				if !fieldOK.MatchString(v) {
					return "", false
				}
				vals[r] = v
			}
			out := make([]string, len(hdr))
			for i, c := range hdr {
				if v, ok := vals[c]; ok {
					out[i] = v
				} else if c != "" {
					out[i] = "7"
				}
			}
			switch f[4] {
			case "0":
			case "1": // one field too few
				out = out[:len(out)-1]
			case "2": // one field too many
				out = append(out, "9")
			default:
				return "", false
			}
			b.WriteString(strings.Join(out, ","))
			b.WriteByte('\n')
		}
	}
	return b.String(), true
}

func parseFetch(w []string) (*fetchSpec, bool) {
	h, ok := proto.KV(w, "http")
	if !ok {
		return nil, false
	}
	switch h {
	case "err", "bodyerr":
		return &fetchSpec{kind: h, cls: h}, true
	}
	code, err := strconv.Atoi(h)
	if err != nil || !allDigits(h) || code < 100 || code > 599 {
		return nil, false
	}
	f := &fetchSpec{kind: "status", status: code}
	if j, ok := proto.KV(w, "junk"); ok {
		body, ok := junkBodies[j]
		if !ok {
			return nil, false
		}
		f.body = body
		f.cls = "junk"
		return f, true
	}
	mask, ok1 := proto.KV(w, "hdr")
	lay, ok2 := proto.KV(w, "lay")
	rows, _ := proto.KV(w, "rows")
	if !ok1 || !ok2 {
		return nil, false
	}
	body, ok := buildCSV(mask, lay, rows)
	if !ok {
		return nil, false
	}
	f.body = body
	switch {
	case mask != "1111":
		f.cls = "column-missing"
	case rows == "":
		f.cls = "no-rows"
	default:
		f.cls = "table"
	}
	return f, true
}

// ---------------------------------------------------------------- the world of one case

type wworld struct {
	dir   string
	tr    *transport
	acc   *config.TxnPoliciesAccessor
	clk   *detclock.Auto
	watch *failsafe.StateChangeWatcher
	cfg   *failsafe.Config // the watcher's own (private) config, aliased
}

func (w *wworld) inforce() string {
	if w.acc == nil {
		return "ver=none"
	}
	c := w.acc.GetCurrentPoliciesData().Config
	ver := "?"
	if len(c.Global.Remedies) == 1 && strings.HasPrefix(c.Global.Remedies[0].Name, "v") {
		ver = c.Global.Remedies[0].Name[1:]
	} else if len(c.Global.Remedies) == 0 && len(c.Endpoints) == 0 {
		ver = "0" // the empty policies
	}
	ed, er := 0, 0
	for _, ep := range c.Endpoints {
		ed += len(ep.Diagnosis)
		for _, r := range ep.Remedies {
			if r.Enabled {
				er++
			}
		}
	}
	return fmt.Sprintf("ver=%s gd=%d ed=%d er=%d", ver, len(c.Global.Diagnosis), ed, er)
}

func res(err error) string {
	if err != nil {
		return "err"
	}
	return "ok"
}

func atoiClass(err error) string {
	var ne *strconv.NumError
	if errors.As(err, &ne) {
		switch ne.Err {
		case strconv.ErrSyntax:
			return "err:syntax num=" + proto.Enc(ne.Num)
		case strconv.ErrRange:
			return "err:range num=" + proto.Enc(ne.Num)
		}
	}
	return "err:other"
}

// watcherConfig aliases the private `config` field of the watcher.
func watcherConfig(w *failsafe.StateChangeWatcher) *failsafe.Config {
	f := reflect.ValueOf(w).Elem().FieldByName("config")
	if !f.IsValid() || f.Type() != reflect.TypeOf(failsafe.Config{}) {
		panic("verif: StateChangeWatcher.config not found")
	}
	return (*failsafe.Config)(unsafe.Pointer(f.UnsafeAddr()))
}

// a simple op (not wcfg/obs), executed on the goroutine that reaches it
func (w *wworld) simpleOp(f []string) string {
	policiesPath := filepath.Join(w.dir, "policies.yaml")
	switch {
	case f[0] == "dockerenv" && len(f) == 1:
		return dockerEnv()
	case f[0] == "thr":
		rv, ok1 := proto.KV(f, "rate")
		mv, ok2 := proto.KV(f, "max")
		if !ok1 || !ok2 {
			return "bad-op"
		}
		os.Setenv(envNames["rate"], proto.Dec(rv))
		os.Setenv(envNames["max"], proto.Dec(mv))
		return "ok"
	case f[0] == "admin" && len(f) == 2 && (f[1] == "ok" || f[1] == "fail"):
		w.tr.adminFail = f[1] == "fail"
		return "ok"
	case f[0] == "write" && len(f) == 2:
		switch f[1] {
		case "bad":
			must(os.WriteFile(policiesPath, []byte(badYAML), 0o644))
		case "none":
			os.Remove(policiesPath)
		default:
			p, ok := parsePol(f[1])
			if !ok {
				return "bad-op"
			}
			must(os.WriteFile(policiesPath, []byte(p.yaml()), 0o644))
		}
		return "ok"
	case f[0] == "rmloaded" && len(f) == 2 && (f[1] == "free" || f[1] == "last"):
		sfx := ""
		if f[1] == "free" {
			sfx = "-diagnosis-free"
		}
		os.Remove(filepath.Join(w.dir, "loaded-policies"+sfx+".yaml"))
		return "ok"
	}
	isReload := f[0] == "reload" && len(f) == 1
	isRevert := f[0] == "revert" && len(f) == 2 && (f[1] == "free" || f[1] == "last")
	switch {
	case !isReload && !isRevert:
		return "bad-op"
	case w.acc == nil:
		return "no-accessor"
	case isReload:
		w.tr.takeAdmin()
		return res(w.acc.ReloadFromFile()) + " " + w.inforce() + w.tr.takeAdmin()
	case f[1] == "free":
		w.tr.takeAdmin()
		return res(w.acc.RevertToDiagnosisFree()) + " " + w.inforce() + w.tr.takeAdmin()
	default:
		w.tr.takeAdmin()
		return res(w.acc.RevertToLastLoaded()) + " " + w.inforce() + w.tr.takeAdmin()
	}
}

func must(err error) {
	if err != nil {
		panic(err)
	}
}

var mockClockSet bool

// A call into the code under test that never returns (e.g. a leaked mutex) must become an ANSWER, not a dead
// harness: everything that can block runs under a bounded wait.  The first such event of a process gets a
// generous limit; the blocked goroutine (and whatever lock it holds inside the engine) stays behind, so later
// cases are likely to block too and get a short limit, then are not run at all.
var hangs int32

func hangLimit() time.Duration {
	switch n := atomic.LoadInt32(&hangs); {
	case n == 0:
		return 3 * time.Second
	case n < 4:
		return 300 * time.Millisecond
	default:
		return 0
	}
}

func bounded(f func() string) (string, bool) {
	lim := hangLimit()
	if lim == 0 {
		return "", false
	}
	ch := make(chan string, 1)
	go func() {
		defer func() {
			if r := recover(); r != nil {
				ch <- "panic " + proto.Enc(fmt.Sprint(r))
			}
		}()
		ch <- f()
	}()
	select {
	case v := <-ch:
		return v, true
	case <-time.After(lim):
		atomic.AddInt32(&hangs, 1)
		return "", false
	}
}

func fillStuck(outs []string) []string {
	for i := range outs {
		if outs[i] == "" {
			outs[i] = "stuck:not-reached"
		}
	}
	return outs
}

func execWiring(c proto.Case, o *proto.Out) []string {
	outs := make([]string, len(c.Ops))
	dir, err := os.MkdirTemp("", "verif-c20-")
	must(err)
	defer os.RemoveAll(dir)
	if !mockClockSet {
		// NewTxnPoliciesAccessor / the scheduled un-manage goroutines take the context manager's clock: a mock
		// that is never advanced keeps them parked
		contextmanager.Get().SetMockClock()
		mockClockSet = true
	}
	tr := &transport{}
	prevT := http.DefaultClient.Transport
	http.DefaultClient.Transport = tr
	defer func() { http.DefaultClient.Transport = prevT }()
	os.Setenv("LUNAR_PROXY_POLICIES_CONFIG", filepath.Join(dir, "policies.yaml"))
	os.Setenv("LUNAR_PROXY_CONFIG_DIR", dir)
	w := &wworld{dir: dir, tr: tr}

	w0 := strings.Fields(c.Ops[0])
	// ---- wcfg: environment, accessor, construction
	build := func() string {
		for _, k := range []string{"interval", "n", "period", "cooldown", "rate", "max"} {
			v, ok := proto.KV(w0, k)
			if !ok {
				return "bad-op"
			}
			os.Setenv(envNames[k], proto.Dec(v))
		}
		t0s, ok := proto.KV(w0, "t0")
		t0, err := strconv.ParseInt(t0s, 10, 64)
		if !ok || err != nil || t0 < 0 {
			return "bad-op"
		}
		accS, ok := proto.KV(w0, "acc")
		if !ok {
			return "bad-op"
		}
		if accS != "none" {
			p, ok := parsePol(accS)
			if !ok {
				return "bad-op"
			}
			must(os.WriteFile(filepath.Join(dir, "policies.yaml"), []byte(p.yaml()), 0o644))
			br, err := config.BuildInitialFromFile()
			if err != nil {
				return "err:boot"
			}
			w.acc = br.Accessor
		}
		w.clk = detclock.NewAuto(t0)
		watch, err := failsafe.NewDiagnosisFailsafeStateChangeWatcher(w.acc, w.clk)
		if err != nil {
			return atoiClass(err)
		}
		w.watch = watch
		w.cfg = watcherConfig(watch)
		return fmt.Sprintf("ok n=%d period=%d interval=%d cooldown=%d %s", w.cfg.ConsecutiveN, int64(w.cfg.MinStablePeriod),
			int64(w.cfg.MinTimeBetweenCalls), int64(w.cfg.CooldownPeriod), w.inforce()) + tr.takeAdmin()
	}
	if hangLimit() == 0 {
		for i := range outs {
			outs[i] = "stuck:not-run-after-earlier-calls-never-returned"
		}
		return outs
	}
	var ok0 bool
	if outs[0], ok0 = bounded(build); !ok0 {
		outs[0] = "stuck:construction-did-not-return"
		o.Count("stuck")
		return fillStuck(outs)
	}
	o.Count("wcfg-" + strings.SplitN(outs[0], " ", 2)[0])

	if w.watch == nil {
		for i := 1; i < len(c.Ops); i++ {
			f := strings.Fields(c.Ops[i])
			switch {
			case len(f) == 0:
				outs[i] = "bad-op"
			case outs[0] == "bad-op":
				outs[i] = "bad-op"
			case f[0] == "obs":
				lat, err1 := strconv.ParseInt(kvOr(f, "lat", "x"), 10, 64)
				if _, ok := parseFetch(f); err1 != nil || lat < 0 || !ok {
					outs[i] = "bad-op"
				} else {
					outs[i] = "no-watcher"
				}
			default:
				var ok bool
				if outs[i], ok = bounded(func() string { return w.simpleOp(f) }); !ok {
					outs[i] = "stuck:op-did-not-return"
					o.Count("stuck")
					return fillStuck(outs)
				}
			}
		}
		return outs
	}

	// ---- the instrumented watcher
	type ev struct {
		t, rt            string
		healthy, fetched bool
		react            string
	}
	var evs = map[int]*ev{}
	cur := -1 // op index of the observation in flight
	pos := 1
	done := make(chan struct{})
	finishObs := func() {
		if cur >= 0 {
			e := evs[cur]
			outs[cur] = fmt.Sprintf("t=%s healthy=%d fetched=%d r=%s rt=%s %s", e.t, b2i(e.healthy), b2i(e.fetched), e.react, e.rt, w.inforce()) + tr.takeAdmin()
			if e.react != "none" {
				o.Count("w-reaction-" + e.react)
			}
			cur = -1
		}
	}
	// progress of the watcher's goroutine, watched by the main goroutine
	var prog, phase, opIdx int64 // phase: 0 loop, 1 reaction, 2 simple op (opIdx), 3 predicate
	enter := func(ph int64) { atomic.StoreInt64(&phase, ph); atomic.AddInt64(&prog, 1) }
	realPred, realTrue, realFalse := w.cfg.ObtainPredicate, w.cfg.OnChangeToTrue, w.cfg.OnChangeToFalse
	w.cfg.ObtainPredicate = func() bool {
		enter(0)
		finishObs()
		for pos < len(c.Ops) {
			i := pos
			pos++
			f := strings.Fields(c.Ops[i])
			if len(f) == 0 {
				outs[i] = "bad-op"
				continue
			}
			if f[0] != "obs" {
				atomic.StoreInt64(&opIdx, int64(i))
				enter(2)
				outs[i] = w.simpleOp(f)
				enter(0)
				continue
			}
			lat, err1 := strconv.ParseInt(kvOr(f, "lat", "x"), 10, 64)
			spec, ok := parseFetch(f)
			if err1 != nil || lat < 0 || !ok {
				outs[i] = "bad-op"
				continue
			}
			w.clk.Advance(time.Duration(lat))
			tr.takeAdmin()
			tr.cur = spec
			before := tr.fetches
			cur = i
			e := &ev{react: "none"}
			evs[i] = e
			enter(3)
			h := realPred()
			enter(0)
			tr.cur = nil
			e.t = exactNs(w.clk.Now())
			e.rt = e.t
			e.healthy = h
			e.fetched = tr.fetches != before
			cls := spec.cls
			if spec.kind == "status" && spec.status != 200 {
				cls = "non-200"
			}
			if !e.fetched {
				cls = "threshold-unreadable"
			}
			o.Count(fmt.Sprintf("w-obs-%s-healthy%d", cls, b2i(h)))
			return h
		}
		close(done)
		runtime.Goexit()
		return true
	}
	w.cfg.OnChangeToTrue = func() {
		if cur >= 0 {
			evs[cur].react = "healthy"
			evs[cur].rt = exactNs(w.clk.Now())
		}
		enter(1)
		realTrue()
		enter(0)
	}
	w.cfg.OnChangeToFalse = func() {
		if cur >= 0 {
			evs[cur].react = "unhealthy"
			evs[cur].rt = exactNs(w.clk.Now())
		}
		enter(1)
		realFalse()
		enter(0)
	}
	w.watch.RunInBackground()
	last, lastAt := int64(-1), time.Now()
wait:
	for {
		select {
		case <-done:
			break wait
		case <-time.After(20 * time.Millisecond):
			if p := atomic.LoadInt64(&prog); p != last {
				last, lastAt = p, time.Now()
			} else if time.Since(lastAt) > hangLimit() {
				// the watcher's goroutine is blocked inside the code under test
				atomic.AddInt32(&hangs, 1)
				o.Count("stuck")
				switch atomic.LoadInt64(&phase) {
				case 1:
					if cur >= 0 {
						outs[cur] = "stuck:reaction-did-not-return r=" + evs[cur].react
					}
				case 2:
					outs[atomic.LoadInt64(&opIdx)] = "stuck:op-did-not-return"
				case 3:
					if cur >= 0 {
						outs[cur] = "stuck:predicate-did-not-return"
					}
				}
				return fillStuck(outs)
			}
		}
	}
	finishObs()
	nt := false
	for _, e := range evs {
		if e.react != "none" || !e.healthy {
			nt = true
		}
	}
	if nt {
		o.NonTrivial(strings.Join(c.Ops, "|") + "#" + strings.Join(outs, "|"))
	}
	return outs
}

// exactNs prints a time as nanoseconds since the epoch without int64 overflow (a negative check interval makes
// the watcher wait ~292 years before its first check).
func exactNs(t time.Time) string {
	n := new(big.Int).Mul(big.NewInt(t.Unix()), big.NewInt(1_000_000_000))
	return n.Add(n, big.NewInt(int64(t.Nanosecond()))).String()
}

func kvOr(w []string, k, d string) string {
	if v, ok := proto.KV(w, k); ok {
		return v
	}
	return d
}

// ---------------------------------------------------------------- `dockerenv`: the shipped defaults

var dockerKeys = []string{"interval", "n", "period", "cooldown", "rate", "max"}

// dockerEnv reads the ENV DIAGNOSIS_FAILSAFE_* lines of proxy/Dockerfile of the tree under test.
func dockerEnv() string {
	repo := os.Getenv("VERIF_REPO")
	if repo == "" {
		repo = "/repo"
	}
	raw, err := os.ReadFile(filepath.Join(repo, "proxy", "Dockerfile"))
	if err != nil {
		return "err:no-dockerfile"
	}
	vals := map[string]string{}
	for _, l := range strings.Split(string(raw), "\n") {
		f := strings.Fields(l)
		if len(f) == 2 && f[0] == "ENV" {
			if kv := strings.SplitN(f[1], "=", 2); len(kv) == 2 {
				vals[kv[0]] = kv[1]
			}
		}
	}
	var out []string
	for _, k := range dockerKeys {
		v, ok := vals[envNames[k]]
		if !ok {
			out = append(out, k+"=unset")
		} else {
			out = append(out, k+"="+proto.Enc(v))
		}
	}
	return strings.Join(out, " ")
}
