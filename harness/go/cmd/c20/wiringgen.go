// Generators for the level-2 cases of C20 (see wiring.go for the op grammar).
package main

import (
	"fmt"
	"strings"

	"verif/harness/internal/prng"
	"verif/harness/internal/proto"
)

const ruleWiring = " | level 2 (wiring): environment strings x scripted HAProxy stats fetches (every error class, threshold boundaries) x " +
	"policies reloads / HAProxy admin refusals / manual reverts through the real NewDiagnosisFailsafeStateChangeWatcher and a real TxnPoliciesAccessor; " +
	"non-trivial = the predicate answered unhealthy at least once or a reaction fired; distinct by (ops, answers)"

// environment strings for the integer getters: valid, boundary and invalid ones
var envInts = []string{"0", "1", "2", "3", "5", "7", "300", "-1", "-3", "+2", "007", "9223372036", "9223372037",
	"9223372036854775807", "-9223372036854775808"}
var envBad = []string{"", "x", "1.5", " 1", "1 ", "1_0", "0x10", "+", "-", "9223372036854775808", "-9223372036854775809", "１"}

func enc(s string) string { return proto.Enc(s) }

func pickEnv(r *prng.R, small []string, badPct int) string {
	if r.Chance(badPct) {
		return prng.Pick(r, envBad)
	}
	if r.Chance(75) {
		return prng.Pick(r, small)
	}
	return prng.Pick(r, envInts)
}

type thrVals struct {
	rate, max   string
	rateV, maxV int64
	valid       bool
}

func genThr(r *prng.R, badPct int) thrVals {
	t := thrVals{valid: true}
	t.rateV = int64(prng.Pick(r, []int{0, 0, 0, 1, 3, -1}))
	t.maxV = int64(prng.Pick(r, []int{5, 5, 0, 1, 60, -1, 9223372035}))
	t.rate, t.max = fmt.Sprint(t.rateV), fmt.Sprint(t.maxV)
	if r.Chance(badPct) {
		t.valid = false
		if r.Bool() {
			t.rate = prng.Pick(r, envBad)
		} else {
			t.max = prng.Pick(r, envBad)
		}
	}
	return t
}

func row(px, sv, rate, last string, ragged int) string {
	return fmt.Sprintf("%s|%s|%s|%s|%d", enc(px), enc(sv), enc(rate), enc(last), ragged)
}

var nearMissNames = [][2]string{{"lunar", "FRONTEND"}, {"lunar ", "BACKEND"}, {"Lunar", "BACKEND"}, {"lunar", "backend"},
	{"lunar", "BACKEND "}, {"", ""}, {"BACKEND", "lunar"}, {"http-in", "BACKEND"}, {"lunar", "lunar"}}

func fillerRows(r *prng.R, n int) []string {
	var out []string
	for i := 0; i < n; i++ {
		nm := prng.Pick(r, nearMissNames)
		out = append(out, row(nm[0], nm[1], prng.Pick(r, []string{"0", "1", "", "12"}), prng.Pick(r, []string{"0", "3", "", "-1", "999"}), 0))
	}
	return out
}

func lay(r *prng.R) string { return prng.Pick(r, []string{"real", "real", "min", "rev"}) }

// a fetch whose evaluation answers `want` (true = healthy) by VALUES, aimed at the boundaries
func valueFetch(r *prng.R, t thrVals, want bool) string {
	var rate, last int64
	if want {
		rate = t.rateV
		last = t.maxV + int64(prng.Pick(r, []int{1, 1, 2, 100}))
	} else {
		switch r.Intn(4) {
		case 0: // boundary: exactly the maximum
			rate, last = t.rateV, t.maxV
		case 1:
			rate, last = t.rateV, t.maxV-1
		case 2:
			rate, last = t.rateV+int64(prng.Pick(r, []int{1, -1})), t.maxV+1
		default:
			rate, last = t.rateV+1, t.maxV
		}
		if last == -1 { // -1 means "no session": not evaluated
			last = t.maxV - 2
		}
	}
	rows := fillerRows(r, r.Intn(3))
	rows = append(rows, row("lunar", "BACKEND", fmt.Sprint(rate), fmt.Sprint(last), 0))
	if r.Chance(30) { // later rows never matter (first match wins) as long as they parse
		rows = append(rows, row("lunar", "BACKEND", fmt.Sprint(t.rateV+5), "0", 0))
		rows = append(rows, fillerRows(r, 1)...)
	}
	return fmt.Sprintf("http=200 hdr=1111 lay=%s rows=%s", lay(r), strings.Join(rows, ";"))
}

// a fetch of some error class (the predicate must answer healthy); the body, where there is one, would be
// judged UNHEALTHY if it were evaluated
func errorFetch(r *prng.R, t thrVals) string {
	bad := row("lunar", "BACKEND", fmt.Sprint(t.rateV+1), fmt.Sprint(t.maxV), 0)
	switch r.Intn(11) {
	case 0:
		return "http=err"
	case 1:
		return "http=bodyerr"
	case 2:
		return fmt.Sprintf("http=%d hdr=1111 lay=%s rows=%s", prng.Pick(r, []int{500, 503, 404, 201, 204, 301, 199}), lay(r), bad)
	case 3:
		return "http=200 junk=" + prng.Pick(r, []string{"empty", "html", "quote", "nohdr"})
	case 4: // a required column is missing
		return fmt.Sprintf("http=200 hdr=%s lay=%s rows=%s", prng.Pick(r, []string{"0111", "1011", "1101", "1110", "0000"}), lay(r), bad)
	case 5: // a bad record AFTER the row that would be evaluated
		tail := prng.Pick(r, []string{row("a", "b", "x", "1", 0), row("a", "b", "1", "1.5", 0), row("a", "b", "1", "1", 1),
			row("a", "b", "1", "1", 2), row("a", "b", " 1", "1", 0), row("a", "b", "1", "99999999999999999999", 0)})
		return fmt.Sprintf("http=200 hdr=1111 lay=%s rows=%s;%s", lay(r), bad, tail)
	case 6: // no SPOE backend row
		return fmt.Sprintf("http=200 hdr=1111 lay=%s rows=%s", lay(r), strings.Join(fillerRows(r, r.Intn(4)), ";"))
	case 7: // row without rate
		return fmt.Sprintf("http=200 hdr=1111 lay=%s rows=%s", lay(r), row("lunar", "BACKEND", "", fmt.Sprint(t.maxV), 0))
	case 8: // row without lastsess
		return fmt.Sprintf("http=200 hdr=1111 lay=%s rows=%s", lay(r), row("lunar", "BACKEND", fmt.Sprint(t.rateV+1), "", 0))
	case 9: // lastsess = -1: no session established yet
		return fmt.Sprintf("http=200 hdr=1111 lay=%s rows=%s", lay(r), row("lunar", "BACKEND", fmt.Sprint(t.rateV+1), "-1", 0))
	default: // the evaluated row itself is malformed
		return fmt.Sprintf("http=200 hdr=1111 lay=%s rows=%s", lay(r),
			row("lunar", "BACKEND", prng.Pick(r, []string{"0x0", "zero", "0 ", "1e3"}), fmt.Sprint(t.maxV), 0))
	}
}

// odd but legal value spellings / overflowing magnitudes (the model decides what they mean)
func oddFetch(r *prng.R, t thrVals) string {
	rate := prng.Pick(r, []string{fmt.Sprint(t.rateV), "+" + fmt.Sprint(abs(t.rateV)), "00" + fmt.Sprint(abs(t.rateV)), "-0", "9223372036854775807"})
	last := prng.Pick(r, []string{"9223372036", "9223372037", "18446744073", "18446744074", "-2", "-9223372037", "+6", "006",
		"9223372036854775807", fmt.Sprint(t.maxV + 1)})
	return fmt.Sprintf("http=200 hdr=1111 lay=%s rows=%s", lay(r), row("lunar", "BACKEND", rate, last, 0))
}

func abs(x int64) int64 {
	if x < 0 {
		return -x
	}
	return x
}

func genPol(r *prng.R, k int) string {
	return fmt.Sprintf("%d.%d.%d.%d", k, b2i(r.Chance(70)), b2i(r.Chance(50)), b2i(r.Chance(35)))
}

func obsLine(r *prng.R, fetch string) string {
	lat := int64(0)
	if r.Chance(20) {
		lat = prng.Pick(r, []int64{1, 999_999_999, 1_000_000_000, 1_000_000_001, 2_500_000_000})
	}
	return fmt.Sprintf("obs lat=%d %s", lat, fetch)
}

func genWiringCase(rr *prng.R, id string) proto.Case {
	family := rr.Intn(10) // 0-3 predicate, 4-5 configuration, 6-9 reactions
	t0 := 1_700_000_000_000_000_000 + int64(rr.Intn(1_000_000_000))
	var ops []string
	switch {
	case family <= 3:
		th := genThr(rr, 8)
		ops = append(ops, fmt.Sprintf("wcfg interval=%s n=%s period=%s cooldown=%s rate=%s max=%s t0=%d acc=none",
			enc(prng.Pick(rr, []string{"0", "1", "2"})), enc(prng.Pick(rr, []string{"0", "1", "2", "3"})), enc(prng.Pick(rr, []string{"0", "1", "3"})),
			enc(prng.Pick(rr, []string{"0", "2", "5"})), enc(th.rate), enc(th.max), t0))
		ln := rr.Range(4, 40)
		want := rr.Bool()
		for len(ops) <= ln {
			run := rr.Range(1, 5)
			for j := 0; j < run && len(ops) <= ln; j++ {
				if rr.Chance(7) {
					th = genThr(rr, 35)
					ops = append(ops, fmt.Sprintf("thr rate=%s max=%s", enc(th.rate), enc(th.max)))
				}
				switch {
				case rr.Chance(8):
					ops = append(ops, obsLine(rr, oddFetch(rr, th)))
				case want && rr.Chance(45):
					ops = append(ops, obsLine(rr, errorFetch(rr, th)))
				default:
					ops = append(ops, obsLine(rr, valueFetch(rr, th, want)))
				}
			}
			want = !want
		}
	case family <= 5:
		th := genThr(rr, 15)
		small := []string{"0", "1", "2"}
		acc := "none"
		if rr.Chance(30) {
			acc = genPol(rr, 1)
		}
		ops = append(ops, fmt.Sprintf("wcfg interval=%s n=%s period=%s cooldown=%s rate=%s max=%s t0=%d acc=%s",
			enc(pickEnv(rr, small, 10)), enc(pickEnv(rr, []string{"0", "1", "2", "3", "-1"}, 10)), enc(pickEnv(rr, small, 10)),
			enc(pickEnv(rr, small, 10)), enc(th.rate), enc(th.max), t0, acc))
		ln := rr.Range(2, 16)
		want := false
		for len(ops) <= ln {
			run := rr.Range(1, 4)
			for j := 0; j < run && len(ops) <= ln; j++ {
				ops = append(ops, obsLine(rr, valueFetch(rr, th, want)))
			}
			want = !want
		}
		if rr.Chance(20) {
			ops = append(ops, "reload")
		}
	default:
		th := thrVals{rate: "0", max: "5", rateV: 0, maxV: 5, valid: true}
		ver := 1
		ops = append(ops, fmt.Sprintf("wcfg interval=%s n=%s period=%s cooldown=%s rate=0 max=5 t0=%d acc=%s",
			prng.Pick(rr, []string{"0", "1"}), prng.Pick(rr, []string{"0", "1", "2", "2", "3"}), prng.Pick(rr, []string{"0", "0", "1", "2"}),
			prng.Pick(rr, []string{"0", "0", "1", "3"}), t0, genPol(rr, ver)))
		ln := rr.Range(6, 45)
		want := rr.Chance(30)
		for len(ops) <= ln {
			run := rr.Range(1, 5)
			if rr.Chance(10) {
				run = 1
			}
			for j := 0; j < run && len(ops) <= ln; j++ {
				switch x := rr.Intn(100); {
				case x < 9:
					ver++
					switch {
					case rr.Chance(10):
						ops = append(ops, "write bad")
					case rr.Chance(4):
						ops = append(ops, "write none")
					default:
						ops = append(ops, "write "+genPol(rr, ver))
					}
					if rr.Chance(85) {
						ops = append(ops, "reload")
					}
				case x < 12:
					ops = append(ops, "reload")
				case x < 16:
					ops = append(ops, "admin "+prng.Pick(rr, []string{"fail", "ok", "ok"}))
				case x < 19:
					ops = append(ops, "revert "+prng.Pick(rr, []string{"free", "last"}))
				}
				if want && rr.Chance(25) {
					ops = append(ops, obsLine(rr, errorFetch(rr, th)))
				} else {
					ops = append(ops, obsLine(rr, valueFetch(rr, th, want)))
				}
			}
			want = !want
		}
	}
	if rr.Chance(3) { // malformed stream
		bad := []string{"obs lat=0", "obs lat=0 http=200", "obs lat=0 http=99 junk=html", "obs lat=x http=err", "obs lat=0 http=200 junk=what",
			"obs lat=0 http=200 hdr=111 lay=real", "obs lat=0 http=200 hdr=1111 lay=weird", "obs lat=0 http=200 hdr=1111 lay=min rows=a|b|c",
			"obs lat=0 http=200 hdr=1111 lay=min rows=a|b|1|2|7", "obs lat=0 http=200 hdr=1111 lay=min rows=a%2Cb|b|1|2|0", "write 1.2.0.0", "write",
			"revert", "revert both", "admin maybe", "thr rate=0", "frobnicate", "wcfg interval=1", "obs v=1 lat=0", "reload now"}
		at := 1 + rr.Intn(len(ops))
		ops = append(ops[:at], append([]string{prng.Pick(rr, bad)}, ops[at:]...)...)
	}
	return proto.Case{ID: id, Ops: ops}
}

// directed cases: the known contradictions and the lead's questions, always generated
func directedWiring() []proto.Case {
	H := "obs lat=0 http=200 hdr=1111 lay=real rows=lunar|BACKEND|0|6|0"
	U := "obs lat=0 http=200 hdr=1111 lay=real rows=lunar|BACKEND|0|5|0"
	E := "obs lat=0 http=err"
	mk := func(id, cfg string, ops ...string) proto.Case {
		return proto.Case{ID: id, Ops: append([]string{cfg}, ops...)}
	}
	cfg := func(acc string) string {
		return "wcfg interval=1 n=2 period=0 cooldown=3 rate=0 max=5 t0=1700000000000000000 acc=" + acc
	}
	return []proto.Case{
		mk("d-docker", "wcfg interval=1 n=5 period=7 cooldown=300 rate=0 max=5 t0=1700000000000000000 acc=none", "dockerenv", U, U, U, U, U, U, U, U, U, H, H, H, H, H, H, H, H, H),
		mk("d-cycle", cfg("1.1.1.0"), H, U, U, U, H, H, H),
		// two full episodes (the second `unhealthy` reaction is the third call of the immediate un-manage path), for
		// every shape of plugins: global diagnosis as the only reason for manage-all + endpoint remedy, endpoint
		// diagnosis with / without a remedy on the same endpoint, nothing to un-manage at all
		mk("d-two-episodes-g-r", cfg("1.1.0.1"), U, U, H, H, U, U, H, H, U, U),
		mk("d-two-episodes-g-e", cfg("1.1.1.0"), U, U, H, H, U, U, H, H, U, U),
		mk("d-two-episodes-e-r", cfg("1.0.1.1"), U, U, H, H, U, U, H, H, U, U),
		mk("d-two-episodes-e", cfg("1.0.1.0"), U, U, H, H, U, U, H, H, U, U),
		mk("d-two-episodes-g", cfg("1.1.0.0"), U, U, H, H, U, U, H, H, U, U),
		mk("d-two-episodes-all", cfg("1.1.1.1"), U, U, H, H, "write 2.1.0.1", "reload", U, U, H, H, U, U),
		mk("d-two-episodes-none", cfg("1.0.0.0"), U, U, H, H, U, U, H, H),
		mk("d-two-episodes-admin-refuses", cfg("1.1.1.1"), "admin fail", U, U, H, H, "admin ok", U, U, "admin fail", H, H, "revert free", "revert last"),
		mk("d-two-reloads", cfg("1.1.1.0"), "write 2.1.0.0", "reload", "write 3.0.1.1", "reload", U, U, U, H, H),
		mk("d-reload-while-unhealthy", cfg("1.1.1.0"), U, U, "write 2.1.1.0", "reload", U, H, H),
		mk("d-failed-unhealthy-revert", cfg("1.1.0.1"), "admin fail", U, U, "admin ok", U, U, H, H),
		mk("d-failed-healthy-revert", cfg("1.1.0.1"), U, U, "admin fail", H, H, "admin ok", H, H, U, U, H, H),
		mk("d-refused-reload-then-revert", cfg("1.1.0.0"), "admin fail", "write 2.0.1.1", "reload", "admin ok", U, U, H, H),
		mk("d-all-errors", cfg("1.1.1.0"), E, "obs lat=0 http=bodyerr", "obs lat=0 http=503 hdr=1111 lay=real rows=lunar|BACKEND|1|0|0",
			"obs lat=0 http=200 junk=empty", "obs lat=0 http=200 hdr=1101 lay=real rows=lunar|BACKEND|1|0|0", E, E, E),
		mk("d-thr-broken", cfg("none"), "thr rate=x max=5", U, U, U, "thr rate=0 max=%e", U, U, "thr rate=0 max=5", U, U),
		mk("d-no-accessor", cfg("none"), U, U, U, "reload", "revert free", H, H),
		mk("d-ctor-order", "wcfg interval=a n=b period=c cooldown=d rate=0 max=5 t0=1 acc=none", U),
		mk("d-ctor-order2", "wcfg interval=1 n=b period=c cooldown=d rate=0 max=5 t0=1 acc=1.1.1.1", U, "reload", "revert free"),
		mk("d-ctor-order3", "wcfg interval=1 n=2 period=c cooldown=99999999999999999999 rate=0 max=5 t0=1 acc=none", U),
		mk("d-ctor-order4", "wcfg interval=1 n=2 period=3 cooldown=99999999999999999999 rate=0 max=5 t0=1 acc=none", U),
		mk("d-ctor-empty", "wcfg interval=%e n=%e period=%e cooldown=%e rate=%e max=%e t0=1 acc=none", U),
		mk("d-zero", "wcfg interval=0 n=0 period=0 cooldown=0 rate=0 max=0 t0=1 acc=1.1.0.0", "obs lat=0 http=200 hdr=1111 lay=min rows=lunar|BACKEND|0|0|0",
			"obs lat=0 http=200 hdr=1111 lay=min rows=lunar|BACKEND|0|0|0", "obs lat=0 http=200 hdr=1111 lay=min rows=lunar|BACKEND|0|1|0",
			"obs lat=0 http=200 hdr=1111 lay=min rows=lunar|BACKEND|0|1|0"),
		mk("d-negative", "wcfg interval=-1 n=-5 period=-7 cooldown=-300 rate=-1 max=-3 t0=1 acc=none",
			"obs lat=0 http=200 hdr=1111 lay=min rows=lunar|BACKEND|-1|-3|0", "obs lat=0 http=200 hdr=1111 lay=min rows=lunar|BACKEND|-1|-3|0",
			"obs lat=0 http=200 hdr=1111 lay=min rows=lunar|BACKEND|-1|-2|0", "obs lat=0 http=200 hdr=1111 lay=min rows=lunar|BACKEND|-1|-2|0"),
		mk("d-overflow", "wcfg interval=9223372037 n=1 period=18446744074 cooldown=9223372036 rate=0 max=9223372036 t0=1 acc=none",
			"obs lat=0 http=200 hdr=1111 lay=min rows=lunar|BACKEND|0|9223372037|0", "obs lat=0 http=200 hdr=1111 lay=min rows=lunar|BACKEND|0|9223372037|0",
			"obs lat=0 http=200 hdr=1111 lay=min rows=lunar|BACKEND|0|9223372036|0"),
	}
}

func genWiring(r *prng.R, f proto.Flags, emit func(proto.Case)) {
	for _, c := range directedWiring() {
		emit(c)
	}
	n := 700
	if f.Tier == "thorough" {
		n = 8000
	}
	n *= f.Budget
	for k := 0; k < n; k++ {
		emit(genWiringCase(r.Fork(), fmt.Sprintf("w%d", k+1)))
	}
	if f.Tier == "thorough" {
		// every sequence of length 6 over {healthy, unhealthy, fetch error, reload of a new version, admin fail, admin ok}
		// around one accessor (N = 2, no stable period, no cool-down, no interval)
		H := "obs lat=0 http=200 hdr=1111 lay=min rows=lunar|BACKEND|0|6|0"
		U := "obs lat=0 http=200 hdr=1111 lay=min rows=lunar|BACKEND|0|5|0"
		E := "obs lat=0 http=200 junk=html"
		const L = 6
		total := 1
		for i := 0; i < L; i++ {
			total *= 6
		}
		for m := 0; m < total; m++ {
			ops := []string{"wcfg interval=0 n=2 period=0 cooldown=0 rate=0 max=5 t0=1700000000000000000 acc=1.1.0.1"}
			x := m
			ver := 1
			for i := 0; i < L; i++ {
				switch x % 6 {
				case 0:
					ops = append(ops, H)
				case 1:
					ops = append(ops, U)
				case 2:
					ops = append(ops, E)
				case 3:
					ver++
					ops = append(ops, fmt.Sprintf("write %d.1.%d.1", ver, ver%2), "reload")
				case 4:
					ops = append(ops, "admin fail")
				case 5:
					ops = append(ops, "admin ok")
				}
				x /= 6
			}
			ops = append(ops, U, U, H, H)
			emit(proto.Case{ID: fmt.Sprintf("we%d", m+1), Ops: ops})
		}
	}
}
