// Real-clock cases of the C20 harness: the level-1 script (`cfg … clock=real`, `obs v= lat=0`) driven through
// the real StateChangeWatcher on the PRODUCTION clock (toolkit-core clock.NewRealClock(), the clock
// handling_data_manager.go hands to the diagnosis fail-safe) instead of the virtual one.
//
// Instants are measured by the harness itself (time.Since on Go's monotonic clock, relative to the start of
// the case, so t0 must be 0) and canonicalised: every configured duration of such a case is a multiple of
// realQuantum; a measured instant whose excess over the previous multiple is below realSlack is printed as that
// multiple, anything else raw.  An event that comes EARLY (a wait that was cut short) therefore keeps an instant
// below the model's, and the judge sees it (observation during the cool-down, stability span too short); an
// event later than the slack shows as a correspondence difference only.
package main

import (
	"fmt"
	"runtime"
	"strings"
	"sync"
	"time"

	"lunar/engine/failsafe"
	"lunar/toolkit-core/clock"

	"github.com/rs/zerolog"

	"verif/harness/internal/proto"
)

const (
	realQuantum = 500 * time.Millisecond
	realSlack   = 450 * time.Millisecond
)

func snap(d time.Duration) int64 {
	if d%realQuantum < realSlack {
		return int64(d - d%realQuantum)
	}
	return int64(d)
}

func isRealCase(c proto.Case) bool {
	if len(c.Ops) == 0 {
		return false
	}
	w := strings.Fields(c.Ops[0])
	v, ok := proto.KV(w, "clock")
	return len(w) > 0 && w[0] == "cfg" && ok && v == "real"
}

// results of real-clock cases started ahead of time by the generator (they run beside the other cases)
var realFutures sync.Map // key: joined ops -> chan []string

func startReal(c proto.Case) {
	ch := make(chan []string, 1)
	realFutures.Store(strings.Join(c.Ops, "\n"), ch)
	go func() { ch <- runReal(c) }()
}

func execReal(c proto.Case, o *proto.Out) []string {
	var outs []string
	if f, ok := realFutures.LoadAndDelete(strings.Join(c.Ops, "\n")); ok {
		outs = <-f.(chan []string)
	} else {
		outs = runReal(c)
	}
	for _, l := range outs {
		if strings.Contains(l, "r=healthy") || strings.Contains(l, "r=unhealthy") {
			o.Count("real-clock-reaction")
			o.NonTrivial(strings.Join(c.Ops, "|") + "#" + strings.Join(outs, "|"))
		}
	}
	return outs
}

func runReal(c proto.Case) []string {
	outs := make([]string, len(c.Ops))
	var cfg failsafe.Config
	var script []bool
	var idx []int
	valid := false
	for i, op := range c.Ops {
		w := strings.Fields(op)
		switch {
		case i == 0:
			cfg.ConsecutiveN = int(kvI(w, "n"))
			cfg.MinStablePeriod = time.Duration(kvI(w, "period"))
			cfg.MinTimeBetweenCalls = time.Duration(kvI(w, "interval"))
			cfg.CooldownPeriod = time.Duration(kvI(w, "cooldown"))
			valid = kvI(w, "t0") == 0 && cfg.MinStablePeriod%realQuantum == 0 && cfg.MinTimeBetweenCalls%realQuantum == 0 &&
				cfg.CooldownPeriod%realQuantum == 0 && cfg.MinStablePeriod >= 0 && cfg.MinTimeBetweenCalls >= 0 && cfg.CooldownPeriod >= 0
			outs[i] = "ok"
		case len(w) > 0 && w[0] == "obs" && valid && kvI(w, "lat") == 0:
			script = append(script, kvI(w, "v") != 0)
			idx = append(idx, i)
		default:
			outs[i] = "bad-op"
		}
	}
	if !valid {
		// the model (level 1) would answer these lines on a virtual clock; a real-clock case must use t0=0, lat=0
		// and durations on the quantum grid - the generator never emits anything else
		for i := 1; i < len(outs); i++ {
			outs[i] = "bad-real-clock-case"
		}
		return outs
	}
	type ev struct {
		t, rt int64
		react string
	}
	evs := make([]ev, len(script))
	pos, cur := 0, -1
	done := make(chan struct{})
	start := time.Now()
	cfg.ObtainPredicate = func() bool {
		if pos >= len(script) {
			close(done)
			runtime.Goexit()
		}
		cur = pos
		t := snap(time.Since(start))
		evs[cur] = ev{t: t, rt: t, react: "none"}
		pos++
		return script[cur]
	}
	cfg.OnChangeToTrue = func() { evs[cur].react = "healthy"; evs[cur].rt = snap(time.Since(start)) }
	cfg.OnChangeToFalse = func() { evs[cur].react = "unhealthy"; evs[cur].rt = snap(time.Since(start)) }
	w := failsafe.NewStateChangeWatcher("verif-real-clock", cfg, clock.NewRealClock(), zerolog.Nop())
	w.RunInBackground()
	<-done
	for k, e := range evs {
		outs[idx[k]] = fmt.Sprintf("t=%d r=%s rt=%d", e.t, e.react, e.rt)
	}
	return outs
}

// realCases: the production clock probed at several magnitudes of the cool-down (the only wait a fail-safe with
// interval 0 takes), the link recovering at once so that `healthy again` becomes stable right after the wait.
func realCases(tier string) []proto.Case {
	cools := []int64{500_000_000, 1_500_000_000, 10_500_000_000}
	if tier == "thorough" {
		cools = append(cools, 3_500_000_000, 12_000_000_000, 20_500_000_000)
	}
	var cs []proto.Case
	for _, cd := range cools {
		cs = append(cs, proto.Case{ID: fmt.Sprintf("real-cooldown-%dms", cd/1_000_000), Ops: []string{
			fmt.Sprintf("cfg n=2 period=0 interval=0 cooldown=%d t0=0 clock=real", cd),
			"obs v=0 lat=0", "obs v=0 lat=0", "obs v=1 lat=0", "obs v=1 lat=0", "obs v=1 lat=0"}})
	}
	// a stable period and a check interval on the real clock (After), short
	cs = append(cs, proto.Case{ID: "real-period-interval", Ops: []string{
		"cfg n=2 period=1000000000 interval=500000000 cooldown=500000000 t0=0 clock=real",
		"obs v=0 lat=0", "obs v=0 lat=0", "obs v=0 lat=0", "obs v=0 lat=0", "obs v=1 lat=0", "obs v=1 lat=0", "obs v=1 lat=0", "obs v=1 lat=0"}})
	return cs
}
