// Harness for C20: drives the real failsafe.StateChangeWatcher with a scripted predicate on a
// deterministic single-goroutine clock and logs (observation instant, reaction, reaction instant).
package main

import (
	"fmt"
	"runtime"
	"strconv"
	"strings"
	"time"

	"lunar/engine/failsafe"

	"github.com/rs/zerolog"

	"verif/harness/internal/detclock"
	"verif/harness/internal/prng"
	"verif/harness/internal/proto"
)

const rule = "random/enumerated boolean observation sequences x settings (N, period, interval, cool-down, latencies); " +
	"non-trivial = at least one reaction fired; distinct by (settings, observations, reactions)"

type obs struct {
	v   bool
	lat time.Duration
}

func kvI(w []string, k string) int64 {
	s, ok := proto.KV(w, k)
	if !ok {
		panic("missing " + k)
	}
	n, err := strconv.ParseInt(s, 10, 64)
	if err != nil {
		panic(err)
	}
	return n
}

func exec(c proto.Case, o *proto.Out) []string {
	if len(c.Ops) > 0 && strings.HasPrefix(c.Ops[0], "wcfg ") {
		return execWiring(c, o) // level 2, wiring.go
	}
	if isRealCase(c) {
		return execReal(c, o) // production clock, realclock.go
	}
	outs := make([]string, len(c.Ops))
	var cfg failsafe.Config
	var t0 int64
	var script []obs
	var idx []int
	for i, op := range c.Ops {
		w := strings.Fields(op)
		switch w[0] {
		case "cfg":
			cfg.ConsecutiveN = int(kvI(w, "n"))
			cfg.MinStablePeriod = time.Duration(kvI(w, "period"))
			cfg.MinTimeBetweenCalls = time.Duration(kvI(w, "interval"))
			cfg.CooldownPeriod = time.Duration(kvI(w, "cooldown"))
			t0 = kvI(w, "t0")
			outs[i] = "ok"
		case "obs":
			script = append(script, obs{v: kvI(w, "v") != 0, lat: time.Duration(kvI(w, "lat"))})
			idx = append(idx, i)
		default:
			outs[i] = "bad-op"
		}
	}
	clk := detclock.NewAuto(t0)
	type ev struct {
		t     int64
		react string
		rt    int64
	}
	evs := make([]ev, len(script))
	pos := 0
	done := make(chan struct{})
	cur := -1
	cfg.ObtainPredicate = func() bool {
		if pos >= len(script) {
			close(done)
			runtime.Goexit()
		}
		s := script[pos]
		clk.Advance(s.lat)
		cur = pos
		evs[cur] = ev{t: clk.Now().UnixNano(), react: "none"}
		evs[cur].rt = evs[cur].t
		pos++
		return s.v
	}
	cfg.OnChangeToTrue = func() { evs[cur].react = "healthy"; evs[cur].rt = clk.Now().UnixNano() }
	cfg.OnChangeToFalse = func() { evs[cur].react = "unhealthy"; evs[cur].rt = clk.Now().UnixNano() }
	w := failsafe.NewStateChangeWatcher("verif", cfg, clk, zerolog.Nop())
	w.RunInBackground()
	<-done
	reacted := false
	for k, e := range evs {
		outs[idx[k]] = fmt.Sprintf("t=%d r=%s rt=%d", e.t, e.react, e.rt)
		if e.react != "none" {
			reacted = true
			o.Count("reaction-" + e.react)
		}
	}
	if reacted {
		o.NonTrivial(strings.Join(c.Ops, "|") + "#" + strings.Join(outs, "|"))
	}
	return outs
}

var durs = []int64{0, 1, 999_999_999, 1_000_000_000, 1_000_000_001, 3_000_000_000, 10_000_000_000}

func genCfg(r *prng.R) string {
	n := r.Range(-1, 5)
	return fmt.Sprintf("cfg n=%d period=%d interval=%d cooldown=%d t0=%d", n, prng.Pick(r, durs), prng.Pick(r, durs),
		prng.Pick(r, durs), 1_700_000_000_000_000_000+int64(r.Intn(1_000_000_000)))
}

func genLat(r *prng.R) int64 {
	switch r.Intn(6) {
	case 0:
		return int64(r.Intn(2_000_000_000))
	case 1:
		return prng.Pick(r, durs)
	default:
		return 0
	}
}

func gen(r *prng.R, f proto.Flags, emit func(proto.Case)) {
	n := 1000
	if f.Tier == "thorough" {
		n = 20000
	}
	n *= f.Budget
	id := 0
	for k := 0; k < n; k++ {
		rr := r.Fork()
		ops := []string{genCfg(rr)}
		ln := rr.Range(1, 60)
		v := rr.Bool()
		for len(ops) <= ln {
			// run-structured: runs of equal observations of length 1..7, sometimes pure flapping
			run := rr.Range(1, 7)
			if rr.Chance(15) {
				run = 1
			}
			for j := 0; j < run && len(ops) <= ln; j++ {
				ops = append(ops, fmt.Sprintf("obs v=%d lat=%d", b2i(v), genLat(rr)))
			}
			v = !v
		}
		id++
		emit(proto.Case{ID: fmt.Sprintf("g%d", id), Ops: ops})
	}
	if f.Tier == "thorough" {
		// every boolean sequence of length 12 for a grid of settings (zero latency)
		for _, nn := range []int{0, 1, 2, 3} {
			for _, per := range []int64{0, 2_000_000_000} {
				for _, cd := range []int64{0, 3_000_000_000} {
					for m := 0; m < 4096; m++ {
						ops := []string{fmt.Sprintf("cfg n=%d period=%d interval=1000000000 cooldown=%d t0=1700000000000000000", nn, per, cd)}
						for b := 0; b < 12; b++ {
							ops = append(ops, fmt.Sprintf("obs v=%d lat=0", (m>>b)&1))
						}
						id++
						emit(proto.Case{ID: fmt.Sprintf("e%d", id), Ops: ops})
					}
				}
			}
		}
	}
}

func genAll(r *prng.R, f proto.Flags, emit func(proto.Case)) {
	// the real-clock cases take real seconds: they run beside everything else and are collected at the end
	rc := realCases(f.Tier)
	for _, c := range rc {
		startReal(c)
	}
	gen(r, f, emit)
	genWiring(r, f, emit) // level 2, wiringgen.go
	for _, c := range rc {
		emit(c)
	}
}

func b2i(b bool) int {
	if b {
		return 1
	}
	return 0
}

func main() {
	zerolog.SetGlobalLevel(zerolog.Disabled)
	proto.Main(proto.Harness{Rule: rule + ruleWiring, Gen: genAll, Exec: exec})
}
