package main

// Flows mode, overlapping transactions: the real Retry processor on detclock.Manual, each Execute in
// its own goroutine; a transaction whose cool-down is > 0 stays parked in `<-Clock.After(d)` until the
// harness fires exactly its timer, while further transactions (of the same or other sequences) begin.

import (
	"fmt"
	"runtime"
	"sort"
	"time"

	"lunar/engine/actions"
	lunarMessages "lunar/engine/messages"
	streamtypes "lunar/engine/streams/types"
)

type parkedTxn struct {
	id   string
	key  string
	due  int64
	reg  int
	done chan string
}

var regSeq int

func (fs *flowsState) findParked(id string) int {
	for i, t := range fs.parked {
		if t.id == id {
			return i
		}
	}
	return -1
}

func (fs *flowsState) exists(key string) int { return b2i(fs.lctx.GetFlowContext().Exists(key)) }

func (fs *flowsState) begin(p streamtypes.ProcessorI, key, seq, txn string) string {
	api := streamtypes.NewResponseAPIStream(lunarMessages.OnResponse{
		ID: txn, SequenceID: seq, Method: "GET", URL: "c17.example.com/x", Status: 500, Headers: map[string]string{},
	}, directShare)
	api.SetContext(fs.lctx)
	before := len(fs.mclk.Pending())
	done := make(chan string, 1)
	go func() {
		defer func() {
			if r := recover(); r != nil {
				done <- "panic"
			}
		}()
		io, err := p.Execute("c17flow", api)
		if err != nil {
			done <- "err:exec"
			return
		}
		_, retry := io.RespAction.(*actions.RetryRequestAction)
		done <- fmt.Sprintf("%s act=%d", io.Name, b2i(retry))
	}()
	deadline := time.Now().Add(2 * time.Second)
	for {
		select {
		case r := <-done:
			// finished without waiting (failed, or a zero cool-down)
			return fmt.Sprintf("%s wait=0 ctr=%d", r, fs.exists(key))
		default:
		}
		if pend := fs.mclk.Pending(); len(pend) > before {
			// parked: its timer is the newest registration
			regSeq++
			now := fs.mclk.Now().UnixNano()
			// the new waiter's due time: the one pending entry not accounted for by the parked list
			due := newDue(pend, fs.parked)
			fs.parked = append(fs.parked, &parkedTxn{id: txn, key: key, due: due, reg: regSeq, done: done})
			return fmt.Sprintf("parked wait=%d ctr=%d", due-now, fs.exists(key))
		}
		if time.Now().After(deadline) {
			return "err:stuck"
		}
		runtime.Gosched()
		time.Sleep(20 * time.Microsecond)
	}
}

// newDue: multiset difference between the clock's pending due times and those of the known parked transactions
func newDue(pend []int64, parked []*parkedTxn) int64 {
	cnt := map[int64]int{}
	for _, d := range pend {
		cnt[d]++
	}
	for _, t := range parked {
		cnt[t.due]--
	}
	for d, c := range cnt {
		if c > 0 {
			return d
		}
	}
	return 0
}

// finish fires exactly the timer of parked transaction i (index in the clock's order: due, then registration)
func (fs *flowsState) finish(i int) string {
	t := fs.parked[i]
	order := append([]*parkedTxn{}, fs.parked...)
	sort.SliceStable(order, func(a, b int) bool {
		if order[a].due != order[b].due {
			return order[a].due < order[b].due
		}
		return order[a].reg < order[b].reg
	})
	idx := 0
	for k, o := range order {
		if o == t {
			idx = k
		}
	}
	fs.parked = append(fs.parked[:i:i], fs.parked[i+1:]...)
	if !fs.mclk.FireIndex(idx) {
		return "err:no-timer"
	}
	select {
	case r := <-t.done:
		return fmt.Sprintf("%s ctr=%d", r, fs.exists(t.key))
	case <-time.After(2 * time.Second):
		return "err:stuck"
	}
}

// releaseAll ends every parked transaction (end of case)
func (fs *flowsState) releaseAll() {
	for len(fs.parked) > 0 {
		fs.finish(0)
	}
}
