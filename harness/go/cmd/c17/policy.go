package main

import (
	"fmt"
	"runtime"
	"sort"
	"strconv"
	"strings"
	"time"

	"lunar/engine/actions"
	lunarMessages "lunar/engine/messages"
	"lunar/engine/services/remedies"
	sharedConfig "lunar/shared-model/config"

	"verif/harness/internal/detclock"
	"verif/harness/internal/proto"
)

type policyState struct {
	clk         *detclock.Manual
	plugin      *remedies.RetryPlugin
	cfg         *sharedConfig.RetryConfig
	lastInRange bool
	settleMiss  int
}

// quiesce waits until every goroutine started by MemoryCache.Set has registered its Sleep on the
// manual clock and every fired one has finished clearKey and exited:
// (#goroutines - base) == #pending waiters, where base is taken at a quiescent point.
func (p *policyState) quiesce(base int) {
	deadline := time.Now().Add(2 * time.Second)
	for {
		if runtime.NumGoroutine()-base == len(p.clk.Pending()) {
			return
		}
		if time.Now().After(deadline) {
			p.settleMiss++
			return
		}
		runtime.Gosched()
		time.Sleep(20 * time.Microsecond)
	}
}

func (p *policyState) base() int { return runtime.NumGoroutine() - len(p.clk.Pending()) }

func (p *policyState) drain() {
	b := p.base()
	p.clk.Settle = func() {} // fire everything, then wait once for all sleepers to exit
	p.clk.Advance(1000000 * time.Second)
	p.quiesce(b)
}

func parseRanges(s string) ([]sharedConfig.Range[int], bool) {
	if s == "-" {
		return nil, true
	}
	var out []sharedConfig.Range[int]
	for _, part := range strings.Split(s, ",") {
		ft := strings.Split(part, "-")
		if len(ft) != 2 {
			return nil, false
		}
		f, e1 := strconv.Atoi(ft[0])
		t, e2 := strconv.Atoi(ft[1])
		if e1 != nil || e2 != nil {
			return nil, false
		}
		out = append(out, sharedConfig.Range[int]{From: f, To: t})
	}
	return out, true
}

func policyOp(st *caseState, w []string) string {
	switch w[0] {
	case "pcfg":
		att, ok1 := kvI(w, "attempts")
		cd, ok2 := kvI(w, "cooldown")
		mu, ok3 := kvI(w, "mult")
		rs, ok4 := kvS(w, "ranges")
		t0, ok5 := kvI(w, "t0")
		if !ok1 || !ok2 || !ok3 || !ok4 || !ok5 || st.po != nil || cd < 0 || mu < 0 || t0 < 0 {
			return "bad-op"
		}
		ranges, ok := parseRanges(rs)
		if !ok {
			return "bad-op"
		}
		p := &policyState{clk: detclock.NewManual(t0)}
		p.plugin = remedies.NewRetryPlugin(p.clk)
		p.cfg = &sharedConfig.RetryConfig{
			Attempts: int(att), InitialCooldownSeconds: int(cd), CooldownMultiplier: int(mu),
			Conditions: sharedConfig.RetryConfigConditions{StatusCode: ranges},
		}
		st.po = p
		return "ok"
	case "presp":
		p := st.po
		idE, ok1 := kvS(w, "id")
		sE, ok2 := kvS(w, "seq")
		status, ok3 := kvI(w, "status")
		if p == nil || !ok1 || !ok2 || !ok3 {
			return "bad-op"
		}
		p.lastInRange = false
		for _, r := range p.cfg.Conditions.StatusCode {
			if int(status) >= r.From && int(status) <= r.To {
				p.lastInRange = true
			}
		}
		b := p.base()
		act, err := p.plugin.OnResponse(lunarMessages.OnResponse{
			ID: proto.Dec(idE), SequenceID: proto.Dec(sE), Status: int(status), Method: "GET",
			URL: "c17.example.com/x", Headers: map[string]string{},
		}, p.cfg)
		p.quiesce(b)
		if err != nil {
			return "err:" + proto.Enc(err.Error())
		}
		switch a := act.(type) {
		case *actions.NoOpAction:
			return "noop"
		case *actions.ModifyResponseAction:
			keys := make([]string, 0, len(a.HeadersToSet))
			for k := range a.HeadersToSet {
				keys = append(keys, k)
			}
			sort.Strings(keys)
			if len(keys) == 1 && keys[0] == remedies.LunarRetryAfterHeaderName {
				return "retry after=" + proto.Enc(a.HeadersToSet[keys[0]])
			}
			return "other:headers=" + proto.Enc(strings.Join(keys, ","))
		}
		return fmt.Sprintf("other:%T", act)
	case "pbulk":
		// n fresh sequences <prefix>-<i>, one first response each (background load)
		p := st.po
		n, ok1 := kvI(w, "n")
		pre, ok2 := kvS(w, "prefix")
		status, ok3 := kvI(w, "status")
		if p == nil || !ok1 || !ok2 || !ok3 || n < 0 || n > 100000 {
			return "bad-op"
		}
		b := p.base()
		nr, nn := 0, 0
		for i := int64(0); i < n; i++ {
			id := fmt.Sprintf("%s-%d", proto.Dec(pre), i)
			act, err := p.plugin.OnResponse(lunarMessages.OnResponse{
				ID: id, SequenceID: id, Status: int(status), Method: "GET",
				URL: "c17.example.com/x", Headers: map[string]string{},
			}, p.cfg)
			if err != nil {
				return "err:" + proto.Enc(err.Error())
			}
			if _, ok := act.(*actions.NoOpAction); ok {
				nn++
			} else {
				nr++
			}
		}
		p.quiesce(b)
		return fmt.Sprintf("bulk retry=%d noop=%d", nr, nn)
	case "adv", "jump":
		p := st.po
		d, ok := kvI(w, "ns")
		if p == nil || !ok || d < 0 {
			return "bad-op"
		}
		if w[0] == "jump" {
			// time passes but the timer goroutines are scheduled late: nothing fires
			p.clk.SetNow(p.clk.Now().UnixNano() + d)
			return "ok"
		}
		b := p.base()
		p.clk.Settle = func() { p.quiesce(b) }
		p.clk.Advance(time.Duration(d))
		p.quiesce(b)
		return "ok"
	}
	return "bad-op"
}
