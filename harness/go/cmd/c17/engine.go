package main

// Flows mode through the REAL engine: a generated flow (status Filter -> Retry -> probes) loaded
// from YAML into a real streams.Stream; one response APIStream per `fx` op.

import (
	"fmt"
	"os"
	"path/filepath"
	"strings"
	"sync"

	"lunar/engine/actions"
	lunarMessages "lunar/engine/messages"
	"lunar/engine/streams"
	streamconfig "lunar/engine/streams/config"
	lunarcontext "lunar/engine/streams/lunar-context"
	publictypes "lunar/engine/streams/public-types"
	streamtypes "lunar/engine/streams/types"
	"lunar/engine/utils/environment"
	contextmanager "lunar/toolkit-core/context-manager"
)

const probeYAML = `name: Probe
description: verification probe (records that it ran and whether the retry counter exists)
exec: probe.go
parameters:
  tag:
    type: string
    description: tag
    required: true
output_streams:
  - type: StreamTypeAny
input_stream:
  type: StreamTypeAny
`

const flowTmpl = `name: c17flow

filter:
  url: "c17.example.com/*"

processors:
  F:
    processor: Filter
    parameters:
      - key: status_code_range
        value: "%d-%d"%s
  %s:
    processor: Retry
    parameters:
      - key: attempts
        value: %d
      - key: cooldown_between_attempts_seconds
        value: %d
      - key: cooldown_multiplier
        value: %s
  PM:
    processor: Probe
    parameters:
      - key: tag
        value: skip
  PR:
    processor: Probe
    parameters:
      - key: tag
        value: retry
  PF:
    processor: Probe
    parameters:
      - key: tag
        value: failed

flow:
  request:
    - from:
        stream:
          name: globalStream
          at: start
      to:
        stream:
          name: globalStream
          at: end
  response:
    - from:
        stream:
          name: globalStream
          at: start
      to:
        processor:
          name: F
    - from:
        processor:
          name: F
          condition: hit
      to:
        processor:
          name: %s
    - from:
        processor:
          name: F
          condition: miss
      to:
        processor:
          name: PM
    - from:
        processor:
          name: %s
          condition: retry
      to:
        processor:
          name: PR
    - from:
        processor:
          name: %s
          condition: failed
      to:
        processor:
          name: PF
    - from:
        processor:
          name: PM
      to:
        stream:
          name: globalStream
          at: end
    - from:
        processor:
          name: PR
      to:
        stream:
          name: globalStream
          at: end
    - from:
        processor:
          name: PF
      to:
        stream:
          name: globalStream
          at: end
`

// probe processor: appends its tag to the shared record of the current call
type probeRec struct {
	mu   sync.Mutex
	tags []string
	ctx  publictypes.ContextI // the flow context seen by the last probe execution
}

type probeProc struct {
	name string
	tag  string
	rec  *probeRec
}

func (p *probeProc) GetName() string { return p.name }
func (p *probeProc) GetRequirement() *streamtypes.ProcessorRequirement {
	return &streamtypes.ProcessorRequirement{}
}

func (p *probeProc) Execute(_ string, s publictypes.APIStreamI) (streamtypes.ProcessorIO, error) {
	p.rec.mu.Lock()
	p.rec.tags = append(p.rec.tags, p.tag)
	p.rec.ctx = s.GetContext().GetFlowContext()
	p.rec.mu.Unlock()
	return streamtypes.ProcessorIO{Type: s.GetType(), Name: ""}, nil
}

var (
	engineOnce  sync.Once
	engineShare publictypes.SharedStateI[[]byte]
	procDir     string
)

func repoRoot() string {
	if r := os.Getenv("VERIF_REPO"); r != "" {
		return r
	}
	return "/repo"
}

// engineGlobalSetup prepares what is process-global: mock clock, processors directory with the
// repo's own Retry and Filter definitions plus the probe definition.
func engineGlobalSetup(scratch string) {
	engineOnce.Do(func() {
		contextmanager.Get().SetMockClock()
		procDir = filepath.Join(scratch, "processors")
		must(os.MkdirAll(procDir, 0o755))
		reg := filepath.Join(repoRoot(), "proxy/src/services/lunar-engine/streams/processors/registry")
		for _, f := range []string{"retry_processor.yaml", "filter_processor.yaml"} {
			b, err := os.ReadFile(filepath.Join(reg, f))
			must(err)
			must(os.WriteFile(filepath.Join(procDir, f), b, 0o644))
		}
		must(os.WriteFile(filepath.Join(procDir, "probe.yaml"), []byte(probeYAML), 0o644))
		environment.SetProcessorsDirectory(procDir)
		engineShare = lunarcontext.NewMemoryState[[]byte]()
	})
}

type engineInst struct {
	stream *streams.Stream
	rec    *probeRec
	name   string
}

var engineSeq int

// newEngine writes the flow and builds + initialises a real Stream.  Returns the init error.
func newEngine(scratch, name string, attempts, cooldown int, mult string, lo, hi int, timeout int, method string) (*engineInst, error) {
	engineGlobalSetup(scratch)
	engineSeq++
	dir := filepath.Join(scratch, fmt.Sprintf("e%d", engineSeq))
	for _, d := range []string{"flows", "quotas", "path_params"} {
		must(os.MkdirAll(filepath.Join(dir, d), 0o755))
	}
	extra := ""
	if method != "" {
		// a second criterion next to the status range (the requests of the harness are GET)
		extra = "\n      - key: method\n        value: " + method
	}
	flow := fmt.Sprintf(flowTmpl, lo, hi, extra, name, attempts, cooldown, mult, name, name, name)
	must(os.WriteFile(filepath.Join(dir, "flows", "flow.yaml"), []byte(flow), 0o644))
	environment.SetStreamsFlowsDirectory(filepath.Join(dir, "flows"))
	os.Setenv("LUNAR_PROXY_QUOTAS_DIRECTORY", filepath.Join(dir, "quotas"))
	os.Setenv("LUNAR_FLOWS_PATH_PARAM_DIR", filepath.Join(dir, "path_params"))
	os.Setenv("LUNAR_FLOWS_PATH_PARAM_CONFIG", filepath.Join(dir, "path_params", "conf.yaml"))
	os.Setenv("LUNAR_RETRY_REQUEST_TIMEOUT_SEC", fmt.Sprint(timeout))
	defer os.RemoveAll(dir)
	st, err := streams.NewStream()
	if err != nil {
		return nil, err
	}
	rec := &probeRec{}
	st.VerifSetFactory("Probe", func(md *streamtypes.ProcessorMetaData) (streamtypes.ProcessorI, error) {
		tag := ""
		if p, ok := md.Parameters["tag"]; ok {
			tag = p.Value.GetString()
		}
		return &probeProc{name: md.Name, tag: tag, rec: rec}, nil
	})
	if err := st.Initialize(); err != nil {
		return nil, err
	}
	return &engineInst{stream: st, rec: rec, name: name}, nil
}

// respond sends one response API stream through the engine; returns (tag seen, retry action present, wait ns).
func (e *engineInst) respond(seq string, id string, status int) (string, bool, int64, error) {
	e.rec.mu.Lock()
	e.rec.tags = nil
	e.rec.mu.Unlock()
	api := streamtypes.NewResponseAPIStream(lunarMessages.OnResponse{
		ID: id, SequenceID: seq, Method: "GET", URL: "c17.example.com/x", Status: status,
		Headers: map[string]string{},
	}, engineShare)
	acts := &streamconfig.StreamActions{Request: &streamconfig.RequestStream{}, Response: &streamconfig.ResponseStream{}}
	clk := contextmanager.Get().GetClock()
	t0 := clk.Now()
	err := e.stream.ExecuteFlow(api, acts)
	wait := clk.Now().Sub(t0).Nanoseconds()
	if err != nil {
		return "", false, 0, err
	}
	retry := false
	for _, a := range acts.Response.Actions {
		if _, ok := a.(*actions.RetryRequestAction); ok {
			retry = true
		}
	}
	e.rec.mu.Lock()
	tags := strings.Join(e.rec.tags, "+")
	e.rec.mu.Unlock()
	if tags == "" {
		tags = "none"
	}
	return tags, retry, wait, nil
}

func (e *engineInst) counterExists(key string) bool {
	e.rec.mu.Lock()
	ctx := e.rec.ctx
	e.rec.mu.Unlock()
	if ctx == nil {
		return false
	}
	return ctx.Exists(key)
}

func must(err error) {
	if err != nil {
		panic(err)
	}
}
