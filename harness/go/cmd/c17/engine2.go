package main

// Flows mode through the REAL engine with TWO overlapping flows: flow A (filter host/*) and flow B
// (filter host/orders/items), each `status Filter -> Retry -> probes`, each Retry processor under
// its own key (the keys may be equal).  A response to host/orders/items is matched by both flows.
// Probe tags carry the flow letter; each probe remembers the flow context it was executed with.

import (
	"fmt"
	"os"
	"path/filepath"
	"sort"
	"strings"

	"lunar/engine/actions"
	lunarMessages "lunar/engine/messages"
	"lunar/engine/streams"
	streamconfig "lunar/engine/streams/config"
	publictypes "lunar/engine/streams/public-types"
	streamtypes "lunar/engine/streams/types"
	"lunar/engine/utils/environment"
	contextmanager "lunar/toolkit-core/context-manager"
)

const flow2Tmpl = `name: c17flow%[1]s

filter:
  url: "%[2]s"
%[7]s
processors:
  F%[1]s:
    processor: Filter
    parameters:
      - key: status_code_range
        value: "%[3]d-%[4]d"
  %[5]s:
    processor: Retry
    parameters:
      - key: attempts
        value: %[6]d
      - key: cooldown_between_attempts_seconds
        value: 0
      - key: cooldown_multiplier
        value: 0.00
  PM%[1]s:
    processor: Probe
    parameters:
      - key: tag
        value: "%[1]s:skip"
  PR%[1]s:
    processor: Probe
    parameters:
      - key: tag
        value: "%[1]s:retry"
  PF%[1]s:
    processor: Probe
    parameters:
      - key: tag
        value: "%[1]s:failed"

flow:
  request:
    - from:
        stream:
          name: globalStream
          at: start
      to:
        stream:
          name: globalStream
          at: end
  response:
    - from:
        stream:
          name: globalStream
          at: start
      to:
        processor:
          name: F%[1]s
    - from:
        processor:
          name: F%[1]s
          condition: hit
      to:
        processor:
          name: %[5]s
    - from:
        processor:
          name: F%[1]s
          condition: miss
      to:
        processor:
          name: PM%[1]s
    - from:
        processor:
          name: %[5]s
          condition: retry
      to:
        processor:
          name: PR%[1]s
    - from:
        processor:
          name: %[5]s
          condition: failed
      to:
        processor:
          name: PF%[1]s
    - from:
        processor:
          name: PM%[1]s
      to:
        stream:
          name: globalStream
          at: end
    - from:
        processor:
          name: PR%[1]s
      to:
        stream:
          name: globalStream
          at: end
    - from:
        processor:
          name: PF%[1]s
      to:
        stream:
          name: globalStream
          at: end
`

type flow2Spec struct {
	key      string
	attempts int
}

type probe2Rec struct {
	tags []string
	ctx  map[string]publictypes.ContextI // flow letter -> flow context its probes last ran with
}

type probe2Proc struct {
	name, tag string
	rec       *probe2Rec
}

func (p *probe2Proc) GetName() string { return p.name }
func (p *probe2Proc) GetRequirement() *streamtypes.ProcessorRequirement {
	return &streamtypes.ProcessorRequirement{}
}

func (p *probe2Proc) Execute(_ string, s publictypes.APIStreamI) (streamtypes.ProcessorIO, error) {
	p.rec.tags = append(p.rec.tags, p.tag)
	p.rec.ctx[p.tag[:1]] = s.GetContext().GetFlowContext()
	return streamtypes.ProcessorIO{Type: s.GetType(), Name: ""}, nil
}

type engine2Inst struct {
	stream *streams.Stream
	rec    *probe2Rec
	specs  map[string]flow2Spec
}

const (
	host2     = "c17b.example.com"
	urlFlowA  = host2 + "/*"
	urlFlowB  = host2 + "/orders/items"
	pathOther = host2 + "/invoices"
)

func newEngine2(scratch string, specs map[string]flow2Spec, lo, hi, timeout int, same bool, lists map[string][]int) (*engine2Inst, error) {
	engineGlobalSetup(scratch)
	engineSeq++
	dir := filepath.Join(scratch, fmt.Sprintf("e%d", engineSeq))
	for _, d := range []string{"flows", "quotas", "path_params"} {
		must(os.MkdirAll(filepath.Join(dir, d), 0o755))
	}
	urlB := urlFlowB
	if same {
		urlB = urlFlowA // both flows on ONE url pattern, told apart by their status_code lists only
	}
	for letter, url := range map[string]string{"A": urlFlowA, "B": urlB} {
		sp, ok := specs[letter]
		if !ok {
			continue
		}
		statusLine := ""
		if l := lists[letter]; len(l) > 0 {
			parts := make([]string, len(l))
			for i, v := range l {
				parts[i] = fmt.Sprint(v)
			}
			statusLine = "  status_code: [" + strings.Join(parts, ", ") + "]\n"
		}
		y := fmt.Sprintf(flow2Tmpl, letter, url, lo, hi, sp.key, sp.attempts, statusLine)
		must(os.WriteFile(filepath.Join(dir, "flows", "flow"+letter+".yaml"), []byte(y), 0o644))
	}
	environment.SetStreamsFlowsDirectory(filepath.Join(dir, "flows"))
	os.Setenv("LUNAR_PROXY_QUOTAS_DIRECTORY", filepath.Join(dir, "quotas"))
	os.Setenv("LUNAR_FLOWS_PATH_PARAM_DIR", filepath.Join(dir, "path_params"))
	os.Setenv("LUNAR_FLOWS_PATH_PARAM_CONFIG", filepath.Join(dir, "path_params", "conf.yaml"))
	os.Setenv("LUNAR_RETRY_REQUEST_TIMEOUT_SEC", fmt.Sprint(timeout))
	defer os.RemoveAll(dir)
	st, err := streams.NewStream()
	if err != nil {
		return nil, err
	}
	rec := &probe2Rec{ctx: map[string]publictypes.ContextI{}}
	st.VerifSetFactory("Probe", func(md *streamtypes.ProcessorMetaData) (streamtypes.ProcessorI, error) {
		tag := ""
		if p, ok := md.Parameters["tag"]; ok {
			tag = p.Value.GetString()
		}
		return &probe2Proc{name: md.Name, tag: tag, rec: rec}, nil
	})
	if err := st.Initialize(); err != nil {
		return nil, err
	}
	return &engine2Inst{stream: st, rec: rec, specs: specs}, nil
}

func (e *engine2Inst) ctr(letter, seq string) int {
	ctx := e.rec.ctx[letter]
	sp, ok := e.specs[letter]
	if ctx == nil || !ok {
		return 0
	}
	return b2i(ctx.Exists(counterKey(sp.key, seq)))
}

// respond: one response of sequence seq to host/<both ? orders/items : invoices>.
// Answer: `A=<tag> B=<tag|-> act=<0|1> ctrA=<0|1> ctrB=<0|1>` (tags sorted by flow, `+`-joined if a flow
// ran more than one probe).
func (e *engine2Inst) respond(seq, txn string, both bool, status int) string {
	e.rec.tags = nil
	url := pathOther
	if both {
		url = urlFlowB
	}
	api := streamtypes.NewResponseAPIStream(lunarMessages.OnResponse{
		ID: txn, SequenceID: seq, Method: "GET", URL: url, Status: status, Headers: map[string]string{},
	}, engineShare)
	acts := &streamconfig.StreamActions{Request: &streamconfig.RequestStream{}, Response: &streamconfig.ResponseStream{}}
	clk := contextmanager.Get().GetClock()
	t0 := clk.Now()
	if err := e.stream.ExecuteFlow(api, acts); err != nil {
		return "err:exec"
	}
	wait := clk.Now().Sub(t0).Nanoseconds()
	retry := false
	for _, a := range acts.Response.Actions {
		if _, ok := a.(*actions.RetryRequestAction); ok {
			retry = true
		}
	}
	per := map[string][]string{}
	for _, t := range e.rec.tags {
		per[t[:1]] = append(per[t[:1]], t[2:])
	}
	show := func(l string) string {
		if len(per[l]) == 0 {
			return "-"
		}
		sort.Strings(per[l])
		return strings.Join(per[l], "+")
	}
	return fmt.Sprintf("A=%s B=%s wait=%d act=%d ctrA=%d ctrB=%d", show("A"), show("B"), wait, b2i(retry),
		e.ctr("A", seq), e.ctr("B", seq))
}
