package main

// Policy mode through the REAL dispatcher: runner.DispatchOnRequest / DispatchOnResponse with the
// real services and a real endpoint policy tree holding a FixedResponse remedy (the gateway answers
// early when the request carries `early-response: true`) and a Retry remedy.  The RetryPlugin of the
// services is replaced per case by a fresh real one on the case's detclock.Manual.

import (
	"fmt"
	"strings"
	"sync"
	"time"

	"lunar/engine/config"
	lunarMessages "lunar/engine/messages"
	"lunar/engine/runner"
	"lunar/engine/services"
	"lunar/engine/services/remedies"
	sharedConfig "lunar/shared-model/config"

	"github.com/negasus/haproxy-spoe-go/action"

	"verif/harness/internal/detclock"
	"verif/harness/internal/proto"
)

type nullWriter struct{}

func (*nullWriter) Write(b []byte) (int, error) { return len(b), nil }
func (*nullWriter) Close() error                { return nil }

var (
	svcOnce sync.Once
	svc     *services.PoliciesServices
	svcErr  error
	dworker *runner.DiagnosisWorker
)

const dispHost = "c17.example.com"

var dispSeq int

type dispState struct {
	tree     *config.EndpointPolicyTree
	policies *sharedConfig.PoliciesConfig
	early    int
	kind     string            // fixed | strategy | concurrency | replay | cache : the early-answering remedy
	url      map[string]string // endpoint letter (r: with retry remedy, n: without) -> URL
	path     map[string]string
}

// earlyRemedy: the remedy that makes the gateway answer by itself.
//   fixed       : FixedResponse (answers early when the request carries `early-response: true`)
//   strategy    : StrategyBasedThrottling, 1 request per hour (quota used up by the warm-up request)
//   concurrency : ConcurrencyBasedThrottling, 1 slot (held by the warm-up request, never released)
func earlyRemedy(kind, name string, status int) sharedConfig.Remedy {
	r := sharedConfig.Remedy{Name: name, Enabled: true}
	switch kind {
	case "replay":
		// stores a provider response with a relevant status + Retry-After and replays it to later requests
		r.Config.ResponseBasedThrottling = &sharedConfig.ResponseBasedThrottlingConfig{
			RetryAfterHeader: "retry-after", RetryAfterType: sharedConfig.RetryAfterRelativeSeconds,
			RelevantStatuses: []int{status}}
	case "cache":
		r.Config.Caching = &sharedConfig.CachingConfig{TTLSeconds: 100000, MaxRecordSizeBytes: 1 << 20, MaxCacheSizeMegabytes: 100}
	case "strategy":
		r.Config.StrategyBasedThrottling = &sharedConfig.StrategyBasedThrottlingConfig{
			AllowedRequestCount: 1, WindowSizeInSeconds: 3600, ResponseStatusCode: status}
	case "concurrency":
		r.Config.ConcurrencyBasedThrottling = &sharedConfig.ConcurrencyBasedThrottlingConfig{
			MaxConcurrentRequests: 1, ResponseStatusCode: status}
	default:
		r.Config.FixedResponse = &sharedConfig.FixedResponseConfig{StatusCode: status}
	}
	return r
}

func newDispatch(p *policyState, early int, kind string, retryFirst bool) (*dispState, error) {
	svcOnce.Do(func() {
		svc, svcErr = services.Initialize(&nullWriter{}, 15*time.Second, sharedConfig.Exporters{})
		if svcErr == nil {
			dworker = runner.NewDiagnosisWorker()
		}
	})
	if svcErr != nil {
		return nil, svcErr
	}
	// limiter state of the throttling remedies lives in the process-wide services: fresh remedy
	// names and URLs per case keep cases independent
	dispSeq++
	d := &dispState{early: early, kind: kind,
		path: map[string]string{"r": fmt.Sprintf("/d%d/orders", dispSeq), "n": fmt.Sprintf("/d%d/plain", dispSeq)}}
	d.url = map[string]string{"r": dispHost + d.path["r"], "n": dispHost + d.path["n"]}
	withRetry := []sharedConfig.Remedy{
		earlyRemedy(kind, fmt.Sprintf("c17-%s-%d-r", kind, dispSeq), early),
		{Name: fmt.Sprintf("c17-retry-%d", dispSeq), Enabled: true, Config: sharedConfig.RemedyConfig{Retry: p.cfg}},
	}
	if retryFirst {
		withRetry[0], withRetry[1] = withRetry[1], withRetry[0] // retry remedy listed before the storing remedy
	}
	endpoints := []sharedConfig.EndpointConfig{
		{Method: "GET", URL: d.url["r"], Remedies: withRetry},
		// an endpoint WITHOUT a retry remedy
		{Method: "GET", URL: d.url["n"], Remedies: []sharedConfig.Remedy{
			earlyRemedy(kind, fmt.Sprintf("c17-%s-%d-n", kind, dispSeq), early),
		}},
	}
	tree, err := config.BuildEndpointPolicyTree(endpoints)
	if err != nil {
		return nil, err
	}
	pc := &sharedConfig.PoliciesConfig{
		Global:    sharedConfig.Global{Remedies: []sharedConfig.Remedy{}, Diagnosis: []sharedConfig.Diagnosis{}},
		Endpoints: endpoints,
	}
	// fresh real plugin on this case's clock
	svc.Remedies.RetryPlugin = p.plugin
	d.tree, d.policies = tree, pc
	if d.replays() {
		// fresh real storing plugins on this case's clock
		svc.Remedies.ResponseBasedThrottlingPlugin = remedies.NewResponseBasedThrottlingPlugin(p.clk)
		svc.Remedies.CachingPlugin = remedies.NewCachingPlugin(p.clk)
		return d, nil
	}
	if kind != "fixed" {
		// warm-up: use up the quota / take the only slot of both endpoints
		for _, ep := range []string{"r", "n"} {
			acts, err := runner.DispatchOnRequest(d.request(p, "warm-"+ep, "warm-"+ep, ep, false), tree, pc, svc, dworker)
			if err != nil {
				return nil, err
			}
			if st, _, _ := inspectActions(acts); st != 0 {
				return nil, fmt.Errorf("warm-up request on endpoint %s was answered early (%d)", ep, st)
			}
		}
	}
	return d, nil
}

func (d *dispState) replays() bool {
	return d.kind == "replay" || d.kind == "cache"
}

func (d *dispState) request(p *policyState, id, seq, ep string, earlyHdr bool) lunarMessages.OnRequest {
	hdr := map[string]string{"host": dispHost}
	if earlyHdr {
		hdr["early-response"] = "true"
	}
	return lunarMessages.OnRequest{
		ID: id, SequenceID: seq, Method: "GET", Scheme: "https", URL: d.url[ep], Path: d.path[ep],
		Headers: hdr, Time: p.clk.Now(),
	}
}

// inspect returns (early status or 0, value of x-lunar-retry-after or "", present)
func inspectActions(acts action.Actions) (int, string, bool) {
	status := 0
	val, has := "", false
	for _, a := range acts {
		switch v := a.Value.(type) {
		case int:
			if a.Name == "status_code" {
				status = v
			}
		case string:
			for _, line := range strings.Split(v, "\n") {
				l := strings.ToLower(line)
				if strings.HasPrefix(l, remedies.LunarRetryAfterHeaderName+":") {
					val, has = strings.TrimSpace(line[len(remedies.LunarRetryAfterHeaderName)+1:]), true
				}
			}
		}
	}
	return status, val, has
}

func dispatchOp(st *caseState, w []string) string {
	switch w[0] {
	case "dcfg":
		early, ok := kvI(w, "early")
		if !ok || early < 100 || early > 599 {
			return "bad-op"
		}
		kind, okk := kvS(w, "kind")
		if !okk {
			kind = "fixed"
		}
		if kind != "fixed" && kind != "strategy" && kind != "concurrency" && kind != "replay" && kind != "cache" {
			return "bad-op"
		}
		order, oko := kvS(w, "order")
		if !oko {
			order = "sr"
		}
		// order of the two remedies on endpoint r: sr = storing/early-answering remedy first, rs = retry first
		if (order != "sr" && order != "rs") || (order == "rs" && kind != "replay" && kind != "cache") {
			return "bad-op"
		}
		if a := policyOp(st, append([]string{"pcfg"}, w[1:]...)); a != "ok" {
			return a
		}
		d, err := newDispatch(st.po, int(early), kind, order == "rs")
		if err != nil {
			return "err:setup:" + proto.Enc(err.Error())
		}
		st.di = d
		return "ok"
	case "dreq":
		p, d := st.po, st.di
		idE, ok1 := kvS(w, "id")
		sE, ok2 := kvS(w, "seq")
		early, ok3 := kvI(w, "early")
		if p == nil || d == nil || !ok1 || !ok2 || !ok3 || (early != 0 && early != 1) {
			return "bad-op"
		}
		ep, okE := kvS(w, "ep")
		if !okE {
			ep = "r"
		}
		// a throttling remedy whose quota/slot is used up answers EVERY request early
		if (ep != "r" && ep != "n") || (d.kind != "fixed" && early == 0) {
			return "bad-op"
		}
		p.lastInRange = false
		for _, r := range p.cfg.Conditions.StatusCode {
			if ep == "r" && early == 1 && d.early >= r.From && d.early <= r.To {
				p.lastInRange = true
			}
		}
		b := p.base()
		acts, err := runner.DispatchOnRequest(d.request(p, proto.Dec(idE), proto.Dec(sE), ep, early == 1),
			d.tree, d.policies, svc, dworker)
		p.quiesce(b)
		if err != nil {
			return "err:" + proto.Enc(err.Error())
		}
		status, val, has := inspectActions(acts)
		if status == 0 {
			if has {
				return "pass-with-retry-header"
			}
			return "pass"
		}
		if has {
			return fmt.Sprintf("early status=%d retry after=%s", status, proto.Enc(val))
		}
		return fmt.Sprintf("early status=%d noop", status)
	case "dresp":
		p, d := st.po, st.di
		idE, ok1 := kvS(w, "id")
		sE, ok2 := kvS(w, "seq")
		status, ok3 := kvI(w, "status")
		if p == nil || d == nil || !ok1 || !ok2 || !ok3 {
			return "bad-op"
		}
		ep, okE := kvS(w, "ep")
		if !okE {
			ep = "r"
		}
		if ep != "r" && ep != "n" {
			return "bad-op"
		}
		p.lastInRange = false
		for _, r := range p.cfg.Conditions.StatusCode {
			if ep == "r" && int(status) >= r.From && int(status) <= r.To {
				p.lastInRange = true
			}
		}
		// hdr=0: a provider response without any header at all
		hdrs := map[string]string{"retry-after": "100000", "content-type": "text/plain"}
		if h, okh := kvI(w, "hdr"); okh && h == 0 {
			hdrs = map[string]string{}
		}
		b := p.base()
		acts, err := runner.DispatchOnResponse(lunarMessages.OnResponse{
			ID: proto.Dec(idE), SequenceID: proto.Dec(sE), Method: "GET", URL: d.url[ep], Status: int(status),
			Headers: hdrs, Body: "upstream",
			Time: p.clk.Now(),
		}, d.tree, &d.policies.Global, svc, dworker)
		p.quiesce(b)
		if err != nil {
			return "err:" + proto.Enc(err.Error())
		}
		_, val, has := inspectActions(acts)
		if has {
			return "retry after=" + proto.Enc(val)
		}
		return "noop"
	}
	return "bad-op"
}

var _ = detclock.NewManual
