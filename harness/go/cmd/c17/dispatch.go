package main

// Policy mode through the REAL dispatcher: runner.DispatchOnRequest / DispatchOnResponse with the
// real services and a real endpoint policy tree holding a FixedResponse remedy (the gateway answers
// early when the request carries `early-response: true`) and a Retry remedy.  The RetryPlugin of the
// services is replaced per case by a fresh real one on the case's detclock.Manual.

import (
	"fmt"
	"strings"
	"sync"
	"time"

	"lunar/engine/config"
	lunarMessages "lunar/engine/messages"
	"lunar/engine/runner"
	"lunar/engine/services"
	"lunar/engine/services/remedies"
	sharedConfig "lunar/shared-model/config"

	"github.com/negasus/haproxy-spoe-go/action"

	"verif/harness/internal/detclock"
	"verif/harness/internal/proto"
)

type nullWriter struct{}

func (*nullWriter) Write(b []byte) (int, error) { return len(b), nil }
func (*nullWriter) Close() error                { return nil }

var (
	svcOnce sync.Once
	svc     *services.PoliciesServices
	svcErr  error
	dworker *runner.DiagnosisWorker
)

const dispURL = "c17.example.com/orders"

type dispState struct {
	tree     *config.EndpointPolicyTree
	policies *sharedConfig.PoliciesConfig
	early    int
}

func newDispatch(p *policyState, early int) (*dispState, error) {
	svcOnce.Do(func() {
		svc, svcErr = services.Initialize(&nullWriter{}, 15*time.Second, sharedConfig.Exporters{})
		if svcErr == nil {
			dworker = runner.NewDiagnosisWorker()
		}
	})
	if svcErr != nil {
		return nil, svcErr
	}
	endpoints := []sharedConfig.EndpointConfig{{
		Method: "GET",
		URL:    dispURL,
		Remedies: []sharedConfig.Remedy{
			{Name: "c17-fixed", Enabled: true, Config: sharedConfig.RemedyConfig{
				FixedResponse: &sharedConfig.FixedResponseConfig{StatusCode: early}}},
			{Name: "c17-retry", Enabled: true, Config: sharedConfig.RemedyConfig{Retry: p.cfg}},
		},
	}}
	tree, err := config.BuildEndpointPolicyTree(endpoints)
	if err != nil {
		return nil, err
	}
	pc := &sharedConfig.PoliciesConfig{
		Global:    sharedConfig.Global{Remedies: []sharedConfig.Remedy{}, Diagnosis: []sharedConfig.Diagnosis{}},
		Endpoints: endpoints,
	}
	// fresh real plugin on this case's clock
	svc.Remedies.RetryPlugin = p.plugin
	return &dispState{tree: tree, policies: pc, early: early}, nil
}

// inspect returns (early status or 0, value of x-lunar-retry-after or "", present)
func inspectActions(acts action.Actions) (int, string, bool) {
	status := 0
	val, has := "", false
	for _, a := range acts {
		switch v := a.Value.(type) {
		case int:
			if a.Name == "status_code" {
				status = v
			}
		case string:
			for _, line := range strings.Split(v, "\n") {
				l := strings.ToLower(line)
				if strings.HasPrefix(l, remedies.LunarRetryAfterHeaderName+":") {
					val, has = strings.TrimSpace(line[len(remedies.LunarRetryAfterHeaderName)+1:]), true
				}
			}
		}
	}
	return status, val, has
}

func dispatchOp(st *caseState, w []string) string {
	switch w[0] {
	case "dcfg":
		early, ok := kvI(w, "early")
		if !ok || early < 100 || early > 599 {
			return "bad-op"
		}
		if a := policyOp(st, append([]string{"pcfg"}, w[1:]...)); a != "ok" {
			return a
		}
		d, err := newDispatch(st.po, int(early))
		if err != nil {
			return "err:setup:" + proto.Enc(err.Error())
		}
		st.di = d
		return "ok"
	case "dreq":
		p, d := st.po, st.di
		idE, ok1 := kvS(w, "id")
		sE, ok2 := kvS(w, "seq")
		early, ok3 := kvI(w, "early")
		if p == nil || d == nil || !ok1 || !ok2 || !ok3 || (early != 0 && early != 1) {
			return "bad-op"
		}
		hdr := map[string]string{"host": "c17.example.com"}
		if early == 1 {
			hdr["early-response"] = "true"
		}
		p.lastInRange = false
		for _, r := range p.cfg.Conditions.StatusCode {
			if early == 1 && d.early >= r.From && d.early <= r.To {
				p.lastInRange = true
			}
		}
		b := p.base()
		acts, err := runner.DispatchOnRequest(lunarMessages.OnRequest{
			ID: proto.Dec(idE), SequenceID: proto.Dec(sE), Method: "GET", Scheme: "https", URL: dispURL,
			Path: "/orders", Headers: hdr, Time: p.clk.Now(),
		}, d.tree, d.policies, svc, dworker)
		p.quiesce(b)
		if err != nil {
			return "err:" + proto.Enc(err.Error())
		}
		status, val, has := inspectActions(acts)
		if status == 0 {
			if has {
				return "pass-with-retry-header"
			}
			return "pass"
		}
		if has {
			return fmt.Sprintf("early status=%d retry after=%s", status, proto.Enc(val))
		}
		return fmt.Sprintf("early status=%d noop", status)
	case "dresp":
		p, d := st.po, st.di
		idE, ok1 := kvS(w, "id")
		sE, ok2 := kvS(w, "seq")
		status, ok3 := kvI(w, "status")
		if p == nil || d == nil || !ok1 || !ok2 || !ok3 {
			return "bad-op"
		}
		p.lastInRange = false
		for _, r := range p.cfg.Conditions.StatusCode {
			if int(status) >= r.From && int(status) <= r.To {
				p.lastInRange = true
			}
		}
		b := p.base()
		acts, err := runner.DispatchOnResponse(lunarMessages.OnResponse{
			ID: proto.Dec(idE), SequenceID: proto.Dec(sE), Method: "GET", URL: dispURL, Status: int(status),
			Headers: map[string]string{}, Time: p.clk.Now(),
		}, d.tree, &d.policies.Global, svc, dworker)
		p.quiesce(b)
		if err != nil {
			return "err:" + proto.Enc(err.Error())
		}
		_, val, has := inspectActions(acts)
		if has {
			return "retry after=" + proto.Enc(val)
		}
		return "noop"
	}
	return "bad-op"
}

var _ = detclock.NewManual
