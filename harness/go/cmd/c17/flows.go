package main

import (
	"fmt"
	"os"
	"sort"
	"strings"

	"lunar/engine/actions"
	lunarMessages "lunar/engine/messages"
	lunarcontext "lunar/engine/streams/lunar-context"
	processorretry "lunar/engine/streams/processors/retry"
	publictypes "lunar/engine/streams/public-types"
	streamtypes "lunar/engine/streams/types"

	"verif/harness/internal/detclock"
	"verif/harness/internal/proto"
)

type flowsState struct {
	mode    string // direct | engine
	timeout string
	lo, hi  int64
	// direct
	clk   *detclock.Auto
	lctx  publictypes.LunarContextI
	procs map[string]streamtypes.ProcessorI
	// engine
	eng *engineInst
	// engine2: two overlapping flows
	specs2 map[string]flow2Spec
	eng2   *engine2Inst
	fm     string // engine: extra `method` criterion of the status Filter
	same2  bool
	lists2 map[string][]int
	// overlap: direct mode on a manual clock, transactions may overlap inside the cool-down
	mclk   *detclock.Manual
	parked []*parkedTxn
	// both
	keys map[string]bool // counter keys touched by fx ops
}

var directShare = lunarcontext.NewMemoryState[[]byte]()

func classifyInitErr(err error) string {
	m := err.Error()
	switch {
	case strings.Contains(m, "attempts should be greater than 0"):
		return "err:attempts"
	case strings.Contains(m, "cooldown should be greater"):
		return "err:cooldown"
	case strings.Contains(m, "cooldownMultiplier should be"):
		return "err:mult"
	case strings.Contains(m, "must be set"):
		return "err:env"
	case strings.Contains(m, "is greater than configured timeout"):
		return "err:timeout"
	}
	return "err:other:" + proto.Enc(m)
}

func setTimeoutEnv(t string) {
	if t == "unset" {
		os.Unsetenv("LUNAR_RETRY_REQUEST_TIMEOUT_SEC")
	} else {
		os.Setenv("LUNAR_RETRY_REQUEST_TIMEOUT_SEC", t)
	}
}

func counterKey(proc, seq string) string { return proc + "::retry_counter::" + seq }

func b2i(b bool) int {
	if b {
		return 1
	}
	return 0
}

func flowsOp(st *caseState, w []string) string {
	switch w[0] {
	case "fmode":
		mode, ok1 := kvS(w, "mode")
		tmo, ok2 := kvS(w, "timeout")
		if !ok1 || !ok2 || st.fl != nil || (mode != "direct" && mode != "engine" && mode != "engine2" && mode != "overlap") {
			return "bad-op"
		}
		if tmo != "unset" {
			if _, ok := kvI(w, "timeout"); !ok {
				return "bad-op"
			}
		}
		fs := &flowsState{mode: mode, timeout: tmo, keys: map[string]bool{}}
		if mode == "engine" || mode == "engine2" {
			fs.specs2 = map[string]flow2Spec{}
			lo, ok3 := kvI(w, "lo")
			hi, ok4 := kvI(w, "hi")
			if !ok3 || !ok4 || tmo == "unset" {
				return "bad-op"
			}
			fs.lo, fs.hi = lo, hi
			if m, ok := kvS(w, "fm"); ok {
				if mode != "engine" || m != "GET" {
					return "bad-op"
				}
				fs.fm = m
			}
			if mode == "engine2" {
				// optional: url2=same|items (flow B on the same url pattern as flow A), sa= / sb= flow-filter status lists
				if u, ok := kvS(w, "url2"); ok {
					if u != "same" && u != "items" {
						return "bad-op"
					}
					fs.same2 = u == "same"
				}
				fs.lists2 = map[string][]int{}
				for letter, k := range map[string]string{"A": "sa", "B": "sb"} {
					if v, ok := kvS(w, k); ok && v != "-" {
						for _, part := range strings.Split(v, ",") {
							var n int
							if _, err := fmt.Sscanf(part, "%d", &n); err != nil || fmt.Sprint(n) != part {
								return "bad-op"
							}
							fs.lists2[letter] = append(fs.lists2[letter], n)
						}
					}
				}
			}
		} else if mode == "overlap" {
			fs.mclk = detclock.NewManual(1_700_000_000_000_000_000)
			fs.lctx = lunarcontext.NewContextManager().WithFlowContext().GetLunarContext()
			fs.procs = map[string]streamtypes.ProcessorI{}
		} else {
			fs.clk = detclock.NewAuto(1_700_000_000_000_000_000)
			fs.lctx = lunarcontext.NewContextManager().WithFlowContext().GetLunarContext()
			fs.procs = map[string]streamtypes.ProcessorI{}
		}
		st.fl = fs
		return "ok"
	case "fproc":
		fs := st.fl
		nameE, ok0 := kvS(w, "name")
		att, ok1 := kvI(w, "attempts")
		cd, ok2 := kvI(w, "cooldown")
		k4, ok3 := kvI(w, "mult4")
		if fs == nil || !ok0 || !ok1 || !ok2 || !ok3 {
			return "bad-op"
		}
		name := proto.Dec(nameE)
		if fs.mode == "engine2" {
			// fproc name=<key> flow=A|B attempts=..: collected; the engine is built by `fbuild`
			letter, okf := kvS(w, "flow")
			if !okf || (letter != "A" && letter != "B") || fs.eng2 != nil || cd != 0 || k4 != 0 || att < 1 ||
				(name != "R" && name != "Q") {
				return "bad-op"
			}
			if _, dup := fs.specs2[letter]; dup {
				return "bad-op"
			}
			fs.specs2[letter] = flow2Spec{key: name, attempts: int(att)}
			return "ok"
		}
		if fs.mode == "engine" {
			if fs.eng != nil || name != "R" {
				return "bad-op"
			}
			var tmo int64
			fmt.Sscan(fs.timeout, &tmo)
			e, err := newEngine(scratch, name, int(att), int(cd), fmt.Sprintf("%.2f", float64(k4)/4), int(fs.lo), int(fs.hi), int(tmo), fs.fm)
			if err != nil {
				return classifyInitErr(err)
			}
			fs.eng = e
			return "ok"
		}
		setTimeoutEnv(fs.timeout)
		md := &streamtypes.ProcessorMetaData{
			Name: name,
			Parameters: map[string]streamtypes.ProcessorParam{
				"attempts":                          {Name: "attempts", Value: publictypes.NewParamValue(int(att))},
				"cooldown_between_attempts_seconds": {Name: "cooldown_between_attempts_seconds", Value: publictypes.NewParamValue(int(cd))},
				"cooldown_multiplier":               {Name: "cooldown_multiplier", Value: publictypes.NewParamValue(float64(k4) / 4)},
			},
			Clock: fs.clk,
		}
		if fs.mode == "overlap" {
			md.Clock = fs.mclk
		}
		p, err := processorretry.NewProcessor(md)
		if err != nil {
			return classifyInitErr(err)
		}
		fs.procs[name] = p
		return "ok"
	case "fbuild":
		fs := st.fl
		if fs == nil || fs.mode != "engine2" || fs.eng2 != nil || len(fs.specs2) == 0 {
			return "bad-op"
		}
		var tmo int64
		fmt.Sscan(fs.timeout, &tmo)
		e, err := newEngine2(scratch, fs.specs2, int(fs.lo), int(fs.hi), int(tmo), fs.same2, fs.lists2)
		if err != nil {
			return classifyInitErr(err)
		}
		fs.eng2 = e
		return "ok"
	case "fx2":
		fs := st.fl
		sE, ok1 := kvS(w, "seq")
		both, ok2 := kvI(w, "both")
		status, ok3 := kvI(w, "status")
		if fs == nil || fs.eng2 == nil || !ok1 || !ok2 || !ok3 || (both != 0 && both != 1) {
			return "bad-op"
		}
		txn := proto.Dec(sE) + "-x"
		if idE, ok := kvS(w, "id"); ok {
			txn = proto.Dec(idE)
		}
		return fs.eng2.respond(proto.Dec(sE), txn, both == 1, int(status))
	case "fx":
		fs := st.fl
		pE, ok0 := kvS(w, "p")
		sE, ok1 := kvS(w, "seq")
		if fs == nil || !ok0 || !ok1 {
			return "bad-op"
		}
		pn, seq := proto.Dec(pE), proto.Dec(sE)
		// transaction id of this attempt (every attempt of a logical call has its own)
		txn := seq + "-x"
		if idE, ok := kvS(w, "id"); ok {
			txn = proto.Dec(idE)
		}
		key := counterKey(pn, seq)
		if fs.mode == "engine" {
			status, ok := kvI(w, "status")
			if fs.eng == nil || pn != "R" || !ok {
				return "bad-op"
			}
			fs.keys[key] = true
			tag, retry, wait, err := fs.eng.respond(seq, txn, int(status))
			if err != nil {
				return "err:exec:" + proto.Enc(err.Error())
			}
			return fmt.Sprintf("%s wait=%d act=%d ctr=%d", tag, wait, b2i(retry), b2i(fs.eng.counterExists(key)))
		}
		p, ok := fs.procs[pn]
		if !ok || fs.mode == "overlap" {
			return "bad-op"
		}
		fs.keys[key] = true
		// the production constructor of a response stream; the flow installs its context on it
		api := streamtypes.NewResponseAPIStream(lunarMessages.OnResponse{
			ID: txn, SequenceID: seq, Method: "GET", URL: "c17.example.com/x", Status: 500,
			Headers: map[string]string{},
		}, directShare)
		api.SetContext(fs.lctx)
		t0 := fs.clk.Now()
		io, err := p.Execute("c17flow", api)
		wait := fs.clk.Now().Sub(t0).Nanoseconds()
		if err != nil {
			return "err:exec:" + proto.Enc(err.Error())
		}
		_, retry := io.RespAction.(*actions.RetryRequestAction)
		tag := io.Name
		if tag != "retry" && tag != "failed" {
			tag = "other:" + proto.Enc(tag)
		}
		return fmt.Sprintf("%s wait=%d act=%d ctr=%d", tag, wait, b2i(retry), b2i(fs.lctx.GetFlowContext().Exists(key)))
	case "fxb":
		// begin one transaction of a sequence; it may stay parked in its cool-down while others begin
		fs := st.fl
		pE, ok0 := kvS(w, "p")
		sE, ok1 := kvS(w, "seq")
		idE, ok2 := kvS(w, "id")
		if fs == nil || fs.mode != "overlap" || !ok0 || !ok1 || !ok2 {
			return "bad-op"
		}
		pn, seq, txn := proto.Dec(pE), proto.Dec(sE), proto.Dec(idE)
		p, ok := fs.procs[pn]
		if !ok || fs.findParked(txn) >= 0 {
			return "bad-op"
		}
		key := counterKey(pn, seq)
		fs.keys[key] = true
		return fs.begin(p, key, seq, txn)
	case "fxe":
		// the cool-down of a parked transaction is over
		fs := st.fl
		idE, ok := kvS(w, "id")
		if fs == nil || fs.mode != "overlap" || !ok {
			return "bad-op"
		}
		i := fs.findParked(proto.Dec(idE))
		if i < 0 {
			return "bad-op"
		}
		return fs.finish(i)
	case "fq":
		fs := st.fl
		pE, ok0 := kvS(w, "p")
		sE, ok1 := kvS(w, "seq")
		if fs == nil || !ok0 || !ok1 || fs.mode == "engine2" {
			return "bad-op"
		}
		key := counterKey(proto.Dec(pE), proto.Dec(sE))
		if fs.mode == "engine" {
			if fs.eng == nil {
				return "bad-op"
			}
			return fmt.Sprintf("ctr=%d", b2i(fs.eng.counterExists(key)))
		}
		return fmt.Sprintf("ctr=%d", b2i(fs.lctx.GetFlowContext().Exists(key)))
	case "fleak":
		fs := st.fl
		if fs == nil || (fs.mode == "engine" && fs.eng == nil) || fs.mode == "engine2" {
			return "bad-op"
		}
		keys := make([]string, 0, len(fs.keys))
		for k := range fs.keys {
			keys = append(keys, k)
		}
		sort.Strings(keys)
		n := 0
		for _, k := range keys {
			if fs.mode == "engine" {
				n += b2i(fs.eng.counterExists(k))
			} else {
				n += b2i(fs.lctx.GetFlowContext().Exists(k))
			}
		}
		return fmt.Sprintf("leaked=%d", n)
	}
	return "bad-op"
}
