// Harness for C17 (retries are bounded by the configured number of attempts).
//
// Three drivers of REAL code, selected by the ops of a case:
//   - flows mode, direct : processorretry.NewProcessor + Execute on a real APIStream carrying a real
//     lunar context with a flow context (several Retry processors may share one flow context),
//     clock = detclock.Auto so the cool-down the processor waits is observable;
//   - flows mode, engine : a generated flow (status Filter -> Retry -> probe processors) loaded from
//     YAML into a real streams.Stream (engine.go); probes (installed through the verif-tagged
//     Stream.VerifSetFactory) witness which output edge was followed and expose the flow context;
//   - policy mode        : remedies.RetryPlugin.OnResponse on detclock.Manual (TTL timers of the
//     MemoryCache are goroutines sleeping on that clock; policy.go settles them deterministically).
package main

import (
	"fmt"
	"os"
	"strconv"
	"strings"

	"github.com/rs/zerolog"

	"verif/harness/internal/prng"
	"verif/harness/internal/proto"
)

const rule = "generated/enumerated histories of responses over 1-4 interleaved sequences x settings " +
	"(attempts, cool-down, multiplier, status ranges, TTL expiry); non-trivial = flows: at least one `retry` " +
	"and one `failed` output; policy: at least one retry header and one in-range NoOp; distinct by (ops, answers)"

func kvS(w []string, k string) (string, bool) { return proto.KV(w, k) }

func kvI(w []string, k string) (int64, bool) {
	s, ok := proto.KV(w, k)
	if !ok {
		return 0, false
	}
	n, err := strconv.ParseInt(s, 10, 64)
	if err != nil {
		return 0, false
	}
	return n, true
}

var scratch string

type caseState struct {
	fl *flowsState
	po *policyState
	di *dispState
}

func exec(c proto.Case, o *proto.Out) []string {
	outs := make([]string, len(c.Ops))
	st := &caseState{}
	defer func() {
		if st.fl != nil && st.fl.mode == "overlap" {
			st.fl.releaseAll()
		}
		if st.po != nil {
			st.po.drain()
			if st.po.settleMiss > 0 {
				o.Count("policy-settle-timeout")
			}
		}
	}()
	nRetry, nFailed, nHdr, nInNoop := 0, 0, 0, 0
	for i, op := range c.Ops {
		w := strings.Fields(op)
		if len(w) == 0 {
			outs[i] = "bad-op"
			continue
		}
		var a string
		switch w[0] {
		case "fmode", "fproc", "fx", "fq", "fleak", "fbuild", "fx2", "fxb", "fxe":
			a = flowsOp(st, w)
			if w[0] == "fxb" || w[0] == "fxe" {
				switch {
				case strings.HasPrefix(a, "parked"):
					nRetry++
					o.Count("overlap-parked")
				case strings.HasPrefix(a, "retry"):
					if w[0] == "fxb" {
						nRetry++
					}
					o.Count("overlap-" + w[0] + "-retry")
				case strings.HasPrefix(a, "failed"):
					nFailed++
					o.Count("overlap-failed")
				}
			}
			if w[0] == "fx2" {
				if strings.Contains(a, "=retry") {
					nRetry++
				}
				if strings.Contains(a, "=failed") {
					nFailed++
				}
				if strings.HasPrefix(a, "A=") && !strings.Contains(a, "B=-") {
					o.Count("flows2-both-flows")
				} else {
					o.Count("flows2-one-flow")
				}
			}
			if w[0] == "fx" {
				switch {
				case strings.HasPrefix(a, "retry"):
					nRetry++
				case strings.HasPrefix(a, "failed"):
					nFailed++
				}
				o.Count("flows-" + strings.Fields(a)[0])
			} else if w[0] == "fproc" {
				o.Count("fproc-" + a)
			} else if w[0] == "fleak" && a != "leaked=0" && a != "bad-op" {
				o.Count("flows-case-with-leaked-counter")
			}
		case "pcfg", "presp", "adv", "jump", "pbulk", "dcfg", "dreq", "dresp":
			if w[0][0] == 'd' {
				a = dispatchOp(st, w)
			} else {
				a = policyOp(st, w)
			}
			if w[0] == "pbulk" {
				o.Count("policy-bulk")
				if strings.HasPrefix(a, "bulk") {
					nHdr++
				}
			}
			if w[0] == "dreq" || w[0] == "dresp" {
				if strings.Contains(a, "retry after=") {
					nHdr++
					o.Count("dispatch-" + w[0] + "-retry")
				} else if st.po != nil && st.po.lastInRange && strings.HasSuffix(a, "noop") {
					nInNoop++
					o.Count("dispatch-" + w[0] + "-noop-in-range")
				} else {
					o.Count("dispatch-" + w[0] + "-" + strings.Fields(a)[0])
				}
			}
			if w[0] == "presp" {
				if strings.HasPrefix(a, "retry") {
					nHdr++
				}
				if a == "noop" && st.po != nil && st.po.lastInRange {
					nInNoop++
					o.Count("policy-noop-in-range")
				} else {
					o.Count("policy-" + strings.Fields(a)[0])
				}
			}
		default:
			a = "bad-op"
		}
		outs[i] = a
	}
	if (nRetry > 0 && nFailed > 0) || (nHdr > 0 && nInNoop > 0) {
		o.NonTrivial(strings.Join(c.Ops, "|") + "#" + strings.Join(outs, "|"))
	}
	return outs
}

func main() {
	zerolog.SetGlobalLevel(zerolog.Disabled)
	d, err := os.MkdirTemp("", "verif-c17-")
	if err != nil {
		panic(err)
	}
	scratch = d
	// Stream.Initialize writes ./policies.yaml unless this points elsewhere (set per engine too)
	os.Setenv("LUNAR_FLOWS_PATH_PARAM_CONFIG", d+"/pp.yaml")
	code := 0
	func() {
		defer os.RemoveAll(d)
		proto.Main(proto.Harness{Rule: rule, Gen: gen, Exec: exec})
	}()
	os.Exit(code)
}

// ---------------------------------------------------------------------------------- generators

var seqNames = []string{"s1", "s2", "s3", "s4"}

func genFlowsDirect(r *prng.R, ln int) []string {
	tmo := "1000"
	switch r.Intn(24) {
	case 0:
		tmo = "0"
	case 1:
		tmo = "1"
	case 2:
		tmo = "5"
	case 3:
		tmo = "unset"
	case 4:
		tmo = "-1"
	}
	ops := []string{"fmode mode=direct timeout=" + tmo}
	names := []string{"R"}
	if r.Chance(40) {
		names = append(names, "Q")
	}
	if r.Chance(8) {
		// aliasing: processor "R::retry_counter::a" + sequence "b" and processor "R" + sequence
		// "a::retry_counter::b" build the same counter key
		names = append(names, "R::retry_counter::a")
	}
	var good []string
	for _, n := range names {
		att := r.Range(1, 4)
		if r.Chance(6) {
			att = r.Range(-1, 0)
		}
		cd := 0
		if r.Chance(50) {
			cd = r.Range(0, 3)
		}
		if r.Chance(3) {
			cd = -1
		}
		k := 0
		if r.Chance(50) {
			k = r.Range(0, 8)
		}
		if r.Chance(3) {
			k = -1
		}
		ops = append(ops, fmt.Sprintf("fproc name=%s attempts=%d cooldown=%d mult4=%d", proto.Enc(n), att, cd, k))
		if att >= 1 && cd >= 0 && k >= 0 && tmo != "unset" && tmo != "-1" {
			// generation steering only: would the cumulated cool-down pass the timeout check?
			t, _ := strconv.Atoi(tmo)
			sum, okT := 0, true
			for i := 1; i <= att; i++ {
				sum += (4*cd + i*k) / 4
				if sum > t {
					okT = false
				}
			}
			if okT {
				good = append(good, n)
			}
		}
	}
	if len(good) == 0 {
		// nothing can run: two probes of the refused processors are enough
		good = names
		ln = len(ops) + 2
	}
	nseq := r.Range(1, 4)
	seqs := append([]string{}, seqNames[:nseq]...)
	if r.Chance(25) {
		seqs[r.Intn(nseq)] = "" // transactions without a sequence id
	}
	txn := 0
	if len(names) == 3 {
		seqs = append(seqs, "b", "a::retry_counter::b")
	}
	for len(ops) < ln {
		p := prng.Pick(r, good)
		if r.Chance(3) {
			p = prng.Pick(r, names)
		}
		s := prng.Pick(r, seqs)
		if r.Chance(10) {
			ops = append(ops, fmt.Sprintf("fq p=%s seq=%s", proto.Enc(p), proto.Enc(s)))
		} else {
			txn++
			ops = append(ops, fmt.Sprintf("fx p=%s seq=%s id=t%d", proto.Enc(p), proto.Enc(s), txn))
		}
	}
	return append(ops, "fleak")
}

var statuses = []int{200, 404, 428, 429, 430, 499, 500, 501, 502, 503, 599, 600}

func genFlowsEngine(r *prng.R, ln int) []string {
	lohi := prng.Pick(r, [][2]int{{500, 599}, {500, 502}, {429, 429}, {100, 599}})
	ops := []string{fmt.Sprintf("fmode mode=engine timeout=%d lo=%d hi=%d", prng.Pick(r, []int{0, 30, 1000}), lohi[0], lohi[1])}
	if r.Chance(40) {
		// the Filter carries a second criterion (method) next to the status range; the range may then lie partly
		// outside 100-599 or be reversed (it is still applied as a numeric filter)
		if r.Chance(60) {
			lohi = prng.Pick(r, [][2]int{{500, 600}, {429, 600}, {50, 599}, {599, 500}, {500, 1000}, {99, 600}})
		}
		ops[0] = fmt.Sprintf("fmode mode=engine timeout=%d lo=%d hi=%d fm=GET", prng.Pick(r, []int{0, 30, 1000}), lohi[0], lohi[1])
	}
	att := r.Range(1, 4)
	if r.Chance(5) {
		att = 0
	}
	k := 0
	if att*1 < 4 && r.Chance(30) {
		k = 1
	}
	ops = append(ops, fmt.Sprintf("fproc name=R attempts=%d cooldown=0 mult4=%d", att, k))
	nseq := r.Range(1, 4)
	emptyAt := "none"
	if r.Chance(25) {
		emptyAt = seqNames[r.Intn(nseq)] // this sequence's transactions carry an empty sequence id
	}
	for len(ops) < ln {
		s := seqNames[r.Intn(nseq)]
		if emptyAt == s {
			s = ""
		}
		st := prng.Pick(r, statuses)
		if r.Chance(60) {
			st = lohi[0] + r.Intn(lohi[1]-lohi[0]+1)
		}
		ops = append(ops, fmt.Sprintf("fx p=R seq=%s id=t%d status=%d", proto.Enc(s), len(ops), st))
	}
	return append(ops, "fleak")
}

// overlapping transactions: several transactions of one sequence (and of other sequences) inside the processor at
// once — a transaction parked in its cool-down does not hold back the next response of the same sequence
func genOverlap(r *prng.R, ln int) []string {
	att := r.Range(1, 4)
	cd := r.Range(1, 3)
	if r.Chance(10) {
		cd = 0
	}
	k4 := prng.Pick(r, []int{0, 0, 2, 4})
	ops := []string{"fmode mode=overlap timeout=1000", fmt.Sprintf("fproc name=R attempts=%d cooldown=%d mult4=%d", att, cd, k4)}
	nseq := r.Range(1, 3)
	seqs := append([]string{}, seqNames[:nseq]...)
	if r.Chance(20) {
		seqs[r.Intn(nseq)] = ""
	}
	cnt := map[string]int{}
	var parked []string
	txn := 0
	for len(ops) < ln+2 {
		if len(parked) > 0 && r.Chance(35) {
			i := r.Intn(len(parked))
			ops = append(ops, "fxe id="+parked[i])
			parked = append(parked[:i], parked[i+1:]...)
			continue
		}
		s := prng.Pick(r, seqs)
		txn++
		id := fmt.Sprintf("t%d", txn)
		ops = append(ops, fmt.Sprintf("fxb p=R seq=%s id=%s", proto.Enc(s), id))
		// generation steering only: which transactions will be parked
		cnt[s]++
		if cnt[s] > att {
			cnt[s] = 0
		} else if (4*cd+cnt[s]*k4)/4 > 0 {
			parked = append(parked, id)
		}
	}
	for _, id := range parked {
		if r.Chance(70) {
			ops = append(ops, "fxe id="+id)
		}
	}
	return append(ops, "fleak")
}

// two overlapping flows (host/* and host/orders/items), each with its own Retry processor, same or different keys
func genFlowsEngine2(r *prng.R, ln int) []string {
	lohi := prng.Pick(r, [][2]int{{500, 599}, {500, 502}, {429, 429}, {100, 599}})
	ops := []string{fmt.Sprintf("fmode mode=engine2 timeout=%d lo=%d hi=%d", prng.Pick(r, []int{0, 30, 1000}), lohi[0], lohi[1])}
	if r.Chance(45) {
		// flow-filter status_code lists; often both flows on ONE url pattern, told apart by their lists only
		lists := []string{"500,502,503", "429", "429,500", "500", "-", "404,429,503"}
		u := "items"
		if r.Chance(70) {
			u = "same"
		}
		ops[0] = fmt.Sprintf("fmode mode=engine2 timeout=1000 lo=100 hi=599 url2=%s sa=%s sb=%s", u, prng.Pick(r, lists), prng.Pick(r, lists))
		lohi = [2]int{100, 599}
	}
	keyA, keyB := "R", "R"
	if r.Chance(40) {
		keyB = "Q"
	}
	which := r.Intn(10)
	if which != 0 {
		ops = append(ops, fmt.Sprintf("fproc name=%s flow=A attempts=%d cooldown=0 mult4=0", keyA, r.Range(1, 4)))
	}
	if which != 1 {
		ops = append(ops, fmt.Sprintf("fproc name=%s flow=B attempts=%d cooldown=0 mult4=0", keyB, r.Range(1, 4)))
	}
	ops = append(ops, "fbuild")
	nseq := r.Range(1, 3)
	emptyAt := "none"
	if r.Chance(25) {
		emptyAt = seqNames[r.Intn(nseq)]
	}
	for len(ops) < ln+3 {
		s := seqNames[r.Intn(nseq)]
		if emptyAt == s {
			s = ""
		}
		st := prng.Pick(r, statuses)
		if r.Chance(70) {
			st = lohi[0] + r.Intn(lohi[1]-lohi[0]+1)
		}
		both := 1
		if r.Chance(30) {
			both = 0
		}
		ops = append(ops, fmt.Sprintf("fx2 seq=%s id=t%d both=%d status=%d", proto.Enc(s), len(ops), both, st))
	}
	return ops
}

var gaps = []int64{0, 1, 1_000_000_000, 20_000_000_000, 30_999_999_999, 31_000_000_000, 31_000_000_001,
	32_000_000_000, 33_000_000_000, 35_999_999_999, 36_000_000_000, 36_000_000_001, 100_000_000_000}

func genPolicy(r *prng.R, ln int, disp bool) []string {
	att := r.Range(1, 4)
	if r.Chance(10) {
		att = r.Range(-1, 0)
	}
	cd := prng.Pick(r, []int{0, 0, 1, 2, 5})
	mu := prng.Pick(r, []int{0, 1, 1, 2, 3})
	rg := prng.Pick(r, []string{"500-599", "500-502,504-599", "429-429,500-599", "-", "503-500", "500-500"})
	ops := []string{fmt.Sprintf("pcfg attempts=%d cooldown=%d mult=%d ranges=%s t0=%d", att, cd, mu, rg,
		1_700_000_000_000_000_000+int64(r.Intn(1_000_000_000)))}
	early := 0
	kind := "fixed"
	nx := 0
	noHdrPct := 15 // provider responses without any header at all
	if disp {
		// through the real dispatcher: some attempts are answered early by the gateway itself
		early = prng.Pick(r, []int{429, 500, 503, 599, 404})
		if r.Chance(60) {
			rg = prng.Pick(r, []string{"429-429,500-599", "400-599", "500-599"})
		}
		kind = prng.Pick(r, []string{"fixed", "fixed", "strategy", "strategy", "concurrency", "replay", "replay", "cache"})
		order := "sr"
		if (kind == "replay" || kind == "cache") && r.Chance(45) {
			order = "rs" // retry remedy listed before the storing remedy
		}
		if kind == "replay" || kind == "cache" {
			noHdrPct = 35
		}
		ops = []string{fmt.Sprintf("dcfg attempts=%d cooldown=%d mult=%d ranges=%s early=%d kind=%s order=%s t0=%d", att, cd, mu, rg, early,
			kind, order, 1_700_000_000_000_000_000+int64(r.Intn(1_000_000_000)))}
	}
	nseq := r.Range(1, 4)
	pool := append([]string{}, seqNames[:nseq]...)
	next := 5
	started := map[string]int{}
	txn := 0
	if r.Chance(25) {
		// a call whose transactions carry an EMPTY sequence id (alone or next to proper sequences)
		pool[r.Intn(nseq)] = ""
	}
	wild := r.Chance(20) // not well-formed: `first` responses may repeat
	for len(ops) < ln {
		pi := r.Intn(nseq)
		if started[pool[pi]] > att+1 && r.Chance(70) {
			// the sequence is over: a new logical call takes its place
			pool[pi] = fmt.Sprintf("s%d", next)
			next++
		}
		s := pool[pi]
		if r.Chance(25) {
			g := prng.Pick(r, gaps)
			if r.Chance(30) {
				ops = append(ops, fmt.Sprintf("jump ns=%d", g))
			} else {
				ops = append(ops, fmt.Sprintf("adv ns=%d", g))
			}
			continue
		}
		st := prng.Pick(r, statuses)
		if r.Chance(65) {
			st = prng.Pick(r, []int{500, 501, 502, 504, 599})
		}
		if started[s] >= att && att >= 1 && r.Chance(25) {
			// a NEW logical call re-uses the sequence id right after (or around) exhaustion
			started[s] = 0
		}
		id := s
		if started[s] > 0 && !(wild && r.Chance(30)) {
			id = fmt.Sprintf("%s-r%d", s, started[s])
		}
		if wild && started[s] == 0 && r.Chance(20) {
			id = s + "-r0" // a sequence whose first response is never seen
		}
		if s == "" && !(wild && r.Chance(10)) {
			// no sequence id: every transaction still has an id of its own
			txn++
			id = fmt.Sprintf("txn%d", txn)
		}
		id, s = proto.Enc(id), proto.Enc(s)
		started[proto.Dec(s)]++
		if disp && r.Chance(22) {
			// a call on the endpoint WITHOUT a retry remedy (own sequence ids)
			started[proto.Dec(s)]--
			nx++
			if r.Chance(80) {
				ops = append(ops, fmt.Sprintf("dreq id=x%d seq=x%d ep=n early=1", nx, nx))
			} else {
				ops = append(ops, fmt.Sprintf("dresp id=x%d seq=x%d ep=n status=%d hdr=%d", nx, nx, st, b2i(!r.Chance(noHdrPct))))
			}
			continue
		}
		if disp {
			switch x := r.Intn(100); {
			case x < 55 || (kind != "fixed" && x < 65):
				ops = append(ops, fmt.Sprintf("dreq id=%s seq=%s early=1", id, s))
			case x < 65:
				started[proto.Dec(s)]--
				ops = append(ops, fmt.Sprintf("dreq id=%s seq=%s early=0", id, s))
			default:
				if (kind == "replay" || kind == "cache") && r.Chance(50) {
					st = early // a response the storing remedy is interested in
				}
				ops = append(ops, fmt.Sprintf("dresp id=%s seq=%s status=%d hdr=%d", id, s, st, b2i(!r.Chance(noHdrPct))))
			}
			continue
		}
		ops = append(ops, fmt.Sprintf("presp id=%s seq=%s status=%d", id, s, st))
	}
	return ops
}

// genBulk: thousands of background sequences in flight (one eligible first response each) around a
// few target sequences that stored their state earlier and keep failing.
func genBulk(r *prng.R) []string {
	att := r.Range(3, 5)
	ops := []string{fmt.Sprintf("pcfg attempts=%d cooldown=%d mult=1 ranges=500-599 t0=%d", att, r.Range(0, 2),
		1_700_000_000_000_000_000+int64(r.Intn(1_000_000_000)))}
	targets := []string{"t1", "t2", "t3"}[:r.Range(1, 3)]
	cnt := map[string]int{}
	resp := func(t string) {
		id := t
		if cnt[t] > 0 {
			id = fmt.Sprintf("%s-r%d", t, cnt[t])
		}
		cnt[t]++
		ops = append(ops, fmt.Sprintf("presp id=%s seq=%s status=500", id, t))
	}
	for _, t := range targets {
		resp(t)
	}
	total := r.Range(4100, 4600)
	chunks := r.Range(1, 3)
	for c := 0; c < chunks; c++ {
		ops = append(ops, fmt.Sprintf("pbulk n=%d prefix=bg%d status=500", total/chunks+1, c))
		if r.Chance(50) {
			resp(prng.Pick(r, targets))
		}
	}
	for i := 0; i < (att+3)*len(targets); i++ {
		resp(prng.Pick(r, targets))
	}
	// a late background sequence continues too
	ops = append(ops, fmt.Sprintf("presp id=late seq=bg%d-%d status=500", chunks-1, total/chunks))
	ops = append(ops, "presp id=late2 seq=bg0-0 status=500")
	return ops
}

func gen(r *prng.R, f proto.Flags, emit func(proto.Case)) {
	n := 2500
	if f.Tier == "thorough" {
		n = 12000
	}
	n *= f.Budget
	id := 0
	nb := 1
	if f.Tier == "thorough" {
		nb = 4
	}
	for k := 0; k < nb*f.Budget && k < 8; k++ {
		id++
		emit(proto.Case{ID: fmt.Sprintf("b%d", id), Ops: genBulk(r.Fork())})
	}
	for k := 0; k < n; k++ {
		rr := r.Fork()
		ln := rr.Range(3, 34)
		var ops []string
		switch x := rr.Intn(100); {
		case x < 39:
			ops = genFlowsDirect(rr, ln)
		case x < 44:
			ops = genOverlap(rr, ln)
		case x < 49:
			ops = genFlowsEngine(rr, ln)
		case x < 56:
			ops = genFlowsEngine2(rr, ln)
		case x < 82:
			ops = genPolicy(rr, ln, false)
		default:
			ops = genPolicy(rr, ln, true)
		}
		if rr.Chance(2) {
			ops = append(ops, prng.Pick(rr, []string{"fx", "presp seq=s1", "nonsense 1 2", "adv ns=x", "fproc name=Z attempts=q"}))
		}
		id++
		emit(proto.Case{ID: fmt.Sprintf("g%d", id), Ops: ops})
	}
	if f.Tier != "thorough" {
		return
	}
	// exhaustive small scope, flows direct: attempts 1..3, two keys, every schedule of length <= 8
	for att := 1; att <= 3; att++ {
		for l := 1; l <= 8; l++ {
			for m := 0; m < 1<<l; m++ {
				ops := []string{"fmode mode=direct timeout=1000", fmt.Sprintf("fproc name=R attempts=%d cooldown=1 mult4=2", att)}
				for b := 0; b < l; b++ {
					ops = append(ops, fmt.Sprintf("fx p=R seq=s%d", 1+(m>>b)&1))
				}
				ops = append(ops, "fleak")
				id++
				emit(proto.Case{ID: fmt.Sprintf("ef%d", id), Ops: ops})
			}
		}
	}
	// exhaustive small scope, policy: attempts 0..3, alphabet of 7 events, every history of length <= 5
	alpha := []string{"presp id=s1 seq=s1 status=500", "presp id=s1-r seq=s1 status=500", "presp id=s1-r seq=s1 status=200",
		"presp id=s2 seq=s2 status=500", "presp id=s2-r seq=s2 status=500", "adv ns=31000000000", "jump ns=31000000001"}
	for att := 0; att <= 3; att++ {
		for l := 1; l <= 5; l++ {
			tot := 1
			for i := 0; i < l; i++ {
				tot *= len(alpha)
			}
			for m := 0; m < tot; m++ {
				ops := []string{fmt.Sprintf("pcfg attempts=%d cooldown=0 mult=1 ranges=500-599 t0=1700000000000000000", att)}
				x := m
				for b := 0; b < l; b++ {
					ops = append(ops, alpha[x%len(alpha)])
					x /= len(alpha)
				}
				id++
				emit(proto.Case{ID: fmt.Sprintf("ep%d", id), Ops: ops})
			}
		}
	}
}
