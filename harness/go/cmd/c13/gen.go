package main

import (
	"fmt"
	"strings"

	"verif/harness/internal/prng"
	"verif/harness/internal/proto"
)

// ---- pattern / URL generators -------------------------------------------------------------

var (
	lits    = []string{"a", "b", "c"}
	segs    = []string{"a", "b", "c", "{p}", "{q}", "*"}
	hosts   = []string{"a.com", "b.com", "a.b", "api.a.com"}
	methods = []string{"GET", "POST", "HEAD"}
	values  = []string{"a", "b", "c", "x1", "me", "AbC", "{p}", "{z}", "*", ""}
)

func genPattern(r *prng.R) string {
	h := prng.Pick(r, hosts)
	if r.Chance(6) { // parameter or wildcard inside the host
		h = prng.Pick(r, []string{"{p}.com", "a.{p}", "*.com", "a.*", "{q}.a.com"})
	}
	n := r.Range(0, 4)
	parts := []string{h}
	for i := 0; i < n; i++ {
		s := prng.Pick(r, segs)
		if s == "*" && i != n-1 && !r.Chance(10) { // `*` mostly last
			s = prng.Pick(r, lits)
		}
		parts = append(parts, s)
	}
	return strings.Join(parts, "/")
}

// caseVariant changes the letter case of ONE literal piece (a host label or a constant path segment): the
// trie and the builder's per-URL table are case-sensitive, so the result is a DIFFERENT endpoint / URL.
func caseVariant(r *prng.R, u string) string {
	parts := strings.Split(u, "/")
	var cand [][2]int // (part index, label index or -1)
	for i, s := range parts {
		if i == 0 {
			for k, l := range strings.Split(s, ".") {
				if l != "" && l != "*" && !strings.HasPrefix(l, "{") && strings.ToUpper(l) != strings.ToLower(l) {
					cand = append(cand, [2]int{0, k})
				}
			}
		} else if s != "" && s != "*" && !strings.HasPrefix(s, "{") && strings.ToUpper(s) != strings.ToLower(s) {
			cand = append(cand, [2]int{i, -1})
		}
	}
	if len(cand) == 0 {
		return u
	}
	flip := func(x string) string {
		switch {
		case x != strings.ToLower(x):
			return strings.ToLower(x) // already has capitals: back to lower case
		case r.Bool():
			return strings.ToUpper(x)
		default:
			return strings.ToUpper(x[:1]) + x[1:]
		}
	}
	c := prng.Pick(r, cand)
	if c[1] < 0 {
		parts[c[0]] = flip(parts[c[0]])
	} else {
		hs := strings.Split(parts[0], ".")
		hs[c[1]] = flip(hs[c[1]])
		parts[0] = strings.Join(hs, ".")
	}
	return strings.Join(parts, "/")
}

// nearMissName returns `{name}` spelled slightly differently: another letter case, snake vs camel, a suffix.
func nearMissName(r *prng.R, seg string) string {
	name := strings.Trim(seg, "{}")
	var v string
	switch r.Intn(5) {
	case 0:
		v = strings.ToUpper(name)
	case 1:
		v = strings.ToLower(name)
	case 2:
		v = strings.ToUpper(name[:1]) + name[1:]
	case 3:
		v = strings.ReplaceAll(name, "_", "")
	default:
		v = name + "_"
	}
	if v == name {
		v = name + "X"
	}
	return "{" + v + "}"
}

// derive an overlapping pattern from an existing one
func derivePattern(r *prng.R, p string) string {
	parts := strings.Split(p, "/")
	switch r.Intn(10) {
	case 7: // the same pattern in another letter case (a different endpoint)
		return caseVariant(r, p)
	case 9: // a parameter renamed to a near-miss of its name (another letter case): a DIFFERENT name, insert refuses it
		for i := 1; i < len(parts); i++ {
			if strings.HasPrefix(parts[i], "{") && r.Bool() {
				parts[i] = nearMissName(r, parts[i])
				break
			}
		}
		if r.Bool() {
			parts = append(parts, prng.Pick(r, lits))
		}
		return strings.Join(parts, "/")
	case 0: // other + /*
		return strings.TrimSuffix(p, "/*") + "/*"
	case 1: // other + one segment
		if parts[len(parts)-1] == "*" {
			parts = parts[:len(parts)-1]
		}
		return strings.Join(append(parts, prng.Pick(r, segs)), "/")
	case 2, 3: // literal vs parameter vs wildcard at one position
		if len(parts) > 1 {
			i := r.Range(1, len(parts)-1)
			parts[i] = prng.Pick(r, segs)
			if parts[i] == "*" && i != len(parts)-1 {
				parts = parts[:i+1]
			}
		}
		return strings.Join(parts, "/")
	case 4: // same prefix, different tail
		k := r.Range(1, len(parts))
		q := append([]string{}, parts[:k]...)
		for j := r.Range(0, 2); j > 0; j-- {
			q = append(q, prng.Pick(r, segs[:5]))
		}
		return strings.Join(q, "/")
	case 5: // truncation by one segment
		if len(parts) > 1 {
			parts = parts[:len(parts)-1]
		}
		return strings.Join(parts, "/")
	case 6: // host/path boundary moved: a.com/x/y -> a.com.x/y
		if len(parts) > 1 {
			return parts[0] + "." + strings.Join(parts[1:], "/")
		}
		return p + ".x"
	default: // identical pattern (another method, or a duplicate)
		return p
	}
}

func instantiate(r *prng.R, p string, adversarial bool) string {
	parts := strings.Split(p, "/")
	var out []string
	for i, s := range parts {
		switch {
		case i == 0:
			hs := strings.Split(s, ".")
			for k, l := range hs {
				if strings.HasPrefix(l, "{") || l == "*" {
					hs[k] = prng.Pick(r, lits)
				}
			}
			out = append(out, strings.Join(hs, "."))
		case s == "*":
			for j := r.Range(0, 2); j > 0; j-- {
				out = append(out, prng.Pick(r, lits))
			}
		case strings.HasPrefix(s, "{"):
			if adversarial {
				out = append(out, prng.Pick(r, values))
			} else {
				out = append(out, prng.Pick(r, values[:6]))
			}
		default:
			out = append(out, s)
		}
	}
	return strings.Join(out, "/")
}

func deriveURL(r *prng.R, pats []string) string {
	if len(pats) == 0 || r.Chance(5) {
		return instantiate(r, genPattern(r), true)
	}
	u := instantiate(r, prng.Pick(r, pats), r.Chance(15))
	parts := strings.Split(u, "/")
	switch r.Intn(13) {
	case 12: // another letter case of one literal piece
		return caseVariant(r, strings.Join(parts, "/"))
	case 0: // truncation by one segment
		if len(parts) > 1 {
			parts = parts[:len(parts)-1]
		}
	case 1, 2: // extension by one or two segments
		for j := r.Range(1, 2); j > 0; j-- {
			parts = append(parts, prng.Pick(r, values[:6]))
		}
	case 3: // mutation of one segment
		i := r.Intn(len(parts))
		if i == 0 {
			parts[0] = prng.Pick(r, hosts)
		} else {
			parts[i] = prng.Pick(r, values)
		}
	case 4: // host/path boundary moved
		if len(parts) > 1 && r.Bool() {
			parts = append([]string{parts[0] + "." + parts[1]}, parts[2:]...)
		} else {
			parts[0] = parts[0] + "." + prng.Pick(r, lits)
		}
	case 5: // decoration the trim removes
		return prng.Pick(r, []string{"/", ".", ""}) + strings.Join(parts, "/") + prng.Pick(r, []string{"/", ".", "/.", ""})
	case 6: // empty segment
		i := r.Range(1, len(parts))
		parts = append(parts[:i], append([]string{""}, parts[i:]...)...)
	}
	return strings.Join(parts, "/")
}

// ---- L2 cases ---------------------------------------------------------------------------------

var perms = map[int][][]int{
	1: {{0}},
	2: {{0, 1}, {1, 0}},
	3: {{0, 1, 2}, {0, 2, 1}, {1, 0, 2}, {1, 2, 0}, {2, 0, 1}, {2, 1, 0}},
}

func allPerms(n int) [][]int {
	if p, ok := perms[n]; ok {
		return p
	}
	var out [][]int
	var rec func(cur []int, used int)
	rec = func(cur []int, used int) {
		if len(cur) == n {
			out = append(out, append([]int{}, cur...))
			return
		}
		for i := 0; i < n; i++ {
			if used&(1<<i) == 0 {
				rec(append(cur, i), used|1<<i)
			}
		}
	}
	rec(nil, 0)
	perms[n] = out
	return out
}

func permStr(p []int) string {
	s := make([]string, len(p))
	for i, v := range p {
		s[i] = fmt.Sprint(v)
	}
	return strings.Join(s, ",")
}

func genRemedies(r *prng.R, prefix string, onlyFix bool) string {
	n := r.Range(0, 2)
	if r.Chance(60) {
		n = 1
	}
	if n == 0 {
		return "-"
	}
	var out []string
	for i := 0; i < n; i++ {
		t := prng.Pick(r, []int{1, 2, 3, 7, 7, 0})
		if onlyFix {
			t = prng.Pick(r, []int{7, 7, 8}) // fixed response answers early, retry acts on the response leg
		}
		en := 1
		if r.Chance(12) {
			en = 0
		}
		out = append(out, fmt.Sprintf("%sr%d:%d:%d", prefix, i, t, en))
	}
	return strings.Join(out, ",")
}

func genDiags(r *prng.R, prefix string) string {
	if !r.Chance(30) {
		return "-"
	}
	en := 1
	if r.Chance(25) {
		en = 0
	}
	return fmt.Sprintf("%sd0:%d", prefix, en)
}

func genPolicyCase(r *prng.R, id string, allOrders bool) proto.Case {
	n := r.Range(1, 4)
	onlyFix := r.Chance(35)
	var pats []string
	var ops []string
	for i := 0; i < n; i++ {
		var p string
		if i == 0 || r.Chance(20) {
			p = genPattern(r)
		} else {
			p = derivePattern(r, prng.Pick(r, pats))
		}
		if r.Chance(3) { // malformed
			p = prng.Pick(r, []string{"a.com//x", "a.com/*/x", "a.com/*/*", "", "a..com/x", "a.com/{p}/{p}", "a.com/x/"})
		}
		pats = append(pats, p)
		m := prng.Pick(r, methods)
		if r.Chance(50) {
			m = "GET"
		}
		ops = append(ops, fmt.Sprintf("ep %s %s r=%s d=%s", m, proto.Enc(p), genRemedies(r, fmt.Sprintf("e%d", i), onlyFix), genDiags(r, fmt.Sprintf("e%d", i))))
	}
	if r.Chance(25) {
		ops = append(ops, fmt.Sprintf("glob r=%s d=%s", genRemedies(r, "g", onlyFix), genDiags(r, "g")))
	}
	var reqs []string
	for k := r.Range(3, 8); k > 0; k-- {
		m := prng.Pick(r, methods)
		if r.Chance(50) {
			m = "GET"
		}
		u := proto.Enc(deriveURL(r, pats))
		reqs = append(reqs, fmt.Sprintf("req %s %s", m, u))
		if onlyFix && r.Chance(50) {
			reqs = append(reqs, fmt.Sprintf("disp %s %s", m, u))
		}
	}
	// the declared URLs themselves are requests too (this is what the builder does)
	for _, p := range pats {
		if r.Chance(30) {
			reqs = append(reqs, fmt.Sprintf("req GET %s", proto.Enc(p)))
		}
	}
	orders := [][]int{allPerms(n)[0]}
	if allOrders {
		orders = allPerms(n)
	} else if n > 1 {
		orders = append(orders, prng.Pick(r, allPerms(n)[1:]))
	}
	for _, p := range orders {
		ops = append(ops, "build perm="+permStr(p))
		ops = append(ops, reqs...)
	}
	return proto.Case{ID: id, Ops: ops}
}

// Two or three endpoints whose URLs differ ONLY in letter case (host and/or constants next to parameters),
// with the same or different methods, every declaration order, requests in each spelling.
func genCaseVariantCase(r *prng.R, id string) proto.Case {
	base := prng.Pick(r, []string{"api.com/reports/{id}", "api.com/reports", "a.com/users/{id}/posts",
		"api.a.com/x/y", "a.com/x/*", "a.com/{p}/items", "b.com/v1/reports/{id}/rows/{q}"})
	pats := []string{base}
	n := r.Range(2, 3)
	for len(pats) < n {
		v := caseVariant(r, prng.Pick(r, pats))
		pats = append(pats, v) // may repeat a spelling: then it is a duplicated declaration
	}
	sameMethod := r.Bool()
	var ops []string
	for i, p := range pats {
		m := "GET"
		if !sameMethod {
			m = methods[i%len(methods)]
		}
		ops = append(ops, fmt.Sprintf("ep %s %s r=e%dr0:%d:1 d=%s", m, proto.Enc(p), i, i+1, genDiags(r, fmt.Sprintf("e%d", i))))
	}
	var reqs []string
	for _, p := range pats {
		u := instantiate(r, p, false)
		for _, m := range []string{"GET", "POST"} {
			reqs = append(reqs, fmt.Sprintf("req %s %s", m, proto.Enc(u)))
		}
		reqs = append(reqs, fmt.Sprintf("req GET %s", proto.Enc(caseVariant(r, u))))
	}
	for _, o := range allPerms(len(pats)) {
		ops = append(ops, "build perm="+permStr(o))
		ops = append(ops, reqs...)
	}
	return proto.Case{ID: id, Ops: ops}
}

// An endpoint declared with NO plugin or only DISABLED ones (the usual way to exempt one URL) inside a
// {param} / wildcard pattern that has enabled plugins: the exempt endpoint is still the most specific
// declared pattern and must shadow the general one (nothing endpoint-scoped is applied to it).
func genExemptCase(r *prng.R, id string) proto.Case {
	type pair struct{ general, exempt, other string }
	p := prng.Pick(r, []pair{
		{"api.com/users/{id}", "api.com/users/me", "api.com/users/7"},
		{"a.com/*", "a.com/health", "a.com/x/y"},
		{"a.com/x/*", "a.com/x/{p}", "a.com/x/y/z"},
		{"b.com/{p}/items", "b.com/a/items", "b.com/b/items"},
		{"a.com/x/{p}/*", "a.com/x/{p}/c", "a.com/x/b/d"},
	})
	plug := func(prefix string, mode int) (string, string) {
		switch mode {
		case 0: // nothing at all
			return "-", "-"
		case 1: // only disabled plugins
			return prefix + "r0:1:0", prefix + "d0:0"
		case 2: // disabled remedy, no diagnosis
			return prefix + "r0:2:0", "-"
		case 3: // mixed enabled / disabled
			return prefix + "r0:1:0," + prefix + "r1:2:1", prefix + "d0:0"
		default: // enabled
			return prefix + "r0:3:1", prefix + "d0:1"
		}
	}
	gr, gd := plug("g", 4)
	er, ed := plug("x", r.Intn(4))
	m := prng.Pick(r, methods)
	ops := []string{
		fmt.Sprintf("ep %s %s r=%s d=%s", m, proto.Enc(p.general), gr, gd),
		fmt.Sprintf("ep %s %s r=%s d=%s", m, proto.Enc(p.exempt), er, ed),
	}
	if r.Chance(30) {
		tr, td := plug("t", r.Intn(5))
		ops = append(ops, fmt.Sprintf("ep %s %s r=%s d=%s", prng.Pick(r, methods), proto.Enc(derivePattern(r, p.exempt)), tr, td))
	}
	if r.Chance(20) {
		ops = append(ops, "glob r=gg0:4:1 d=-")
	}
	n := len(ops)
	if strings.HasPrefix(ops[n-1], "glob") {
		n--
	}
	reqs := []string{
		fmt.Sprintf("req %s %s", m, proto.Enc(instantiate(r, p.exempt, false))),
		fmt.Sprintf("req %s %s", m, proto.Enc(p.other)),
		fmt.Sprintf("req %s %s", m, proto.Enc(instantiate(r, p.general, false))),
		fmt.Sprintf("req %s %s", prng.Pick(r, methods), proto.Enc(instantiate(r, p.exempt, false))),
	}
	for _, o := range allPerms(n) {
		ops = append(ops, "build perm="+permStr(o))
		ops = append(ops, reqs...)
	}
	return proto.Case{ID: id, Ops: ops}
}

// Nested wildcards at depths d1 < d2 with a parameter before d1 and another between d1 and d2 (also the
// host-parameter shape), requests ending at, one below and several below the deeper wildcard: the parameters
// reported with a wildcard match must be those collected up to THAT wildcard.
func genNestedWildcardCase(r *prng.R, id string) proto.Case {
	type shape struct{ outer, inner string }
	sh := prng.Pick(r, []shape{
		{"acme.com/{tenant}/*", "acme.com/{tenant}/{project}/*"},
		{"acme.com/{tenant}/*", "acme.com/{tenant}/x/{project}/*"},
		{"{region}.acme.com/*", "{region}.acme.com/jobs/{job}/*"},
		{"a.com/{p}/*", "a.com/{p}/b/{q}/c/*"},
		{"a.com/x/{p}/*", "a.com/x/{p}/{q}/*"},
	})
	inst := func(p string) string { return instantiate(r, strings.TrimSuffix(p, "/*"), false) }
	deep := inst(sh.inner)
	ops := []string{
		fmt.Sprintf("ep GET %s r=out:1:1 d=-", proto.Enc(sh.outer)),
		fmt.Sprintf("ep GET %s r=in:2:1 d=%s", proto.Enc(sh.inner), genDiags(r, "in")),
	}
	if r.Chance(30) { // a third, deeper or sibling pattern
		ops = append(ops, fmt.Sprintf("ep GET %s r=t:3:1 d=-", proto.Enc(derivePattern(r, sh.inner))))
	}
	n := len(ops)
	reqs := []string{
		"req GET " + proto.Enc(deep),                                        // ends AT the deeper wildcard (zero segments)
		"req GET " + proto.Enc(deep+"/"+prng.Pick(r, values[:6])),           // one below
		"req GET " + proto.Enc(deep+"/builds/7/log"),                        // several below
		"req GET " + proto.Enc(inst(sh.outer)+"/"+prng.Pick(r, values[:6])), // only the outer wildcard matches
		"req POST " + proto.Enc(deep+"/z"),
	}
	for _, o := range allPerms(n) {
		ops = append(ops, "build perm="+permStr(o))
		ops = append(ops, reqs...)
	}
	// the same shapes on the raw trie
	ops = append(ops, "t.ins d "+proto.Enc(sh.outer)+" 1", "t.ins d "+proto.Enc(sh.inner)+" 2",
		"t.look "+proto.Enc(deep+"/builds/7"), "t.look "+proto.Enc(deep))
	return proto.Case{ID: id, Ops: ops}
}

// ---- L4: production path ----------------------------------------------------------------------

// load -> requests -> RevertToDiagnosisFree -> requests -> RevertToLastLoaded -> requests, through the real
// TxnPoliciesAccessor; a specific endpoint with diagnoses only / no plugin / a remedy sits inside a broader
// pattern that carries a remedy.  After the diagnosis-free revert every DECLARED endpoint must still shadow.
func genRevertCase(r *prng.R, id string) proto.Case {
	type pair struct{ general, specific, other string }
	p := prng.Pick(r, []pair{
		{"api.com/v1/*", "api.com/v1/health", "api.com/v1/x"},
		{"api.com/users/{id}", "api.com/users/me", "api.com/users/7"},
		{"a.com/*", "a.com/x/{p}", "a.com/y"},
		{"b.com/{p}/items", "b.com/a/items", "b.com/b/items"},
	})
	plug := func(prefix string, mode int) (string, string) {
		switch mode {
		case 0:
			return "-", "-"
		case 1: // diagnosis only
			return "-", prefix + "d0:1"
		case 2: // disabled remedy + diagnosis
			return prefix + "r0:7:0", prefix + "d0:1"
		case 3: // retry only (nothing answers early) + diagnosis
			return prefix + "r0:8:1", prefix + "d0:1"
		default:
			return prefix + "r0:7:1", prefix + "d0:" + fmt.Sprint(r.Intn(2))
		}
	}
	m := prng.Pick(r, methods)
	gr, gd := plug("g", 4)
	sr, sd := plug("s", r.Intn(5))
	ops := []string{
		fmt.Sprintf("ep %s %s r=%s d=%s", m, proto.Enc(p.general), gr, gd),
		fmt.Sprintf("ep %s %s r=%s d=%s", m, proto.Enc(p.specific), sr, sd),
	}
	if r.Chance(40) {
		ops = append(ops, fmt.Sprintf("glob r=%s d=%s", prng.Pick(r, []string{"-", "gg0:7:1", "gg0:8:1"}), prng.Pick(r, []string{"-", "ggd0:1"})))
	}
	var reqs []string
	for _, u := range []string{instantiate(r, p.specific, false), p.other, instantiate(r, p.general, false)} {
		reqs = append(reqs, "req "+m+" "+proto.Enc(u), "spoe "+m+" "+proto.Enc(u))
	}
	reqs = append(reqs, "req "+prng.Pick(r, methods)+" "+proto.Enc(instantiate(r, p.specific, false)))
	order := prng.Pick(r, allPerms(2))
	ops = append(ops, "load perm="+permStr(order))
	ops = append(ops, reqs...)
	ops = append(ops, "revert free")
	ops = append(ops, reqs...)
	if r.Bool() {
		ops = append(ops, "revert last")
		ops = append(ops, reqs...)
	}
	return proto.Case{ID: id, Ops: ops}
}

// Whole transactions entered through the SPOE handler (routing.Handler, policy mode) with MIXED-CASE URLs:
// endpoints that differ only in letter case, literal segments with capitals, parameter values such as "AbC".
func genSpoeCase(r *prng.R, id string) proto.Case {
	base := prng.Pick(r, []string{"api.com/Users/{id}", "api.com/users/*", "a.com/Reports/{id}/rows", "API.com/x/{p}",
		"a.com/v1/Items/*", "b.com/{p}/Items"})
	pats := []string{base}
	for n := r.Range(2, 3); len(pats) < n; {
		if r.Bool() {
			pats = append(pats, caseVariant(r, prng.Pick(r, pats)))
		} else {
			pats = append(pats, derivePattern(r, prng.Pick(r, pats)))
		}
	}
	var ops []string
	for i, p := range pats {
		ops = append(ops, fmt.Sprintf("ep GET %s r=e%dr0:7:1 d=-", proto.Enc(p), i))
	}
	var reqs []string
	for _, p := range pats {
		u := strings.ReplaceAll(instantiate(r, p, false), "/me", "/AbC")
		if r.Bool() {
			u = instantiate(r, p, false)
		}
		for _, x := range []string{u, caseVariant(r, u), strings.ToLower(u), strings.ToUpper(u)} {
			reqs = append(reqs, "req GET "+proto.Enc(x), "spoe GET "+proto.Enc(x))
		}
	}
	ops = append(ops, "load perm="+permStr(prng.Pick(r, allPerms(len(pats)))))
	ops = append(ops, reqs...)
	return proto.Case{ID: id, Ops: ops}
}

// The same URL pattern declared under several methods, each with an authentication remedy on its OWN account
// (plus overlapping patterns and an optional global one); forwarded requests of every method in several
// first-seen orders, through the dispatcher and - after `load` - through the SPOE handler.  The credentials that
// leave the engine must be those of the remedy declared for the request's method.
func genAuthCase(r *prng.R, id string) proto.Case {
	base := prng.Pick(r, []string{"api.com/orders/{id}", "api.com/orders", "a.com/x/*", "a.com/{p}/items", "b.com/v1/{p}/rows/{q}"})
	pats := []string{base}
	if r.Chance(50) {
		pats = append(pats, derivePattern(r, base))
	}
	var ops []string
	k := 0
	for _, p := range pats {
		ms := append([]string{}, methods...)
		prng.Shuffle(r, ms)
		for _, m := range ms[:r.Range(2, 3)] {
			rem := fmt.Sprintf("k%d:9:1", k)
			if r.Chance(15) {
				rem = fmt.Sprintf("k%d:9:0", k) // disabled
			}
			if r.Chance(20) {
				rem += fmt.Sprintf(",f%d:7:1", k) // a fixed-response remedy next to it (inert without the early-response header)
			}
			ops = append(ops, fmt.Sprintf("ep %s %s r=%s d=-", m, proto.Enc(p), rem))
			k++
		}
	}
	if r.Chance(30) {
		ops = append(ops, "glob r=gk:9:1 d=-")
	}
	n := len(ops)
	if strings.HasPrefix(ops[n-1], "glob") {
		n--
	}
	var reqs []string
	for _, p := range pats {
		u := instantiate(r, p, false)
		for _, m := range methods {
			reqs = append(reqs, "auth "+m+" "+proto.Enc(u))
		}
		reqs = append(reqs, "req GET "+proto.Enc(u))
	}
	how := "build"
	if r.Bool() {
		how = "load"
	}
	for round := 0; round < 2; round++ {
		prng.Shuffle(r, reqs) // another first-seen order
		ops = append(ops, how+" perm="+permStr(prng.Pick(r, allPerms(n))))
		ops = append(ops, reqs...)
	}
	return proto.Case{ID: id, Ops: ops}
}

// MANY literal siblings under one parent (around the thresholds of the aggregation plugin's tree: 49, 50, 51, 52,
// 60): the endpoint policy tree never converges literal children into an assumed path parameter, each declared
// literal keeps matching only itself, whatever the number of siblings and the declaration order.
func genManySiblingsCase(r *prng.R, id string) proto.Case {
	n := prng.Pick(r, []int{49, 50, 51, 52, 60})
	parent := prng.Pick(r, []string{"api.x.com/v2/reports", "a.com", "a.com/{p}/r"})
	var ops []string
	for i := 0; i < n; i++ {
		// diagnoses / remedies of differing types: the duplicate check stays silent
		rem, dg := "-", fmt.Sprintf("d%d:1", i)
		if i%7 == 3 {
			rem, dg = fmt.Sprintf("r%d:%d:1", i, 1+i%3), "-"
		}
		ops = append(ops, fmt.Sprintf("ep GET %s r=%s d=%s", proto.Enc(fmt.Sprintf("%s/s%d", parent, i)), rem, dg))
	}
	if r.Bool() { // a deeper pattern below one of the siblings and a parameter sibling
		ops = append(ops, fmt.Sprintf("ep GET %s r=deep:7:1 d=-", proto.Enc(parent+"/s1/x/{q}")))
		n++
	}
	base := instantiate(r, parent, false)
	var reqs []string
	for _, i := range []int{0, 1, r.Intn(n), 48, 49, 50, n - 1} {
		reqs = append(reqs, "req GET "+proto.Enc(fmt.Sprintf("%s/s%d", base, i)))
	}
	reqs = append(reqs, "req GET "+proto.Enc(base+"/zzz"), "req GET "+proto.Enc(base+"/s1/x/7"), "req GET "+proto.Enc(base))
	fwd, rev := make([]int, n), make([]int, n)
	for i := range fwd {
		fwd[i], rev[i] = i, n-1-i
	}
	for _, o := range [][]int{fwd, rev} {
		ops = append(ops, "build perm="+permStr(o))
		ops = append(ops, reqs...)
	}
	return proto.Case{ID: id, Ops: ops}
}

// Two or three patterns that put a path parameter at the SAME tree position under names that differ only
// slightly ({userId}/{userid}, {id}/{ID}, {user_id}/{userId}): different names, so the declared insert refuses the
// second one, in every order; when it is accepted instead, requests report an undeclared pattern and parameters
// keyed by the other endpoint's spelling.
func genParamNameCase(r *prng.R, id string) proto.Case {
	type pair struct{ a, b string }
	p := prng.Pick(r, []pair{
		{"api.com/users/{userId}", "api.com/users/{userid}/posts"},
		{"api.com/users/{id}", "api.com/users/{ID}"},
		{"a.com/{user_id}/items", "a.com/{userId}/items/{item}"},
		{"a.com/x/{p}/y", "a.com/x/{P}/z"},
		{"{region}.acme.com/jobs", "{Region}.acme.com/tasks"},
	})
	pats := []string{p.a, p.b}
	if r.Chance(30) { // a third one with the SAME spelling as the first: accepted next to it
		pats = append(pats, p.a+"/"+prng.Pick(r, lits))
	}
	if r.Chance(30) { // same names everywhere: nothing to refuse
		pats[1] = strings.NewReplacer("{userid}", "{userId}", "{ID}", "{id}", "{userId}/items", "{user_id}/items", "{P}", "{p}", "{Region}", "{region}").Replace(pats[1])
	}
	var ops, reqs []string
	for i, q := range pats {
		ops = append(ops, fmt.Sprintf("ep %s %s r=e%dr0:%d:1 d=-", prng.Pick(r, []string{"GET", "GET", "POST"}), proto.Enc(q), i, i+1))
		u := instantiate(r, q, false)
		reqs = append(reqs, "req GET "+proto.Enc(u), "req POST "+proto.Enc(u))
	}
	for _, o := range allPerms(len(pats)) {
		ops = append(ops, "build perm="+permStr(o))
		ops = append(ops, reqs...)
	}
	// the raw trie says the same
	ops = append(ops, "t.ins d "+proto.Enc(p.a)+" 1", "t.ins d "+proto.Enc(p.b)+" 2", "t.look "+proto.Enc(instantiate(r, p.b, false)))
	return proto.Case{ID: id, Ops: ops}
}

// ---- L1 cases ---------------------------------------------------------------------------------

func genTrieCase(r *prng.R, id string) proto.Case {
	var ops, pats []string
	n := r.Range(1, 6)
	undeclared := r.Chance(30)
	for i := 0; i < n; i++ {
		var p string
		if i == 0 || r.Chance(25) {
			p = genPattern(r)
		} else {
			p = derivePattern(r, prng.Pick(r, pats))
		}
		if r.Chance(4) {
			p = prng.Pick(r, []string{"a.com//x", "a.com/*/x", "a.com/*/*", "", "a..com/x", "a.*.b.*", "a.com/{p}/{p}", "*"})
		}
		pats = append(pats, p)
		kind := "d"
		if undeclared && r.Chance(60) {
			kind = "u"
			if r.Chance(70) { // an observed URL rather than a pattern
				p = instantiate(r, p, false)
			}
		}
		ops = append(ops, fmt.Sprintf("t.ins %s %s %d", kind, proto.Enc(p), i+1))
		if r.Chance(20) {
			ops = append(ops, "t.look "+proto.Enc(deriveURL(r, pats)))
		}
	}
	for k := r.Range(3, 10); k > 0; k-- {
		ops = append(ops, "t.look "+proto.Enc(deriveURL(r, pats)))
	}
	for _, p := range pats {
		if r.Chance(30) {
			ops = append(ops, "t.look "+proto.Enc(p))
		}
	}
	return proto.Case{ID: id, Ops: ops}
}

// ---- exhaustive small scope (thorough) --------------------------------------------------------

func enumPaths(alpha []string, maxLen int, wildLastOnly bool) []string {
	out := []string{""}
	var rec func(prefix []string)
	rec = func(prefix []string) {
		if len(prefix) > 0 {
			out = append(out, "/"+strings.Join(prefix, "/"))
		}
		if len(prefix) == maxLen || (wildLastOnly && len(prefix) > 0 && prefix[len(prefix)-1] == "*") {
			return
		}
		for _, a := range alpha {
			rec(append(append([]string{}, prefix...), a))
		}
	}
	rec(nil)
	return out
}

// every set of <= 3 patterns (host a.com), every declaration order, every URL of the URL universe
func exhaustive(emit func(proto.Case), tag string, patAlpha []string, patLen int, urlAlpha []string, urlLen int, maxSet int) int {
	pats := enumPaths(patAlpha, patLen, true)
	urls := enumPaths(urlAlpha, urlLen, false)
	var reqs []string
	for _, u := range urls {
		reqs = append(reqs, "req GET "+proto.Enc("a.com"+u))
	}
	count := 0
	one := func(set []int) {
		if len(set) > maxSet {
			return
		}
		var ops []string
		for k, i := range set {
			// distinct methods for distinct endpoints would hide F13a behind the method map; use GET with
			// distinct remedy types so that the duplicate check never fires
			ops = append(ops, fmt.Sprintf("ep GET %s r=e%dr0:%d:1 d=-", proto.Enc("a.com"+pats[i]), k, k+1))
		}
		for _, p := range allPerms(len(set)) {
			ops = append(ops, "build perm="+permStr(p))
			ops = append(ops, reqs...)
		}
		count++
		emit(proto.Case{ID: fmt.Sprintf("%s%d", tag, count), Ops: ops})
	}
	for i := range pats {
		one([]int{i})
		for j := i + 1; j < len(pats); j++ {
			one([]int{i, j})
			for k := j + 1; k < len(pats); k++ {
				one([]int{i, j, k})
			}
		}
	}
	return count
}

func gen(r *prng.R, f proto.Flags, emit func(proto.Case)) {
	n := 5000
	if f.Tier == "thorough" {
		n = 40000
	}
	n *= f.Budget
	for k := 0; k < n; k++ {
		rr := r.Fork()
		switch {
		case k%25 == 7:
			emit(genCaseVariantCase(rr, fmt.Sprintf("c%d", k)))
		case k%25 == 8:
			emit(genExemptCase(rr, fmt.Sprintf("e%d", k)))
		case k%25 == 9:
			emit(genNestedWildcardCase(rr, fmt.Sprintf("w%d", k)))
		case k%25 == 10:
			emit(genRevertCase(rr, fmt.Sprintf("v%d", k)))
		case k%25 == 11:
			emit(genSpoeCase(rr, fmt.Sprintf("s%d", k)))
		case k%25 == 12:
			emit(genAuthCase(rr, fmt.Sprintf("a%d", k)))
		case k%100 == 13:
			emit(genManySiblingsCase(rr, fmt.Sprintf("m%d", k)))
		case k%25 == 14:
			emit(genParamNameCase(rr, fmt.Sprintf("n%d", k)))
		case k%3 == 0:
			emit(genTrieCase(rr, fmt.Sprintf("t%d", k)))
		default:
			emit(genPolicyCase(rr, fmt.Sprintf("p%d", k), rr.Chance(40)))
		}
	}
	if f.Tier == "thorough" {
		// all sets of <= 3 patterns of <= 2 path segments over {a,b,{p},*}, all orders, all URLs of <= 3 segments over {a,b,c}
		exhaustive(emit, "xa", []string{"a", "b", "{p}", "*"}, 2, []string{"a", "b", "c"}, 3, 3)
		// all sets of <= 3 patterns of <= 3 path segments over {a,{p},*}, all orders, all URLs of <= 4 segments over {a,b}
		exhaustive(emit, "xb", []string{"a", "{p}", "*"}, 3, []string{"a", "b"}, 4, 3)
		// two parameter names (name conflicts are build errors): <= 2 path segments over {a,b,{p},{q},*}
		exhaustive(emit, "xc", []string{"a", "b", "{p}", "{q}", "*"}, 2, []string{"a", "b", "c"}, 3, 3)
		// all PAIRS of patterns of <= 3 path segments over {a,b,{p},*}, both orders, all URLs of <= 4 segments over {a,b}
		exhaustive(emit, "xd", []string{"a", "b", "{p}", "*"}, 3, []string{"a", "b"}, 4, 2)
	} else {
		// quick: the sets of <= 2 patterns of the first universe
		exhaustive(emit, "xa", []string{"a", "{p}", "*"}, 2, []string{"a", "b"}, 3, 3)
	}
}
