// Harness for C13: drives (L1) the real urltree.URLTree (InsertDeclaredURL / Insert / Lookup),
// (L2) the production wiring config.BuildPolicyData (-> BuildEndpointPolicyTree) + the REAL
// runner.getRemedies/getDiagnoses/shouldDiagnose (through runner/export_verif.go, build tag verif) +
// EndpointPolicyTree.Lookup, and (L3) the exported runner.DispatchOnRequest with
// fixed-response remedies, whose status code tells which remedy the dispatcher really selected.
package main

import (
	"encoding/json"
	"fmt"
	"sort"
	"strconv"
	"strings"
	"time"

	"lunar/engine/config"
	lunarMessages "lunar/engine/messages"
	"lunar/engine/runner"
	"lunar/engine/services"
	"lunar/engine/services/remedies"
	"lunar/engine/utils"
	sharedConfig "lunar/shared-model/config"
	"lunar/toolkit-core/urltree"

	"github.com/negasus/haproxy-spoe-go/action"
	"github.com/rs/zerolog"

	"verif/harness/internal/proto"
)

const rule = "endpoint declarations with overlapping literal/parameter/wildcard patterns x methods x declaration orders x request URLs " +
	"(instantiated, truncated, extended, mutated, adversarial), plus raw-trie insert/lookup scripts; " +
	"non-trivial = a case in which at least one lookup matched and at least one did not, or two patterns overlap on a request; " +
	"distinct by (ops, answers)"

func enc2(s string) string {
	return strings.ReplaceAll(strings.ReplaceAll(proto.Enc(s), ",", "%2C"), "=", "%3D")
}

func fmtParams(p map[string]string) string {
	if len(p) == 0 {
		return "-"
	}
	items := make([]string, 0, len(p))
	for k, v := range p {
		items = append(items, enc2(k)+"="+enc2(v))
	}
	sort.Strings(items)
	return strings.Join(items, ",")
}

func fmtNames(n []string) string {
	if len(n) == 0 {
		return "-"
	}
	return strings.Join(n, ",")
}

func errClass(err error) string {
	if err == nil {
		return "ok"
	}
	m := err.Error()
	switch {
	case strings.Contains(m, "This would cause a conflict"):
		return "err:dup"
	case strings.Contains(m, "URL part cannot be empty"):
		return "err:empty"
	case strings.Contains(m, "wildcard is only allowed at the end"):
		return "err:wildcard"
	case strings.Contains(m, "does not match existing name"):
		return "err:param"
	}
	return "err:other:" + proto.Enc(m)
}

type remedySpec struct {
	name    string
	typ     int
	enabled bool
}

func mkRemedy(r remedySpec, code int) sharedConfig.Remedy {
	out := sharedConfig.Remedy{Name: r.name, Enabled: r.enabled}
	switch sharedConfig.RemedyType(r.typ) {
	case sharedConfig.RemedyUndefined:
	case sharedConfig.RemedyCaching:
		out.Config.Caching = &sharedConfig.CachingConfig{}
	case sharedConfig.RemedyResponseBasedThrottling:
		out.Config.ResponseBasedThrottling = &sharedConfig.ResponseBasedThrottlingConfig{}
	case sharedConfig.RemedyStrategyBasedThrottling:
		out.Config.StrategyBasedThrottling = &sharedConfig.StrategyBasedThrottlingConfig{}
	case sharedConfig.RemedyConcurrencyBasedThrottling:
		out.Config.ConcurrencyBasedThrottling = &sharedConfig.ConcurrencyBasedThrottlingConfig{}
	case sharedConfig.RemedyStrategyBasedQueue:
		out.Config.StrategyBasedQueue = &sharedConfig.StrategyBasedQueueConfig{}
	case sharedConfig.RemedyAccountOrchestration:
		out.Config.AccountOrchestration = &sharedConfig.AccountOrchestrationConfig{}
	case sharedConfig.RemedyFixedResponse:
		out.Config.FixedResponse = &sharedConfig.FixedResponseConfig{StatusCode: code}
	case sharedConfig.RemedyRetry:
		// one attempt, every status: acts (ModifyResponse) on the response leg and keeps no state afterwards
		out.Config.Retry = &sharedConfig.RetryConfig{Attempts: 1, InitialCooldownSeconds: 1, CooldownMultiplier: 1,
			Conditions: sharedConfig.RetryConfigConditions{StatusCode: []sharedConfig.Range[int]{{From: 100, To: 599}}}}
	case sharedConfig.RemedyAuth:
		// every authentication remedy has its OWN account, whose api key is sent as header x-k-<remedy>: <remedy>
		out.Config.Authentication = &sharedConfig.AuthConfig{Account: sharedConfig.AccountID("acct-" + r.name)}
	default:
		panic("harness: unknown remedy type tag")
	}
	if int(out.Type()) != r.typ {
		panic(fmt.Sprintf("harness: remedy type tag %d became %d", r.typ, int(out.Type())))
	}
	return out
}

func parseRemedies(s string) ([]remedySpec, bool) {
	if s == "-" {
		return nil, true
	}
	var out []remedySpec
	for _, it := range strings.Split(s, ",") {
		f := strings.Split(it, ":")
		if len(f) != 3 {
			return nil, false
		}
		t, err := strconv.Atoi(f[1])
		if err != nil || t < 0 || t > 9 {
			return nil, false
		}
		out = append(out, remedySpec{f[0], t, f[2] == "1"})
	}
	return out, true
}

func parseDiags(s string) ([]sharedConfig.Diagnosis, bool) {
	if s == "-" {
		return nil, true
	}
	var out []sharedConfig.Diagnosis
	for _, it := range strings.Split(s, ",") {
		f := strings.Split(it, ":")
		if len(f) != 2 {
			return nil, false
		}
		out = append(out, sharedConfig.Diagnosis{Name: f[0], Enabled: f[1] == "1",
			Config: sharedConfig.DiagnosisConfig{Void: &sharedConfig.VoidConfig{}}, Export: "file"})
	}
	return out, true
}

type state struct {
	tree         *urltree.URLTree[int]
	eps          []sharedConfig.EndpointConfig
	glob         sharedConfig.Global // globals in force (after a diagnosis-free revert: without diagnoses)
	declaredGlob sharedConfig.Global
	pt           *config.EndpointPolicyTree
	codes        map[int]string // fixed-response status code -> remedy name
	nextCode     int
	onlyFix      bool // every declared remedy so far is a fixed-response or retry one (precondition of `disp`)
	authOK       bool // ... or an authentication one, at most one per remedies list (precondition of `auth`)
	accounts     map[sharedConfig.AccountID]sharedConfig.Account
	viaProd      bool // the tree in force was loaded through the production accessor (L4)
	authInit     bool // this case got its own AuthPlugin (its credential cache lives as long as the plugin)
}

func (st *state) remedies(specs []remedySpec) []sharedConfig.Remedy {
	var out []sharedConfig.Remedy
	nAuth := 0
	for _, r := range specs {
		if r.typ == int(sharedConfig.RemedyAuth) {
			nAuth++
		}
	}
	if nAuth > 1 {
		st.authOK = false
	}
	for _, r := range specs {
		code := 0
		if r.typ == int(sharedConfig.RemedyFixedResponse) {
			code = st.nextCode
			st.nextCode++
			st.codes[code] = r.name
		} else if r.typ == int(sharedConfig.RemedyAuth) {
			st.onlyFix = false
			st.accounts[sharedConfig.AccountID("acct-"+r.name)] = sharedConfig.Account{
				Authentication: sharedConfig.Authentication{APIKey: &sharedConfig.APIKey{
					Tokens: []sharedConfig.Header{{Name: "x-k-" + r.name, Value: r.name}}}}}
		} else if r.typ != int(sharedConfig.RemedyRetry) {
			st.onlyFix = false
			st.authOK = false
		}
		out = append(out, mkRemedy(r, code))
	}
	return out
}

var (
	svc    *services.PoliciesServices
	worker *runner.DiagnosisWorker
)

type nopWriter struct{}

func (nopWriter) Write(b []byte) (int, error) { return len(b), nil }
func (nopWriter) Close() error                { return nil }

// The dispatcher needs the plugin services; only the (stateless) fixed-response plugin is ever reached.
func ensureServices() {
	if svc != nil {
		return
	}
	s, err := services.Initialize(nopWriter{}, 5*time.Second, sharedConfig.Exporters{})
	if err != nil {
		panic("harness: services.Initialize: " + err.Error())
	}
	svc = s
	worker = runner.NewDiagnosisWorker()
}

func exec(c proto.Case, o *proto.Out) []string {
	outs := make([]string, len(c.Ops))
	st := &state{tree: urltree.NewURLTree[int](false, 0), codes: map[int]string{}, nextCode: 200, onlyFix: true, authOK: true,
		accounts: map[sharedConfig.AccountID]sharedConfig.Account{}}
	matched, missed, overlap := 0, 0, false
	for i, op := range c.Ops {
		w := strings.Fields(op)
		if len(w) == 0 {
			outs[i] = "bad-op"
			continue
		}
		switch {
		case w[0] == "t.ins" && len(w) == 4:
			v, err := strconv.Atoi(w[3])
			if err != nil || v < 0 || (w[1] != "d" && w[1] != "u") {
				outs[i] = "bad-op"
				break
			}
			val := v
			if w[1] == "d" {
				err = st.tree.InsertDeclaredURL(proto.Dec(w[2]), &val)
			} else {
				err = st.tree.Insert(proto.Dec(w[2]), &val)
			}
			outs[i] = errClass(err)
			o.Count("t.ins-" + strings.SplitN(outs[i], ":other", 2)[0])
		case w[0] == "t.look" && len(w) == 2:
			r := st.tree.Lookup(proto.Dec(w[1]))
			if !r.Match {
				outs[i] = "m=0"
				missed++
				o.Count("t.look-miss")
			} else {
				v := "nil"
				if r.Value != nil {
					v = strconv.Itoa(*r.Value)
				}
				outs[i] = fmt.Sprintf("m=1 v=%s norm=%s params=%s", v, proto.Enc(r.NormalizedURL), fmtParams(r.PathParams))
				matched++
				o.Count("t.look-match")
				if strings.HasSuffix(r.NormalizedURL, "*") {
					o.Count("t.look-match-wildcard")
				}
			}
		case w[0] == "ep" && len(w) == 5:
			rs, ok1 := kvParse(w[3:], "r", parseRemedies)
			ds, ok2 := kvParse(w[3:], "d", parseDiags)
			if !ok1 || !ok2 {
				outs[i] = "bad-op"
				break
			}
			st.eps = append(st.eps, sharedConfig.EndpointConfig{Method: proto.Dec(w[1]), URL: proto.Dec(w[2]),
				Remedies: st.remedies(rs), Diagnosis: ds})
			outs[i] = "ok"
		case w[0] == "glob" && len(w) == 3:
			rs, ok1 := kvParse(w[1:], "r", parseRemedies)
			ds, ok2 := kvParse(w[1:], "d", parseDiags)
			if !ok1 || !ok2 {
				outs[i] = "bad-op"
				break
			}
			st.declaredGlob = sharedConfig.Global{Remedies: st.remedies(rs), Diagnosis: ds}
			st.glob = st.declaredGlob
			outs[i] = "ok"
		case (w[0] == "build" || w[0] == "load") && len(w) <= 2:
			var order []int
			if len(w) == 2 {
				p, ok := proto.KV(w[1:], "perm")
				if !ok {
					outs[i] = "bad-op"
					break
				}
				bad := false
				for _, f := range strings.Split(p, ",") {
					n, err := strconv.Atoi(f)
					if err != nil || n < 0 {
						bad = true
						break
					}
					order = append(order, n)
				}
				if bad {
					outs[i] = "bad-op"
					break
				}
			} else {
				for k := range st.eps {
					order = append(order, k)
				}
			}
			var eps []sharedConfig.EndpointConfig
			for _, k := range order {
				if k < len(st.eps) {
					// fresh copies: BuildEndpointPolicyTree keeps slices of the endpoint it is given
					e := st.eps[k]
					e.Remedies = append([]sharedConfig.Remedy(nil), e.Remedies...)
					e.Diagnosis = append([]sharedConfig.Diagnosis(nil), e.Diagnosis...)
					eps = append(eps, e)
				}
			}
			// the authentication plugin caches credentials per (method, normalised URL) for its whole life, even
			// across policy reloads: every tree gets a fresh plugin so that an answer depends on this tree only
			st.authInit = false
			if w[0] == "load" {
				st.glob = st.declaredGlob
				outs[i] = st.load(eps, o)
				st.viaProd = true
				break
			}
			st.viaProd = false
			// the PRODUCTION wiring (YAML load / apply_policies): BuildPolicyData on a PoliciesConfig, which
			// decides what reaches BuildEndpointPolicyTree
			st.glob = st.declaredGlob
			pd, err := config.BuildPolicyData(&sharedConfig.PoliciesConfig{Global: st.glob, Endpoints: eps}, false)
			outs[i] = errClass(err)
			o.Count("build-" + strings.SplitN(outs[i], ":other", 2)[0])
			if err != nil {
				st.pt = nil
			} else {
				st.pt = &pd.EndpointPolicyTree
			}
		case w[0] == "revert" && len(w) == 2 && (w[1] == "free" || w[1] == "last"):
			if st.pt == nil {
				outs[i] = "no-tree"
				break
			}
			outs[i] = st.revert(w[1], o)
		case w[0] == "auth" && len(w) == 3:
			if st.pt == nil {
				outs[i] = "no-tree"
				break
			}
			if !st.authOK {
				outs[i] = "unsupported"
				break
			}
			outs[i] = st.auth(proto.Dec(w[1]), proto.Dec(w[2]), o)
		case w[0] == "spoe" && len(w) == 3:
			if st.pt == nil {
				outs[i] = "no-tree"
				break
			}
			if !st.onlyFix {
				outs[i] = "unsupported"
				break
			}
			outs[i] = st.spoe(proto.Dec(w[1]), proto.Dec(w[2]), o)
		case w[0] == "req" && len(w) == 3:
			if st.pt == nil {
				outs[i] = "no-tree"
				break
			}
			outs[i] = st.req(proto.Dec(w[1]), proto.Dec(w[2]), o)
			if strings.HasPrefix(outs[i], "val=1") {
				matched++
			} else {
				missed++
			}
			if strings.Contains(outs[i], " params=") && !strings.HasSuffix(outs[i], "params=-") {
				overlap = true
			}
		case w[0] == "disp" && len(w) == 3:
			if st.pt == nil {
				outs[i] = "no-tree"
				break
			}
			if !st.onlyFix {
				outs[i] = "unsupported"
				break
			}
			outs[i] = st.disp(proto.Dec(w[1]), proto.Dec(w[2]), o)
		default:
			outs[i] = "bad-op"
		}
	}
	if matched > 0 && (missed > 0 || overlap) {
		o.NonTrivial(strings.Join(c.Ops, "|") + "#" + strings.Join(outs, "|"))
	}
	return outs
}

func kvParse[T any](w []string, k string, f func(string) (T, bool)) (T, bool) {
	s, ok := proto.KV(w, k)
	if !ok {
		var z T
		return z, false
	}
	return f(s)
}

// req = what runner.getRemedies / getDiagnoses / shouldDiagnose compute, on the real tree.
func (st *state) req(method, url string, o *proto.Out) string {
	// the REAL selection of the dispatcher (runner/export_verif.go, build tag verif) ...
	var rem, diag, grem, gdiag []string
	for _, sr := range runner.VerifGetRemedies(method, url, st.pt, &st.glob) {
		if sr.Scope == utils.ScopeGlobal {
			grem = append(grem, sr.Remedy.Name)
		} else {
			rem = append(rem, sr.Remedy.Name)
		}
	}
	for _, sdg := range runner.VerifGetDiagnoses(method, url, st.pt, st.glob.Diagnosis) {
		if sdg.Scope == utils.ScopeGlobal {
			gdiag = append(gdiag, sdg.Diagnosis.Name)
		} else {
			diag = append(diag, sdg.Diagnosis.Name)
		}
	}
	sd := runner.VerifShouldDiagnose(method, url, st.pt, &st.glob)
	// ... and the lookup it is based on, for the policy URL, the normalised URL and the parameters
	lr := st.pt.Lookup(url)
	val, pol := 0, "-"
	norm, params := "%e", "-"
	if lr.Value != nil {
		val = 1
		norm, params = proto.Enc(lr.NormalizedURL), fmtParams(lr.PathParams)
		if p, found := (*lr.Value)[urltree.Method(method)]; found {
			pol = proto.Enc(p.URL)
			o.Count("req-policy")
			if len(rem) == 0 && len(diag) == 0 {
				o.Count("req-policy-nothing-enabled")
			}
		} else {
			o.Count("req-value-other-method")
		}
		if strings.HasSuffix(lr.NormalizedURL, "*") {
			o.Count("req-wildcard")
		}
	} else {
		o.Count("req-none")
	}
	b := 0
	if sd {
		b = 1
	}
	return fmt.Sprintf("val=%d pol=%s rem=%s grem=%s diag=%s gdiag=%s sd=%d norm=%s params=%s",
		val, pol, fmtNames(rem), fmtNames(grem), fmtNames(diag), fmtNames(gdiag), b, norm, params)
}

// disp = the real runner.DispatchOnRequest; the early response's status code names the first selected remedy.
func (st *state) disp(method, url string, o *proto.Out) string {
	ensureServices()
	onReq := lunarMessages.OnRequest{
		ID: "verif-1", SequenceID: "verif-1", Method: method, Scheme: "http", URL: url, Path: "/",
		Headers: map[string]string{"early-response": "true"}, Time: time.Unix(1_700_000_000, 0),
	}
	pc := &sharedConfig.PoliciesConfig{Global: st.glob}
	acts, err := runner.DispatchOnRequest(onReq, st.pt, pc, svc, worker)
	if err != nil {
		return "err"
	}
	return st.readDispatch(acts, o, "disp")
}

// auth = a forwarded (not early-answered) request: the credentials that leave the engine in `request_headers`
// name the authentication remedies that were applied (header x-k-<remedy>).  Through the SPOE handler when the
// policies were loaded by the production accessor, else through runner.DispatchOnRequest.
func (st *state) auth(method, url string, o *proto.Out) string {
	ensureServices()
	if !st.authInit { // the plugin caches credentials per endpoint for its whole life: one plugin per case
		svc.Remedies.AuthPlugin = remedies.NewAuthPlugin()
		st.authInit = true
	}
	var acts action.Actions
	if st.viaProd {
		acts = ensureProd().send(method, url, "")
	} else {
		onReq := lunarMessages.OnRequest{
			ID: "verif-a", SequenceID: "verif-a", Method: method, Scheme: "http", URL: url, Path: "/",
			Headers: map[string]string{}, Time: time.Unix(1_700_000_000, 0),
		}
		var err error
		acts, err = runner.DispatchOnRequest(onReq, st.pt,
			&sharedConfig.PoliciesConfig{Global: st.glob, Accounts: st.accounts}, svc, worker)
		if err != nil {
			return "err"
		}
	}
	var keys []string
	for _, a := range acts {
		if a.Name != "request_headers" {
			continue
		}
		if hs, ok := a.Value.(string); ok {
			for _, l := range strings.Split(hs, "\n") {
				if strings.HasPrefix(l, "x-k-") {
					if k := strings.SplitN(l, ":", 2); len(k) == 2 {
						keys = append(keys, strings.TrimSpace(k[1]))
					}
				}
			}
		}
	}
	sort.Strings(keys)
	if len(keys) > 0 {
		o.Count("auth-credentials")
	} else {
		o.Count("auth-none")
	}
	return "keys=" + fmtNames(keys)
}

// readDispatch decodes what DispatchOnRequest answered: which fixed-response remedy produced the early
// response, how many remedies were active on the request leg and on the response leg of the early answer.
func (st *state) readDispatch(acts action.Actions, o *proto.Out, tag string) string {
	first, n, resp := "-", 0, 0
	count := func(v any) int {
		k := 0
		if raw, ok := v.([]byte); ok {
			var m map[string][]any
			if json.Unmarshal(raw, &m) == nil {
				for _, l := range m {
					k += len(l)
				}
			}
		}
		return k
	}
	for _, a := range acts {
		switch a.Name {
		case "status_code":
			if code, ok := a.Value.(int); ok {
				first = st.codes[code]
				if first == "" {
					first = fmt.Sprintf("code%d", code)
				}
			}
		case "request_active_remedies":
			n += count(a.Value)
		case "response_active_remedies": // the early answer went through the response leg and was modified there
			resp += count(a.Value)
		}
	}
	if first == "-" {
		o.Count(tag + "-noop")
		return "noop"
	}
	o.Count(tag + "-early")
	if resp > 0 {
		o.Count(tag + "-early-response-leg-active")
	}
	return fmt.Sprintf("early=%s n=%d resp=%d", first, n, resp)
}

func main() {
	zerolog.SetGlobalLevel(zerolog.Disabled)
	proto.Main(proto.Harness{Rule: rule, Gen: gen, Exec: exec})
}
