package main

// Level L4: the PRODUCTION path of a policy-mode transaction and of a policies (re)load.
//
//   load perm=..   the declared endpoints + globals are written as policies.yaml and loaded by the REAL
//                  config.TxnPoliciesAccessor.ReloadFromFile (YAML decode + validation, persistLoaded incl. the
//                  diagnosis-free copy, BuildPolicyData, UpdatePoliciesData)
//   revert free    TxnPoliciesAccessor.RevertToDiagnosisFree (what the diagnosis fail-safe does)
//   revert last    TxnPoliciesAccessor.RevertToLastLoaded
//   spoe m url     a `lunar-on-request` SPOE message through the REAL routing.Handler in policy mode
//                  (readRequestArgs -> GetTxnPoliciesData -> runner.DispatchOnRequest), early-response header set
//
// The handler needs a *routing.HandlingDataManager; its policy-mode fields are private, so a zero value is
// filled in through reflect+unsafe (policiesServices, diagnosisWorker, configBuildResult) - no telemetry, no
// syslog dial, no HAProxy: http.DefaultClient (the only client config/update_endpoints.go uses) answers 200.

import (
	"bytes"
	"fmt"
	"io"
	"net/http"
	"os"
	"path/filepath"
	"reflect"
	"unsafe"

	"lunar/engine/config"
	"lunar/engine/routing"
	sharedConfig "lunar/shared-model/config"

	"github.com/negasus/haproxy-spoe-go/action"
	"github.com/negasus/haproxy-spoe-go/message"
	"github.com/negasus/haproxy-spoe-go/payload/kv"
	"github.com/negasus/haproxy-spoe-go/request"

	"verif/harness/internal/proto"
)

type okTransport struct{}

func (okTransport) RoundTrip(r *http.Request) (*http.Response, error) {
	if r.Body != nil {
		io.Copy(io.Discard, r.Body)
		r.Body.Close()
	}
	return &http.Response{StatusCode: 200, Status: "200 OK", Proto: "HTTP/1.1", ProtoMajor: 1, ProtoMinor: 1,
		Header: http.Header{}, Body: io.NopCloser(bytes.NewReader([]byte("OK"))), Request: r, ContentLength: 2}, nil
}

type prodWorld struct {
	dir      string
	accessor *config.TxnPoliciesAccessor
	handler  routing.MessageHandler
	txn      int
}

var prod *prodWorld

func setPrivate(v reflect.Value, field string, val any) {
	f := v.FieldByName(field)
	if !f.IsValid() {
		panic("c13 prod: routing.HandlingDataManager has no field " + field)
	}
	reflect.NewAt(f.Type(), unsafe.Pointer(f.UnsafeAddr())).Elem().Set(reflect.ValueOf(val))
}

func ensureProd() *prodWorld {
	if prod != nil {
		return prod
	}
	ensureServices()
	dir, err := os.MkdirTemp("", "verif-c13-prod-")
	if err != nil {
		panic(err)
	}
	os.Setenv("LUNAR_PROXY_POLICIES_CONFIG", filepath.Join(dir, "policies.yaml"))
	os.Setenv("LUNAR_PROXY_CONFIG_DIR", dir)
	http.DefaultClient.Transport = okTransport{}
	empty, err := config.BuildPolicyData(&sharedConfig.PoliciesConfig{}, false)
	if err != nil {
		panic(err)
	}
	acc := config.NewTxnPoliciesAccessor(empty)
	rd := &routing.HandlingDataManager{}
	v := reflect.ValueOf(rd).Elem()
	setPrivate(v, "policiesServices", svc)
	pd := v.FieldByName("PoliciesData")
	setPrivate(pd, "diagnosisWorker", worker)
	setPrivate(pd, "configBuildResult", config.BuildResult{Accessor: &acc, Initial: empty})
	prod = &prodWorld{dir: dir, accessor: &acc, handler: routing.Handler(rd)}
	return prod
}

// after a (re)load or a revert the harness serves requests from the accessor's CURRENT data
func (st *state) adopt(w *prodWorld) {
	d := w.accessor.GetCurrentPoliciesData()
	st.pt = &d.EndpointPolicyTree
	st.glob = d.Config.Global
}

func (st *state) load(eps []sharedConfig.EndpointConfig, o *proto.Out) string {
	w := ensureProd()
	cfg := &sharedConfig.PoliciesConfig{Global: st.glob, Endpoints: eps, Accounts: st.accounts,
		Exporters: sharedConfig.Exporters{File: &sharedConfig.FileExporterConfig{FileDir: w.dir, FileName: "out"}}}
	if err := config.WritePoliciesConfig(os.Getenv("LUNAR_PROXY_POLICIES_CONFIG"), cfg); err != nil {
		panic("c13 prod: cannot write policies.yaml: " + err.Error())
	}
	err := w.accessor.ReloadFromFile()
	out := errClass(err)
	o.Count("load-" + out)
	if err != nil {
		st.pt = nil
		return out
	}
	st.adopt(w)
	return out
}

func (st *state) revert(kind string, o *proto.Out) string {
	w := ensureProd()
	var err error
	if kind == "free" {
		err = w.accessor.RevertToDiagnosisFree()
	} else {
		err = w.accessor.RevertToLastLoaded()
	}
	o.Count("revert-" + kind)
	if err != nil {
		st.pt = nil
		return "err:other:" + proto.Enc(err.Error())
	}
	st.adopt(w)
	return "ok"
}

// send pushes one lunar-on-request SPOE message through the real handler and returns its actions
func (w *prodWorld) send(method, url, headers string) action.Actions {
	w.txn++
	id := fmt.Sprintf("verif-spoe-%d", w.txn)
	kvs := kv.NewKV()
	kvs.Add("id", id)
	kvs.Add("sequence_id", id)
	kvs.Add("method", method)
	kvs.Add("scheme", "http")
	kvs.Add("url", url)
	kvs.Add("path", "/")
	kvs.Add("query", "")
	kvs.Add("headers", headers)
	kvs.Add("body", []byte(""))
	req := request.Request{Messages: &message.Messages{{Name: "lunar-on-request", KV: kvs}}}
	w.handler(&req)
	return req.Actions
}

func (st *state) spoe(method, url string, o *proto.Out) string {
	return st.readDispatch(ensureProd().send(method, url, "early-response:true\n"), o, "spoe")
}
