package main

// The worker: a child process of the harness that executes cases against the real engine.  A stack
// overflow (F05a, F05b) is fatal in Go and cannot be recovered, so the engine never runs in the
// harness process itself.  Protocol (stdin/stdout, line based):
//
//	parent -> worker   CASE
//	                   <forced answer or "-">\t<op line>      (one per op)
//	                   END
//	worker -> parent   B <i>            about to execute op i
//	                   A <i> <answer>   op i answered
//	                   K <key>          distribution counter
//	                   N                the case is non-trivial
//	                   DONE
//
// When the worker dies inside op i the parent records `crash:<kind>` (or `timeout`) for that op,
// starts a new worker and sends the case again with that answer forced (the op is then skipped).

import (
	"bufio"
	"fmt"
	"os"
	"runtime/debug"
	"strconv"
	"strings"
	"syscall"

	"github.com/rs/zerolog"

	"verif/harness/internal/proto"
)

func parseEndp(w string) (endp, bool) {
	if w == "X" {
		return endp{kind: 'X'}, true
	}
	p := strings.Split(w, ":")
	if len(p) != 3 || (p[0] != "S" && p[0] != "P" && p[0] != "F") {
		return endp{}, false
	}
	return endp{kind: p[0][0], name: proto.Dec(p[1]), extra: proto.Dec(p[2])}, true
}

func parseOracle(s string) (map[string]outVal, bool) {
	m := map[string]outVal{}
	if s == "" || s == "-" {
		return m, true
	}
	for _, it := range strings.Split(s, ",") {
		kv := strings.SplitN(it, "=", 2)
		if len(kv) != 2 {
			return nil, false
		}
		path := strings.Split(kv[0], "/")
		if len(path) != 3 {
			return nil, false
		}
		key := proto.Dec(path[0]) + "/" + proto.Dec(path[1]) + "/" + path[2]
		v := kv[1]
		switch {
		case v == "x":
			m[key] = outVal{kind: 'x'}
		case strings.HasPrefix(v, "n:"):
			m[key] = outVal{kind: 'n', name: proto.Dec(v[2:])}
		case strings.HasPrefix(v, "e:"):
			m[key] = outVal{kind: 'e', name: proto.Dec(v[2:])}
		default:
			return nil, false
		}
	}
	return m, true
}

var intFields = map[string]bool{"max": true, "int": true, "spill": true, "maxreq": true, "exp": true, "gc": true}

func isInt(s string) bool {
	_, err := strconv.ParseInt(s, 10, 64)
	return err == nil
}

func parseStrat(w []string) (stratDef, bool) {
	s := stratDef{kind: "", fields: map[string]string{}}
	for _, x := range w {
		kv := strings.SplitN(x, "=", 2)
		if len(kv) != 2 {
			return s, false
		}
		switch kv[0] {
		case "s":
			s.kind = kv[1]
		case "alloc":
			if !isInt(kv[1]) {
				return s, false
			}
			s.hasAllo, s.alloc = true, kv[1]
		case "max", "int", "spill", "maxreq", "exp", "gc":
			if !isInt(kv[1]) {
				return s, false
			}
			s.fields[kv[0]] = kv[1]
		case "unit", "grp", "path":
			s.fields[kv[0]] = proto.Dec(kv[1])
		case "mr":
			p := strings.Split(kv[1], ":")
			if len(p) != 4 || !isInt(p[0]) || !isInt(p[1]) || !isInt(p[2]) {
				return s, false
			}
			s.fields["mr"] = kv[1]
		case "url", "parent":
		default:
			return s, false
		}
	}
	switch s.kind {
	case "fixed", "custom", "conc", "hdr", "none", "missing":
		return s, true
	}
	return s, false
}

func panicClass(r interface{}) string {
	m := fmt.Sprint(r)
	switch {
	case strings.Contains(m, "nil pointer"):
		return "nil-deref"
	case strings.Contains(m, "divide by zero"):
		return "div-zero"
	case strings.Contains(m, "index out of range"), strings.Contains(m, "slice bounds"):
		return "index"
	case strings.Contains(m, "nil map"):
		return "nil-map"
	case strings.Contains(m, "interface conversion"):
		return "type-assert"
	}
	return "other"
}

// guarded runs f; a recoverable panic of the implementation becomes the answer `panic:<class>`.
func guarded(f func() string) (ans string) {
	defer func() {
		if r := recover(); r != nil {
			if os.Getenv("VERIF_DEBUG") != "" {
				fmt.Fprintf(os.Stderr, "recovered panic: %v\n%s\n", r, debug.Stack())
			}
			ans = "panic:" + panicClass(r)
		}
	}()
	return f()
}

type emitter struct {
	w *bufio.Writer
}

func (e *emitter) line(s string) {
	e.w.WriteString(s)
	e.w.WriteByte('\n')
	e.w.Flush()
}

// runCase executes the ops of one case; forced[i] != "" means: do not execute op i, answer that.
func runCase(ops []string, forced []string, em *emitter) {
	cfg := &caseCfg{}
	var eng *engine
	defer func() { eng.close() }()
	loaded := false
	nontriv := false
	userFlows := func() int {
		n := len(cfg.flows)
		for _, rf := range cfg.raws {
			if rf.dir == "flows" {
				n++
			}
		}
		return n
	}
	for i, op := range ops {
		em.line(fmt.Sprintf("B %d", i))
		w := strings.Fields(op)
		ans := "bad-op"
		if len(w) == 0 {
			em.line(fmt.Sprintf("A %d %s", i, ans))
			continue
		}
		switch w[0] {
		case "ptype":
			if len(w) < 2 {
				break
			}
			p := &ptypeDef{name: proto.Dec(w[1])}
			ok := true
			for _, x := range w[2:] {
				j := strings.LastIndex(x, ":")
				if j < 0 || (x[j+1:] != "any" && x[j+1:] != "req" && x[j+1:] != "res") {
					ok = false
					break
				}
				p.outs = append(p.outs, outDef{name: proto.Dec(x[:j]), typ: x[j+1:]})
			}
			if ok {
				cfg.ptypes = append(cfg.ptypes, p)
				ans = "ok"
			}
		case "preq":
			if len(w) == 3 && cfg.ptype(proto.Dec(w[1])) != nil {
				p := cfg.ptype(proto.Dec(w[1]))
				p.req = append(p.req, proto.Dec(w[2]))
				ans = "ok"
			}
		case "flow":
			if len(w) < 2 {
				break
			}
			f := &flowDef{name: proto.Dec(w[1]), url: txnURL, hasURL: true}
			ok := true
			for _, x := range w[2:] {
				kv := strings.SplitN(x, "=", 2)
				if len(kv) != 2 {
					ok = false
					break
				}
				switch kv[0] {
				case "url":
					f.url, f.hasURL = proto.Dec(kv[1]), kv[1] != "-"
				case "status":
					for _, c := range strings.Split(kv[1], ",") {
						if !isInt(c) {
							ok = false
						}
						f.status = append(f.status, c)
					}
				default:
					ok = false
				}
			}
			if ok {
				cfg.flows = append(cfg.flows, f)
				ans = "ok"
			}
		case "rflow":
			if len(w) >= 3 {
				if _, ok := realTemplates[w[2]]; ok {
					f := &flowDef{name: proto.Dec(w[1]), url: txnURL, hasURL: true, real: w[2]}
					ok2 := true
					for _, x := range w[3:] {
						kv := strings.SplitN(x, "=", 2)
						if len(kv) == 2 && kv[0] == "url" && kv[1] != "-" {
							f.url = proto.Dec(kv[1])
						} else {
							ok2 = false
						}
					}
					if ok2 {
						cfg.flows = append(cfg.flows, f)
						ans = "ok"
					}
				}
			}
		case "rawfile":
			if len(w) == 3 {
				_, okC := rawContents[w[2]]
				if okC && (w[1] == "flows" || w[1] == "quotas" || w[1] == "path_params" || w[1] == "gateway") {
					cfg.raws = append(cfg.raws, rawFile{dir: w[1], kind: w[2]})
					ans = "ok"
				}
			}
		case "connnull":
			if len(w) == 3 && cfg.flow(proto.Dec(w[1])) != nil && (w[2] == "req" || w[2] == "res") {
				f := cfg.flow(proto.Dec(w[1]))
				if w[2] == "req" {
					f.req = append(f.req, connDef{null: true})
				} else {
					f.res = append(f.res, connDef{null: true})
				}
				ans = "ok"
			}
		case "procnull":
			if len(w) == 3 && cfg.flow(proto.Dec(w[1])) != nil {
				f := cfg.flow(proto.Dec(w[1]))
				f.procs = append(f.procs, procDef{key: proto.Dec(w[2]), null: true})
				ans = "ok"
			}
		case "proc":
			if len(w) < 4 || cfg.flow(proto.Dec(w[1])) == nil {
				break
			}
			f := cfg.flow(proto.Dec(w[1]))
			p := procDef{key: proto.Dec(w[2]), ptype: proto.Dec(w[3])}
			ok := true
			for _, x := range w[4:] {
				kv := strings.SplitN(x, "=", 2)
				if len(kv) != 2 {
					ok = false
					break
				}
				p.params = append(p.params, [2]string{proto.Dec(kv[0]), proto.Dec(kv[1])})
			}
			if ok {
				f.procs = append(f.procs, p)
				ans = "ok"
			}
		case "conn":
			if len(w) != 5 || cfg.flow(proto.Dec(w[1])) == nil || (w[2] != "req" && w[2] != "res") {
				break
			}
			from, ok1 := parseEndp(w[3])
			to, ok2 := parseEndp(w[4])
			if !ok1 || !ok2 {
				break
			}
			f := cfg.flow(proto.Dec(w[1]))
			if w[2] == "req" {
				f.req = append(f.req, connDef{from: from, to: to})
			} else {
				f.res = append(f.res, connDef{from: from, to: to})
			}
			ans = "ok"
		case "qfile":
			if len(w) == 1 {
				cfg.qfiles = append(cfg.qfiles, &quotaFile{})
				ans = "ok"
			}
		case "qnull":
			if len(w) == 2 && (w[1] == "quotas" || w[1] == "internal") {
				if w[1] == "quotas" {
					cfg.qfile().quotas = append(cfg.qfile().quotas, quotaDef{null: true})
				} else {
					cfg.qfile().internals = append(cfg.qfile().internals, quotaDef{null: true, internal: true})
				}
				ans = "ok"
			}
		case "quota", "ilimit":
			if len(w) < 3 {
				break
			}
			st, ok := parseStrat(w[2:])
			u, okU := proto.KV(w[2:], "url")
			if !ok || !okU {
				break
			}
			q := quotaDef{id: proto.Dec(w[1]), url: "-", strat: st, internal: w[0] == "ilimit"}
			if u != "-" {
				q.url = proto.Dec(u)
			}
			if q.internal {
				p, okP := proto.KV(w[2:], "parent")
				if !okP {
					break
				}
				q.parent = "-"
				if p != "-" {
					q.parent = proto.Dec(p)
				}
				cfg.qfile().internals = append(cfg.qfile().internals, q)
			} else {
				cfg.qfile().quotas = append(cfg.qfile().quotas, q)
			}
			ans = "ok"
		case "load":
			if len(w) != 1 && !(len(w) == 2 && w[1] == "class") {
				break
			}
			withClass := len(w) == 2
			if forced[i] != "" {
				loaded = false
				break
			}
			eng.close()
			eng = nil
			loaded = false
			ans = guarded(func() string {
				dir := materialise(cfg)
				eng = &engine{dir: dir}
				if err := validate(cfg, dir); err != nil {
					cl := classifyLoadErr(err)
					if os.Getenv("VERIF_DEBUG") != "" {
						fmt.Fprintln(os.Stderr, "validation error:", err)
					}
					em.line("K load-reject-" + cl)
					if withClass || cl == "quota" || cl == "url" || userFlows() <= 1 {
						return "reject:" + cl
					}
					return "reject"
				}
				if err := validateGateway(dir); err != nil {
					em.line("K load-reject-gateway")
					return "reject:gateway"
				}
				live, err := liveLoad(cfg)
				if err != nil {
					if os.Getenv("VERIF_DEBUG") != "" {
						fmt.Fprintln(os.Stderr, "live load error:", err)
					}
					em.line("K load-accept-live-fail")
					return "accept live=fail:" + classifyLoadErr(err)
				}
				eng.live = live
				eng.handler = realHandler(live)
				loaded = true
				em.line("K load-accept")
				return "accept live=ok"
			})
			if strings.HasPrefix(ans, "panic:") {
				em.line("K load-" + ans)
				loaded = false
			}
		case "txn":
			dir, _ := proto.KV(w, "dir")
			ostr, _ := proto.KV(w, "o")
			oracle, ok := parseOracle(ostr)
			if (dir != "req" && dir != "res") || !ok {
				break
			}
			if !loaded {
				ans = "not-loaded"
				break
			}
			if forced[i] != "" {
				break
			}
			ans = guarded(func() string {
				res, steps := eng.runTxn(dir, oracle)
				if steps >= 2 {
					nontriv = true
				}
				em.line("K txn-" + dir + "-" + res)
				return fmt.Sprintf("%s:%d", res, steps)
			})
		case "stress":
			kind, _ := proto.KV(w, "kind")
			msS, _ := proto.KV(w, "ms")
			wkS, _ := proto.KV(w, "workers")
			ms, err1 := strconv.Atoi(msS)
			wk, err2 := strconv.Atoi(wkS)
			if (kind != "metrics" && kind != "queue" && kind != "all") || err1 != nil || err2 != nil || ms < 1 || ms > 2000 || wk < 1 || wk > 16 {
				break
			}
			if !loaded {
				ans = "not-loaded"
				break
			}
			if forced[i] != "" {
				break
			}
			ans = guarded(func() string {
				if !eng.stress(kind, ms, wk) {
					em.line("K stress-" + kind + "-stuck")
					return "timeout"
				}
				em.line("K stress-" + kind)
				return "done"
			})
		case "rtxn":
			dir, _ := proto.KV(w, "dir")
			if dir != "req" && dir != "res" {
				break
			}
			get := func(k string) string {
				v, ok := proto.KV(w, k)
				if !ok {
					return ""
				}
				return proto.Dec(v)
			}
			status := 200
			if s, ok := proto.KV(w, "status"); ok {
				if n, err := strconv.Atoi(s); err == nil {
					status = n
				}
			}
			if !loaded {
				ans = "not-loaded"
				break
			}
			if forced[i] != "" {
				break
			}
			ans = guarded(func() string {
				full, _ := proto.KV(w, "full")
				eng.runRaw(dir, get("method"), get("url"), get("path"), get("query"), get("hdr"), get("body"), status, full == "1")
				em.line("K rtxn-" + dir)
				return "done"
			})
		}
		if forced[i] != "" {
			ans = forced[i]
			em.line("K forced-" + strings.SplitN(ans, ":", 3)[0])
			if w[0] == "txn" || w[0] == "rtxn" || w[0] == "stress" {
				nontriv = true
			}
		}
		em.line(fmt.Sprintf("A %d %s", i, ans))
	}
	if nontriv {
		em.line("N")
	}
}

func workerMain() {
	zerolog.SetGlobalLevel(zerolog.Disabled)
	if os.Getenv("LUNAR_SPOE_PROCESSING_TIMEOUT_SEC") == "" {
		os.Setenv("LUNAR_SPOE_PROCESSING_TIMEOUT_SEC", "60") // the Queue processor insists on a timeout above its TTL
	}
	maxStack := 8 << 20
	if v := os.Getenv("VERIF_MAXSTACK_MB"); v != "" {
		if n, err := strconv.Atoi(v); err == nil && n > 0 {
			maxStack = n << 20
		}
	}
	debug.SetMaxStack(maxStack)
	debug.SetMemoryLimit(3 << 30)
	// hard cap on the address space: a runaway allocation dies quickly instead of taking the box down
	lim := syscall.Rlimit{Cur: 16 << 30, Max: 16 << 30}
	_ = syscall.Setrlimit(syscall.RLIMIT_AS, &lim)
	in := bufio.NewReaderSize(os.Stdin, 1<<20)
	em := &emitter{w: bufio.NewWriterSize(os.Stdout, 1<<16)}
	for {
		l, err := in.ReadString('\n')
		if err != nil {
			return
		}
		if strings.TrimSpace(l) != "CASE" {
			continue
		}
		var ops, forced []string
		for {
			l, err := in.ReadString('\n')
			if err != nil {
				return
			}
			l = strings.TrimRight(l, "\n")
			if l == "END" {
				break
			}
			p := strings.SplitN(l, "\t", 2)
			if len(p) != 2 {
				continue
			}
			f := p[0]
			if f == "-" {
				f = ""
			}
			forced = append(forced, f)
			ops = append(ops, p[1])
		}
		runCase(ops, forced, em)
		em.line("DONE")
	}
}
