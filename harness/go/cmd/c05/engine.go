package main

// Configuration of one case (parsed from the op lines), the files written for it, the probe
// processors, and the real engine (validation-mode stream + live stream) built from those files.

import (
	"fmt"
	"os"
	"path/filepath"
	"reflect"
	"sort"
	"strings"
	"sync"
	"sync/atomic"
	"time"
	"unsafe"

	"lunar/engine/actions"
	lunar_messages "lunar/engine/messages"
	"lunar/engine/metrics"
	"lunar/engine/routing"
	"lunar/engine/streams"
	streamconfig "lunar/engine/streams/config"
	internaltypes "lunar/engine/streams/internal-types"
	lunar_context "lunar/engine/streams/lunar-context"
	publictypes "lunar/engine/streams/public-types"
	streamtypes "lunar/engine/streams/types"
	"lunar/engine/streams/validation"
	"lunar/engine/utils/environment"
	"lunar/toolkit-core/clock"
	context_manager "lunar/toolkit-core/context-manager"

	"github.com/negasus/haproxy-spoe-go/message"
	"github.com/negasus/haproxy-spoe-go/payload/kv"
	"github.com/negasus/haproxy-spoe-go/request"

	"verif/harness/internal/proto"
)

const (
	txnHost = "verif.test"
	txnURL  = "verif.test/x"
)

type outDef struct{ name, typ string } // typ: any|req|res

type ptypeDef struct {
	name string
	outs []outDef
	req  []string // required parameters
}

type endp struct {
	kind  byte   // 'S' stream, 'P' processor, 'F' flow, 'X' nothing (an empty `from:`/`to:`)
	name  string // stream name / processor key / flow name
	extra string // stream, flow: at ; processor: condition
}

type connDef struct {
	from, to endp
	null     bool // a `~` list entry
}

type procDef struct {
	key, ptype string
	params     [][2]string
	null       bool // `key: ~`
}

type flowDef struct {
	name   string
	url    string
	procs  []procDef
	req    []connDef
	res    []connDef
	hasURL bool
	status []string // filter.status_code
	real   string   // name of a real-processor flow template (`rflow`), "" = probe flow
}

// strategy of a quota / internal limit (fields as written into the YAML; absent = not written)
type stratDef struct {
	kind    string // fixed|custom|conc|hdr|none|missing
	fields  map[string]string
	hasAllo bool
	alloc   string
}

type quotaDef struct {
	id       string
	url      string // "-" = no filter
	parent   string // internal limits only ("-" = no parent_id key)
	internal bool
	null     bool // a `~` entry
	strat    stratDef
}

type quotaFile struct {
	quotas    []quotaDef
	internals []quotaDef
}

// rawFile: a file of the configuration directory given by its content kind (documents without content)
type rawFile struct{ dir, kind string }

type caseCfg struct {
	ptypes []*ptypeDef
	flows  []*flowDef
	qfiles []*quotaFile
	raws   []rawFile
}

// rawContents: files that hold NO YAML document although they are not (all) blank, and their neighbours
var rawContents = map[string]string{
	"comment":        "# name: disabled-by-its-owner\n# filter:\n#   url: verif.test/x\n#quotas:\n#  - id: q\n",
	"dashes":         "---\n",
	"tilde":          "~\n",
	"null":           "null\n",
	"blank":          "  \n\n",
	"empty":          "",
	"dashes-comment": "---\n# nothing here\n",
	"nullentry":      "path_params:\n  - ~\n",
	"valid-pp":       "path_params:\n  - url: verif.test/p/{id}\n",
	"valid-gw":       "exporters: {}\n",
	"broken":         "a: [1, 2\n",
}

func (c *caseCfg) flow(name string) *flowDef {
	for i := len(c.flows) - 1; i >= 0; i-- {
		if c.flows[i].name == name {
			return c.flows[i]
		}
	}
	return nil
}

func (c *caseCfg) ptype(name string) *ptypeDef {
	for i := len(c.ptypes) - 1; i >= 0; i-- {
		if c.ptypes[i].name == name {
			return c.ptypes[i]
		}
	}
	return nil
}

func (c *caseCfg) qfile() *quotaFile {
	if len(c.qfiles) == 0 {
		c.qfiles = append(c.qfiles, &quotaFile{})
	}
	return c.qfiles[len(c.qfiles)-1]
}

// ---------------------------------------------------------------- probe processors

type outVal struct {
	kind byte // 'n' normal, 'e' early response (output type "response"), 'x' error
	name string
}

type txnState struct {
	oracle map[string]outVal // "<flow>/<key>/<dir>"
	steps  int
}

// obsStream carries the per-transaction oracle and the step counter to the probes.
type obsStream struct {
	publictypes.APIStreamI
	st *txnState
}

func dirName(t publictypes.StreamType) string {
	if t.IsRequestType() {
		return "req"
	}
	if t.IsResponseType() {
		return "res"
	}
	return "other"
}

type probe struct{ key string }

// probeActs: "<flow>/<key>" -> which actions the probe reports (processor parameter `act`, set per case):
//
//	side (default)  the action of the side it runs on: ReqAction on the request side, RespAction on the response side
//	resp            always a RespAction (like GenerateResponse / ReadCache / Retry / UserDefinedTraces)
//	both            both
//	none            no action
var probeActs = map[string]string{}

func (p *probe) GetName() string { return p.key }

func (p *probe) GetRequirement() *streamtypes.ProcessorRequirement {
	return &streamtypes.ProcessorRequirement{}
}

func (p *probe) Execute(flowName string, apiStream publictypes.APIStreamI) (streamtypes.ProcessorIO, error) {
	o, ok := apiStream.(*obsStream)
	if !ok {
		// a transaction that came through the real message handler: no oracle, default outputs, not counted
		o = &obsStream{APIStreamI: apiStream, st: &txnState{oracle: map[string]outVal{}}}
	}
	o.st.steps++
	dir := dirName(apiStream.GetType())
	v, found := o.st.oracle[flowName+"/"+p.key+"/"+dir]
	if !found {
		v = outVal{kind: 'n'}
	}
	switch v.kind {
	case 'x':
		return streamtypes.ProcessorIO{}, fmt.Errorf("probe error")
	case 'e':
		var act actions.ReqLunarAction = &actions.EarlyResponseAction{Status: 418, Body: flowName + "/" + p.key}
		return streamtypes.ProcessorIO{Type: publictypes.StreamTypeResponse, Name: v.name, ReqAction: act}, nil
	}
	io := streamtypes.ProcessorIO{Type: apiStream.GetType(), Name: v.name}
	act := probeActs[flowName+"/"+p.key]
	if act == "" {
		act = "side"
	}
	onReq := apiStream.GetType().IsRequestType()
	if act == "both" || (act == "side" && onReq) {
		io.ReqAction = &actions.NoOpAction{}
	}
	if act == "both" || act == "resp" || (act == "side" && !onReq) {
		io.RespAction = &actions.NoOpAction{}
	}
	return io, nil
}

func probeFactory(md *streamtypes.ProcessorMetaData) (streamtypes.ProcessorI, error) {
	return &probe{key: md.Name}, nil
}

// ---------------------------------------------------------------- files

func typName(t string) string {
	switch t {
	case "req":
		return "StreamTypeRequest"
	case "res":
		return "StreamTypeResponse"
	}
	return "StreamTypeAny"
}

// yq quotes a scalar so that any string survives YAML
func yq(s string) string {
	r := strings.NewReplacer("\\", "\\\\", "\"", "\\\"", "\n", "\\n", "\t", "\\t", "\r", "\\r")
	return "\"" + r.Replace(s) + "\""
}

func ptypeYAML(p *ptypeDef) string {
	var b strings.Builder
	fmt.Fprintf(&b, "name: %s\ndescription: probe\nexec: probe.go\n", yq(p.name))
	if len(p.req) == 0 {
		b.WriteString("parameters: {}\n")
	} else {
		b.WriteString("parameters:\n")
		for _, r := range p.req {
			fmt.Fprintf(&b, "  %s:\n    type: string\n    required: true\n    description: probe\n", yq(r))
		}
	}
	b.WriteString("output_streams:\n")
	for _, o := range p.outs {
		if o.name == "" {
			fmt.Fprintf(&b, "  - type: %s\n", typName(o.typ))
		} else {
			fmt.Fprintf(&b, "  - name: %s\n    type: %s\n", yq(o.name), typName(o.typ))
		}
	}
	if len(p.outs) == 0 {
		b.WriteString("  []\n")
	}
	b.WriteString("input_stream:\n  type: StreamTypeAny\n")
	return b.String()
}

func endpYAML(e endp, indent string) string {
	switch e.kind {
	case 'S':
		return fmt.Sprintf("%sstream:\n%s  name: %s\n%s  at: %s\n", indent, indent, yq(e.name), indent, yq(e.extra))
	case 'F':
		return fmt.Sprintf("%sflow:\n%s  name: %s\n%s  at: %s\n", indent, indent, yq(e.name), indent, yq(e.extra))
	case 'P':
		s := fmt.Sprintf("%sprocessor:\n%s  name: %s\n", indent, indent, yq(e.name))
		if e.extra != "" {
			s += fmt.Sprintf("%s  condition: %s\n", indent, yq(e.extra))
		}
		return s
	}
	return indent + "{}\n" // never used: X is rendered by the caller
}

func sideYAML(label string, e endp) string {
	if e.kind == 'X' {
		return "      " + label + ": {}\n"
	}
	return "      " + label + ":\n" + endpYAML(e, "        ")
}

// realTemplates: flows over REAL processors that rewrite the request / response or answer it (processors and
// flow sections; name and filter are added by flowYAML).  The model treats each as one abstract processor R.
var realTemplates = map[string]string{
	"transform-set": `processors:
  R:
    processor: TransformAPICall
    parameters:
      - key: set
        value:
          "$.request.headers['x-added']": "v1"
          "$.request.body.added": "1"
          "$.request.host": "rewritten.test"
          "$.response.headers['x-added']": "v2"
flow:
  request:
    - from: {stream: {name: globalStream, at: start}}
      to: {processor: {name: R}}
    - from: {processor: {name: R}}
      to: {stream: {name: globalStream, at: end}}
  response:
    - from: {stream: {name: globalStream, at: start}}
      to: {processor: {name: R}}
    - from: {processor: {name: R}}
      to: {stream: {name: globalStream, at: end}}
`,
	"transform-delete": `processors:
  R:
    processor: TransformAPICall
    parameters:
      - key: delete
        value: ["$.request.headers['x-group']", "$.request.body.a", "$.response.headers['content-type']"]
      - key: obfuscate
        value: ["$.request.headers.host", "$.request.body.model", "$.response.body.a"]
flow:
  request:
    - from: {stream: {name: globalStream, at: start}}
      to: {processor: {name: R}}
    - from: {processor: {name: R}}
      to: {stream: {name: globalStream, at: end}}
  response:
    - from: {stream: {name: globalStream, at: start}}
      to: {processor: {name: R}}
    - from: {processor: {name: R}}
      to: {stream: {name: globalStream, at: end}}
`,
	"sanitize": `processors:
  R:
    processor: DataSanitation
flow:
  request:
    - from: {stream: {name: globalStream, at: start}}
      to: {processor: {name: R}}
    - from: {processor: {name: R}}
      to: {stream: {name: globalStream, at: end}}
  response:
    - from: {stream: {name: globalStream, at: start}}
      to: {stream: {name: globalStream, at: end}}
`,
	"queue": `processors:
  Q:
    processor: Queue
    parameters:
      - key: quota_id
        value: qq
      - key: ttl_seconds
        value: 0
      - key: queue_size
        value: 64
flow:
  request:
    - from: {stream: {name: globalStream, at: start}}
      to: {processor: {name: Q}}
    - from: {processor: {name: Q, condition: allowed}}
      to: {stream: {name: globalStream, at: end}}
    - from: {processor: {name: Q, condition: blocked}}
      to: {stream: {name: globalStream, at: end}}
  response:
    - from: {stream: {name: globalStream, at: start}}
      to: {stream: {name: globalStream, at: end}}
`,
	"generate": `processors:
  T:
    processor: TransformAPICall
    parameters:
      - key: set
        value:
          "$.request.headers['x-seen']": "1"
  R:
    processor: GenerateResponse
    parameters:
      - key: status
        value: 418
      - key: body
        value: "generated"
flow:
  request:
    - from: {stream: {name: globalStream, at: start}}
      to: {processor: {name: T}}
    - from: {processor: {name: T}}
      to: {processor: {name: R}}
  response:
    - from: {processor: {name: R}}
      to: {stream: {name: globalStream, at: end}}
`,
}

func flowYAML(f *flowDef) string {
	if f.real != "" {
		return fmt.Sprintf("name: %s\nfilter:\n  url: %s\n", yq(f.name), yq(f.url)) + realTemplates[f.real]
	}
	var b strings.Builder
	fmt.Fprintf(&b, "name: %s\n", yq(f.name))
	if f.hasURL {
		fmt.Fprintf(&b, "filter:\n  url: %s\n", yq(f.url))
		if len(f.status) > 0 {
			fmt.Fprintf(&b, "  status_code: [%s]\n", strings.Join(f.status, ", "))
		}
	}
	b.WriteString("processors:\n")
	if len(f.procs) == 0 {
		b.WriteString("  {}\n")
	}
	for _, p := range f.procs {
		if p.null {
			fmt.Fprintf(&b, "  %s: ~\n", yq(p.key))
			continue
		}
		fmt.Fprintf(&b, "  %s:\n    processor: %s\n", yq(p.key), yq(p.ptype))
		if len(p.params) > 0 {
			b.WriteString("    parameters:\n")
			for _, kv := range p.params {
				if strings.HasPrefix(kv[1], "@") {
					// a structured value given as raw (flow-style) YAML: lists, maps, numbers, booleans, null
					fmt.Fprintf(&b, "      - key: %s\n        value: %s\n", yq(kv[0]), kv[1][1:])
					continue
				}
				fmt.Fprintf(&b, "      - key: %s\n        value: %s\n", yq(kv[0]), yq(kv[1]))
			}
		}
	}
	b.WriteString("flow:\n")
	for _, d := range []struct {
		n  string
		cs []connDef
	}{{"request", f.req}, {"response", f.res}} {
		if len(d.cs) == 0 {
			fmt.Fprintf(&b, "  %s: []\n", d.n)
			continue
		}
		fmt.Fprintf(&b, "  %s:\n", d.n)
		for _, c := range d.cs {
			if c.null {
				b.WriteString("    - ~\n")
				continue
			}
			s := sideYAML("from", c.from) + sideYAML("to", c.to)
			b.WriteString("    - " + strings.TrimPrefix(s, "      "))
		}
	}
	return b.String()
}

func stratYAML(s stratDef, ind string) string {
	if s.kind == "missing" {
		return ""
	}
	var b strings.Builder
	b.WriteString(ind + "strategy:")
	body := ""
	fld := func(name, key string, indent string) {
		if v, ok := s.fields[key]; ok {
			body += fmt.Sprintf("%s%s: %s\n", indent, name, v)
		}
	}
	in2, in3, in4 := ind+"  ", ind+"    ", ind+"      "
	limit := func() {
		fld("max", "max", in3)
		fld("interval", "int", in3)
		if v, ok := s.fields["unit"]; ok {
			body += fmt.Sprintf("%sinterval_unit: %s\n", in3, yq(v))
		}
		if v, ok := s.fields["spill"]; ok {
			body += fmt.Sprintf("%sspillover:\n%smax: %s\n", in3, in4, v)
		}
		if v, ok := s.fields["grp"]; ok {
			body += fmt.Sprintf("%sgroup_by_header: %s\n", in3, yq(v))
		}
		if v, ok := s.fields["mr"]; ok {
			p := strings.Split(v, ":")
			if len(p) == 4 {
				body += fmt.Sprintf("%smonthly_renewal:\n%sday: %s\n%shour: %s\n%sminute: %s\n%stimezone: %s\n",
					in3, in4, p[0], in4, p[1], in4, p[2], in4, yq(proto.Dec(p[3])))
			}
		}
	}
	switch s.kind {
	case "fixed":
		body += in2 + "fixed_window:\n"
		limit()
	case "custom":
		body += in2 + "fixed_window_custom_counter:\n"
		limit()
		if v, ok := s.fields["path"]; ok {
			body += fmt.Sprintf("%scounter_value_path: %s\n", in3, yq(v))
		}
	case "conc":
		n := len(body)
		body += in2 + "concurrent:\n"
		fld("max_request_count", "maxreq", in3)
		fld("request_expiration_sec", "exp", in3)
		fld("gc_interval_sec", "gc", in3)
		if _, a := s.fields["maxreq"]; !a {
			if _, b2 := s.fields["exp"]; !b2 {
				if _, c := s.fields["gc"]; !c {
					body = body[:n] + in2 + "concurrent: {}\n"
				}
			}
		}
	case "hdr":
		body += in2 + "header_based:\n" + in3 + "quota_header: x-quota\n" + in3 + "reset_header: x-reset\n" +
			in3 + "retry_after_header: retry-after\n"
	}
	if s.hasAllo {
		body += fmt.Sprintf("%sallocation_percentage: %s\n", in2, s.alloc)
	}
	if body == "" {
		b.WriteString(" {}\n")
	} else {
		b.WriteString("\n" + body)
	}
	return b.String()
}

func quotaEntryYAML(q quotaDef) string {
	if q.null {
		return "  - ~\n"
	}
	var b strings.Builder
	fmt.Fprintf(&b, "  - id: %s\n", yq(q.id))
	if q.internal && q.parent != "-" {
		fmt.Fprintf(&b, "    parent_id: %s\n", yq(q.parent))
	}
	if q.url != "-" {
		fmt.Fprintf(&b, "    filter:\n      url: %s\n", yq(q.url))
	}
	b.WriteString(stratYAML(q.strat, "    "))
	return b.String()
}

func quotaFileYAML(f *quotaFile) string {
	var b strings.Builder
	if len(f.quotas) == 0 {
		b.WriteString("quotas: []\n")
	} else {
		b.WriteString("quotas:\n")
		for _, q := range f.quotas {
			b.WriteString(quotaEntryYAML(q))
		}
	}
	if len(f.internals) > 0 {
		b.WriteString("internal_limits:\n")
		for _, q := range f.internals {
			b.WriteString(quotaEntryYAML(q))
		}
	}
	return b.String()
}

func writeFile(path, content string) {
	if err := os.WriteFile(path, []byte(content), 0o644); err != nil {
		panic(err)
	}
}

func repoRoot() string {
	if r := os.Getenv("VERIF_REPO"); r != "" {
		return r
	}
	return "/repo"
}

// files renders the configuration directory: relative path -> content (deterministic).
func (c *caseCfg) files() map[string]string {
	out := map[string]string{}
	for _, p := range c.ptypes {
		out["processors/"+p.name+".yaml"] = ptypeYAML(p)
	}
	for idx, f := range c.flows {
		out[fmt.Sprintf("flows/%02d.yaml", idx)] = flowYAML(f)
	}
	for idx, q := range c.qfiles {
		out[fmt.Sprintf("quotas/q%02d.yaml", idx)] = quotaFileYAML(q)
	}
	for idx, rf := range c.raws {
		if rf.dir == "gateway" {
			out["gateway_config.yaml"] = rawContents[rf.kind]
		} else {
			out[fmt.Sprintf("%s/zz%02d.yaml", rf.dir, idx)] = rawContents[rf.kind]
		}
	}
	return out
}

// ---------------------------------------------------------------- engine

type engine struct {
	dir     string
	live    *streams.Stream
	handler routing.MessageHandler // the REAL SPOE message handler over `live`
}

var metricMgr *metrics.MetricManager

// realHandler: routing.Handler (through the verif hook VerifHandlerForStream) over the live stream.
func realHandler(s *streams.Stream) routing.MessageHandler {
	if metricMgr == nil {
		if os.Getenv("LUNAR_PROXY_METRICS_CONFIG_DEFAULT") == "" {
			os.Setenv("LUNAR_PROXY_METRICS_CONFIG_DEFAULT", filepath.Join(repoRoot(), "proxy/metrics.yaml"))
		}
		metricMgr, _ = metrics.NewMetricManager()
	}
	return routing.VerifHandlerForStream(s, metricMgr)
}

func (e *engine) close() {
	if e != nil && e.dir != "" {
		os.RemoveAll(e.dir)
	}
}

func classifyLoadErr(err error) string {
	m := err.Error()
	switch {
	case strings.Contains(m, "quota") && !strings.Contains(m, "failed to create flows"):
		return "quota"
	case strings.Contains(m, "invalid condition"):
		return "condition"
	case strings.Contains(m, "failed to build node"):
		return "node"
	case strings.Contains(m, "invalid connection configuration"):
		return "connection"
	case strings.Contains(m, "no valid root"):
		return "root"
	case strings.Contains(m, "is unconnected"):
		return "unconnected"
	case strings.Contains(m, "circular connection"):
		return "cycle"
	case strings.Contains(m, "no flow direction defined"):
		return "undefined"
	case strings.Contains(m, "gateway config"):
		return "gateway"
	case strings.Contains(m, "circular flow reference"):
		return "refcycle"
	case strings.Contains(m, "foreign root node not found"), strings.Contains(m, "root node not found for flow"):
		return "foreignroot"
	case strings.Contains(m, "failed to incorporate flow"):
		return "flowref"
	case strings.Contains(m, "failed to get flows"):
		return "yaml"
	case strings.Contains(m, "is required in processor"):
		return "param"
	case strings.Contains(m, "failed to create processor"):
		return "processor"
	case strings.Contains(m, "duplication found"):
		return "url"
	}
	return "other"
}

// materialise writes the configuration into a fresh temp dir and points the engine's environment at it.
func materialise(c *caseCfg) string {
	probeActs = map[string]string{}
	for _, f := range c.flows {
		for _, p := range f.procs {
			for _, kv := range p.params {
				if kv[0] == "act" {
					probeActs[f.name+"/"+p.key] = kv[1]
				}
			}
		}
	}
	dir, err := os.MkdirTemp("", "c05-")
	if err != nil {
		panic(err)
	}
	for _, sub := range []string{"flows", "quotas", "path_params", "processors"} {
		if err := os.MkdirAll(filepath.Join(dir, sub), 0o755); err != nil {
			panic(err)
		}
	}
	files := c.files()
	names := make([]string, 0, len(files))
	for n := range files {
		names = append(names, n)
	}
	sort.Strings(names)
	for _, n := range names {
		writeFile(filepath.Join(dir, n), files[n])
	}
	regDir := filepath.Join(repoRoot(), "proxy/src/services/lunar-engine/streams/processors/registry")
	ents, err := os.ReadDir(regDir)
	if err != nil {
		panic(err)
	}
	needAll := false // the whole registry only when a flow uses real processors (18 definitions parsed twice per case)
	for _, f := range c.flows {
		needAll = needAll || f.real != ""
	}
	for _, en := range ents {
		if en.IsDir() || !strings.HasSuffix(en.Name(), ".yaml") {
			continue
		}
		if !needAll && !strings.HasPrefix(en.Name(), "quota_processor_") {
			continue
		}
		b, err := os.ReadFile(filepath.Join(regDir, en.Name()))
		if err != nil {
			panic(err)
		}
		writeFile(filepath.Join(dir, "processors", "registry_"+en.Name()), string(b))
	}
	environment.SetStreamsFlowsDirectory(filepath.Join(dir, "flows"))
	environment.SetQuotasDirectory(filepath.Join(dir, "quotas"))
	environment.SetPathParamsDirectory(filepath.Join(dir, "path_params"))
	os.Setenv("LUNAR_FLOWS_PATH_PARAM_CONFIG", filepath.Join(dir, "path_param_conf.yaml"))
	environment.SetProcessorsDirectory(filepath.Join(dir, "processors"))
	context_manager.Get().SetMockClock()
	return dir
}

// validate = the call validate_flows / load_flows / flows-validator make:
// streams.NewValidationStream(dir) + Initialize().
func validate(c *caseCfg, dir string) error {
	s, err := streams.NewValidationStream(dir)
	if err != nil {
		// the resources (quota files) are read here, before any flow
		return fmt.Errorf("quota resources: %w", err)
	}
	for _, p := range c.ptypes {
		s.VerifSetFactory(p.name, probeFactory)
	}
	return s.Initialize()
}

// validateGateway = the last step of validation.Validator.Validate(): the gateway config of the directory
func validateGateway(dir string) error {
	return validation.NewValidator().WithValidationDir(dir).ValidateGatewayConfig()
}

func liveLoad(c *caseCfg) (*streams.Stream, error) {
	s, err := streams.NewStream()
	if err != nil {
		return nil, err
	}
	for _, p := range c.ptypes {
		s.VerifSetFactory(p.name, probeFactory)
	}
	if err := s.Initialize(); err != nil {
		return nil, err
	}
	return s, nil
}

// newActions allocates the action lists exactly as routing.processRequest / processResponse do: a request
// message gets ONLY the request list, a response message ONLY the response list (the response flow of an early
// response runs inside the request transaction and must not touch the other list).
func newActions(dir string) *streamconfig.StreamActions {
	if dir == "req" {
		return &streamconfig.StreamActions{Request: &streamconfig.RequestStream{}}
	}
	return &streamconfig.StreamActions{Response: &streamconfig.ResponseStream{}}
}

// runTxn executes one probe transaction on the test URL: (result class, number of probe executions).
func (e *engine) runTxn(dir string, oracle map[string]outVal) (string, int) {
	st := &txnState{oracle: oracle}
	var inner publictypes.APIStreamI
	if dir == "req" {
		inner = streamtypes.NewRequestAPIStream(lunar_messages.OnRequest{
			ID: "t1", SequenceID: "t1", Method: "GET", Scheme: "https", URL: txnURL, Path: "/x",
			Headers: map[string]string{"host": txnHost},
		}, lunar_context.NewMemoryState[[]byte]())
	} else {
		inner = streamtypes.NewResponseAPIStream(lunar_messages.OnResponse{
			ID: "t1", SequenceID: "t1", Method: "GET", URL: txnURL, Status: 200,
			Headers: map[string]string{},
		}, lunar_context.NewMemoryState[[]byte]())
	}
	api := &obsStream{APIStreamI: inner, st: st}
	err := e.live.ExecuteFlow(api, newActions(dir))
	res := "ok"
	if err != nil {
		m := err.Error()
		switch {
		case strings.Contains(m, "probe error"):
			res = "err:proc"
		case strings.Contains(m, "failed to get response node"):
			res = "err:respnode"
		default:
			res = "err:other"
			if os.Getenv("VERIF_DEBUG") != "" {
				fmt.Fprintln(os.Stderr, "txn error:", m)
			}
		}
	}
	return res, st.steps
}

// runRaw sends a transaction with arbitrary content through the PRODUCTION entry: a SPOE message
// (lunar-on-[full-]request / lunar-on-[full-]response with the arguments HAProxy sends) handed to routing.Handler,
// i.e. readRequestArgs / utils.ParseHeaders / NewRequestAPIStream / RunFlow / getSPOEReqActions and the response
// counterparts, over the live stream.
func (e *engine) runRaw(dir, method, url, path, query, hdr, body string, status int, full bool) {
	kvs := kv.NewKV()
	kvs.Add("id", "r1")
	kvs.Add("sequence_id", "r1")
	kvs.Add("method", method)
	kvs.Add("url", url)
	kvs.Add("headers", hdr)
	kvs.Add("body", []byte(body))
	name := lunar_messages.LunarRequest
	if dir == "req" {
		kvs.Add("scheme", "https")
		kvs.Add("path", path)
		kvs.Add("query", query)
		if full {
			name = lunar_messages.LunarFullRequest
		}
	} else {
		kvs.Add("status", int64(status))
		name = lunar_messages.LunarResponse
		if full {
			name = lunar_messages.LunarFullResponse
		}
	}
	e.handler(&request.Request{Messages: &message.Messages{{Name: name, KV: kvs}}})
}

// processorQueues: the in-memory queues of the REAL Queue processors of the user flows selected for the test URL
// (private fields Stream.filterTree and queueProcessor.queue, read by reflection).
func processorQueues(s *streams.Stream) []publictypes.SharedQueueI {
	var out []publictypes.SharedQueueI
	defer func() { _ = recover() }()
	f := reflect.ValueOf(s).Elem().FieldByName("filterTree")
	ft := reflect.NewAt(f.Type(), unsafe.Pointer(f.UnsafeAddr())).Elem().Interface().(internaltypes.FilterTreeI)
	res, found := ft.GetFlow(streamtypes.NewRequestAPIStream(lunar_messages.OnRequest{
		ID: "probe", SequenceID: "probe", Method: "GET", Scheme: "https", URL: txnURL, Path: "/x",
		Headers: map[string]string{"host": txnHost},
	}, lunar_context.NewMemoryState[[]byte]()))
	if !found {
		return nil
	}
	flows, _ := res.GetUserFlow()
	for _, fl := range flows {
		root, _ := fl.GetRequestDirection().GetRoot()
		if root == nil || reflect.ValueOf(root).IsNil() || root.GetNode() == nil {
			continue
		}
		pv := reflect.ValueOf(root.GetNode().GetProcessor())
		if pv.Kind() != reflect.Ptr || pv.IsNil() || pv.Elem().Kind() != reflect.Struct {
			continue
		}
		qf := pv.Elem().FieldByName("queue")
		if !qf.IsValid() || !qf.CanAddr() {
			continue
		}
		if q, ok := reflect.NewAt(qf.Type(), unsafe.Pointer(qf.UnsafeAddr())).Elem().Interface().(publictypes.SharedQueueI); ok && q != nil {
			out = append(out, q)
		}
	}
	return out
}

// stress runs transactions on `workers` goroutines for `ms` milliseconds WHILE the engine's other goroutines run:
// a metrics reader scraping the stream's metric getters the way MetricManager's observable callbacks do, and a
// driver of the (mock) clock that makes the background loops of the processors (Queue: every 100 ms) spin.  A data
// race the Go runtime detects ("concurrent map iteration and map write") or a panic in a background goroutine kills
// the worker process: the supervisor records `crash:<kind>`.
func (e *engine) stress(kind string, ms, workers int) bool {
	stop := make(chan struct{})
	var wg sync.WaitGroup
	var seq atomic.Int64
	send := func(w int) {
		n := seq.Add(1)
		kvs := kv.NewKV()
		id := fmt.Sprintf("s-%d-%d", w, n)
		kvs.Add("id", id)
		kvs.Add("sequence_id", id)
		kvs.Add("method", "GET")
		kvs.Add("scheme", "https")
		kvs.Add("url", txnURL)
		kvs.Add("path", "/x")
		kvs.Add("query", "")
		kvs.Add("headers", "host: verif.test\r\n")
		kvs.Add("body", []byte(""))
		e.handler(&request.Request{Messages: &message.Messages{{Name: lunar_messages.LunarRequest, KV: kvs}}})
		if n%3 == 0 {
			kvr := kv.NewKV()
			kvr.Add("id", id)
			kvr.Add("sequence_id", id)
			kvr.Add("method", "GET")
			kvr.Add("url", txnURL)
			kvr.Add("status", int64(200))
			kvr.Add("headers", "content-type: text/plain\r\n")
			kvr.Add("body", []byte(""))
			e.handler(&request.Request{Messages: &message.Messages{{Name: lunar_messages.LunarResponse, KV: kvr}}})
		}
	}
	for w := 0; w < workers; w++ {
		wg.Add(1)
		go func(w int) {
			defer wg.Done()
			for {
				select {
				case <-stop:
					return
				default:
				}
				send(w)
			}
		}(w)
	}
	var bg sync.WaitGroup
	bgStop := make(chan struct{})
	if kind == "metrics" || kind == "all" {
		bg.Add(1)
		go func() {
			defer bg.Done()
			for {
				select {
				case <-bgStop:
					return
				default:
				}
				_ = e.live.GetFlowInvocations()
				_ = e.live.GetActiveFlows()
				_ = e.live.GetRequestsThroughFlows()
				_ = e.live.GetAvgFlowExecutionTime()
				_ = e.live.GetAvgProcessorExecutionTime()
			}
		}()
	}
	if kind == "queue" || kind == "all" {
		// what many simultaneous transactions do to a Queue processor's queue: enter it (Enqueue) and leave it again
		// (removeRequest -> Remove), at a rate the few transactions of this process cannot reach, on the processor's
		// OWN queue while its own background loop polls it
		for _, q := range processorQueues(e.live) {
			for h := 0; h < 4; h++ {
				bg.Add(1)
				go func(q publictypes.SharedQueueI, h int) {
					defer bg.Done()
					for i := 0; ; i++ {
						select {
						case <-bgStop:
							return
						default:
						}
						id := fmt.Sprintf("hammer-%d-%d", h, i)
						_ = q.Enqueue(id, float64(h))
						q.Remove(id)
					}
				}(q, h)
			}
		}
		if mc, ok := context_manager.Get().GetClock().(*clock.MockClock); ok {
			bg.Add(1)
			go func() {
				defer bg.Done()
				for {
					select {
					case <-bgStop:
						return
					default:
					}
					mc.AdvanceTime(100 * time.Millisecond)
				}
			}()
		}
	}
	time.Sleep(time.Duration(ms) * time.Millisecond)
	close(stop)
	// waiters of a Queue leave through their TTL: the clock driver keeps running until they are out — but never
	// wait for them without bound: transactions that do not return within 4 s are reported (`timeout`)
	finished := make(chan struct{})
	go func() { wg.Wait(); close(finished) }()
	ok := true
	select {
	case <-finished:
	case <-time.After(4 * time.Second):
		ok = false
	}
	close(bgStop)
	bgDone := make(chan struct{})
	go func() { bg.Wait(); close(bgDone) }()
	select {
	case <-bgDone:
	case <-time.After(2 * time.Second):
		ok = false
	}
	_ = seq.Load()
	return ok
}
