// Harness for C05 (every configuration the loader accepts runs safely on all traffic).
//
// Every case is a configuration directory (generated processor definitions of probe processors, flow
// YAML files, quota files) described by structured op lines, a `load` op and transactions.
//
//	load  -> accept live=ok|live=fail:<class>   NewValidationStream(dir).Initialize() == nil, then the live load
//	         reject[:<class>] | panic:<class> | crash:<kind> | timeout
//	txn   -> ok:<n> | err:<class>:<n>            n = number of probe-processor executions
//	         not-loaded | panic:<class> | crash:<kind> | timeout
//	rtxn  -> done | not-loaded | panic:<class> | crash:<kind> | timeout     (arbitrary transaction content)
//
// The engine only ever runs in a child process (see worker.go): `crash:stack-overflow` is Go's
// unrecoverable `fatal error: stack overflow`.
package main

import (
	"bufio"
	"bytes"
	"fmt"
	"io"
	"os"
	"os/exec"
	"strconv"
	"strings"
	"sync"
	"time"

	"verif/harness/internal/proto"
)

const rule = "generated/enumerated configuration directories (probe-processor flow graphs in both directions, flow " +
	"references, quota files, malformed YAML-level variants) x transactions; non-trivial = configuration accepted by " +
	"the real loader and some transaction executed >= 2 processors or crashed; distinct by (configuration, transactions, answers)"

// a load or transaction that does not answer within this time is answered `timeout` (the worker is killed)
const opTimeout = 8 * time.Second

type worker struct {
	cmd    *exec.Cmd
	in     io.WriteCloser
	out    *bufio.Reader
	errBuf *bytes.Buffer
	errWg  sync.WaitGroup
	lines  chan string
}

func startWorker() *worker {
	exe, err := os.Executable()
	if err != nil {
		panic(err)
	}
	cmd := exec.Command(exe, "-worker")
	cmd.Env = append(os.Environ(), "GOTRACEBACK=single")
	in, err := cmd.StdinPipe()
	if err != nil {
		panic(err)
	}
	outp, err := cmd.StdoutPipe()
	if err != nil {
		panic(err)
	}
	errp, err := cmd.StderrPipe()
	if err != nil {
		panic(err)
	}
	w := &worker{cmd: cmd, in: in, out: bufio.NewReaderSize(outp, 1<<16), errBuf: &bytes.Buffer{}, lines: make(chan string, 256)}
	if err := cmd.Start(); err != nil {
		panic(err)
	}
	w.errWg.Add(1)
	go func() {
		defer w.errWg.Done()
		// keep only the head of stderr (a stack-overflow trace is long)
		buf := make([]byte, 1<<16)
		for {
			n, err := errp.Read(buf)
			if n > 0 && w.errBuf.Len() < 1<<16 {
				w.errBuf.Write(buf[:n])
			}
			if err != nil {
				return
			}
		}
	}()
	go func() {
		for {
			l, err := w.out.ReadString('\n')
			if err != nil {
				close(w.lines)
				return
			}
			w.lines <- strings.TrimRight(l, "\n")
		}
	}()
	return w
}

func (w *worker) kill() {
	w.in.Close()
	if w.cmd.Process != nil {
		w.cmd.Process.Kill()
	}
	w.errWg.Wait()
	w.cmd.Wait()
}

func crashKind(stderr string) string {
	switch {
	case strings.Contains(stderr, "stack overflow"):
		return "crash:stack-overflow"
	case strings.Contains(stderr, "out of memory"), strings.Contains(stderr, "cannot allocate memory"):
		return "crash:oom"
	case strings.Contains(stderr, "concurrent map"):
		return "crash:concurrent-map"
	case strings.Contains(stderr, "all goroutines are asleep"):
		return "crash:deadlock"
	case strings.Contains(stderr, "panic:"):
		return "crash:panic"
	}
	return "crash:other"
}

var cur *worker

// runInWorker executes one case in the worker process, restarting it after every crash.
func runInWorker(c proto.Case, o *proto.Out) []string {
	forced := make([]string, len(c.Ops))
	for attempt := 0; attempt <= len(c.Ops)+1; attempt++ {
		if cur == nil {
			cur = startWorker()
		}
		w := cur
		var b strings.Builder
		b.WriteString("CASE\n")
		for i, op := range c.Ops {
			f := forced[i]
			if f == "" {
				f = "-"
			}
			b.WriteString(f + "\t" + op + "\n")
		}
		b.WriteString("END\n")
		if _, err := io.WriteString(w.in, b.String()); err != nil {
			// the worker died between cases: restart and retry
			w.kill()
			cur = nil
			continue
		}
		answers := make([]string, len(c.Ops))
		var counts []string
		nontriv := false
		begun := -1
		done := false
		died := ""
		timer := time.NewTimer(opTimeout)
	loop:
		for {
			select {
			case l, ok := <-w.lines:
				if !ok {
					died = "eof"
					break loop
				}
				if !timer.Stop() {
					select {
					case <-timer.C:
					default:
					}
				}
				timer.Reset(opTimeout)
				switch {
				case l == "DONE":
					done = true
					break loop
				case l == "N":
					nontriv = true
				case strings.HasPrefix(l, "K "):
					counts = append(counts, l[2:])
				case strings.HasPrefix(l, "B "):
					begun, _ = strconv.Atoi(l[2:])
				case strings.HasPrefix(l, "A "):
					p := strings.SplitN(l, " ", 3)
					if len(p) == 3 {
						if i, err := strconv.Atoi(p[1]); err == nil && i >= 0 && i < len(answers) {
							answers[i] = p[2]
						}
					}
				}
			case <-timer.C:
				died = "timeout"
				break loop
			}
		}
		timer.Stop()
		if done {
			// a `stress` case leaves goroutines of the engine behind that never end (a Queue processor's TTL watcher
			// with ttl 0 polls without pause): give the next case a fresh worker process
			for _, op := range c.Ops {
				if strings.HasPrefix(op, "stress ") {
					w.kill()
					cur = nil
					break
				}
			}
			for _, k := range counts {
				o.Count(k)
			}
			if nontriv {
				o.NonTrivial(strings.Join(c.Ops, "|") + "#" + strings.Join(answers, "|"))
			}
			return answers
		}
		w.kill()
		cur = nil
		if begun < 0 || begun >= len(c.Ops) {
			panic(fmt.Sprintf("harness: worker died outside an op (case %s): %s", c.ID, w.errBuf.String()))
		}
		if forced[begun] != "" {
			panic(fmt.Sprintf("harness: worker died in a forced op (case %s op %d): %s", c.ID, begun, w.errBuf.String()))
		}
		if died == "timeout" {
			forced[begun] = "timeout"
		} else {
			forced[begun] = crashKind(w.errBuf.String())
			if os.Getenv("VERIF_DEBUG") != "" {
				s := w.errBuf.String()
				if len(s) > 1500 {
					s = s[:1500]
				}
				fmt.Fprintf(os.Stderr, "worker died in case %s op %d (%s):\n%s\n", c.ID, begun, c.Ops[begun], s)
			}
		}
		o.Count("worker-restart")
	}
	panic("harness: too many worker restarts in case " + c.ID)
}

func main() {
	if len(os.Args) > 1 && os.Args[1] == "-worker" {
		workerMain()
		return
	}
	defer func() {
		if cur != nil {
			cur.kill()
		}
	}()
	proto.Main(proto.Harness{Rule: rule, Gen: gen, Exec: runInWorker})
}
