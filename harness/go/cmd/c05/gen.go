package main

import (
	"verif/harness/internal/prng"
	"verif/harness/internal/proto"
)

func gen(r *prng.R, f proto.Flags, emit func(proto.Case)) {
	emit(proto.Case{ID: "s1", Ops: []string{
		"ptype PA a:any b:any",
		"ptype PE a:any b:any e:res",
		"flow f1",
		"proc f1 G PE",
		"proc f1 B PA",
		"proc f1 C PA",
		"proc f1 R PA",
		"conn f1 req S:globalStream:start P:G:%e",
		"conn f1 req P:G:a S:globalStream:end",
		"conn f1 res S:globalStream:start P:R:%e",
		"conn f1 res P:R:a S:globalStream:end",
		"conn f1 res P:G:a P:B:%e",
		"conn f1 res P:B:a P:C:%e",
		"conn f1 res P:C:a P:B:%e",
		"load",
		"txn dir=req o=-",
		"txn dir=res o=f1/R/res=n:a",
		"txn dir=req o=f1/G/req=e:e,f1/B/res=n:b",
		"txn dir=req o=f1/G/req=e:e,f1/B/res=n:a,f1/C/res=n:a",
		"txn dir=res o=f1/R/res=n:a",
	}})
	emit(proto.Case{ID: "s2", Ops: []string{
		"ptype PA a:any b:any",
		"flow fa",
		"proc fa A PA",
		"conn fa req S:globalStream:start P:A:%e",
		"conn fa req P:A:a F:fb:start",
		"conn fa res S:globalStream:start S:globalStream:end",
		"flow fb",
		"proc fb B PA",
		"conn fb req S:globalStream:start P:B:%e",
		"conn fb req P:B:a F:fa:start",
		"conn fb res S:globalStream:start S:globalStream:end",
		"load",
		"txn dir=req o=-",
	}})
}
