package main

// Case generators.  Families:
//   A  random single-flow graphs (both directions, roots present/absent, answering nodes, cycles)
//   B  exhaustive small graphs (thorough; a random sample of the same space in quick)
//   C  malformed stream (YAML-level and builder-level errors)
//   D  flow references (one-way, chains, cycles, unknown flows)
//   E  quota files (field mutations, internal limits, hosts, null entries) + raw transactions
//   F  transaction-content fuzz (header blocks, bodies, urls) on loaded configurations
//
// A transaction that does not return costs a worker restart (~0.1 s), so the generator predicts with a
// small simulation of its own which transactions loop and spends a fixed budget on them; the prediction
// only steers the budget, the verdict comes from the Lean model.

import (
	"bytes"
	"compress/gzip"
	"compress/zlib"
	"fmt"
	"sort"
	"strings"

	"verif/harness/internal/prng"
	"verif/harness/internal/proto"
)

const (
	sStart = "S:globalStream:start"
	sEnd   = "S:globalStream:end"
)

var vocabLines = []string{
	"ptype PA a:any b:any",
	"ptype PE a:any b:any e:res",
	"ptype PU %e:any",
	"ptype PD n0:any n1:any n2:any n3:any",
	"ptype PQ a:any",
	"preq PQ need",
}

func pe(key, cond string) string { return "P:" + proto.Enc(key) + ":" + proto.Enc(cond) }

type gedge struct {
	from, to int // to == -1: stream end
	cond     string
}

// ggraph: one direction over nodes 0..n-1 (keys K0..); root -1 = no stream entry
type ggraph struct {
	n     int
	root  int
	edges []gedge
}

func key(i int) string { return fmt.Sprintf("K%d", i) }

func (g *ggraph) conns(flow, dir string) []string {
	var out []string
	if g.root >= 0 {
		out = append(out, fmt.Sprintf("conn %s %s %s %s", flow, dir, sStart, pe(key(g.root), "")))
	}
	for _, e := range g.edges {
		to := sEnd
		if e.to >= 0 {
			to = pe(key(e.to), "")
		}
		out = append(out, fmt.Sprintf("conn %s %s %s %s", flow, dir, pe(key(e.from), e.cond), to))
	}
	if len(out) == 0 {
		out = append(out, fmt.Sprintf("conn %s %s %s %s", flow, dir, sStart, sEnd))
	}
	return out
}

// first processor edge target per node, in connection order after de-duplication (the short-circuit entry)
func (g *ggraph) firstEdge(k int) (gedge, bool) {
	for _, e := range g.edges {
		if e.from == k {
			return e, true
		}
	}
	return gedge{}, false
}

// loops: does the walk from `start` with output out[node] revisit a node of its own call stack?
func (g *ggraph) loops(start int, out []string) bool {
	on := make([]bool, g.n)
	budget := 200000
	var rec func(k int) bool
	rec = func(k int) bool {
		if on[k] {
			return true
		}
		budget--
		if budget < 0 {
			return true
		}
		on[k] = true
		seen := map[string]bool{}
		for _, e := range g.edges {
			if e.from != k || e.to < 0 || e.cond != out[k] {
				continue
			}
			id := fmt.Sprintf("%d", e.to)
			if seen[id] {
				continue
			}
			seen[id] = true
			if rec(e.to) {
				return true
			}
		}
		on[k] = false
		return false
	}
	return rec(start)
}

// rootCycle: a processor cycle is reachable from the root (conditions ignored): the loader refuses the
// direction, transactions are answered `not-loaded` and cost nothing.
func (g *ggraph) rootCycle() bool {
	if g.root < 0 {
		return false
	}
	state := make([]int, g.n)
	var rec func(k int) bool
	rec = func(k int) bool {
		if state[k] == 1 {
			return true
		}
		if state[k] == 2 {
			return false
		}
		state[k] = 1
		for _, e := range g.edges {
			if e.from == k && e.to >= 0 && rec(e.to) {
				return true
			}
		}
		state[k] = 2
		return false
	}
	return rec(g.root)
}

type budget struct {
	crashes int
}

func oracleStr(flow, dir string, out []string, extra string) string {
	var parts []string
	for i, o := range out {
		parts = append(parts, fmt.Sprintf("%s/%s/%s=n:%s", flow, key(i), dir, proto.Enc(o)))
	}
	if extra != "" {
		parts = append(parts, extra)
	}
	if len(parts) == 0 {
		return "-"
	}
	return strings.Join(parts, ",")
}

// ---------------------------------------------------------------- family B: response direction + dispatcher

// respCase: flow f1 with request `start -> D`, `D -n_i-> K_i` (K_i answers) and the response graph g.
// Transactions: the response from the root and, for every node, the request answered by that node, each
// under constant oracles.
func respCase(id string, g *ggraph, consts []string, b *budget, sample func() bool) proto.Case {
	ops := append([]string{}, vocabLines...)
	ops = append(ops, "flow f1", "proc f1 D PD")
	for i := 0; i < g.n; i++ {
		ops = append(ops, fmt.Sprintf("proc f1 %s PE act=%s", key(i), []string{"side", "resp", "both", "none"}[(i+len(g.edges))%4]))
	}
	ops = append(ops, fmt.Sprintf("conn f1 req %s %s", sStart, pe("D", "")))
	for i := 0; i < g.n; i++ {
		ops = append(ops, fmt.Sprintf("conn f1 req %s %s", pe("D", fmt.Sprintf("n%d", i)), pe(key(i), "")))
	}
	ops = append(ops, g.conns("f1", "res")...)
	ops = append(ops, "load")
	for _, c := range consts {
		out := make([]string, g.n)
		for i := range out {
			out[i] = c
		}
		if g.root >= 0 {
			ops = append(ops, "txn dir=res o="+oracleStr("f1", "res", out, ""))
		}
		for k := 0; k < g.n; k++ {
			e, ok := g.firstEdge(k)
			risky := ok && e.to >= 0 && g.loops(e.to, out)
			if risky && !g.rootCycle() {
				if b.crashes <= 0 || !sample() {
					continue
				}
				b.crashes--
			}
			extra := fmt.Sprintf("f1/D/req=n:n%d,f1/%s/req=e:e", k, key(k))
			ops = append(ops, "txn dir=req o="+oracleStr("f1", "res", out, extra))
		}
	}
	return proto.Case{ID: id, Ops: ops}
}

// reqCase: the request direction is the graph g (root required by the loader), trivial response.
func reqCase(id string, g *ggraph, consts []string) proto.Case {
	ops := append([]string{}, vocabLines...)
	ops = append(ops, "flow f1")
	for i := 0; i < g.n; i++ {
		ops = append(ops, fmt.Sprintf("proc f1 %s PE", key(i)))
	}
	ops = append(ops, g.conns("f1", "req")...)
	ops = append(ops, fmt.Sprintf("conn f1 res %s %s", sStart, sEnd), "load")
	for _, c := range consts {
		out := make([]string, g.n)
		for i := range out {
			out[i] = c
		}
		ops = append(ops, "txn dir=req o="+oracleStr("f1", "req", out, ""))
	}
	return proto.Case{ID: id, Ops: ops}
}

var labelSets = [][]string{nil, {"a"}, {"b"}, {"a", "b"}}

// enumGraph decodes graph number m over n nodes: for every ordered pair (i,j) (self loops if self) a digit
// in base len(labels) selecting the label set; root from the remaining digits (0 = none).
func enumGraph(n int, self bool, labels [][]string, m int) *ggraph {
	g := &ggraph{n: n}
	for i := 0; i < n; i++ {
		for j := 0; j < n; j++ {
			if i == j && !self {
				continue
			}
			d := m % len(labels)
			m /= len(labels)
			for _, l := range labels[d] {
				g.edges = append(g.edges, gedge{from: i, to: j, cond: l})
			}
		}
	}
	g.root = m%(n+1) - 1
	return g
}

func enumCount(n int, self bool, labels int) int {
	pairs := n * (n - 1)
	if self {
		pairs = n * n
	}
	c := n + 1
	for i := 0; i < pairs; i++ {
		c *= labels
	}
	return c
}

type space struct {
	name   string
	n      int
	self   bool
	labels [][]string
}

var spaces = []space{
	{"n2full", 2, true, labelSets},
	{"n3two", 3, false, labelSets},
	{"n3self", 3, true, labelSets[:2]},
	{"n4one", 4, false, labelSets[:2]},
}

// reorder: connection-order variants of an enumerated graph.  0: as enumerated; 1: reversed; 2: every node
// gets a stream-end connection on condition "b" written BEFORE its other connections (an exit precedes the
// edges that may close a cycle); 3: the same exits written AFTER them.
func reorder(g *ggraph, variant int) *ggraph {
	switch variant {
	case 1:
		for a, b := 0, len(g.edges)-1; a < b; a, b = a+1, b-1 {
			g.edges[a], g.edges[b] = g.edges[b], g.edges[a]
		}
	case 2, 3:
		var exits []gedge
		for i := 0; i < g.n; i++ {
			exits = append(exits, gedge{from: i, to: -1, cond: "b"})
		}
		if variant == 2 {
			g.edges = append(exits, g.edges...)
		} else {
			g.edges = append(g.edges, exits...)
		}
	}
	return g
}

// seqGraph decodes the m-th ORDERED sequence of k distinct connections over n nodes (condition "a"; targets:
// the other nodes and the stream end); root = node 0.  The connection vocabulary has n*n entries.
func seqGraph(n, k, m int) *ggraph {
	type cn struct{ from, to int }
	var vocab []cn
	for i := 0; i < n; i++ {
		for j := -1; j < n; j++ {
			if j != i {
				vocab = append(vocab, cn{i, j})
			}
		}
	}
	g := &ggraph{n: n, root: 0}
	for pos := 0; pos < k; pos++ {
		idx := m % len(vocab)
		m /= len(vocab)
		c := vocab[idx]
		vocab = append(vocab[:idx:idx], vocab[idx+1:]...)
		g.edges = append(g.edges, gedge{from: c.from, to: c.to, cond: "a"})
	}
	return g
}

func seqCount(n, k int) int {
	v, c := n*n, 1
	for pos := 0; pos < k; pos++ {
		c *= v - pos
	}
	return c
}

// leaves: give every node without outgoing edge a `-> stream end` connection with probability, so that both
// "unconnected" and connected leaves occur; deterministic in m.
func withLeaves(g *ggraph, m int) *ggraph {
	has := make([]bool, g.n)
	tgt := make([]bool, g.n)
	for _, e := range g.edges {
		has[e.from] = true
		if e.to >= 0 {
			tgt[e.to] = true
		}
	}
	for i := 0; i < g.n; i++ {
		if !has[i] && (tgt[i] || i == g.root || (m+i)%3 != 0) {
			g.edges = append(g.edges, gedge{from: i, to: -1, cond: "a"})
		}
	}
	return g
}

// ---------------------------------------------------------------- family A: random graphs

func randGraph(r *prng.R, n int, conds []string, needRoot bool) *ggraph {
	g := &ggraph{n: n, root: -1}
	if needRoot || r.Chance(75) {
		g.root = r.Intn(n)
	}
	shape := prng.Pick(r, []int{0, 0, 0, 0, 2, 2, 2, 1})
	for i := 0; i < n; i++ {
		deg := r.Intn(3)
		for k := 0; k < deg; k++ {
			var j int
			switch shape {
			case 0: // DAG-ish: forward edges
				if i+1 >= n {
					j = -1
				} else {
					j = i + 1 + r.Intn(n-i-1)
				}
			case 1: // anything, incl. back edges and self loops
				j = r.Intn(n)
			default: // mostly forward, a few back edges
				if r.Chance(88) && i+1 < n {
					j = i + 1 + r.Intn(n-i-1)
				} else {
					j = r.Intn(n)
				}
			}
			g.edges = append(g.edges, gedge{from: i, to: j, cond: prng.Pick(r, conds)})
		}
		if deg == 0 || r.Chance(35) {
			g.edges = append(g.edges, gedge{from: i, to: -1, cond: prng.Pick(r, conds)})
		}
	}
	// connection order is free in the YAML: the edge order of a node is the order of its connections
	switch r.Intn(4) {
	case 0:
		prng.Shuffle(r, g.edges)
	case 1: // every stream-end connection first
		sort.SliceStable(g.edges, func(a, b int) bool { return g.edges[a].to < 0 && g.edges[b].to >= 0 })
	case 2: // reversed
		for a, b := 0, len(g.edges)-1; a < b; a, b = a+1, b-1 {
			g.edges[a], g.edges[b] = g.edges[b], g.edges[a]
		}
	}
	return g
}

func randCase(r *prng.R, id string, b *budget) proto.Case {
	n := r.Range(2, 7)
	conds := []string{"a", "b"}
	rq := randGraph(r, n, conds, !r.Chance(6))
	rs := randGraph(r, n, conds, false)
	if r.Chance(10) {
		rs = &ggraph{n: n, root: -1} // undefined response direction (stream -> stream)
	}
	ops := append([]string{}, vocabLines...)
	ops = append(ops, "flow f1")
	for i := 0; i < n; i++ {
		ops = append(ops, fmt.Sprintf("proc f1 %s PE act=%s", key(i), prng.Pick(r, []string{"side", "side", "resp", "both", "none"})))
	}
	ops = append(ops, rq.conns("f1", "req")...)
	ops = append(ops, rs.conns("f1", "res")...)
	ops = append(ops, "load")
	for t := 0; t < 8; t++ {
		outQ := make([]string, n)
		outS := make([]string, n)
		for i := 0; i < n; i++ {
			outQ[i] = prng.Pick(r, []string{"a", "a", "b", "b", "", "zz"})
			outS[i] = prng.Pick(r, []string{"a", "a", "b", "b", "", "zz"})
		}
		if t%3 == 2 {
			if rs.root >= 0 && rs.loops(rs.root, outS) && !rq.rootCycle() && !rs.rootCycle() {
				if b.crashes <= 0 {
					continue
				}
				b.crashes--
			}
			extra := ""
			if r.Chance(15) {
				extra = fmt.Sprintf("f1/%s/res=x", key(r.Intn(n)))
			}
			ops = append(ops, "txn dir=res o="+oracleStr("f1", "res", outS, extra))
			continue
		}
		// request transaction: maybe one answering node, maybe one failing node
		var extras []string
		ans := -1
		if r.Chance(60) {
			ans = r.Intn(n)
			extras = append(extras, fmt.Sprintf("f1/%s/req=e:e", key(ans)))
		}
		if r.Chance(10) {
			extras = append(extras, fmt.Sprintf("f1/%s/req=x", key(r.Intn(n))))
		}
		risky := rq.root >= 0 && rq.loops(rq.root, outQ)
		if ans >= 0 {
			if e, ok := rs.firstEdge(ans); ok && e.to >= 0 && rs.loops(e.to, outS) {
				risky = true
			}
		}
		if risky && !rq.rootCycle() && !rs.rootCycle() {
			if b.crashes <= 0 {
				continue
			}
			b.crashes--
		}
		o := oracleStr("f1", "req", outQ, "") + "," + oracleStr("f1", "res", outS, strings.Join(extras, ","))
		ops = append(ops, "txn dir=req o="+strings.TrimSuffix(o, ","))
	}
	return proto.Case{ID: id, Ops: ops}
}

// ---------------------------------------------------------------- family C: malformed stream

func baseFlow(name string) []string {
	return []string{
		"flow " + name,
		fmt.Sprintf("proc %s A PA", name),
		fmt.Sprintf("proc %s B PA", name),
		fmt.Sprintf("conn %s req %s %s", name, sStart, pe("A", "")),
		fmt.Sprintf("conn %s req %s %s", name, pe("A", "a"), pe("B", "")),
		fmt.Sprintf("conn %s req %s %s", name, pe("B", "a"), sEnd),
		fmt.Sprintf("conn %s res %s %s", name, sStart, pe("B", "")),
		fmt.Sprintf("conn %s res %s %s", name, pe("B", "b"), sEnd),
	}
}

var malformedKinds = []string{
	"dangling-proc", "dangling-target", "dup-param", "missing-required", "with-required", "empty-request", "empty-response",
	"empty-both", "nil-from", "nil-to", "empty-stream-name", "empty-proc-name", "empty-flow-ref-name",
	"unknown-ptype", "empty-ptype", "bad-at-start", "bad-at-end", "empty-url", "no-filter", "bad-url", "dup-flow-name",
	"bad-condition", "res-only-condition-on-req", "empty-flow-name", "stream-to-flow", "flow-to-stream", "no-root",
	"unconnected", "two-flows-one-bad", "proc-to-stream-start", "unused-proc",
	"null-conn-req", "null-conn-res", "null-conn-first", "only-null-conns", "null-proc", "null-conn-second-flow",
}

func malformedCase(r *prng.R, id, kind string) proto.Case {
	ops := append([]string{}, vocabLines...)
	f := baseFlow("f1")
	add := func(l ...string) { f = append(f, l...) }
	repl := func(i int, l string) { f[i] = l }
	switch kind {
	case "dangling-proc":
		add(fmt.Sprintf("conn f1 req %s %s", pe("Z", "a"), sEnd))
	case "dangling-target":
		add(fmt.Sprintf("conn f1 res %s %s", pe("B", "a"), pe("Z", "")))
	case "dup-param":
		repl(1, "proc f1 A PA k=1 k=2")
	case "missing-required":
		repl(1, "proc f1 A PQ")
	case "with-required":
		repl(1, "proc f1 A PQ need=1 other=2")
	case "empty-request":
		f = []string{f[0], f[1], f[2], f[6], f[7]}
	case "empty-response":
		f = f[:6]
	case "empty-both":
		f = f[:3]
	case "nil-from":
		add("conn f1 req X " + sEnd)
	case "nil-to":
		add(fmt.Sprintf("conn f1 res %s X", pe("B", "a")))
	case "empty-stream-name":
		add(fmt.Sprintf("conn f1 req %s S:%%e:end", pe("B", "b")))
	case "empty-proc-name":
		add(fmt.Sprintf("conn f1 req %s %s", pe("", "a"), sEnd))
	case "empty-flow-ref-name":
		add(fmt.Sprintf("conn f1 req %s F:%%e:start", pe("B", "b")))
	case "dot-key":
		repl(1, "proc f1 A.x PA")
		repl(3, fmt.Sprintf("conn f1 req %s %s", sStart, pe("A.x", "")))
		repl(4, fmt.Sprintf("conn f1 req %s %s", pe("A.x", "a"), pe("B", "")))
	case "unknown-ptype":
		repl(2, "proc f1 B NOPE")
	case "empty-ptype":
		repl(2, "proc f1 B %e")
	case "bad-at-start":
		repl(3, fmt.Sprintf("conn f1 req S:globalStream:begin %s", pe("A", "")))
	case "bad-at-end":
		repl(5, fmt.Sprintf("conn f1 req %s S:globalStream:finish", pe("B", "a")))
	case "empty-url":
		repl(0, "flow f1 url=%e")
	case "no-filter":
		repl(0, "flow f1 url=-")
	case "bad-url":
		repl(0, "flow f1 url=verif.test//x")
	case "dup-flow-name":
		add(baseFlow("f1")...)
	case "bad-condition":
		repl(4, fmt.Sprintf("conn f1 req %s %s", pe("A", "nope"), pe("B", "")))
	case "res-only-condition-on-req":
		repl(1, "proc f1 A PE")
		repl(4, fmt.Sprintf("conn f1 req %s %s", pe("A", "e"), pe("B", "")))
	case "empty-flow-name":
		f = baseFlow("%e")
	case "stream-to-flow":
		add(fmt.Sprintf("conn f1 req %s F:f1:start", sStart))
	case "flow-to-stream":
		add(fmt.Sprintf("conn f1 req F:f1:end %s", sEnd))
	case "no-root":
		f = append(f[:3], f[4:]...)
	case "unconnected":
		add("proc f1 C PA", fmt.Sprintf("conn f1 req %s %s", sStart, pe("C", "")), fmt.Sprintf("conn f1 req %s %s", sStart, pe("A", "")))
	case "two-flows-one-bad":
		add(baseFlow("f2")...)
		add(fmt.Sprintf("conn f2 req %s %s", pe("Z", "a"), sEnd))
	case "proc-to-stream-start":
		add(fmt.Sprintf("conn f1 req %s S:globalStream:start", pe("B", "b")))
	case "unused-proc":
		add("proc f1 C PA")
	case "null-conn-req":
		add("connnull f1 req")
	case "null-conn-res":
		add("connnull f1 res")
	case "null-conn-first":
		f = append(append([]string{}, f[:3]...), append([]string{"connnull f1 req"}, f[3:]...)...)
	case "only-null-conns":
		f = append(f[:3], "connnull f1 req", "connnull f1 res")
	case "null-proc":
		add("procnull f1 Z")
	case "null-conn-second-flow":
		add(baseFlow("f2")...)
		add("connnull f2 res")
	}
	ops = append(ops, f...)
	ops = append(ops, "load", "txn dir=req o=f1/A/req=n:a,f1/B/req=n:a", "txn dir=res o=f1/B/res=n:b")
	_ = r
	return proto.Case{ID: id, Ops: ops}
}

// ---------------------------------------------------------------- family D: flow references

// refFlow: flow `name` with processors <name>A, <name>B: start -> A, A -a-> B, B -a-> end (or a reference)
func refFlow(name, tail string, dir string) []string {
	a, b := name+"A", name+"B"
	other := "res"
	if dir == "res" {
		other = "req"
	}
	return []string{
		"flow " + name,
		fmt.Sprintf("proc %s %s PA", name, a),
		fmt.Sprintf("proc %s %s PA", name, b),
		fmt.Sprintf("conn %s %s %s %s", name, dir, sStart, pe(a, "")),
		fmt.Sprintf("conn %s %s %s %s", name, dir, pe(a, "a"), pe(b, "")),
		fmt.Sprintf("conn %s %s %s %s", name, dir, pe(b, "a"), tail),
		fmt.Sprintf("conn %s %s %s %s", name, other, sStart, sEnd),
	}
}

var refKinds = []string{"one-way", "chain3", "cycle2", "cycle3", "self", "unknown", "no-start-in-target", "flow-end-entry",
	"one-way-res", "cycle2-res", "bad-at", "diamond", "diamond-res", "chain3-res"}

func refCase(r *prng.R, id, kind string) proto.Case {
	ops := append([]string{}, vocabLines...)
	ref := func(n string) string { return "F:" + n + ":start" }
	var names []string
	switch kind {
	case "one-way":
		ops = append(ops, refFlow("fa", ref("fb"), "req")...)
		ops = append(ops, refFlow("fb", sEnd, "req")...)
		names = []string{"fa", "fb"}
	case "chain3":
		ops = append(ops, refFlow("fa", ref("fb"), "req")...)
		ops = append(ops, refFlow("fb", ref("fc"), "req")...)
		ops = append(ops, refFlow("fc", sEnd, "req")...)
		names = []string{"fa", "fb", "fc"}
	case "diamond":
		ops = append(ops, refFlow("fa", ref("fc"), "req")...)
		ops = append(ops, refFlow("fb", ref("fc"), "req")...)
		ops = append(ops, refFlow("fc", sEnd, "req")...)
		names = []string{"fa", "fb", "fc"}
	case "cycle2":
		ops = append(ops, refFlow("fa", ref("fb"), "req")...)
		ops = append(ops, refFlow("fb", ref("fa"), "req")...)
		names = []string{"fa", "fb"}
	case "cycle3":
		ops = append(ops, refFlow("fa", ref("fb"), "req")...)
		ops = append(ops, refFlow("fb", ref("fc"), "req")...)
		ops = append(ops, refFlow("fc", ref("fa"), "req")...)
		names = []string{"fa", "fb", "fc"}
	case "self":
		ops = append(ops, refFlow("fa", ref("fa"), "req")...)
		names = []string{"fa"}
	case "unknown":
		ops = append(ops, refFlow("fa", ref("nope"), "req")...)
		names = []string{"fa"}
	case "no-start-in-target":
		ops = append(ops, refFlow("fa", ref("fb"), "req")...)
		fb := refFlow("fb", sEnd, "req")
		fb = append(fb[:3], fb[4:]...) // drop `start -> fbA`: no foreign root; fb itself has no root
		ops = append(ops, fb...)
		names = []string{"fa", "fb"}
	case "flow-end-entry":
		ops = append(ops, refFlow("fa", sEnd, "req")...)
		fb := refFlow("fb", sEnd, "req")
		fb[3] = fmt.Sprintf("conn fb req F:fa:end %s", pe("fbA", ""))
		ops = append(ops, fb...)
		names = []string{"fa", "fb"}
	case "one-way-res":
		ops = append(ops, refFlow("fa", ref("fb"), "res")...)
		ops = append(ops, refFlow("fb", sEnd, "res")...)
		names = []string{"fa", "fb"}
	case "cycle2-res":
		ops = append(ops, refFlow("fa", ref("fb"), "res")...)
		ops = append(ops, refFlow("fb", ref("fa"), "res")...)
		names = []string{"fa", "fb"}
	case "diamond-res":
		ops = append(ops, refFlow("fa", ref("fc"), "res")...)
		ops = append(ops, refFlow("fb", ref("fc"), "res")...)
		ops = append(ops, refFlow("fc", sEnd, "res")...)
		names = []string{"fa", "fb", "fc"}
	case "chain3-res":
		ops = append(ops, refFlow("fa", ref("fb"), "res")...)
		ops = append(ops, refFlow("fb", ref("fc"), "res")...)
		ops = append(ops, refFlow("fc", sEnd, "res")...)
		names = []string{"fa", "fb", "fc"}
	case "bad-at":
		ops = append(ops, refFlow("fa", "F:fb:end", "req")...)
		ops = append(ops, refFlow("fb", sEnd, "req")...)
		names = []string{"fa", "fb"}
	}
	ops = append(ops, "load")
	var parts []string
	for _, n := range names {
		for _, d := range []string{"req", "res"} {
			parts = append(parts, fmt.Sprintf("%s/%sA/%s=n:a,%s/%sB/%s=n:a", n, n, d, n, n, d))
		}
	}
	ops = append(ops, "txn dir=req o="+strings.Join(parts, ","), "txn dir=res o="+strings.Join(parts, ","), "txn dir=req o=-")
	_ = r
	return proto.Case{ID: id, Ops: ops}
}

// ---------------------------------------------------------------- family D2: reference graphs

// refGraphCase: n flows f0..f(n-1); adj[i] = the flows f_i references (`f_iA -n_j-> flow f_j start`), written in
// direction dir; flows are declared in the order `order`.  On the response side every flow that fails fails with
// "circular flow reference" (a reference cycle is reachable from it), so the class is printed (`load class`); on the
// request side `connectProcessorToStream` redirects foreign exits to the current root, other classes mix in.
func refGraphCase(id string, n int, adj [][]int, dir string, order []int) proto.Case {
	ops := append([]string{}, vocabLines...)
	other := "res"
	if dir == "res" {
		other = "req"
	}
	fname := func(i int) string { return fmt.Sprintf("f%d", i) }
	for _, i := range order {
		f, a := fname(i), fname(i)+"A"
		ops = append(ops, "flow "+f, fmt.Sprintf("proc %s %s PD", f, a),
			fmt.Sprintf("conn %s %s %s %s", f, dir, sStart, pe(a, "")))
		for _, j := range adj[i] {
			ops = append(ops, fmt.Sprintf("conn %s %s %s F:%s:start", f, dir, pe(a, fmt.Sprintf("n%d", j)), fname(j)))
		}
		if len(adj[i]) == 0 {
			ops = append(ops, fmt.Sprintf("conn %s %s %s %s", f, dir, pe(a, "n0"), sEnd))
		}
		ops = append(ops, fmt.Sprintf("conn %s %s %s %s", f, other, sStart, sEnd))
	}
	if dir == "res" && uniformFailure(n, adj) {
		ops = append(ops, "load class")
	} else {
		ops = append(ops, "load")
	}
	var parts []string
	for i := 0; i < n; i++ {
		for j := 0; j < n; j++ {
			out := "n0"
			if len(adj[j]) > 0 {
				out = fmt.Sprintf("n%d", adj[j][0])
			}
			parts = append(parts, fmt.Sprintf("%s/%sA/%s=n:%s", fname(i), fname(j), dir, out))
		}
	}
	ops = append(ops, "txn dir="+dir+" o="+strings.Join(parts, ","))
	return proto.Case{ID: id, Ops: ops}
}

// uniformFailure: (functional graphs only) do all flows that fail to build fail for the same reason?  Following
// the chain of references from a flow: a repeated flow = "circular flow reference"; a chain of >= 2 references that
// ends in a reference-free flow = "foreign root node not found" (the nested incorporation consumed foreignRoot).
// Go reports the first failing flow in map order, so the class is only printed when it cannot depend on that order.
func uniformFailure(n int, adj [][]int) bool {
	classes := map[string]bool{}
	for i := 0; i < n; i++ {
		if len(adj[i]) > 1 {
			return false
		}
		seen := map[int]bool{i: true}
		cur, depth := i, 0
		for len(adj[cur]) == 1 {
			if len(adj[adj[cur][0]]) > 1 {
				return false
			}
			cur = adj[cur][0]
			depth++
			if seen[cur] {
				classes["refcycle"] = true
				depth = -1
				break
			}
			seen[cur] = true
		}
		if depth >= 2 {
			classes["foreignroot"] = true
		}
	}
	return len(classes) <= 1
}

// functional reference graph number m over n flows: every flow references at most one flow (digit 0 = none):
// self loops, 2-cycles, rings, rho shapes (a tail into a cycle), chains
func functionalAdj(n, m int) [][]int {
	adj := make([][]int, n)
	for i := 0; i < n; i++ {
		d := m % (n + 1)
		m /= n + 1
		if d > 0 {
			adj[i] = []int{d - 1}
		}
	}
	return adj
}

// general reference graph number m over n flows (bit i*n+j: f_i references f_j): diamonds, several cycles
func generalAdj(n, m int) [][]int {
	adj := make([][]int, n)
	for i := 0; i < n; i++ {
		for j := 0; j < n; j++ {
			if m&(1<<(i*n+j)) != 0 {
				adj[i] = append(adj[i], j)
			}
		}
	}
	return adj
}

func perms(n int) [][]int {
	var out [][]int
	var rec func(cur []int, used []bool)
	rec = func(cur []int, used []bool) {
		if len(cur) == n {
			out = append(out, append([]int{}, cur...))
			return
		}
		for i := 0; i < n; i++ {
			if !used[i] {
				used[i] = true
				rec(append(cur, i), used)
				used[i] = false
			}
		}
	}
	rec(nil, make([]bool, n))
	return out
}

// in quick, with budget 1, every second functional graph over 4 flows; all of them when the budget is raised
func mulStep(mul int) int {
	if mul > 1 {
		return 1
	}
	return 2
}

func pow(b, e int) int {
	r := 1
	for ; e > 0; e-- {
		r *= b
	}
	return r
}

// ---------------------------------------------------------------- family E: quota files

type qfields map[string]string

func (q qfields) words() string {
	keys := make([]string, 0, len(q))
	for k := range q {
		keys = append(keys, k)
	}
	sort.Strings(keys)
	var w []string
	for _, k := range keys {
		w = append(w, k+"="+q[k])
	}
	return strings.Join(w, " ")
}

func validStrat(r *prng.R) qfields {
	switch r.Intn(5) {
	case 0, 1:
		q := qfields{"s": "fixed", "max": fmt.Sprint(r.Range(1, 5)), "int": fmt.Sprint(r.Range(1, 3)),
			"unit": prng.Pick(r, []string{"second", "minute", "hour", "day", "month"})}
		if r.Chance(20) {
			q["grp"] = "x-group"
		}
		if r.Chance(25) {
			q["mr"] = fmt.Sprintf("%d:%d:%d:%s", r.Range(1, 31), r.Range(0, 23), r.Range(0, 59), prng.Pick(r, []string{"UTC", "Local"}))
			if r.Chance(50) {
				q["spill"] = fmt.Sprint(r.Range(1, 9))
			}
		}
		return q
	case 2:
		return qfields{"s": "custom", "max": "5", "int": "1", "unit": "minute", "path": proto.Enc("$.request.headers.x")}
	case 3:
		q := qfields{"s": "conc", "maxreq": fmt.Sprint(r.Range(-2, 3))}
		if r.Chance(30) {
			q["exp"] = fmt.Sprint(r.Range(0, 3))
		}
		if r.Chance(30) {
			q["gc"] = fmt.Sprint(r.Range(0, 3))
		}
		return q
	}
	return qfields{"s": "hdr"}
}

var quotaMutations = []string{
	"none", "none", "none", "int0", "max0", "int-neg", "max-neg", "bad-unit", "no-unit", "no-max", "no-int", "huge-int",
	"strategy-none", "strategy-missing", "alloc-only", "alloc-neg", "alloc-101", "alloc-100", "exp-neg", "gc-neg",
	"no-filter", "empty-url", "bad-url", "empty-id", "mr-day0", "mr-day32", "mr-hour24", "mr-min60", "mr-neg", "mr-tz",
	"spill-no-mr", "spill0", "custom-no-path", "custom-empty-path", "conc-empty",
}

func mutate(r *prng.R, q qfields, url *string, id *string, mut string) {
	fixed := func() {
		for k := range q {
			delete(q, k)
		}
		q["s"], q["max"], q["int"], q["unit"] = "fixed", "3", "1", "minute"
	}
	switch mut {
	case "int0":
		fixed()
		q["int"] = "0"
	case "max0":
		fixed()
		q["max"] = "0"
	case "int-neg":
		fixed()
		q["int"] = "-1"
	case "max-neg":
		fixed()
		q["max"] = "-4"
	case "bad-unit":
		fixed()
		q["unit"] = prng.Pick(r, []string{"week", "Second", "%e", "minutes"})
	case "no-unit":
		fixed()
		delete(q, "unit")
	case "no-max":
		fixed()
		delete(q, "max")
	case "no-int":
		fixed()
		delete(q, "int")
	case "huge-int":
		fixed()
		q["int"] = "9223372036854775807"
		q["unit"] = "month"
	case "strategy-none":
		for k := range q {
			delete(q, k)
		}
		q["s"] = "none"
	case "strategy-missing":
		for k := range q {
			delete(q, k)
		}
		q["s"] = "missing"
	case "alloc-only":
		for k := range q {
			delete(q, k)
		}
		q["s"], q["alloc"] = "none", "50"
	case "alloc-neg":
		q["alloc"] = "-5"
	case "alloc-101":
		q["alloc"] = "101"
	case "alloc-100":
		q["alloc"] = "100"
	case "exp-neg":
		for k := range q {
			delete(q, k)
		}
		q["s"], q["maxreq"], q["exp"] = "conc", "2", "-1"
	case "gc-neg":
		for k := range q {
			delete(q, k)
		}
		q["s"], q["maxreq"], q["gc"] = "conc", "2", "-7"
	case "conc-empty":
		for k := range q {
			delete(q, k)
		}
		q["s"] = "conc"
	case "no-filter":
		*url = "-"
	case "empty-url":
		*url = "%e"
	case "bad-url":
		*url = "verif.test//x"
	case "empty-id":
		*id = "%e"
	case "mr-day0":
		fixed()
		q["mr"] = "0:0:0:UTC"
	case "mr-day32":
		fixed()
		q["mr"] = "32:0:0:UTC"
	case "mr-hour24":
		fixed()
		q["mr"] = "1:24:0:UTC"
	case "mr-min60":
		fixed()
		q["mr"] = "1:0:60:Local"
	case "mr-neg":
		fixed()
		q["mr"] = "1:-1:0:UTC"
	case "mr-tz":
		fixed()
		q["mr"] = "1:0:0:" + prng.Pick(r, []string{"Mars", "utc", "%e", "Europe/Berlin"})
	case "spill-no-mr":
		fixed()
		q["spill"] = "4"
	case "spill0":
		fixed()
		q["mr"] = "1:0:0:UTC"
		q["spill"] = prng.Pick(r, []string{"0", "-3"})
	case "custom-no-path":
		fixed()
		q["s"] = "custom"
	case "custom-empty-path":
		fixed()
		q["s"], q["path"] = "custom", "%e"
	}
}

var quotaShapes = []string{"single", "single", "single", "internal", "internal", "internal-chain", "internal-unknown-parent",
	"internal-no-parent", "internal-self-parent", "internal-before-parent", "internal-other-host", "internal-alloc",
	"internal-alloc-conc-parent", "two-hosts-one-file", "one-host-two-files", "two-files-two-hosts", "null-quota",
	"null-internal", "null-internal-no-quotas", "empty-file", "with-flow", "two-quotas"}

func quotaCase(r *prng.R, id string) proto.Case {
	shape := prng.Pick(r, quotaShapes)
	mut := prng.Pick(r, quotaMutations)
	var ops []string
	url, qid := "verif.test/*", "q1"
	if r.Chance(30) {
		url = prng.Pick(r, []string{"verif.test/x", "verif.test/*", "*", "verif.test/x/y"})
	}
	q := validStrat(r)
	target := r.Intn(2) // which entry the mutation hits in shapes with an internal limit
	if !strings.HasPrefix(shape, "internal") || target == 0 {
		mutate(r, q, &url, &qid, mut)
	}
	quota := func(id, url string, q qfields) string { return fmt.Sprintf("quota %s url=%s %s", id, url, q.words()) }
	il := func(id, parent, url string, q qfields) string {
		return fmt.Sprintf("ilimit %s parent=%s url=%s %s", id, parent, url, q.words())
	}
	child := func() (qfields, string, string) {
		c := validStrat(r)
		curl, cid := prng.Pick(r, []string{"-", "verif.test/x", "verif.test/*", "%e"}), "c1"
		if target == 1 {
			mutate(r, c, &curl, &cid, mut)
		}
		return c, curl, cid
	}
	switch shape {
	case "single":
		ops = append(ops, quota(qid, url, q))
	case "two-quotas":
		ops = append(ops, quota(qid, url, q), quota("q2", "verif.test/y", validStrat(r)))
	case "internal":
		c, curl, cid := child()
		ops = append(ops, quota(qid, url, q), il(cid, "q1", curl, c))
	case "internal-chain":
		c, curl, cid := child()
		ops = append(ops, quota(qid, url, q), il(cid, "q1", curl, c), il("c2", "c1", "-", validStrat(r)))
	case "internal-unknown-parent":
		c, curl, cid := child()
		ops = append(ops, quota(qid, url, q), il(cid, "nope", curl, c))
	case "internal-no-parent":
		c, curl, cid := child()
		ops = append(ops, quota(qid, url, q), il(cid, "-", curl, c))
	case "internal-self-parent":
		c, curl, cid := child()
		ops = append(ops, quota(qid, url, q), il(cid, "c1", curl, c))
	case "internal-before-parent":
		c, curl, cid := child()
		ops = append(ops, quota(qid, url, q), il("c2", "c1", "-", validStrat(r)), il(cid, "q1", curl, c))
	case "internal-other-host":
		c, _, cid := child()
		ops = append(ops, quota(qid, url, q), il(cid, "q1", "other.test/x", c))
	case "internal-alloc":
		ops = append(ops, quota(qid, url, q), il("c1", "q1", "-", qfields{"s": "none", "alloc": fmt.Sprint(r.Range(0, 100))}))
	case "internal-alloc-conc-parent":
		ops = append(ops, quota(qid, url, qfields{"s": "conc", "maxreq": "3"}),
			il("c1", "q1", "-", qfields{"s": prng.Pick(r, []string{"none", "conc"}), "alloc": "50"}))
	case "two-hosts-one-file":
		ops = append(ops, quota(qid, url, q), quota("q2", "other.test/*", validStrat(r)))
	case "one-host-two-files":
		ops = append(ops, quota(qid, url, q), "qfile", quota("q2", "verif.test/y", validStrat(r)))
	case "two-files-two-hosts":
		ops = append(ops, quota(qid, url, q), "qfile", quota("q2", "other.test/*", validStrat(r)))
	case "null-quota":
		if r.Bool() {
			ops = append(ops, quota(qid, url, q))
		}
		ops = append(ops, "qnull quotas")
	case "null-internal":
		ops = append(ops, quota(qid, url, q), "qnull internal")
	case "null-internal-no-quotas":
		ops = append(ops, "qfile", "qnull internal")
	case "empty-file":
		ops = append(ops, "qfile")
	case "with-flow":
		ops = append(ops, vocabLines...)
		ops = append(ops, quota(qid, url, q))
		ops = append(ops, baseFlow("f1")...)
	}
	ops = append(ops, "load")
	if shape == "with-flow" {
		ops = append(ops, "txn dir=req o=f1/A/req=n:a,f1/B/req=n:a", "txn dir=res o=f1/B/res=n:b")
	}
	for i := 0; i < 3; i++ {
		ops = append(ops, rawTxn(r, false))
	}
	return proto.Case{ID: id, Ops: ops}
}

// ---------------------------------------------------------------- family E2: quota trees with repeated ids

type ilSpec struct{ id, parent, url string }

var dupShapes = map[string][]ilSpec{
	// an id declared again BELOW itself (seed C05-s8), also twice in a row (the third is refused: same id twice under one node)
	"below-itself":            {{"c1", "q1", "verif.test/x"}, {"c1", "c1", "verif.test/y"}},
	"below-itself-twice":      {{"c1", "q1", "verif.test/x"}, {"c1", "c1", "verif.test/y"}, {"c1", "c1", "verif.test/z"}},
	"below-itself-then-child": {{"c1", "q1", "verif.test/x"}, {"c1", "c1", "verif.test/y"}, {"d1", "c1", "verif.test/z"}},
	// the same id at depth 1 and depth 3 of one branch
	"depth-1-and-3": {{"c1", "q1", "verif.test/x"}, {"d1", "c1", "verif.test/x/1"}, {"c1", "d1", "verif.test/y"}},
	// the same id on sibling branches (nobody uses it as parent: the loader's choices stay deterministic)
	"sibling-branches": {{"a1", "q1", "verif.test/x"}, {"b1", "q1", "verif.test/y"}, {"x1", "a1", "verif.test/x/1"}, {"x1", "b1", "verif.test/y/1"}},
	// the quota's own id again below it
	"quota-id-below": {{"q1", "q1", "verif.test/x"}, {"c1", "q1", "verif.test/y"}},
	// a limit that is its own parent / a parent declared later: silently dropped
	"own-parent":            {{"c1", "c1", "verif.test/x"}},
	"parent-declared-later": {{"c2", "c1", "verif.test/y"}, {"c1", "q1", "verif.test/x"}},
	"own-parent-after-real": {{"c1", "q1", "verif.test/x"}, {"c2", "c2", "verif.test/y"}, {"c1", "c1", "verif.test/z"}},
	// the same id twice under one node: refused
	"twice-under-one-node": {{"c1", "q1", "verif.test/x"}, {"c1", "q1", "verif.test/y"}},
	// the same id with the same filter: the generated processors collide: refused
	"same-id-same-filter":      {{"c1", "q1", "verif.test/x"}, {"c1", "c1", "verif.test/x"}},
	"same-id-inherited-filter": {{"c1", "q1", "-"}, {"c1", "c1", "-"}},
	"no-duplicates":            {{"c1", "q1", "verif.test/x"}, {"c2", "c1", "verif.test/y"}, {"c3", "c2", "-"}},
}

func dupQuotaCase(r *prng.R, id string, shape string) proto.Case {
	ops := append([]string{}, vocabLines...)
	strat := func() string {
		switch r.Intn(4) {
		case 0:
			return "s=conc maxreq=100"
		case 1:
			return "s=hdr"
		}
		return fmt.Sprintf("s=fixed max=%d int=1 unit=%s", r.Range(50, 100), prng.Pick(r, []string{"minute", "hour"}))
	}
	ops = append(ops, "quota q1 url=verif.test/* "+strat())
	ids := map[string]bool{"q1": true, "nope": true}
	for _, il := range dupShapes[shape] {
		ops = append(ops, fmt.Sprintf("ilimit %s parent=%s url=%s %s", il.id, il.parent, il.url, strat()))
		ids[il.id] = true
	}
	var names []string
	for n := range ids {
		names = append(names, n)
	}
	sort.Strings(names)
	f := baseFlow("f1")
	f[1] = "proc f1 A PA quota_id=" + prng.Pick(r, names)
	f[2] = "proc f1 B PA other=1 quota_id=" + prng.Pick(r, names)
	ops = append(ops, f...)
	ops = append(ops, "load", "txn dir=req o=f1/A/req=n:a,f1/B/req=n:a")
	for i := 0; i < 2; i++ {
		ops = append(ops, rawTxn(r, false))
	}
	return proto.Case{ID: id, Ops: ops}
}

// ---------------------------------------------------------------- family G: status_code filters and early responses

// statusCase: 1-2 flows on the test URL; some carry filter.status_code (with / without 200, the status of the
// harness's response transactions); one processor answers the request early; response directions with and without
// stream entry, continuation of the answering node present or not; the answering flow first or second.
func statusCase(r *prng.R, id string) proto.Case {
	ops := append([]string{}, vocabLines...)
	st := func() string {
		return prng.Pick(r, []string{"", "", " status=200", " status=429,500", " status=200,429", " status=0", " status=418"})
	}
	answering := []string{
		"flow f1" + st(),
		"proc f1 G PE act=" + prng.Pick(r, []string{"side", "resp", "none"}),
		"proc f1 P PA act=" + prng.Pick(r, []string{"side", "resp", "both"}),
		fmt.Sprintf("conn f1 req %s %s", sStart, pe("G", "")),
		fmt.Sprintf("conn f1 req %s %s", pe("G", "a"), sEnd),
	}
	if r.Chance(60) {
		answering = append(answering, fmt.Sprintf("conn f1 res %s %s", sStart, pe("P", "")))
	}
	if r.Chance(75) {
		answering = append(answering, fmt.Sprintf("conn f1 res %s %s", pe("G", "e"), pe("P", "")))
	} else {
		answering = append(answering, fmt.Sprintf("conn f1 res %s %s", pe("G", "e"), sEnd))
	}
	answering = append(answering, fmt.Sprintf("conn f1 res %s %s", pe("P", "a"), sEnd))
	other := []string{
		"flow f2" + st(),
		"proc f2 R PA act=resp",
		// the request direction of the second flow is undefined: with an early response in the first flow the order
		// in which Go's map yields the two flows would otherwise be observable in the execution count
		fmt.Sprintf("conn f2 req %s %s", sStart, sEnd),
		fmt.Sprintf("conn f2 res %s %s", sStart, pe("R", "")),
		fmt.Sprintf("conn f2 res %s %s", pe("R", "a"), sEnd),
	}
	two := r.Chance(65)
	if two && r.Bool() {
		ops = append(ops, other...)
		ops = append(ops, answering...)
	} else {
		ops = append(ops, answering...)
		if two {
			ops = append(ops, other...)
		}
	}
	ops = append(ops, "load")
	all := "f1/G/req=n:a,f1/P/res=n:a,f2/R/res=n:a"
	// (with two flows no early response / error in a multi-flow oracle would make the flow order observable; the
	// answering flow is the only one that answers, and a second flow only adds its own executions)
	ops = append(ops, "txn dir=req o="+all, "txn dir=res o="+all)
	if !two {
		ops = append(ops, "txn dir=req o=f1/G/req=e:e,f1/P/res=n:a")
	} else {
		ops = append(ops, "txn dir=req o=f1/G/req=e:e,f1/P/res=n:a,f2/R/res=n:a")
	}
	ops = append(ops, rawTxn(r, false))
	return proto.Case{ID: id, Ops: ops}
}

// ---------------------------------------------------------------- family F: transaction content

var fuzzURLs = []string{"verif.test/x", "verif.test//x", "verif.test/x/", "verif.test/", "verif.test", "", "/", "//", "verif.test/x//y",
	"verif.test/x?a=1", "verif.test/%2F", "other.test/x", "verif.test:8080/x", "http://verif.test/x", "verif.test/x/../y", "*",
	"verif.test/{id}", "verif.test/x\x00y", "VERIF.TEST/X", strings.Repeat("a/", 300)}

var fuzzBodies = []string{"", "{", "}", "{\"a\":", "[1,2", "{\"a\":{\"b\":[1,{\"c\":null}]}}", "null", "\"str\"", "12e999", "{\"a\":1}{\"b\":2}",
	"\x00\x01\xff\xfe", "{\"\":\"\"}", strings.Repeat("[", 2000), strings.Repeat("{\"a\":", 500), "{\"model\":\"gpt-4\",\"messages\":[{\"role\":\"user\",\"content\":5}]}",
	"{\"a\":\"\\ud800\"}", "true"}

var fuzzHeaders = []string{"", "host: verif.test", "host: verif.test\r\ncontent-type: application/json", "no-colon-line", ": empty-name",
	"a: b\r\n\r\nc: d", "a:\r\n", "x-group: g1\r\nx-group: g2", "content-encoding: gzip", "content-encoding: br\r\ncontent-type: application/json",
	" leading-space: v", "a: b\r\n continuation", "a\x00b: c", strings.Repeat("h: v\r\n", 200), "x-lunar-sequence-id: 1", "content-length: -5",
	"retry-after: never", "x-quota: NaN\r\nx-reset: -1"}

func gzipOf(s string) string {
	var b bytes.Buffer
	w := gzip.NewWriter(&b)
	w.Write([]byte(s))
	w.Close()
	return b.String()
}

func zlibOf(s string) string {
	var b bytes.Buffer
	w := zlib.NewWriter(&b)
	w.Write([]byte(s))
	w.Close()
	return b.String()
}

// encodedBody: a body for a transaction whose headers announce a content encoding: correctly compressed, cut at
// every offset of the compression header (and a few later ones), not compressed at all, or garbage.
func encodedBody(r *prng.R) string {
	plain := prng.Pick(r, []string{"{\"a\":1}", "{\"model\":\"m\",\"email\":\"a@b.co\"}", "plain text", "{"})
	gz, zl := gzipOf(plain), zlibOf(plain)
	switch r.Intn(7) {
	case 0:
		return gz
	case 1:
		return gz[:r.Intn(len(gz))] // cut anywhere, often inside the 10-byte header
	case 2:
		return gz[:r.Intn(12)]
	case 3:
		return zl
	case 4:
		return zl[:r.Intn(len(zl))]
	case 5:
		return plain
	}
	return prng.Pick(r, []string{"\x1f", "\x1f\x8b", "\x1f\x8b\x08", "\x1f\x8b\x08\x00\x00", "\x78", "\x78\x9c", "\x00", "\xff\xff\xff\xff\xff\xff\xff\xff\xff\xff\xff"})
}

var encodings = []string{"gzip", "deflate", "br", "identity", "zstd", "GZIP", "Gzip", "gzip, deflate", " gzip ", "x-gzip", "%e"}

// wellFormed: a header block the way HAProxy dumps it — every line, the last one included, ends with CRLF
func wellFormed(lines ...string) string { return strings.Join(lines, "\r\n") + "\r\n" }

func rawTxn(r *prng.R, heavy bool) string {
	dir := "req"
	if r.Chance(35) {
		dir = "res"
	}
	url := "verif.test/x"
	body, hdr := "", "host: verif.test"
	if heavy || r.Chance(50) {
		url = prng.Pick(r, fuzzURLs)
	}
	if heavy || r.Chance(50) {
		body = prng.Pick(r, fuzzBodies)
	}
	if heavy || r.Chance(50) {
		hdr = prng.Pick(r, fuzzHeaders)
		if r.Chance(50) && hdr != "" {
			hdr = wellFormed(strings.Split(hdr, "\r\n")...) // a properly terminated block is really parsed
		}
	}
	if r.Chance(30) { // a content encoding announced over a compressed / truncated / plain body
		key := prng.Pick(r, []string{"content-encoding", "Content-Encoding", "CONTENT-ENCODING"})
		enc := prng.Pick(r, encodings)
		if enc == "%e" {
			enc = ""
		}
		hdr = wellFormed("host: verif.test", key+": "+enc, "content-type: application/json")
		body = encodedBody(r)
	}
	path := "/x"
	if i := strings.Index(url, "/"); i >= 0 {
		path = url[i:]
	}
	return fmt.Sprintf("rtxn dir=%s method=%s url=%s path=%s query=%s hdr=%s body=%s status=%d", dir,
		proto.Enc(prng.Pick(r, []string{"GET", "POST", "", "get", "BREW"})), proto.Enc(url), proto.Enc(path),
		proto.Enc(prng.Pick(r, []string{"", "a=1", "a=1&a=2", "=&=", "%zz"})), proto.Enc(hdr), proto.Enc(body),
		prng.Pick(r, []int{200, 0, 429, 500, -1, 99999}))
}

// realCase: flows over REAL processors that rewrite the request / response (TransformAPICall set / delete /
// obfuscate, DataSanitation) or answer it (GenerateResponse behind a TransformAPICall), optionally next to a probe
// flow and a quota, hit with transactions of arbitrary content through the production SPOE message handler.
func realCase(r *prng.R, id string) proto.Case {
	ops := append([]string{}, vocabLines...)
	if r.Chance(40) {
		ops = append(ops, fmt.Sprintf("quota q1 url=%s %s", prng.Pick(r, []string{"verif.test/*", "verif.test/x"}), validStrat(r).words()))
	}
	tmpls := []string{"transform-set", "transform-delete", "sanitize", "generate"}
	n := r.Range(1, 2)
	for i := 0; i < n; i++ {
		ops = append(ops, fmt.Sprintf("rflow r%d %s", i, prng.Pick(r, tmpls)))
	}
	if r.Chance(35) {
		ops = append(ops, baseFlow("f1")...)
	}
	ops = append(ops, "load")
	for i := 0; i < 10; i++ {
		t := rawTxn(r, true)
		if r.Chance(50) { // keep the url on the flows' filter so that the rewriting processors really run
			t = strings.Replace(t, " url="+strings.Split(strings.SplitN(t, " url=", 2)[1], " ")[0], " url=verif.test/x", 1)
		}
		if r.Chance(50) {
			t += " full=1"
		}
		ops = append(ops, t)
	}
	return proto.Case{ID: id, Ops: ops}
}

// stressCase: transactions WHILE the engine's other goroutines run.  kind=metrics: 2-4 probe flows on the test url
// (so that the per-flow counters are a real map), a reader scraping the stream's metric getters; kind=queue: a
// flow with a real Queue processor (ttl 0, quota with room for one request) whose background loop is made to poll
// continuously while transactions — and their enter/leave traffic on the processor's queue — run.
func stressCase(r *prng.R, id, kind string) proto.Case {
	ops := append([]string{}, vocabLines...)
	if kind == "queue" {
		ops = append(ops, fmt.Sprintf("quota qq url=verif.test/* s=fixed max=%d int=1 unit=hour", r.Range(1, 3)), "rflow rq queue")
		if r.Bool() {
			ops = append(ops, baseFlow("f1")...)
		}
		ops = append(ops, "load", fmt.Sprintf("stress kind=queue ms=%d workers=%d", r.Range(400, 700), r.Range(1, 3)))
		return proto.Case{ID: id, Ops: ops}
	}
	n := r.Range(2, 4)
	for i := 0; i < n; i++ {
		ops = append(ops, baseFlow(fmt.Sprintf("f%d", i))...)
	}
	if r.Bool() {
		ops = append(ops, "quota q1 url=verif.test/* s=conc maxreq=1000000")
	}
	ops = append(ops, "load", fmt.Sprintf("stress kind=metrics ms=%d workers=%d", r.Range(300, 600), r.Range(2, 4)),
		"txn dir=res o=-")
	return proto.Case{ID: id, Ops: ops}
}

// structured parameter values (raw flow-style YAML): homogeneous and MIXED lists (the odd element first, in the
// middle, last), nested lists, maps of numbers / strings / mixed, empty collections, scalars of every type
var paramValues = []string{
	"[1, 2, 3]", "[a, b, c]", "[1.5, 2.5]", "[true, false]", "[]", "{}", "~", "true", "12", "1.5", "text",
	"[5xx, 429, 503]", "[429, 503, 5xx]", "[429, 5xx, 503]", "[1, 2, GET]", "[GET, 1, 2]", "[1, 2.5]", "[2.5, 1]", "[a, 1.5]",
	"[1, ~]", "[~, 1]", "[a, ~]", "[1, [2]]", "[[1], 2]", "[a, [b]]", "[1, {a: 1}]", "[{a: 1}, x]", "[true, 1]", "[1, true]",
	"{a: 1, b: 2}", "{a: x, b: y}", "{a: 1, b: x}", "{a: x, b: 1}", "{a: [1], b: 2}", "{a: ~}", "{a: 1.5, b: 2}", "{a: {b: 1}}",
}

// paramCase: a valid probe flow whose processors carry 1-3 parameters with structured values; the loader reads
// every parameter value (ParamMap -> KeyValue.GetParamValue) whether or not the processor declares it.
func paramCase(r *prng.R, id string) proto.Case {
	ops := append([]string{}, vocabLines...)
	f := baseFlow("f1")
	for _, i := range []int{1, 2} {
		n := r.Range(1, 3)
		for k := 0; k < n; k++ {
			f[i] += fmt.Sprintf(" p%d=%s", k, proto.Enc("@"+prng.Pick(r, paramValues)))
		}
	}
	if r.Chance(30) {
		f[1] += " quota_id=" + proto.Enc("@"+prng.Pick(r, paramValues))
	}
	ops = append(ops, f...)
	ops = append(ops, "load", "txn dir=req o=f1/A/req=n:a,f1/B/req=n:a", rawTxn(r, false))
	return proto.Case{ID: id, Ops: ops}
}

var noDocKinds = []string{"comment", "dashes", "tilde", "null", "blank", "empty", "dashes-comment", "broken", "valid-pp", "valid-gw"}

// noDocCase: a valid configuration (probe flow, optionally a quota) next to a file that holds no YAML document —
// every line commented out, `---`, `~`, `null`, blank, empty — or foreign / broken content, in every directory the
// loader reads: flows, quotas, path_params, and the gateway config.
func noDocCase(r *prng.R, id, dir, kind string) proto.Case {
	ops := append([]string{}, vocabLines...)
	if r.Chance(50) {
		ops = append(ops, fmt.Sprintf("quota q1 url=verif.test/* %s", validStrat(r).words()))
	}
	ops = append(ops, baseFlow("f1")...)
	ops = append(ops, fmt.Sprintf("rawfile %s %s", dir, kind))
	if r.Chance(20) {
		ops = append(ops, fmt.Sprintf("rawfile %s %s", prng.Pick(r, []string{"path_params", "gateway"}), prng.Pick(r, noDocKinds)))
	}
	ops = append(ops, "load", "txn dir=req o=f1/A/req=n:a,f1/B/req=n:a", rawTxn(r, false))
	return proto.Case{ID: id, Ops: ops}
}

func fuzzCase(r *prng.R, id string) proto.Case {
	ops := append([]string{}, vocabLines...)
	ops = append(ops, fmt.Sprintf("quota q1 url=%s %s", prng.Pick(r, []string{"verif.test/*", "verif.test/x", "*"}), validStrat(r).words()))
	if r.Bool() {
		ops = append(ops, fmt.Sprintf("ilimit c1 parent=q1 url=- %s", validStrat(r).words()))
	}
	ops = append(ops, baseFlow("f1")...)
	ops = append(ops, "load")
	for i := 0; i < 12; i++ {
		ops = append(ops, rawTxn(r, true))
	}
	return proto.Case{ID: id, Ops: ops}
}

// ---------------------------------------------------------------- driver

func gen(r *prng.R, f proto.Flags, emit func(proto.Case)) {
	thorough := f.Tier == "thorough"
	mul := f.Budget
	id := 0
	next := func(p string) string { id++; return fmt.Sprintf("%s%d", p, id) }
	b := &budget{crashes: 60 * mul}
	if thorough {
		b.crashes = 500 * mul
	}

	nA, nC, nD, nE, nF, nBsample := 500*mul, 2*mul, 2*mul, 350*mul, 40*mul, 350*mul
	if thorough {
		nA, nC, nD, nE, nF = 800*mul, 4*mul, 3*mul, 700*mul, 100*mul
	}
	for i := 0; i < nA; i++ {
		emit(randCase(r.Fork(), next("a"), b))
	}
	for k := 0; k < nC; k++ {
		for _, kind := range malformedKinds {
			emit(malformedCase(r.Fork(), next("c-"+kind+"-"), kind))
		}
	}
	for k := 0; k < nD; k++ {
		for _, kind := range refKinds {
			emit(refCase(r.Fork(), next("d-"+kind+"-"), kind))
		}
	}
	// reference graphs: all over 2 flows, all functional ones over 3 flows in every declaration order, functional
	// ones over 4 flows (rho shapes with tail 1-2 into cycles 1-3) in a rotating order; thorough: all 512 graphs over
	// 3 flows and all functional ones over 4 flows in EVERY order, plus random general graphs over 4 flows
	dirs := []string{"res", "req"}
	k := 0
	for m := 0; m < 16; m++ {
		for _, o := range perms(2) {
			k++
			emit(refGraphCase(next("r2-"), 2, generalAdj(2, m), dirs[k%2], o))
		}
	}
	p3, p4 := perms(3), perms(4)
	for m := 0; m < pow(4, 3); m++ {
		for _, o := range p3 {
			k++
			emit(refGraphCase(next("r3f-"), 3, functionalAdj(3, m), dirs[k%3%2], o))
		}
	}
	for m := 0; m < pow(5, 4); m++ {
		if thorough {
			for j := 0; j < 2; j++ { // two of the 24 declaration orders per graph, rotating through all of them
				k++
				emit(refGraphCase(next("r4f-"), 4, functionalAdj(4, m), dirs[k%3%2], p4[(m*2+j)%len(p4)]))
			}
		} else if m%mulStep(mul) == 0 {
			k++
			emit(refGraphCase(next("r4f-"), 4, functionalAdj(4, m), dirs[k%3%2], p4[m%len(p4)]))
		}
	}
	if thorough {
		for m := 0; m < 512; m++ {
			for _, o := range p3 {
				k++
				emit(refGraphCase(next("r3g-"), 3, generalAdj(3, m), dirs[k%2], o))
			}
		}
		for i := 0; i < 800*mul; i++ {
			rr := r.Fork()
			emit(refGraphCase(next("r4g-"), 4, generalAdj(4, rr.Intn(1<<16)&rr.Intn(1<<16)), dirs[i%2], p4[rr.Intn(len(p4))]))
		}
	}
	for i := 0; i < nE; i++ {
		emit(quotaCase(r.Fork(), next("e")))
	}
	nG := 150 * mul
	if thorough {
		nG = 500 * mul
	}
	for i := 0; i < nG; i++ {
		emit(statusCase(r.Fork(), next("g")))
	}
	var shapeNames []string
	for n := range dupShapes {
		shapeNames = append(shapeNames, n)
	}
	sort.Strings(shapeNames)
	nDup := 8 * mul
	if thorough {
		nDup = 25 * mul
	}
	for rep := 0; rep < nDup; rep++ {
		for _, sh := range shapeNames {
			emit(dupQuotaCase(r.Fork(), next("q-"+sh+"-"), sh))
		}
	}
	for i := 0; i < nF; i++ {
		emit(fuzzCase(r.Fork(), next("f")))
	}
	for i := 0; i < 3*nF; i++ {
		emit(realCase(r.Fork(), next("h")))
	}
	nParam := 60 * mul
	if thorough {
		nParam = 250 * mul
	}
	for i := 0; i < nParam; i++ {
		emit(paramCase(r.Fork(), next("p")))
	}
	nStress := 2 * mul
	if thorough {
		nStress = 5 * mul
	}
	for i := 0; i < nStress; i++ {
		emit(stressCase(r.Fork(), next("s-metrics-"), "metrics"))
		emit(stressCase(r.Fork(), next("s-queue-"), "queue"))
	}
	nDoc := mul
	if thorough {
		nDoc = 3 * mul
	}
	for rep := 0; rep < nDoc; rep++ {
		for _, d := range []string{"flows", "quotas", "path_params", "gateway"} {
			for _, k := range noDocKinds {
				emit(noDocCase(r.Fork(), next("n-"+d+"-"+k+"-"), d, k))
			}
		}
		emit(noDocCase(r.Fork(), next("n-path_params-nullentry-"), "path_params", "nullentry"))
	}
	consts := []string{"a", "b"}
	if thorough {
		// exhaustive: every graph of every space, as response direction (with short-circuit entries) and as
		// request direction
		bb := &budget{crashes: 900 * mul}
		for _, sp := range spaces {
			total := enumCount(sp.n, sp.self, len(sp.labels))
			every := 1 + total/300 // spread the crash budget of this space evenly
			for m := 0; m < total; m++ {
				if (sp.n == 4 || sp.name == "n3two") && m%2 == 1 { // the two big spaces (20 480 / 16 384 graphs): every second one
					continue
				}
				g := reorder(withLeaves(enumGraph(sp.n, sp.self, sp.labels, m), m), m%4)
				mm := m
				emit(respCase(next("b-"+sp.name+"-res-"), g, consts, bb, func() bool { return mm%every == 0 }))
				if (sp.n < 3 || sp.self || mm%2 == 0) && (sp.n < 4 || mm%4 == 0) { // request side: n3two every second, n4one every fourth
					emit(reqCase(next("b-"+sp.name+"-req-"), reorder(withLeaves(enumGraph(sp.n, sp.self, sp.labels, m), m), (m/3+2)%4), consts))
				}
			}
		}
		// every ORDERED sequence of <= 5 distinct connections over 3 processors (all connection orders), and of
		// <= 4 over 4 processors, as request direction and as response direction
		for _, nk := range [][2]int{{3, 1}, {3, 2}, {3, 3}, {3, 4}, {3, 5}, {4, 2}, {4, 3}, {4, 4}} {
			total := seqCount(nk[0], nk[1])
			for m := 0; m < total; m++ {
				if nk[0] == 4 && nk[1] == 4 && m%8 != 0 { // 43 680 sequences: every eighth
					continue
				}
				if nk[0] == 3 && nk[1] == 5 && m%3 != 0 { // 15 120 sequences: every third
					continue
				}
				if m%2 == 0 {
					emit(reqCase(next(fmt.Sprintf("b-seq%d-%d-req-", nk[0], nk[1])), seqGraph(nk[0], nk[1], m), consts[:1]))
				} else {
					mm := m
					emit(respCase(next(fmt.Sprintf("b-seq%d-%d-res-", nk[0], nk[1])), seqGraph(nk[0], nk[1], m), consts[:1], bb, func() bool { return mm%97 == 1 }))
				}
			}
		}
	} else {
		for i := 0; i < nBsample; i++ {
			rr := r.Fork()
			sp := prng.Pick(rr, spaces)
			m := rr.Intn(enumCount(sp.n, sp.self, len(sp.labels)))
			g := reorder(withLeaves(enumGraph(sp.n, sp.self, sp.labels, m), m), rr.Intn(4))
			if rr.Chance(35) {
				nk := prng.Pick(rr, [][2]int{{3, 3}, {3, 4}, {3, 5}, {4, 3}, {4, 4}, {4, 5}, {4, 6}})
				g = seqGraph(nk[0], nk[1], rr.Intn(seqCount(nk[0], nk[1])))
			}
			if rr.Chance(70) {
				emit(respCase(next("b-"+sp.name+"-res-"), g, consts, b, func() bool { return true }))
			} else {
				cs := consts
				emit(reqCase(next("b-"+sp.name+"-req-"), g, cs))
			}
		}
	}
}
