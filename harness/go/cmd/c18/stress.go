//go:build verif

package main

// Dynamic search cases for the atomic read-modify-write cores of the shared state (the step
// granularity of the quota models): N goroutines hit the REAL memoryState core at its limit at the
// same (frozen) instant; in every one-at-a-time order at most `max` calls can succeed.  A split
// critical section (check-then-act) shows up as `exceeded:<n>`.  Search only — never a proof.

import (
	"fmt"
	"runtime"
	"strconv"
	"strings"
	"sync"
	"sync/atomic"
	"time"

	lunar_context "lunar/engine/streams/lunar-context"

	"lunar/toolkit-core/concurrentmap"

	"verif/harness/internal/detclock"
	"verif/harness/internal/prng"
	"verif/harness/internal/proto"
)

func kvInt(w []string, k string, def int) int {
	if s, ok := proto.KV(w, k); ok {
		if n, err := strconv.Atoi(s); err == nil {
			return n
		}
	}
	return def
}

func execStress(c proto.Case, o *proto.Out) []string {
	outs := make([]string, len(c.Ops))
	for i, op := range c.Ops {
		w := strings.Fields(op)
		max := kvInt(w, "max", 1)
		workers := kvInt(w, "workers", 8)
		rounds := kvInt(w, "rounds", 200)
		worst := 0
		for r := 0; r < rounds; r++ {
			st := lunar_context.NewMemoryState[string]().WithClock(detclock.NewAuto(1_700_000_000_000_000_000))
			var okCount int64
			var wg sync.WaitGroup
			start := make(chan struct{})
			for g := 0; g < workers; g++ {
				wg.Add(1)
				go func(g int) {
					defer wg.Done()
					<-start
					switch w[0] {
					case "stress-sadd":
						if ok, _ := st.AtomicSAddWithMaxValuesAllowed("k", fmt.Sprintf("m%d", g), int64(max)); ok {
							atomic.AddInt64(&okCount, 1)
						}
					case "stress-incwindow":
						if _, _, err := st.AtomicIncWindow("k", 1, time.Hour, int64(max)); err == nil {
							atomic.AddInt64(&okCount, 1)
						}
					}
				}(g)
			}
			close(start)
			wg.Wait()
			if int(okCount) > worst {
				worst = int(okCount)
			}
		}
		if w[0] == "stress-get-or-create" {
			outs[i] = stressGetOrCreate(workers, rounds, o)
			continue
		}
		if w[0] != "stress-sadd" && w[0] != "stress-incwindow" {
			outs[i] = "bad-op"
		} else if worst > max {
			outs[i] = fmt.Sprintf("exceeded:%d", worst)
			o.Count("stress-exceeded")
		} else {
			outs[i] = "ok"
			o.Count("stress-ok")
		}
	}
	o.NonTrivial(strings.Join(c.Ops, "|"))
	return outs
}

// stressGetOrCreate: N goroutines race to create the entry of one key in a real toolkit-core ConcurrentMap
// (the per-endpoint limiter of concurrency-based throttling is created this way); every one-at-a-time
// order hands ALL of them the value stored by the first, so two callers leaving with different values
// have no serial explanation.
func stressGetOrCreate(workers, rounds int, o *proto.Out) string {
	if runtime.GOMAXPROCS(0) < 4 {
		defer runtime.GOMAXPROCS(runtime.GOMAXPROCS(4))
	}
	for r := 0; r < rounds; r++ {
		m := concurrentmap.NewConcurrentMap[string, int]()
		got := make([]int, workers)
		var wg sync.WaitGroup
		var ready int64
		for g := 0; g < workers; g++ {
			wg.Add(1)
			go func(g int) {
				defer wg.Done()
				atomic.AddInt64(&ready, 1)
				for atomic.LoadInt64(&ready) < int64(workers) { // spin barrier
				}
				got[g] = m.LookupOrAssign("k", g+1)
			}(g)
		}
		wg.Wait()
		for g := 1; g < workers; g++ {
			if got[g] != got[0] {
				o.Count("stress-exceeded")
				return fmt.Sprintf("split:round=%d", r)
			}
		}
	}
	o.Count("stress-ok")
	return "ok"
}

func genStress(r *prng.R, f proto.Flags, emit func(proto.Case)) {
	rounds := 150 * f.Budget
	if f.Tier == "thorough" {
		rounds = 1500 * f.Budget
	}
	for _, max := range []int{1, 2, 3} {
		emit(proto.Case{ID: fmt.Sprintf("stress:sadd-max%d", max), Ops: []string{fmt.Sprintf("stress-sadd max=%d workers=8 rounds=%d", max, rounds)}})
		emit(proto.Case{ID: fmt.Sprintf("stress:incwindow-max%d", max), Ops: []string{fmt.Sprintf("stress-incwindow max=%d workers=8 rounds=%d", max, rounds)}})
	}
	emit(proto.Case{ID: "stress:get-or-create", Ops: []string{fmt.Sprintf("stress-get-or-create workers=6 rounds=%d", 20*rounds)}})
}
