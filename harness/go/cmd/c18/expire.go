//go:build verif

package main

// The stored-request clean-up goroutine (model: Model/C18Expire.lean).  The REAL ExpireWatcher is
// driven with millisecond expirations; its pass is run on demand through the verif hook
// (*ExpireWatcher).VerifSweep.  The watcher reads time.Now() directly, so the case runs in real time:
// deadlines lie at odd multiples of 50 ms and passes at multiples of 100 ms, and a case whose measured
// drift exceeds 30 ms is run again, then with all durations stretched 3x and 6x, before it answers `unstable`.
//
//	xadd k=<key> d=<ms> | xdiscard k=<key> | xsleep n=<ms> | xsweep keys=<k1,k2,...>

import (
	"fmt"
	"sort"
	"strconv"
	"strings"
	"sync"
	"time"

	lunar_context "lunar/engine/streams/lunar-context"

	"verif/harness/internal/prng"
	"verif/harness/internal/proto"
)

// one store for the whole process: GetExpireWatcher keeps ONE watcher per removeFunc type, with the
// removeFunc of the first caller
type xStore struct {
	mu sync.Mutex
	m  map[string]bool
}

func (s *xStore) Pop(key string) (xVal, error) {
	s.mu.Lock()
	defer s.mu.Unlock()
	if !s.m[key] {
		return xVal{}, fmt.Errorf("no such key")
	}
	delete(s.m, key)
	return xVal{}, nil
}

func (s *xStore) Set(key string) {
	s.mu.Lock()
	s.m[key] = true
	s.mu.Unlock()
}

func (s *xStore) Has(key string) bool {
	s.mu.Lock()
	defer s.mu.Unlock()
	return s.m[key]
}

type xVal struct{} // a type of our own, so that the watcher instance is ours alone

var (
	xstore = &xStore{m: map[string]bool{}}
	xseq   int
)

func execExpire(c proto.Case, o *proto.Out) []string {
	var outs []string
	// a loaded machine: run again, then with every duration stretched (the model only sees the
	// nominal milliseconds of the op lines)
	for _, scale := range []int{1, 1, 3, 3, 6} {
		var ok bool
		outs, ok = runExpire(c, scale)
		if ok {
			o.Count("expire-stable")
			break
		}
		o.Count("expire-retry")
	}
	o.NonTrivial(strings.Join(c.Ops, "|"))
	return outs
}

func runExpire(c proto.Case, scale int) ([]string, bool) {
	unit := time.Duration(scale) * time.Millisecond
	slack := time.Duration(30*scale) * time.Millisecond
	xseq++
	prefix := fmt.Sprintf("x%d:", xseq)
	ew := lunar_context.GetExpireWatcher(xstore.Pop)
	outs := make([]string, len(c.Ops))
	start := time.Now()
	nominal := time.Duration(0)
	stable := true
	for i, op := range c.Ops {
		w := strings.Fields(op)
		k, _ := proto.KV(w, "k")
		switch w[0] {
		case "xadd":
			d, err := strconv.Atoi(kvStr(w, "d"))
			if err != nil || k == "" {
				outs[i] = "bad-op"
				continue
			}
			if drift := time.Since(start) - nominal; drift > slack {
				stable = false
			}
			xstore.Set(prefix + k)
			ew.AddKey(prefix+k, time.Duration(d)*unit)
			outs[i] = "ok"
		case "xdiscard":
			if k == "" {
				outs[i] = "bad-op"
				continue
			}
			_, _ = xstore.Pop(prefix + k)
			outs[i] = "ok"
		case "xsleep":
			n, err := strconv.Atoi(kvStr(w, "n"))
			if err != nil {
				outs[i] = "bad-op"
				continue
			}
			nominal += time.Duration(n) * unit
			if rest := nominal - time.Since(start); rest > 0 {
				time.Sleep(rest)
			}
			outs[i] = "ok"
		case "xsweep":
			if drift := time.Since(start) - nominal; drift > slack || drift < 0 {
				stable = false
			}
			ew.VerifSweep()
			var present []string
			if ks := kvStr(w, "keys"); ks != "-" && ks != "" {
				for _, key := range strings.Split(ks, ",") {
					if xstore.Has(prefix + key) {
						present = append(present, key)
					}
				}
			}
			if len(present) == 0 {
				outs[i] = "present=-"
			} else {
				outs[i] = "present=" + strings.Join(present, ",")
			}
		default:
			outs[i] = "bad-op"
		}
	}
	if !stable {
		for i := range outs {
			if strings.HasPrefix(outs[i], "present=") {
				outs[i] = "unstable"
			}
		}
	}
	return outs, stable
}

func kvStr(w []string, k string) string {
	s, _ := proto.KV(w, k)
	return s
}

func genExpire(r *prng.R, f proto.Flags, emit func(proto.Case)) {
	// the retry shape and its neighbours, by hand
	hand := [][]string{
		{"xadd k=K d=150", "xsleep n=100", "xdiscard k=K", "xadd k=K d=150", "xsleep n=100", "xsweep keys=K"},
		{"xadd k=K d=150", "xsleep n=100", "xadd k=K d=150", "xsleep n=100", "xsweep keys=K", "xsleep n=100", "xsweep keys=K"},
		{"xadd k=A d=50", "xadd k=B d=250", "xsleep n=100", "xsweep keys=A,B", "xadd k=A d=150", "xsleep n=100", "xsweep keys=A,B", "xsleep n=100", "xsweep keys=A,B"},
		{"xadd k=K d=50", "xsleep n=100", "xdiscard k=K", "xsweep keys=K", "xadd k=K d=250", "xsleep n=200", "xsweep keys=K"},
	}
	for i, ops := range hand {
		emit(proto.Case{ID: fmt.Sprintf("expire:hand%d", i), Ops: ops})
	}
	n := 4 * f.Budget
	if f.Tier == "thorough" {
		n = 40 * f.Budget
	}
	for c := 0; c < n; c++ {
		rr := r.Fork()
		keys := []string{"A", "B", "C"}[:1+rr.Intn(3)]
		var ops []string
		steps := 3 + rr.Intn(3)
		for s := 0; s < steps; s++ {
			for _, k := range keys {
				switch rr.Intn(4) {
				case 0, 1:
					ops = append(ops, fmt.Sprintf("xadd k=%s d=%d", k, 50+100*rr.Intn(3)))
				case 2:
					ops = append(ops, "xdiscard k="+k)
				}
			}
			ops = append(ops, "xsleep n=100")
			if rr.Intn(3) > 0 || s == steps-1 {
				ks := append([]string(nil), keys...)
				sort.Strings(ks)
				ops = append(ops, "xsweep keys="+strings.Join(ks, ","))
			}
		}
		emit(proto.Case{ID: fmt.Sprintf("expire:g%d", c), Ops: ops})
	}
}
