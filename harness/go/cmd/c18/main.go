//go:build verif

// Harness for C18.
// Part (b): emits the lock-coverage facts extracted from $VERIF_REPO (same extractor as
// cmd/extract) as one case per struct field, so that the Lean judge evaluates the lockset
// discipline on exactly what the code says now and classifies violating fields.
package main

import (
	"fmt"
	"os"
	"sort"
	"strings"

	"verif/harness/internal/lockfacts"
	"verif/harness/internal/prng"
	"verif/harness/internal/proto"
)

const rule = "(b) one case per field of the target structs (all syntactic accesses with held mutexes, regenerated from the source); " +
	"non-trivial = the field is written after initialisation; distinct by field; " +
	"(a) random scripts of 1-3 transactions over a 3-probe flow in a real engine (set/get the transactional context, nested runs), non-trivial = uses the context"

func repo() string {
	if r := os.Getenv("VERIF_REPO"); r != "" {
		return r
	}
	return "/repo"
}

func accessLine(a lockfacts.Access) string {
	locks := []string{}
	for _, l := range a.Locks {
		m := "r"
		if l.Excl {
			m = "x"
		}
		locks = append(locks, proto.Enc(l.Name)+":"+m)
	}
	ls := "-"
	if len(locks) > 0 {
		ls = strings.Join(locks, ",")
	}
	b := func(x bool) int {
		if x {
			return 1
		}
		return 0
	}
	via := a.Via
	if via == "" {
		via = "-"
	}
	return fmt.Sprintf("access s=%s f=%s fn=%s w=%d locks=%s atomic=%d init=%d region=%d via=%s pos=%s", proto.Enc(a.Struct), proto.Enc(a.Field),
		proto.Enc(a.Func), b(a.Write), ls, b(a.Atomic), b(a.Init), a.Region, proto.Enc(via), proto.Enc(a.Pos))
}

func gen(r *prng.R, f proto.Flags, emit func(proto.Case)) {
	byField := map[string][]lockfacts.Access{}
	var keys []string
	for _, t := range lockfacts.Targets {
		as, err := lockfacts.Extract(repo(), t)
		if err != nil {
			emit(proto.Case{ID: "missing:" + t.Pkg + "." + t.Type, Ops: []string{"access-missing " + proto.Enc(err.Error())}})
			continue
		}
		for _, a := range as {
			k := a.Struct + "." + a.Field
			if _, ok := byField[k]; !ok {
				keys = append(keys, k)
			}
			byField[k] = append(byField[k], a)
		}
	}
	sort.Strings(keys)
	for _, k := range keys {
		var ops []string
		for _, a := range byField[k] {
			ops = append(ops, accessLine(a))
		}
		emit(proto.Case{ID: "field:" + k, Ops: ops})
	}
	genSharing(r, f, emit)
	genStress(r, f, emit)
	genPublish(f, emit)
	genExpire(r, f, emit)
	genRetain(r, f, emit)
	genVacuum(r, f, emit)
	genOverlap(emit)
	genObserve(r, f, emit)
	genPolicy(emit)
}

func exec(c proto.Case, o *proto.Out) []string {
	if len(c.Ops) > 0 && (strings.HasPrefix(c.Ops[0], "script") || strings.HasPrefix(c.Ops[0], "run")) {
		return execSharing(c, o)
	}
	if len(c.Ops) > 0 && strings.HasPrefix(c.Ops[0], "policy-seq") {
		return execPolicy(c, o)
	}
	if len(c.Ops) > 0 && strings.HasPrefix(c.Ops[0], "ocfg") {
		return execObserve(c, o)
	}
	if len(c.Ops) > 0 && strings.HasPrefix(c.Ops[0], "overlap") {
		return execOverlap(c, o)
	}
	if len(c.Ops) > 0 && strings.HasPrefix(c.Ops[0], "v") {
		return execVacuum(c, o)
	}
	if len(c.Ops) > 0 && strings.HasPrefix(c.Ops[0], "x") {
		return execExpire(c, o)
	}
	if len(c.Ops) > 0 && strings.HasPrefix(c.Ops[0], "retain") {
		return execRetain(c, o)
	}
	if len(c.Ops) > 0 && strings.HasPrefix(c.Ops[0], "stress-queue-publish") {
		return execPublish(c, o)
	}
	if len(c.Ops) > 0 && strings.HasPrefix(c.Ops[0], "stress-") {
		return execStress(c, o)
	}
	outs := make([]string, len(c.Ops))
	written := false
	for i, op := range c.Ops {
		w := strings.Fields(op)
		switch w[0] {
		case "access":
			outs[i] = "ok"
			if v, _ := proto.KV(w, "w"); v == "1" {
				if in, _ := proto.KV(w, "init"); in == "0" {
					written = true
				}
			}
		default:
			outs[i] = "err:" + w[0]
		}
	}
	if written {
		o.NonTrivial(c.ID)
		o.Count("field-written-after-init")
	} else {
		o.Count("field-read-only-after-init")
	}
	return outs
}

func main() {
	proto.Main(proto.Harness{Rule: rule, Gen: gen, Exec: exec})
}
