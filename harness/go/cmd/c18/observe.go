//go:build verif

package main

// Metrics observation of quotas must be invisible to the transactions that are running (property:
// "also while ... quotas are being read for metrics").  The REAL fixed-window quota resource is
// loaded twice from the same quota file (resources.NewResourceManagement); world A gets every op of
// the script, world B gets the script WITHOUT the metrics reads.  A read is what the quota_used
// gauge callback does: GetQuotaGroupsCounters() on the quota.  Both worlds run on the repo's mock
// clock, set to the op's instant.
//
//	ocfg max=<n> win=<sec>
//	oinc r=<n> t=<ms> | oallow r=<n> t=<ms> | odec r=<n> t=<ms>     answer: <with reads>/<without reads>
//	oread t=<ms>                                                    answer: c=<shown counter>
//
// Model: Model/C18Observe.lean (the C01 level model; a read is the identity on the state).

import (
	"fmt"
	"os"
	"path/filepath"
	"strconv"
	"strings"
	"time"

	messages "lunar/engine/messages"
	lunarcontext "lunar/engine/streams/lunar-context"
	publictypes "lunar/engine/streams/public-types"
	"lunar/engine/streams/resources"
	streamtypes "lunar/engine/streams/types"
	contextmanager "lunar/toolkit-core/context-manager"

	"verif/harness/internal/prng"
	"verif/harness/internal/proto"
)

const observeT0 = int64(1_700_000_000_000) // ms

type observeCounters interface {
	GetQuotaGroupsCounters() map[string]int64
}

func observeWorld(max, winSec int) (*resources.ResourceManagement, string, error) {
	dir, err := os.MkdirTemp("", "c18obs-")
	if err != nil {
		return nil, "", err
	}
	for _, d := range []string{"quotas", "path_params"} {
		if err := os.MkdirAll(filepath.Join(dir, d), 0o755); err != nil {
			return nil, dir, err
		}
	}
	yaml := fmt.Sprintf("quotas:\n  - id: q0\n    filter:\n      url: observe.test/*\n    strategy:\n      fixed_window:\n"+
		"        max: %d\n        interval: %d\n        interval_unit: second\n", max, winSec)
	if err := os.WriteFile(filepath.Join(dir, "quotas", "quotas.yaml"), []byte(yaml), 0o644); err != nil {
		return nil, dir, err
	}
	os.Setenv("LUNAR_PROXY_QUOTAS_DIRECTORY", filepath.Join(dir, "quotas"))
	os.Setenv("LUNAR_FLOWS_PATH_PARAM_DIR", filepath.Join(dir, "path_params"))
	os.Setenv("LUNAR_FLOWS_PATH_PARAM_CONFIG", filepath.Join(dir, "path_params_generated.yaml"))
	rm, err := resources.NewResourceManagement()
	return rm, dir, err
}

func observeStream(r string) publictypes.APIStreamI {
	return streamtypes.NewRequestAPIStream(messages.OnRequest{
		ID: r, SequenceID: r, Method: "GET", Scheme: "https",
		URL: "observe.test/x", Path: "/x", Headers: map[string]string{},
	}, lunarcontext.NewMemoryState[[]byte]())
}

func execObserve(c proto.Case, o *proto.Out) []string {
	outs := make([]string, len(c.Ops))
	cm := contextmanager.Get()
	clk := cm.SetMockClock().GetMockClock()
	defer cm.SetRealClock()
	clk.Set(time.UnixMilli(observeT0).UTC())
	var worlds [2]*resources.ResourceManagement
	var dirs []string
	defer func() {
		for _, d := range dirs {
			os.RemoveAll(d)
		}
	}()
	pendingAt := map[string]int64{} // request -> instant of its Inc, while its verdict is still pending
	win := int64(0)
	readBetween := false
	for i, op := range c.Ops {
		w := strings.Fields(op)
		if len(w) == 0 {
			outs[i] = "bad-op"
			continue
		}
		if w[0] == "ocfg" {
			max, ws := kvInt(w, "max", -1), kvInt(w, "win", -1)
			if max < 1 || ws < 1 || worlds[0] != nil {
				outs[i] = "bad-op"
				continue
			}
			var err error
			for k := range worlds {
				var d string
				worlds[k], d, err = observeWorld(max, ws)
				if d != "" {
					dirs = append(dirs, d)
				}
				if err != nil {
					break
				}
			}
			if err != nil {
				outs[i] = "err:load:" + proto.Enc(err.Error())
				worlds = [2]*resources.ResourceManagement{}
				continue
			}
			win = int64(ws) * 1000
			outs[i] = "ok"
			continue
		}
		t := kvInt(w, "t", -1)
		if t < 0 || worlds[0] == nil || worlds[1] == nil {
			outs[i] = "bad-op"
			continue
		}
		clk.Set(time.UnixMilli(observeT0 + int64(t)).UTC())
		if w[0] == "oread" {
			qo, err := worlds[0].GetQuota("q0", "")
			if err != nil {
				outs[i] = "err:noquota"
				continue
			}
			ci, ok := qo.(observeCounters)
			if !ok {
				outs[i] = "err:nocounters"
				continue
			}
			outs[i] = "c=" + strconv.FormatInt(ci.GetQuotaGroupsCounters()["q0_default"], 10)
			for _, at := range pendingAt {
				if int64(t)/1000*1000 >= at/1000*1000+win {
					readBetween = true // a read after the window of a still pending charge has ended
				}
			}
			continue
		}
		rn := kvInt(w, "r", -1)
		if rn < 0 || (w[0] != "oinc" && w[0] != "oallow" && w[0] != "odec") {
			outs[i] = "bad-op"
			continue
		}
		r := "r" + strconv.Itoa(rn)
		var ans [2]string
		for k, rm := range worlds {
			qo, err := rm.GetQuota("q0", r)
			if err != nil {
				ans[k] = "err:noquota"
				continue
			}
			as := observeStream(r)
			switch w[0] {
			case "oinc":
				if err := qo.Inc(as); err != nil {
					ans[k] = "err:inc"
				} else {
					ans[k] = "ok"
				}
			case "odec":
				if err := qo.Dec(as); err != nil {
					ans[k] = "err:dec"
				} else {
					ans[k] = "ok"
				}
			case "oallow":
				b, err := qo.Allowed(as)
				if err != nil {
					ans[k] = "err:allowed"
				} else {
					ans[k] = strconv.FormatBool(b)
				}
			}
		}
		switch w[0] {
		case "oinc":
			if _, has := pendingAt[r]; !has {
				pendingAt[r] = int64(t)
			}
		default:
			delete(pendingAt, r)
		}
		outs[i] = ans[0] + "/" + ans[1]
	}
	o.Count("observe-case")
	if readBetween {
		o.Count("observe-read-after-window-end-with-pending-verdict")
		o.NonTrivial(strings.Join(c.Ops, "|"))
	}
	return outs
}

func genObserve(r *prng.R, f proto.Flags, emit func(proto.Case)) {
	emit(proto.Case{ID: "observe:read-after-window-end", Ops: []string{"ocfg max=5 win=60",
		"oinc r=1 t=0", "oallow r=1 t=0", "oinc r=2 t=58000", "oread t=59000", "oread t=61000", "oallow r=2 t=61500",
		"oinc r=3 t=61600", "oread t=61700", "oallow r=3 t=61800"}})
	emit(proto.Case{ID: "observe:full-window", Ops: []string{"ocfg max=1 win=2",
		"oinc r=1 t=100", "oinc r=2 t=200", "oread t=300", "oallow r=2 t=400", "oread t=2100", "oallow r=1 t=2200",
		"oinc r=3 t=2300", "oread t=2300", "oallow r=3 t=2300"}})
	n := 40 * f.Budget
	if f.Tier == "thorough" {
		n = 1500 * f.Budget
	}
	for c := 0; c < n; c++ {
		rr := r.Fork()
		max := 1 + rr.Intn(4)
		win := []int{1, 2, 5}[rr.Intn(3)]
		ops := []string{fmt.Sprintf("ocfg max=%d win=%d", max, win)}
		t := rr.Intn(1000)
		next := 1
		var pending []int
		for s := 0; s < 5+rr.Intn(10); s++ {
			// instants cluster around the window boundaries
			switch rr.Intn(4) {
			case 0:
				t += rr.Intn(50)
			case 1:
				t += win*1000 - rr.Intn(3)
			case 2:
				t = (t/1000+1)*1000 + rr.Intn(2)
			default:
				t += rr.Intn(win * 600)
			}
			switch k := rr.Intn(10); {
			case k < 3:
				ops = append(ops, fmt.Sprintf("oinc r=%d t=%d", next, t))
				pending = append(pending, next)
				next++
			case k < 6 && len(pending) > 0:
				j := rr.Intn(len(pending))
				verb := "oallow"
				if rr.Chance(15) {
					verb = "odec"
				}
				ops = append(ops, fmt.Sprintf("%s r=%d t=%d", verb, pending[j], t))
				pending = append(pending[:j], pending[j+1:]...)
			default:
				ops = append(ops, fmt.Sprintf("oread t=%d", t))
			}
		}
		for _, p := range pending {
			t += rr.Intn(win * 700)
			if rr.Bool() {
				ops = append(ops, fmt.Sprintf("oread t=%d", t))
			}
			ops = append(ops, fmt.Sprintf("oallow r=%d t=%d", p, t))
		}
		emit(proto.Case{ID: fmt.Sprintf("observe:g%d", c), Ops: ops})
	}
}
