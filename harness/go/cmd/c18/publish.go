//go:build verif

package main

// Dynamic search case for the hand-off of a queued transaction to the background loop of the REAL
// queue processor (model: Model/C18Publish.lean).  The shared queue is wrapped so that an id is
// visible to the loop as soon as the store has it, while the producer's Enqueue call returns a
// little later (what a remote store does; with the in-memory queue the same window is a few
// instructions wide).  The quota has room for every transaction, so in every one-at-a-time order of
// transactions and loop passes each of them is allowed; a transaction that is answered anything
// else was forgotten by the loop.  Search only — never a proof.

import (
	"context"
	"fmt"
	"strings"
	"time"

	lunar_messages "lunar/engine/messages"
	stream_config "lunar/engine/streams/config"
	lunar_context "lunar/engine/streams/lunar-context"
	queue_processor "lunar/engine/streams/processors/queue"
	public_types "lunar/engine/streams/public-types"
	"lunar/engine/streams/resources"
	quota_resource "lunar/engine/streams/resources/quota"
	stream_types "lunar/engine/streams/types"
	context_manager "lunar/toolkit-core/context-manager"

	"verif/harness/internal/proto"
)

type slowAckState struct {
	public_types.SharedStateI[string]
	delay time.Duration
}

func (s *slowAckState) NewQueue(key string, ttl time.Duration) public_types.SharedQueueI {
	return &slowAckQueue{SharedQueueI: s.SharedStateI.NewQueue(key, ttl), delay: s.delay}
}

type slowAckQueue struct {
	public_types.SharedQueueI
	delay time.Duration
}

func (q *slowAckQueue) Enqueue(item string, priority float64) error {
	err := q.SharedQueueI.Enqueue(item, priority) // visible to the loop from here on
	time.Sleep(q.delay)                           // the producer learns of it later
	return err
}

var publishSeq int

func qparam(key string, v interface{}) stream_types.ProcessorParam {
	kvp := &public_types.KeyValue{Key: key, Value: v}
	return stream_types.ProcessorParam{Name: key, Value: kvp.GetParamValue()}
}

// stress-queue-publish txns=<n> delay=<ms> ttl=<s>
func execPublish(c proto.Case, o *proto.Out) []string {
	outs := make([]string, len(c.Ops))
	for i, op := range c.Ops {
		w := strings.Fields(op)
		txns := kvInt(w, "txns", 3)
		delay := time.Duration(kvInt(w, "delay", 250)) * time.Millisecond
		ttl := kvInt(w, "ttl", 2)
		outs[i] = runPublish(txns, delay, ttl)
		if outs[i] == "ok" {
			o.Count("publish-ok")
		} else {
			o.Count("publish-lost")
		}
	}
	o.NonTrivial(strings.Join(c.Ops, "|"))
	return outs
}

func runPublish(txns int, delay time.Duration, ttl int) string {
	ctx, cancel := context.WithCancel(context.Background())
	defer cancel()
	cm := context_manager.Get()
	cm.WithContext(ctx)
	clk := cm.SetRealClock().GetClock()
	publishSeq++
	quotaID := fmt.Sprintf("publishq%d", publishSeq)
	strategy := &quota_resource.StrategyConfig{FixedWindow: &quota_resource.FixedWindowConfig{
		QuotaLimit: quota_resource.QuotaLimit{Max: 1000, Interval: 1, IntervalUnit: "minute"}}}
	rm, err := resources.NewResourceManagement()
	if err != nil {
		return "err:resources"
	}
	rm, err = rm.WithQuotaData([]*quota_resource.QuotaResourceData{{Quotas: []*quota_resource.QuotaConfig{{
		ID: quotaID, Filter: &stream_config.Filter{Name: quotaID, URL: "api.example.com/*"}, Strategy: strategy}}}})
	if err != nil {
		return "err:quota"
	}
	md := &stream_types.ProcessorMetaData{
		Name:         "queue" + quotaID,
		SharedMemory: &slowAckState{SharedStateI: lunar_context.NewMemoryState[string]().WithClock(clk), delay: delay},
		Clock:        clk,
		Parameters: map[string]stream_types.ProcessorParam{
			"quota_id":                 qparam("quota_id", quotaID),
			"queue_size":               qparam("queue_size", 10),
			"redis_queue_size":         qparam("redis_queue_size", -1),
			"ttl_seconds":              qparam("ttl_seconds", ttl),
			"priority_group_by_header": qparam("priority_group_by_header", nil),
			"priority_groups":          qparam("priority_groups", nil),
		},
		Resources: rm,
	}
	p, err := queue_processor.NewProcessor(md)
	if err != nil {
		return "err:processor:" + proto.Enc(err.Error())
	}
	bytesState := lunar_context.NewMemoryState[[]byte]()
	for t := 0; t < txns; t++ {
		id := fmt.Sprintf("p%d-%d", publishSeq, t)
		api := stream_types.NewRequestAPIStream(lunar_messages.OnRequest{
			ID: id, SequenceID: id, Method: "GET", URL: "api.example.com/x", Headers: map[string]string{}}, bytesState)
		verdict := make(chan string, 1)
		go func() {
			defer func() {
				if r := recover(); r != nil {
					verdict <- "panic"
				}
			}()
			io, err := p.Execute("flow", api)
			if err != nil {
				verdict <- "err"
				return
			}
			verdict <- io.Name
		}()
		select {
		case v := <-verdict:
			if v != "allowed" {
				return fmt.Sprintf("lost:%d:%s", t, proto.Enc(v))
			}
		case <-time.After(time.Duration(ttl)*time.Second + 5*time.Second):
			return fmt.Sprintf("stuck:%d", t)
		}
	}
	return "ok"
}

func genPublish(f proto.Flags, emit func(proto.Case)) {
	emit(proto.Case{ID: "stress:queue-publish", Ops: []string{"stress-queue-publish txns=3 delay=250 ttl=2"}})
	if f.Tier == "thorough" {
		emit(proto.Case{ID: "stress:queue-publish-long", Ops: []string{"stress-queue-publish txns=8 delay=150 ttl=2"}})
	}
}
