//go:build verif

package main

// Part (a): sharing scenarios on the REAL engine.  A flow of three probe processors a → b → c; a
// probe does what its transaction's script says with the flow's transactional context
// (set / get the key "k"), or runs another transaction to completion from inside Execute (a legal
// interleaving: the other transaction runs entirely between two processors of this one).

import (
	"fmt"
	"strings"

	"lunar/engine/streams/processors"
	publictypes "lunar/engine/streams/public-types"
	streamtypes "lunar/engine/streams/types"

	"verif/harness/internal/engine"
	"verif/harness/internal/prng"
	"verif/harness/internal/proto"
)

const probeDef = `name: VProbe
description: verification probe processor
exec: vprobe.go
parameters:
  slot:
    type: string
    description: position of the probe in the flow
    default: "a"
    required: false
output_streams:
  - type: StreamTypeAny
input_stream:
  type: StreamTypeRequest
`

const probeFlow = `name: share
filter:
    url: "a.com/*"
processors:
    A:
      processor: VProbe
      parameters:
      - key: slot
        value: a
    B:
      processor: VProbe
      parameters:
      - key: slot
        value: b
    C:
      processor: VProbe
      parameters:
      - key: slot
        value: c
flow:
    request:
    - from:
        stream:
          name: globalStream
          at: start
      to:
        processor:
          name: A
    - from:
        processor:
          name: A
      to:
        processor:
          name: B
    - from:
        processor:
          name: B
      to:
        processor:
          name: C
    - from:
        processor:
          name: C
      to:
        stream:
          name: globalStream
          at: end
    response:
    - from:
        stream:
          name: globalStream
          at: start
      to:
        stream:
          name: globalStream
          at: end
`

type scenario struct {
	eng     *engine.Engine
	scripts map[string]map[string]string // txn -> slot -> act
	log     []string
	depth   int
}

var cur *scenario

type probe struct {
	name string
	slot string
}

func (p *probe) GetName() string { return p.name }
func (p *probe) GetRequirement() *streamtypes.ProcessorRequirement {
	return &streamtypes.ProcessorRequirement{}
}

func (p *probe) Execute(_ string, api publictypes.APIStreamI) (streamtypes.ProcessorIO, error) {
	sc := cur
	txn := api.GetID()
	act := "none"
	if s, ok := sc.scripts[txn]; ok {
		act = s[p.slot]
	}
	rec := func(kind, res string) {
		sc.log = append(sc.log, fmt.Sprintf("%s.%s.%s=%s", proto.Enc(txn), p.slot, kind, proto.Enc(res)))
	}
	switch {
	case act == "none":
		rec("none", "-")
	case strings.HasPrefix(act, "set:"):
		ctx := api.GetContext().GetTransactionalContext()
		if ctx == nil {
			rec("set", "nil-ctx")
		} else if err := ctx.Set("k", proto.Dec(act[4:])); err != nil {
			rec("set", "err")
		} else {
			rec("set", "ok")
		}
	case act == "get":
		ctx := api.GetContext().GetTransactionalContext()
		if ctx == nil {
			rec("get", "nil-ctx")
		} else if v, err := ctx.Get("k"); err != nil {
			rec("get", "missing")
		} else {
			rec("get", "val:"+fmt.Sprint(v))
		}
	case strings.HasPrefix(act, "nest:"):
		other := proto.Dec(act[5:])
		if sc.depth > len(sc.scripts)+1 {
			rec("fuel", "-")
		} else {
			rec("nest", other)
			sc.depth++
			sc.eng.Request(other, "GET", "a.com/x", nil)
			sc.depth--
		}
	default:
		rec("bad", act)
	}
	return streamtypes.ProcessorIO{Type: publictypes.StreamTypeAny, Name: ""}, nil
}

func newScenario() (*scenario, error) {
	sc := &scenario{scripts: map[string]map[string]string{}}
	factory := func(md *streamtypes.ProcessorMetaData) (streamtypes.ProcessorI, error) {
		slot := "a"
		if v, ok := md.Parameters["slot"]; ok && v.Value != nil {
			slot = v.Value.GetString()
		}
		return &probe{name: md.Name, slot: slot}, nil
	}
	e, err := engine.NewWith(map[string]string{"flows/share.yaml": probeFlow}, engine.Options{
		MockClock: true,
		Defs:      map[string]string{"VProbe": probeDef},
		Factories: map[string]processors.ProcessorFactory{"VProbe": factory},
	})
	if err != nil {
		return nil, err
	}
	sc.eng = e
	return sc, nil
}

func execSharing(c proto.Case, o *proto.Out) []string {
	outs := make([]string, len(c.Ops))
	sc, err := newScenario()
	if err != nil {
		for i := range outs {
			outs[i] = "err:setup:" + proto.Enc(err.Error())
		}
		return outs
	}
	defer sc.eng.Close()
	cur = sc
	uses, nests := false, false
	for i, op := range c.Ops {
		w := strings.Fields(op)
		switch w[0] {
		case "script":
			t, _ := proto.KV(w, "t")
			m := map[string]string{}
			for _, s := range []string{"a", "b", "c"} {
				m[s], _ = proto.KV(w, s)
				if strings.HasPrefix(m[s], "set:") || m[s] == "get" {
					uses = true
				}
				if strings.HasPrefix(m[s], "nest:") {
					nests = true
				}
			}
			sc.scripts[proto.Dec(t)] = m
			outs[i] = "ok"
		case "run":
			t, _ := proto.KV(w, "t")
			sc.log = nil
			sc.depth = 0
			v := sc.eng.Request(proto.Dec(t), "GET", "a.com/x", nil)
			if v.Err != nil {
				outs[i] = "err:" + proto.Enc(v.Err.Error())
			} else if len(sc.log) == 0 {
				outs[i] = "-"
			} else {
				outs[i] = strings.Join(sc.log, ";")
			}
		default:
			outs[i] = "bad-op"
		}
	}
	if uses {
		o.NonTrivial(strings.Join(c.Ops, "|"))
		o.Count("scenario-uses-transactional-context")
	}
	if nests {
		o.Count("scenario-nested-transaction")
	}
	return outs
}

func genAct(r *prng.R, others []string) string {
	switch r.Intn(6) {
	case 0, 1:
		return "set:" + prng.Pick(r, []string{"x", "y", "zz"})
	case 2, 3:
		return "get"
	case 4:
		if len(others) > 0 {
			return "nest:" + prng.Pick(r, others)
		}
		return "none"
	default:
		return "none"
	}
}

func genSharing(r *prng.R, f proto.Flags, emit func(proto.Case)) {
	n := 40
	if f.Tier == "thorough" {
		n = 400
	}
	n *= f.Budget
	for k := 0; k < n; k++ {
		rr := r.Fork()
		nt := rr.Range(1, 3)
		var ops []string
		var names []string
		for i := 0; i < nt; i++ {
			names = append(names, fmt.Sprintf("t%d", i+1))
		}
		for i, t := range names {
			later := names[i+1:] // nesting only into later transactions: no cycles
			ops = append(ops, fmt.Sprintf("script t=%s a=%s b=%s c=%s", t, genAct(rr, later), genAct(rr, later), genAct(rr, later)))
		}
		nr := rr.Range(1, 3)
		for i := 0; i < nr; i++ {
			ops = append(ops, "run t="+prng.Pick(rr, names))
		}
		emit(proto.Case{ID: fmt.Sprintf("share%d", k+1), Ops: ops})
	}
}
