//go:build verif

package main

// Whole transactions overlapped on the REAL SPOE message handler (routing.Handler through the verif hook
// routing.VerifHandlerForStream, on a real streams.Stream loaded from flow files).  The handler reads
// ctxMng.GetContext().Err() right after a request's flows ran; the context installed here parks the
// first caller after it was armed, so transaction A is held at that point while transaction B runs from
// start to end.  Each transaction must leave with the actions it gets when it runs alone (the model:
// a transaction's answer is a function of the transaction and the loaded flows only).
//
//	overlap held=<kind> inner=<kind>     kinds: teapot (answered 418 by its flow) | free (matches no flow)
//	answer: held=<same|differs> inner=<same|differs>

import (
	"context"
	"fmt"
	"strings"
	"sync"
	"sync/atomic"
	"time"

	"lunar/engine/metrics"
	"lunar/engine/routing"
	context_manager "lunar/toolkit-core/context-manager"

	"github.com/negasus/haproxy-spoe-go/action"
	"github.com/negasus/haproxy-spoe-go/message"
	"github.com/negasus/haproxy-spoe-go/payload/kv"
	"github.com/negasus/haproxy-spoe-go/request"

	"verif/harness/internal/engine"
	"verif/harness/internal/proto"
)

const teapotFlow = `name: TeapotFlow

filter:
  url: teapot.test/brew

processors:
  BrewFilter:
    processor: Filter
    parameters:
      - key: url
        value: teapot.test/*

  Teapot:
    processor: GenerateResponse
    parameters:
      - key: status
        value: 418
      - key: body
        value: short and stout

flow:
  request:
    - from:
        stream:
          name: globalStream
          at: start
      to:
        processor:
          name: BrewFilter

    - from:
        processor:
          name: BrewFilter
          condition: hit
      to:
        processor:
          name: Teapot

    - from:
        processor:
          name: BrewFilter
          condition: miss
      to:
        stream:
          name: globalStream
          at: end

  response:
    - from:
        processor:
          name: Teapot
      to:
        stream:
          name: globalStream
          at: end
`

type gateContext struct {
	context.Context
	armed   atomic.Bool
	mu      sync.Mutex
	entered chan struct{}
	release chan struct{}
}

func (g *gateContext) arm() (chan struct{}, chan struct{}) {
	g.mu.Lock()
	g.entered = make(chan struct{})
	g.release = make(chan struct{})
	e, r := g.entered, g.release
	g.mu.Unlock()
	g.armed.Store(true)
	return e, r
}

func (g *gateContext) Err() error {
	if g.armed.CompareAndSwap(true, false) {
		g.mu.Lock()
		e, r := g.entered, g.release
		g.mu.Unlock()
		close(e)
		<-r
	}
	return nil
}

var overlapSeq int

func spoeRequest(id, url, path string) *request.Request {
	kvs := kv.NewKV()
	kvs.Add("id", id)
	kvs.Add("sequence_id", id)
	kvs.Add("method", "GET")
	kvs.Add("scheme", "https")
	kvs.Add("url", url)
	kvs.Add("path", path)
	kvs.Add("query", "")
	kvs.Add("headers", "")
	kvs.Add("body", []byte(""))
	return &request.Request{Messages: &message.Messages{{Name: "lunar-on-request", KV: kvs}}}
}

func kindRequest(kind string) *request.Request {
	overlapSeq++
	id := fmt.Sprintf("ov-%s-%d", kind, overlapSeq)
	if kind == "teapot" {
		return spoeRequest(id, "teapot.test/brew", "/brew")
	}
	return spoeRequest(id, "free.test/pass", "/pass")
}

func actionsText(a action.Actions) string {
	var parts []string
	for _, x := range a {
		parts = append(parts, fmt.Sprintf("%s=%v", x.Name, x.Value))
	}
	return strings.Join(parts, ";")
}

func execOverlap(c proto.Case, o *proto.Out) []string {
	outs := make([]string, len(c.Ops))
	e, err := engine.New(map[string]string{"flows/teapot.yaml": teapotFlow}, false)
	if err != nil {
		for i := range outs {
			outs[i] = "err:engine:" + proto.Enc(err.Error())
		}
		return outs
	}
	defer e.Close()
	gate := &gateContext{Context: context.Background()}
	cm := context_manager.Get()
	cm.WithContext(gate)
	defer cm.WithContext(context.Background())
	mm, _ := metrics.NewMetricManager()
	handler := routing.VerifHandlerForStream(e.Stream, mm)
	alone := map[string]string{}
	for _, k := range []string{"teapot", "free"} {
		r := kindRequest(k)
		handler(r)
		alone[k] = actionsText(r.Actions)
	}
	for i, op := range c.Ops {
		w := strings.Fields(op)
		hk, ik := kvStr(w, "held"), kvStr(w, "inner")
		if w[0] != "overlap" || (hk != "teapot" && hk != "free") || (ik != "teapot" && ik != "free") {
			outs[i] = "bad-op"
			continue
		}
		if alone["teapot"] == "" || alone["free"] != "" {
			outs[i] = "err:setup"
			continue
		}
		held, inner := kindRequest(hk), kindRequest(ik)
		entered, release := gate.arm()
		done := make(chan struct{})
		go func() {
			defer close(done)
			defer func() { _ = recover() }()
			handler(held)
		}()
		select {
		case <-entered:
		case <-time.After(10 * time.Second):
			outs[i] = "stuck:held"
			close(release)
			continue
		}
		handler(inner)
		close(release)
		select {
		case <-done:
		case <-time.After(10 * time.Second):
			outs[i] = "stuck:release"
			continue
		}
		cmp := func(k string, r *request.Request) string {
			if actionsText(r.Actions) == alone[k] {
				return "same"
			}
			return "differs"
		}
		outs[i] = "held=" + cmp(hk, held) + " inner=" + cmp(ik, inner)
	}
	o.Count("overlap-case")
	o.NonTrivial(strings.Join(c.Ops, "|"))
	return outs
}

func genOverlap(emit func(proto.Case)) {
	emit(proto.Case{ID: "overlap:all", Ops: []string{
		"overlap held=teapot inner=free", "overlap held=free inner=teapot",
		"overlap held=teapot inner=teapot", "overlap held=free inner=free",
		"overlap held=free inner=teapot", "overlap held=teapot inner=free"}})
}
