//go:build verif

package main

// The REAL toolkit-core MapVacuum (model: Model/C18Vacuum.lean) on a manual clock.  Its background
// pass reads the clock once, between taking the snapshot of the pending list and trimming it; the
// clock handed to it here runs, at that very call, a registration (`VacuumKey`) of another key — the
// interleaving "a transaction registers while a pass is between its critical sections", forced
// deterministically with no hook in the code.
//
//	vcfg ttl=<ms> tick=<ms> | vadd k=<key> | vpass adv=<ms> [add=<key>]     answer of vpass: map=<sorted keys>

import (
	"fmt"
	"sort"
	"strconv"
	"strings"
	"sync"
	"time"

	"lunar/toolkit-core/vacuum"

	"verif/harness/internal/detclock"
	"verif/harness/internal/prng"
	"verif/harness/internal/proto"
)

// hookClock: a manual clock whose Now() runs an armed callback once when called from another goroutine
// than the one that armed it
type hookClock struct {
	*detclock.Manual
	mu    sync.Mutex
	armed func()
}

func (c *hookClock) Now() time.Time {
	c.mu.Lock()
	f := c.armed
	c.armed = nil
	c.mu.Unlock()
	t := c.Manual.Now()
	if f != nil {
		f()
	}
	return t
}

func (c *hookClock) arm(f func()) {
	c.mu.Lock()
	c.armed = f
	c.mu.Unlock()
}

func (c *hookClock) disarm() bool {
	c.mu.Lock()
	defer c.mu.Unlock()
	was := c.armed != nil
	c.armed = nil
	return was
}

func waitParked(c *detclock.Manual, n int) bool {
	for i := 0; i < 4000; i++ {
		if len(c.Pending()) >= n {
			return true
		}
		time.Sleep(500 * time.Microsecond)
	}
	return false
}

func execVacuum(c proto.Case, o *proto.Out) []string {
	outs := make([]string, len(c.Ops))
	var clk *hookClock
	var mv vacuum.MapVacuum[string, int]
	m := map[string]int{}
	mu := &sync.RWMutex{}
	started := false
	ready := false
	for i, op := range c.Ops {
		w := strings.Fields(op)
		switch w[0] {
		case "vcfg":
			ttl, e1 := strconv.Atoi(kvStr(w, "ttl"))
			tick, e2 := strconv.Atoi(kvStr(w, "tick"))
			if e1 != nil || e2 != nil || ttl <= 0 || tick <= 0 {
				outs[i] = "bad-op"
				continue
			}
			clk = &hookClock{Manual: detclock.NewManual(1_700_000_000_000_000_000)}
			man := clk.Manual
			man.Settle = func() { waitParked(man, 1) } // the woken goroutine finishes its pass and sleeps again
			mv = vacuum.NewMapVacuum[string, int]("c18", clk, time.Duration(ttl)*time.Millisecond,
				time.Duration(tick)*time.Millisecond, m, mu)
			ready = true
			outs[i] = "ok"
		case "vadd":
			k := kvStr(w, "k")
			if !ready || k == "" {
				outs[i] = "bad-op"
				continue
			}
			mu.Lock()
			m[k] = 1
			mu.Unlock()
			mv.VacuumKey(k)
			if !started {
				started = true
			}
			if !waitParked(clk.Manual, 1) {
				outs[i] = "stuck"
				continue
			}
			outs[i] = "ok"
		case "vpass":
			adv, err := strconv.Atoi(kvStr(w, "adv"))
			if !ready || err != nil {
				outs[i] = "bad-op"
				continue
			}
			if k := kvStr(w, "add"); k != "" && started {
				clk.arm(func() {
					mu.Lock()
					m[k] = 1
					mu.Unlock()
					mv.VacuumKey(k)
				})
			}
			clk.Advance(time.Duration(adv) * time.Millisecond)
			if started && !waitParked(clk.Manual, 1) {
				outs[i] = "stuck"
				continue
			}
			clk.disarm() // no pass ran: the registration is not made
			mu.RLock()
			var ks []string
			for k := range m {
				ks = append(ks, k)
			}
			mu.RUnlock()
			sort.Strings(ks)
			if len(ks) == 0 {
				outs[i] = "map=-"
			} else {
				outs[i] = "map=" + strings.Join(ks, ",")
			}
		default:
			outs[i] = "bad-op"
		}
	}
	o.Count("vacuum-case")
	o.NonTrivial(strings.Join(c.Ops, "|"))
	return outs
}

func genVacuum(r *prng.R, f proto.Flags, emit func(proto.Case)) {
	emit(proto.Case{ID: "vacuum:during-pass", Ops: []string{"vcfg ttl=30 tick=10", "vadd k=A",
		"vpass adv=31 add=B", "vpass adv=10", "vpass adv=30", "vpass adv=10"}})
	// the registration lands inside a pass that itself EXPIRES a key (the pass trims the pending list after the
	// registration appended to it): the trim must be relative to the live list, not to the pass's snapshot
	emit(proto.Case{ID: "vacuum:during-expiring-pass", Ops: []string{"vcfg ttl=30 tick=10", "vadd k=A",
		"vpass adv=31", "vpass adv=9 add=B", "vpass adv=20", "vpass adv=20 add=C", "vpass adv=40", "vpass adv=10"}})
	emit(proto.Case{ID: "vacuum:during-expiring-pass-2", Ops: []string{"vcfg ttl=10 tick=10", "vadd k=A", "vadd k=B",
		"vpass adv=10", "vpass adv=10 add=C", "vpass adv=10 add=D", "vpass adv=10 add=A", "vpass adv=20", "vpass adv=10"}})
	emit(proto.Case{ID: "vacuum:plain", Ops: []string{"vcfg ttl=30 tick=10", "vadd k=A", "vpass adv=5", "vadd k=B",
		"vpass adv=10", "vpass adv=20", "vpass adv=10"}})
	n := 15 * f.Budget
	if f.Tier == "thorough" {
		n = 300 * f.Budget
	}
	for c := 0; c < n; c++ {
		rr := r.Fork()
		tick := 5 + 5*rr.Intn(3)
		ttl := tick * (1 + rr.Intn(4))
		ops := []string{fmt.Sprintf("vcfg ttl=%d tick=%d", ttl, tick)}
		keys := []string{"A", "B", "C", "D"}
		for s := 0; s < 4+rr.Intn(6); s++ {
			switch rr.Intn(3) {
			case 0:
				ops = append(ops, "vadd k="+keys[rr.Intn(len(keys))])
			default:
				// at most one pass per advance: less than one tick beyond the next wake-up
				adv := 1 + rr.Intn(tick)
				op := fmt.Sprintf("vpass adv=%d", adv)
				if rr.Intn(2) == 0 {
					op += " add=" + keys[rr.Intn(len(keys))]
				}
				ops = append(ops, op)
			}
		}
		if rr.Intn(2) == 0 {
			// a registration, enough passes for it to expire, and another registration inside the expiring pass
			ops = append(ops, "vadd k="+keys[rr.Intn(len(keys))])
			for t := 0; t < ttl; t += tick {
				ops = append(ops, fmt.Sprintf("vpass adv=%d", tick))
			}
			ops = append(ops, fmt.Sprintf("vpass adv=%d add=%s", 1+rr.Intn(tick), keys[rr.Intn(len(keys))]))
		}
		ops = append(ops, fmt.Sprintf("vpass adv=%d", ttl+tick), fmt.Sprintf("vpass adv=%d", tick))
		emit(proto.Case{ID: fmt.Sprintf("vacuum:g%d", c), Ops: ops})
	}
}
