//go:build verif

package main

// The answer of the filter tree is per-transaction state: Stream.ExecuteFlow walks over the flows it
// was given while other transactions look their own flows up.  `retain` builds a REAL filter tree,
// performs the lookups of the case one after the other keeping every answer, and reports whether any
// kept answer changed afterwards (`stable` | `changed:<lookup index>:<before>-><after>`).  The model
// answers `stable`: a lookup's answer is a value.  `retain-conc` does the same from G goroutines.
//
//	retain common=<n> exact=<m> lookups=<i0,i1,...>     (i = index of the exact URL looked up)

import (
	"fmt"
	"runtime"
	"strconv"
	"strings"
	"sync"

	lunar_messages "lunar/engine/messages"
	stream_config "lunar/engine/streams/config"
	stream_filter "lunar/engine/streams/filter"
	stream_flow "lunar/engine/streams/flow"
	internaltypes "lunar/engine/streams/internal-types"
	lunar_context "lunar/engine/streams/lunar-context"
	public_types "lunar/engine/streams/public-types"
	stream_types "lunar/engine/streams/types"

	"verif/harness/internal/prng"
	"verif/harness/internal/proto"
)

var retainState = lunar_context.NewMemoryState[[]byte]()

func retainFlow(name, url string) internaltypes.FlowI {
	filter := &stream_config.Filter{Name: name, URL: url, QueryParams: []public_types.KeyValue{},
		Method: []string{}, Headers: []public_types.KeyValue{}, StatusCode: []int{}}
	return stream_flow.NewFlow(nil, &stream_config.FlowRepresentation{Name: name, Filter: filter}, nil)
}

func retainRequest(id, url string) public_types.APIStreamI {
	api := stream_types.NewRequestAPIStream(lunar_messages.OnRequest{ID: id, SequenceID: id, Method: "GET",
		Scheme: "https", URL: url, Headers: map[string]string{}}, retainState)
	api.SetContext(lunar_context.NewLunarContext(lunar_context.NewContext()))
	return api
}

func names(flows []internaltypes.FlowI) string {
	ns := []string{}
	for _, f := range flows {
		ns = append(ns, f.GetName())
	}
	return strings.Join(ns, "+")
}

func buildRetainTree(common, exact int) (internaltypes.FilterTreeI, error) {
	tree := stream_filter.NewFilterTree()
	for i := 0; i < common; i++ {
		if err := tree.AddFlow(retainFlow(fmt.Sprintf("common%d", i), "api.example.com/*")); err != nil {
			return nil, err
		}
	}
	for i := 0; i < exact; i++ {
		if err := tree.AddFlow(retainFlow(fmt.Sprintf("only%d", i), fmt.Sprintf("api.example.com/p%d", i))); err != nil {
			return nil, err
		}
	}
	return tree, nil
}

func execRetain(c proto.Case, o *proto.Out) []string {
	outs := make([]string, len(c.Ops))
	for i, op := range c.Ops {
		w := strings.Fields(op)
		common, exact := kvInt(w, "common", 3), kvInt(w, "exact", 2)
		tree, err := buildRetainTree(common, exact)
		if err != nil {
			outs[i] = "err:tree"
			continue
		}
		var idx []int
		for _, s := range strings.Split(kvStr(w, "lookups"), ",") {
			if n, err := strconv.Atoi(s); err == nil && n >= 0 && n < exact {
				idx = append(idx, n)
			}
		}
		if w[0] == "retain-conc" {
			outs[i] = retainConc(tree, exact, kvInt(w, "workers", 8), kvInt(w, "rounds", 500))
		} else {
			outs[i] = retainSeq(tree, idx)
		}
		if outs[i] == "stable" {
			o.Count("retain-stable")
		} else {
			o.Count("retain-changed")
		}
	}
	o.NonTrivial(strings.Join(c.Ops, "|"))
	return outs
}

func retainSeq(tree internaltypes.FilterTreeI, idx []int) string {
	type kept struct {
		flows  []internaltypes.FlowI
		before string
	}
	var ks []kept
	for n, i := range idx {
		res, found := tree.GetFlow(retainRequest(fmt.Sprintf("t%d", n), fmt.Sprintf("api.example.com/p%d", i)))
		if !found {
			ks = append(ks, kept{nil, ""})
			continue
		}
		flows, _ := res.GetUserFlow()
		ks = append(ks, kept{flows, names(flows)})
	}
	for n, k := range ks {
		if after := names(k.flows); after != k.before {
			return fmt.Sprintf("changed:%d:%s->%s", n, proto.Enc(k.before), proto.Enc(after))
		}
	}
	return "stable"
}

func retainConc(tree internaltypes.FilterTreeI, exact, workers, rounds int) string {
	var wg sync.WaitGroup
	var mu sync.Mutex
	bad := ""
	for g := 0; g < workers; g++ {
		wg.Add(1)
		go func(g int) {
			defer wg.Done()
			defer func() {
				if r := recover(); r != nil {
					mu.Lock()
					bad = "panic"
					mu.Unlock()
				}
			}()
			url := fmt.Sprintf("api.example.com/p%d", g%exact)
			for i := 0; i < rounds; i++ {
				res, found := tree.GetFlow(retainRequest(fmt.Sprintf("c%d-%d", g, i), url))
				if !found {
					continue
				}
				flows, _ := res.GetUserFlow()
				before := names(flows)
				runtime.Gosched()
				if after := names(flows); after != before || !strings.HasSuffix(before, fmt.Sprintf("only%d", g%exact)) {
					mu.Lock()
					if bad == "" {
						bad = fmt.Sprintf("changed:%d:%s->%s", g, proto.Enc(before), proto.Enc(after))
					}
					mu.Unlock()
					return
				}
			}
		}(g)
	}
	wg.Wait()
	if bad != "" {
		return bad
	}
	return "stable"
}

func genRetain(r *prng.R, f proto.Flags, emit func(proto.Case)) {
	// every number of flows on the shared wildcard node (slice capacities 1,2,4,4,8,8,8,8 ...) × orders
	for common := 1; common <= 8; common++ {
		emit(proto.Case{ID: fmt.Sprintf("retain:c%d", common), Ops: []string{
			fmt.Sprintf("retain common=%d exact=3 lookups=0,1,2,1,0", common)}})
	}
	n := 10 * f.Budget
	if f.Tier == "thorough" {
		n = 200 * f.Budget
	}
	for c := 0; c < n; c++ {
		rr := r.Fork()
		exact := 2 + rr.Intn(3)
		var ls []string
		for k := 0; k < 2+rr.Intn(5); k++ {
			ls = append(ls, strconv.Itoa(rr.Intn(exact)))
		}
		emit(proto.Case{ID: fmt.Sprintf("retain:g%d", c), Ops: []string{
			fmt.Sprintf("retain common=%d exact=%d lookups=%s", 1+rr.Intn(9), exact, strings.Join(ls, ","))}})
	}
	emit(proto.Case{ID: "retain:conc", Ops: []string{"retain-conc common=3 exact=2 workers=8 rounds=500"}})
}
