//go:build verif

package main

// Transactions in policy mode over SHARED remedy plugins (the engine creates the plugins once): an endpoint
// with an api-key authentication remedy (the plugin keeps one header map per endpoint and hands it to every
// transaction) followed by account orchestration (round robin over tenant accounts whose tokens travel in
// differently named headers, a fresh map per transaction).  The REAL runner.DispatchOnRequest folds the two
// request modifications of every transaction; what leaves the engine for a transaction must be the api key
// plus the token of the tenant the round robin gave to THIS transaction — nothing an earlier transaction did
// may have been written into what a later one reads.
//
//	policy-seq n=<k> tenants=<t>      answer: the header names of each transaction, in order

import (
	"fmt"
	"sort"
	"strings"
	"time"

	"lunar/engine/config"
	lunarMessages "lunar/engine/messages"
	"lunar/engine/runner"
	"lunar/engine/services"
	sharedConfig "lunar/shared-model/config"

	"github.com/negasus/haproxy-spoe-go/action"

	"verif/harness/internal/proto"
)

type nullWriter struct{}

func (*nullWriter) Write(b []byte) (int, error) { return len(b), nil }
func (*nullWriter) Close() error                { return nil }

func requestHeaderNames(spoeActions action.Actions) string {
	for _, a := range spoeActions {
		if a.Name != "request_headers" {
			continue
		}
		dump, ok := a.Value.(string)
		if !ok {
			return "err:dump"
		}
		names := []string{}
		for _, line := range strings.Split(dump, "\n") {
			if line != "" {
				names = append(names, strings.ToLower(strings.SplitN(line, ":", 2)[0]))
			}
		}
		sort.Strings(names)
		return strings.Join(names, "+")
	}
	return "none"
}

func execPolicy(c proto.Case, o *proto.Out) []string {
	outs := make([]string, len(c.Ops))
	for i, op := range c.Ops {
		w := strings.Fields(op)
		n, tenants := kvInt(w, "n", -1), kvInt(w, "tenants", -1)
		if w[0] != "policy-seq" || n < 1 || n > 64 || tenants < 1 || tenants > 8 {
			outs[i] = "bad-op"
			continue
		}
		accounts := map[sharedConfig.AccountID]sharedConfig.Account{
			"service": {Authentication: sharedConfig.Authentication{APIKey: &sharedConfig.APIKey{
				Tokens: []sharedConfig.Header{{Name: "x-api-key", Value: "service-key"}}}}},
		}
		var rr []sharedConfig.AccountID
		for t := 0; t < tenants; t++ {
			id := sharedConfig.AccountID(fmt.Sprintf("tenant%d", t))
			accounts[id] = sharedConfig.Account{Tokens: []sharedConfig.Token{
				{Header: &sharedConfig.Header{Name: fmt.Sprintf("x-tenant-%d-token", t), Value: fmt.Sprintf("secret-%d", t)}}}}
			rr = append(rr, id)
		}
		url := fmt.Sprintf("c18-policy-%d.example.com/orders", i)
		tree, err := config.BuildEndpointPolicyTree([]sharedConfig.EndpointConfig{{
			Method: "GET", URL: url,
			Remedies: []sharedConfig.Remedy{
				{Name: "auth", Enabled: true, Config: sharedConfig.RemedyConfig{Authentication: &sharedConfig.AuthConfig{Account: "service"}}},
				{Name: "orchestration", Enabled: true, Config: sharedConfig.RemedyConfig{
					AccountOrchestration: &sharedConfig.AccountOrchestrationConfig{RoundRobin: rr}}},
			}}})
		if err != nil {
			outs[i] = "err:tree:" + proto.Enc(err.Error())
			continue
		}
		pc := &sharedConfig.PoliciesConfig{Global: sharedConfig.Global{Remedies: []sharedConfig.Remedy{}, Diagnosis: []sharedConfig.Diagnosis{}},
			Accounts: accounts}
		svc, err := services.Initialize(&nullWriter{}, 15*time.Second, sharedConfig.Exporters{})
		if err != nil {
			outs[i] = "err:services:" + proto.Enc(err.Error())
			continue
		}
		worker := runner.NewDiagnosisWorker()
		var got []string
		for k := 0; k < n; k++ {
			id := fmt.Sprintf("c18-pol-%d-%d", i, k)
			acts, derr := runner.DispatchOnRequest(lunarMessages.OnRequest{ID: id, SequenceID: id, Method: "GET", Scheme: "https",
				URL: url, Path: "/orders", Headers: map[string]string{"host": strings.SplitN(url, "/", 2)[0]}, Time: time.Now()},
				tree, pc, svc, worker)
			if derr != nil {
				got = append(got, "err:dispatch")
				continue
			}
			got = append(got, requestHeaderNames(acts))
		}
		outs[i] = strings.Join(got, ",")
	}
	o.Count("policy-sequence-case")
	o.NonTrivial(strings.Join(c.Ops, "|"))
	return outs
}

func genPolicy(emit func(proto.Case)) {
	emit(proto.Case{ID: "policy:shared-plugins", Ops: []string{"policy-seq n=4 tenants=2", "policy-seq n=7 tenants=3", "policy-seq n=3 tenants=1"}})
}
