// extract: regenerates the fact base from /repo's working tree:
//
//	<out>/C18Facts.lean  (def facts : List Access)   and   <out>/facts.json
package main

import (
	"encoding/json"
	"flag"
	"fmt"
	"os"
	"path/filepath"
	"sort"
	"strings"

	"verif/harness/internal/bodyfacts"
	"verif/harness/internal/constfacts"
	"verif/harness/internal/lockfacts"
)

const engDir = "proxy/src/services/lunar-engine/"
const pyDir = "interceptors/lunar-py-interceptor/lunar_interceptor/src/lunar_interceptor/interceptor/"

// constant facts the models rely on (DESIGN.md §4.5)
func constFacts(repo string) []constfacts.Fact {
	cfg := engDir + "config"
	return []constfacts.Fact{
		constfacts.Const(repo, cfg, "staleVersionTTL", "staleVersionTTL"),
		constfacts.Const(repo, cfg, "vacuumTick", "vacuumTick"),
		// NewMapVacuum(name, clock, ttl, tick, map, mutex) for the two vacuums of the policies accessor
		constfacts.CallArg(repo, cfg, "NewTxnPoliciesAccessor", "NewMapVacuum", 0, "Vacuum::txns", 2, "txnVacuumTTL"),
		constfacts.CallArg(repo, cfg, "NewTxnPoliciesAccessor", "NewMapVacuum", 0, "Vacuum::txns", 3, "txnVacuumTick"),
		constfacts.CallArg(repo, cfg, "NewTxnPoliciesAccessor", "NewMapVacuum", 0, "Vacuum::policies", 2, "versionsVacuumTTL"),
		constfacts.CallArg(repo, cfg, "NewTxnPoliciesAccessor", "NewMapVacuum", 0, "Vacuum::policies", 3, "versionsVacuumTick"),
		constfacts.Const(repo, engDir+"streams/processors/queue", "defaultPriorityWhenGroupFound", "queueDefaultPriority"),
		constfacts.Const(repo, engDir+"streams/resources/quota", "defaultRequestExpiration", "concurrentDefaultRequestExpiration"),
		constfacts.Const(repo, engDir+"streams/resources/quota", "defaultGCInterval", "concurrentDefaultGCInterval"),
		constfacts.PyConst(repo, pyDir+"fail_safe.py", "_DEFAULT_MAX_ERROR_ALLOWED", "pyDefaultMaxErrors"),
		constfacts.PyConst(repo, pyDir+"fail_safe.py", "_DEFAULT_FAILSAFE_COOLDOWN_SEC", "pyDefaultCooldownSec"),
		// shipped defaults of the diagnosis fail-safe (C20): ENV lines of the proxy image
		constfacts.DockerEnv(repo, "proxy/Dockerfile", "DIAGNOSIS_FAILSAFE_MIN_SEC_BETWEEN_CALLS", "dfsMinSecBetweenCalls"),
		constfacts.DockerEnv(repo, "proxy/Dockerfile", "DIAGNOSIS_FAILSAFE_CONSECUTIVE_N", "dfsConsecutiveN"),
		constfacts.DockerEnv(repo, "proxy/Dockerfile", "DIAGNOSIS_FAILSAFE_MIN_STABLE_SEC", "dfsMinStableSec"),
		constfacts.DockerEnv(repo, "proxy/Dockerfile", "DIAGNOSIS_FAILSAFE_COOLDOWN_SEC", "dfsCooldownSec"),
		constfacts.DockerEnv(repo, "proxy/Dockerfile", "DIAGNOSIS_FAILSAFE_HEALTHY_SESSION_RATE", "dfsHealthySessionRate"),
		constfacts.DockerEnv(repo, "proxy/Dockerfile", "DIAGNOSIS_FAILSAFE_HEALTHY_MAX_LAST_SESSION_SEC", "dfsHealthyMaxLastSessionSec"),
	}
}

// the production clock (toolkit-core): every time-dependent model assumes it IS Go's `time` package
var clockTargets = []bodyfacts.Target{
	{Dir: "proxy/src/libs/toolkit-core/clock", Recv: "RealClock", Func: "Now"},
	{Dir: "proxy/src/libs/toolkit-core/clock", Recv: "RealClock", Func: "Sleep"},
	{Dir: "proxy/src/libs/toolkit-core/clock", Recv: "RealClock", Func: "After"},
	{Dir: "proxy/src/libs/toolkit-core/clock", Recv: "RealClock", Func: "Since"},
	{Dir: "proxy/src/libs/toolkit-core/clock", Recv: "RealClock", Func: "Until"},
	{Dir: "proxy/src/libs/toolkit-core/clock", Recv: "", Func: "NewRealClock"},
	{Dir: "proxy/src/libs/toolkit-core/context-manager", Recv: "ContextManager", Func: "SetRealClock"},
	{Dir: "proxy/src/libs/toolkit-core/context-manager", Recv: "ContextManager", Func: "GetClock"},
}

// unit-carrying getters whose value the C18 models take as given (the lifetime of a stored request)
var timingTargets = []bodyfacts.Target{
	{Dir: engDir + "utils/environment", Recv: "", Func: "GetServerTimeout"},
}

func q(s string) string { return "\"" + strings.ReplaceAll(s, "\"", "\\\"") + "\"" }

func main() {
	repo := flag.String("repo", "/repo", "repo root")
	out := flag.String("out", "", "output directory for generated Lean")
	flag.Parse()
	var all []lockfacts.Access
	missing := []string{}
	for _, t := range lockfacts.Targets {
		as, err := lockfacts.Extract(*repo, t)
		if err != nil {
			missing = append(missing, t.Pkg+"."+t.Type+": "+err.Error())
			continue
		}
		all = append(all, as...)
	}
	sort.SliceStable(all, func(i, j int) bool {
		a, b := all[i], all[j]
		if a.Struct != b.Struct {
			return a.Struct < b.Struct
		}
		if a.Field != b.Field {
			return a.Field < b.Field
		}
		if a.Func != b.Func {
			return a.Func < b.Func
		}
		return a.Pos < b.Pos
	})
	// de-duplicate identical (struct, field, func, write, locks, atomic, init) facts
	seen := map[string]bool{}
	var facts []lockfacts.Access
	for _, a := range all {
		b := a
		b.Pos = ""
		k, _ := json.Marshal(b)
		if seen[string(k)] {
			continue
		}
		seen[string(k)] = true
		facts = append(facts, a)
	}
	if *out == "" {
		b, _ := json.MarshalIndent(facts, "", " ")
		fmt.Println(string(b))
		return
	}
	if err := os.MkdirAll(*out, 0o755); err != nil {
		panic(err)
	}
	var sb strings.Builder
	sb.WriteString("import LunarVerif.Spec.C18\n/-! GENERATED by harness/go/cmd/extract from /repo's working tree — do not edit. -/\n")
	sb.WriteString("namespace LunarVerif.C18.Generated\nopen LunarVerif.C18\n\n")
	// chunked so that no single definition is huge
	const chunk = 40
	n := 0
	for i := 0; i < len(facts); i += chunk {
		end := i + chunk
		if end > len(facts) {
			end = len(facts)
		}
		fmt.Fprintf(&sb, "def facts%d : List Access := [\n", n)
		for j, a := range facts[i:end] {
			locks := []string{}
			for _, l := range a.Locks {
				locks = append(locks, fmt.Sprintf("⟨%s, %v⟩", q(l.Name), l.Excl))
			}
			sep := ","
			if j == end-i-1 {
				sep = ""
			}
			fmt.Fprintf(&sb, "  ⟨%s, %s, %s, %v, [%s], %v, %v, %d⟩%s\n", q(a.Struct), q(a.Field), q(a.Func), a.Write,
				strings.Join(locks, ", "), a.Atomic, a.Init, a.Region, sep)
		}
		sb.WriteString("]\n\n")
		n++
	}
	sb.WriteString("def facts : List Access :=\n  ")
	parts := []string{}
	for i := 0; i < n; i++ {
		parts = append(parts, fmt.Sprintf("facts%d", i))
	}
	if len(parts) == 0 {
		parts = []string{"[]"}
	}
	sb.WriteString(strings.Join(parts, " ++ "))
	sb.WriteString("\n\n")
	ms := []string{}
	for _, m := range missing {
		ms = append(ms, q(m))
	}
	fmt.Fprintf(&sb, "/-- targets the extractor could not find (a renamed/removed struct breaks `targets_present`). -/\ndef missing : List String := [%s]\n\n", strings.Join(ms, ", "))
	// call-order facts
	sb.WriteString("/-- call sites of the named methods in source order, per function (harness/go/internal/lockfacts/order.go) -/\ndef orderFacts : List (String × List String) := [\n")
	orderMissing := []string{}
	for i, t := range lockfacts.OrderTargets {
		of, err := lockfacts.ExtractOrder(*repo, t)
		if err != nil {
			orderMissing = append(orderMissing, q(of.Func))
		}
		cs := []string{}
		for _, c := range of.Calls {
			cs = append(cs, q(c))
		}
		sep := ","
		if i == len(lockfacts.OrderTargets)-1 {
			sep = ""
		}
		fmt.Fprintf(&sb, "  (%s, [%s])%s\n", q(of.Func), strings.Join(cs, ", "), sep)
	}
	fmt.Fprintf(&sb, "]\n\ndef orderMissing : List String := [%s]\n\n", strings.Join(orderMissing, ", "))
	sb.WriteString("/-- signature and body of unit-carrying getters (harness/go/internal/bodyfacts) -/\ndef timingBodies : List (String × String) := [\n")
	for i, t := range timingTargets {
		body, err := bodyfacts.Body(*repo, t)
		if err != nil {
			body = "MISSING: " + err.Error()
		}
		sep := ","
		if i == len(timingTargets)-1 {
			sep = ""
		}
		fmt.Fprintf(&sb, "  (%s, %s)%s\n", q(t.Name()), q(strings.ReplaceAll(body, "\\", "\\\\")), sep)
	}
	sb.WriteString("]\n\n")
	sb.WriteString("end LunarVerif.C18.Generated\n")
	path := filepath.Join(*out, "C18Facts.lean")
	old, _ := os.ReadFile(path)
	if string(old) != sb.String() {
		if err := os.WriteFile(path, []byte(sb.String()), 0o644); err != nil {
			panic(err)
		}
	}
	b, _ := json.MarshalIndent(facts, "", " ")
	os.WriteFile(filepath.Join(*out, "facts.json"), b, 0o644)
	// constants
	var cb strings.Builder
	cb.WriteString("/-! GENERATED by harness/go/cmd/extract from /repo's working tree — do not edit.\n    Constants (durations in ns) and constant call-site arguments the models rely on. -/\nnamespace LunarVerif.Generated.Const\n\n")
	var notFound []string
	for _, c := range constFacts(*repo) {
		fmt.Fprintf(&cb, "/-- %s -/\ndef %s : Int := %d\n", c.Where, c.Name, c.Value)
		if !c.Found {
			notFound = append(notFound, q(c.Name))
		}
	}
	fmt.Fprintf(&cb, "\n/-- constants the extractor could not find or evaluate -/\ndef notFound : List String := [%s]\n\nend LunarVerif.Generated.Const\n", strings.Join(notFound, ", "))
	cpath := filepath.Join(*out, "Constants.lean")
	oldc, _ := os.ReadFile(cpath)
	if string(oldc) != cb.String() {
		os.WriteFile(cpath, []byte(cb.String()), 0o644)
	}
	// production clock
	var kb strings.Builder
	kb.WriteString("/-! GENERATED by harness/go/cmd/extract from /repo's working tree — do not edit.\n    Signature and body (comments dropped, white space collapsed) of the production clock's methods. -/\nnamespace LunarVerif.Generated\n\ndef clockFacts : List (String × String) := [\n")
	for i, t := range clockTargets {
		body, err := bodyfacts.Body(*repo, t)
		if err != nil {
			body = "MISSING: " + err.Error()
		}
		sep := ","
		if i == len(clockTargets)-1 {
			sep = ""
		}
		fmt.Fprintf(&kb, "  (%s, %s)%s\n", q(t.Name()), q(strings.ReplaceAll(body, "\\", "\\\\")), sep)
	}
	kb.WriteString("]\n\nend LunarVerif.Generated\n")
	kpath := filepath.Join(*out, "ClockFacts.lean")
	oldk, _ := os.ReadFile(kpath)
	if string(oldk) != kb.String() {
		os.WriteFile(kpath, []byte(kb.String()), 0o644)
	}
	fmt.Printf("facts=%d structs=%d missing=%d\n", len(facts), len(lockfacts.Targets)-len(missing), len(missing))
}
