package main

// Level 2 ("glue") of the C11 harness: the REAL handler glue.  A child process (re-exec of this
// binary; the engine reads its environment at package init) holds ONE real
// routing.HandlingDataManager in POLICY mode (LUNAR_STREAMS_ENABLED=false) behind a fake HAProxy
// admin/health server, and is driven through
//   - routing.Handler(data) with SPOE `lunar-on-request` / `lunar-on-response` messages, and
//   - the real admin routes /apply_policies, /revert_to_last_loaded, /revert_to_diagnosis_free.
// Policies of label k are made observable on both paths ("lens"):
//   request  path: a global account_orchestration remedy sets header x-verif-version: v<k>; the value
//                  lives in the ACCOUNTS section (token of account `a`)
//   response path: a global retry remedy fires only on status 500+(k mod 10) and answers
//                  x-lunar-retry-after = 10+(k mod 10) for a new sequence (attempts 3, multiplier 1)
// so two labels with the same units digit differ in the accounts section only.
// The mock clock of the child never advances (retention/vacuum timing is level 1's subject); every
// case uses process-unique transaction ids, so a case's answers are a function of its op lines.

import (
	"bufio"
	"bytes"
	"fmt"
	"io"
	"log"
	"net"
	"net/http"
	"net/http/httptest"
	"os"
	"os/exec"
	"path/filepath"
	"strconv"
	"strings"
	"sync"
	"time"

	"lunar/engine/routing"
	contextmanager "lunar/toolkit-core/context-manager"

	"github.com/negasus/haproxy-spoe-go/message"
	"github.com/negasus/haproxy-spoe-go/payload/kv"
	"github.com/negasus/haproxy-spoe-go/request"
	"github.com/rs/zerolog"

	"verif/harness/internal/proto"
)

const (
	glueChildEnv = "VERIF_C11_GLUE_CHILD"
	glueRootEnv  = "VERIF_C11_GLUE_ROOT"
	lensAttempts = 3
)

func policiesYAML(label int64, valid bool) string {
	if !valid {
		// fails validation: a remedy without a known plugin type
		return "global:\n  remedies:\n    - name: broken\n      enabled: true\n      config: {}\n"
	}
	return fmt.Sprintf(`global:
  remedies:
    - name: verif-version
      enabled: true
      config:
        account_orchestration:
          round_robin: [a]
    - name: verif-retry
      enabled: true
      config:
        retry:
          attempts: %d
          initial_cooldown_seconds: %d
          cooldown_multiplier: 1
          conditions:
            status_code:
              - from: %d
                to: %d
accounts:
  a:
    tokens:
      - header:
          name: x-verif-version
          value: v%d
`, lensAttempts, 10+label%10, 500+label%10, 500+label%10, label)
}

// ------------------------------------------------------------------ child side

type glueWorld struct {
	root    string
	srv     *httptest.Server
	rd      *routing.HandlingDataManager
	handler routing.MessageHandler
	serial  int
}

func freePort() string {
	l, err := net.Listen("tcp", "127.0.0.1:0")
	if err != nil {
		panic(err)
	}
	defer l.Close()
	return fmt.Sprint(l.Addr().(*net.TCPAddr).Port)
}

func serveOK(port string) {
	h := http.HandlerFunc(func(w http.ResponseWriter, r *http.Request) {
		io.Copy(io.Discard, r.Body)
		w.WriteHeader(200)
		w.Write([]byte("OK"))
	})
	l, err := net.Listen("tcp", "127.0.0.1:"+port)
	if err != nil {
		panic(err)
	}
	go http.Serve(l, h)
	if l6, err := net.Listen("tcp", "[::1]:"+port); err == nil {
		go http.Serve(l6, h)
	}
}

// closes the response bodies the engine leaves open (one leaked connection per reload otherwise)
type bodyCloser struct{ rt http.RoundTripper }

func (t bodyCloser) RoundTrip(r *http.Request) (*http.Response, error) {
	resp, err := t.rt.RoundTrip(r)
	if err == nil && resp.Body != nil && !strings.HasPrefix(r.URL.Path, "/apply_policies") &&
		!strings.HasPrefix(r.URL.Path, "/revert_") {
		b, _ := io.ReadAll(resp.Body)
		resp.Body.Close()
		resp.Body = io.NopCloser(bytes.NewReader(b))
	}
	return resp, err
}

func newGlueWorld() *glueWorld {
	w := &glueWorld{root: os.Getenv(glueRootEnv)}
	if sl, err := net.Listen("tcp", "127.0.0.1:5140"); err == nil { // swallow the syslog dial of writers.Dial
		go func() {
			for {
				c, err := sl.Accept()
				if err != nil {
					return
				}
				go io.Copy(io.Discard, c)
			}
		}()
	}
	http.DefaultClient.Transport = bodyCloser{http.DefaultTransport}
	serveOK(os.Getenv("HAPROXY_MANAGE_ENDPOINTS_PORT"))
	serveOK(os.Getenv("LUNAR_HEALTHCHECK_PORT"))
	// the accessor and the remedy plugins take their clock from the context manager: a mock clock
	// that is never advanced
	contextmanager.Get().SetMockClock().GetMockClock().Set(origin)
	must(os.WriteFile(os.Getenv("LUNAR_PROXY_POLICIES_CONFIG"), []byte(policiesYAML(0, true)), 0o644))
	w.rd = routing.NewHandlingDataManager(5*time.Second, nil)
	if err := w.rd.Setup(nil); err != nil {
		panic("c11 glue: engine set-up failed: " + err.Error())
	}
	mux := http.NewServeMux()
	w.rd.SetHandleRoutes(mux)
	w.srv = httptest.NewUnstartedServer(mux)
	w.srv.Config.ErrorLog = log.New(io.Discard, "", 0)
	w.srv.Start()
	w.handler = routing.Handler(w.rd)
	return w
}

func must(err error) {
	if err != nil {
		panic(err)
	}
}

func (w *glueWorld) post(path string) (int, string) {
	resp, err := http.Post(w.srv.URL+path, "text/plain", nil)
	must(err)
	b, _ := io.ReadAll(resp.Body)
	resp.Body.Close()
	return resp.StatusCode, string(b)
}

func (w *glueWorld) reload(label int64, valid bool) string {
	must(os.WriteFile(os.Getenv("LUNAR_PROXY_POLICIES_CONFIG"), []byte(policiesYAML(label, valid)), 0o644))
	code, _ := w.post("/apply_policies")
	switch code {
	case 200:
		return "ok"
	case 422:
		return "err:rejected"
	}
	return "err:http" + strconv.Itoa(code)
}

func (w *glueWorld) txn(n int64) string { return fmt.Sprintf("c%d-t%d", w.serial, n) }

func headerIn(acts []struct {
	name string
	val  any
}, varName, header string) string {
	for _, a := range acts {
		if a.name != varName {
			continue
		}
		s, _ := a.val.(string)
		for _, l := range strings.Split(s, "\n") {
			if strings.HasPrefix(l, header+":") {
				return l[len(header)+1:]
			}
		}
	}
	return ""
}

func (w *glueWorld) spoe(name string, kvs *kv.KV) []struct {
	name string
	val  any
} {
	req := request.Request{Messages: &message.Messages{{Name: name, KV: kvs}}}
	w.handler(&req)
	var out []struct {
		name string
		val  any
	}
	for _, a := range req.Actions {
		out = append(out, struct {
			name string
			val  any
		}{a.Name, a.Value})
	}
	return out
}

func (w *glueWorld) request(id, seq int64) string {
	kvs := kv.NewKV()
	kvs.Add("id", w.txn(id))
	kvs.Add("sequence_id", w.txn(seq))
	kvs.Add("method", "GET")
	kvs.Add("scheme", "http")
	kvs.Add("url", "verif.example/x")
	kvs.Add("path", "/x")
	kvs.Add("query", "")
	kvs.Add("headers", "")
	kvs.Add("body", []byte(""))
	acts := w.spoe("lunar-on-request", kvs)
	v := headerIn(acts, "request_headers", "x-verif-version")
	if strings.HasPrefix(v, "v") {
		return "ver=" + v[1:]
	}
	return "ver=none"
}

func (w *glueWorld) response(id, seq, status int64) string {
	kvs := kv.NewKV()
	kvs.Add("id", w.txn(id))
	kvs.Add("sequence_id", w.txn(seq))
	kvs.Add("method", "GET")
	kvs.Add("url", "verif.example/x")
	kvs.Add("status", status)
	kvs.Add("headers", "")
	kvs.Add("body", []byte(""))
	acts := w.spoe("lunar-on-response", kvs)
	v := headerIn(acts, "response_headers", "x-lunar-retry-after")
	if v != "" {
		return "retry=" + v
	}
	return "retry=none"
}

// execGlue runs one glue case against the child's world.
func (w *glueWorld) execGlue(ops []string) []string {
	w.serial++
	outs := make([]string, len(ops))
	ready := false
	for i, op := range ops {
		f := strings.Fields(op)
		outs[i] = "bad-op"
		if len(f) == 0 {
			continue
		}
		switch {
		case f[0] == "gcfg" && len(f) == 2:
			d0, ok := kvI(f[1:], "d0")
			if !ok {
				continue
			}
			// the case's initial policies: a reload (the manager is shared by all cases of this process)
			outs[i] = w.reload(d0, true)
			ready = outs[i] == "ok"
		case f[0] == "req" && len(f) == 3 && ready:
			id, ok1 := kvI(f[1:2], "id")
			seq, ok2 := kvI(f[2:3], "seq")
			if ok1 && ok2 {
				outs[i] = w.request(id, seq)
			}
		case f[0] == "resp" && len(f) == 4 && ready:
			id, ok1 := kvI(f[1:2], "id")
			seq, ok2 := kvI(f[2:3], "seq")
			st, ok3 := kvI(f[3:4], "status")
			if ok1 && ok2 && ok3 && st < 1000 {
				outs[i] = w.response(id, seq, st)
			}
		case f[0] == "reload" && len(f) == 3 && ready:
			d, ok1 := kvI(f[1:2], "d")
			okn, ok2 := kvI(f[2:3], "ok")
			if ok1 && ok2 && okn <= 1 {
				outs[i] = w.reload(d, okn == 1)
			}
		case f[0] == "revert" && len(f) == 2 && ready:
			kind, _ := proto.KV(f[1:], "kind")
			path := map[string]string{"last": "/revert_to_last_loaded", "free": "/revert_to_diagnosis_free"}[kind]
			if path == "" {
				continue
			}
			if code, _ := w.post(path); code == 200 {
				outs[i] = "ok"
			} else {
				outs[i] = "err:http" + strconv.Itoa(code)
			}
		}
	}
	return outs
}

// glueChildMain: serve cases over stdin/stdout.  Request: "<n>\n" + n op lines; answer: n lines
// ("panic <msg>" lines when the implementation panicked).
func glueChildMain() {
	zerolog.SetGlobalLevel(zerolog.Disabled)
	in := bufio.NewReaderSize(os.Stdin, 1<<20)
	out := bufio.NewWriterSize(os.Stdout, 1<<20)
	w := newGlueWorld()
	fmt.Fprintln(out, "ready")
	out.Flush()
	for {
		line, err := in.ReadString('\n')
		if err != nil {
			return
		}
		n, err := strconv.Atoi(strings.TrimSpace(line))
		if err != nil {
			return
		}
		ops := make([]string, n)
		for i := range ops {
			l, err := in.ReadString('\n')
			if err != nil {
				return
			}
			ops[i] = strings.TrimRight(l, "\n")
		}
		var outs []string
		func() {
			defer func() {
				if r := recover(); r != nil {
					msg := proto.Enc(fmt.Sprint(r))
					if len(msg) > 200 {
						msg = msg[:200]
					}
					outs = make([]string, n)
					for i := range outs {
						outs[i] = "panic " + msg
					}
				}
			}()
			outs = w.execGlue(ops)
		}()
		for _, o := range outs {
			fmt.Fprintln(out, o)
		}
		out.Flush()
	}
}

// ------------------------------------------------------------------ parent side

type glueClient struct {
	mu   sync.Mutex
	cmd  *exec.Cmd
	in   io.WriteCloser
	out  *bufio.Reader
	root string
}

var (
	glueOnce sync.Once
	glue     *glueClient
)

func getGlue() *glueClient {
	glueOnce.Do(func() {
		root, err := os.MkdirTemp("", "verif-c11-glue-")
		must(err)
		repo := os.Getenv("VERIF_REPO")
		if repo == "" {
			repo = "/repo"
		}
		def, err := os.ReadFile(filepath.Join(repo, "proxy", "metrics.yaml"))
		must(err)
		must(os.WriteFile(filepath.Join(root, "metrics-default.yaml"), def, 0o644))
		must(os.WriteFile(filepath.Join(root, "discovery.json"), []byte("{}"), 0o644))
		self, err := os.Executable()
		must(err)
		cmd := exec.Command(self)
		var env []string
		for _, e := range os.Environ() {
			if strings.HasPrefix(e, "HAPROXY_MANAGE_ENDPOINTS_PORT=") || strings.HasPrefix(e, "LUNAR_STREAMS_ENABLED=") {
				continue
			}
			env = append(env, e)
		}
		cmd.Env = append(env,
			glueChildEnv+"=1", glueRootEnv+"="+root,
			"LUNAR_STREAMS_ENABLED=false",
			"HAPROXY_MANAGE_ENDPOINTS_PORT="+freePort(),
			"LUNAR_HEALTHCHECK_PORT="+freePort(),
			"LUNAR_PROXY_POLICIES_CONFIG="+filepath.Join(root, "policies.yaml"),
			"LUNAR_PROXY_CONFIG_DIR="+root,
			"LUNAR_PROXY_METRICS_CONFIG="+filepath.Join(root, "metrics-user.yaml"),
			"LUNAR_PROXY_METRICS_CONFIG_DEFAULT="+filepath.Join(root, "metrics-default.yaml"),
			"DISCOVERY_STATE_LOCATION="+filepath.Join(root, "discovery.json"),
			"REMEDY_STATE_LOCATION="+filepath.Join(root, "remedy.json"),
			"LUNAR_FLOWS_PATH_PARAM_CONFIG="+filepath.Join(root, "gen-policies.yaml"),
			"LUNAR_HUB_URL=", "LUNAR_API_KEY=", "TENANT_NAME=verif",
			// the diagnosis fail-safe watcher is constructed by initializePolicies; it then sleeps on the frozen mock clock
			"DIAGNOSIS_FAILSAFE_MIN_SEC_BETWEEN_CALLS=30", "DIAGNOSIS_FAILSAFE_CONSECUTIVE_N=3",
			"DIAGNOSIS_FAILSAFE_MIN_STABLE_SEC=60", "DIAGNOSIS_FAILSAFE_COOLDOWN_SEC=60",
			"DIAGNOSIS_FAILSAFE_HEALTHY_SESSION_RATE=0", "DIAGNOSIS_FAILSAFE_HEALTHY_MAX_LAST_SESSION_SEC=30",
		)
		cmd.Dir = root
		cmd.Stderr = os.Stderr
		in, err := cmd.StdinPipe()
		must(err)
		outp, err := cmd.StdoutPipe()
		must(err)
		must(cmd.Start())
		g := &glueClient{cmd: cmd, in: in, out: bufio.NewReaderSize(outp, 1<<20), root: root}
		line, err := g.out.ReadString('\n')
		if err != nil || strings.TrimSpace(line) != "ready" {
			panic("c11 glue: child did not come up: " + line)
		}
		glue = g
	})
	return glue
}

func (g *glueClient) exec(ops []string) []string {
	g.mu.Lock()
	defer g.mu.Unlock()
	var b strings.Builder
	fmt.Fprintf(&b, "%d\n", len(ops))
	for _, o := range ops {
		b.WriteString(o)
		b.WriteByte('\n')
	}
	_, err := io.WriteString(g.in, b.String())
	must(err)
	outs := make([]string, len(ops))
	for i := range outs {
		l, err := g.out.ReadString('\n')
		if err != nil {
			panic("c11 glue: child died: " + err.Error())
		}
		outs[i] = strings.TrimRight(l, "\n")
	}
	return outs
}

func (g *glueClient) close() {
	g.in.Close()
	g.cmd.Wait()
	os.RemoveAll(g.root)
}

func closeGlue() {
	if glue != nil {
		glue.close()
	}
}

func isGlueCase(c proto.Case) bool {
	for _, op := range c.Ops {
		if strings.HasPrefix(op, "gcfg") {
			return true
		}
		if strings.HasPrefix(op, "cfg") {
			return false
		}
	}
	return false
}
