package main

// Level 2 ("glue") of the C11 harness: the REAL handler glue.  A child process (re-exec of this
// binary; the engine reads its environment at package init) holds ONE real
// routing.HandlingDataManager in POLICY mode (LUNAR_STREAMS_ENABLED=false) behind a fake HAProxy
// admin/health server, and is driven through
//   - routing.Handler(data) with SPOE `lunar-on-request` / `lunar-on-response` messages, and
//   - the real admin routes /apply_policies, /revert_to_last_loaded, /revert_to_diagnosis_free.
// Policies of label k are made observable on both paths ("lens"):
//   request  path: a global account_orchestration remedy sets header x-verif-version: v<k>; the value
//                  lives in the ACCOUNTS section (token of account `a`)
//   response path: a global retry remedy fires only on status 500+(k mod 10) and answers
//                  x-lunar-retry-after = 10+(k mod 10) for a new sequence (attempts 3, multiplier 1)
//   diagnosis leg: a global metrics_collector diagnosis (export: file) records request header
//                  x-dg-<k mod 10>; every request carries x-dg-0 … x-dg-9, so the record the real
//                  DiagnosisWorker exports (to the syslog connection, which the harness serves) shows
//                  which policies the worker resolved for that transaction.  `stall` holds the export
//                  writer's lock so that the worker blocks inside its current task and a backlog builds.
// so two labels with the same units digit differ in the accounts section only.
// The mock clock of the child never advances (retention/vacuum timing is level 1's subject); every
// case uses process-unique transaction ids, so a case's answers are a function of its op lines.

import (
	"bufio"
	"bytes"
	"encoding/json"
	"fmt"
	"io"
	"log"
	"net"
	"net/http"
	"net/http/httptest"
	"os"
	"os/exec"
	"path/filepath"
	"reflect"
	"sort"
	"strconv"
	"strings"
	"sync"
	"sync/atomic"
	"syscall"
	"time"
	"unsafe"

	"lunar/engine/routing"
	contextmanager "lunar/toolkit-core/context-manager"

	"github.com/negasus/haproxy-spoe-go/message"
	"github.com/negasus/haproxy-spoe-go/payload/kv"
	"github.com/negasus/haproxy-spoe-go/request"
	"github.com/rs/zerolog"

	"verif/harness/internal/proto"
)

const (
	glueNetnsEnv = "VERIF_C11_GLUE_NETNS"
	glueChildEnv = "VERIF_C11_GLUE_CHILD"
	glueRootEnv  = "VERIF_C11_GLUE_ROOT"
	lensAttempts = 3
)

func policiesYAML(label int64, valid bool) string {
	if !valid {
		// fails validation: a remedy without a known plugin type
		return "global:\n  remedies:\n    - name: broken\n      enabled: true\n      config: {}\n"
	}
	return fmt.Sprintf(`global:
  remedies:
    - name: verif-version
      enabled: true
      config:
        account_orchestration:
          round_robin: [a]
    - name: verif-retry
      enabled: true
      config:
        retry:
          attempts: %d
          initial_cooldown_seconds: %d
          cooldown_multiplier: 1
          conditions:
            status_code:
              - from: %d
                to: %d
  diagnosis:
    - name: verif-collect
      enabled: true
      export: file
      config:
        metrics_collector:
          request_header_names: [x-dg-%d]
exporters:
  file:
    file_dir: /tmp/verif-c11-export
    file_name: export.log
accounts:
  a:
    tokens:
      - header:
          name: x-verif-version
          value: v%d
`, lensAttempts, 10+label%10, 500+label%10, 500+label%10, label%10, label)
}

// ------------------------------------------------------------------ child side

type glueWorld struct {
	root    string
	srv     *httptest.Server
	rd      *routing.HandlingDataManager
	handler routing.MessageHandler
	serial  int
	stalled bool
	wmu     *sync.RWMutex // the export writer's own mutex (NetworkWriter.mutex)
	recMu   sync.Mutex
	records []diagRecord // exported diagnosis records, in arrival order
	seen    map[int64]bool // transactions whose request the diagnosis worker has stored (bookkeeping for waiting only)
	free    map[int64]bool // transactions first seen under diagnosis-free policies
	curFree bool           // the policies in force are the diagnosis-free variant
	expect  int            // records still expected by the next `diag`
}

var lostRecords atomic.Int32

type diagRecord struct {
	txn   string
	label string
}

// loopbackUp brings `lo` up in a fresh network namespace (SIOCGIFFLAGS / SIOCSIFFLAGS).
func loopbackUp() {
	fd, err := syscall.Socket(syscall.AF_INET, syscall.SOCK_DGRAM, 0)
	if err != nil {
		return
	}
	defer syscall.Close(fd)
	var ifr [40]byte
	copy(ifr[:], "lo")
	if _, _, e := syscall.Syscall(syscall.SYS_IOCTL, uintptr(fd), 0x8913, uintptr(unsafe.Pointer(&ifr[0]))); e != 0 {
		return
	}
	ifr[16] |= 0x1 // IFF_UP
	syscall.Syscall(syscall.SYS_IOCTL, uintptr(fd), 0x8914, uintptr(unsafe.Pointer(&ifr[0])))
}

func freePort() string {
	l, err := net.Listen("tcp", "127.0.0.1:0")
	if err != nil {
		panic(err)
	}
	defer l.Close()
	return fmt.Sprint(l.Addr().(*net.TCPAddr).Port)
}

func serveOK(port string) {
	h := http.HandlerFunc(func(w http.ResponseWriter, r *http.Request) {
		io.Copy(io.Discard, r.Body)
		w.WriteHeader(200)
		w.Write([]byte("OK"))
	})
	l, err := net.Listen("tcp", "127.0.0.1:"+port)
	if err != nil {
		panic(err)
	}
	go http.Serve(l, h)
	if l6, err := net.Listen("tcp", "[::1]:"+port); err == nil {
		go http.Serve(l6, h)
	}
}

// closes the response bodies the engine leaves open (one leaked connection per reload otherwise)
type bodyCloser struct{ rt http.RoundTripper }

func (t bodyCloser) RoundTrip(r *http.Request) (*http.Response, error) {
	resp, err := t.rt.RoundTrip(r)
	if err == nil && resp.Body != nil && !strings.HasPrefix(r.URL.Path, "/apply_policies") &&
		!strings.HasPrefix(r.URL.Path, "/revert_") {
		b, _ := io.ReadAll(resp.Body)
		resp.Body.Close()
		resp.Body = io.NopCloser(bytes.NewReader(b))
	}
	return resp, err
}

func newGlueWorld() *glueWorld {
	w := &glueWorld{root: os.Getenv(glueRootEnv)}
	// the syslog endpoint of the file exporter (writers.Dial): the harness is the server and reads the records
	// (the address is hard-coded in the engine; the child normally runs in its own network namespace, else it
	// waits for the port: another check's harness may hold it for a while)
	if os.Getenv(glueNetnsEnv) != "" {
		loopbackUp()
	}
	var sl net.Listener
	var err error
	for try := 0; ; try++ {
		if sl, err = net.Listen("tcp", "127.0.0.1:5140"); err == nil {
			break
		}
		inUse := strings.Contains(err.Error(), "address already in use")
		if (!inUse && try > 20) || try > 800 {
			// in our own namespace the port is free: anything else is a broken namespace - let the parent retry
			fmt.Fprintln(os.Stderr, "c11 glue child: cannot serve the export endpoint 127.0.0.1:5140:", err)
			os.Exit(4)
		}
		time.Sleep(100 * time.Millisecond)
	}
	go func() {
		for {
			c, err := sl.Accept()
			if err != nil {
				return
			}
			go w.readRecords(c)
		}
	}()
	http.DefaultClient.Transport = bodyCloser{http.DefaultTransport}
	serveOK(os.Getenv("HAPROXY_MANAGE_ENDPOINTS_PORT"))
	serveOK(os.Getenv("LUNAR_HEALTHCHECK_PORT"))
	// the accessor and the remedy plugins take their clock from the context manager: a mock clock
	// that is never advanced
	contextmanager.Get().SetMockClock().GetMockClock().Set(origin)
	must(os.WriteFile(os.Getenv("LUNAR_PROXY_POLICIES_CONFIG"), []byte(policiesYAML(0, true)), 0o644))
	w.rd = routing.NewHandlingDataManager(5*time.Second, nil)
	if err := w.rd.Setup(nil); err != nil {
		panic("c11 glue: engine set-up failed: " + err.Error())
	}
	mux := http.NewServeMux()
	w.rd.SetHandleRoutes(mux)
	w.srv = httptest.NewUnstartedServer(mux)
	w.srv.Config.ErrorLog = log.New(io.Discard, "", 0)
	w.srv.Start()
	w.handler = routing.Handler(w.rd)
	// the export writer's mutex (read-only peek; locked by `stall`)
	wr := peek(reflect.ValueOf(w.rd).Elem(), "writer").Elem() // interface -> *NetworkWriter
	if wr.Kind() != reflect.Ptr || wr.Elem().Kind() != reflect.Struct || !wr.Elem().FieldByName("mutex").IsValid() {
		panic("c11 glue: export writer is not a NetworkWriter (dial to 127.0.0.1:5140 failed?)")
	}
	w.wmu = peek(wr.Elem(), "mutex").Addr().Interface().(*sync.RWMutex)
	return w
}

// readRecords parses the exporter's lines: "<timestamp> <exporter> <json>\n".
func (w *glueWorld) readRecords(c net.Conn) {
	rd := bufio.NewReaderSize(c, 1<<16)
	for {
		line, err := rd.ReadString('\n')
		if len(line) > 0 {
			// "<timestamp> <exporter name> <json>"
			if i := strings.IndexByte(line, '{'); i >= 0 {
				payload := strings.TrimSpace(line[i:])
				var rec struct {
					NormalizedURL  string            `json:"normalized_url"`
					URL            string            `json:"url"`
					RequestHeaders map[string]string `json:"request_headers"`
				}
				if json.Unmarshal([]byte(payload), &rec) == nil {
					u := rec.NormalizedURL
					if u == "" {
						u = rec.URL
					}
					var names []string
					for k := range rec.RequestHeaders {
						if strings.HasPrefix(k, "x-dg-") {
							names = append(names, k[5:])
						}
					}
					sort.Strings(names)
					label := "none"
					if len(names) > 0 {
						label = strings.Join(names, "+")
					}
					w.recMu.Lock()
					w.records = append(w.records, diagRecord{txn: u, label: label})
					w.recMu.Unlock()
				}
			}
		}
		if err != nil {
			return
		}
	}
}

func (w *glueWorld) stall() {
	if !w.stalled {
		w.wmu.Lock()
		w.stalled = true
	}
}

func (w *glueWorld) unstall() {
	if w.stalled {
		w.wmu.Unlock()
		w.stalled = false
	}
}

// collect waits for the records of every response answered since the last collect and reports
// `<txn>:<label>` per record, ordered by transaction number (stable).
func (w *glueWorld) collect() string {
	time.Sleep(2 * time.Millisecond) // let the notifier goroutines reach the worker's queue
	w.unstall()
	prefix := fmt.Sprintf("c%d-t", w.serial)
	deadline := time.Now().Add(3 * time.Second)
	if lostRecords.Load() >= 3 {
		deadline = time.Now().Add(50 * time.Millisecond) // a tree that loses records: do not wait long again and again
	}
	for {
		n := 0
		w.recMu.Lock()
		for _, r := range w.records {
			if strings.HasPrefix(r.txn, prefix) {
				n++
			}
		}
		w.recMu.Unlock()
		if n >= w.expect {
			break
		}
		if time.Now().After(deadline) {
			lostRecords.Add(1)
			break
		}
		time.Sleep(100 * time.Microsecond)
	}
	w.recMu.Lock()
	recs := w.records
	w.records = nil
	w.recMu.Unlock()
	expect := w.expect
	w.expect = 0
	type item struct {
		n     int64
		label string
	}
	var items []item
	for _, r := range recs {
		host, _, _ := strings.Cut(r.txn, ".")
		if !strings.HasPrefix(host, prefix) {
			continue // a record of another case / an empty task
		}
		n, err := strconv.ParseInt(host[len(prefix):], 10, 64)
		if err != nil {
			continue
		}
		items = append(items, item{n, r.label})
	}
	sort.SliceStable(items, func(i, j int) bool { return items[i].n < items[j].n })
	var parts []string
	for _, it := range items {
		parts = append(parts, fmt.Sprintf("%d:%s", it.n, it.label))
	}
	out := "diag=none"
	if len(parts) > 0 {
		out = "diag=" + strings.Join(parts, ",")
	}
	if missing := expect - len(items); missing > 0 {
		out += fmt.Sprintf(" missing=%d", missing)
	}
	return out
}

func must(err error) {
	if err != nil {
		panic(err)
	}
}

func (w *glueWorld) post(path string) (int, string) {
	resp, err := http.Post(w.srv.URL+path, "text/plain", nil)
	must(err)
	b, _ := io.ReadAll(resp.Body)
	resp.Body.Close()
	return resp.StatusCode, string(b)
}

func (w *glueWorld) reload(label int64, valid bool) string {
	must(os.WriteFile(os.Getenv("LUNAR_PROXY_POLICIES_CONFIG"), []byte(policiesYAML(label, valid)), 0o644))
	if w.stalled {
		// the admin route first closes the export writer, which needs the lock `stall` holds: call what the
		// route calls next (same accessor method) directly
		if err := w.rd.GetTxnPoliciesAccessor().ReloadFromFile(); err != nil {
			return "err:rejected"
		}
		return "ok"
	}
	code, _ := w.post("/apply_policies")
	switch code {
	case 200:
		return "ok"
	case 422:
		return "err:rejected"
	}
	return "err:http" + strconv.Itoa(code)
}

func (w *glueWorld) txn(n int64) string { return fmt.Sprintf("c%d-t%d", w.serial, n) }

func headerIn(acts []struct {
	name string
	val  any
}, varName, header string) string {
	for _, a := range acts {
		if a.name != varName {
			continue
		}
		s, _ := a.val.(string)
		for _, l := range strings.Split(s, "\n") {
			if strings.HasPrefix(l, header+":") {
				return l[len(header)+1:]
			}
		}
	}
	return ""
}

func (w *glueWorld) spoe(name string, kvs *kv.KV) []struct {
	name string
	val  any
} {
	req := request.Request{Messages: &message.Messages{{Name: name, KV: kvs}}}
	w.handler(&req)
	var out []struct {
		name string
		val  any
	}
	for _, a := range req.Actions {
		out = append(out, struct {
			name string
			val  any
		}{a.Name, a.Value})
	}
	return out
}

var dgHeaders = func() string {
	var b strings.Builder
	for k := 0; k < 10; k++ {
		fmt.Fprintf(&b, "x-dg-%d: 1\r\n", k)
	}
	return b.String()
}()

func (w *glueWorld) request(id, seq int64) string {
	kvs := kv.NewKV()
	kvs.Add("id", w.txn(id))
	kvs.Add("sequence_id", w.txn(seq))
	kvs.Add("method", "GET")
	kvs.Add("scheme", "http")
	kvs.Add("url", w.txn(id)+".verif.example/x")
	kvs.Add("path", "/x")
	kvs.Add("query", "")
	kvs.Add("headers", dgHeaders)
	kvs.Add("body", []byte(""))
	acts := w.spoe("lunar-on-request", kvs)
	if _, ok := w.free[id]; !ok {
		w.free[id] = w.curFree
	}
	if !w.free[id] {
		w.seen[id] = true
	}
	v := headerIn(acts, "request_headers", "x-verif-version")
	if strings.HasPrefix(v, "v") {
		return "ver=" + v[1:]
	}
	return "ver=none"
}

func (w *glueWorld) response(id, seq, status int64) string {
	kvs := kv.NewKV()
	kvs.Add("id", w.txn(id))
	kvs.Add("sequence_id", w.txn(seq))
	kvs.Add("method", "GET")
	kvs.Add("url", w.txn(id)+".verif.example/x")
	kvs.Add("status", status)
	kvs.Add("headers", "")
	kvs.Add("body", []byte(""))
	acts := w.spoe("lunar-on-response", kvs)
	if _, ok := w.free[id]; !ok {
		w.free[id] = w.curFree
	}
	if w.seen[id] {
		w.expect++ // the diagnosis worker will export one record for this transaction
	}
	v := headerIn(acts, "response_headers", "x-lunar-retry-after")
	if v != "" {
		return "retry=" + v
	}
	return "retry=none"
}

// execGlue runs one glue case against the child's world.
func (w *glueWorld) execGlue(ops []string) []string {
	w.serial++
	w.seen = map[int64]bool{}
	w.free = map[int64]bool{}
	w.expect = 0
	w.recMu.Lock()
	w.records = nil
	w.recMu.Unlock()
	defer w.unstall()
	outs := make([]string, len(ops))
	ready := false
	for i, op := range ops {
		f := strings.Fields(op)
		outs[i] = "bad-op"
		if len(f) == 0 {
			continue
		}
		switch {
		case f[0] == "gcfg" && len(f) == 2:
			d0, ok := kvI(f[1:], "d0")
			if !ok || d0 >= 1000 {
				continue
			}
			// the case's initial policies: a reload (the manager is shared by all cases of this process)
			outs[i] = w.reload(d0, true)
			ready = outs[i] == "ok"
			w.curFree = false
		case f[0] == "req" && len(f) == 3 && ready:
			id, ok1 := kvI(f[1:2], "id")
			seq, ok2 := kvI(f[2:3], "seq")
			if ok1 && ok2 {
				outs[i] = w.request(id, seq)
			}
		case f[0] == "resp" && len(f) == 4 && ready:
			id, ok1 := kvI(f[1:2], "id")
			seq, ok2 := kvI(f[2:3], "seq")
			st, ok3 := kvI(f[3:4], "status")
			if ok1 && ok2 && ok3 && st < 1000 {
				outs[i] = w.response(id, seq, st)
			}
		case f[0] == "reload" && len(f) == 3 && ready:
			d, ok1 := kvI(f[1:2], "d")
			okn, ok2 := kvI(f[2:3], "ok")
			if ok1 && ok2 && okn <= 1 && d < 1000 {
				outs[i] = w.reload(d, okn == 1)
				if outs[i] == "ok" {
					w.curFree = false
				}
			}
		case f[0] == "stall" && len(f) == 1 && ready:
			w.stall()
			outs[i] = "ok"
		case f[0] == "unstall" && len(f) == 1 && ready:
			w.unstall()
			outs[i] = "ok"
		case f[0] == "diag" && len(f) == 1 && ready:
			outs[i] = w.collect()
		case f[0] == "revert" && len(f) == 2 && ready:
			kind, _ := proto.KV(f[1:], "kind")
			path := map[string]string{"last": "/revert_to_last_loaded", "free": "/revert_to_diagnosis_free"}[kind]
			if path == "" {
				continue
			}
			if w.stalled {
				var err error
				if kind == "last" {
					err = w.rd.GetTxnPoliciesAccessor().RevertToLastLoaded()
				} else {
					err = w.rd.GetTxnPoliciesAccessor().RevertToDiagnosisFree()
				}
				if err == nil {
					outs[i] = "ok"
				} else {
					outs[i] = "err:revert"
				}
			} else if code, _ := w.post(path); code == 200 {
				outs[i] = "ok"
			} else {
				outs[i] = "err:http" + strconv.Itoa(code)
			}
			if outs[i] == "ok" {
				w.curFree = kind == "free"
			}
		}
	}
	return outs
}

// glueChildMain: serve cases over stdin/stdout.  Request: "<n>\n" + n op lines; answer: n lines
// ("panic <msg>" lines when the implementation panicked).
func glueChildMain() {
	zerolog.SetGlobalLevel(zerolog.Disabled)
	in := bufio.NewReaderSize(os.Stdin, 1<<20)
	out := bufio.NewWriterSize(os.Stdout, 1<<20)
	w := newGlueWorld()
	fmt.Fprintln(out, "ready")
	out.Flush()
	for {
		line, err := in.ReadString('\n')
		if err != nil {
			return
		}
		n, err := strconv.Atoi(strings.TrimSpace(line))
		if err != nil {
			return
		}
		ops := make([]string, n)
		for i := range ops {
			l, err := in.ReadString('\n')
			if err != nil {
				return
			}
			ops[i] = strings.TrimRight(l, "\n")
		}
		var outs []string
		func() {
			defer func() {
				if r := recover(); r != nil {
					msg := proto.Enc(fmt.Sprint(r))
					if len(msg) > 200 {
						msg = msg[:200]
					}
					outs = make([]string, n)
					for i := range outs {
						outs[i] = "panic " + msg
					}
				}
			}()
			outs = w.execGlue(ops)
		}()
		for _, o := range outs {
			fmt.Fprintln(out, o)
		}
		out.Flush()
	}
}

// ------------------------------------------------------------------ parent side
//
// Robustness contract: a child that cannot be started, or that dies, is first of all an ENVIRONMENT
// problem (port held by another check, CPU starvation, namespace limits): it is restarted (bounded
// retries with back-off) and the case is run again on the fresh child.  Only a child that dies twice on
// the SAME case counts as the implementation taking the harness down (answers `panic …` for that case
// only; the next case gets a fresh child).  If no child can be brought up within the time budget the
// harness exits with status 3 (machinery failure, never a property verdict).

type glueClient struct {
	cmd    *exec.Cmd
	in     io.WriteCloser
	lines  chan string // stdout lines of the child; closed when the child's stdout ends
	root   string
	stderr *tailBuf
	netns  bool
}

// tailBuf keeps the last bytes the child wrote to stderr (shown when it dies).
type tailBuf struct {
	mu  sync.Mutex
	buf []byte
}

func (t *tailBuf) Write(p []byte) (int, error) {
	t.mu.Lock()
	t.buf = append(t.buf, p...)
	if len(t.buf) > 8192 {
		t.buf = t.buf[len(t.buf)-8192:]
	}
	t.mu.Unlock()
	return len(p), nil
}

func (t *tailBuf) String() string {
	t.mu.Lock()
	defer t.mu.Unlock()
	return string(t.buf)
}

var (
	glueMu       sync.Mutex
	glue         *glueClient
	glueNoNetns  bool // CLONE_NEWNET is not available here: do not try again
	glueRestarts int
)

const (
	glueStartBudget = 90 * time.Second  // total time to bring a child up (incl. waiting for port 5140 without netns)
	glueReadyWait   = 45 * time.Second  // one attempt
	glueCaseWait    = 120 * time.Second // one case on a live child (a stalled collect waits up to 3 s per diag)
)

func glueLog(format string, a ...any) {
	fmt.Fprintf(os.Stderr, "c11 glue: "+format+"\n", a...)
}

func startGlueChild(netns bool) (*glueClient, error) {
	root, err := os.MkdirTemp("", "verif-c11-glue-")
	if err != nil {
		return nil, err
	}
	fail := func(err error) (*glueClient, error) { os.RemoveAll(root); return nil, err }
	repo := os.Getenv("VERIF_REPO")
	if repo == "" {
		repo = "/repo"
	}
	def, err := os.ReadFile(filepath.Join(repo, "proxy", "metrics.yaml"))
	if err != nil {
		return fail(err)
	}
	if err := os.WriteFile(filepath.Join(root, "metrics-default.yaml"), def, 0o644); err != nil {
		return fail(err)
	}
	if err := os.WriteFile(filepath.Join(root, "discovery.json"), []byte("{}"), 0o644); err != nil {
		return fail(err)
	}
	self, err := os.Executable()
	if err != nil {
		return fail(err)
	}
	var env []string
	for _, e := range os.Environ() {
		if strings.HasPrefix(e, "HAPROXY_MANAGE_ENDPOINTS_PORT=") || strings.HasPrefix(e, "LUNAR_STREAMS_ENABLED=") {
			continue
		}
		env = append(env, e)
	}
	env = append(env,
		glueChildEnv+"=1", glueRootEnv+"="+root,
		"LUNAR_STREAMS_ENABLED=false",
		"HAPROXY_MANAGE_ENDPOINTS_PORT="+freePort(),
		"LUNAR_HEALTHCHECK_PORT="+freePort(),
		"LUNAR_PROXY_POLICIES_CONFIG="+filepath.Join(root, "policies.yaml"),
		"LUNAR_PROXY_CONFIG_DIR="+root,
		"LUNAR_PROXY_METRICS_CONFIG="+filepath.Join(root, "metrics-user.yaml"),
		"LUNAR_PROXY_METRICS_CONFIG_DEFAULT="+filepath.Join(root, "metrics-default.yaml"),
		"DISCOVERY_STATE_LOCATION="+filepath.Join(root, "discovery.json"),
		"REMEDY_STATE_LOCATION="+filepath.Join(root, "remedy.json"),
		"LUNAR_FLOWS_PATH_PARAM_CONFIG="+filepath.Join(root, "gen-policies.yaml"),
		"LUNAR_HUB_URL=", "LUNAR_API_KEY=", "TENANT_NAME=verif",
		// the diagnosis fail-safe watcher is constructed by initializePolicies; it then sleeps on the frozen mock clock
		"DIAGNOSIS_FAILSAFE_MIN_SEC_BETWEEN_CALLS=30", "DIAGNOSIS_FAILSAFE_CONSECUTIVE_N=3",
		"DIAGNOSIS_FAILSAFE_MIN_STABLE_SEC=60", "DIAGNOSIS_FAILSAFE_COOLDOWN_SEC=60",
		"DIAGNOSIS_FAILSAFE_HEALTHY_SESSION_RATE=0", "DIAGNOSIS_FAILSAFE_HEALTHY_MAX_LAST_SESSION_SEC=30",
	)
	cmd := exec.Command(self)
	cmd.Env = env
	if netns {
		// own network namespace: the engine's export endpoint 127.0.0.1:5140 is hard-coded and other checks'
		// harnesses listen on it too
		cmd.Env = append(cmd.Env, glueNetnsEnv+"=1")
		cmd.SysProcAttr = &syscall.SysProcAttr{Cloneflags: syscall.CLONE_NEWNET}
	}
	cmd.Dir = root
	tb := &tailBuf{}
	cmd.Stderr = tb
	in, err := cmd.StdinPipe()
	if err != nil {
		return fail(err)
	}
	outp, err := cmd.StdoutPipe()
	if err != nil {
		return fail(err)
	}
	if err := cmd.Start(); err != nil {
		return fail(fmt.Errorf("start (netns=%v): %w", netns, err))
	}
	g := &glueClient{cmd: cmd, in: in, lines: make(chan string, 4096), root: root, stderr: tb, netns: netns}
	go func() {
		rd := bufio.NewReaderSize(outp, 1<<20)
		for {
			l, err := rd.ReadString('\n')
			if len(l) > 0 && strings.HasSuffix(l, "\n") {
				g.lines <- strings.TrimRight(l, "\n")
			}
			if err != nil {
				close(g.lines)
				return
			}
		}
	}()
	select {
	case l, ok := <-g.lines:
		if ok && l == "ready" {
			return g, nil
		}
		g.kill()
		return nil, fmt.Errorf("child (netns=%v) ended before it was ready: %q; stderr: %s", netns, l, lastLines(tb.String(), 6))
	case <-time.After(glueReadyWait):
		g.kill()
		return nil, fmt.Errorf("child (netns=%v) not ready after %v; stderr: %s", netns, glueReadyWait, lastLines(tb.String(), 6))
	}
}

func lastLines(s string, n int) string {
	ls := strings.Split(strings.TrimSpace(s), "\n")
	if len(ls) > n {
		ls = ls[len(ls)-n:]
	}
	return strings.Join(ls, " | ")
}

func (g *glueClient) kill() {
	g.in.Close()
	if g.cmd.Process != nil {
		g.cmd.Process.Kill()
	}
	go func() {
		for range g.lines { // drain so that the reader goroutine can finish
		}
	}()
	g.cmd.Wait()
	os.RemoveAll(g.root)
}

// ensureGlue returns a live child, starting one if needed (bounded retries with back-off).
func ensureGlue() *glueClient {
	if glue != nil {
		return glue
	}
	if os.Getenv("VERIF_C11_NO_NETNS") != "" {
		glueNoNetns = true // testing aid: share the host's loopback (and its port 5140) with the other checks
	}
	deadline := time.Now().Add(glueStartBudget)
	backoff := 200 * time.Millisecond
	var lastErr error
	for attempt := 0; ; attempt++ {
		netns := !glueNoNetns && attempt%3 != 2 // every third attempt without the namespace
		g, err := startGlueChild(netns)
		if err == nil {
			glue = g
			return g
		}
		lastErr = err
		glueLog("cannot bring the glue child up (attempt %d): %v", attempt+1, err)
		if netns && (strings.Contains(err.Error(), "operation not permitted") || strings.Contains(err.Error(), "no space left")) {
			glueNoNetns = true
		}
		if time.Now().After(deadline) {
			break
		}
		time.Sleep(backoff)
		if backoff < 5*time.Second {
			backoff *= 2
		}
	}
	// an environment problem is never a property verdict: abort the harness (./check reports a machinery failure)
	glueLog("giving up: %v", lastErr)
	os.Exit(3)
	return nil
}

// run one case on the child; an error means the child died / hung (it has been killed).
func (g *glueClient) run(ops []string) ([]string, error) {
	var b strings.Builder
	fmt.Fprintf(&b, "%d\n", len(ops))
	for _, o := range ops {
		b.WriteString(o)
		b.WriteByte('\n')
	}
	if _, err := io.WriteString(g.in, b.String()); err != nil {
		return nil, fmt.Errorf("write to child: %w", err)
	}
	outs := make([]string, len(ops))
	timeout := time.After(glueCaseWait)
	for i := range outs {
		select {
		case l, ok := <-g.lines:
			if !ok {
				return nil, fmt.Errorf("child died after %d of %d answers", i, len(ops))
			}
			outs[i] = l
		case <-timeout:
			return nil, fmt.Errorf("child hung (%v) after %d of %d answers", glueCaseWait, i, len(ops))
		}
	}
	return outs, nil
}

// glueExec runs a glue case, restarting the child when it dies.
func glueExec(ops []string) []string {
	glueMu.Lock()
	defer glueMu.Unlock()
	var lastErr string
	for deaths := 0; deaths < 2; deaths++ {
		g := ensureGlue()
		outs, err := g.run(ops)
		if err == nil {
			return outs
		}
		lastErr = fmt.Sprintf("%v; stderr: %s", err, lastLines(g.stderr.String(), 8))
		glueLog("child lost while running a case (death %d on this case, restart %d): %s", deaths+1, glueRestarts+1, lastErr)
		g.kill()
		glue = nil
		glueRestarts++
		time.Sleep(300 * time.Millisecond)
	}
	// died twice on the same case: that is an observable of this case (and of this case only)
	msg := proto.Enc("c11 glue: child died twice on this case: " + lastErr)
	if len(msg) > 300 {
		msg = msg[:300]
	}
	outs := make([]string, len(ops))
	for i := range outs {
		outs[i] = "panic " + msg
	}
	return outs
}

func closeGlue() {
	glueMu.Lock()
	defer glueMu.Unlock()
	if glue != nil {
		glue.in.Close()
		done := make(chan struct{})
		go func() { glue.cmd.Wait(); close(done) }()
		select {
		case <-done:
		case <-time.After(5 * time.Second):
			glue.cmd.Process.Kill()
		}
		os.RemoveAll(glue.root)
		glue = nil
	}
}

func isGlueCase(c proto.Case) bool {
	for _, op := range c.Ops {
		if strings.HasPrefix(op, "gcfg") {
			return true
		}
		if strings.HasPrefix(op, "cfg") {
			return false
		}
	}
	return false
}
