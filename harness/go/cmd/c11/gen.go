package main

import (
	"fmt"

	"verif/harness/internal/prng"
	"verif/harness/internal/proto"
)

func cfgLine(d0 int) string {
	return fmt.Sprintf("cfg pinttl=%d verttl=%d tick=%d d0=%d", ttlNs, ttlNs, tickNs, d0)
}

// genState mirrors only what the generator needs to aim at boundaries: virtual time, the instants of
// first lookups and of updates.
type genState struct {
	now     int64
	marks   []int64 // instants whose +ttl neighbourhood is interesting (pins, supersessions)
	fresh   int
	budget  int64 // remaining virtual time (bounds the number of ticks per case)
	ops     []string
	dataMax int
	cur     int64 // label of the policies in force
}

var plainDurs = []int64{0, 1, 2, tickNs - 1, tickNs, tickNs + 1, 2 * tickNs, ttlNs - tickNs - 1, ttlNs - tickNs, ttlNs - tickNs + 1,
	ttlNs - 1, ttlNs, ttlNs + 1, ttlNs + tickNs - 1, ttlNs + tickNs, ttlNs + tickNs + 1, 1_000_000_000, 2_500_000_000, 7_000_000_000}

func (g *genState) advance(r *prng.R) {
	var d int64
	switch k := r.Intn(10); {
	case k < 4 && len(g.marks) > 0:
		// land exactly on / one ns around  mark + ttl (+ a whole number of ticks)
		m := prng.Pick(r, g.marks)
		target := m + ttlNs + int64(r.Range(-1, 1)) + int64(r.Intn(3))*tickNs*int64(r.Intn(2))
		d = target - g.now
		if d < 0 {
			d = prng.Pick(r, plainDurs)
		}
	case k < 8:
		d = prng.Pick(r, plainDurs)
	default:
		d = int64(r.Intn(12_000)) * 1_000_000
	}
	if d > g.budget {
		d = g.budget
	}
	g.budget -= d
	g.now += d
	g.ops = append(g.ops, fmt.Sprintf("advance d=%d", d))
}

func (g *genState) lookup(r *prng.R) {
	x := r.Intn(4)
	if r.Chance(20) {
		g.fresh++
		x = 100 + g.fresh
	}
	g.marks = append(g.marks, g.now)
	g.ops = append(g.ops, fmt.Sprintf("lookup x=%d", x))
}

// nextLabel: mostly a label that differs from the current policies in ONE section only
// (units global remedy, tens accounts, hundreds exporters, thousands diagnosis, ten-thousands endpoint),
// sometimes the identical label (re-applying the same file), sometimes an older label (revert).
func nextLabel(r *prng.R, cur int64, pool int) int64 {
	pow := []int64{1, 10, 100, 1000, 10000}
	set := func(l int64, sec int, v int64) int64 { return l - (l/pow[sec]%10)*pow[sec] + v*pow[sec] }
	switch k := r.Intn(100); {
	case k < 25:
		return set(cur, 1, int64(r.Intn(pool))) // accounts only (or identical)
	case k < 45:
		return set(cur, 0, int64(r.Intn(pool)))
	case k < 55:
		return set(cur, 2, int64(r.Intn(pool)))
	case k < 65:
		return set(cur, 3, int64(r.Intn(pool)))
	case k < 75:
		return set(cur, 4, int64(r.Intn(pool)))
	case k < 83:
		return cur
	default:
		return int64(r.Intn(pool)) + 10*int64(r.Intn(2))
	}
}

func (g *genState) update(r *prng.R) {
	ok := 1
	if r.Chance(12) {
		ok = 0
	}
	d := nextLabel(r, g.cur, g.dataMax)
	g.ops = append(g.ops, fmt.Sprintf("update d=%d ok=%d", d, ok))
	if ok == 1 {
		g.cur = d
		g.marks = append(g.marks, g.now)
	}
}

var junk = []string{"lookup", "lookup x=abc", "lookup x=1 y=2", "update d=1", "update d=x ok=1", "update d=1 ok=2",
	"advance", "advance d=-5", "advance d=1.5", "frobnicate", "stat now", "cfg pinttl=1", "cfg pinttl=1 verttl=1 tick=0 d0=1"}

func randomCase(r *prng.R, id string) proto.Case {
	g := &genState{budget: 160_000_000_000, dataMax: r.Range(2, 5)}
	malformed := r.Chance(6)
	if malformed && r.Chance(30) {
		g.ops = append(g.ops, "lookup x=1", "stat") // ops before cfg
	}
	g.cur = int64(r.Intn(g.dataMax))
	g.ops = append(g.ops, cfgLine(int(g.cur)))
	n := r.Range(4, 30)
	for len(g.ops) < n {
		switch k := r.Intn(100); {
		case malformed && k < 10:
			g.ops = append(g.ops, prng.Pick(r, junk))
		case k < 8:
			// a reload lands while this (mostly new) transaction is being anchored
			x := r.Intn(4)
			if r.Chance(60) {
				g.fresh++
				x = 100 + g.fresh
			}
			d := nextLabel(r, g.cur, g.dataMax)
			g.marks = append(g.marks, g.now)
			g.ops = append(g.ops, fmt.Sprintf("lookupu x=%d d=%d", x, d))
			g.cur = d
		case k < 42:
			g.lookup(r)
		case k < 62:
			g.update(r)
		case k < 92:
			g.advance(r)
		default:
			g.ops = append(g.ops, "stat")
		}
	}
	g.ops = append(g.ops, "stat")
	return proto.Case{ID: id, Ops: g.ops}
}

// directedCase: pin, supersede, go to the boundary of the retention period, look again.
func directedCase(r *prng.R, id string) proto.Case {
	g := &genState{budget: 200_000_000_000, dataMax: 4}
	g.ops = append(g.ops, cfgLine(0))
	pre := []int64{0, 1, tickNs - 1, tickNs, 3_000_000_000}
	if r.Bool() { // start the versions vacuum at another phase than the pins vacuum
		g.ops = append(g.ops, "update d=1 ok=1", fmt.Sprintf("advance d=%d", prng.Pick(r, pre)))
	}
	if r.Bool() {
		g.ops = append(g.ops, "lookup x=9", fmt.Sprintf("advance d=%d", prng.Pick(r, pre)))
	}
	if r.Chance(25) {
		g.ops = append(g.ops, fmt.Sprintf("lookupu x=0 d=%d", r.Range(1, 3)*prng.Pick(r, []int{1, 10})))
	} else {
		g.ops = append(g.ops, "lookup x=0")
	}
	gap := prng.Pick(r, []int64{0, 1, tickNs, 12_000_000_000})
	g.ops = append(g.ops, fmt.Sprintf("advance d=%d", gap), fmt.Sprintf("update d=%d ok=1", r.Range(1, 3)*prng.Pick(r, []int{1, 1, 10, 100})))
	if r.Bool() {
		g.ops = append(g.ops, "lookup x=1", fmt.Sprintf("update d=%d ok=1", r.Range(0, 3)))
	}
	delta := int64(r.Range(-2, 2))
	base := prng.Pick(r, []int64{ttlNs, ttlNs, ttlNs + gap, ttlNs + tickNs, ttlNs - tickNs})
	rest := base - gap + delta
	if rest < 0 {
		rest = 0
	}
	g.ops = append(g.ops, fmt.Sprintf("advance d=%d", rest), "lookup x=0", "lookup x=1", "stat")
	for k := r.Intn(4); k > 0; k-- {
		g.ops = append(g.ops, fmt.Sprintf("advance d=%d", prng.Pick(r, []int64{0, 1, 2, tickNs - 1, tickNs, tickNs + 1})), "lookup x=0", "stat")
	}
	return proto.Case{ID: id, Ops: g.ops}
}

func gen(r *prng.R, f proto.Flags, emit func(proto.Case)) {
	n := 1500
	if f.Tier == "thorough" {
		n = 12000
	}
	n *= f.Budget
	var cases []proto.Case
	for k := 0; k < n; k++ {
		rr := r.Fork()
		if k%4 == 3 {
			cases = append(cases, directedCase(rr, fmt.Sprintf("d%d", k)))
		} else {
			cases = append(cases, randomCase(rr, fmt.Sprintf("g%d", k)))
		}
	}
	if f.Tier == "thorough" {
		// every op sequence of length 1..5 over an 8-letter alphabet (update d=10 changes the accounts section only), then observe both transactions
		alpha := []string{"lookup x=0", "lookup x=1", "update d=1 ok=1", "update d=10 ok=1", "advance d=1",
			fmt.Sprintf("advance d=%d", tickNs), fmt.Sprintf("advance d=%d", ttlNs), fmt.Sprintf("advance d=%d", ttlNs+1)}
		id := 0
		var rec func(prefix []string, depth int)
		rec = func(prefix []string, depth int) {
			if len(prefix) > 0 {
				ops := append([]string{cfgLine(0)}, prefix...)
				ops = append(ops, "lookup x=0", "lookup x=1", "stat")
				id++
				cases = append(cases, proto.Case{ID: fmt.Sprintf("e%d", id), Ops: ops})
			}
			if depth == 0 {
				return
			}
			for _, a := range alpha {
				rec(append(append([]string{}, prefix...), a), depth-1)
			}
		}
		rec(nil, 5)
		// ... and every sequence of length exactly 6 over a 5-letter alphabet
		alpha = []string{"lookup x=0", "update d=1 ok=1", "advance d=1",
			fmt.Sprintf("advance d=%d", tickNs), fmt.Sprintf("advance d=%d", ttlNs)}
		var rec6 func(prefix []string)
		rec6 = func(prefix []string) {
			if len(prefix) == 6 {
				ops := append([]string{cfgLine(0)}, prefix...)
				ops = append(ops, "lookup x=0", "lookup x=1", "stat")
				id++
				cases = append(cases, proto.Case{ID: fmt.Sprintf("e%d", id), Ops: ops})
				return
			}
			for _, a := range alpha {
				rec6(append(append([]string{}, prefix...), a))
			}
		}
		rec6(nil)
		// ... and every sequence of length 1..4 with reloads landing while a transaction is being anchored
		alpha = []string{"lookupu x=0 d=1", "lookupu x=1 d=10", "lookup x=0", "update d=2 ok=1", fmt.Sprintf("advance d=%d", ttlNs)}
		rec(nil, 4)
	}
	// level 2 (glue) cases are executed by the framework's Exec directly (one child process, sequential)
	gn := 500
	if f.Tier == "thorough" {
		gn = 5000
	}
	gn *= f.Budget
	var glueCases []proto.Case
	for k := 0; k < gn; k++ {
		glueCases = append(glueCases, glueCase(r.Fork(), fmt.Sprintf("gg%d", k)))
	}
	if f.Tier == "thorough" {
		glueEnum(4, func(c proto.Case) { glueCases = append(glueCases, c) })
	} else {
		glueEnum(3, func(c proto.Case) { glueCases = append(glueCases, c) })
	}
	defer func() {
		for _, c := range glueCases {
			emit(c)
		}
	}()
	// execute in chunks on parallel workers, then hand the cases to the framework in order
	const chunk = 600
	for i := 0; i < len(cases); i += chunk {
		j := i + chunk
		if j > len(cases) {
			j = len(cases)
		}
		runParallel(cases[i:j])
		for _, c := range cases[i:j] {
			emit(c)
		}
	}
}
