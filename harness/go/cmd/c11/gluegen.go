package main

import (
	"fmt"
	"strings"

	"verif/harness/internal/prng"
	"verif/harness/internal/proto"
)

type glueTxn struct {
	id, seq int
	label   int // policies in force when the transaction was first seen (generator's own bookkeeping)
	done    bool
}

// glueCase: sequences of attempts (first attempt id = sequence id, retried attempts id != sequence id)
// with reloads / reverts between request and response and between attempts.
func glueCase(r *prng.R, id string) proto.Case {
	labels := r.Range(2, 5)
	// label = 10*a + k: k selects the remedies (retry status 500+k), a ONLY the accounts section (token value)
	cur := r.Intn(labels) + 10*r.Intn(2)
	ops := []string{fmt.Sprintf("gcfg d0=%d", cur)}
	malformed := r.Chance(5)
	var open []*glueTxn // requests seen, response pending
	var seqs []int      // sequence ids started
	next := 0
	n := r.Range(4, 28)
	stalled := r.Chance(50) // half of the cases: the worker is stalled from the start, everything queues up
	if stalled {
		ops = append(ops, "stall")
	}
	status := func(t *glueTxn) int {
		switch k := r.Intn(100); {
		case k < 65:
			return 500 + t.label%10 // fires iff the response is processed with the transaction's own version
		case k < 85:
			return 500 + cur%10 // fires iff it is processed with the current version
		case k < 93:
			return 500 + r.Intn(labels)
		default:
			return prng.Pick(r, []int{200, 404, 499, 500 + labels})
		}
	}
	for len(ops) < n {
		switch k := r.Intn(100); {
		case malformed && k < 8:
			ops = append(ops, prng.Pick(r, []string{"req id=1", "resp id=1 seq=1", "resp id=1 seq=1 status=x", "reload d=1",
				"reload d=1 ok=7", "revert kind=sideways", "revert", "gcfg", "req id=a seq=1", "resp id=1 seq=1 status=5000"}))
		case k < 22: // first attempt of a new sequence
			next++
			t := &glueTxn{id: next, seq: next, label: cur}
			open = append(open, t)
			seqs = append(seqs, next)
			ops = append(ops, fmt.Sprintf("req id=%d seq=%d", t.id, t.seq))
		case k < 40 && len(seqs) > 0: // retried attempt of an existing sequence
			next++
			t := &glueTxn{id: next, seq: prng.Pick(r, seqs), label: cur}
			open = append(open, t)
			ops = append(ops, fmt.Sprintf("req id=%d seq=%d", t.id, t.seq))
		case k < 72 && len(open) > 0: // a pending response arrives
			i := r.Intn(len(open))
			t := open[i]
			ops = append(ops, fmt.Sprintf("resp id=%d seq=%d status=%d", t.id, t.seq, status(t)))
			if !r.Chance(8) { // rarely a second response for the same transaction
				open = append(open[:i], open[i+1:]...)
			}
		case k < 76: // a response whose request was never seen
			next++
			t := &glueTxn{id: next, seq: next, label: cur}
			if len(seqs) > 0 && r.Bool() {
				t.seq = prng.Pick(r, seqs)
			}
			ops = append(ops, fmt.Sprintf("resp id=%d seq=%d status=%d", t.id, t.seq, status(t)))
		case k < 92:
			okv := 1
			if r.Chance(10) {
				okv = 0
			}
			var d int
			switch q := r.Intn(100); {
			case q < 35: // only the accounts section changes (an operator rotating a key)
				d = cur%10 + 10*((cur/10+1+r.Intn(3))%4)
			case q < 70: // only the remedies change
				d = cur/10*10 + r.Intn(labels)
			case q < 80: // the same file again
				d = cur
			default:
				d = r.Intn(labels) + 10*r.Intn(4)
			}
			ops = append(ops, fmt.Sprintf("reload d=%d ok=%d", d, okv))
			if okv == 1 {
				cur = d
			}
		case k < 95:
			ops = append(ops, "revert kind="+prng.Pick(r, []string{"last", "free"}))
		case k < 98:
			// the diagnosis worker's exporter stalls / is writable again: a backlog builds while stalled
			if stalled {
				ops = append(ops, "unstall")
			} else {
				ops = append(ops, "stall")
			}
			stalled = !stalled
		default:
			ops = append(ops, "diag")
			stalled = false
		}
	}
	// drain: answer everything that is still pending, then let the diagnosis worker finish
	for _, t := range open {
		ops = append(ops, fmt.Sprintf("resp id=%d seq=%d status=%d", t.id, t.seq, status(t)))
	}
	ops = append(ops, "diag")
	return proto.Case{ID: id, Ops: ops}
}

// glueEnum: every sequence of length `depth` over a small alphabet around ONE retried sequence:
// first attempt (id 1 = seq 1), retried attempt (id 2, seq 1), reloads to label 1 / back to 0 / to 10
// (label 10 differs from 0 in the accounts section only).
func glueEnum(depth int, emit func(proto.Case)) {
	alpha := []string{"req id=1 seq=1", "resp id=1 seq=1 status=500", "resp id=1 seq=1 status=501",
		"req id=2 seq=1", "resp id=2 seq=1 status=500", "resp id=2 seq=1 status=501", "reload d=1 ok=1", "reload d=0 ok=1", "reload d=10 ok=1"}
	id := 0
	var rec func(prefix []string)
	rec = func(prefix []string) {
		if len(prefix) == depth {
			// a request that arrives AFTER a response of the same transaction id makes the diagnosis record depend on
			// when the worker gets to the task (it reads its cache at that moment): not a deterministic observable
			for _, t := range []string{"id=1 ", "id=2 "} {
				respFirst := false
				for _, op := range prefix {
					if strings.HasPrefix(op, "resp "+t) {
						respFirst = true
					}
					if strings.HasPrefix(op, "req "+t) {
						if respFirst {
							return
						}
						break
					}
				}
			}
			id++
			ops := append([]string{"gcfg d0=0"}, prefix...)
			if id%2 == 0 { // every other sequence with the diagnosis worker stalled until the end
				ops = append([]string{"gcfg d0=0", "stall"}, prefix...)
			}
			emit(proto.Case{ID: fmt.Sprintf("ge%d", id), Ops: append(ops, "diag")})
			return
		}
		for _, a := range alpha {
			rec(append(append([]string{}, prefix...), a))
		}
	}
	rec(nil)
}

func classifyGlue(c proto.Case, outs []string, o *proto.Out) {
	cur := int64(-1)
	first := map[string]int64{}  // txn id -> label in force at its first event
	seqAt := map[string]int64{}  // sequence id -> number of applied reloads when first seen
	reloads := int64(0)
	nontriv := false
	for i, op := range c.Ops {
		f := strings.Fields(op)
		if outs[i] == "bad-op" {
			o.Count("glue-bad-op")
			continue
		}
		if strings.HasPrefix(outs[i], "panic") || len(f) == 0 {
			continue
		}
		switch f[0] {
		case "gcfg":
			cur, _ = kvI(f, "d0")
		case "reload":
			if outs[i] == "ok" {
				cur, _ = kvI(f, "d")
				reloads++
				o.Count("glue-reload-applied")
			} else {
				o.Count("glue-reload-rejected")
			}
		case "revert":
			o.Count("glue-revert")
		case "stall":
			o.Count("glue-stall")
		case "diag":
			if outs[i] != "diag=none" {
				for _, item := range strings.Split(strings.TrimPrefix(strings.Fields(outs[i])[0], "diag="), ",") {
					idl := strings.SplitN(item, ":", 2)
					if len(idl) == 2 && first[idl[0]] != cur {
						o.Count("glue-diag-record-of-txn-pinned-to-older-policies")
						nontriv = true
					} else {
						o.Count("glue-diag-record")
					}
				}
			}
		case "req", "resp":
			id, _ := proto.KV(f, "id")
			seq, _ := proto.KV(f, "seq")
			retried := id != seq
			if _, ok := first[id]; !ok {
				first[id] = cur
			}
			if _, ok := seqAt[seq]; !ok {
				seqAt[seq] = reloads
			}
			kind := "new"
			if retried {
				kind = "retried"
			}
			if f[0] == "req" {
				o.Count("glue-req-" + kind)
				continue
			}
			stale := first[id] != cur
			fired := outs[i] != "retry=none"
			tag := "glue-resp-" + kind
			if stale {
				tag += "-pinned-to-older-policies"
			}
			if fired {
				tag += "-retry-fired"
			}
			o.Count(tag)
			if stale || (retried && reloads > seqAt[seq]) {
				nontriv = true
			}
		}
	}
	if nontriv {
		o.NonTrivial(strings.Join(c.Ops, "|") + "#" + strings.Join(outs, "|"))
	}
}
