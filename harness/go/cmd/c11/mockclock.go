package main

// Peeks into unexported state (read-only except installHookClock below), used only to (1) know when the vacuum goroutines are parked
// and where their next timer deadlines are (MockClock.timers), and (2) report the sizes of the
// accessor's maps and vacuum queues for the `stat` op.  Nothing is ever written through these.

import (
	"fmt"
	"reflect"
	"sync"
	"time"
	"unsafe"

	"lunar/engine/config"
	"lunar/toolkit-core/clock"
)

// exported view of an unexported field (addressable parent required)
func peek(v reflect.Value, name string) reflect.Value {
	f := v.FieldByName(name)
	if !f.IsValid() {
		panic("harness: field " + name + " not found in " + v.Type().String())
	}
	return reflect.NewAt(f.Type(), unsafe.Pointer(f.UnsafeAddr())).Elem()
}

func withClockLock(mc *clock.MockClock, fn func(timers reflect.Value)) {
	v := reflect.ValueOf(mc).Elem()
	mu := peek(v, "mu").Addr().Interface().(*sync.RWMutex)
	mu.RLock()
	defer mu.RUnlock()
	fn(peek(v, "timers"))
}

func pendingTimers(mc *clock.MockClock) int {
	n := 0
	withClockLock(mc, func(t reflect.Value) { n = t.Len() })
	return n
}

// nextDeadline returns the earliest registered timer deadline.
func nextDeadline(mc *clock.MockClock) (time.Time, bool) {
	var best time.Time
	found := false
	withClockLock(mc, func(t reflect.Value) {
		for i := 0; i < t.Len(); i++ {
			tm, ok := t.Index(i).Interface().(interface{ Next() time.Time })
			if !ok {
				continue
			}
			n := tm.Next()
			if !found || n.Before(best) {
				best, found = n, true
			}
		}
	})
	return best, found
}

// stat reports map and queue sizes at quiescence (under the accessor's own locks).
func stat(acc *config.TxnPoliciesAccessor) string {
	v := reflect.ValueOf(acc).Elem()
	mapMu := peek(v, "mutex").Interface().(*sync.RWMutex)
	mapMu.RLock()
	pins := peek(v, "txnVersions").Len()
	vers := peek(v, "policiesVersions").Len()
	mapMu.RUnlock()
	qlen := func(field string) int {
		vac := peek(v, field).Elem() // *MapVacuum -> MapVacuum
		mu := peek(vac, "entriesMutex").Interface().(*sync.RWMutex)
		mu.RLock()
		defer mu.RUnlock()
		return peek(vac, "entries").Len()
	}
	return fmt.Sprintf("pins=%d vers=%d pinq=%d verq=%d", pins, vers, qlen("txnVersionsVacuum"), qlen("policiesVersionsVacuum"))
}

// activeVacuums counts the vacuums whose background goroutine has been started.
func activeVacuums(acc *config.TxnPoliciesAccessor) int {
	v := reflect.ValueOf(acc).Elem()
	n := 0
	for _, field := range []string{"txnVersionsVacuum", "policiesVersionsVacuum"} {
		vac := peek(v, field).Elem()
		mu := peek(vac, "entriesMutex").Interface().(*sync.RWMutex)
		mu.RLock()
		if peek(vac, "active").Bool() {
			n++
		}
		mu.RUnlock()
	}
	return n
}

// hookClock wraps the clock of the TRANSACTIONS vacuum.  MapVacuum.VacuumKey reads the clock after
// setTxnVersion has written the anchor and released the accessor mutex and before setTxnVersion returns:
// an armed hook runs there, on the caller's goroutine - a deterministic way to let a reload complete
// exactly "while a new transaction is being anchored".
type hookClock struct {
	inner clock.Clock
	mu    sync.Mutex
	hook  func()
}

func (h *hookClock) fire() {
	h.mu.Lock()
	f := h.hook
	h.hook = nil
	h.mu.Unlock()
	if f != nil {
		f()
	}
}

func (h *hookClock) arm(f func()) {
	h.mu.Lock()
	h.hook = f
	h.mu.Unlock()
}

// disarm returns true if the hook was still armed (it did not fire).
func (h *hookClock) disarm() bool {
	h.mu.Lock()
	defer h.mu.Unlock()
	armed := h.hook != nil
	h.hook = nil
	return armed
}

func (h *hookClock) Now() time.Time                         { h.fire(); return h.inner.Now() }
func (h *hookClock) Sleep(d time.Duration)                  { h.inner.Sleep(d) }
func (h *hookClock) After(d time.Duration) <-chan time.Time { return h.inner.After(d) }
func (h *hookClock) Since(t time.Time) time.Duration        { return h.inner.Since(t) }
func (h *hookClock) Until(t time.Time) time.Duration        { return h.inner.Until(t) }

// installHookClock replaces the clock field of the accessor's transactions vacuum (the only write the
// harness ever makes into the implementation's private state; done once, right after construction).
func installHookClock(acc *config.TxnPoliciesAccessor) *hookClock {
	vac := peek(reflect.ValueOf(acc).Elem(), "txnVersionsVacuum").Elem()
	f := peek(vac, "clock")
	h := &hookClock{inner: f.Interface().(clock.Clock)}
	f.Set(reflect.ValueOf(clock.Clock(h)))
	return h
}
