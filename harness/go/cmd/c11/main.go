// Harness for C11: drives the real config.TxnPoliciesAccessor (GetTxnPoliciesData /
// UpdatePoliciesData) and its two real vacuum goroutines on the repo's MockClock.
//
// Determinism: the vacuum goroutines sleep on MockClock timers.  The harness advances the clock
// from timer deadline to timer deadline (deadlines are read from the MockClock, see mockclock.go)
// and, after every step that can wake or start a goroutine, waits until every started vacuum
// goroutine has registered its next timer again (= it has finished vacuum() and parked).  All
// answers are taken at quiescence.
package main

import (
	"fmt"
	"os"
	"runtime"
	"strconv"
	"strings"
	"sync"
	"sync/atomic"
	"syscall"
	"time"

	"lunar/engine/config"
	sharedConfig "lunar/shared-model/config"
	"lunar/toolkit-core/clock"
	contextmanager "lunar/toolkit-core/context-manager"

	"github.com/rs/zerolog"

	"verif/harness/internal/proto"
)

const rule = "level 1: histories of lookup/update/advance/stat on one accessor with both vacuum goroutines live; " +
	"non-trivial = some transaction is looked up again after at least one applied update that followed its first lookup. " +
	"level 2 (glue): request/response SPOE messages (new and retried attempts) + reloads/reverts through the real handler and admin routes; " +
	"non-trivial = a response whose transaction was first seen under other policies than the current ones, or a retried attempt " +
	"(id != sequence_id) answered after a reload that followed the sequence's first attempt. distinct by (ops, answers)"

const (
	ttlNs  = int64(30 * time.Second) // staleVersionTTL as assumed by the generator (stated in the cfg op line)
	tickNs = int64(5 * time.Second)  // vacuumTick
)

var origin = time.Unix(1_700_000_000, 0)

// construction reads the clock from the global context manager: serialise it.
var ctorMu sync.Mutex

var stuckCases atomic.Int32

// policies builds the PoliciesData of a label.  The label's decimal digits select the content of
// INDEPENDENT sections, so that an update can differ from the current policies in one section only:
//   units: global remedy   tens: accounts (token value)   hundreds: exporters (file name)
//   thousands: global diagnosis   ten-thousands: endpoint remedy   rest: global remedy as well
// Everything is disabled/inert (no HAProxy call); `enabled` adds one enabled endpoint remedy.
func policies(label int64, enabled bool) *config.PoliciesData {
	var c sharedConfig.PoliciesConfig
	g, a, e, dg, ep, hi := label%10, label/10%10, label/100%10, label/1000%10, label/10000%10, label/100000
	c.Global.Remedies = []sharedConfig.Remedy{{Enabled: false, Name: fmt.Sprintf("g%dh%d", g, hi)}}
	c.Global.Diagnosis = []sharedConfig.Diagnosis{{Enabled: false, Name: fmt.Sprintf("dg%d", dg), Export: "file"}}
	c.Accounts = map[sharedConfig.AccountID]sharedConfig.Account{
		"acct": {Tokens: []sharedConfig.Token{{Header: &sharedConfig.Header{Name: "x-api-key", Value: fmt.Sprintf("k%d", a)}}}}}
	c.Exporters.File = &sharedConfig.FileExporterConfig{FileDir: "/tmp/verif-c11", FileName: fmt.Sprintf("e%d", e)}
	c.Endpoints = []sharedConfig.EndpointConfig{{URL: "verif.example/ep", Method: "GET",
		Remedies: []sharedConfig.Remedy{{Enabled: false, Name: fmt.Sprintf("ep%d", ep)}}}}
	if enabled {
		// an enabled endpoint remedy makes UpdatePoliciesData talk to HAProxy's admin port (closed here)
		c.Endpoints = append(c.Endpoints, sharedConfig.EndpointConfig{URL: "verif.example/x", Method: "GET",
			Remedies: []sharedConfig.Remedy{{Enabled: true, Name: "r"}}})
	}
	return &config.PoliciesData{Config: c}
}

// labelOf reads the label back from the CONTENT of every section of the policies handed out.
func labelOf(p *config.PoliciesData) string {
	if p == nil {
		return "nil"
	}
	c := &p.Config
	var g, a, e, dg, ep, hi int64
	if len(c.Global.Remedies) != 1 || len(c.Global.Diagnosis) != 1 || len(c.Endpoints) < 1 ||
		len(c.Endpoints[0].Remedies) != 1 || c.Exporters.File == nil {
		return "none" // the empty &PoliciesData{}
	}
	acct, ok := c.Accounts["acct"]
	if !ok || len(acct.Tokens) != 1 || acct.Tokens[0].Header == nil {
		return "none"
	}
	n := 0
	if k, _ := fmt.Sscanf(c.Global.Remedies[0].Name, "g%dh%d", &g, &hi); k == 2 {
		n++
	}
	if k, _ := fmt.Sscanf(acct.Tokens[0].Header.Value, "k%d", &a); k == 1 {
		n++
	}
	if k, _ := fmt.Sscanf(c.Exporters.File.FileName, "e%d", &e); k == 1 {
		n++
	}
	if k, _ := fmt.Sscanf(c.Global.Diagnosis[0].Name, "dg%d", &dg); k == 1 {
		n++
	}
	if k, _ := fmt.Sscanf(c.Endpoints[0].Remedies[0].Name, "ep%d", &ep); k == 1 {
		n++
	}
	if n != 5 {
		return "none"
	}
	return strconv.FormatInt(g+10*a+100*e+1000*dg+10000*ep+100000*hi, 10)
}

type world struct {
	hc       *hookClock
	mc       *clock.MockClock
	acc      *config.TxnPoliciesAccessor
	stuck    bool
}

func newWorld(d0 int64) *world {
	ctorMu.Lock()
	defer ctorMu.Unlock()
	mc := contextmanager.Get().SetMockClock().GetMockClock()
	mc.Set(origin)
	acc := config.NewTxnPoliciesAccessor(policies(d0, false))
	w := &world{mc: mc, acc: &acc}
	w.hc = installHookClock(w.acc)
	return w
}

func (w *world) nowNs() int64 { return int64(w.mc.Now().Sub(origin)) }

// quiesce waits until every started vacuum goroutine is parked on a timer.
func (w *world) quiesce() {
	// a goroutine that never parks only happens on a broken tree: the answers are then flagged
	// (`vacuum-goroutine-not-parked`) and, after a few such cases, the wait is cut short.
	if w.stuck {
		return
	}
	limit := 2 * time.Second
	if stuckCases.Load() >= 3 {
		limit = 20 * time.Millisecond
	}
	start := time.Now()
	for i := 0; ; i++ {
		// every vacuum whose goroutine has been started (its `active` flag) must be parked on a timer
		if pendingTimers(w.mc) == activeVacuums(w.acc) {
			return
		}
		if time.Since(start) > limit {
			if !w.stuck {
				stuckCases.Add(1)
			}
			w.stuck = true
			return
		}
		if i < 200 {
			runtime.Gosched()
		} else {
			time.Sleep(50 * time.Microsecond)
		}
	}
}

func (w *world) advance(d int64) {
	target := w.mc.Now().Add(time.Duration(d))
	for guard := 0; guard < 1_000_000; guard++ {
		dl, ok := nextDeadline(w.mc)
		if !ok || dl.After(target) {
			break
		}
		// fire exactly the timers due at dl; the clock then stands at dl while the goroutines vacuum
		w.mc.AdvanceTime(dl.Sub(w.mc.Now()))
		w.quiesce()
		if w.stuck {
			break
		}
	}
	if rest := target.Sub(w.mc.Now()); rest > 0 {
		w.mc.AdvanceTime(rest)
		w.quiesce()
	}
}

func kvI(w []string, k string) (int64, bool) {
	s, ok := proto.KV(w, k)
	if !ok {
		return 0, false
	}
	n, err := strconv.ParseUint(s, 10, 62)
	if err != nil {
		return 0, false
	}
	return int64(n), true
}

func execCase(c proto.Case) []string {
	outs := make([]string, len(c.Ops))
	var w *world
	for i, op := range c.Ops {
		f := strings.Fields(op)
		outs[i] = "bad-op"
		if len(f) == 0 {
			continue
		}
		switch {
		case f[0] == "cfg":
			p, ok1 := kvI(f, "pinttl")
			v, ok2 := kvI(f, "verttl")
			tk, ok3 := kvI(f, "tick")
			d0, ok4 := kvI(f, "d0")
			if !(ok1 && ok2 && ok3 && ok4) || tk == 0 {
				continue
			}
			_, _ = p, v // the real constants cannot be set from outside; the op line states the assumption
			w = newWorld(d0)
			outs[i] = "ok"
		case f[0] == "lookup" && len(f) == 2 && w != nil:
			x, ok := kvI(f[1:], "x")
			if !ok {
				continue
			}
			t := w.nowNs()
			p := w.acc.GetTxnPoliciesData(config.TxnID("txn-" + strconv.FormatInt(x, 10)))
			w.quiesce()
			outs[i] = fmt.Sprintf("data=%s t=%d", labelOf(p), t)
		case f[0] == "lookupu" && len(f) == 3 && w != nil:
			// a lookup with an update landing while the (new) transaction is being anchored: after the anchor is
			// written and the accessor lock released, before setTxnVersion returns.  If the transaction is already
			// anchored there is no such window and the update simply follows the lookup.
			x, ok1 := kvI(f[1:2], "x")
			d, ok2 := kvI(f[2:3], "d")
			if !ok1 || !ok2 {
				continue
			}
			t := w.nowNs()
			var uerr error
			upd := func() { uerr = w.acc.UpdatePoliciesData(policies(d, false), false) }
			w.hc.arm(upd)
			p := w.acc.GetTxnPoliciesData(config.TxnID("txn-" + strconv.FormatInt(x, 10)))
			where := "during"
			if w.hc.disarm() {
				where = "after"
				upd()
			}
			w.quiesce()
			if uerr != nil {
				outs[i] = "err:other"
				continue
			}
			outs[i] = fmt.Sprintf("data=%s t=%d upd=%s", labelOf(p), t, where)
		case f[0] == "update" && len(f) == 3 && w != nil:
			d, ok1 := kvI(f[1:2], "d")
			okn, ok2 := kvI(f[2:3], "ok")
			if !ok1 || !ok2 || okn > 1 {
				continue
			}
			t := w.nowNs()
			err := w.acc.UpdatePoliciesData(policies(d, okn == 0), d%2 == 1)
			if err != nil {
				if strings.Contains(err.Error(), "failed to initialize HAProxy endpoints") {
					outs[i] = "err:haproxy"
				} else {
					outs[i] = "err:other"
				}
				continue
			}
			w.quiesce()
			outs[i] = fmt.Sprintf("ok t=%d", t)
		case f[0] == "advance" && len(f) == 2 && w != nil:
			d, ok := kvI(f[1:], "d")
			if !ok {
				continue
			}
			w.advance(d)
			outs[i] = fmt.Sprintf("t=%d", w.nowNs())
		case f[0] == "stat" && len(f) == 1 && w != nil:
			outs[i] = stat(w.acc)
		}
		if w != nil && w.stuck && outs[i] != "bad-op" {
			outs[i] += " vacuum-goroutine-not-parked"
		}
	}
	return outs
}

// ---- result cache: generated cases are executed by parallel workers (each on its own accessor and
// clock); Exec stays a pure function of the op lines (a miss, e.g. on -replay, computes in place).
var (
	cacheMu sync.Mutex
	cache   = map[string][]string{}
)

func execAny(c proto.Case, o *proto.Out) []string {
	key := strings.Join(c.Ops, "\n")
	cacheMu.Lock()
	outs, ok := cache[key]
	delete(cache, key)
	cacheMu.Unlock()
	if isGlueCase(c) {
		if !ok {
			outs = glueExec(c.Ops)
		}
		classifyGlue(c, outs, o)
		return outs
	}
	if !ok {
		outs = execCase(c)
	}
	classify(c, outs, o)
	return outs
}

// classify fills the input distribution and the non-triviality rule from ops + answers.
func classify(c proto.Case, outs []string, o *proto.Out) {
	type ti struct {
		t0      int64
		d0      string
		updates int // applied updates so far when first looked up
	}
	first := map[string]ti{}
	updates := 0
	nontriv := false
	for i, op := range c.Ops {
		f := strings.Fields(op)
		a := strings.Fields(outs[i])
		if outs[i] == "bad-op" {
			o.Count("bad-op")
			continue
		}
		if strings.HasPrefix(outs[i], "panic") {
			continue
		}
		isRace := f[0] == "lookupu"
		if isRace {
			// classified as the lookup it is, followed by an applied update
			if w, _ := proto.KV(a, "upd"); w == "during" {
				o.Count("update-landed-while-anchoring-a-new-txn")
				nontriv = true
			} else {
				o.Count("update-right-after-lookup-of-anchored-txn")
			}
			f[0] = "lookup"
		}
		switch f[0] {
		case "update":
			if a[0] == "ok" {
				updates++
				o.Count("update-applied")
			} else {
				o.Count("update-rejected")
			}
		case "advance":
			o.Count("advance")
		case "lookup":
			d, _ := proto.KV(a, "data")
			t, _ := kvI(a, "t")
			fi, seen := first[f[1]]
			switch {
			case !seen:
				first[f[1]] = ti{t, d, updates}
				o.Count("lookup-first")
			case t <= fi.t0+ttlNs && updates > fi.updates:
				nontriv = true
				if t == fi.t0+ttlNs {
					o.Count("lookup-pinned-after-update-at-exactly-ttl")
				} else {
					o.Count("lookup-pinned-after-update")
				}
			case t <= fi.t0+ttlNs:
				o.Count("lookup-pinned-no-update")
			case d == fi.d0 && updates > fi.updates:
				o.Count("lookup-after-ttl-still-old")
			case updates > fi.updates:
				o.Count("lookup-after-ttl-new")
			default:
				o.Count("lookup-after-ttl-no-update")
			}
		case "stat":
			if v, ok := kvI(a, "vers"); ok && v > 1 {
				o.Count("stat-several-versions-retained")
			}
		}
		if isRace {
			updates++
		}
	}
	if nontriv {
		o.NonTrivial(strings.Join(c.Ops, "|") + "#" + strings.Join(outs, "|"))
	}
}

func main() {
	if os.Getenv(glueChildEnv) != "" {
		glueChildMain()
		return
	}
	// the HAProxy admin URL is fixed at package init from the environment: make sure it points at a
	// closed port (rejected updates are part of the histories), re-executing once if needed.
	if os.Getenv("HAPROXY_MANAGE_ENDPOINTS_PORT") != "1" {
		os.Setenv("HAPROXY_MANAGE_ENDPOINTS_PORT", "1")
		exe, err := os.Executable()
		if err == nil {
			err = syscall.Exec(exe, os.Args, os.Environ())
		}
		fmt.Fprintln(os.Stderr, "re-exec failed:", err)
		os.Exit(2)
	}
	zerolog.SetGlobalLevel(zerolog.Disabled)
	proto.Main(proto.Harness{Rule: rule, Gen: gen, Exec: execAny})
	closeGlue()
}

// runParallel executes cases on worker goroutines and stores the answers in the cache.
func runParallel(cases []proto.Case) {
	workers := 12
	ch := make(chan proto.Case)
	var wg sync.WaitGroup
	for k := 0; k < workers; k++ {
		wg.Add(1)
		go func() {
			defer wg.Done()
			for c := range ch {
				var outs []string
				func() {
					defer func() {
						if r := recover(); r != nil {
							outs = nil // let the framework re-run it sequentially and report the panic
						}
					}()
					outs = execCase(c)
				}()
				if outs != nil {
					cacheMu.Lock()
					cache[strings.Join(c.Ops, "\n")] = outs
					cacheMu.Unlock()
				}
			}
		}()
	}
	for _, c := range cases {
		ch <- c
	}
	close(ch)
	wg.Wait()
}
