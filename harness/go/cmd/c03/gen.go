package main

import (
	"fmt"
	"strings"

	"verif/harness/internal/prng"
	"verif/harness/internal/proto"
)

// ---- pattern / URL generators -------------------------------------------------------------

var (
	lits    = []string{"a", "b", "c"}
	segs    = []string{"a", "b", "c", "{p}", "{q}", "*"}
	hosts   = []string{"a.com", "b.com", "a.b", "api.a.com"}
	methods = []string{"GET", "POST", "HEAD", "OPTIONS", "PUT"}
	values  = []string{"a", "b", "c", "x1", "me", "123", "{p}", "{z}", "*", ""}
)

// path segments carrying percent escapes (encoded slash / dot / space / percent, upper and lower hex, an escaped
// plain letter): the engine matches the URL AS SENT, an escape never splits or merges segments
var escVals = []string{"a%2Fb", "a%2fb", "x%2Ey", "my%20files", "100%25", "%61", "b%2F", "%2Fc", "a%2Fb%2Fc", "%2e%2e"}

// parameter NAMES: everything `{...}` is a path parameter for TryExtractPathParameter, whatever is between the
// braces — kebab-case, dots, colons, a leading digit, upper case, non-ASCII, nothing at all
var paramNames = []string{"order-id", "user.id", "id:int", "9x", "ID", "ünï", "", "a_b", "x-y-z", "p q"}

// renaming picks, for one case, what the generator's `{p}` and `{q}` are called (70 %: left as they are)
func renaming(r *prng.R) func(string) string {
	if !r.Chance(30) {
		return func(p string) string { return p }
	}
	a := prng.Pick(r, paramNames)
	b := prng.Pick(r, paramNames)
	for b == a {
		b = prng.Pick(r, paramNames)
	}
	return func(p string) string {
		return strings.ReplaceAll(strings.ReplaceAll(p, "{p}", "{"+a+"}"), "{q}", "{"+b+"}")
	}
}

func genPattern(r *prng.R) string {
	h := prng.Pick(r, hosts)
	if r.Chance(5) { // parameter or wildcard inside the host
		h = prng.Pick(r, []string{"{p}.com", "a.{p}", "*.com", "a.*", "{q}.a.com"})
	}
	n := r.Range(0, 4)
	parts := []string{h}
	for i := 0; i < n; i++ {
		s := prng.Pick(r, segs)
		if s == "*" && i != n-1 {
			s = prng.Pick(r, lits)
		}
		parts = append(parts, s)
	}
	return strings.Join(parts, "/")
}

// derive an overlapping pattern from an existing one
func derivePattern(r *prng.R, p string) string {
	parts := strings.Split(p, "/")
	switch r.Intn(10) {
	case 0: // other + /*
		return strings.TrimSuffix(p, "/*") + "/*"
	case 1: // other + one segment
		if parts[len(parts)-1] == "*" {
			parts = parts[:len(parts)-1]
		}
		return strings.Join(append(parts, prng.Pick(r, segs)), "/")
	case 2, 3: // literal vs parameter vs wildcard at one position
		if len(parts) > 1 {
			i := r.Range(1, len(parts)-1)
			parts[i] = prng.Pick(r, segs)
			if parts[i] == "*" && i != len(parts)-1 {
				parts = parts[:i+1]
			}
		}
		return strings.Join(parts, "/")
	case 4: // same prefix, different tail
		k := r.Range(1, len(parts))
		q := append([]string{}, parts[:k]...)
		for j := r.Range(0, 2); j > 0; j-- {
			q = append(q, prng.Pick(r, segs[:5]))
		}
		return strings.Join(q, "/")
	case 5: // truncation by one segment
		if len(parts) > 1 {
			parts = parts[:len(parts)-1]
		}
		return strings.Join(parts, "/")
	case 6: // host/path boundary moved: a.com/x/y -> a.com.x/y
		if r.Chance(40) {
			if len(parts) > 1 {
				return parts[0] + "." + strings.Join(parts[1:], "/")
			}
			return p + ".x"
		}
		return p
	default: // identical pattern (several flows on one URL)
		return p
	}
}

func instantiate(r *prng.R, p string, adversarial bool) string {
	parts := strings.Split(p, "/")
	var out []string
	for i, s := range parts {
		switch {
		case i == 0:
			hs := strings.Split(s, ".")
			for k, l := range hs {
				if strings.HasPrefix(l, "{") || l == "*" {
					hs[k] = prng.Pick(r, lits)
				}
			}
			out = append(out, strings.Join(hs, "."))
		case s == "*":
			for j := r.Range(0, 2); j > 0; j-- {
				if r.Chance(15) {
					out = append(out, prng.Pick(r, escVals))
				} else {
					out = append(out, prng.Pick(r, lits))
				}
			}
		case strings.HasPrefix(s, "{") && r.Chance(20):
			out = append(out, prng.Pick(r, escVals))
		case strings.HasPrefix(s, "{"):
			if adversarial {
				out = append(out, prng.Pick(r, values))
			} else {
				out = append(out, prng.Pick(r, values[:6]))
			}
		default:
			out = append(out, s)
		}
	}
	return strings.Join(out, "/")
}

func deriveURL(r *prng.R, pats []string) string {
	if len(pats) == 0 || r.Chance(4) {
		return instantiate(r, genPattern(r), true)
	}
	u := instantiate(r, prng.Pick(r, pats), r.Chance(10))
	parts := strings.Split(u, "/")
	switch r.Intn(14) {
	case 0: // truncation by one segment
		if len(parts) > 1 {
			parts = parts[:len(parts)-1]
		}
	case 1, 2: // extension by one or two segments
		for j := r.Range(1, 2); j > 0; j-- {
			parts = append(parts, prng.Pick(r, values[:6]))
		}
	case 3: // mutation of one segment
		i := r.Intn(len(parts))
		if i == 0 {
			parts[0] = prng.Pick(r, hosts)
		} else {
			parts[i] = prng.Pick(r, values)
		}
	case 4: // host/path boundary moved
		if r.Chance(50) {
			if len(parts) > 1 && r.Bool() {
				parts = append([]string{parts[0] + "." + parts[1]}, parts[2:]...)
			} else {
				parts[0] = parts[0] + "." + prng.Pick(r, lits)
			}
		}
	case 5: // decoration the trim removes
		if r.Chance(50) {
			return prng.Pick(r, []string{"/", ".", ""}) + strings.Join(parts, "/") + prng.Pick(r, []string{"/", ".", "/.", ""})
		}
	case 7: // one path segment replaced by an escaped spelling / an escaped slash inside a segment
		if len(parts) > 1 {
			i := r.Range(1, len(parts)-1)
			switch r.Intn(3) {
			case 0:
				parts[i] = prng.Pick(r, escVals)
			case 1:
				parts[i] = parts[i] + "%2F" + prng.Pick(r, lits)
			default:
				if i+1 < len(parts) { // two segments glued by an encoded slash
					parts = append(parts[:i], append([]string{parts[i] + "%2F" + parts[i+1]}, parts[i+2:]...)...)
				} else if parts[i] != "" {
					parts[i] = "%" + fmt.Sprintf("%02X", parts[i][0]) + parts[i][1:]
				}
			}
		}
	case 6: // empty segment
		if r.Chance(40) {
			i := r.Range(1, len(parts))
			parts = append(parts[:i], append([]string{""}, parts[i:]...)...)
		}
	}
	return strings.Join(parts, "/")
}

// ---- constraint shapes --------------------------------------------------------------------

type shape struct{ m, h, q, s string }

var (
	mShapes = []string{"-", "-", "GET", "GET,POST", "HEAD", "POST"}
	hShapes = []string{"-", "-", "-", "x-a:1", "x-a:1,x-a:two", "x-a:1,x-b:2", "X-A:1", "x-a:One"}
	qShapes = []string{"-", "-", "-", "k:v", "k:v,j:w", "k", "k:%e"}
	sShapes = []string{"-", "-", "-", "200", "200,404", "500"}
)

func genShape(r *prng.R) shape {
	if r.Chance(35) {
		return shape{"-", "-", "-", "-"}
	}
	return shape{prng.Pick(r, mShapes), prng.Pick(r, hShapes), prng.Pick(r, qShapes), prng.Pick(r, sShapes)}
}

// same emptiness pattern, possibly other values (keeps the case outside F03a)
func sameShape(r *prng.R, s shape) shape {
	pick := func(cur string, pool []string) string {
		if cur == "-" {
			return "-"
		}
		for {
			if x := prng.Pick(r, pool); x != "-" {
				return x
			}
		}
	}
	return shape{pick(s.m, mShapes), pick(s.h, hShapes), pick(s.q, qShapes), pick(s.s, sShapes)}
}

func urlSafeForQuery(u string) bool {
	for _, c := range u {
		if !(c >= 'a' && c <= 'z' || c >= '0' && c <= '9' || c == '.' || c == '/' || c == '-') {
			return false
		}
	}
	return true
}

func genReq(r *prng.R, url string, shapes []shape) string {
	m := prng.Pick(r, methods)
	if r.Chance(45) {
		m = "GET"
	}
	h, q := "-", "-"
	if len(shapes) > 0 && r.Chance(70) {
		s := prng.Pick(r, shapes)
		// satisfy (a variant of) that flow's header / query requirement
		switch {
		case s.h == "-":
		case r.Chance(70):
			var items []string
			seen := map[string]bool{}
			for _, it := range strings.Split(s.h, ",") {
				kv := strings.SplitN(it, ":", 2)
				k := strings.ToLower(kv[0])
				if seen[k] {
					continue
				}
				seen[k] = true
				v := kv[1]
				switch r.Intn(8) {
				case 0:
					v = strings.ToUpper(v)
				case 1:
					v = "zz"
				case 2: // the required value as a PROPER part of the header's value: a header matches by its whole value
					v = prng.Pick(r, []string{v + "0", "x" + v, v + "%2C%20other", "other%2C%20" + v, strings.ToUpper(v) + "x", v + v})
				}
				if r.Chance(8) {
					k = strings.ToUpper(k) // a header name that was not lower-cased on the way in
				}
				items = append(items, k+":"+v)
			}
			h = strings.Join(items, ",")
		default:
			h = prng.Pick(r, []string{"x-a:1", "x-a:two", "x-b:2", "x-a:ONE,x-b:2", "x-c:3"})
		}
		switch {
		case s.q == "-":
		case r.Chance(70):
			var items []string
			for _, it := range strings.Split(s.q, ",") {
				kv := strings.SplitN(it, ":", 2)
				v := "v"
				if len(kv) == 2 {
					v = kv[1]
				}
				switch r.Intn(6) {
				case 0:
					v = "other"
				case 1:
					v = "%e"
				}
				items = append(items, kv[0]+":"+v)
			}
			if r.Chance(15) { // the same key twice: the first value counts
				items = append(items, strings.SplitN(items[0], ":", 2)[0]+":v")
			}
			q = strings.Join(items, ",")
		default:
			q = prng.Pick(r, []string{"k:v", "j:w", "k:v,j:w", "k:%e", "z:1"})
		}
	} else if r.Chance(20) {
		h = prng.Pick(r, []string{"x-a:1", "x-b:2", "x-a:1,x-b:2"})
		q = prng.Pick(r, []string{"-", "k:v", "k:v,j:w"})
	}
	if !urlSafeForQuery(url) {
		q = "-" // url.Parse would reject the request URL; keep the query out of it
	}
	if q != "-" && r.Chance(35) {
		return fmt.Sprintf("req %s %s h=%s q=- rq=%s", m, proto.Enc(url), h, proto.Enc(rawQuery(r, q)))
	}
	return fmt.Sprintf("req %s %s h=%s q=%s", m, proto.Enc(url), h, q)
}

// pieces net/url's Query() drops (its error is discarded) or reads in a way a naive split would not
var oddPieces = []string{
	"ref=100%zz", "%zz=1", "utm=a;b", ";", "x=%", "y=%4", "%=1", "j=w%", "k=%zz", // dropped: bad escape / semicolon
	"", "=v", "flag", "a+b=c+d", "x=%41%20", "%6b=v", "k=%76", "k=v=w", "j=", "k=", "z=1", "k=V", // kept, possibly relevant
}

// the well-formed required pairs `k:v,...` as a raw query string with odd neighbours mixed in
func rawQuery(r *prng.R, q string) string {
	var pieces []string
	for _, it := range strings.Split(q, ",") {
		kv := strings.SplitN(it, ":", 2)
		v := kv[1]
		if v == "%e" {
			v = ""
		}
		pieces = append(pieces, kv[0]+"="+v)
	}
	for n := r.Range(1, 3); n > 0; n-- {
		i := r.Intn(len(pieces) + 1)
		pieces = append(pieces[:i], append([]string{prng.Pick(r, oddPieces)}, pieces[i:]...)...)
	}
	return strings.Join(pieces, "&")
}

func genRes(r *prng.R, url string) string {
	m := prng.Pick(r, methods)
	if r.Chance(45) {
		m = "GET"
	}
	return fmt.Sprintf("res %s %s st=%d", m, proto.Enc(url), prng.Pick(r, []int{200, 200, 404, 500, 201}))
}

// ---- L2 cases ---------------------------------------------------------------------------------

var perms = map[int][][]int{}

func allPerms(n int) [][]int {
	if p, ok := perms[n]; ok {
		return p
	}
	var out [][]int
	var rec func(cur []int, used int)
	rec = func(cur []int, used int) {
		if len(cur) == n {
			out = append(out, append([]int{}, cur...))
			return
		}
		for i := 0; i < n; i++ {
			if used&(1<<i) == 0 {
				rec(append(cur, i), used|1<<i)
			}
		}
	}
	rec(nil, 0)
	perms[n] = out
	return out
}

func permStr(p []int) string {
	s := make([]string, len(p))
	for i, v := range p {
		s[i] = fmt.Sprint(v)
	}
	return strings.Join(s, ",")
}

var weirdURLs = []string{"a.com/x/", ".a.com/x", "a.com//x", "a.com/*/x", "a.com/*/*", "a.com/{{p}}", "*", ".*",
	"a..com/x", "a.com/x/.", "a.com/{p}/{p}", "a.com/x./y", "/a.com/x"}

func flowLine(name, kind, url string, s shape) string {
	return fmt.Sprintf("flow %s %s %s m=%s h=%s q=%s s=%s", name, kind, proto.Enc(url), s.m, s.h, s.q, s.s)
}

func genFilterCase(r *prng.R, id string, allOrders bool, benignBias bool, withEngine bool) proto.Case {
	n := r.Range(1, 4)
	if r.Chance(5) {
		n = 5
	}
	var pats []string
	var shapes []shape
	var ops []string
	ren := renaming(r)
	for i := 0; i < n; i++ {
		var p string
		if i == 0 || r.Chance(20) {
			p = genPattern(r)
		} else {
			p = derivePattern(r, prng.Pick(r, pats))
		}
		if r.Chance(3) && !benignBias {
			p = prng.Pick(r, weirdURLs)
		}
		s := genShape(r)
		// several flows on one URL: mostly with the same constraint shape
		for j, q := range pats {
			if q == p && (benignBias || r.Chance(50)) {
				s = sameShape(r, shapes[j])
				break
			}
		}
		if benignBias {
			s.q = strings.ReplaceAll(s.q, "k,", "k:v,")
			if s.q == "k" {
				s.q = "k:v"
			}
		}
		kind := "u"
		if r.Chance(15) && !benignBias {
			kind = prng.Pick(r, []string{"s", "e"})
		}
		p = ren(p)
		pats = append(pats, p)
		shapes = append(shapes, s)
		ops = append(ops, flowLine(fmt.Sprintf("f%d", i), kind, p, s))
	}
	var reqs []string
	for k := r.Range(3, 8); k > 0; k-- {
		u := deriveURL(r, pats)
		if r.Chance(30) {
			reqs = append(reqs, genRes(r, u))
		} else {
			reqs = append(reqs, genReq(r, u, shapes))
		}
	}
	orders := [][]int{allPerms(n)[0]}
	switch {
	case allOrders && n <= 4:
		orders = allPerms(n)
	case n > 1:
		ps := allPerms(n)
		orders = append(orders, ps[len(ps)-1]) // reversed
		orders = append(orders, prng.Pick(r, ps[1:]))
	}
	for _, p := range orders {
		ops = append(ops, "load perm="+permStr(p))
		ops = append(ops, reqs...)
	}
	// the same requests answered by a processor (early response): the response walk without a response object
	for _, q := range reqs {
		if strings.HasPrefix(q, "req ") && r.Chance(35) {
			ops = append(ops, "early "+strings.TrimPrefix(q, "req "))
		}
	}
	if withEngine {
		for _, q := range reqs {
			ops = append(ops, "eng "+q)
			if strings.HasPrefix(q, "req ") {
				ops = append(ops, "eng early "+strings.TrimPrefix(q, "req "))
			}
		}
	}
	return proto.Case{ID: id, Ops: ops}
}

// ---- L2q cases: quotas loaded through the real loader --------------------------------------------

var qmShapes = []string{"-", "GET", "POST", "GET,POST", "POST,GET", "HEAD", "GET,HEAD"}

// several quotas per URL whose filters differ by method set / headers / query / status / nothing
func genQuotaCase(r *prng.R, id string) proto.Case {
	n := r.Range(2, 5)
	var urls []string
	ren := renaming(r)
	base := ren(genPattern(r))
	urls = append(urls, base)
	if r.Chance(50) {
		// an overlapping second URL on the SAME host (the quota loader's own validation refuses patterns that
		// cross the host/path boundary of another quota's pattern: loader glue, not the filter tree)
		if d := ren(derivePattern(r, base)); strings.Split(d, "/")[0] == strings.Split(base, "/")[0] {
			urls = append(urls, d)
		}
	}
	var ops []string
	var shapes []shape
	for i := 0; i < n; i++ {
		u := urls[0]
		if r.Chance(30) {
			u = prng.Pick(r, urls)
		}
		s := shape{prng.Pick(r, qmShapes), "-", "-", "-"}
		switch r.Intn(6) {
		case 0:
			s.h = prng.Pick(r, hShapes)
		case 1:
			s.q = prng.Pick(r, []string{"k:v", "k:v,j:w", "j:w,k:v", "k:%e"})
		case 2:
			s.s = prng.Pick(r, sShapes)
		case 3: // exactly the filter of an earlier quota (same key: folded into one system flow)
			if len(shapes) > 0 {
				s = prng.Pick(r, shapes)
			}
		}
		shapes = append(shapes, s)
		ops = append(ops, fmt.Sprintf("quota q%d %s m=%s h=%s q=%s s=%s", i, proto.Enc(u), s.m, s.h, s.q, s.s))
	}
	ops = append(ops, "qload")
	for k := r.Range(4, 9); k > 0; k-- {
		u := deriveURL(r, urls)
		if r.Chance(25) {
			ops = append(ops, "q"+genRes(r, u))
		} else {
			ops = append(ops, "q"+genReq(r, u, shapes))
		}
	}
	return proto.Case{ID: id, Ops: ops}
}

// ---- L1 cases ---------------------------------------------------------------------------------

func genTrieCase(r *prng.R, id string) proto.Case {
	var ops, pats []string
	n := r.Range(1, 6)
	ren := renaming(r)
	for i := 0; i < n; i++ {
		var p string
		if i == 0 || r.Chance(25) {
			p = genPattern(r)
		} else {
			p = derivePattern(r, prng.Pick(r, pats))
		}
		if r.Chance(4) {
			p = prng.Pick(r, weirdURLs)
		}
		p = ren(p)
		pats = append(pats, p)
		ops = append(ops, fmt.Sprintf("t.ins %s %d", proto.Enc(p), i+1))
		if r.Chance(20) {
			ops = append(ops, "t.trav "+proto.Enc(deriveURL(r, pats)))
		}
	}
	for k := r.Range(3, 10); k > 0; k-- {
		ops = append(ops, "t.trav "+proto.Enc(deriveURL(r, pats)))
	}
	for _, p := range pats {
		if r.Chance(30) {
			ops = append(ops, "t.trav "+proto.Enc(p))
		}
	}
	return proto.Case{ID: id, Ops: ops}
}

// ---- exhaustive small scope -------------------------------------------------------------------

func enumPaths(alpha []string, maxLen int, wildLastOnly bool) []string {
	out := []string{""}
	var rec func(prefix []string)
	rec = func(prefix []string) {
		if len(prefix) > 0 {
			out = append(out, "/"+strings.Join(prefix, "/"))
		}
		if len(prefix) == maxLen || (wildLastOnly && len(prefix) > 0 && prefix[len(prefix)-1] == "*") {
			return
		}
		for _, a := range alpha {
			rec(append(append([]string{}, prefix...), a))
		}
	}
	rec(nil)
	return out
}

// every set of <= maxSet patterns (host a.com), every load order, every URL of the URL universe x methods;
// flow k of a set gets the k-th method shape (so that several shapes meet on overlapping patterns)
func exhaustive(emit func(proto.Case), tag string, patAlpha []string, patLen int, urlAlpha []string, urlLen int,
	maxSet int, mshapes []string, reqMethods []string) int {
	pats := enumPaths(patAlpha, patLen, true)
	urls := enumPaths(urlAlpha, urlLen, false)
	var reqs []string
	for _, u := range urls {
		for _, m := range reqMethods {
			reqs = append(reqs, fmt.Sprintf("req %s %s h=- q=-", m, proto.Enc("a.com"+u)))
		}
	}
	count := 0
	one := func(set []int) {
		if len(set) > maxSet {
			return
		}
		var ops []string
		for k, i := range set {
			ops = append(ops, flowLine(fmt.Sprintf("f%d", k), "u", "a.com"+pats[i], shape{mshapes[k%len(mshapes)], "-", "-", "-"}))
		}
		for _, p := range allPerms(len(set)) {
			ops = append(ops, "load perm="+permStr(p))
			ops = append(ops, reqs...)
		}
		count++
		emit(proto.Case{ID: fmt.Sprintf("%s%d", tag, count), Ops: ops})
	}
	for i := range pats {
		one([]int{i})
		for j := i + 1; j < len(pats); j++ {
			one([]int{i, j})
			for k := j + 1; k < len(pats); k++ {
				one([]int{i, j, k})
			}
		}
	}
	return count
}

// all multisets of <= 3 flows on <= 2 URLs with every combination of method shapes (F03a territory)
func exhaustiveShapes(emit func(proto.Case), tag string) {
	urls := []string{"a.com/x", "a.com/{p}"}
	ms := []string{"-", "GET", "POST"}
	var reqs []string
	for _, u := range []string{"a.com/x", "a.com/y"} {
		for _, m := range []string{"GET", "POST", "HEAD"} {
			reqs = append(reqs, fmt.Sprintf("req %s %s h=- q=-", m, u))
		}
		reqs = append(reqs, fmt.Sprintf("res GET %s st=200", u))
	}
	count := 0
	var rec func(cur []string)
	rec = func(cur []string) {
		if len(cur) > 0 {
			ops := append([]string{}, cur...)
			for _, p := range allPerms(len(cur)) {
				ops = append(ops, "load perm="+permStr(p))
				ops = append(ops, reqs...)
			}
			count++
			emit(proto.Case{ID: fmt.Sprintf("%s%d", tag, count), Ops: ops})
		}
		if len(cur) == 3 {
			return
		}
		for _, u := range urls {
			for _, m := range ms {
				for _, k := range []string{"u", "s"} {
					rec(append(append([]string{}, cur...), flowLine(fmt.Sprintf("f%d", len(cur)), k, u, shape{m, "-", "-", "-"})))
				}
			}
		}
	}
	rec(nil)
}

func gen(r *prng.R, f proto.Flags, emit func(proto.Case)) {
	n := 4000
	if f.Tier == "thorough" {
		n = 40000
	}
	n *= f.Budget
	for k := 0; k < n; k++ {
		rr := r.Fork()
		switch {
		case k%4 == 0:
			emit(genTrieCase(rr, fmt.Sprintf("t%d", k)))
		case k%8 == 3:
			emit(genQuotaCase(rr, fmt.Sprintf("q%d", k)))
		default:
			emit(genFilterCase(rr, fmt.Sprintf("p%d", k), rr.Chance(40), k%4 == 1, k%16 == 2 || k%16 == 5))
		}
	}
	if f.Tier == "thorough" {
		three := []string{"GET", "POST", "HEAD"}
		// all sets of <= 3 patterns of <= 2 path segments over {a,b,{p},*}, all orders, all URLs of <= 3 segments over {a,b,c}
		exhaustive(emit, "xa", []string{"a", "b", "{p}", "*"}, 2, []string{"a", "b", "c"}, 3, 3, []string{"-", "GET", "-"}, three)
		// all sets of <= 3 patterns of <= 3 path segments over {a,{p},*}, all orders, all URLs of <= 4 segments over {a,b}
		exhaustive(emit, "xb", []string{"a", "{p}", "*"}, 3, []string{"a", "b"}, 4, 3, []string{"-"}, []string{"GET"})
		// two parameter names (name conflicts are load errors): <= 2 path segments over {a,b,{p},{q},*}
		exhaustive(emit, "xc", []string{"a", "b", "{p}", "{q}", "*"}, 2, []string{"a", "b", "c"}, 3, 3, []string{"-"}, []string{"GET"})
		// all PAIRS of patterns of <= 3 path segments over {a,b,{p},*}, both orders, all URLs of <= 4 segments over {a,b}
		exhaustive(emit, "xd", []string{"a", "b", "{p}", "*"}, 3, []string{"a", "b"}, 4, 2, []string{"-", "POST"}, three)
		exhaustiveShapes(emit, "xs")
	} else {
		exhaustive(emit, "xa", []string{"a", "{p}", "*"}, 2, []string{"a", "b"}, 3, 3, []string{"-", "GET", "-"}, []string{"GET", "HEAD"})
	}
}
