// Harness for C03: drives (L1) the real urltree.URLTree (InsertDeclaredURL / Traversal), (L2) the real
// streamfilter.FilterTree (AddFlow with flows built by streamflow.NewFlow, GetFlow on request and response
// API streams) and (L3) the real engine (streams.Stream loaded from generated YAML; load order = Go map
// iteration, so the engine's answer must be one of the answers the model gives over all load orders).
package main

import (
	"fmt"
	"sort"
	"strconv"
	"strings"
	"time"

	lunarMessages "lunar/engine/messages"
	streamconfig "lunar/engine/streams/config"
	streamfilter "lunar/engine/streams/filter"
	streamflow "lunar/engine/streams/flow"
	internaltypes "lunar/engine/streams/internal-types"
	lunarContext "lunar/engine/streams/lunar-context"
	publictypes "lunar/engine/streams/public-types"
	streamtypes "lunar/engine/streams/types"
	"lunar/toolkit-core/urltree"

	"github.com/rs/zerolog"

	"verif/harness/internal/proto"
)

const rule = "sets of flow filters (overlapping literal/parameter/wildcard patterns, several flows on one URL, " +
	"method/header/query/status constraint shapes) x load orders x transactions (request and response events; URLs " +
	"instantiated, truncated, extended, mutated), plus raw-trie insert/traversal scripts; non-trivial = a case in which " +
	"at least one transaction selected a flow and at least one selected none or fewer than the flows on its URL; " +
	"distinct by (ops, answers)"

func enc2(s string) string {
	return strings.ReplaceAll(strings.ReplaceAll(proto.Enc(s), ",", "%2C"), ":", "%3A")
}

func fmtList(n []string) string {
	if len(n) == 0 {
		return "-"
	}
	out := make([]string, len(n))
	for i, s := range n {
		out[i] = enc2(s)
	}
	return strings.Join(out, ",")
}

func splitList(s string) []string {
	if s == "-" {
		return nil
	}
	return strings.Split(s, ",")
}

func errClass(err error) string {
	if err == nil {
		return "ok"
	}
	m := err.Error()
	switch {
	case strings.Contains(m, "URL part cannot be empty"):
		return "err:empty"
	case strings.Contains(m, "wildcard is only allowed at the end"):
		return "err:wildcard"
	case strings.Contains(m, "does not match existing name"):
		return "err:param"
	}
	return "err:other:" + proto.Enc(m)
}

type kvPair struct {
	k    string
	v    string
	hasV bool
}

type flowSpec struct {
	name     string
	kind     internaltypes.FlowType
	url      string
	methods  []string
	headers  []kvPair
	query    []kvPair
	statuses []int
}

func parsePairs(s string, optional bool) ([]kvPair, bool) {
	var out []kvPair
	for _, it := range splitList(s) {
		f := strings.Split(it, ":")
		switch {
		case len(f) == 2:
			out = append(out, kvPair{proto.Dec(f[0]), proto.Dec(f[1]), true})
		case len(f) == 1 && optional:
			out = append(out, kvPair{proto.Dec(f[0]), "", false})
		default:
			return nil, false
		}
	}
	return out, true
}

func parseFlow(w []string) (flowSpec, bool) {
	var f flowSpec
	if len(w) != 7 {
		return f, false
	}
	f.name = proto.Dec(w[0])
	switch w[1] {
	case "u":
		f.kind = internaltypes.UserFlow
	case "s":
		f.kind = internaltypes.SystemFlowStart
	case "e":
		f.kind = internaltypes.SystemFlowEnd
	default:
		return f, false
	}
	f.url = proto.Dec(w[2])
	m, ok1 := proto.KV(w[3:], "m")
	h, ok2 := proto.KV(w[3:], "h")
	q, ok3 := proto.KV(w[3:], "q")
	s, ok4 := proto.KV(w[3:], "s")
	if !ok1 || !ok2 || !ok3 || !ok4 {
		return f, false
	}
	for _, x := range splitList(m) {
		f.methods = append(f.methods, proto.Dec(x))
	}
	var ok bool
	if f.headers, ok = parsePairs(h, false); !ok {
		return f, false
	}
	if f.query, ok = parsePairs(q, true); !ok {
		return f, false
	}
	for _, x := range splitList(s) {
		n, err := strconv.Atoi(x)
		if err != nil || n < 0 {
			return f, false
		}
		f.statuses = append(f.statuses, n)
	}
	return f, true
}

func keyValues(ps []kvPair) []publictypes.KeyValue {
	var out []publictypes.KeyValue
	for _, p := range ps {
		if p.hasV {
			out = append(out, *publictypes.NewKeyValue(p.k, p.v))
		} else {
			out = append(out, publictypes.KeyValue{Key: p.k}) // `value:` absent in the YAML
		}
	}
	return out
}

// the flow exactly as the repo's own filter tests build it (no graph: the filter tree never looks at it)
func (f flowSpec) build() internaltypes.FlowI {
	filter := &streamconfig.Filter{
		Name:        f.name,
		URL:         f.url,
		Method:      append([]string(nil), f.methods...),
		Headers:     keyValues(f.headers),
		QueryParams: keyValues(f.query),
		StatusCode:  append([]int(nil), f.statuses...),
	}
	return streamflow.NewFlow(nil, &streamconfig.FlowRepresentation{Name: f.name, Filter: filter, Type: f.kind}, nil)
}

var shared = lunarContext.NewMemoryState[[]byte]()

type state struct {
	tree  *urltree.URLTree[int]
	flows []flowSpec
	ft    internaltypes.FilterTreeI
	eng   *engState
	engEarly *engState
	quotas []flowSpec
	q      *quotaState
}

func safeAdd(ft internaltypes.FilterTreeI, fl internaltypes.FlowI) (res string) {
	defer func() {
		if r := recover(); r != nil {
			res = "panic"
		}
	}()
	return errClass(ft.AddFlow(fl))
}

func names(fl []internaltypes.FlowI) []string {
	var out []string
	for _, f := range fl {
		out = append(out, f.GetName())
	}
	return out
}

func fmtResult(r internaltypes.FilterTreeResultI, found bool) string {
	var u, s, e []string
	if r != nil {
		if l, ok := r.GetUserFlow(); ok {
			u = names(l)
		}
		if l, ok := r.GetSystemFlowStart(); ok {
			s = names(l)
		}
		if l, ok := r.GetSystemFlowEnd(); ok {
			e = names(l)
		}
	}
	b := 0
	if found {
		b = 1
	}
	return fmt.Sprintf("found=%d u=%s s=%s e=%s", b, fmtList(u), fmtList(s), fmtList(e))
}

type txn struct {
	isResp  bool
	method  string
	url     string
	headers map[string]string
	query   string
	status  int
}

func parseTxn(isResp bool, w []string) (txn, bool) {
	t := txn{isResp: isResp, headers: map[string]string{}}
	if len(w) < 2 {
		return t, false
	}
	t.method, t.url = proto.Dec(w[0]), proto.Dec(w[1])
	if isResp {
		if len(w) != 3 {
			return t, false
		}
		s, ok := proto.KV(w[2:], "st")
		n, err := strconv.Atoi(s)
		if !ok || err != nil || n < 0 {
			return t, false
		}
		t.status = n
		return t, true
	}
	if len(w) != 4 && len(w) != 5 {
		return t, false
	}
	h, ok1 := proto.KV(w[2:], "h")
	q, ok2 := proto.KV(w[2:], "q")
	if !ok1 || !ok2 {
		return t, false
	}
	hs, ok := parsePairs(h, false)
	if !ok {
		return t, false
	}
	for _, p := range hs {
		if _, dup := t.headers[p.k]; !dup { // first binding wins, as in the model's association list
			t.headers[p.k] = p.v
		}
	}
	qs, ok := parsePairs(q, false)
	if !ok {
		return t, false
	}
	var items []string
	for _, p := range qs {
		items = append(items, p.k+"="+p.v)
	}
	t.query = strings.Join(items, "&")
	if len(w) == 5 {
		// `rq=<raw query string>` (malformed pairs, escapes, separators) wins over the well-formed list
		raw, ok := proto.KV(w[4:], "rq")
		if !ok {
			return t, false
		}
		t.query = proto.Dec(raw)
	}
	return t, true
}

func (t txn) stream(id string) publictypes.APIStreamI {
	if t.isResp {
		return streamtypes.NewResponseAPIStream(lunarMessages.OnResponse{ID: id, SequenceID: id, Method: t.method,
			URL: t.url, Status: t.status, Headers: map[string]string{}, Time: time.Unix(1_700_000_000, 0)}, shared)
	}
	return streamtypes.NewRequestAPIStream(lunarMessages.OnRequest{ID: id, SequenceID: id, Method: t.method,
		Scheme: "https", URL: t.url, Query: t.query, Headers: t.headers, Time: time.Unix(1_700_000_000, 0)}, shared)
}

func exec(c proto.Case, o *proto.Out) []string {
	outs := make([]string, len(c.Ops))
	st := &state{tree: urltree.NewURLTree[int](false, 0)}
	defer st.closeEngine()
	some, none := 0, 0
	for i, op := range c.Ops {
		w := strings.Fields(op)
		if len(w) == 0 {
			outs[i] = "bad-op"
			continue
		}
		switch {
		case w[0] == "t.ins" && len(w) == 3:
			v, err := strconv.Atoi(w[2])
			if err != nil || v < 0 {
				outs[i] = "bad-op"
				break
			}
			val := v
			outs[i] = errClass(st.tree.InsertDeclaredURL(proto.Dec(w[1]), &val))
			o.Count("t.ins-" + strings.SplitN(outs[i], ":other", 2)[0])
		case w[0] == "t.trav" && len(w) == 2:
			r := st.tree.Traversal(proto.Dec(w[1]))
			var vs []string
			for _, v := range r.Value {
				vs = append(vs, strconv.Itoa(v))
			}
			if len(vs) == 0 {
				outs[i] = "v=-"
				none++
				o.Count("t.trav-none")
			} else {
				outs[i] = "v=" + strings.Join(vs, ",")
				some++
				o.Count(fmt.Sprintf("t.trav-%d", min(len(vs), 3)))
			}
		case w[0] == "flow":
			f, ok := parseFlow(w[1:])
			if !ok {
				outs[i] = "bad-op"
				break
			}
			st.flows = append(st.flows, f)
			outs[i] = "ok"
		case w[0] == "load" && len(w) == 2:
			p, ok := proto.KV(w[1:], "perm")
			if !ok {
				outs[i] = "bad-op"
				break
			}
			var order []int
			bad := false
			for _, f := range strings.Split(p, ",") {
				n, err := strconv.Atoi(f)
				if err != nil || n < 0 {
					bad = true
					break
				}
				order = append(order, n)
			}
			if bad {
				outs[i] = "bad-op"
				break
			}
			st.ft = streamfilter.NewFilterTree()
			var rs []string
			for _, k := range order {
				if k < len(st.flows) {
					r := safeAdd(st.ft, st.flows[k].build())
					rs = append(rs, r)
					o.Count("add-" + strings.SplitN(r, ":other", 2)[0])
				}
			}
			outs[i] = "r=" + strings.Join(rs, ",")
		case w[0] == "quota":
			f, ok := parseFlow(append([]string{w[1], "s"}, w[2:]...))
			if len(w) < 3 || !ok {
				outs[i] = "bad-op"
				break
			}
			st.quotas = append(st.quotas, f)
			outs[i] = "ok"
		case w[0] == "qload" && len(w) == 1:
			outs[i] = st.qload()
			o.Count("qload-" + strings.SplitN(outs[i], " ", 2)[0])
		case (w[0] == "qreq" || w[0] == "qres") && len(w) >= 3:
			t, ok := parseTxn(w[0] == "qres", w[1:])
			if !ok {
				outs[i] = "bad-op"
				break
			}
			outs[i] = st.qreq(t, fmt.Sprintf("q%d", i))
			if outs[i] == "run=-" {
				none++
				o.Count("q-none")
			} else if strings.Contains(outs[i], ",") {
				some++
				o.Count("q-several")
			} else {
				some++
				o.Count("q-one")
			}
		case w[0] == "eng" && len(w) >= 2 && w[1] == "early":
			t, ok := parseTxn(false, w[2:])
			if !ok {
				outs[i] = "bad-op"
				break
			}
			outs[i] = st.engEarlyReq(t, fmt.Sprintf("y%d", i), o)
		case w[0] == "early":
			t, ok := parseTxn(false, w[1:])
			if !ok {
				outs[i] = "bad-op"
				break
			}
			if st.ft == nil {
				outs[i] = "no-tree"
				break
			}
			r, found := st.ft.GetFlow(t.earlyStream(fmt.Sprintf("v%d", i)))
			outs[i] = fmtResult(r, found)
			o.Count("early-l2")
		case w[0] == "eng" && len(w) >= 2 && (w[1] == "req" || w[1] == "res"):
			t, ok := parseTxn(w[1] == "res", w[2:])
			if !ok {
				outs[i] = "bad-op"
				break
			}
			outs[i] = st.engReq(t, fmt.Sprintf("e%d", i), o)
			switch {
			case strings.Contains(outs[i], "|"):
				o.Count("eng-order-dependent")
			case strings.HasPrefix(outs[i], "poss=- "):
				o.Count("eng-none")
			default:
				o.Count("eng-selected")
			}
		case w[0] == "req" || w[0] == "res":
			t, ok := parseTxn(w[0] == "res", w[1:])
			if !ok {
				outs[i] = "bad-op"
				break
			}
			if st.ft == nil {
				outs[i] = "no-tree"
				break
			}
			r, found := st.ft.GetFlow(t.stream(fmt.Sprintf("v%d", i)))
			outs[i] = fmtResult(r, found)
			if found {
				some++
				o.Count(w[0] + "-found")
			} else {
				none++
				o.Count(w[0] + "-none")
			}
		default:
			outs[i] = "bad-op"
		}
	}
	if some > 0 && none > 0 {
		o.NonTrivial(strings.Join(c.Ops, "|") + "#" + strings.Join(outs, "|"))
	}
	return outs
}

func sortedKeys(m map[string]string) []string {
	ks := make([]string, 0, len(m))
	for k := range m {
		ks = append(ks, k)
	}
	sort.Strings(ks)
	return ks
}

func main() {
	zerolog.SetGlobalLevel(zerolog.Disabled)
	proto.Main(proto.Harness{Rule: rule, Gen: gen, Exec: exec})
}
