package main

// L2q: quota system flows.  The declared quotas are written as ONE real quota YAML file and loaded through the
// real loader (resources.NewValidationResourceManagement): it groups the quotas' system flows under
// Filter.ToComparable() and folds quotas with the same key into one system-flow representation.  The generated
// system flows (GenerateSystemFlowStart / End) are registered in a real FilterTree (sorted by name: the
// loader hands them out in Go map order) and for every transaction the answer is the set of quota ids whose
// processors are wired into the selected flows.

import (
	"fmt"
	"os"
	"path/filepath"
	"sort"
	"strings"

	streamfilter "lunar/engine/streams/filter"
	streamflow "lunar/engine/streams/flow"
	internaltypes "lunar/engine/streams/internal-types"
	"lunar/engine/streams/resources"
)

func (f flowSpec) quotaYAML() string {
	var b strings.Builder
	fmt.Fprintf(&b, "  - id: %s\n    filter:\n      url: %s\n", f.name, js(f.url))
	if len(f.methods) > 0 {
		fmt.Fprintf(&b, "      method: %s\n", js(f.methods))
	}
	kvs := func(key string, ps []kvPair) {
		if len(ps) == 0 {
			return
		}
		fmt.Fprintf(&b, "      %s:\n", key)
		for _, p := range ps {
			if p.hasV {
				fmt.Fprintf(&b, "        - key: %s\n          value: %s\n", js(p.k), js(p.v))
			} else {
				fmt.Fprintf(&b, "        - key: %s\n", js(p.k))
			}
		}
	}
	kvs("headers", f.headers)
	kvs("query_params", f.query)
	if len(f.statuses) > 0 {
		fmt.Fprintf(&b, "      status_code: %s\n", js(f.statuses))
	}
	b.WriteString("    strategy:\n      fixed_window:\n        max: 100\n        interval: 1\n        interval_unit: minute\n")
	return b.String()
}

type quotaState struct {
	ft           internaltypes.FilterTreeI
	quotasOfFlow map[string][]string
}

// qload: answer `ok g=<id+id|id|...>` (the groups, members sorted, groups sorted) or `err`
func (st *state) qload() (res string) {
	defer func() {
		if r := recover(); r != nil {
			st.q = nil
			res = "panic"
		}
	}()
	st.q = nil
	root, err := os.MkdirTemp("", "verif-c03-quota-")
	if err != nil {
		return "err:tmp"
	}
	defer os.RemoveAll(root)
	os.MkdirAll(filepath.Join(root, "quotas"), 0o755)
	var y strings.Builder
	y.WriteString("quotas:\n")
	for _, q := range st.quotas {
		y.WriteString(q.quotaYAML())
	}
	os.WriteFile(filepath.Join(root, "quotas", "quotas.yaml"), []byte(y.String()), 0o644)
	rm, err := resources.NewValidationResourceManagement(root)
	if err != nil {
		return "err:load"
	}
	type gen struct {
		name string
		rep  internaltypes.FlowRepI
	}
	var flows []gen
	qs := &quotaState{ft: streamfilter.NewFilterTree(), quotasOfFlow: map[string][]string{}}
	groups := map[string]bool{}
	for _, sfr := range rm.GetUnReferencedFlowData() {
		for _, rep := range []internaltypes.FlowRepI{sfr.GenerateSystemFlowStart(), sfr.GenerateSystemFlowEnd()} {
			if rep == nil {
				continue
			}
			var ids []string
			for _, p := range rep.GetProcessors() {
				if id, found := p.ParamMap()["quota_id"]; found {
					ids = append(ids, id.GetString())
				}
			}
			sort.Strings(ids)
			qs.quotasOfFlow[rep.GetName()] = ids
			groups[strings.Join(ids, "+")] = true
			flows = append(flows, gen{rep.GetName(), rep})
		}
	}
	sort.Slice(flows, func(i, j int) bool { return flows[i].name < flows[j].name })
	for _, g := range flows {
		if r := safeAdd(qs.ft, streamflow.NewFlow(nil, g.rep, rm)); r != "ok" {
			return "err:add:" + r
		}
	}
	var gl []string
	for g := range groups {
		gl = append(gl, g)
	}
	sort.Strings(gl)
	st.q = qs
	return "ok g=" + strings.Join(gl, "|")
}

func (st *state) qreq(t txn, id string) string {
	if st.q == nil {
		return "no-quotas"
	}
	r, found := st.q.ft.GetFlow(t.stream(id))
	set := map[string]bool{}
	if found && r != nil {
		for _, get := range []func() ([]internaltypes.FlowI, bool){r.GetSystemFlowStart, r.GetSystemFlowEnd, r.GetUserFlow} {
			fl, _ := get()
			for _, f := range fl {
				for _, q := range st.q.quotasOfFlow[f.GetName()] {
					set[q] = true
				}
			}
		}
	}
	var ids []string
	for q := range set {
		ids = append(ids, q)
	}
	sort.Strings(ids)
	return "run=" + fmtList(ids)
}
