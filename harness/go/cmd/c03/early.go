package main

// Early responses.  L2 (`early`): the real FilterTree asked the way Stream.executeReq asks it after a short
// circuit — the REQUEST stream switched to the response type, no response object.  L3 (`eng early`): a real
// engine loaded with the declared user flows plus the match-all flow `zzearly`, all built from probe processors;
// zzearly's request direction answers the request (EarlyResponseAction), and the flows whose RESPONSE direction
// then runs (probe executions in the response direction) must be one of the selections the real FilterTree
// gives for the early response over all load orders.

import (
	"fmt"
	"os"
	"sort"
	"strings"
	"time"

	"lunar/engine/actions"
	lunarMessages "lunar/engine/messages"
	streamconfig "lunar/engine/streams/config"
	"lunar/engine/streams/processors"
	publictypes "lunar/engine/streams/public-types"
	streamtypes "lunar/engine/streams/types"

	"verif/harness/internal/engine"
	"verif/harness/internal/proto"
)

// the request stream as executeReq hands it to the filter tree after a short circuit
func (t txn) earlyStream(id string) publictypes.APIStreamI {
	s := t.stream(id)
	s.SetType(publictypes.StreamTypeResponse)
	return s
}

// ---- probe processors -----------------------------------------------------------------------

var probeLog []string // "<owner flow>:<req|res>", filled by the probes of the transaction being run

type probe struct {
	key, owner string
	early      bool
}

func (p *probe) GetName() string { return p.key }

func (p *probe) GetRequirement() *streamtypes.ProcessorRequirement {
	return &streamtypes.ProcessorRequirement{}
}

func (p *probe) Execute(flowName string, apiStream publictypes.APIStreamI) (streamtypes.ProcessorIO, error) {
	dir := "res"
	if apiStream.GetType().IsRequestType() {
		dir = "req"
	}
	probeLog = append(probeLog, p.owner+":"+dir)
	if p.early && dir == "req" {
		var act actions.ReqLunarAction = &actions.EarlyResponseAction{Status: 418, Body: flowName}
		return streamtypes.ProcessorIO{Type: publictypes.StreamTypeResponse, Name: "", ReqAction: act}, nil
	}
	return streamtypes.ProcessorIO{Type: apiStream.GetType(), Name: ""}, nil
}

func probeFactory(early bool) processors.ProcessorFactory {
	return func(md *streamtypes.ProcessorMetaData) (streamtypes.ProcessorI, error) {
		owner := "?"
		if pv, ok := md.Parameters["owner"]; ok && pv.Value != nil {
			owner = pv.Value.GetString()
		}
		return &probe{key: md.Name, owner: owner, early: early}, nil
	}
}

func probeDef(name, outType string) string {
	return fmt.Sprintf("name: %s\ndescription: probe\nexec: probe.go\nparameters:\n  owner:\n    type: string\n"+
		"    description: the flow that declares the processor\n    required: false\noutput_streams:\n  - type: %s\n"+
		"input_stream:\n  type: StreamTypeAny\n", name, outType)
}

const probeFlowTmpl = `name: %[1]s
filter:
  url: %[2]s
%[3]sprocessors:
  pq:
    processor: VerifC03Pass
    parameters:
      - key: owner
        value: %[1]s
  pr:
    processor: VerifC03Pass
    parameters:
      - key: owner
        value: %[1]s
flow:
  request:
    - from:
        stream:
          name: globalStream
          at: start
      to:
        processor:
          name: pq
    - from:
        processor:
          name: pq
      to:
        stream:
          name: globalStream
          at: end
  response:
    - from:
        stream:
          name: globalStream
          at: start
      to:
        processor:
          name: pr
    - from:
        processor:
          name: pr
      to:
        stream:
          name: globalStream
          at: end
`

const earlyFlowYAML = `name: zzearly
filter:
  url: "*"
processors:
  p0:
    processor: VerifC03Pass
    parameters:
      - key: owner
        value: zzearly
  pe:
    processor: VerifC03Early
    parameters:
      - key: owner
        value: zzearly
  px:
    processor: VerifC03Pass
    parameters:
      - key: owner
        value: zzearly
flow:
  request:
    - from:
        stream:
          name: globalStream
          at: start
      to:
        processor:
          name: p0
    - from:
        processor:
          name: p0
      to:
        processor:
          name: pe
  response:
    - from:
        processor:
          name: pe
      to:
        processor:
          name: px
    - from:
        processor:
          name: px
      to:
        stream:
          name: globalStream
          at: end
`

func (f flowSpec) probeYAML() string {
	y := f.yaml() // reuse the filter part of the ordinary engine YAML
	filt := y[strings.Index(y, "filter:\n")+len("filter:\n") : strings.Index(y, "processors:\n")]
	filt = filt[strings.Index(filt, "\n")+1:] // drop the `url:` line, re-added by the template
	return fmt.Sprintf(probeFlowTmpl, f.name, js(f.url), filt)
}

func (st *state) earlyEngine() *engState {
	if st.engEarly != nil {
		return st.engEarly
	}
	st.engEarly = &engState{}
	files := map[string]string{"flows/zzearly.yaml": earlyFlowYAML}
	for _, f := range userFlows(st.flows) {
		files["flows/"+f.name+".yaml"] = f.probeYAML()
	}
	var e *engine.Engine
	var err error
	func() {
		defer func() {
			if r := recover(); r != nil {
				err = fmt.Errorf("panic: %v", r)
			}
		}()
		e, err = engine.NewWith(files, engine.Options{MockClock: true,
			Defs: map[string]string{
				"VerifC03Pass":  probeDef("VerifC03Pass", "StreamTypeAny"),
				"VerifC03Early": probeDef("VerifC03Early", "StreamTypeResponse"),
			},
			Factories: map[string]processors.ProcessorFactory{
				"VerifC03Pass":  probeFactory(false),
				"VerifC03Early": probeFactory(true),
			}})
	}()
	if err != nil {
		st.engEarly.failed = true
		st.engEarly.err = err
		return st.engEarly
	}
	st.engEarly.e = e
	return st.engEarly
}

// the flows whose probes ran in direction dir, sorted and de-duplicated
func ranIn(dir string) string {
	var out []string
	for _, l := range probeLog {
		if strings.HasSuffix(l, ":"+dir) {
			out = append(out, strings.TrimSuffix(l, ":"+dir))
		}
	}
	return selKey(out)
}

func (st *state) engEarlyReq(t txn, id string, o *proto.Out) string {
	fs := userFlows(st.flows)
	for _, f := range fs {
		if f.name == "zzearly" {
			return "unsupported"
		}
	}
	if len(fs) > 3 {
		return "unsupported"
	}
	all := append(append([]flowSpec{}, fs...), flowSpec{name: "zzearly", url: "*"})
	poss := possibleWith(all, func() publictypes.APIStreamI { return t.earlyStream("p") })
	es := st.earlyEngine()
	if es.failed {
		if os.Getenv("VERIF_DEBUG") != "" {
			fmt.Fprintln(os.Stderr, "early engine init failed:", es.err)
		}
		o.Count("early-init-refused")
		return "poss=" + strings.Join(poss, "|") + " eng=in n=ok"
	}
	probeLog = nil
	api := streamtypes.NewRequestAPIStream(lunarMessages.OnRequest{ID: id, SequenceID: id, Method: t.method,
		Scheme: "https", URL: t.url, Query: t.query, Headers: t.headers, Time: time.Unix(1_700_000_000, 0)}, shared)
	acts := &streamconfig.StreamActions{Request: &streamconfig.RequestStream{}, Response: &streamconfig.ResponseStream{}}
	err := es.e.Stream.ExecuteFlow(api, acts)
	got := ranIn("res")
	in := inOut(got, poss)
	early := false
	for _, a := range acts.Request.Actions {
		if a.IsEarlyReturnType() {
			early = true
		}
	}
	n := "ok"
	if err != nil || !early {
		n = "BAD" // the match-all flow must have answered the request
	}
	o.Count("early-res-walk-" + fmt.Sprint(min(strings.Count(got, ",")+1, 3)))
	return "poss=" + strings.Join(poss, "|") + " eng=" + in + " n=" + n
}

var _ = sort.Strings
