package main

// L3: the real engine.  The declared USER flows are written as YAML into a temp dir and loaded by
// streams.Stream.Initialize (load order = Go map iteration, not observable).  The selection of the engine's OWN
// filter tree is read through the verif-tagged hook Stream.VerifSelectFlows (request and response events); a
// request is also run through Stream.ExecuteFlow and the user flows it invoked (Stream.GetFlowInvocations())
// must be exactly the selected ones.
//
// Because the load order is arbitrary, the answer line does not contain the engine's selection itself but
//   poss=<the set of selections the REAL FilterTree gives over ALL load orders of those flows>
//   eng=<in|OUT:<selection>>      whether the engine's selection is one of them
//   n=<ok|BAD>                    nothing selected => no action, no request counted as "through flows"
// The model prints the same line with its own `poss` and the constants `eng=in n=ok`.

import (
	"encoding/json"
	"fmt"
	"os"
	"sort"
	"strings"
	"time"

	lunarMessages "lunar/engine/messages"
	streamconfig "lunar/engine/streams/config"
	streamfilter "lunar/engine/streams/filter"
	internaltypes "lunar/engine/streams/internal-types"
	publictypes "lunar/engine/streams/public-types"
	streamtypes "lunar/engine/streams/types"

	"verif/harness/internal/engine"
	"verif/harness/internal/proto"
)

const engFlowTmpl = `name: %s
filter:
  url: %s
%sprocessors:
  met:
    processor: UserDefinedMetrics
    parameters:
      - key: metric_name
        value: verif_c03
flow:
  request:
    - from:
        stream:
          name: globalStream
          at: start
      to:
        processor:
          name: met
    - from:
        processor:
          name: met
      to:
        stream:
          name: globalStream
          at: end
  response:
    - from:
        stream:
          name: globalStream
          at: start
      to:
        stream:
          name: globalStream
          at: end
`

func js(v any) string {
	b, _ := json.Marshal(v)
	return string(b)
}

func (f flowSpec) yaml() string {
	var b strings.Builder
	if len(f.methods) > 0 {
		fmt.Fprintf(&b, "  method: %s\n", js(f.methods))
	}
	kvs := func(key string, ps []kvPair) {
		if len(ps) == 0 {
			return
		}
		fmt.Fprintf(&b, "  %s:\n", key)
		for _, p := range ps {
			if p.hasV {
				fmt.Fprintf(&b, "    - key: %s\n      value: %s\n", js(p.k), js(p.v))
			} else {
				fmt.Fprintf(&b, "    - key: %s\n", js(p.k))
			}
		}
	}
	kvs("headers", f.headers)
	kvs("query_params", f.query)
	if len(f.statuses) > 0 {
		fmt.Fprintf(&b, "  status_code: %s\n", js(f.statuses))
	}
	return fmt.Sprintf(engFlowTmpl, f.name, js(f.url), b.String())
}

func userFlows(fs []flowSpec) []flowSpec {
	var out []flowSpec
	for _, f := range fs {
		// the YAML loader skips a flow without filter URL ("filter url is required")
		if f.kind == internaltypes.UserFlow && f.url != "" {
			out = append(out, f)
		}
	}
	return out
}

// selections of the real FilterTree over all load orders: sorted user-flow names, "!" for a load that failed
func possible(fs []flowSpec, t txn) []string {
	return possibleWith(fs, func() publictypes.APIStreamI { return t.stream("p") })
}

func possibleWith(fs []flowSpec, mk func() publictypes.APIStreamI) []string {
	set := map[string]bool{}
	for _, p := range allPerms(len(fs)) {
		ft := streamfilter.NewFilterTree()
		failed := false
		for _, k := range p {
			if safeAdd(ft, fs[k].build()) != "ok" {
				failed = true
				break
			}
		}
		if failed {
			set["!"] = true
			continue
		}
		r, _ := ft.GetFlow(mk())
		var u []string
		if r != nil {
			if l, ok := r.GetUserFlow(); ok {
				u = names(l)
			}
		}
		set[selKey(u)] = true
	}
	out := make([]string, 0, len(set))
	for k := range set {
		out = append(out, k)
	}
	sort.Strings(out)
	return out
}

func selKey(u []string) string {
	u = append([]string(nil), u...)
	sort.Strings(u)
	// a flow reported twice (two nodes) is invoked twice; the SET is what is compared
	var d []string
	for i, x := range u {
		if i == 0 || u[i-1] != x {
			d = append(d, x)
		}
	}
	return fmtList(d)
}

type engState struct {
	e      *engine.Engine
	failed bool
	err    error
}

func (st *state) engine() *engState {
	if st.eng != nil {
		return st.eng
	}
	st.eng = &engState{}
	files := map[string]string{}
	for _, f := range userFlows(st.flows) {
		files["flows/"+f.name+".yaml"] = f.yaml()
	}
	var e *engine.Engine
	var err error
	func() {
		// AddFlow dereferences a nil node when `a.com/*/*` was loaded before `a.com/*` (model: AddErr.nilNode);
		// inside the engine that panic escapes Stream.Initialize
		defer func() {
			if r := recover(); r != nil {
				err = fmt.Errorf("panic: %v", r)
			}
		}()
		e, err = engine.New(files, true)
	}()
	if err != nil {
		if os.Getenv("VERIF_DEBUG") != "" {
			fmt.Fprintln(os.Stderr, "engine init failed:", err)
		}
		st.eng.failed = true
		return st.eng
	}
	st.eng.e = e
	return st.eng
}

func (st *state) closeEngine() {
	if st.engEarly != nil && st.engEarly.e != nil {
		st.engEarly.e.Close()
	}
	if st.eng != nil && st.eng.e != nil {
		st.eng.e.Close()
	}
}

func (st *state) engReq(t txn, id string, o *proto.Out) string {
	fs := userFlows(st.flows)
	if len(fs) == 0 || len(fs) > 4 {
		return "unsupported"
	}
	poss := possible(fs, t)
	es := st.engine()
	if es.failed {
		// the engine's loader refused the configuration (it runs validations of its own, e.g. the
		// duplication tree of streams/validation, that AddFlow does not): nothing to observe at this level
		o.Count("eng-init-refused")
		return "poss=" + strings.Join(poss, "|") + " eng=in n=ok"
	}
	if t.isResp {
		u, _, _, _ := es.e.Stream.VerifSelectFlows(t.stream(id))
		return "poss=" + strings.Join(poss, "|") + " eng=" + inOut(selKey(u), poss) + " n=ok"
	}
	sel, _, _, found := es.e.Stream.VerifSelectFlows(t.stream(id + "s"))
	before := es.e.Stream.GetFlowInvocations()
	through := es.e.Stream.GetRequestsThroughFlows()
	api := streamtypes.NewRequestAPIStream(lunarMessages.OnRequest{ID: id, SequenceID: id, Method: t.method,
		Scheme: "https", URL: t.url, Query: t.query, Headers: t.headers, Time: time.Unix(1_700_000_000, 0)}, shared)
	acts := &streamconfig.StreamActions{Request: &streamconfig.RequestStream{}, Response: &streamconfig.ResponseStream{}}
	err := es.e.Stream.ExecuteFlow(api, acts)
	after := es.e.Stream.GetFlowInvocations()
	var inv []string
	for k, v := range after {
		if v > before[k] {
			inv = append(inv, k)
		}
	}
	got := selKey(inv)
	in := inOut(got, poss)
	if selKey(sel) != got || found != (len(inv) > 0) {
		in = "OUT:invoked=" + got + ",selected=" + selKey(sel) // what ran is not what the filter tree selected
	}
	n := "ok"
	if len(inv) == 0 && (len(acts.Request.Actions) != 0 || len(acts.Response.Actions) != 0 ||
		es.e.Stream.GetRequestsThroughFlows() != through || err != nil) {
		n = "BAD"
	}
	return "poss=" + strings.Join(poss, "|") + " eng=" + in + " n=" + n
}

func inOut(got string, poss []string) string {
	for _, p := range poss {
		if p == got {
			return "in"
		}
	}
	return "OUT:" + got
}
