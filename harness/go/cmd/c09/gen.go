package main

import (
	"fmt"
	"strings"
	"time"

	"verif/harness/internal/prng"
	"verif/harness/internal/proto"
)

const sec = int64(1_000_000_000)

type rem struct {
	id      int
	name    string
	allowed int64
	win     int64
	status  int
	spill   bool
	renew   int
	alloc   bool
	nohdr   bool
	hdr     string
	dflt    string
	dpct    string
	groups  [][2]string // value, fraction
}

func (m rem) line() string {
	s := fmt.Sprintf("remedy id=%d name=%s allowed=%d win=%d status=%d spill=%d renew=%d", m.id, proto.Enc(m.name),
		m.allowed, m.win, m.status, b2i(m.spill), m.renew)
	if m.alloc {
		if m.nohdr {
			s += " nohdr"
		} else {
			s += " hdr=" + proto.Enc(m.hdr)
		}
		s += " default=" + proto.Enc(m.dflt) + " dpct=" + m.dpct
		for _, g := range m.groups {
			s += " g=" + proto.Enc(g[0]) + "&" + g[1]
		}
	}
	return s
}

func b2i(b bool) int {
	if b {
		return 1
	}
	return 0
}

var (
	names     = []string{"r", "q", "R", "my remedy", "r "}
	wins      = []int64{1, 1, 1, 2, 3, 5, 10, 60}
	statuses  = []int{0, 0, 429, 503, 418}
	hdrNames  = []string{"X-Group", "x-group", "X-Tenant"}
	// two values longer than 64 bytes that share their first 70 (bearer tokens of one issuer, long API keys with a
	// common prefix): different groups for the allocation table, hence different counters
	longA     = "Bearer-eyJhbGciOiJSUzI1NiIsInR5cCI6IkpXVCIsImtpZCI6Imlzc3Vlci0wMDEifQ.consumer-A"
	longB     = "Bearer-eyJhbGciOiJSUzI1NiIsInR5cCI6IkpXVCIsImtpZCI6Imlzc3Vlci0wMDEifQ.consumer-B"
	hdrValues = []string{"a", "b", "A", " a", "c", "", "a b", "Gold", "gold", "TeamA", "teama", "a ", "B", longA, longB}
	// exact and inexact percentages: 7, 33, 7.25, 1/3 … do not have an exact float64 ratio (F09b candidates)
	pcts     = []string{"25/1", "50/1", "75/1", "100/1", "0/1", "10/1", "20/1", "150/1", "7/1", "33/1", "725/100", "1/3", "29/1", "57/1", "7000001/1000000", "333333/1000000", "999999/1000000", "1250001/100000", "58/1", "14/1"}
	exactPct = []string{"25/1", "50/1", "75/1", "100/1", "0/1", "150/1", "125/10"}
	defaults = []string{"allow", "block", "use_default_allocation", "use_default_allocation", "", "Allow", "deny"}
	bases    = []int64{1000, 1_700_000_000, 1709251200 - 2, 1709164800 - 1, 0, 86400*15 - 3}
)

// mode of a case
const (
	mClean    = iota // no boundary instant, no window-size change: the `_partial` theorems apply
	mBoundary        // requests exactly on grid boundaries (class F09a)
	mWChange         // the window size of a key changes between requests (class F09c)
	mAny
)

func genRemedy(r *prng.R, id int, base int64, floaty bool) rem {
	m := rem{id: id}
	huge := false
	m.name = names[id%3]
	if r.Chance(15) {
		m.name = prng.Pick(r, names)
	}
	m.allowed = int64(r.Range(1, 5))
	switch r.Intn(12) {
	case 0:
		m.allowed = 0
	case 1:
		m.allowed = -1
	case 2:
		m.allowed = prng.Pick(r, []int64{7, 10, 100})
	case 3:
		if !floaty && r.Chance(40) {
			// huge allowances (scaledCeil must not overflow): around 2^63/1e8, 1e11, 1e15, near 2^63
			m.allowed = prng.Pick(r, []int64{92233720368, 92233720369, 100000000000, 184467440737, 1000000000000000,
				4611686018427387904, 9000000000000000000, 9223372036854775807})
			huge = true
		}
	}
	m.win = prng.Pick(r, wins)
	m.status = prng.Pick(r, statuses)
	if !huge && r.Chance(25) {
		m.spill = true
		day := time.Unix(base, 0).UTC().Day()
		m.renew = prng.Pick(r, []int{day, day + 1, 0, 1, 15, 31})
	}
	if huge {
		exact100 := []string{"25/1", "50/1", "75/1", "100/1", "0/1", "125/10", "7/1", "999999/1000000"}
		if r.Chance(60) {
			m.alloc = true
			m.hdr = prng.Pick(r, hdrNames)
			m.dflt = prng.Pick(r, defaults)
			m.dpct = prng.Pick(r, exact100)
			for i, n := 0, r.Range(0, 3); i < n; i++ {
				m.groups = append(m.groups, [2]string{prng.Pick(r, hdrValues), prng.Pick(r, exact100)})
			}
		}
	} else if r.Chance(60) {
		m.alloc = true
		m.hdr = prng.Pick(r, hdrNames)
		m.dflt = prng.Pick(r, defaults)
		ps := exactPct
		if floaty {
			ps = pcts
		}
		m.dpct = prng.Pick(r, ps)
		n := r.Range(0, 3)
		for i := 0; i < n; i++ {
			m.groups = append(m.groups, [2]string{prng.Pick(r, hdrValues), prng.Pick(r, ps)})
		}
	}
	return m
}

// nextT moves the clock to the next "interesting" instant relative to the grid of window w (seconds).
func nextT(r *prng.R, t int64, w int64, boundaryOK bool) int64 {
	W := w * sec
	nb := (t/W + 1) * W // next grid boundary after t
	var n int64
	switch r.Intn(12) {
	case 0, 1, 2:
		n = t // burst at the same instant
	case 3:
		n = t + 1
	case 4, 5:
		n = nb // exactly on the boundary
	case 6:
		n = nb - 1
	case 7:
		n = nb + 1
	case 8:
		n = nb + W/2 + int64(r.Intn(1000))
	case 9:
		n = nb + int64(r.Range(1, 4))*W + int64(r.Intn(int(W)))
	case 10:
		n = t + int64(r.Intn(int(W/4)))
	default:
		n = nb + int64(r.Range(0, 2))*W // a later boundary
	}
	if n < t {
		n = t
	}
	if !boundaryOK && n%sec == 0 {
		n += 1 + int64(r.Intn(3))*333_333_333
	}
	return n
}

func reqLine(r *prng.R, m rem, t int64) string {
	s := fmt.Sprintf("req id=%d t=%d", m.id, t)
	if !m.alloc || m.nohdr {
		if r.Chance(20) {
			s += " h=" + proto.Enc("X-Group") + "&" + proto.Enc(prng.Pick(r, hdrValues))
		}
		return s
	}
	if r.Chance(8) {
		return s // header absent
	}
	name := m.hdr
	if r.Chance(8) {
		name = prng.Pick(r, hdrNames) // maybe another case / another header: lookup is exact
	}
	v := prng.Pick(r, hdrValues)
	if len(m.groups) > 0 && r.Chance(60) {
		v = m.groups[r.Intn(len(m.groups))][0]
	}
	s += " h=" + proto.Enc(name) + "&" + proto.Enc(v)
	if r.Chance(5) {
		s += " h=" + proto.Enc(name) + "&" + proto.Enc(prng.Pick(r, hdrValues)) // duplicate: last wins in a map
	}
	return s
}

func genCase(r *prng.R, mode int) []string {
	base := prng.Pick(r, bases)
	caseFam := 0 // 1: case-variant values configured in the table, 2: case-variant values under the default allocation
	if r.Chance(15) {
		caseFam = r.Range(1, 2)
	}
	var famValues []string
	// the clock advances on every reading during a call (a third of the cases): TryToIncrement must decide the
	// window AND the roll-over from one reading, whatever the clock does afterwards
	ticking := r.Chance(33)
	tickOf := func() string {
		if !ticking {
			return ""
		}
		return fmt.Sprintf(" tick=%d", prng.Pick(r, []int64{1, 1, 1, 2, 7, 1000, 500_000_000, 1_000_000_000}))
	}
	floaty := r.Chance(15)
	nrem := r.Range(1, 3)
	rs := make([]rem, nrem)
	var ops []string
	if r.Chance(25) {
		ops = append(ops, "wiring hasher=md5") // unit-test wiring; default = identity obfuscator (production)
	} else if r.Chance(10) {
		ops = append(ops, "wiring hasher=identity")
	}
	noCounters := false
	for i := range rs {
		rs[i] = genRemedy(r, i, base, floaty)
		if i == 0 && caseFam > 0 {
			// group values (and header names) that differ ONLY in letter case: different groups for the allocation
			// table, hence different counters (only the header NAME is case-folded in the key)
			m := &rs[i]
			m.alloc, m.nohdr = true, false
			m.hdr = prng.Pick(r, []string{"X-Group", "x-group", "X-GROUP", "authorization"})
			m.allowed = int64(r.Range(2, 10))
			pair := prng.Pick(r, [][]string{{"Gold", "gold", "GOLD"}, {"TeamA", "teama", "TEAMA"}, {"a", "A"}, {"b", "B"},
				{longA, longB}, {longA, longB, longA + "x"}})
			m.groups = nil
			if caseFam == 1 {
				// both variants configured, each with its own percentage
				for _, v := range pair[:2] {
					m.groups = append(m.groups, [2]string{v, prng.Pick(r, []string{"50/1", "20/1", "25/1", "75/1", "10/1"})})
				}
				m.dflt = prng.Pick(r, []string{"block", "use_default_allocation", "allow"})
			} else {
				// both unknown: default allocation
				m.dflt = "use_default_allocation"
			}
			m.dpct = prng.Pick(r, []string{"50/1", "25/1", "100/1"})
			famValues = pair
		}
		if mode == mClean || mode == mBoundary {
			// a shared name means a shared limiter key: keep its window size constant
			for j := 0; j < i; j++ {
				if rs[j].name == rs[i].name {
					rs[i].win = rs[j].win
				}
			}
		}
		if mode == mAny && r.Chance(5) {
			switch r.Intn(3) {
			case 0:
				rs[i].win = 0 // zero window: integer divide by zero in ensureWindowIsUpdated
				// (its own name: a zero-window request is no limiter event, yet on a SHARED key it would be a
				//  window-size change the judge cannot see)
				rs[i].name = fmt.Sprintf("zero-window-%d", i)
			case 1:
				rs[i].alloc, rs[i].nohdr = true, true
				rs[i].dflt, rs[i].dpct = "allow", "50/1"
			case 2:
				rs[i].name = ""
			}
		}
		// (since fix F09d a metrics scrape only reads: it is generated for every kind of case,
		//  spill-over and zero windows included)
		ops = append(ops, rs[i].line())
	}
	t := base*sec + int64(r.Intn(int(sec)))
	if t%sec == 0 {
		t++
	}
	n := r.Range(4, 40)
	boundaryOK := mode == mBoundary || mode == mAny || mode == mWChange
	for k := 0; k < n; k++ {
		i := r.Intn(nrem)
		if r.Chance(65) {
			i = 0
		}
		w := rs[r.Intn(nrem)].win
		if w == 0 {
			w = 1
		}
		t = nextT(r, t, w, boundaryOK)
		if famValues != nil && i == 0 && r.Chance(85) {
			hn := rs[0].hdr
			if r.Chance(10) {
				hn = prng.Pick(r, []string{"X-Group", "x-group", "X-GROUP"}) // exact-match lookup: other case = absent
			}
			ops = append(ops, fmt.Sprintf("req id=0 t=%d%s h=%s&%s", t, tickOf(), proto.Enc(hn), proto.Enc(prng.Pick(r, famValues))))
		} else if r.Chance(8) {
			// concurrent callers at one instant
			l := reqLine(r, rs[i], t)
			ops = append(ops, "burst"+strings.TrimPrefix(l, "req")+fmt.Sprintf(" n=%d par=%d", r.Range(2, 12), r.Range(2, 8)))
		} else {
			l := reqLine(r, rs[i], t)
			if tk := tickOf(); tk != "" {
				// `req id=N t=T` + tick + rest
				p := strings.SplitN(l, " ", 4)
				l = strings.Join(p[:3], " ") + tk
				if len(p) == 4 {
					l += " " + p[3]
				}
			}
			ops = append(ops, l)
		}
		if !noCounters && r.Chance(6) {
			t = nextT(r, t, w, boundaryOK) // the metric scrape happens on the same (monotone) clock
			ops = append(ops, fmt.Sprintf("counters t=%d", t))
		}
		if (mode == mWChange || mode == mAny) && r.Chance(12) {
			// reconfigure: window size (and sometimes more) changes between requests
			m := rs[i]
			m.win = prng.Pick(r, wins)
			if r.Chance(30) {
				m.allowed = int64(r.Range(1, 5))
			}
			rs[i] = m
			ops = append(ops, m.line())
		} else if r.Chance(4) {
			// reconfigure keeping the window size: allowed / allocation / status change
			m := genRemedy(r, rs[i].id, base, floaty)
			m.name, m.win, m.spill, m.renew = rs[i].name, rs[i].win, rs[i].spill, rs[i].renew
			if m.allowed < 1_000_000 && rs[i].allowed < 1_000_000 && r.Chance(50) {
				m.spill = !m.spill // spill-over switched on/off by the reconfiguration
			}
			if m.allowed >= 1_000_000 {
				m.spill = false
			}
			rs[i] = m
			ops = append(ops, m.line())
		}
	}
	return ops
}

func gen(r *prng.R, f proto.Flags, emit func(proto.Case)) {
	n := 4000
	if f.Tier == "thorough" {
		n = 40000
	}
	n *= f.Budget
	id := 0
	for k := 0; k < n; k++ {
		rr := r.Fork()
		mode := mClean
		switch x := rr.Intn(100); {
		case x < 45:
			mode = mClean
		case x < 80:
			mode = mBoundary
		case x < 90:
			mode = mWChange
		default:
			mode = mAny
		}
		id++
		emit(proto.Case{ID: fmt.Sprintf("g%d", id), Ops: genCase(rr, mode)})
	}
	// malformed stream
	for k := 0; k < n/40; k++ {
		rr := r.Fork()
		ops := genCase(rr, mAny)
		j := rr.Intn(len(ops))
		switch rr.Intn(4) {
		case 0:
			ops[j] = "frobnicate " + ops[j]
		case 1:
			ops[j] = strings.Replace(ops[j], "id=", "idd=", 1)
		case 2:
			ops[j] = strings.Replace(ops[j], "t=", "t=x", 1)
		case 3:
			ops[j] = "req id=9 t=5"
		}
		id++
		emit(proto.Case{ID: fmt.Sprintf("m%d", id), Ops: ops})
	}
	// dispatcher-level family: policies document -> loader/validation -> services.Initialize -> DispatchOnRequest
	nd := 500
	if f.Tier == "thorough" {
		nd = 6000
	}
	for k := 0; k < nd*f.Budget; k++ {
		id++
		emit(proto.Case{ID: fmt.Sprintf("d%d", id), Ops: genDispatchCase(r.Fork())})
	}
	// first-use stress at the dispatcher level: a FRESHLY loaded configuration (nothing of it was ever used: lazily
	// resolved remedy types, limiter keys, plugin state) whose very first requests arrive concurrently, released by a
	// spin barrier; then a second burst in the same window and one in the next
	nfu := 400
	if f.Tier == "thorough" {
		nfu = 4000
	}
	for k := 0; k < nfu*f.Budget; k++ {
		rr := r.Fork()
		allowed := rr.Range(1, 12)
		win := prng.Pick(rr, []int64{2, 60, 3600})
		u := prng.Pick(rr, dURLs)
		m := prng.Pick(rr, []string{"GET", "POST"})
		ops := []string{fmt.Sprintf("dpol scope=%s name=t1 enabled=1 kind=throttle allowed=%d win=%d status=%d spill=0 renew=0",
			prng.Pick(rr, []string{"e url=" + proto.Enc(u) + " method=" + m, "g"}), allowed, win, prng.Pick(rr, []int{0, 429, 503}))}
		if rr.Chance(40) {
			ops = append(ops, fmt.Sprintf("dpol scope=e url=%s method=%s name=aux enabled=1 kind=%s", proto.Enc(u), m,
				prng.Pick(rr, []string{"retry attempts=1 cooldown=0 mult=1 lo=429 hi=503", "basic", "cache ttl=10000000 maxrec=100000"})))
		}
		t := 1000*sec + 1 + int64(rr.Intn(int(sec)-1))
		par := prng.Pick(rr, []int{2, 4, 8, 16})
		ops = append(ops, "dload",
			fmt.Sprintf("dburst url=%s method=%s t=%d n=%d par=%d", proto.Enc(u), m, t, par*rr.Range(1, 2), par),
			fmt.Sprintf("dburst url=%s method=%s t=%d n=%d par=%d", proto.Enc(u), m, t+1, rr.Range(1, 16), prng.Pick(rr, []int{2, 8})),
			fmt.Sprintf("dburst url=%s method=%s t=%d n=%d par=%d", proto.Enc(u), m, t+win*sec, rr.Range(1, 16), prng.Pick(rr, []int{2, 8})))
		id++
		emit(proto.Case{ID: fmt.Sprintf("fu%d", id), Ops: ops})
	}
	// concurrency stress: many goroutines on few keys, bursts larger than the cap, several windows
	nst := 600
	if f.Tier == "thorough" {
		nst = 3000
	}
	for k := 0; k < nst*f.Budget; k++ {
		rr := r.Fork()
		allowed := rr.Range(1, 40)
		ops := []string{fmt.Sprintf("remedy id=0 name=r allowed=%d win=1 status=0 spill=0 renew=0 hdr=g default=use_default_allocation dpct=50/1 g=a&25/1 g=b&75/1", allowed),
			fmt.Sprintf("remedy id=1 name=q allowed=%d win=2 status=503 spill=0 renew=0", allowed)}
		t := 1000*sec + 1 + int64(rr.Intn(int(sec)-1))
		for j := 0; j < 6; j++ {
			switch prng.Pick(rr, []int{0, 1, 2, 3, 3, 3}) {
			case 3:
				// several groups at once, some never seen before: concurrent get-or-create on the shared map
				l := fmt.Sprintf("burst id=0 t=%d n=%d par=%d", t, rr.Range(8, 96), rr.Range(2, 32))
				na := rr.Range(2, 12)
				off := rr.Intn(20)
				for a := 0; a < na; a++ {
					v := prng.Pick(rr, []string{"a", "b", "c"})
					if a > 0 {
						v = fmt.Sprintf("k%d", off+a) // distinct fresh values
					}
					l += " alt=g&" + v
				}
				ops = append(ops, l)
			case 0:
				ops = append(ops, fmt.Sprintf("burst id=0 t=%d h=g&%s n=%d par=%d", t, prng.Pick(rr, []string{"a", "b", "c"}), rr.Range(1, 64), rr.Range(2, 32)))
			case 1:
				ops = append(ops, fmt.Sprintf("burst id=1 t=%d n=%d par=%d", t, rr.Range(1, 64), rr.Range(2, 32)))
			case 2:
				ops = append(ops, fmt.Sprintf("counters t=%d", t))
			}
			if rr.Chance(40) {
				t += sec/2 + int64(rr.Intn(int(sec)))
				if t%sec == 0 {
					t++
				}
			}
		}
		id++
		emit(proto.Case{ID: fmt.Sprintf("c%d", id), Ops: ops})
	}
	if f.Tier != "thorough" {
		return
	}
	// (a) every sequence of ≤ 6 clock moves over a 7-letter alphabet, one ungrouped remedy, W = 1 s, allowed ∈ {1,2}
	moves := []string{"same", "+1", "b-1", "b", "b+1", "mid", "+2w"}
	for _, allowed := range []int{1, 2} {
		for ln := 1; ln <= 6; ln++ {
			total := 1
			for i := 0; i < ln; i++ {
				total *= len(moves)
			}
			for m := 0; m < total; m++ {
				ops := []string{fmt.Sprintf("remedy id=0 name=r allowed=%d win=1 status=0 spill=0 renew=0", allowed)}
				t := 1000*sec + 500_000_000
				ops = append(ops, fmt.Sprintf("req id=0 t=%d tick=1", t))
				x := m
				for i := 0; i < ln; i++ {
					nb := (t/sec + 1) * sec
					switch moves[x%len(moves)] {
					case "+1":
						t++
					case "b-1":
						if nb-1 > t {
							t = nb - 1
						}
					case "b":
						t = nb
					case "b+1":
						t = nb + 1
					case "mid":
						t = nb + sec/2
					case "+2w":
						t += 2 * sec
					}
					x /= len(moves)
					ops = append(ops, fmt.Sprintf("req id=0 t=%d tick=1", t))
				}
				id++
				emit(proto.Case{ID: fmt.Sprintf("e%d", id), Ops: ops})
			}
		}
	}
	// (b) the effective cap (passes in one fresh window) over a grid of allowed × percentage with ≤ 2 decimals:
	//     model (float64) = implementation; the judge compares with the exact rational and reports F09b.
	var alloweds []int
	for a := 1; a <= 40; a++ {
		alloweds = append(alloweds, a)
	}
	alloweds = append(alloweds, 50, 100, 200)
	for _, a := range alloweds {
		for p := 0; p <= 10000; p += 25 {
			pp := p
			if p%100 == 25 {
				pp = p + (a*7)%23 // spread over non-round hundredths
			}
			capGuess := (a*pp)/10000 + 3
			ops := []string{fmt.Sprintf("remedy id=0 name=r allowed=%d win=1 status=0 spill=0 renew=0 hdr=g default=block dpct=0/1 g=a&%d/100", a, pp)}
			for i := 0; i < capGuess; i++ {
				ops = append(ops, fmt.Sprintf("req id=0 t=%d h=g&a", 1000*sec+500_000_000+int64(i)))
			}
			id++
			emit(proto.Case{ID: fmt.Sprintf("f%d", id), Ops: ops})
		}
	}
}

var (
	dURLs    = []string{"api.example.com/orders", "api.example.com/invoices", "api.example.com/users"}
	dMethods = []string{"GET", "GET", "POST"}
	dWins    = []int64{2, 10, 60, 3600, 7200}
	dRetry   = [][2]int{{429, 429}, {400, 599}, {503, 503}, {500, 500}, {200, 299}, {418, 429}}
)

// genDispatchCase: 1-3 endpoints with a throttling remedy (and maybe a retry remedy), sometimes a global
// throttling and/or retry remedy, names distinct or (20 %) one name used twice; then requests to the endpoints.
func genDispatchCase(r *prng.R) []string {
	type ep struct{ url, method string }
	var eps []ep
	seen := map[string]bool{}
	// one spelling per declared URL and case: as is, or with leading / trailing dots and slashes (the loader and the
	// URL tree trim them); often two methods are declared for one URL, each with its own policies
	spell := map[string]string{}
	for _, u := range dURLs {
		spell[u] = prng.Pick(r, []string{u, u, u + "/", u + "/", "." + u, u + "/.", u + "./"})
	}
	for n := r.Range(1, 3); len(eps) < n; {
		e := ep{prng.Pick(r, dURLs), prng.Pick(r, []string{"GET", "POST"})}
		if len(eps) > 0 && r.Chance(50) {
			e.url = eps[len(eps)-1].url // the same URL for another method
		}
		if !seen[e.url+e.method] {
			seen[e.url+e.method] = true
			eps = append(eps, e)
		}
	}
	respell := func(u string) string {
		if r.Chance(70) {
			return spell[u]
		}
		return prng.Pick(r, []string{u, u + "/", "." + u, u + "./"})
	}
	type pol struct {
		scope, url, method, name, rest string
		win                            int64
	}
	var pols []pol
	throttle := func(name string) (string, int64) {
		win := prng.Pick(r, dWins)
		l := fmt.Sprintf("kind=throttle allowed=%d win=%d status=%d spill=%d renew=31", r.Range(1, 4), win,
			prng.Pick(r, []int{0, 429, 503, 418}), b2i(r.Chance(15)))
		if r.Chance(30) {
			l += " hdr=X-Group default=" + prng.Pick(r, []string{"block", "allow", "use_default_allocation"}) +
				" dpct=50/1 g=a&50/1 g=b&" + prng.Pick(r, []string{"25/1", "100/1", "7/1"})
			if r.Chance(40) {
				l += " g=" + proto.Enc(longA) + "&50/1 g=" + proto.Enc(longB) + "&25/1"
			}
		}
		return l, win
	}
	retry := func() string {
		rg := prng.Pick(r, dRetry)
		return fmt.Sprintf("kind=retry attempts=%d cooldown=%d mult=2 lo=%d hi=%d", r.Range(0, 2), r.Range(0, 3), rg[0], rg[1])
	}
	// the other remedy kinds that can share a request-side chain with throttling, in every order (the list is
	// shuffled below): authentication (o_auth => GenerateRequestAction; api_key / basic => ModifyRequestAction),
	// account orchestration, fixed_response (answers when the request carries early-response: true), caching
	others := []string{"kind=oauth", "kind=oauth", "kind=apikey", "kind=basic", "kind=acct"}
	withCache := r.Chance(12)
	for i, e := range eps {
		t, win := throttle("")
		eurl := spell[e.url]
		pols = append(pols, pol{"e", eurl, e.method, fmt.Sprintf("throttle-%d", i), t, win})
		if r.Chance(40) {
			pols = append(pols, pol{"e", eurl, e.method, fmt.Sprintf("retry-%d", i), retry(), 0})
		}
		for j, n := 0, r.Intn(3); j < n; j++ {
			pols = append(pols, pol{"e", eurl, e.method, fmt.Sprintf("aux-%d-%d", i, j), prng.Pick(r, others), 0})
		}
		if r.Chance(12) {
			pols = append(pols, pol{"e", eurl, e.method, fmt.Sprintf("fixed-%d", i), fmt.Sprintf("kind=fixed status=%d", prng.Pick(r, []int{200, 418, 429})), 0})
		}
		if withCache && r.Chance(60) {
			pols = append(pols, pol{"e", eurl, e.method, fmt.Sprintf("cache-%d", i),
				fmt.Sprintf("kind=cache ttl=10000000 maxrec=%d", prng.Pick(r, []int{100000, 100000, 10})), 0})
		}
	}
	if r.Chance(20) {
		pols = append(pols, pol{"g", "", "", "aux-all", prng.Pick(r, others), 0})
	}
	// a remedy that SETS the header a throttling remedy groups by (account orchestration over per-account keys, or
	// api-key authentication), listed before or after it (the list is shuffled), while clients send that header with a
	// placeholder / one of the keys / not at all: the throttle must group by what the earlier remedy put on the request
	setterFam := r.Chance(25)
	if setterFam {
		e := eps[0]
		eurl := spell[e.url]
		for i := range pols {
			if pols[i].scope == "e" && pols[i].url == eurl && pols[i].method == e.method && strings.HasPrefix(pols[i].rest, "kind=throttle") {
				pols[i].rest = fmt.Sprintf("kind=throttle allowed=%d win=%d status=%d spill=0 renew=31 hdr=X-Group default=%s dpct=%s g=k1&%s g=k2&%s",
					r.Range(2, 10), pols[i].win, prng.Pick(r, []int{0, 429, 503}), prng.Pick(r, []string{"allow", "block", "use_default_allocation"}),
					prng.Pick(r, []string{"50/1", "10/1"}), prng.Pick(r, []string{"50/1", "20/1"}), prng.Pick(r, []string{"25/1", "10/1"}))
			}
		}
		setter := "kind=acct hname=X-Group hvals=" + prng.Pick(r, []string{"k1,k2", "k1", "k2,k1,k1", "k1,zz"})
		if r.Chance(35) {
			setter = "kind=apikey hname=X-Group hvalue=" + prng.Pick(r, []string{"k1", "k2"})
			// one authentication remedy per chain: the authentication plugin keeps per-endpoint state, two of them
			// on one endpoint are its own subject
			kept := pols[:0]
			for _, q := range pols {
				isAuth := q.rest == "kind=apikey" || q.rest == "kind=basic" || q.rest == "kind=oauth"
				if isAuth && (q.scope == "g" || (q.url == eurl && q.method == e.method)) {
					continue
				}
				kept = append(kept, q)
			}
			pols = kept
		}
		pols = append(pols, pol{"e", eurl, e.method, "group-key-setter", setter, 0})
	}
	if r.Chance(8) {
		pols = append(pols, pol{"g", "", "", "fixed-all", "kind=fixed status=503", 0})
	}
	if r.Chance(15) {
		t, win := throttle("")
		pols = append(pols, pol{"g", "", "", "throttle-all", t, win})
	}
	if r.Chance(45) {
		pols = append(pols, pol{"g", "", "", "retry-all", retry(), 0})
	}
	if r.Chance(20) && len(pols) >= 2 {
		// a copy-pasted block: one name used twice (the loader must refuse the document)
		i, j := r.Intn(len(pols)), r.Intn(len(pols))
		if i != j {
			pols[j].name = pols[i].name
		}
	}
	prng.Shuffle(r, pols)
	var ops []string
	for _, p := range pols {
		l := "dpol scope=" + p.scope
		if p.scope == "e" {
			l += " url=" + proto.Enc(p.url) + " method=" + p.method
		}
		en := 1
		if r.Chance(7) {
			en = 0
		}
		ops = append(ops, fmt.Sprintf("%s name=%s enabled=%d %s", l, proto.Enc(p.name), en, p.rest))
	}
	ops = append(ops, "dload")
	t := prng.Pick(r, bases)*sec + 1 + int64(r.Intn(int(sec)-1))
	for k, n := 0, r.Range(5, 30); k < n; k++ {
		e := eps[r.Intn(len(eps))]
		url, method := respell(e.url), e.method
		if r.Chance(8) {
			url = prng.Pick(r, append(dURLs, "api.example.com/other"))
		}
		if r.Chance(5) {
			method = prng.Pick(r, []string{"GET", "POST", "PUT"})
		}
		t = nextT(r, t, prng.Pick(r, dWins), true)
		l := fmt.Sprintf("dreq url=%s method=%s t=%d", proto.Enc(url), method, t)
		if setterFam && r.Chance(80) {
			if r.Chance(75) {
				l += " h=X-Group&" + prng.Pick(r, []string{"placeholder", "placeholder", "k1", "k2", "a"})
			}
		} else if r.Chance(50) {
			l += " h=X-Group&" + proto.Enc(prng.Pick(r, []string{"a", "b", "c", "A", longA, longB, longA, longB}))
		}
		if r.Chance(12) {
			l += " h=early-response&" + prng.Pick(r, []string{"true", "true", "false"})
		}
		ops = append(ops, l)
	}
	return ops
}
