package main

// Dispatcher-level family: the PRODUCTION path
//   policies.yaml -> config.ReadPoliciesConfig (decode + validation) -> config.BuildPolicyData
//   -> services.Initialize -> runner.DispatchOnRequest
// ops (inside a case; the limiter-level ops of the same case use another plugin instance):
//   dpol scope=g|e [url=<enc> method=<M>] name=<enc> enabled=<0|1> kind=throttle <remedy fields as in `remedy`>
//   dpol scope=g|e [url=.. method=..] name=<enc> enabled=<0|1> kind=retry attempts=<n> cooldown=<n> mult=<n> lo=<n> hi=<n>
//   dload                          -> ok | refused:duplicate-name | refused:other
//   dreq url=<enc> method=<M> t=<ns> [h=<encname>&<encval>]...
//                                  -> pass | early <status> body=<enc> | no-config | err:dispatch

import (
	"fmt"
	"os"
	"path/filepath"
	"sort"
	"strings"
	"sync"
	"sync/atomic"
	"time"

	"lunar/engine/config"
	lunarMessages "lunar/engine/messages"
	"lunar/engine/runner"
	"lunar/engine/services"
	sharedConfig "lunar/shared-model/config"
	contextmanager "lunar/toolkit-core/context-manager"

	spoe "github.com/negasus/haproxy-spoe-go/action"
	"gopkg.in/yaml.v3"

	"verif/harness/internal/proto"
)

type nullWriter struct{}

func (nullWriter) Write(b []byte) (int, error) { return len(b), nil }
func (nullWriter) Close() error                { return nil }

var registerOnce sync.Once

type dpol struct {
	global      bool
	url, method string
	remedy      map[string]any
}

type dispatchState struct {
	watch    map[string]bool // header names a remedy was explicitly told to set: reported when the gateway sets them
	accounts map[string]any
	pols   []dpol
	data   *config.PoliciesData
	svc    *services.PoliciesServices
	worker *runner.DiagnosisWorker
	nreq   int
}

func (d *dispatchState) addPol(w []string) string {
	if d.accounts == nil {
		d.accounts = map[string]any{}
		d.watch = map[string]bool{}
	}
	scope, _ := proto.KV(w, "scope")
	name, ok := proto.KV(w, "name")
	kind, _ := proto.KV(w, "kind")
	if !ok || (scope != "g" && scope != "e") {
		panic("harness: bad dpol")
	}
	p := dpol{global: scope == "g"}
	if !p.global {
		u, ok1 := proto.KV(w, "url")
		m, ok2 := proto.KV(w, "method")
		if !ok1 || !ok2 {
			panic("harness: bad dpol")
		}
		p.url, p.method = proto.Dec(u), m
	}
	var cfg map[string]any
	switch kind {
	case "throttle":
		_, r := parseRemedy(append([]string{"id=0"}, w...))
		c := r.Config.StrategyBasedThrottling
		t := map[string]any{
			"allowed_request_count":  c.AllowedRequestCount,
			"window_size_in_seconds": c.WindowSizeInSeconds,
			"response_status_code":   c.ResponseStatusCode,
			"spillover_config":       map[string]any{"enabled": c.SpilloverConfig.Enabled, "renew_on_day": c.SpilloverConfig.RenewOnDay},
		}
		if a := c.GroupQuotaAllocation; a != nil {
			if a.GroupBy == nil {
				panic("harness: dpol needs group_by")
			}
			groups := []any{}
			for _, g := range a.Groups {
				groups = append(groups, map[string]any{"group_header_value": g.GroupHeaderValue, "allocation_percentage": g.AllocationPercentage})
			}
			t["group_quota_allocation"] = map[string]any{
				"group_by": map[string]any{"header_name": a.GroupBy.HeaderName}, "groups": groups,
				"default": a.Default, "default_allocation_percentage": a.DefaultAllocationPercentage,
			}
		}
		cfg = map[string]any{"strategy_based_throttling": t}
	case "retry":
		cfg = map[string]any{"retry": map[string]any{
			"attempts": kvI(w, "attempts"), "initial_cooldown_seconds": kvI(w, "cooldown"), "cooldown_multiplier": kvI(w, "mult"),
			"conditions": map[string]any{"status_code": []any{map[string]any{"from": kvI(w, "lo"), "to": kvI(w, "hi")}}},
		}}
	case "oauth", "apikey", "basic":
		// authentication remedy; the account is created with the policy (o_auth => GenerateRequestAction,
		// api_key / basic => ModifyRequestAction)
		acc := fmt.Sprintf("acc%d", len(d.pols))
		var auth map[string]any
		switch kind {
		case "oauth":
			auth = map[string]any{"o_auth": map[string]any{"tokens": []any{
				map[string]any{"name": "client_id", "value": "abc"}, map[string]any{"name": "client_secret", "value": "def"}}}}
		case "apikey":
			hname, hval := "x-api-key", "k1"
			if hn, ok := proto.KV(w, "hname"); ok {
				hv, ok2 := proto.KV(w, "hvalue")
				if !ok2 {
					panic("harness: apikey needs hvalue")
				}
				hname, hval = proto.Dec(hn), proto.Dec(hv)
				d.watch[hname] = true
			}
			auth = map[string]any{"api_key": map[string]any{"tokens": []any{map[string]any{"name": hname, "value": hval}}}}
		default:
			auth = map[string]any{"basic": map[string]any{"username": "u", "password": "p"}}
		}
		d.accounts[acc] = map[string]any{"authentication": auth}
		cfg = map[string]any{"authentication": map[string]any{"account": acc}}
	case "acct":
		// account_orchestration: round robin over one account per value of `hvals`, each with the token header
		// `hname` (default: one account, x-acct-token: t1)
		hname, vals := "x-acct-token", []string{"t1"}
		if hn, ok := proto.KV(w, "hname"); ok {
			hv, ok2 := proto.KV(w, "hvals")
			if !ok2 {
				panic("harness: acct needs hvals")
			}
			hname, vals = proto.Dec(hn), nil
			for _, v := range strings.Split(hv, ",") {
				vals = append(vals, proto.Dec(v))
			}
			d.watch[hname] = true
		}
		rr := []any{}
		for j, v := range vals {
			acc := fmt.Sprintf("acc%d_%d", len(d.pols), j)
			d.accounts[acc] = map[string]any{"tokens": []any{map[string]any{"header": map[string]any{"name": hname, "value": v}}}}
			rr = append(rr, acc)
		}
		cfg = map[string]any{"account_orchestration": map[string]any{"round_robin": rr}}
	case "fixed":
		cfg = map[string]any{"fixed_response": map[string]any{"status_code": kvI(w, "status")}}
	case "cache":
		cfg = map[string]any{"caching": map[string]any{"ttl_seconds": kvI(w, "ttl"), "max_record_size_bytes": kvI(w, "maxrec"),
			"max_cache_size_megabytes": 1}}
	default:
		panic("harness: bad dpol kind")
	}
	p.remedy = map[string]any{"name": proto.Dec(name), "enabled": kvI(w, "enabled") != 0, "config": cfg}
	d.pols = append(d.pols, p)
	return "ok"
}

func (d *dispatchState) load(dir string) string {
	d.data, d.svc = nil, nil
	globals := []any{}
	var eps []map[string]any
	idx := map[string]int{}
	for _, p := range d.pols {
		if p.global {
			globals = append(globals, p.remedy)
			continue
		}
		k := p.method + " " + p.url
		i, ok := idx[k]
		if !ok {
			i = len(eps)
			idx[k] = i
			eps = append(eps, map[string]any{"url": p.url, "method": p.method, "remedies": []any{}, "diagnosis": []any{}})
		}
		eps[i]["remedies"] = append(eps[i]["remedies"].([]any), p.remedy)
	}
	epsAny := []any{}
	for _, e := range eps {
		epsAny = append(epsAny, e)
	}
	doc := map[string]any{"global": map[string]any{"remedies": globals, "diagnosis": []any{}}, "endpoints": epsAny,
		"accounts": d.accounts}
	b, err := yaml.Marshal(doc)
	if err != nil {
		panic("harness: " + err.Error())
	}
	path := filepath.Join(dir, "policies.yaml")
	if err := os.WriteFile(path, b, 0o644); err != nil {
		panic("harness: " + err.Error())
	}
	registerOnce.Do(func() {
		// the same registration the engine does in initializePolicies()
		sharedConfig.Validate.RegisterStructValidation(config.ValidateStructLevel,
			sharedConfig.Remedy{}, sharedConfig.Diagnosis{}, sharedConfig.PoliciesConfig{})
		_ = sharedConfig.Validate.RegisterValidation("validateInt", config.ValidateInt)
	})
	pc, err := config.ReadPoliciesConfig(path)
	if err != nil {
		if strings.Contains(err.Error(), "duplicate policy names") {
			return "refused:duplicate-name"
		}
		if os.Getenv("VERIF_DEBUG") != "" {
			fmt.Fprintln(os.Stderr, "dload refused:", err, "\n", string(b))
		}
		return "refused:other"
	}
	data, err := config.BuildPolicyData(pc, false)
	if err != nil {
		return "refused:other"
	}
	svc, err := services.Initialize(nullWriter{}, 15*time.Second, sharedConfig.Exporters{})
	if err != nil {
		panic("harness: services.Initialize: " + err.Error())
	}
	d.data, d.svc, d.worker = data, svc, runner.NewDiagnosisWorker()
	return "ok"
}

func (d *dispatchState) req(w []string) string {
	u, ok1 := proto.KV(w, "url")
	m, ok2 := proto.KV(w, "method")
	if !ok1 || !ok2 {
		panic("harness: bad dreq")
	}
	t := kvI(w, "t")
	if t < 0 {
		panic("harness: negative instant")
	}
	hs := map[string]string{}
	for _, h := range kvAll(w, "h") {
		p := strings.Split(h, "&")
		if len(p) != 2 {
			panic("harness: bad header " + h)
		}
		hs[proto.Dec(p[0])] = proto.Dec(p[1])
	}
	if d.data == nil {
		return "no-config"
	}
	if _, ok := hs["content-type"]; !ok { // the o_auth remedy rewrites a JSON body
		hs["content-type"] = "application/json"
		hs["content-length"] = "2"
	}
	contextmanager.Get().GetMockClock().Set(time.Unix(0, t))
	d.nreq++
	id := fmt.Sprintf("q%d", d.nreq)
	url := proto.Dec(u)
	path := "/"
	if i := strings.Index(url, "/"); i >= 0 {
		path = url[i:]
	}
	out, err := runner.DispatchOnRequest(
		lunarMessages.OnRequest{ID: id, SequenceID: id, Method: m, Scheme: "https", URL: url, Path: path, Headers: hs,
			Body: "{}", Time: time.Unix(0, t)},
		&d.data.EndpointPolicyTree, &d.data.Config, d.svc, d.worker)
	if err != nil {
		return "err:dispatch"
	}
	return fmtDispatch(out, d.watch)
}

// burst: n concurrent DispatchOnRequest calls at ONE instant, released together by a spin barrier (first-use races:
// the very first requests of a freshly loaded configuration arrive at the same time).  Whatever the interleaving,
// min(n, free share) pass; a dispatch error means a request left the engine neither counted nor answered.
func (d *dispatchState) burst(w []string) string {
	u, ok1 := proto.KV(w, "url")
	m, ok2 := proto.KV(w, "method")
	if !ok1 || !ok2 {
		panic("harness: bad dburst")
	}
	t, n, par := kvI(w, "t"), int(kvI(w, "n")), int(kvI(w, "par"))
	if t < 0 || n < 1 || n > 1024 || par < 1 || par > 128 {
		panic("harness: bad dburst")
	}
	hs := map[string]string{"content-type": "application/json", "content-length": "2"}
	for _, h := range kvAll(w, "h") {
		p := strings.Split(h, "&")
		if len(p) != 2 {
			panic("harness: bad header " + h)
		}
		hs[proto.Dec(p[0])] = proto.Dec(p[1])
	}
	if d.data == nil {
		return "no-config"
	}
	contextmanager.Get().GetMockClock().Set(time.Unix(0, t))
	url := proto.Dec(u)
	path := "/"
	if i := strings.Index(url, "/"); i >= 0 {
		path = url[i:]
	}
	res := make([]string, n)
	var wg sync.WaitGroup
	var ready, gate int32
	base := d.nreq
	d.nreq += n
	for g := 0; g < par; g++ {
		wg.Add(1)
		go func(g int) {
			defer wg.Done()
			atomic.AddInt32(&ready, 1)
			for atomic.LoadInt32(&gate) == 0 { // spin: all workers leave the barrier within nanoseconds
			}
			for j := g; j < n; j += par {
				id := fmt.Sprintf("q%d", base+j+1)
				h := map[string]string{}
				for k, v := range hs {
					h[k] = v
				}
				res[j] = guarded(func() string {
					out, err := runner.DispatchOnRequest(
						lunarMessages.OnRequest{ID: id, SequenceID: id, Method: m, Scheme: "https", URL: url, Path: path,
							Headers: h, Body: "{}", Time: time.Unix(0, t)},
						&d.data.EndpointPolicyTree, &d.data.Config, d.svc, d.worker)
					if err != nil {
						return "err:dispatch"
					}
					return fmtDispatch(out, nil)
				})
			}
		}(g)
	}
	for atomic.LoadInt32(&ready) < int32(par) {
	}
	atomic.StoreInt32(&gate, 1)
	wg.Wait()
	np, nb, ne, st := 0, 0, 0, "-"
	for _, a := range res {
		switch {
		case a == "pass":
			np++
		case strings.HasPrefix(a, "early "):
			nb++
			f := strings.Fields(a)
			if st == "-" {
				st = f[1]
			} else if st != f[1] {
				st = "mixed"
			}
			if len(f) < 3 || f[2] != "body="+proto.Enc("Too many requests") {
				st = "odd-body"
			}
		default:
			ne++
		}
	}
	return fmt.Sprintf("passed=%d blocked=%d err=%d status=%s", np, nb, ne, st)
}

func fmtDispatch(as spoe.Actions, watch map[string]bool) string {
	early := false
	status, body := "-", ""
	var outs []string
	for _, a := range as {
		switch a.Name {
		case "return_early_response":
			if b, ok := a.Value.(bool); ok && b {
				early = true
			}
		case "status_code":
			status = fmt.Sprint(a.Value)
		case "response_body":
			switch v := a.Value.(type) {
			case []byte:
				body = string(v)
			default:
				body = fmt.Sprint(v)
			}
		case "request_headers":
			// the headers the gateway puts on the forwarded request ("name:value\n"...)
			for _, line := range strings.Split(fmt.Sprint(a.Value), "\n") {
				if i := strings.Index(line, ":"); i > 0 && watch[line[:i]] {
					outs = append(outs, proto.Enc(line[:i])+"&"+proto.Enc(line[i+1:]))
				}
			}
		}
	}
	if !early {
		if len(outs) == 0 {
			return "pass"
		}
		sort.Strings(outs)
		return "pass out=" + strings.Join(outs, ";")
	}
	return "early " + status + " body=" + proto.Enc(body)
}
