// Harness for C09: drives the real remedies.StrategyBasedThrottlingPlugin on top of the real
// limit.NewRateLimitState with a deterministic clock whose instant is set per request, and logs the
// action returned by OnRequest (NoOp / early response + status) and, for `counters`, RateLimitState.Counters().
package main

import (
	"context"
	"crypto/md5"
	"encoding/hex"
	"fmt"
	"os"
	"sort"
	"strconv"
	"strings"
	"sync"
	"time"

	"lunar/engine/actions"
	"lunar/engine/config"
	lunarMessages "lunar/engine/messages"
	"lunar/engine/services/remedies"
	"lunar/engine/utils"
	"lunar/engine/utils/limit"
	"lunar/engine/utils/obfuscation"
	sharedConfig "lunar/shared-model/config"
	contextmanager "lunar/toolkit-core/context-manager"
	"lunar/toolkit-core/logging"

	"github.com/rs/zerolog"

	"verif/harness/internal/proto"
)

const rule = "generated/enumerated arrival-time sequences (on k*W, k*W±1ns, mid-window, windows apart) x 1-3 remedies x " +
	"allocation tables/default behaviours/spill-over/window-size changes; non-trivial = at least one request passed (NoOp) " +
	"and at least one was rejected (early response); distinct by (ops, answers)"

func kvI(w []string, k string) int64 {
	s, ok := proto.KV(w, k)
	if !ok {
		panic("harness: missing " + k)
	}
	n, err := strconv.ParseInt(s, 10, 64)
	if err != nil {
		panic("harness: " + err.Error())
	}
	return n
}

func frac(s string) float64 {
	p := strings.Split(s, "/")
	if len(p) != 2 {
		panic("harness: bad fraction " + s)
	}
	n, e1 := strconv.ParseUint(p[0], 10, 64)
	d, e2 := strconv.ParseUint(p[1], 10, 64)
	if e1 != nil || e2 != nil || d == 0 {
		panic("harness: bad fraction " + s)
	}
	return float64(n) / float64(d)
}

func kvAll(w []string, k string) []string {
	var out []string
	for _, x := range w {
		if strings.HasPrefix(x, k+"=") {
			out = append(out, x[len(k)+1:])
		}
	}
	return out
}

func has(w []string, x string) bool {
	for _, y := range w {
		if y == x {
			return true
		}
	}
	return false
}

func parseRemedy(w []string) (int, *sharedConfig.Remedy) {
	name, _ := proto.KV(w, "name")
	cfg := &sharedConfig.StrategyBasedThrottlingConfig{
		AllowedRequestCount: kvI(w, "allowed"),
		WindowSizeInSeconds: int(kvI(w, "win")),
		ResponseStatusCode:  int(kvI(w, "status")),
		SpilloverConfig: sharedConfig.SpilloverConfig{
			Enabled:    kvI(w, "spill") != 0,
			RenewOnDay: int(kvI(w, "renew")),
		},
	}
	hdr, hasHdr := proto.KV(w, "hdr")
	if hasHdr || has(w, "nohdr") {
		a := &sharedConfig.GroupQuotaAllocation{}
		if !has(w, "nohdr") {
			a.GroupBy = &sharedConfig.GroupBy{HeaderName: proto.Dec(hdr)}
		}
		for _, g := range kvAll(w, "g") {
			p := strings.Split(g, "&")
			if len(p) != 2 {
				panic("harness: bad group " + g)
			}
			a.Groups = append(a.Groups, sharedConfig.QuotaAllocation{
				GroupHeaderValue: proto.Dec(p[0]), AllocationPercentage: frac(p[1]),
			})
		}
		if d, ok := proto.KV(w, "default"); ok {
			a.Default = proto.Dec(d)
		}
		if d, ok := proto.KV(w, "dpct"); ok {
			a.DefaultAllocationPercentage = frac(d)
		}
		cfg.GroupQuotaAllocation = a
	}
	return int(kvI(w, "id")), &sharedConfig.Remedy{
		Enabled: true,
		Name:    proto.Dec(name),
		Config:  sharedConfig.RemedyConfig{StrategyBasedThrottling: cfg},
	}
}

func joinInts(xs []int) string {
	p := make([]string, len(xs))
	for i, x := range xs {
		p[i] = strconv.Itoa(x)
	}
	return strings.Join(p, ",")
}

func md5hex(s string) string {
	h := md5.Sum([]byte(s))
	return hex.EncodeToString(h[:])
}

// guarded runs f; a panic of the implementation becomes the answer "panic".
func guarded(f func() string) (out string) {
	defer func() {
		if r := recover(); r != nil {
			if s, ok := r.(string); ok && strings.HasPrefix(s, "harness:") {
				out = "bad-op" // the op line itself is malformed
				return
			}
			out = "panic"
		}
	}()
	return f()
}

// call performs one OnRequest and canonicalises the returned action.
func call(plugin *remedies.StrategyBasedThrottlingPlugin, r *sharedConfig.Remedy, hs map[string]string) string {
	act, err := plugin.OnRequest(
		lunarMessages.OnRequest{ID: "x", Method: "GET", URL: "test.com/some/path", Headers: hs},
		config.ScopedRemedy{Scope: utils.ScopeEndpoint, Method: "GET", NormalizedURL: "test.com/some/path", Remedy: r},
	)
	if err != nil {
		if strings.Contains(err.Error(), "LimiterID") {
			return "err:limiter-id-missing"
		}
		return "err:other"
	}
	switch a := act.(type) {
	case *actions.NoOpAction:
		return "noop"
	case *actions.EarlyResponseAction:
		s := fmt.Sprintf("early %d", a.Status)
		if a.Body != "Too many requests" || len(a.Headers) != 1 || a.Headers["content-type"] != "text/plain" {
			s += " odd-body-or-headers"
		}
		return s
	default:
		return fmt.Sprintf("other-action:%T", act)
	}
}

func exec(c proto.Case, o *proto.Out) []string {
	outs := make([]string, len(c.Ops))
	clk := &tickClock{}
	rls := limit.NewRateLimitState(clk, logging.ContextLogger{})
	// plugin wiring: the identity obfuscator as in services.go (production) unless the FIRST op of the
	// case says `wiring hasher=md5` (the wiring of the repo's unit tests)
	identity := true
	var hasher obfuscation.Hasher = obfuscation.IdentityHasher{}
	if len(c.Ops) > 0 {
		if w := strings.Fields(c.Ops[0]); len(w) == 2 && w[0] == "wiring" && w[1] == "hasher=md5" {
			identity = false
			hasher = obfuscation.MD5Hasher{}
		}
	}
	plugin, err := remedies.NewStrategyBasedThrottlingPlugin(context.Background(), clk, nil, rls,
		obfuscation.Obfuscator{Hasher: hasher})
	if err != nil {
		panic("harness: " + err.Error())
	}
	tbl := map[int]*sharedConfig.Remedy{}
	disp := &dispatchState{}
	pre := map[string]string{md5hex(""): ""} // hash -> header value
	passed, blocked := false, false
	for i, op := range c.Ops {
		w := strings.Fields(op)
		if len(w) == 0 {
			outs[i] = "bad-op"
			continue
		}
		switch w[0] {
		case "dpol":
			outs[i] = guarded(func() string { return disp.addPol(w[1:]) })
			if outs[i] == "panic" {
				outs[i] = "bad-op"
			}
		case "dload":
			outs[i] = guarded(func() string { return disp.load(tmpDir()) })
		case "dburst":
			outs[i] = guarded(func() string { return disp.burst(w[1:]) })
			o.Count("dburst")
			if strings.Contains(outs[i], "passed=") && !strings.Contains(outs[i], "passed=0 ") {
				passed = true
			}
			if strings.Contains(outs[i], "blocked=") && !strings.Contains(outs[i], "blocked=0 ") {
				blocked = true
			}
		case "dreq":
			outs[i] = guarded(func() string { return disp.req(w[1:]) })
			o.Count("dreq-" + strings.Fields(outs[i])[0])
			if strings.HasPrefix(outs[i], "pass") {
				passed = true
			} else if strings.HasPrefix(outs[i], "early") {
				blocked = true
			}
		case "wiring":
			h, _ := proto.KV(w, "hasher")
			if i == 0 && (h == "identity" || h == "md5") {
				outs[i] = "ok"
			} else {
				outs[i] = "bad-op"
			}
		case "remedy":
			outs[i] = guarded(func() string {
				id, r := parseRemedy(w[1:])
				tbl[id] = r
				return "ok"
			})
		case "req", "burst":
			var r *sharedConfig.Remedy
			hs := map[string]string{}
			if guarded(func() string {
				var ok bool
				if r, ok = tbl[int(kvI(w, "id"))]; !ok {
					panic("harness: unknown remedy id")
				}
				for _, h := range kvAll(w, "h") {
					p := strings.Split(h, "&")
					if len(p) != 2 {
						panic("harness: bad header " + h)
					}
					hs[proto.Dec(p[0])] = proto.Dec(p[1])
					pre[md5hex(proto.Dec(p[1]))] = proto.Dec(p[1])
				}
				if kvI(w, "t") < 0 {
					panic("harness: negative instant")
				}
				tick := int64(0)
				if _, ok := proto.KV(w, "tick"); ok {
					// the clock advances by `tick` ns on every reading made during this call
					if tick = kvI(w, "tick"); tick < 0 || w[0] == "burst" {
						panic("harness: bad tick")
					}
				}
				clk.Set(kvI(w, "t"), tick)
				return ""
			}) != "" {
				outs[i] = "bad-op"
				continue
			}
			if w[0] == "burst" {
				// n concurrent callers at one instant (all interleavings are left to the Go scheduler):
				// whatever the order, min(n, free share) pass.
				n, par := int(kvI(w, "n")), int(kvI(w, "par"))
				if n < 0 || n > 4096 || par < 1 || par > 256 {
					outs[i] = "bad-op"
					continue
				}
				// alt=<name>&<value> (repeatable): request j carries alternative j % len — several keys are
				// created and used concurrently (get-or-create on the shared map)
				var alts [][2]string
				badAlt := false
				for _, a := range kvAll(w, "alt") {
					p := strings.Split(a, "&")
					if len(p) != 2 {
						badAlt = true
						break
					}
					alts = append(alts, [2]string{proto.Dec(p[0]), proto.Dec(p[1])})
					pre[md5hex(proto.Dec(p[1]))] = proto.Dec(p[1])
				}
				if badAlt {
					outs[i] = "bad-op"
					continue
				}
				hsAlt := make([]map[string]string, len(alts))
				for a := range alts {
					m := map[string]string{}
					for k, v := range hs {
						m[k] = v
					}
					m[alts[a][0]] = alts[a][1]
					hsAlt[a] = m
				}
				res := make([]string, n)
				var wg sync.WaitGroup
				start := make(chan struct{})
				for g := 0; g < par; g++ {
					wg.Add(1)
					go func(g int) {
						defer wg.Done()
						<-start
						for j := g; j < n; j += par {
							h := hs
							if len(alts) > 0 {
								h = hsAlt[j%len(alts)]
							}
							res[j] = guarded(func() string { return call(plugin, r, h) })
						}
					}(g)
				}
				close(start)
				wg.Wait()
				np, nb, no, st := 0, 0, 0, "-"
				pa, ba := make([]int, len(alts)), make([]int, len(alts))
				for j, a := range res {
					switch {
					case a == "noop":
						np++
						if len(alts) > 0 {
							pa[j%len(alts)]++
						}
					case strings.HasPrefix(a, "early "):
						nb++
						if len(alts) > 0 {
							ba[j%len(alts)]++
						}
						if st == "-" {
							st = strings.TrimPrefix(a, "early ")
						} else if st != strings.TrimPrefix(a, "early ") {
							st = "mixed"
						}
					default:
						no++
					}
				}
				outs[i] = fmt.Sprintf("passed=%d blocked=%d other=%d status=%s", np, nb, no, strings.ReplaceAll(st, " ", "_"))
				if len(alts) > 0 {
					outs[i] += " pa=" + joinInts(pa) + " ba=" + joinInts(ba)
				}
				o.Count("burst")
				if np > 0 {
					passed = true
				}
				if nb > 0 {
					blocked = true
				}
				continue
			}
			outs[i] = guarded(func() string { return call(plugin, r, hs) })
			if _, ok := proto.KV(w, "tick"); ok {
				// how many times the call read the clock is part of the answer
				outs[i] += fmt.Sprintf(" reads=%d", clk.Reads())
			}
			o.Count("answer-" + strings.Fields(outs[i])[0])
			if strings.HasPrefix(outs[i], "noop") {
				passed = true
			} else if strings.HasPrefix(outs[i], "early") {
				blocked = true
			}
		case "counters":
			if guarded(func() string { clk.Set(kvI(w, "t"), 0); return "" }) != "" {
				outs[i] = "bad-op"
				continue
			}
			outs[i] = guarded(func() string {
				cs := rls.Counters()
				items := make([]string, 0, len(cs))
				for k, v := range cs {
					key := proto.Enc(k.LimiterID)
					if k.Grouping == limit.Ungrouped {
						key += "|U"
					} else {
						var hdr, val string
						if identity {
							// lower(header name) ":" TrimSpace(value): header names carry no colon
							j := strings.Index(k.GroupID, ":")
							hdr, val = k.GroupID[:j], k.GroupID[j+1:]
						} else {
							j := strings.LastIndex(k.GroupID, ":")
							var ok bool
							hdr = k.GroupID[:j]
							if val, ok = pre[k.GroupID[j+1:]]; !ok {
								val = "?" + k.GroupID[j+1:]
							}
						}
						key += "|G|" + proto.Enc(hdr) + "|" + proto.Enc(val)
					}
					items = append(items, fmt.Sprintf("%s=%d", key, v))
				}
				sort.Strings(items)
				// every key's Counter() reads the clock once
				return strings.Join(append([]string{fmt.Sprintf("n=%d", len(cs))}, items...), " ") +
					fmt.Sprintf(" reads=%d", clk.Reads())
			})
			o.Count("counters")
		default:
			outs[i] = "bad-op"
		}
	}
	if passed && blocked {
		o.NonTrivial(strings.Join(c.Ops, "|") + "#" + strings.Join(outs, "|"))
	}
	return outs
}

var tmpDirOnce sync.Once
var tmpDirPath string

func tmpDir() string {
	tmpDirOnce.Do(func() {
		d, err := os.MkdirTemp("", "verif-c09-")
		if err != nil {
			panic("harness: " + err.Error())
		}
		tmpDirPath = d
	})
	return tmpDirPath
}

func main() {
	defer func() {
		if tmpDirPath != "" {
			os.RemoveAll(tmpDirPath)
		}
	}()
	contextmanager.Get().SetMockClock()
	time.Local = time.UTC // time.Time.Day() in the spill-over renewal is evaluated in the local zone
	zerolog.SetGlobalLevel(zerolog.Disabled)
	proto.Main(proto.Harness{Rule: rule, Gen: gen, Exec: exec})
}
