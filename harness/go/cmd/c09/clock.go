package main

import (
	"sync"
	"time"
)

// tickClock is a lunar/toolkit-core/clock.Clock whose Now() ADVANCES by a scripted amount on every reading:
// the k-th reading of a call started with Set(t, tick) returns t + k*tick.  With tick = 0 it is a constant
// clock.  Code that decides one thing from one reading and another thing from a later reading sees two
// different instants, as it would on a real clock.
type tickClock struct {
	mu    sync.Mutex
	now   int64
	tick  int64
	reads int
}

func (c *tickClock) Set(unixNano, tick int64) {
	c.mu.Lock()
	defer c.mu.Unlock()
	c.now, c.tick, c.reads = unixNano, tick, 0
}

func (c *tickClock) Reads() int {
	c.mu.Lock()
	defer c.mu.Unlock()
	return c.reads
}

func (c *tickClock) Now() time.Time {
	c.mu.Lock()
	defer c.mu.Unlock()
	t := c.now
	c.now += c.tick
	c.reads++
	return time.Unix(0, t)
}

func (c *tickClock) Sleep(d time.Duration) {}

func (c *tickClock) After(d time.Duration) <-chan time.Time {
	ch := make(chan time.Time, 1)
	ch <- c.Now()
	return ch
}

func (c *tickClock) Since(t time.Time) time.Duration { return c.Now().Sub(t) }
func (c *tickClock) Until(t time.Time) time.Duration { return t.Sub(c.Now()) }
