package main

// A small ORDERED JSON reader/printer, independent of fastjson: keeps duplicate keys, field order
// and number lexemes.  Used (a) to read the generated input document (pre-image table), (b) to read
// what the implementation printed and re-print it canonically (same escaping rules as the Lean
// driver's printer).

import (
	"fmt"
	"strings"
	"unicode/utf8"
)

type kind int

const (
	kNull kind = iota
	kTrue
	kFalse
	kNum
	kStr
	kArr
	kObj
)

type jv struct {
	k    kind
	s    string // DECODED string value, or number lexeme
	raw  string // string values: the lexeme (text between the quotes, escapes as written)
	lex  bool   // generator only: print `raw` as is
	a    []*jv
	keys []string
	vals []*jv
}

type jparser struct {
	s      string
	i      int
	strict bool // reject what RFC 8259 rejects inside strings (unknown escapes such as \x1b, raw control characters)
}

func (p *jparser) ws() {
	for p.i < len(p.s) && (p.s[p.i] == ' ' || p.s[p.i] == '\t' || p.s[p.i] == '\n' || p.s[p.i] == '\r') {
		p.i++
	}
}

// parseJSONStrict is used on what the implementation PRINTED: the output must be valid JSON.
func parseJSONStrict(s string) (*jv, error) { return parseWith(&jparser{s: s, strict: true}) }

// parseJSON is used on the generated input (as lenient about escapes as fastjson is).
func parseJSON(s string) (*jv, error) { return parseWith(&jparser{s: s}) }

func parseWith(p *jparser) (*jv, error) {
	v, err := p.value(0)
	if err != nil {
		return nil, err
	}
	p.ws()
	if p.i != len(p.s) {
		return nil, fmt.Errorf("tail at %d", p.i)
	}
	return v, nil
}

func (p *jparser) value(depth int) (*jv, error) {
	if depth > 200 {
		return nil, fmt.Errorf("too deep")
	}
	p.ws()
	if p.i >= len(p.s) {
		return nil, fmt.Errorf("eof")
	}
	c := p.s[p.i]
	switch {
	case c == '{':
		p.i++
		o := &jv{k: kObj}
		p.ws()
		if p.i < len(p.s) && p.s[p.i] == '}' {
			p.i++
			return o, nil
		}
		for {
			p.ws()
			if p.i >= len(p.s) || p.s[p.i] != '"' {
				return nil, fmt.Errorf("key expected at %d", p.i)
			}
			k, err := p.str()
			if err != nil {
				return nil, err
			}
			p.ws()
			if p.i >= len(p.s) || p.s[p.i] != ':' {
				return nil, fmt.Errorf("colon expected at %d", p.i)
			}
			p.i++
			v, err := p.value(depth + 1)
			if err != nil {
				return nil, err
			}
			o.keys = append(o.keys, k)
			o.vals = append(o.vals, v)
			p.ws()
			if p.i >= len(p.s) {
				return nil, fmt.Errorf("eof in object")
			}
			if p.s[p.i] == ',' {
				p.i++
				continue
			}
			if p.s[p.i] == '}' {
				p.i++
				return o, nil
			}
			return nil, fmt.Errorf("comma expected at %d", p.i)
		}
	case c == '[':
		p.i++
		a := &jv{k: kArr}
		p.ws()
		if p.i < len(p.s) && p.s[p.i] == ']' {
			p.i++
			return a, nil
		}
		for {
			v, err := p.value(depth + 1)
			if err != nil {
				return nil, err
			}
			a.a = append(a.a, v)
			p.ws()
			if p.i >= len(p.s) {
				return nil, fmt.Errorf("eof in array")
			}
			if p.s[p.i] == ',' {
				p.i++
				continue
			}
			if p.s[p.i] == ']' {
				p.i++
				return a, nil
			}
			return nil, fmt.Errorf("comma expected at %d", p.i)
		}
	case c == '"':
		st := p.i + 1
		s, err := p.str()
		if err != nil {
			return nil, err
		}
		return &jv{k: kStr, s: s, raw: p.s[st : p.i-1]}, nil
	case strings.HasPrefix(p.s[p.i:], "true"):
		p.i += 4
		return &jv{k: kTrue}, nil
	case strings.HasPrefix(p.s[p.i:], "false"):
		p.i += 5
		return &jv{k: kFalse}, nil
	case strings.HasPrefix(p.s[p.i:], "null"):
		p.i += 4
		return &jv{k: kNull}, nil
	case c == '-' || (c >= '0' && c <= '9'):
		st := p.i
		if c == '-' {
			p.i++
		}
		d0 := p.i
		for p.i < len(p.s) && p.s[p.i] >= '0' && p.s[p.i] <= '9' {
			p.i++
		}
		if p.i == d0 || (p.i-d0 > 1 && p.s[d0] == '0') {
			return nil, fmt.Errorf("bad number at %d", st)
		}
		if p.i < len(p.s) && p.s[p.i] == '.' {
			p.i++
			f0 := p.i
			for p.i < len(p.s) && p.s[p.i] >= '0' && p.s[p.i] <= '9' {
				p.i++
			}
			if p.i == f0 {
				return nil, fmt.Errorf("bad fraction at %d", st)
			}
		}
		if p.i < len(p.s) && (p.s[p.i] == 'e' || p.s[p.i] == 'E') {
			return nil, fmt.Errorf("exponent not supported at %d", p.i)
		}
		return &jv{k: kNum, s: p.s[st:p.i]}, nil
	}
	return nil, fmt.Errorf("unexpected %q at %d", c, p.i)
}

func hexv(c byte) int {
	switch {
	case c >= '0' && c <= '9':
		return int(c - '0')
	case c >= 'a' && c <= 'f':
		return int(c-'a') + 10
	case c >= 'A' && c <= 'F':
		return int(c-'A') + 10
	}
	return -1
}

// str reads a string starting at the opening quote and returns its DECODED value.
func (p *jparser) str() (string, error) {
	p.i++
	st := p.i
	for p.i < len(p.s) {
		switch p.s[p.i] {
		case '"':
			p.i++
			return unescape(p.s[st : p.i-1]), nil
		case '\\':
			if p.strict {
				if p.i+1 >= len(p.s) || !strings.ContainsRune(`"\\/bfnrtu`, rune(p.s[p.i+1])) {
					return "", fmt.Errorf("invalid escape at %d", p.i)
				}
				if p.s[p.i+1] == 'u' {
					if _, ok := hex4(p.s[min(p.i+2, len(p.s)):]); !ok {
						return "", fmt.Errorf("invalid \\u escape at %d", p.i)
					}
				}
			}
			p.i += 2
		default:
			if p.strict && p.s[p.i] < 0x20 {
				return "", fmt.Errorf("raw control character at %d", p.i)
			}
			p.i++
		}
	}
	return "", fmt.Errorf("eof in string")
}

func hex4(s string) (int, bool) {
	if len(s) < 4 {
		return 0, false
	}
	n := 0
	for k := 0; k < 4; k++ {
		h := hexv(s[k])
		if h < 0 {
			return 0, false
		}
		n = n*16 + h
	}
	return n, true
}

// unescape decodes a JSON string lexeme (written independently of fastjson; same best-effort rules: a
// surrogate escape not followed by another \u escape, a short / non-hex \u and unknown escapes stay as written).
func unescape(s string) string {
	if !strings.Contains(s, "\\") {
		return s
	}
	var b strings.Builder
	i := 0
	for i < len(s) {
		c := s[i]
		if c != '\\' {
			b.WriteByte(c)
			i++
			continue
		}
		if i+1 >= len(s) {
			break
		}
		e := s[i+1]
		i += 2
		switch e {
		case '"', '\\', '/':
			b.WriteByte(e)
		case 'b':
			b.WriteByte(8)
		case 'f':
			b.WriteByte(12)
		case 'n':
			b.WriteByte('\n')
		case 'r':
			b.WriteByte('\r')
		case 't':
			b.WriteByte('\t')
		case 'u':
			x, ok := hex4(s[i:])
			if !ok {
				b.WriteString("\\u")
				continue
			}
			xs := s[i : i+4]
			i += 4
			if x < 0xD800 || x >= 0xE000 {
				b.WriteRune(rune(x))
				continue
			}
			if i+1 < len(s) && s[i] == '\\' && s[i+1] == 'u' {
				if y, ok2 := hex4(s[i+2:]); ok2 {
					i += 6
					if x < 0xDC00 && y >= 0xDC00 && y < 0xE000 {
						b.WriteRune(rune(0x10000 + (x-0xD800)*0x400 + (y - 0xDC00)))
					} else {
						b.WriteRune(utf8.RuneError)
					}
					continue
				}
			}
			b.WriteString("\\u" + xs)
		default:
			b.WriteByte('\\')
			b.WriteByte(e)
		}
	}
	return b.String()
}

func escStr(b *strings.Builder, s string) {
	b.WriteByte('"')
	for i := 0; i < len(s); i++ {
		c := s[i]
		switch {
		case c == '"':
			b.WriteString("\\\"")
		case c == '\\':
			b.WriteString("\\\\")
		case c < 0x20:
			fmt.Fprintf(b, "\\u00%02x", c)
		default:
			b.WriteByte(c)
		}
	}
	b.WriteByte('"')
}

// canon prints compactly; a string VALUE is printed as mapStr(decoded, lexeme) — a LEXEME, written between
// the quotes as is (hash → pre-image marker lexeme, anything else → the lexeme the implementation printed);
// names are printed decoded + canonically escaped.
func canon(b *strings.Builder, v *jv, mapStr func(dec, lexeme string) string) {
	switch v.k {
	case kNull:
		b.WriteString("null")
	case kTrue:
		b.WriteString("true")
	case kFalse:
		b.WriteString("false")
	case kNum:
		b.WriteString(v.s)
	case kStr:
		b.WriteByte('"')
		b.WriteString(mapStr(v.s, v.raw))
		b.WriteByte('"')
	case kArr:
		b.WriteByte('[')
		for i, x := range v.a {
			if i > 0 {
				b.WriteByte(',')
			}
			canon(b, x, mapStr)
		}
		b.WriteByte(']')
	case kObj:
		b.WriteByte('{')
		for i := range v.keys {
			if i > 0 {
				b.WriteByte(',')
			}
			escStr(b, v.keys[i])
			b.WriteByte(':')
			canon(b, v.vals[i], mapStr)
		}
		b.WriteByte('}')
	}
}
