package main

import (
	"fmt"
	"strings"
	"unicode"

	"verif/harness/internal/prng"
	"verif/harness/internal/proto"
)

// small pools on purpose: the same name at several depths, names that look like path syntax,
// names equal to the words of the JSONPath prefix.
var keyPool = []string{"name", "name", "user", "user", "id", "id", "a", "b", "a", "b", "body", "request", "response",
	"items", "x", "é", "名前", "a.b", "b[]", "[]", "user.name", "", "q\"t", "back\\slash", "😀", "$",
	// the same names in another letter case: JSON member names are case sensitive, these are DIFFERENT paths
	"Name", "NAME", "User", "USER", "ID", "Id", "A", "B", "Body", "Items", "sku", "SKU", "É", "X"}

// names that need escaping and contain characters Go's strconv.Quote writes in non-JSON syntax (former
// finding F16c): ESC, NUL, BEL+quote, VT, DEL+backslash, zero-width space+quote, a non-printable astral code
// point+quote, CR BS FF.  Used for 3 % of the fields.
var ctlKeys = []string{"k\x1b", "\x00", "bell\x07\"", "v\x0bt", "del\x7f\\", "zw\u200b\"", "tag\U000E0001\"", "cr\r\b\f"}

var strPool = []string{"top-secret", "bob", "", "true", "null", "10.00", "Ünï", "名", "a b", "line\nbreak", "tab\there",
	"q\"uote", "sl/ash", "back\\", "12345", "x"}

var numPool = []string{"0", "1", "10", "10.9", "10.999", "0.125", "0.375", "0.625", "1.005", "2.675", "0.005", "0.135", "-0", "-0.001",
	"-1.5", "81.101", "123456789012345", "0.000001", "99.995", "1234567.891", "-7", "3.14159"}

// caseVariant changes the letter case of one letter, of the first letter, or of all letters.
func caseVariant(r *prng.R, s string) string {
	rs := []rune(s)
	var idx []int
	for i, c := range rs {
		if unicode.IsLetter(c) && (unicode.ToUpper(c) != c || unicode.ToLower(c) != c) {
			idx = append(idx, i)
		}
	}
	if len(idx) == 0 {
		return s
	}
	flip := func(i int) {
		if unicode.IsUpper(rs[i]) {
			rs[i] = unicode.ToLower(rs[i])
		} else {
			rs[i] = unicode.ToUpper(rs[i])
		}
	}
	switch r.Intn(3) {
	case 0:
		flip(prng.Pick(r, idx))
	case 1:
		flip(idx[len(idx)-1])
	default:
		for _, i := range idx {
			flip(i)
		}
	}
	return string(rs)
}

func needsEscape(s string) bool {
	for _, c := range s {
		if c == '"' || c == '\\' || c < 0x20 {
			return true
		}
	}
	return false
}

func plainOnly(xs []string) []string {
	var out []string
	for _, x := range xs {
		if !needsEscape(x) {
			out = append(out, x)
		}
	}
	return out
}

var (
	plainKeys = plainOnly(keyPool)
	plainStrs = plainOnly(strPool)
)

// pieces of string LEXEMES (JSON text level): every escape form, control characters that Go's strconv would
// write differently from JSON (\u001b \u0000 \u000b \u0007 \u007f), BMP and surrogate-pair escapes in both hex
// cases, solidus, raw non-ASCII, and (rarely) escapes fastjson keeps as written (lone surrogates).
var lexPlain = []string{"a", "Z", "0", " ", "secret", "-", "é", "名", "😀", "ß", "/", "x y"}
var lexEscapes = []string{`\u001b`, `\u0000`, `\u000b`, `\u0007`, `\u001f`, `\u007f`, `\u001B`, `\u000B`, `\u0001`,
	`\u00e9`, `\u00E9`, `\u540d`, `\u540D`, `\u2028`, `\u200b`, `\ud83d\ude00`, `\uD83D\uDE00`, `\uD83d\uDe00`,
	`\/`, `\b`, `\f`, `\n`, `\r`, `\t`, `\"`, `\\\\`, `\u0041`, `\u005c`, `\u0022`}
var lexOdd = []string{`\ud83d`, `\udc00`, `\ud83d\u0041`, `\ud83dx`}

// digestLike: strings shaped like the output of a hash (API keys, session tokens, ETags): 32 / 40 / 64 hex
// characters (and 31 / 33), lower / upper / mixed case, and ACTUAL MD5 digests of values and pre-images that
// occur elsewhere in the generated documents.
func digestLike(r *prng.R) string {
	const hexd = "0123456789abcdef"
	var s string
	if r.Chance(40) {
		s = md5hex(prng.Pick(r, append([]string{"10.00", "0.00", "1.00", "true", "false", "null", "s0", "s1"}, strPool...)))
	} else {
		n := prng.Pick(r, []int{32, 32, 32, 40, 64, 31, 33})
		var b strings.Builder
		for i := 0; i < n; i++ {
			b.WriteByte(hexd[r.Intn(16)])
		}
		s = b.String()
	}
	switch r.Intn(4) {
	case 0:
		s = strings.ToUpper(s)
	case 1:
		s = caseVariant(r, s)
	}
	return s
}

func genLexeme(r *prng.R) string {
	var b strings.Builder
	n := r.Range(1, 4)
	for i := 0; i < n; i++ {
		switch x := r.Intn(100); {
		case x < 35:
			b.WriteString(prng.Pick(r, lexPlain))
		case x < 97:
			b.WriteString(prng.Pick(r, lexEscapes))
		default:
			b.WriteString(prng.Pick(r, lexOdd))
		}
	}
	return b.String()
}

type gctx struct {
	r       *prng.R
	plain   bool     // only names/strings that need no escaping (duplicate-key stream, see notes/C16.md)
	cursors []string // cursor of every node, root ("") first
}

func (g *gctx) leaf() *jv {
	r := g.r
	switch r.Intn(10) {
	case 0:
		return &jv{k: kNull}
	case 1:
		return &jv{k: kTrue}
	case 2:
		return &jv{k: kFalse}
	case 3, 4, 5:
		if r.Chance(25) {
			// random strict number, <= 15 digits
			s := fmt.Sprintf("%d", r.Intn(1000000))
			if r.Bool() {
				s += fmt.Sprintf(".%0*d", r.Range(1, 6), r.Intn(1000))
			}
			if r.Chance(20) {
				s = "-" + s
			}
			return &jv{k: kNum, s: s}
		}
		return &jv{k: kNum, s: prng.Pick(r, numPool)}
	default:
		if g.plain {
			return &jv{k: kStr, s: prng.Pick(r, plainStrs)}
		}
		if r.Chance(7) {
			return &jv{k: kStr, s: digestLike(r)}
		}
		if r.Chance(40) {
			lx := genLexeme(r)
			return &jv{k: kStr, s: unescape(lx), raw: lx, lex: true}
		}
		return &jv{k: kStr, s: prng.Pick(r, strPool)}
	}
}

func (g *gctx) val(depth int, cursor string, dupOK bool) *jv {
	r := g.r
	g.cursors = append(g.cursors, cursor)
	if depth <= 0 || r.Chance(30) {
		return g.leaf()
	}
	if r.Chance(35) {
		a := &jv{k: kArr}
		n := r.Range(0, 3)
		if r.Chance(10) {
			n = 0
		}
		for i := 0; i < n; i++ {
			a.a = append(a.a, g.val(depth-1, cursor+"[]", dupOK))
		}
		return a
	}
	o := &jv{k: kObj}
	n := r.Range(0, 4)
	if r.Chance(8) {
		n = 0
	}
	used := map[string]bool{}
	for i := 0; i < n; i++ {
		k := prng.Pick(r, keyPool)
		if g.plain {
			k = prng.Pick(r, plainKeys)
		} else if r.Chance(3) {
			k = prng.Pick(r, ctlKeys)
		}
		if len(o.keys) > 0 && r.Chance(20) {
			// a sibling whose name differs from an existing one only in letter case
			k = caseVariant(r, prng.Pick(r, o.keys))
		}
		if used[k] && !dupOK {
			continue
		}
		used[k] = true
		o.keys = append(o.keys, k)
		o.vals = append(o.vals, g.val(depth-1, cursor+"."+k, dupOK))
	}
	return o
}

// text renders with random (JSON-legal) formatting and escaping choices.
func text(r *prng.R, v *jv, loose bool) string {
	var b strings.Builder
	var ws func()
	ws = func() {
		if loose && r.Chance(30) {
			b.WriteString(prng.Pick(r, []string{" ", "  ", "\n", "\t", " \r\n"}))
		}
	}
	var str func(s string)
	str = func(s string) {
		b.WriteByte('"')
		for _, c := range s {
			switch {
			case c == '"':
				b.WriteString("\\\"")
			case c == '\\':
				b.WriteString("\\\\")
			case c == '\n':
				b.WriteString("\\n")
			case c == '\t':
				b.WriteString("\\t")
			case c < 0x20:
				fmt.Fprintf(&b, "\\u%04x", c)
			case c == '/' && loose && r.Chance(50):
				b.WriteString("\\/")
			case c > 0x7f && c < 0xd800 && loose && r.Chance(40):
				fmt.Fprintf(&b, "\\u%04X", c)
			default:
				b.WriteRune(c)
			}
		}
		b.WriteByte('"')
	}
	var rec func(v *jv)
	rec = func(v *jv) {
		switch v.k {
		case kNull:
			b.WriteString("null")
		case kTrue:
			b.WriteString("true")
		case kFalse:
			b.WriteString("false")
		case kNum:
			b.WriteString(v.s)
		case kStr:
			if v.lex {
				b.WriteByte('"')
				b.WriteString(v.raw)
				b.WriteByte('"')
			} else {
				str(v.s)
			}
		case kArr:
			b.WriteByte('[')
			ws()
			for i, x := range v.a {
				if i > 0 {
					b.WriteByte(',')
					ws()
				}
				rec(x)
				ws()
			}
			b.WriteByte(']')
		case kObj:
			b.WriteByte('{')
			ws()
			for i := range v.keys {
				if i > 0 {
					b.WriteByte(',')
					ws()
				}
				str(v.keys[i])
				ws()
				b.WriteByte(':')
				ws()
				rec(v.vals[i])
				ws()
			}
			b.WriteByte('}')
		}
	}
	ws()
	rec(v)
	ws()
	return b.String()
}

var junkEx = []string{"$.REQUEST.BODY.name", "$.Request.Body.user.name", ".NAME", ".User.Name", "$.response.body.ID", "", "qui", ".", "[]", "$", "$.request.body", "$.response.body", "$.request.bodyguard.name", "$.request.body.",
	"$.request.body[]", ".name", ".id", "name", "$.request.headers[\"x\"]", "$.request.body.user.name", "$.response.body.user.name",
	".user.name", "$.request.body.name", "$.request.body.id", ".a", ".b", ".a.b", "$.request.body.a.b", "$.response.body.a"}

// segment boundaries of a cursor (indices where a '.' or '[' starts), excluding 0.
func cuts(c string) []int {
	var out []int
	for i := 1; i < len(c); i++ {
		if c[i] == '.' || c[i] == '[' {
			out = append(out, i)
		}
	}
	return out
}

func genEx(r *prng.R, side string, cursors []string) []string {
	n := 0
	switch x := r.Intn(100); {
	case x < 10:
		n = 0
	case x < 50:
		n = 1
	case x < 80:
		n = 2
	case x < 95:
		n = 3
	default:
		n = 4
	}
	var ex []string
	for i := 0; i < n; i++ {
		c := prng.Pick(r, cursors)
		switch r.Intn(16) {
		case 13, 14:
			// a real position in another letter case (a DIFFERENT path): must exclude nothing
			ex = append(ex, note(side, caseVariant(r, c)))
		case 15:
			// right path, body root in another letter case: not an exclusion of this body at all
			pre := note(side, "")
			if pre == "" {
				pre = "$.request.body"
			}
			ex = append(ex, caseVariant(r, pre)+c)
		case 0, 1, 2, 3:
			ex = append(ex, note(side, c)) // a real position, right notation
		case 4, 5:
			// proper suffix of a real cursor, cut at a segment boundary (".user.name" -> ".name")
			if cs := cuts(c); len(cs) > 0 {
				ex = append(ex, note(side, c[prng.Pick(r, cs):]))
			} else {
				ex = append(ex, note(side, c))
			}
		case 6:
			// a longer path that ENDS with a real cursor
			ex = append(ex, note(side, prng.Pick(r, []string{".zz", "[]", ".user", ".a", ".body"})+c))
		case 7:
			// the other notation / the other side
			other := prng.Pick(r, []string{"raw", "req", "resp"})
			ex = append(ex, note(other, c))
		case 8:
			ex = append(ex, prng.Pick(r, junkEx))
		case 9:
			// a non-existent child of a real position
			ex = append(ex, note(side, c+prng.Pick(r, []string{".nope", "[]", ".name"})))
		case 10:
			// passes the HasPrefix filter without being `prefix + path`
			ex = append(ex, prng.Pick(r, []string{"$.request.bodyX", "$.response.bodyX", "$.request.body.other"})+c)
		case 11:
			ex = append(ex, note(side, "."+prng.Pick(r, keyPool)))
		case 12:
			ex = append(ex, note(side, c+prng.Pick(r, cursors)))
		}
	}
	return ex
}

// sameShape copies a document with fresh primitive values (same paths in both bodies of a transaction).
func (g *gctx) sameShape(v *jv) *jv {
	switch v.k {
	case kArr:
		a := &jv{k: kArr}
		for _, x := range v.a {
			a.a = append(a.a, g.sameShape(x))
		}
		return a
	case kObj:
		o := &jv{k: kObj, keys: append([]string{}, v.keys...)}
		for _, x := range v.vals {
			o.vals = append(o.vals, g.sameShape(x))
		}
		return o
	}
	return g.leaf()
}

// genTxn: one transaction with BOTH bodies through one collector; the two bodies share field paths, the
// request-side and response-side exclusion sets differ (and are interleaved in one list).
func genTxn(r *prng.R) string {
	g := &gctx{r: r}
	reqV := g.val(r.Range(1, 3), "", false)
	reqCursors := g.cursors
	var respV *jv
	respCursors := reqCursors
	switch r.Intn(10) {
	case 0, 1, 2, 3, 4, 5:
		respV = g.sameShape(reqV)
	default:
		g2 := &gctx{r: r}
		respV = g2.val(r.Range(1, 3), "", false)
		respCursors = g2.cursors
	}
	reqDoc, respDoc := text(r, reqV, r.Chance(20)), text(r, respV, r.Chance(20))
	switch r.Intn(20) {
	case 0:
		reqDoc = prng.Pick(r, malformed)
	case 1:
		respDoc = prng.Pick(r, malformed)
	case 2:
		reqDoc = ""
	}
	var ex []string
	switch r.Intn(4) {
	case 0:
		ex = genEx(r, "req", reqCursors) // request-side exclusions only: the response body must be fully hashed
	case 1:
		ex = genEx(r, "resp", respCursors)
	default:
		ex = append(genEx(r, "req", reqCursors), genEx(r, "resp", respCursors)...)
		prng.Shuffle(r, ex)
	}
	if len(ex) == 0 {
		ex = []string{note("req", prng.Pick(r, reqCursors))}
	}
	return txnLine(ex, reqDoc, respDoc) + genTransfer(r, reqDoc != "", respDoc != "")
}

// sizes around the round limits a body may cross: 64 KiB, 1 MiB, 4 MiB (exactly on, just below, just above)
var bigPads = []int{1<<16 - 64, 1 << 16, 1<<16 + 1, 1<<20 - 64, 1 << 20, 1<<20 + 1, 4<<20 - 64, 4 << 20, 4<<20 + 1}

// genTransfer: how the bodies travel — gzip content encoding (25 % per body) and leading JSON whitespace that
// makes the body big without changing the document (small pads often, pads around the round limits rarely).
func genTransfer(r *prng.R, reqOK, respOK bool) string {
	var b strings.Builder
	one := func(name string, ok bool) {
		if !ok {
			return
		}
		if r.Chance(25) {
			fmt.Fprintf(&b, " gz%s=1", name)
		}
		switch x := r.Intn(1000); {
		case x < 12:
			fmt.Fprintf(&b, " pad%s=%d", name, prng.Pick(r, bigPads))
		case x < 100:
			fmt.Fprintf(&b, " pad%s=%d", name, r.Range(1, 300))
		}
	}
	one("req", reqOK)
	one("resp", respOK)
	return b.String()
}

// longArray: a document of 70-140 KB of real content (no padding): thousands of small numbers / strings.
func longArray(r *prng.R) string {
	var b strings.Builder
	b.WriteString(`{"id":"big","items":[`)
	n := r.Range(9000, 16000)
	for i := 0; i < n; i++ {
		if i > 0 {
			b.WriteByte(',')
		}
		if i%7 == 0 {
			fmt.Fprintf(&b, `"s%d"`, i)
		} else {
			fmt.Fprintf(&b, "%d.5", i%1000)
		}
	}
	b.WriteString(`],"name":"tail"}`)
	return b.String()
}

// genPol: one transaction in policy mode with 1..4 HAR-exporter diagnoses (endpoint / global, enabled or not,
// obfuscation on or off, each with its own body exclusion paths; disabled and lax ones listed first as often
// as last).
func genPol(r *prng.R) string {
	g := &gctx{r: r}
	reqV := g.val(r.Range(1, 3), "", false)
	reqCursors := g.cursors
	respV := g.sameShape(reqV)
	respCursors := reqCursors
	if r.Chance(40) {
		g2 := &gctx{r: r}
		respV = g2.val(r.Range(1, 3), "", false)
		respCursors = g2.cursors
	}
	reqDoc, respDoc := text(r, reqV, false), text(r, respV, false)
	switch r.Intn(40) {
	case 0:
		reqDoc = prng.Pick(r, malformed)
	case 1:
		respDoc = prng.Pick(r, malformed)
	case 2:
		respDoc = longArray(r)
		respCursors = []string{"", ".id", ".items", ".items[]", ".name"}
	}
	n := r.Range(1, 4)
	var b strings.Builder
	fmt.Fprintf(&b, "pol n=%d", n)
	for i := 0; i < n; i++ {
		scope := "g"
		if r.Chance(30) {
			scope = "e"
		}
		en, ob := 0, 0
		if r.Chance(60) {
			en = 1
		}
		if r.Chance(65) {
			ob = 1
		}
		fmt.Fprintf(&b, " f%d=%s%d%d q%d=%s s%d=%s", i, scope, en, ob,
			i, proto.Enc(exJSON(genEx(r, "raw", reqCursors))), i, proto.Enc(exJSON(genEx(r, "raw", respCursors))))
	}
	fmt.Fprintf(&b, " req=%s resp=%s", proto.Enc(reqDoc), proto.Enc(respDoc))
	return b.String() + genTransfer(r, true, true)
}

// genMulti: 2..3 overlapping ObfuscateJSON calls (mostly nested through the hasher, sometimes concurrent on
// one P); the first document has at least one exclusion that hits a real position; the others have the same
// shape (same positions, other values) or an unrelated one.
func genMulti(r *prng.R) string {
	n := 2
	if r.Chance(25) {
		n = 3
	}
	g := &gctx{r: r}
	first := g.val(r.Range(1, 3), "", false)
	cursors := g.cursors
	docs := []string{text(r, first, r.Chance(20))}
	exs := [][]string{append(genEx(r, "raw", cursors), prng.Pick(r, cursors))}
	for i := 1; i < n; i++ {
		if r.Chance(60) {
			docs = append(docs, text(r, g.sameShape(first), false))
			exs = append(exs, genEx(r, "raw", cursors))
		} else {
			g2 := &gctx{r: r}
			v := g2.val(r.Range(1, 3), "", false)
			d := text(r, v, false)
			if r.Chance(5) {
				d = prng.Pick(r, malformed)
			}
			docs = append(docs, d)
			exs = append(exs, genEx(r, "raw", g2.cursors))
		}
	}
	mode := "nest"
	if r.Chance(15) {
		mode = "conc"
	}
	return multiLine(mode, r.Range(1, 3), exs, docs)
}

func pickSide(r *prng.R) string {
	switch x := r.Intn(10); {
	case x < 4:
		return "raw"
	case x < 7:
		return "req"
	default:
		return "resp"
	}
}

var malformed = []string{"", " ", "{field", "[1,]", "{\"a\" 1}", "{\"a\":1,}", "tru", "nul", "{\"a\":1} x", "[1 2]", "{\"a\":}", "\"abc",
	"{\"a\":[1,2}", "[", "{", "}", "plain text body", "a=1&b=2", "<xml/>"}

func gen(r *prng.R, f proto.Flags, emit func(proto.Case)) {
	// prng.New(seed) states are shifts of each other (seed s+1 = seed s advanced by one draw); re-key through
	// one mixed output so that different VERIF_SEEDs give unrelated streams.
	r = r.Fork()
	n := 40000
	if f.Tier == "thorough" {
		n = 300000
	}
	n *= f.Budget
	id := 0
	next := func(p string) string { id++; return fmt.Sprintf("%s%d", p, id) }
	for k := 0; k < n; k++ {
		rr := r.Fork()
		side := pickSide(rr)
		x := rr.Intn(100)
		if rr.Chance(20) {
			emit(proto.Case{ID: next("x"), Ops: []string{genTxn(rr)}})
			continue
		}
		if rr.Chance(12) {
			emit(proto.Case{ID: next("o"), Ops: []string{genMulti(rr)}})
			continue
		}
		if rr.Chance(12) {
			emit(proto.Case{ID: next("p"), Ops: []string{genPol(rr)}})
			continue
		}
		switch {
		case x < 4:
			// malformed stream 1: not JSON at all
			doc := prng.Pick(rr, malformed)
			emit(proto.Case{ID: next("m"), Ops: []string{opLine(side, genEx(rr, side, []string{"", ".a", ".name"}), doc)}})
		case x < 7:
			// malformed stream 2: a generated document cut before its closing bracket / quote
			g := &gctx{r: rr}
			v := g.val(3, "", false)
			doc := text(rr, v, false)
			last := doc[len(doc)-1]
			if last == '}' || last == ']' || last == '"' {
				doc = doc[:len(doc)-1]
				emit(proto.Case{ID: next("t"), Ops: []string{opLine(side, genEx(rr, side, g.cursors), doc)}})
			}
		case x < 15:
			// malformed stream 3: duplicate keys inside one object
			// (a value reached twice through Object.Get is unescaped twice in place by fastjson, so this
			// stream uses names and strings that need no escaping)
			g := &gctx{r: rr, plain: true}
			v := g.val(rr.Range(1, 3), "", true)
			emit(proto.Case{ID: next("d"), Ops: []string{opLine(side, genEx(rr, side, g.cursors), text(rr, v, false))}})
		default:
			g := &gctx{r: rr}
			v := g.val(rr.Range(1, 4), "", false)
			emit(proto.Case{ID: next("g"), Ops: []string{opLine(side, genEx(rr, side, g.cursors), text(rr, v, rr.Chance(30)))}})
		}
	}
	if f.Tier == "thorough" {
		enumerate(emit, next)
	}
}

// ---------------------------------------------------------------------------- exhaustive small scope

// docs(d): every document of depth <= d over the key names a, b (objects with any subset of the two
// keys, arrays of length 0 or 1, one kind of primitive).
func docs(d int, k1, k2 string) []*jv {
	out := []*jv{{k: kStr}}
	if d == 0 {
		return out
	}
	sub := docs(d-1, k1, k2)
	out = append(out, &jv{k: kArr}, &jv{k: kObj})
	for _, x := range sub {
		out = append(out, &jv{k: kArr, a: []*jv{x}})
		out = append(out, &jv{k: kObj, keys: []string{k1}, vals: []*jv{x}})
		out = append(out, &jv{k: kObj, keys: []string{k2}, vals: []*jv{x}})
	}
	for _, x := range sub {
		for _, y := range sub {
			out = append(out, &jv{k: kObj, keys: []string{k1, k2}, vals: []*jv{x, y}})
		}
	}
	return out
}

// enumText prints with a distinct string in every primitive (s0, s1, ...).
func enumText(v *jv) string {
	var b strings.Builder
	n := 0
	var rec func(v *jv)
	rec = func(v *jv) {
		switch v.k {
		case kStr:
			fmt.Fprintf(&b, "\"s%d\"", n)
			n++
		case kArr:
			b.WriteByte('[')
			for i, x := range v.a {
				if i > 0 {
					b.WriteByte(',')
				}
				rec(x)
			}
			b.WriteByte(']')
		case kObj:
			b.WriteByte('{')
			for i := range v.keys {
				if i > 0 {
					b.WriteByte(',')
				}
				fmt.Fprintf(&b, "%q:", v.keys[i])
				rec(v.vals[i])
			}
			b.WriteByte('}')
		}
	}
	rec(v)
	return b.String()
}

func enumCursors(maxLen int, k1, k2 string) []string {
	segs := []string{"." + k1, "." + k2, "[]"}
	out := []string{""}
	level := []string{""}
	for l := 0; l < maxLen; l++ {
		var nx []string
		for _, p := range level {
			for _, s := range segs {
				nx = append(nx, p+s)
			}
		}
		out = append(out, nx...)
		level = nx
	}
	return out
}

func enumerate(emit func(proto.Case), next func(string) string) {
	enumerateNames(emit, next, "a", "b")
	enumerateOverlap(emit, next)
	// the same scope over two names that differ ONLY in letter case
	enumerateNames(emit, next, "a", "A")
	// transactions: every pair of depth<=1 bodies x every (request exclusion, response exclusion) of <= 2 segments
	for _, names := range [][2]string{{"a", "b"}, {"a", "A"}} {
		d1 := docs(1, names[0], names[1])
		cs := enumCursors(2, names[0], names[1])
		for _, rq := range d1 {
			for _, rs := range d1 {
				for _, c1 := range cs {
					ops := make([]string, 0, len(cs))
					for _, c2 := range cs {
						ops = append(ops, txnLine([]string{note("req", c1), note("resp", c2)}, enumText(rq), enumText(rs)))
					}
					emit(proto.Case{ID: next("y"), Ops: ops})
				}
			}
		}
	}
}

// enumerateOverlap: every ordered pair of depth<=1 documents, call 0 excluding one cursor of <= 1 segment,
// call 1 started from inside call 0 at its 1st / 2nd hashed value, plus the same pair concurrently.
func enumerateOverlap(emit func(proto.Case), next func(string) string) {
	d1 := docs(1, "a", "b")
	cs := enumCursors(1, "a", "b")
	for _, x := range d1 {
		for _, y := range d1 {
			var ops []string
			for _, c := range cs {
				pair := [][]string{{c}, {}}
				dd := []string{enumText(x), strings.ReplaceAll(enumText(y), "\"s", "\"t")}
				ops = append(ops, multiLine("nest", 1, pair, dd), multiLine("nest", 2, pair, dd), multiLine("conc", 1, pair, dd))
			}
			emit(proto.Case{ID: next("z"), Ops: ops})
		}
	}
}

func enumerateNames(emit func(proto.Case), next func(string) string, k1, k2 string) {
	d3 := docs(3, k1, k2)
	d2 := docs(2, k1, k2)
	cs := enumCursors(3, k1, k2)
	t3 := make([]string, len(d3))
	for i, v := range d3 {
		t3[i] = enumText(v)
	}
	t2 := make([]string, len(d2))
	for i, v := range d2 {
		t2[i] = enumText(v)
	}
	// every depth<=2 document x every single exclusion in JSONPath notation at the raw entry point (policy mode)
	for _, t := range t2 {
		ops := make([]string, 0, 2*len(cs))
		for _, c := range cs {
			ops = append(ops, opLine("raw", []string{note("req", c)}, t), opLine("raw", []string{note("resp", c)}, t))
		}
		emit(proto.Case{ID: next("j"), Ops: ops})
	}
	// every depth<=3 document x every single exclusion of <= 3 segments, plain and prefixed notation
	for _, side := range []string{"raw", "req"} {
		for _, t := range t3 {
			ops := make([]string, 0, len(cs))
			for _, c := range cs {
				ops = append(ops, opLine(side, []string{note(side, c)}, t))
			}
			emit(proto.Case{ID: next("e"), Ops: ops})
		}
	}
	// every depth<=2 document x every PAIR of exclusions (raw), and single exclusions on the response side
	for _, t := range t2 {
		for _, c1 := range cs {
			ops := make([]string, 0, len(cs))
			for _, c2 := range cs {
				ops = append(ops, opLine("raw", []string{c1, c2}, t))
			}
			emit(proto.Case{ID: next("p"), Ops: ops})
		}
		ops := make([]string, 0, len(cs))
		for _, c := range cs {
			ops = append(ops, opLine("resp", []string{note("resp", c)}, t))
		}
		emit(proto.Case{ID: next("r"), Ops: ops})
	}
}
