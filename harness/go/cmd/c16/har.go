package main

// Drives the REAL flow-mode HAR collector processor (streams/processors/har-collector) end to end:
// NewProcessor(parameters) → Execute(response API stream built by the production constructors) → the HAR record written to the file
// exporter; the obfuscated request body / response content are read back from that record.
// This is the only exported route to apiStreamObfuscator.obfuscateBody / filterBodyExclusions.

import (
	"encoding/json"
	"fmt"
	"os"
	"path/filepath"
	"sync"
	"time"

	lunarMessages "lunar/engine/messages"
	lunar_context "lunar/engine/streams/lunar-context"
	harcollector "lunar/engine/streams/processors/har-collector"
	public_types "lunar/engine/streams/public-types"
	streamtypes "lunar/engine/streams/types"
	context_manager "lunar/toolkit-core/context-manager"
)

type capture struct {
	mu   sync.Mutex
	last []byte
}

func (c *capture) Write(b []byte) (int, error) {
	c.mu.Lock()
	defer c.mu.Unlock()
	c.last = append([]byte(nil), b...)
	return len(b), nil
}
func (c *capture) Close() error { return nil }

var (
	harOnce sync.Once
	harCap  = &capture{}
)

func harSetup() {
	harOnce.Do(func() {
		dir, err := os.MkdirTemp("", "verif-c16-")
		if err != nil {
			panic(err)
		}
		cfg := filepath.Join(dir, "gateway_config.yaml")
		if err := os.WriteFile(cfg, []byte("exporters:\n  file:\n    exporter_id: verif\n"), 0o644); err != nil {
			panic(err)
		}
		os.Setenv("LUNAR_PROXY_CONFIG", cfg)
		context_manager.Get().WithFileExporter(harCap)
	})
}

const exporterID = "verif"

// harObfuscate returns the body the HAR collector exports for `body` on the given side (the other
// body of the transaction is empty).
func harObfuscate(side string, exclusions []string, body string) (string, error) {
	reqBody, respBody := "", ""
	if side == "req" {
		reqBody = body
	} else {
		respBody = body
	}
	ro, so, err := harTxn(exclusions, reqBody, respBody)
	if side == "req" {
		return ro, err
	}
	return so, err
}

// harTxn exports ONE transaction carrying both bodies through a fresh collector processor
// (generateHAR obfuscates the request body, then the response body, with one apiStreamObfuscator)
// and returns the exported request body and response content.
func harTxn(exclusions []string, reqBody, respBody string) (string, string, error) {
	return harTxnWire(exclusions, reqBody, respBody, map[string]string{"x-verif": "1"}, map[string]string{"x-verif": "1"})
}

// harTxnWire: the bodies as they are on the wire (possibly gzip-encoded) with their headers.
func harTxnWire(exclusions []string, reqBody, respBody string, reqHeaders, respHeaders map[string]string) (string, string, error) {
	harSetup()
	params := map[string]streamtypes.ProcessorParam{
		"exporter_id":                {Name: "exporter_id", Value: public_types.NewParamValue(exporterID)},
		"transaction_max_size_bytes": {Name: "transaction_max_size_bytes", Value: public_types.NewParamValue(1 << 30)},
		"obfuscate_enabled":          {Name: "obfuscate_enabled", Value: public_types.NewParamValue(true)},
		"obfuscate_exclusions":       {Name: "obfuscate_exclusions", Value: public_types.NewParamValue(append([]string{}, exclusions...))},
	}
	proc, err := harcollector.NewProcessor(&streamtypes.ProcessorMetaData{Name: "verifHAR", Parameters: params})
	if err != nil {
		return "", "", fmt.Errorf("NewProcessor: %w", err)
	}
	// The API stream is built the production way (routing/messages_handler.go): the request stream is created
	// from the SPOE message by NewRequestAPIStream (NewRequest -> DecodeBody undoes the content encoding while
	// the content-encoding header stays) and stored; the response stream is created by NewResponseAPIStream
	// over the same shared state and loads the stored request when the collector asks for it.
	now := time.Date(2024, 1, 2, 3, 4, 5, 0, time.UTC)
	const host, path = "example.com", "/v1/things"
	shared := lunar_context.NewMemoryState[[]byte]()
	reqStream := streamtypes.NewRequestAPIStream(lunarMessages.OnRequest{
		ID: "verif-txn", SequenceID: "verif-txn", Method: "POST", Scheme: "https", URL: host + path, Path: path,
		Headers: reqHeaders, RawBody: []byte(reqBody), Body: reqBody, Time: now,
	}, shared)
	reqStream.StoreRequest()
	st := streamtypes.NewResponseAPIStream(lunarMessages.OnResponse{
		ID: "verif-txn", SequenceID: "verif-txn", Method: "POST", URL: host + path, Status: 200,
		Headers: respHeaders, RawBody: []byte(respBody), Body: respBody, Time: now.Add(time.Second),
	}, shared)
	defer st.DiscardRequest()
	harCap.mu.Lock()
	harCap.last = nil
	harCap.mu.Unlock()
	if _, err := proc.Execute("verif-flow", st); err != nil {
		return "", "", fmt.Errorf("Execute: %w", err)
	}
	harCap.mu.Lock()
	rec := harCap.last
	harCap.mu.Unlock()
	if rec == nil {
		return "", "", fmt.Errorf("no HAR record exported")
	}
	pre := exporterID + " "
	if len(rec) < len(pre) || string(rec[:len(pre)]) != pre {
		return "", "", fmt.Errorf("unexpected record prefix")
	}
	var har struct {
		Log struct {
			Entries []struct {
				Request struct {
					Body *string `json:"body"`
				} `json:"request"`
				Response struct {
					Content *string `json:"content"`
				} `json:"response"`
			} `json:"entries"`
		} `json:"log"`
	}
	if err := json.Unmarshal(rec[len(pre):], &har); err != nil {
		return "", "", fmt.Errorf("HAR record: %w", err)
	}
	if len(har.Log.Entries) != 1 {
		return "", "", fmt.Errorf("HAR entries: %d", len(har.Log.Entries))
	}
	deref := func(p *string) string {
		if p == nil {
			return ""
		}
		return *p
	}
	return deref(har.Log.Entries[0].Request.Body), deref(har.Log.Entries[0].Response.Content), nil
}
