// Harness for C16: generated JSON documents x exclusion lists through the REAL obfuscation code —
// side=raw : obfuscation.Obfuscator{MD5Hasher}.ObfuscateJSON (what the policy-mode HAR plugin calls),
// side=req/resp : the flow-mode HAR collector processor end to end (filterBodyExclusions + ObfuscateJSON).
// The printed document is re-read with an independent ordered JSON reader and MD5 values are mapped
// back to `H(<pre-image>)` through a table built from the input document's leaves.
package main

import (
	"crypto/md5"
	"encoding/hex"
	"encoding/json"
	"fmt"
	"runtime"
	"strconv"
	"strings"

	"lunar/engine/utils/obfuscation"

	"github.com/rs/zerolog"

	"verif/harness/internal/proto"
)

const rule = "generated/enumerated (JSON document, exclusion list, entry point); non-trivial = the output has at least one " +
	"hashed leaf AND at least one leaf left verbatim; distinct by op line"

func md5hex(s string) string {
	h := md5.Sum([]byte(s))
	return hex.EncodeToString(h[:])
}

// marker: the lexeme `\u0001H(` + canonical escaping of the pre-image + `)` (same as Hm in the Lean driver).
func marker(pre string) string {
	var b strings.Builder
	escStr(&b, pre)
	e := b.String()
	return "\\u0001H(" + e[1:len(e)-1] + ")"
}

// preimages of every primitive of the input document (independent of fastjson / fastfloat).
func collectPre(v *jv, tbl map[string]string) {
	switch v.k {
	case kNull:
		tbl[md5hex("null")] = "null"
	case kTrue:
		tbl[md5hex("true")] = "true"
	case kFalse:
		tbl[md5hex("false")] = "false"
	case kStr:
		tbl[md5hex(v.s)] = v.s
	case kNum:
		f, err := strconv.ParseFloat(v.s, 64)
		if err == nil {
			p := strconv.FormatFloat(f, 'f', 2, 64)
			tbl[md5hex(p)] = p
		}
	case kArr:
		for _, x := range v.a {
			collectPre(x, tbl)
		}
	case kObj:
		for _, x := range v.vals {
			collectPre(x, tbl)
		}
	}
}

func hasDupKeys(v *jv) bool {
	switch v.k {
	case kArr:
		for _, x := range v.a {
			if hasDupKeys(x) {
				return true
			}
		}
	case kObj:
		seen := map[string]bool{}
		for i, k := range v.keys {
			if seen[k] || hasDupKeys(v.vals[i]) {
				return true
			}
			seen[k] = true
		}
	}
	return false
}

func execOp(op string, o *proto.Out) string {
	w := strings.Fields(op)
	if len(w) > 0 && w[0] == "txn" {
		return execTxn(op, w, o)
	}
	if len(w) > 0 && w[0] == "pol" {
		return execPol(op, w, o)
	}
	if len(w) > 0 && w[0] == "multi" {
		return execMulti(op, w, o)
	}
	if len(w) == 0 || w[0] != "obf" {
		return "bad-op"
	}
	side, ok1 := proto.KV(w, "side")
	exEnc, ok2 := proto.KV(w, "ex")
	docEnc, ok3 := proto.KV(w, "doc")
	if !ok1 || !ok2 || !ok3 || (side != "raw" && side != "req" && side != "resp") {
		return "bad-op"
	}
	var ex []string
	if err := json.Unmarshal([]byte(proto.Dec(exEnc)), &ex); err != nil {
		return "bad-op"
	}
	doc := proto.Dec(docEnc)
	o.Count("side-" + side)

	var out string
	if side == "raw" {
		var err error
		out, err = obfuscation.Obfuscator{Hasher: obfuscation.MD5Hasher{}}.ObfuscateJSON(doc, ex)
		if err != nil {
			o.Count("out-err")
			return "err:parse"
		}
	} else {
		var err error
		out, err = harObfuscate(side, ex, doc)
		if err != nil {
			panic(err)
		}
		if doc == "" && out == "" {
			o.Count("out-empty")
			return "empty"
		}
		if out == md5hex(doc) {
			o.Count("out-whole")
			return "whole"
		}
	}
	c := canonDoc(op, doc, out, o)
	if strings.HasPrefix(c, "garbage") {
		return c
	}
	return "ok " + c
}

// harToken classifies what the collector exported for one body: `empty`, `whole` or `ok:<canonical document>`.
func harToken(op, doc, out string, o *proto.Out) string {
	if doc == "" && out == "" {
		o.Count("out-empty")
		return "empty"
	}
	if out == md5hex(doc) {
		o.Count("out-whole")
		return "whole"
	}
	c := canonDoc(op, doc, out, o)
	if strings.HasPrefix(c, "garbage") {
		return "other"
	}
	return "ok:" + c
}

func execTxn(op string, w []string, o *proto.Out) string {
	exEnc, ok1 := proto.KV(w, "ex")
	rq, ok2 := proto.KV(w, "req")
	rs, ok3 := proto.KV(w, "resp")
	if !ok1 || !ok2 || !ok3 {
		return "bad-op"
	}
	var ex []string
	if err := json.Unmarshal([]byte(proto.Dec(exEnc)), &ex); err != nil {
		return "bad-op"
	}
	o.Count("txn")
	tr := parseTransfer(w)
	reqHeaders, respHeaders := map[string]string{"x-verif": "1"}, map[string]string{"x-verif": "1"}
	reqBody, reqSent := wire(proto.Dec(rq), tr.padReq, tr.gzReq, reqHeaders)
	respBody, respSent := wire(proto.Dec(rs), tr.padResp, tr.gzResp, respHeaders)
	ro, so, err := harTxnWire(ex, reqSent, respSent, reqHeaders, respHeaders)
	if err != nil {
		panic(err)
	}
	return "req=" + harToken(op, reqBody, ro, o) + " resp=" + harToken(op, respBody, so, o)
}

// canonDoc re-reads an exported document, maps MD5 values of the input's leaves back to H(pre-image) and
// re-prints it canonically (percent-encoded); `garbage <enc>` when the export is not JSON.
func canonDoc(op, doc, out string, o *proto.Out) string {
	tbl := map[string]string{}
	in, inErr := parseJSON(doc)
	if inErr == nil {
		collectPre(in, tbl)
		if hasDupKeys(in) {
			o.Count("in-dup-keys")
		}
	}
	ov, err := parseJSONStrict(out)
	if err != nil {
		o.Count("out-garbage")
		return "garbage " + proto.Enc(out)
	}
	hashed, clear := 0, 0
	var b strings.Builder
	if inErr != nil {
		in = nil
	}
	canonPos(&b, ov, in, tbl, &hashed, &clear)
	clear += countNonString(ov)
	switch {
	case hashed > 0 && clear > 0:
		o.Count("out-mixed")
		o.NonTrivial(op)
	case hashed > 0:
		o.Count("out-all-hashed")
	case clear > 0:
		o.Count("out-all-verbatim")
	default:
		o.Count("out-no-leaves")
	}
	return proto.Enc(b.String())
}

// preimage of a primitive of the input document ("" , false for containers).
func preimage(v *jv) (string, bool) {
	switch v.k {
	case kNull:
		return "null", true
	case kTrue:
		return "true", true
	case kFalse:
		return "false", true
	case kStr:
		return v.s, true
	case kNum:
		if f, err := strconv.ParseFloat(v.s, 64); err == nil {
			return strconv.FormatFloat(f, 'f', 2, 64), true
		}
	}
	return "", false
}

// canonPos prints the exported document canonically, walking the INPUT document alongside (same index / first
// field of the same name): an output string at the position of an input primitive is a hash only if it is the
// MD5 of THAT primitive's pre-image — so a value that merely looks like a digest (or is the MD5 of another leaf)
// and is exported as itself is printed as itself.  Where the shapes do not line up the global table decides.
func canonPos(b *strings.Builder, out, in *jv, tbl map[string]string, hashed, clear *int) {
	switch out.k {
	case kStr:
		b.WriteByte('"')
		if pre, ok := preimageOf(in); ok {
			if out.s == md5hex(pre) {
				*hashed++
				b.WriteString(marker(pre))
			} else {
				*clear++
				b.WriteString(out.raw)
			}
		} else if pre, ok := tbl[out.s]; ok {
			*hashed++
			b.WriteString(marker(pre))
		} else {
			*clear++
			b.WriteString(out.raw)
		}
		b.WriteByte('"')
	case kArr:
		b.WriteByte('[')
		for i, x := range out.a {
			if i > 0 {
				b.WriteByte(',')
			}
			var xi *jv
			if in != nil && in.k == kArr && i < len(in.a) {
				xi = in.a[i]
			}
			canonPos(b, x, xi, tbl, hashed, clear)
		}
		b.WriteByte(']')
	case kObj:
		b.WriteByte('{')
		for i := range out.keys {
			if i > 0 {
				b.WriteByte(',')
			}
			escStr(b, out.keys[i])
			b.WriteByte(':')
			var xi *jv
			if in != nil && in.k == kObj {
				for j, k := range in.keys {
					if k == out.keys[i] {
						xi = in.vals[j]
						break
					}
				}
			}
			canonPos(b, out.vals[i], xi, tbl, hashed, clear)
		}
		b.WriteByte('}')
	default:
		canon(b, out, func(dec, lexeme string) string { return lexeme })
	}
}

func preimageOf(v *jv) (string, bool) {
	if v == nil {
		return "", false
	}
	return preimage(v)
}

func countNonString(v *jv) int {
	switch v.k {
	case kNull, kTrue, kFalse, kNum:
		return 1
	case kArr:
		n := 0
		for _, x := range v.a {
			n += countNonString(x)
		}
		return n
	case kObj:
		n := 0
		for _, x := range v.vals {
			n += countNonString(x)
		}
		return n
	}
	return 0
}

func exec(c proto.Case, o *proto.Out) []string {
	outs := make([]string, len(c.Ops))
	for i, op := range c.Ops {
		outs[i] = execOp(op, o)
	}
	return outs
}

func main() {
	// the harness is sequential; one P also makes the concurrent `multi mode=conc` calls share one
	// sync.Pool slot (set once: no stop-the-world per op)
	runtime.GOMAXPROCS(1)
	zerolog.SetGlobalLevel(zerolog.Disabled)
	proto.Main(proto.Harness{Rule: rule, Gen: gen, Exec: exec})
}

// ---------------------------------------------------------------------------- op construction

func exJSON(ex []string) string {
	var b strings.Builder
	b.WriteByte('[')
	for i, e := range ex {
		if i > 0 {
			b.WriteByte(',')
		}
		escStr(&b, e)
	}
	b.WriteByte(']')
	return b.String()
}

func opLine(side string, ex []string, doc string) string {
	return fmt.Sprintf("obf side=%s ex=%s doc=%s", side, proto.Enc(exJSON(ex)), proto.Enc(doc))
}

func txnLine(ex []string, reqDoc, respDoc string) string {
	return fmt.Sprintf("txn ex=%s req=%s resp=%s", proto.Enc(exJSON(ex)), proto.Enc(reqDoc), proto.Enc(respDoc))
}

func note(side, c string) string {
	switch side {
	case "req":
		return "$.request.body" + c
	case "resp":
		return "$.response.body" + c
	}
	return c
}
