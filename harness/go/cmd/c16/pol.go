package main

// Policy mode end to end: runner.RunTask selects the HAR-exporter diagnoses that apply (endpoint ones, then
// global ones, ENABLED only — the production selection in runner/plugin_dispatcher.go), every selected
// diagnosis generates a HAR with ITS obfuscation settings (services/diagnoses/har_generator_plugin.go,
// incl. ensureDecompressedBody → utils/compression) and the file exporter writes one record per diagnosis.

import (
	"bytes"
	"compress/gzip"
	"encoding/json"
	"fmt"
	"os"
	"path/filepath"
	"strconv"
	"strings"
	"sync"
	"time"
	"unicode"

	"lunar/engine/config"
	lunarMessages "lunar/engine/messages"
	"lunar/engine/runner"
	"lunar/engine/services"
	sharedConfig "lunar/shared-model/config"

	"verif/harness/internal/proto"
)

type recWriter struct {
	mu   sync.Mutex
	msgs [][]byte
}

func (w *recWriter) Write(b []byte) (int, error) {
	w.mu.Lock()
	defer w.mu.Unlock()
	w.msgs = append(w.msgs, append([]byte(nil), b...))
	return len(b), nil
}
func (w *recWriter) Close() error { return nil }

var (
	polOnce     sync.Once
	polWriter   = &recWriter{}
	polServices *services.PoliciesServices
	polYAML     string
)

// yamlSeq renders a list of strings as a YAML flow sequence of double-quoted scalars (JSON escapes plus
// \uXXXX / \UXXXXXXXX for everything YAML does not accept raw).
func yamlSeq(xs []string) string {
	var b strings.Builder
	b.WriteByte('[')
	for i, x := range xs {
		if i > 0 {
			b.WriteString(", ")
		}
		b.WriteByte('"')
		for _, c := range x {
			switch {
			case c == '"':
				b.WriteString(`\"`)
			case c == '\\':
				b.WriteString(`\\`)
			case c < 0x20 || (c >= 0x7f && c <= 0xa0) || c == 0x2028 || c == 0x2029 || c == 0xfeff || !unicode.IsPrint(c) && c != ' ':
				if c > 0xffff {
					fmt.Fprintf(&b, `\U%08X`, c)
				} else {
					fmt.Fprintf(&b, `\u%04X`, c)
				}
			default:
				b.WriteRune(c)
			}
		}
		b.WriteByte('"')
	}
	b.WriteByte(']')
	return b.String()
}

func polSetup() {
	polOnce.Do(func() {
		s, err := services.Initialize(polWriter, 15*time.Second, sharedConfig.Exporters{})
		if err != nil {
			panic(err)
		}
		polServices = s
		dir, err := os.MkdirTemp("", "verif-c16-pol-")
		if err != nil {
			panic(err)
		}
		polYAML = filepath.Join(dir, "policies.yaml")
	})
}

func gz(s string) string {
	var b bytes.Buffer
	w := gzip.NewWriter(&b)
	if _, err := w.Write([]byte(s)); err != nil {
		panic(err)
	}
	if err := w.Close(); err != nil {
		panic(err)
	}
	return b.String()
}

// transfer options shared by `pol` and `txn`: leading spaces (JSON whitespace: the document is the same, the
// body is bigger) and gzip content encoding.
type transfer struct {
	padReq, padResp int
	gzReq, gzResp   bool
}

func parseTransfer(w []string) transfer {
	var t transfer
	if v, ok := proto.KV(w, "padreq"); ok {
		t.padReq, _ = strconv.Atoi(v)
	}
	if v, ok := proto.KV(w, "padresp"); ok {
		t.padResp, _ = strconv.Atoi(v)
	}
	if v, ok := proto.KV(w, "gzreq"); ok {
		t.gzReq = v == "1"
	}
	if v, ok := proto.KV(w, "gzresp"); ok {
		t.gzResp = v == "1"
	}
	return t
}

// wire returns the body text (padded) and what is put on the wire (gzip-encoded when asked) + headers.
func wire(doc string, pad int, zip bool, headers map[string]string) (text, sent string) {
	text = strings.Repeat(" ", pad) + doc
	sent = text
	if zip {
		sent = gz(text)
		headers["content-encoding"] = "gzip"
	}
	return text, sent
}

func execPol(op string, w []string, o *proto.Out) string {
	ns, ok := proto.KV(w, "n")
	n, err := strconv.Atoi(ns)
	rq, ok2 := proto.KV(w, "req")
	rs, ok3 := proto.KV(w, "resp")
	if !ok || err != nil || n < 0 || n > 8 || !ok2 || !ok3 {
		return "bad-op"
	}
	const host, path = "bank.example.com", "/transfer"
	// The diagnoses are written as a policies.yaml and read back by the production loader
	// (config.ReadPoliciesConfig: configuration.DecodeYAML + Validate), so the yaml tags of the shared model
	// (request_body_paths / response_body_paths, obfuscate.enabled, enabled, …) are on the judged path.
	var gy, ey strings.Builder
	for i := 0; i < n; i++ {
		f, okF := proto.KV(w, fmt.Sprintf("f%d", i))
		q, okQ := proto.KV(w, fmt.Sprintf("q%d", i))
		s, okS := proto.KV(w, fmt.Sprintf("s%d", i))
		if !okF || !okQ || !okS || len(f) != 3 || (f[0] != 'e' && f[0] != 'g') {
			return "bad-op"
		}
		var qp, sp []string
		if json.Unmarshal([]byte(proto.Dec(q)), &qp) != nil || json.Unmarshal([]byte(proto.Dec(s)), &sp) != nil {
			return "bad-op"
		}
		y := &gy
		ind := "    "
		if f[0] == 'e' {
			y = &ey
			ind = "      "
		}
		fmt.Fprintf(y, "%s- name: har-%d\n", ind, i)
		fmt.Fprintf(y, "%s  enabled: %v\n", ind, f[1] == '1')
		fmt.Fprintf(y, "%s  export: file\n", ind)
		fmt.Fprintf(y, "%s  config:\n%s    har_exporter:\n", ind, ind)
		fmt.Fprintf(y, "%s      transaction_max_size: %d\n", ind, 1<<30)
		fmt.Fprintf(y, "%s      obfuscate:\n%s        enabled: %v\n%s        exclusions:\n", ind, ind, f[2] == '1', ind)
		fmt.Fprintf(y, "%s          request_body_paths: %s\n", ind, yamlSeq(qp))
		fmt.Fprintf(y, "%s          response_body_paths: %s\n", ind, yamlSeq(sp))
	}
	var doc strings.Builder
	if gy.Len() > 0 {
		doc.WriteString("global:\n  diagnosis:\n" + gy.String())
	}
	if ey.Len() > 0 {
		fmt.Fprintf(&doc, "endpoints:\n  - url: %s%s\n    method: POST\n    diagnosis:\n%s", host, path, ey.String())
	}
	polSetup()
	if err := os.WriteFile(polYAML, []byte(doc.String()), 0o644); err != nil {
		panic(err)
	}
	policies, err := config.ReadPoliciesConfig(polYAML)
	if err != nil {
		panic(fmt.Sprintf("policies.yaml rejected: %v", err))
	}
	global := policies.Global.Diagnosis
	o.Count("pol")
	tr := parseTransfer(w)
	// at least one leading space, so that a body exported as is never equals the compact obfuscated document
	tr.padReq++
	tr.padResp++
	reqHeaders := map[string]string{"host": host}
	respHeaders := map[string]string{"content-type": "application/json"}
	reqText, reqSent := wire(proto.Dec(rq), tr.padReq, tr.gzReq, reqHeaders)
	respText, respSent := wire(proto.Dec(rs), tr.padResp, tr.gzResp, respHeaders)
	tree, err := config.BuildEndpointPolicyTree(policies.Endpoints)
	if err != nil {
		panic(err)
	}
	now := time.Date(2024, 1, 2, 3, 4, 5, 0, time.UTC)
	task := runner.DiagnosisTask{
		Request: lunarMessages.OnRequest{ID: "verif-txn", SequenceID: "verif-txn", Method: "POST", Scheme: "https",
			URL: host + path, Path: path, Headers: reqHeaders, Body: reqSent, Time: now},
		Response: lunarMessages.OnResponse{ID: "verif-txn", SequenceID: "verif-txn", Method: "POST", URL: host + path,
			Status: 200, Headers: respHeaders, Body: respSent, Time: now.Add(time.Second)},
	}
	polWriter.mu.Lock()
	polWriter.msgs = nil
	polWriter.mu.Unlock()
	runner.RunTask(task, tree, global, &polServices.Diagnosis, &polServices.Exporters)
	polWriter.mu.Lock()
	msgs := polWriter.msgs
	polWriter.mu.Unlock()
	parts := []string{fmt.Sprintf("n=%d", len(msgs))}
	for i, m := range msgs {
		sp := bytes.IndexByte(m, ' ')
		var har struct {
			Log struct {
				Entries []struct {
					Request struct {
						Body *string `json:"body"`
					} `json:"request"`
					Response struct {
						Content *string `json:"content"`
					} `json:"response"`
				} `json:"entries"`
			} `json:"log"`
		}
		if sp < 0 || json.Unmarshal(m[sp+1:], &har) != nil || len(har.Log.Entries) != 1 {
			parts = append(parts, fmt.Sprintf("r%d.req=other r%d.resp=other", i, i))
			continue
		}
		deref := func(p *string) string {
			if p == nil {
				return ""
			}
			return *p
		}
		parts = append(parts,
			fmt.Sprintf("r%d.req=%s", i, polToken(op, reqText, deref(har.Log.Entries[0].Request.Body), o)),
			fmt.Sprintf("r%d.resp=%s", i, polToken(op, respText, deref(har.Log.Entries[0].Response.Content), o)))
	}
	return strings.Join(parts, " ")
}

// polToken: `clear` (the body as sent, i.e. with its leading space), `whole` (hash of the whole body) or the
// canonical obfuscated document.
func polToken(op, text, out string, o *proto.Out) string {
	if out == text {
		o.Count("out-clear")
		return "clear"
	}
	if out == md5hex(text) {
		o.Count("out-whole")
		return "whole"
	}
	c := canonDoc(op, text, out, o)
	if strings.HasPrefix(c, "garbage") {
		return "other"
	}
	return "ok:" + c
}
