package main

// Overlapping ObfuscateJSON calls.  `nest`: call i+1 runs COMPLETELY from inside the hasher of call i, at
// its k-th hashed value (deterministic, one goroutine; when call i hashes fewer than k values, call i+1
// runs right after it).  `conc`: the calls run on concurrent goroutines pinned to one P (the harness process runs with GOMAXPROCS(1)),
// yielding at every hashed value.  The real code must give every call the answer it gives alone: a pooled
// parser / arena handed back before the call has marshalled its output shows up here.

import (
	"encoding/json"
	"fmt"
	"runtime"
	"strconv"
	"strings"
	"sync"

	"lunar/engine/utils/obfuscation"

	"verif/harness/internal/proto"
)

type hookHasher struct {
	k     int
	count int
	fired bool
	hook  func()
}

func (h *hookHasher) HashBytes(raw []byte) string {
	h.count++
	if h.count == h.k && !h.fired && h.hook != nil {
		h.fired = true
		h.hook()
	}
	return obfuscation.MD5Hasher{}.HashBytes(raw)
}

type yieldHasher struct{}

func (yieldHasher) HashBytes(raw []byte) string {
	runtime.Gosched()
	s := obfuscation.MD5Hasher{}.HashBytes(raw)
	runtime.Gosched()
	return s
}

type call struct {
	ex       []string
	doc      string
	out      string
	err      error
	panicked bool // a panic of the implementation on a worker goroutine is an observable answer
}

func execMulti(op string, w []string, o *proto.Out) string {
	mode, ok1 := proto.KV(w, "mode")
	ks, ok2 := proto.KV(w, "k")
	ns, ok3 := proto.KV(w, "n")
	k, e1 := strconv.Atoi(ks)
	n, e2 := strconv.Atoi(ns)
	if !ok1 || !ok2 || !ok3 || e1 != nil || e2 != nil || n < 1 || n > 8 || (mode != "nest" && mode != "conc") {
		return "bad-op"
	}
	calls := make([]*call, n)
	for i := range calls {
		e, okE := proto.KV(w, fmt.Sprintf("e%d", i))
		d, okD := proto.KV(w, fmt.Sprintf("d%d", i))
		if !okE || !okD {
			return "bad-op"
		}
		c := &call{doc: proto.Dec(d)}
		if err := json.Unmarshal([]byte(proto.Dec(e)), &c.ex); err != nil {
			return "bad-op"
		}
		calls[i] = c
	}
	o.Count("multi-" + mode)
	if mode == "nest" {
		var run func(i int)
		run = func(i int) {
			c := calls[i]
			h := &hookHasher{k: k}
			if i+1 < n {
				h.hook = func() { run(i + 1) }
			}
			c.out, c.err = obfuscation.Obfuscator{Hasher: h}.ObfuscateJSON(c.doc, c.ex)
			if i+1 < n && !h.fired {
				h.fired = true
				run(i + 1)
			}
		}
		run(0)
	} else {
		// one P for the whole harness process (set once in main): goroutines share one sync.Pool slot
		var wg sync.WaitGroup
		start := make(chan struct{})
		for _, c := range calls {
			wg.Add(1)
			go func(c *call) {
				defer wg.Done()
				defer func() {
					if r := recover(); r != nil {
						c.panicked = true
					}
				}()
				<-start
				c.out, c.err = obfuscation.Obfuscator{Hasher: yieldHasher{}}.ObfuscateJSON(c.doc, c.ex)
			}(c)
		}
		close(start)
		wg.Wait()
	}
	toks := make([]string, n)
	for i, c := range calls {
		if c.panicked {
			o.Count("impl-panic")
			toks[i] = fmt.Sprintf("o%d=panic", i)
			continue
		}
		if c.err != nil {
			toks[i] = fmt.Sprintf("o%d=err:parse", i)
			continue
		}
		t := canonDoc(op, c.doc, c.out, o)
		if strings.HasPrefix(t, "garbage") {
			toks[i] = fmt.Sprintf("o%d=other", i)
		} else {
			toks[i] = fmt.Sprintf("o%d=ok:%s", i, t)
		}
	}
	return strings.Join(toks, " ")
}

func multiLine(mode string, k int, exs [][]string, docs []string) string {
	var b strings.Builder
	fmt.Fprintf(&b, "multi mode=%s k=%d n=%d", mode, k, len(docs))
	for i := range docs {
		fmt.Fprintf(&b, " e%d=%s d%d=%s", i, proto.Enc(exJSON(exs[i])), i, proto.Enc(docs[i]))
	}
	return b.String()
}
