//go:build verif

package main

import (
	"bytes"
	"runtime"
	"sort"
	"sync"
	"sync/atomic"
	"time"

	"verif/harness/internal/detclock"
)

const hookPoint = "dpq.unlocked-before-park"

const settleTimeout = 10 * time.Second

// gateCtrl implements verifhook.Controller: every goroutine reaching the hook point blocks on its
// own channel (so that the harness can release a SPECIFIC request, not just the oldest).
type gateCtrl struct {
	mu      sync.Mutex
	open    bool            // true: nobody blocks any more (shutdown)
	waiting []chan struct{} // in arrival order
	arrived chan chan struct{}
}

func newGateCtrl() *gateCtrl { return &gateCtrl{arrived: make(chan chan struct{}, 64)} }

func (c *gateCtrl) Yield(point string) {
	if point != hookPoint {
		return
	}
	c.mu.Lock()
	if c.open {
		c.mu.Unlock()
		return
	}
	ch := make(chan struct{})
	c.waiting = append(c.waiting, ch)
	c.mu.Unlock()
	c.arrived <- ch
	<-ch
}

func (c *gateCtrl) Fault(op, arg string) error { return nil }

// openAll releases everybody and lets later arrivals pass.
func (c *gateCtrl) openAll(released map[chan struct{}]bool) {
	c.mu.Lock()
	c.open = true
	ws := c.waiting
	c.waiting = nil
	c.mu.Unlock()
	for _, ch := range ws {
		if !released[ch] {
			close(ch)
		}
	}
}

// reg mirrors one waiter registered on the detclock.Manual (same (due, seq) order).
type reg struct {
	due   int64
	seq   int
	owner int // request id, or ownerRoll
}

const ownerRoll = -1

// clk wraps detclock.Manual: it records who registers which timer (the harness serialises all
// registrations, so the next registration belongs to the goroutine the harness just let run) and,
// once `dead`, terminates any goroutine of the implementation that asks for a new timer.
type clk struct {
	*detclock.Manual
	mu    sync.Mutex
	seq   int
	regs  []reg
	dead  bool
	regCh chan int // seq of each new registration
	exits chan struct{}
	// plugin-level cases: registrations are classified by the registering goroutine's stack
	// (roll-over goroutine vs enqueuer) because a queue's constructor starts its goroutine asynchronously
	classify bool
	quiet    bool     // burst mode: only count, no channels, no bookkeeping
	rollCh   chan int // seq of registrations made by a roll-over goroutine
	ttlCh    chan int // seq of registrations made by an enqueuer
	// gate on the roll-over goroutine's clock reading inside its critical section (taken under the
	// queue mutex in ensureWindowIsUpdated): lets the harness hold the mutex-owning roll-over while
	// another thread runs up to its Lock()
	gateArmed   atomic.Bool
	gateEntered chan struct{}
	gateRelease chan struct{}
	nRoll    atomic.Int64
	nTTL     atomic.Int64
	nExit    atomic.Int64
}

func newClk(t0 int64) *clk {
	m := detclock.NewManual(t0)
	m.Settle = func() {}
	return &clk{Manual: m, regCh: make(chan int, 64), exits: make(chan struct{}, 64),
		rollCh: make(chan int, 64), ttlCh: make(chan int, 64),
		gateEntered: make(chan struct{}, 1), gateRelease: make(chan struct{})}
}

func callerIsRollOver() bool {
	buf := make([]byte, 4096)
	buf = buf[:runtime.Stack(buf, false)]
	return bytes.Contains(buf, []byte("(*DelayedPriorityQueue).process"))
}

func (c *clk) After(d time.Duration) <-chan time.Time {
	c.mu.Lock()
	if c.dead {
		c.mu.Unlock()
		if callerIsRollOver() {
			c.nExit.Add(1)
			if !c.quiet {
				c.exits <- struct{}{} // the roll-over goroutine ends here
			}
		}
		runtime.Goexit() // enqueuers: their deferred `fin` signal fires
	}
	due := c.Manual.Now().UnixNano() + int64(d)
	ch := c.Manual.After(d)
	if d <= 0 {
		c.mu.Unlock()
		return ch
	}
	if c.quiet {
		c.mu.Unlock()
		if callerIsRollOver() {
			c.nRoll.Add(1)
		} else {
			c.nTTL.Add(1)
		}
		return ch
	}
	c.seq++
	s := c.seq
	c.regs = append(c.regs, reg{due: due, seq: s, owner: -2})
	c.mu.Unlock()
	if c.classify {
		if callerIsRollOver() {
			c.rollCh <- s
		} else {
			c.ttlCh <- s
		}
		return ch
	}
	c.regCh <- s
	return ch
}

// tag sets the owner of registration `s`.
func (c *clk) tag(s, owner int) reg {
	c.mu.Lock()
	defer c.mu.Unlock()
	for i := range c.regs {
		if c.regs[i].seq == s {
			c.regs[i].owner = owner
			return c.regs[i]
		}
	}
	panic("harness: registration vanished")
}

// earliest returns the pending registration with the smallest (due, seq) that is due at or before t.
func (c *clk) earliest(t int64) (reg, bool) {
	c.mu.Lock()
	defer c.mu.Unlock()
	c.sortRegs()
	if len(c.regs) == 0 || c.regs[0].due > t {
		return reg{}, false
	}
	return c.regs[0], true
}

func (c *clk) Sleep(d time.Duration) { <-c.After(d) }

func (c *clk) Now() time.Time {
	if c.gateArmed.Load() && callerIsRollOver() && c.gateArmed.CompareAndSwap(true, false) {
		c.gateEntered <- struct{}{}
		<-c.gateRelease
	}
	return c.Manual.Now()
}
func (c *clk) Since(t time.Time) time.Duration { return c.Now().Sub(t) }
func (c *clk) Until(t time.Time) time.Duration { return t.Sub(c.Now()) }

// enqueuersWaitingForMutex counts goroutines inside DelayedPriorityQueue.Enqueue that are blocked
// acquiring the queue mutex.
func enqueuersWaitingForMutex() int {
	buf := make([]byte, 1<<16)
	for {
		n := runtime.Stack(buf, true)
		if n < len(buf) {
			buf = buf[:n]
			break
		}
		buf = make([]byte, 2*len(buf))
	}
	cnt := 0
	for _, blk := range bytes.Split(buf, []byte("\n\n")) {
		nl := bytes.IndexByte(blk, '\n')
		if nl < 0 {
			continue
		}
		head := blk[:nl]
		if !bytes.HasPrefix(head, []byte("goroutine ")) ||
			!(bytes.Contains(head, []byte("Lock")) || bytes.Contains(head, []byte("semacquire"))) {
			continue
		}
		if bytes.Contains(blk[nl:], []byte("(*DelayedPriorityQueue).Enqueue(")) {
			cnt++
		}
	}
	return cnt
}

func (c *clk) sortRegs() {
	sort.SliceStable(c.regs, func(i, j int) bool {
		if c.regs[i].due != c.regs[j].due {
			return c.regs[i].due < c.regs[j].due
		}
		return c.regs[i].seq < c.regs[j].seq
	})
}

// awaitReg waits for the next registration and tags it with its owner.
func (c *clk) awaitReg(owner int) reg {
	select {
	case s := <-c.regCh:
		c.mu.Lock()
		defer c.mu.Unlock()
		for i := range c.regs {
			if c.regs[i].seq == s {
				c.regs[i].owner = owner
				return c.regs[i]
			}
		}
		panic("harness: registration vanished")
	case <-time.After(settleTimeout):
		panic("harness: timeout waiting for a timer registration")
	}
}

func (c *clk) find(owner int) (reg, bool) {
	c.mu.Lock()
	defer c.mu.Unlock()
	for _, r := range c.regs {
		if r.owner == owner {
			return r, true
		}
	}
	return reg{}, false
}

// fire fires the timer of `owner` (whatever the time is: the caller checked that it is due).
func (c *clk) fire(owner int) {
	c.mu.Lock()
	c.sortRegs()
	idx := -1
	for i, r := range c.regs {
		if r.owner == owner {
			idx = i
			break
		}
	}
	if idx < 0 {
		c.mu.Unlock()
		panic("harness: no timer for owner")
	}
	c.regs = append(c.regs[:idx:idx], c.regs[idx+1:]...)
	c.mu.Unlock()
	if !c.Manual.FireIndex(idx) {
		panic("harness: detclock has no such waiter")
	}
}

// fireAll fires every pending waiter (shutdown).
func (c *clk) fireAll() {
	for c.Manual.FireIndex(0) {
	}
	c.mu.Lock()
	c.regs = nil
	c.mu.Unlock()
}

func (c *clk) tick(d int64) int64 {
	n := c.Manual.Now().UnixNano() + d
	c.Manual.SetNow(n)
	return n
}

// enqueuersInSelect counts the goroutines that are blocked in the `select` of
// DelayedPriorityQueue.Enqueue, from the runtime's own goroutine dump (state `[select...]`): this is
// the precise condition under which the roll-over's non-blocking send succeeds.
func enqueuersInSelect() int {
	buf := make([]byte, 1<<16)
	for {
		n := runtime.Stack(buf, true)
		if n < len(buf) {
			buf = buf[:n]
			break
		}
		buf = make([]byte, 2*len(buf))
	}
	cnt := 0
	for _, blk := range bytes.Split(buf, []byte("\n\n")) {
		nl := bytes.IndexByte(blk, '\n')
		if nl < 0 {
			continue
		}
		head := blk[:nl]
		if !bytes.HasPrefix(head, []byte("goroutine ")) || !bytes.Contains(head, []byte("[select")) {
			continue
		}
		if bytes.Contains(blk[nl:], []byte("(*DelayedPriorityQueue).Enqueue(")) {
			cnt++
		}
	}
	return cnt
}

// waitFor polls `cond` until it holds (true) or the bound passes (false).
func waitFor(bound time.Duration, cond func() bool) bool {
	deadline := time.Now().Add(bound)
	for i := 0; ; i++ {
		if cond() {
			return true
		}
		if time.Now().After(deadline) {
			return false
		}
		if i < 20 {
			runtime.Gosched()
		} else {
			time.Sleep(50 * time.Microsecond)
		}
	}
}

// waitUntil polls `cond` (cheap, deterministic conditions only) until it holds or the timeout.
func waitUntil(what string, cond func() bool) {
	deadline := time.Now().Add(settleTimeout)
	for i := 0; ; i++ {
		if cond() {
			return
		}
		if time.Now().After(deadline) {
			panic("harness: timeout waiting for " + what)
		}
		if i < 20 {
			runtime.Gosched()
		} else {
			time.Sleep(50 * time.Microsecond)
		}
	}
}
