//go:build verif

package main

import (
	"fmt"
	"os"
	"path/filepath"
	"strconv"
	"strings"
	"sync"
	"time"

	engineConfig "lunar/engine/config"
	"lunar/engine/utils/queue"
	sharedConfig "lunar/shared-model/config"
	"lunar/toolkit-core/clock"
	"lunar/toolkit-core/logging"

	"github.com/rs/zerolog"

	"verif/harness/internal/proto"
)

// Policies-file cases: strategy_based_queue remedies are DECLARED (global or per endpoint), written
// to a policies YAML file, read back and validated by the real reader (config.ReadPoliciesConfig with
// the struct validations production registers); requests then go through the real plugin with the
// Remedy values the reader returned.
//
//	fcfg t0=NS
//	frem ep=E name=N quota=Q winsec=W size=S ttlsec=T    remedy "n<N>" on endpoint E (0 = global)
//	fload                                                 accepted remedies=K | refused:duplicate-names | refused:other
//	freq id=I rem=J p=P                                   request for the J-th declared remedy
//	ptick d=NS
type remDecl struct {
	ep, name            int
	quota, winsec, size int64
	ttlsec              int64
}

type fileCase struct {
	decls  []remDecl
	loaded bool
	ok     bool
	rems   []*sharedConfig.Remedy // parsed remedy of each declaration
}

var registerValidations sync.Once

func (w *pworld) fileOp(f []string, o *proto.Out) string {
	fc := w.file
	switch f[0] {
	case "frem":
		ep, ok1 := kvI(f, "ep")
		name, ok2 := kvI(f, "name")
		q, ok3 := kvI(f, "quota")
		ws, ok4 := kvI(f, "winsec")
		sz, ok5 := kvI(f, "size")
		ttl, ok6 := kvI(f, "ttlsec")
		if !(ok1 && ok2 && ok3 && ok4 && ok5 && ok6) || fc.loaded || ep > 20 || name > 50 || len(fc.decls) >= 20 {
			return "bad-op"
		}
		fc.decls = append(fc.decls, remDecl{int(ep), int(name), q, ws, sz, ttl})
		return "ok"
	case "fload":
		if fc.loaded || len(f) != 1 {
			return "bad-op"
		}
		fc.loaded = true
		return w.load(o)
	case "freq":
		id, ok1 := kvI(f, "id")
		j, ok2 := kvI(f, "rem")
		p, ok3 := kvI(f, "p")
		if !(ok1 && ok2 && ok3) || !fc.ok || j >= int64(len(fc.rems)) || p >= 8 {
			return "bad-op"
		}
		rem := fc.rems[j]
		o.Count("freq")
		return w.reqWith(int(id), int(j), int(p), rem.Name, rem.Config.StrategyBasedQueue, int(j))
	}
	return "bad-op"
}

func (w *pworld) load(o *proto.Out) string {
	registerValidations.Do(func() {
		// exactly what routing.HandlingDataManager.initializePolicies registers
		sharedConfig.Validate.RegisterStructValidation(engineConfig.ValidateStructLevel,
			sharedConfig.Remedy{}, sharedConfig.Diagnosis{}, sharedConfig.PoliciesConfig{})
		_ = sharedConfig.Validate.RegisterValidation("validateInt", engineConfig.ValidateInt)
	})
	fc := w.file
	var pc sharedConfig.PoliciesConfig
	eps := map[int]int{}
	var epOrder []int
	for _, d := range fc.decls {
		if d.ep != 0 {
			if _, ok := eps[d.ep]; !ok {
				eps[d.ep] = len(epOrder)
				epOrder = append(epOrder, d.ep)
			}
		}
	}
	pc.Endpoints = make([]sharedConfig.EndpointConfig, len(epOrder))
	for i, e := range epOrder {
		pc.Endpoints[i] = sharedConfig.EndpointConfig{URL: fmt.Sprintf("host%d.example.com/api", e), Method: "GET"}
	}
	type pos struct{ ep, idx int } // ep -1 = global
	where := make([]pos, len(fc.decls))
	for j, d := range fc.decls {
		r := sharedConfig.Remedy{Enabled: true, Name: "n" + strconv.Itoa(d.name),
			Config: sharedConfig.RemedyConfig{StrategyBasedQueue: &sharedConfig.StrategyBasedQueueConfig{
				AllowedRequestCount: d.quota, WindowSizeInSeconds: int(d.winsec), ResponseStatusCode: 429,
				TTLSeconds: float32(d.ttlsec), QueueSize: d.size}}}
		if d.ep == 0 {
			where[j] = pos{-1, len(pc.Global.Remedies)}
			pc.Global.Remedies = append(pc.Global.Remedies, r)
		} else {
			i := eps[d.ep]
			where[j] = pos{i, len(pc.Endpoints[i].Remedies)}
			pc.Endpoints[i].Remedies = append(pc.Endpoints[i].Remedies, r)
		}
	}
	dir, err := os.MkdirTemp("", "c10-policies")
	if err != nil {
		panic(err)
	}
	defer os.RemoveAll(dir)
	path := filepath.Join(dir, "policies.yaml")
	if err := engineConfig.WritePoliciesConfig(path, &pc); err != nil {
		panic(err)
	}
	got, err := engineConfig.ReadPoliciesConfig(path)
	if err != nil {
		if strings.Contains(err.Error(), "duplicate policy names") {
			o.Count("fload-refused-duplicate-names")
			return "refused:duplicate-names"
		}
		o.Count("fload-refused-other")
		return "refused:other"
	}
	for j := range fc.decls {
		var r *sharedConfig.Remedy
		if where[j].ep < 0 {
			if where[j].idx < len(got.Global.Remedies) {
				r = &got.Global.Remedies[where[j].idx]
			}
		} else if where[j].ep < len(got.Endpoints) && where[j].idx < len(got.Endpoints[where[j].ep].Remedies) {
			r = &got.Endpoints[where[j].ep].Remedies[where[j].idx]
		}
		if r == nil || r.Config.StrategyBasedQueue == nil {
			return "accepted-but-remedy-lost"
		}
		fc.rems = append(fc.rems, r)
	}
	fc.ok = true
	o.Count("fload-accepted")
	return fmt.Sprintf("accepted remedies=%d", len(fc.rems))
}

// Real-clock cases (`rcfg`): the PRODUCTION clock (clock.NewRealClock()) with the real queue.
//
//	rclock n=N          N consecutive clock readings in a tight loop: strictly increasing? (the queue's
//	                    same-priority tie-break is the request timestamp taken from this clock)
//	rburst win=MS prios=p0,p1,…   one request takes the window's only slot, then the listed requests get
//	                    their timestamps in a tight loop (arrival order) and are queued; quota 1 per window
//	                    of MS milliseconds: answer = ids in release order
func (w *pworld) realOp(f []string, o *proto.Out) string {
	switch f[0] {
	case "rclock":
		n, ok := kvI(f, "n")
		if !ok || n < 2 || n > 100000 {
			return "bad-op"
		}
		c := clock.NewRealClock()
		ts := make([]time.Time, n)
		for i := range ts {
			ts[i] = c.Now()
		}
		notAfter := 0
		for i := 1; i < len(ts); i++ {
			if !ts[i].After(ts[i-1]) {
				notAfter++
			}
		}
		o.Count("rclock")
		if notAfter == 0 {
			return "strictly-increasing"
		}
		return fmt.Sprintf("not-strictly-increasing ties-or-regressions=%d-of-%d", notAfter, n-1)
	case "rafter":
		// RealClock.After(d) must deliver, also for d <= 0 (already due), within a generous real-time bound;
		// a hang is an answer, not a dead harness
		ds, ok := proto.KV(f, "d")
		d, err := strconv.ParseInt(ds, 10, 64)
		if !ok || err != nil || d < -100000 || d > 50 {
			return "bad-op"
		}
		o.Count("rafter")
		got := make(chan struct{})
		go func() {
			<-clock.NewRealClock().After(time.Duration(d) * time.Millisecond)
			close(got)
		}()
		select {
		case <-got:
			return "delivered"
		case <-time.After(3 * time.Second):
			return "no-delivery-within-3s"
		}
	case "rstep":
		ms, ok := kvI(f, "win")
		if !ok || ms < 5 || ms > 1000 || len(f) != 2 {
			return "bad-op"
		}
		o.Count("rstep")
		return w.realStep(time.Duration(ms) * time.Millisecond)
	case "rburst":
		ms, ok := kvI(f, "win")
		pl, ok2 := proto.KV(f, "prios")
		if !ok || !ok2 || ms < 5 || ms > 1000 {
			return "bad-op"
		}
		var prios []int
		for _, x := range strings.Split(pl, ",") {
			v, err := strconv.Atoi(x)
			if err != nil || v < 0 || v > 7 || len(prios) >= 12 {
				return "bad-op"
			}
			prios = append(prios, v)
		}
		o.Count("rburst")
		return w.realBurst(time.Duration(ms)*time.Millisecond, prios)
	}
	return "bad-op"
}

// stepClock is the production clock whose wall time steps forward once (NTP correction, resumed
// VM/container): from its `at`-th reading on, Now() is `by` later.  Timers are the production clock's.
type stepClock struct {
	*clock.RealClock
	mu    sync.Mutex
	calls int
	at    int
	by    time.Duration
}

func (c *stepClock) Now() time.Time {
	c.mu.Lock()
	c.calls++
	stepped := c.calls >= c.at
	c.mu.Unlock()
	t := c.RealClock.Now()
	if stepped {
		t = t.Add(c.by)
	}
	return t
}
func (c *stepClock) Since(t time.Time) time.Duration { return c.Now().Sub(t) }
func (c *stepClock) Until(t time.Time) time.Duration { return t.Sub(c.Now()) }
func (c *stepClock) readings() int {
	c.mu.Lock()
	defer c.mu.Unlock()
	return c.calls
}

// realStep: the wall clock steps forward by one window exactly when the roll-over goroutine of a fresh
// queue first asks for the time till the window end (so that it is already past: After(d <= 0)); then
// one request takes the window's slot and a second one is queued.  Its turn comes at the next window end:
// it must be released by the roll-over goroutine (no other request arrives), not left to its TTL.
func (w *pworld) realStep(win time.Duration) string {
	c := &stepClock{RealClock: clock.NewRealClock(), at: 2, by: win}
	q := queue.NewInMemoryDelayedPriorityQueue(
		queue.QueueKey{RemedyName: "step", Strategy: queue.Strategy{WindowQuota: 1, WindowSize: win}},
		c, logging.ContextLogger{Logger: zerolog.Nop()})
	// reading 1 = constructor's window bookkeeping, reading 2 = the roll-over goroutine's first time-till-window-end
	waitUntil("roll-over goroutine to read the clock", func() bool { return c.readings() >= 2 })
	time.Sleep(2 * time.Millisecond)
	ttl := 100*win + 2*time.Second
	if ok, _ := q.Enqueue(queue.NewRequest("a", 0, c), ttl, 4); !ok {
		// the slot of the (stepped) window may already be free again: either way a slot was available
		return "first-request-refused"
	}
	res := make(chan bool, 1)
	go func() {
		ok, _ := q.Enqueue(queue.NewRequest("b", 0, c), ttl, 4)
		res <- ok
	}()
	select {
	case ok := <-res:
		if ok {
			return "waiter=released"
		}
		return "waiter=expired"
	case <-time.After(ttl + settleTimeout):
		return "waiter=stuck"
	}
}

func (w *pworld) realBurst(win time.Duration, prios []int) string {
	c := clock.NewRealClock()
	q := queue.NewInMemoryDelayedPriorityQueue(
		queue.QueueKey{RemedyName: "real", Strategy: queue.Strategy{WindowQuota: 1, WindowSize: win}},
		c, logging.ContextLogger{Logger: zerolog.Nop()})
	// (the roll-over goroutine of this queue keeps ticking on the real clock; one per case, harmless)
	type res struct {
		id int
		ok bool
		at time.Time
	}
	out := make(chan res, len(prios)+1)
	first := queue.NewRequest("first", 0, c)
	if ok, _ := q.Enqueue(first, time.Minute, int64(len(prios)+1)); !ok {
		return "first-request-refused"
	}
	// arrival order = order of the timestamps, taken back to back like a burst of requests
	reqs := make([]*queue.Request, len(prios))
	for i, p := range prios {
		reqs[i] = queue.NewRequest(strconv.Itoa(i), float64(p), c)
	}
	var mu sync.Mutex
	var order []int
	var wg sync.WaitGroup
	before := enqueuersInSelect()
	for i := range reqs {
		i := i
		wg.Add(1)
		go func() {
			defer wg.Done()
			ok, _ := q.Enqueue(reqs[i], time.Minute, int64(len(prios)+1))
			mu.Lock()
			if ok {
				order = append(order, i)
			} else {
				order = append(order, -1-i)
			}
			mu.Unlock()
			out <- res{i, ok, time.Now()}
		}()
		// one at a time, each parked (or already released by a roll-over) before the next
		want := before + i + 1
		waitUntil("real-clock request to park", func() bool {
			mu.Lock()
			done := len(order)
			mu.Unlock()
			return enqueuersInSelect()+done >= want
		})
	}
	ch := make(chan struct{})
	go func() { wg.Wait(); close(ch) }()
	select {
	case <-ch:
	case <-time.After(settleTimeout + time.Duration(len(prios)+2)*win):
		return "real-clock-burst-did-not-drain"
	}
	// quota 1 per window: releases are at least one window apart, so completion order = release order
	mu.Lock()
	defer mu.Unlock()
	xs := make([]string, len(order))
	for i, v := range order {
		xs[i] = strconv.Itoa(v)
	}
	return "order=" + strings.Join(xs, ",")
}
