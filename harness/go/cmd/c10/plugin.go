//go:build verif

package main

import (
	"context"
	"fmt"
	"sort"
	"strconv"
	"strings"
	"sync"
	"time"

	"lunar/engine/actions"
	"lunar/engine/config"
	messages "lunar/engine/messages"
	"lunar/engine/services/remedies"
	"lunar/engine/utils/queue"
	sharedConfig "lunar/shared-model/config"
	"lunar/toolkit-core/logging"
	"lunar/toolkit-core/verifhook"

	"github.com/rs/zerolog"
	"go.opentelemetry.io/otel/metric/noop"

	"verif/harness/internal/proto"
)

// Plugin-level cases: the REAL remedies.StrategyBasedQueuePlugin (get-or-create of one queue per
// (remedy name, strategy) key + Enqueue on it) with real in-memory queues on the deterministic clock.
//
//	pcfg quota=Q winsec=W size=S ttlsec=T t0=NS     fresh plugin, frozen clock at NS
//	pburst k=K rounds=R        R times: K goroutines released by a start barrier send the FIRST
//	                           requests of one fresh remedy key; per round: queues created for the key,
//	                           immediate NoOp answers, early (429) answers, requests left waiting
//	preq id=N key=I p=P [q=Q w=W]  one request (sequential scenario) for remedy NAME I with priority group P,
//	                           configured with allowed_request_count Q / window_size_in_seconds W (default: pcfg's).
//	                           The queue key is the FULL QueueKey (name, quota, window): ck = I + 100*Q + 10000*W
//	ptick d=NS                 the clock advances; due timers fire in (due, registration) order
type prq struct {
	id, key int
	res     chan string
	phase   string // waiting done
	owner   int
}

type pworld struct {
	pl      *remedies.StrategyBasedQueuePlugin
	c       *clk
	cfg     sharedConfig.StrategyBasedQueueConfig
	mu      sync.Mutex
	created map[string]int
	queues  map[string]*queue.DelayedPriorityQueue
	byCK    map[int]*queue.DelayedPriorityQueue
	reqs    map[int]*prq
	order   []*prq
	inSel   int
	mode    string // "" burst seq
	wg      sync.WaitGroup
	seqKey  string // key being created by the sequential request in flight
	nQueues int
	burstNo int
	file    *fileCase
	stuck   bool // a queue stopped answering: its goroutines cannot be collected
}

// groupName: configured prioritization group of priority i — names as an operator writes them (mixed
// case, digits, dashes); requests carry exactly the configured name in the group header.
func groupName(i int) string {
	return []string{"gold", "Silver", "BRONZE", "tin-Plated", "g4", "Team_Five", "six", "LAST"}[i%8]
}

const rollOwnerBase = -1000 // owner of key i's roll-over timer = rollOwnerBase - i

func newPWorld(quota, winsec, size, ttlsec, t0 int64) *pworld {
	w := &pworld{c: newClk(t0), created: map[string]int{}, queues: map[string]*queue.DelayedPriorityQueue{},
		byCK: map[int]*queue.DelayedPriorityQueue{}, reqs: map[int]*prq{}}
	w.c.classify = true
	verifhook.Install(nil) // nobody is held at the yield point in plugin-level cases
	groups := map[string]sharedConfig.Prioritization{}
	for i := 0; i < 8; i++ {
		groups[groupName(i)] = sharedConfig.Prioritization{Priority: float64(i)}
	}
	w.cfg = sharedConfig.StrategyBasedQueueConfig{
		AllowedRequestCount: quota, WindowSizeInSeconds: int(winsec), ResponseStatusCode: 429,
		TTLSeconds: float32(ttlsec), QueueSize: size,
		Prioritization: &sharedConfig.GroupPrioritization{
			GroupBy: sharedConfig.GroupBy{HeaderName: "x-group"}, Groups: groups},
	}
	w.pl = remedies.NewStrategyBasedQueuePlugin(context.Background(), w.c,
		logging.ContextLogger{Logger: zerolog.Nop()}, noop.NewMeterProvider().Meter("verif"), w.initQueue)
	return w
}

// initQueue is the plugin's InitializeQueueFunc: the real in-memory queue, counted per remedy name.
func (w *pworld) initQueue(k queue.QueueKey) queue.DelayedPriorityQueueable {
	w.mu.Lock()
	w.created[k.RemedyName]++
	w.nQueues++
	w.mu.Unlock()
	q := queue.NewInMemoryDelayedPriorityQueue(k, w.c, logging.ContextLogger{Logger: zerolog.Nop()})
	if w.mode == "seq" {
		// wait for the roll-over goroutine of this queue to arm its timer and tag it with the key
		select {
		case s := <-w.c.rollCh:
			w.c.tag(s, rollOwnerBase-w.ckOf(k))
		case <-time.After(settleTimeout):
			panic("harness: roll-over goroutine of a new queue did not arm its timer")
		}
	}
	w.mu.Lock()
	w.queues[k.RemedyName] = q
	w.byCK[w.ckOf(k)] = q
	w.mu.Unlock()
	return q
}

// ckOf: the queue key as one number.  Plugin-level cases: (remedy name index, window quota, window
// size in s).  Policies-file cases: the index of the first declared remedy carrying that name (an
// accepted file has unique names, so this is THE remedy of the queue).
func (w *pworld) ckOf(k queue.QueueKey) int {
	if w.file != nil {
		for j, d := range w.file.decls {
			if "n"+strconv.Itoa(d.name) == k.RemedyName {
				return j
			}
		}
		return 99
	}
	idx, _ := strconv.Atoi(strings.TrimPrefix(k.RemedyName, "k"))
	return idx + 100*int(k.Strategy.WindowQuota) + 10000*int(k.Strategy.WindowSize/time.Second)
}

func (w *pworld) call(id string, key string, prio int) string {
	return w.callCfg(id, key, prio, &w.cfg)
}

func (w *pworld) callCfg(id string, key string, prio int, cfg *sharedConfig.StrategyBasedQueueConfig) string {
	act, err := w.pl.OnRequest(
		messages.OnRequest{ID: id, Headers: map[string]string{"x-group": groupName(prio)}},
		config.ScopedRemedy{Remedy: &sharedConfig.Remedy{Enabled: true, Name: key,
			Config: sharedConfig.RemedyConfig{StrategyBasedQueue: cfg}}})
	if err != nil {
		return "err"
	}
	switch a := act.(type) {
	case *actions.NoOpAction:
		return "noop"
	case *actions.EarlyResponseAction:
		return "early:" + strconv.Itoa(a.Status)
	default:
		return fmt.Sprintf("other:%T", act)
	}
}

type span struct{ lo, hi int }

func (s *span) add(v int, first bool) {
	if first || v < s.lo {
		s.lo = v
	}
	if first || v > s.hi {
		s.hi = v
	}
}
func (s span) String() string { return fmt.Sprintf("%d..%d", s.lo, s.hi) }

func (w *pworld) burst(k, rounds int, o *proto.Out) string {
	w.mode = "burst"
	w.c.quiet = true
	var created, pass, wait, rej, other span
	for r := 0; r < rounds; r++ {
		w.burstNo++
		key := fmt.Sprintf("b%d", w.burstNo)
		ttl0 := w.c.nTTL.Load()
		start := make(chan struct{})
		res := make(chan string, k)
		for i := 0; i < k; i++ {
			i := i
			w.wg.Add(1)
			go func() {
				defer w.wg.Done()
				<-start
				res <- w.call(fmt.Sprintf("%s-%d", key, i), key, 0)
			}()
		}
		// a metrics scrape runs concurrently, as the requests_in_queue gauge callback does: Counts() of the key's queue
		stopScrape := make(chan struct{})
		for sc := 0; sc < 2; sc++ {
			go func() {
				for {
					select {
					case <-stopScrape:
						return
					default:
					}
					w.mu.Lock()
					q := w.queues[key]
					w.mu.Unlock()
					if q != nil {
						_ = q.Counts()
					}
				}
			}()
		}
		close(start)
		np, nr, no := 0, 0, 0
		got := 0
		// quiescent when every goroutine has either answered or asked for its TTL timer (= is in select)
		settled := waitFor(1500*time.Millisecond, func() bool {
			for {
				select {
				case a := <-res:
					got++
					switch {
					case a == "noop":
						np++
					case strings.HasPrefix(a, "early:429"):
						nr++
					default:
						no++
					}
					continue
				default:
				}
				break
			}
			return got+int(w.c.nTTL.Load()-ttl0) == k
		})
		close(stopScrape)
		if !settled {
			// some request neither answered nor reached its select within 1.5 s: the queue is stuck
			w.stuck = true
			o.Count("burst-stuck")
			return fmt.Sprintf("rounds=%d stuck-in-round=%d answered=%d parked=%d of=%d", rounds, r, got, int(w.c.nTTL.Load()-ttl0), k)
		}
		w.mu.Lock()
		nc := w.created[key]
		w.mu.Unlock()
		if nc > 1 {
			o.Count("burst-round-with-several-queues-for-one-key")
		}
		created.add(nc, r == 0)
		pass.add(np, r == 0)
		rej.add(nr, r == 0)
		wait.add(k-got, r == 0)
		other.add(no, r == 0)
	}
	o.Count("burst-rounds")
	return fmt.Sprintf("rounds=%d created=%s pass=%s wait=%s rej=%s other=%s", rounds, created, pass, wait, rej, other)
}

func (w *pworld) countsOf(ck int) string {
	w.mu.Lock()
	q := w.byCK[ck]
	w.mu.Unlock()
	if q == nil {
		return "-"
	}
	m, ok := countsWithin(q, 3*time.Second)
	if !ok {
		w.stuck = true
		return "queue-stuck"
	}
	var ps []float64
	for p, n := range m {
		if n != 0 {
			ps = append(ps, p)
		}
	}
	sort.Float64s(ps)
	var items []string
	for _, p := range ps {
		items = append(items, fmt.Sprintf("%d:%d", int64(p), m[p]))
	}
	if len(items) == 0 {
		return "-"
	}
	return strings.Join(items, ",")
}

// collect waits until every waiting request released by the critical section that just ended has
// returned; returns "id:answer" items sorted by id.
func (w *pworld) collect() []string {
	before := w.inSel
	var done []*prq
	waitUntil("released requests to return", func() bool {
		for _, r := range w.order {
			if r.phase == "waiting" {
				select {
				case a := <-r.res:
					r.phase = "done:" + a
					done = append(done, r)
				default:
				}
			}
		}
		return enqueuersInSelect()+len(done) == before
	})
	w.inSel -= len(done)
	sort.Slice(done, func(i, j int) bool { return done[i].id < done[j].id })
	var out []string
	for _, r := range done {
		out = append(out, fmt.Sprintf("%d:%s", r.id, strings.TrimPrefix(r.phase, "done:")))
	}
	return out
}

func join(xs []string) string {
	if len(xs) == 0 {
		return "-"
	}
	return strings.Join(xs, ",")
}

func (w *pworld) req(id, key, prio int, quota, winsec int64) string {
	kname := "k" + strconv.Itoa(key)
	cfg := w.cfg // the remedy as configured at the time of this request
	cfg.AllowedRequestCount, cfg.WindowSizeInSeconds = quota, int(winsec)
	ck := key + 100*int(quota) + 10000*int(winsec)
	return w.reqWith(id, key, prio, kname, &cfg, ck)
}

// reqWith sends one request for remedy `kname` configured as `cfg`; `ck` identifies the queue the
// MODEL expects it to use (its Counts() are reported).
func (w *pworld) reqWith(id, key, prio int, kname string, cfgp *sharedConfig.StrategyBasedQueueConfig, ck int) string {
	w.mode = "seq"
	if _, dup := w.reqs[id]; dup {
		return "bad-op"
	}
	r := &prq{id: id, key: key, res: make(chan string, 1), owner: id}
	w.reqs[id] = r
	w.order = append(w.order, r)
	cfg := *cfgp
	if cfg.Prioritization == nil {
		cfg.Prioritization = w.cfg.Prioritization
	}
	w.wg.Add(1)
	go func() {
		defer w.wg.Done()
		r.res <- w.callCfg(strconv.Itoa(id), kname, prio, &cfg)
	}()
	var a string
	select {
	case a = <-r.res:
		r.phase = "done:" + a
	case s := <-w.c.ttlCh:
		w.c.tag(s, id)
		r.phase = "waiting"
		a = "waiting"
		want := w.inSel + 1
		returned := false
		waitUntil("request to block in select", func() bool {
			select {
			case x := <-r.res: // e.g. a buffered hand-off taken at once
				r.phase = "done:" + x
				a = "waiting-then:" + x
				returned = true
				return true
			default:
			}
			return enqueuersInSelect() == want
		})
		if !returned {
			w.inSel++
		}
	case <-time.After(settleTimeout):
		panic("harness: plugin request neither answered nor parked")
	}
	done := w.collect()
	return fmt.Sprintf("%s done=%s c=%s", a, join(done), w.countsOf(ck))
}

func (w *pworld) tick(d int64) string {
	w.mode = "seq"
	target := w.c.Now().UnixNano() + d
	var evs []string
	for {
		rg, ok := w.c.earliest(target)
		if !ok {
			break
		}
		if rg.due > w.c.Now().UnixNano() {
			w.c.Manual.SetNow(rg.due)
		}
		now := w.c.Now().UnixNano()
		if rg.owner <= rollOwnerBase {
			key := rollOwnerBase - rg.owner
			w.c.fire(rg.owner)
			select {
			case s := <-w.c.rollCh: // locked section over, timer re-armed
				w.c.tag(s, rg.owner)
			case <-time.After(settleTimeout):
				panic("harness: roll-over goroutine did not re-arm")
			}
			evs = append(evs, fmt.Sprintf("r%d@%d:%s", key, now, strings.ReplaceAll(join(w.collect()), ",", "+")))
		} else {
			r := w.reqs[rg.owner]
			w.c.fire(rg.owner)
			if r == nil || r.phase != "waiting" {
				continue // timer of a request that was released meanwhile: nobody listens
			}
			select {
			case a := <-r.res:
				r.phase = "done:" + a
				w.inSel--
				evs = append(evs, fmt.Sprintf("x%d@%d:%s", r.id, now, a))
			case <-time.After(settleTimeout):
				panic("harness: expired request did not return")
			}
		}
	}
	w.c.Manual.SetNow(target)
	ev := "-"
	if len(evs) > 0 {
		ev = strings.Join(evs, ";")
	}
	return fmt.Sprintf("now=%d ev=%s", target, ev)
}

func (w *pworld) shutdown() {
	w.c.mu.Lock()
	w.c.dead = true
	w.c.quiet = true
	w.c.mu.Unlock()
	w.c.fireAll()
	if w.stuck {
		return // the stuck queue's goroutines are leaked (they block for ever on its mutex)
	}
	w.mu.Lock()
	n := int64(w.nQueues)
	w.mu.Unlock()
	waitUntil("roll-over goroutines to stop", func() bool { return w.c.nExit.Load() >= n })
	ch := make(chan struct{})
	go func() { w.wg.Wait(); close(ch) }()
	select {
	case <-ch:
	case <-time.After(settleTimeout):
		panic("harness: plugin request goroutines did not stop")
	}
}

// execPlugin runs a plugin-level case (first op is `pcfg`).
func execPlugin(c proto.Case, o *proto.Out) []string {
	outs := make([]string, len(c.Ops))
	var w *pworld
	defer func() {
		if w != nil {
			w.shutdown()
		}
	}()
	for i, op := range c.Ops {
		f := strings.Fields(op)
		a := "bad-op"
		if w != nil && w.stuck {
			outs[i] = "queue-stuck"
			continue
		}
		switch {
		case len(f) == 0:
		case f[0] == "pcfg":
			q, ok1 := kvI(f, "quota")
			ws, ok2 := kvI(f, "winsec")
			sz, ok3 := kvI(f, "size")
			ttl, ok4 := kvI(f, "ttlsec")
			t0, ok5 := kvI(f, "t0")
			if ok1 && ok2 && ok3 && ok4 && ok5 && ws > 0 && w == nil {
				w = newPWorld(q, ws, sz, ttl, t0)
				a = "ok"
			}
		case len(f) > 0 && f[0] == "fcfg":
			if t0, ok := kvI(f, "t0"); ok && w == nil {
				w = newPWorld(1, 1, 1, 1, t0)
				w.file = &fileCase{}
				a = "ok"
			}
		case len(f) > 0 && f[0] == "rcfg":
			if w == nil && len(f) == 1 {
				w = newPWorld(1, 1, 1, 1, 0)
				w.mode = "real"
				a = "ok"
			}
		case w == nil:
		case w.mode == "real":
			a = w.realOp(f, o)
		case w.file != nil && (f[0] == "frem" || f[0] == "fload" || f[0] == "freq"):
			a = w.fileOp(f, o)
		case w.file != nil && f[0] != "ptick":
		case f[0] == "pburst":
			k, ok1 := kvI(f, "k")
			r, ok2 := kvI(f, "rounds")
			if ok1 && ok2 && w.mode != "seq" && k > 0 && r > 0 && k <= 64 && r <= 1000 {
				a = w.burst(int(k), int(r), o)
			}
		case f[0] == "preq":
			id, ok1 := kvI(f, "id")
			key, ok2 := kvI(f, "key")
			p, ok3 := kvI(f, "p")
			q, okq := kvI(f, "q")
			ws, okw := kvI(f, "w")
			if !okq {
				q = w.cfg.AllowedRequestCount
			}
			if !okw {
				ws = int64(w.cfg.WindowSizeInSeconds)
			}
			if ok1 && ok2 && ok3 && w.mode != "burst" && p < 8 && key < 100 && q < 100 && ws > 0 && ws < 100 {
				a = w.req(int(id), int(key), int(p), q, ws)
				if okq || okw {
					o.Count("preq-with-own-strategy")
				}
				o.Count("preq-" + strings.SplitN(strings.Fields(a)[0], ":", 2)[0])
			}
		case f[0] == "ptick":
			if d, ok := kvI(f, "d"); ok && w.mode != "burst" {
				a = w.tick(d)
				if strings.Contains(a, ":") {
					o.Count("ptick-firing-timers")
				}
			}
		}
		if a == "bad-op" {
			o.Count("bad-op")
		}
		outs[i] = a
	}
	o.NonTrivial(strings.Join(c.Ops, "|") + "#" + strings.Join(outs, "|"))
	return outs
}
