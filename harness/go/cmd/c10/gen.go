//go:build verif

package main

import (
	"fmt"
	"strings"

	"verif/harness/internal/prng"
	"verif/harness/internal/proto"
)

// sim is a light shadow of Model/C10.lean used ONLY to pick mostly-enabled steps while generating a
// walk; a wrong shadow merely produces more `not-enabled` answers (both sides answer those too).
type simReq struct {
	prio, ts, ttl, dl int64
	ph                string // pass full gap gapdone parked woke
}

type sim struct {
	quota, win, size   int64
	now, widx, counter int64
	rollDue            int64
	heap               []int
	reqs               []simReq
}

func (s *sim) update() {
	if k := s.now / s.win; k > s.widx {
		s.widx, s.counter = k, 0
	}
}

func (s *sim) waiting() int64 {
	n := int64(0)
	for _, r := range s.reqs {
		if r.ph == "gap" || r.ph == "gapdone" || r.ph == "parked" {
			n++
		}
	}
	return n
}

func (s *sim) less(a, b int) bool {
	if s.reqs[a].prio == s.reqs[b].prio {
		return s.reqs[a].ts < s.reqs[b].ts
	}
	return s.reqs[a].prio < s.reqs[b].prio
}

func (s *sim) enq(p, ttl int64) {
	s.update()
	s.serve()
	r := simReq{prio: p, ts: s.now, ttl: ttl}
	switch {
	case s.counter < s.quota:
		s.counter++
		r.ph = "pass"
	case s.waiting() >= s.size:
		r.ph = "full"
	default:
		r.ph = "gap"
		s.heap = append(s.heap, len(s.reqs))
	}
	s.reqs = append(s.reqs, r)
}

// serve = processQueueItems after the repairs: hand-off whether or not the waiter has parked.
func (s *sim) serve() {
	for len(s.heap) > 0 && s.counter < s.quota {
		m := 0
		for i := range s.heap {
			if s.less(s.heap[i], s.heap[m]) {
				m = i
			}
		}
		id := s.heap[m]
		s.heap = append(s.heap[:m:m], s.heap[m+1:]...)
		switch s.reqs[id].ph {
		case "parked":
			s.reqs[id].ph = "woke"
			s.counter++
		case "gap":
			s.reqs[id].ph = "gapdone"
			s.counter++
		}
	}
}

func (s *sim) roll() {
	s.update()
	s.serve()
	s.rollDue = (s.widx + 1) * s.win
}

type walk struct {
	s   *sim
	r   *prng.R
	ops []string
}

func (w *walk) add(f string, a ...any) { w.ops = append(w.ops, fmt.Sprintf(f, a...)) }

func (w *walk) tick(d int64) {
	if d < 0 {
		d = 0
	}
	w.s.now += d
	w.add("tick d=%d", d)
}

func (w *walk) ids(ph string) []int {
	var out []int
	for i, r := range w.s.reqs {
		if r.ph == ph {
			out = append(out, i)
		}
	}
	return out
}

func (w *walk) unparked() []int {
	return append(w.ids("gap"), w.ids("gapdone")...)
}

func (w *walk) dueParked() []int {
	var out []int
	for i, r := range w.s.reqs {
		if r.ph == "parked" && r.dl <= w.s.now {
			out = append(out, i)
		}
	}
	return out
}

func (w *walk) doEnq(maxPrio int) {
	s := w.s
	// keep timestamps distinct (container/heap is not stable among exact ties; the model is)
	for _, r := range s.reqs {
		if r.ts == s.now {
			w.tick(1)
			break
		}
	}
	ttl := int64(0)
	switch w.r.Intn(10) {
	case 0:
		ttl = 0
	case 1, 2:
		ttl = 1 + int64(w.r.Intn(int(s.win)))
	case 3:
		ttl = s.win
	case 4, 5:
		ttl = s.win + int64(w.r.Intn(int(s.win)))
	default:
		ttl = s.win * int64(w.r.Range(2, 6))
	}
	p := int64(w.r.Intn(maxPrio))
	w.add("enq r=%d p=%d ttl=%d", len(s.reqs), p, ttl)
	s.enq(p, ttl)
}

func (w *walk) doPark(id int) {
	s := w.s
	w.add("park r=%d", id)
	if id < len(s.reqs) && s.reqs[id].ph == "gapdone" {
		s.reqs[id].ph = "woke"
	} else if id < len(s.reqs) && s.reqs[id].ph == "gap" {
		if s.reqs[id].ttl == 0 {
			s.reqs[id].ph = "woke"
		} else {
			s.reqs[id].ph = "parked"
			s.reqs[id].dl = s.now + s.reqs[id].ttl
		}
	}
}

func (w *walk) doRoll() {
	w.add("roll")
	if w.s.rollDue <= w.s.now {
		w.s.roll()
	}
}

// doRollX: roll-over overlapping the TTL firing of parked request id (expire id ; roll ; finish id).
func (w *walk) doRollX(id int) {
	s := w.s
	w.add("rollx r=%d", id)
	if id < len(s.reqs) && s.reqs[id].ph == "parked" && s.reqs[id].dl <= s.now && s.rollDue <= s.now {
		s.roll() // the expiring request is still eligible for the hand-off
		if s.reqs[id].ph == "parked" {
			s.reqs[id].ph = "woke"
		}
	}
}

func (w *walk) doExpire(id int) {
	s := w.s
	w.add("expire r=%d", id)
	if id < len(s.reqs) && s.reqs[id].ph == "parked" && s.reqs[id].dl <= s.now {
		s.reqs[id].ph = "woke"
	}
}

// tickChoice picks a clock step aimed at the instants the property talks about: the window end
// (exactly, one before, one after), a TTL deadline (exactly, ±1), or a small/large random step.
func (w *walk) tickChoice() int64 {
	s := w.s
	toEnd := s.rollDue - s.now
	if toEnd <= 0 {
		toEnd = (s.now/s.win+1)*s.win - s.now
	}
	var dls []int64
	for _, r := range s.reqs {
		if r.ph == "parked" && r.dl > s.now {
			dls = append(dls, r.dl-s.now)
		}
	}
	switch w.r.Intn(12) {
	case 0, 1, 2, 3:
		return toEnd
	case 4:
		return toEnd - 1
	case 5:
		return toEnd + 1
	case 6, 7:
		if len(dls) > 0 {
			return prng.Pick(w.r, dls) + int64(w.r.Range(-1, 1))
		}
		return 1
	case 8:
		return 1
	case 9:
		return int64(w.r.Intn(int(s.win)))
	case 10:
		return s.win * int64(w.r.Range(1, 3))
	default:
		return toEnd + int64(w.r.Intn(int(s.win)))
	}
}

// genWalk: style 0 natural (park at once, timers fire promptly in due order), 1 delayed parks
// (requests stay in the gap across roll-overs), 2 late roll-overs, 3 uniformly mixed.
func genWalk(r *prng.R, style, maxReqs, maxOps int) []string {
	wins := []int64{1000, 1000, 1_000_000_000}
	win := prng.Pick(r, wins)
	quotas := []int64{0, 1, 1, 1, 1, 1, 1, 1, 1, 2, 2, 2, 2, 2, 2, 2, 3, 3, 3, 4}
	sizes := []int64{0, 1, 1, 1, 2, 2, 2, 3, 3, 3, 4, 4, 5, 5, 6, 8}
	s := &sim{quota: prng.Pick(r, quotas), win: win, size: prng.Pick(r, sizes)}
	k := int64(r.Range(1, 2_000_000))
	off := []int64{0, 1, win / 2, win - 1}
	t0 := k*win + prng.Pick(r, off)
	s.now, s.widx, s.rollDue = t0, t0/win, (t0/win+1)*win
	w := &walk{s: s, r: r}
	w.add("cfg quota=%d win=%d size=%d t0=%d", s.quota, s.win, s.size, t0)
	maxPrio := r.Range(1, 3)
	for len(w.ops) < maxOps {
		gaps, due := w.unparked(), w.dueParked()
		rollDue := s.rollDue <= s.now
		// natural style: settle everything that is enabled before anything else happens
		if style == 0 {
			if len(gaps) > 0 {
				w.doPark(gaps[0])
				continue
			}
			if rollDue && (len(due) == 0 || s.rollDue <= s.reqs[due[0]].dl) {
				w.doRoll()
				continue
			}
			if len(due) > 0 {
				w.doExpire(due[0])
				continue
			}
		}
		// weights of the enabled steps
		wEnq, wPark, wRoll, wExp, wTick, wBad := 45, 40, 40, 20, 15, 2
		switch style {
		case 1:
			wPark = 8
		case 2:
			wRoll = 6
		case 3:
			wPark, wRoll = 20, 20
		}
		if len(s.reqs) >= maxReqs {
			wEnq = 0
		}
		if len(gaps) == 0 {
			wPark = 0
		}
		if !rollDue {
			wRoll = 0
		}
		if len(due) == 0 {
			wExp = 0
		}
		if rollDue && len(due) > 0 && r.Chance(45) {
			w.doRollX(prng.Pick(r, due))
			continue
		}
		x := r.Intn(wEnq + wPark + wRoll + wExp + wTick + wBad)
		switch {
		case x < wEnq:
			w.doEnq(maxPrio)
		case x < wEnq+wPark:
			w.doPark(prng.Pick(r, gaps))
		case x < wEnq+wPark+wRoll:
			w.doRoll()
		case x < wEnq+wPark+wRoll+wExp:
			w.doExpire(prng.Pick(r, due))
		case x < wEnq+wPark+wRoll+wExp+wTick:
			w.tick(w.tickChoice())
		default:
			// a step that is (probably) not enabled
			switch r.Intn(3) {
			case 0:
				w.doRoll()
			case 1:
				w.doExpire(r.Intn(len(s.reqs) + 1))
			default:
				w.doPark(r.Intn(len(s.reqs) + 1))
			}
		}
	}
	return w.ops
}

var malformed = [][]string{
	{"tick d=5"},
	{"cfg quota=1 win=0 size=1 t0=5", "enq r=0 p=0 ttl=5"},
	{"cfg quota=1 win=10 size=1", "roll"},
	{"cfg quota=1 win=10 size=1 t0=100", "enq r=3 p=0 ttl=5", "enq r=0 p=0", "frob", "tick", "tick d=-4", "park", "expire r=x", "roll now", "enq r=0 p=0 ttl=5"},
	{"cfg quota=0 win=10 size=0 t0=100", "enq r=0 p=1 ttl=0", "park r=0", "expire r=0", "roll", "tick d=10", "roll"},
	{"cfg quota=1 win=10 size=2 t0=100", "enq r=0 p=0 ttl=7", "cfg quota=2 win=20 size=1 t0=40", "enq r=0 p=0 ttl=3", "enq r=1 p=0 ttl=3"},
}

func (s *sim) clone() *sim {
	c := *s
	c.heap = append([]int(nil), s.heap...)
	c.reqs = append([]simReq(nil), s.reqs...)
	return &c
}

// enumerate emits EVERY schedule of exactly `depth` steps over the step alphabet
// {enq p=0, enq p=1 (at most maxReqs requests, ttl 1500), park r, roll (when due), expire r (when due),
// tick to the window end} for the given quota, window 1000, queue size 2 — all interleavings of enqueuers,
// roll-over and TTL timers in this small scope (shorter schedules are prefixes of the emitted ones).
func enumerate(tag string, quota int64, depth, maxReqs int, emit func(proto.Case)) int {
	n := 0
	var rec func(s *sim, ops []string, d int)
	rec = func(s *sim, ops []string, d int) {
		if d == 0 {
			n++
			emit(proto.Case{ID: fmt.Sprintf("%s%d", tag, n), Ops: ops})
			return
		}
		try := func(f func(w *walk)) {
			w := &walk{s: s.clone(), ops: append([]string(nil), ops...)}
			f(w)
			rec(w.s, w.ops, d-1)
		}
		if len(s.reqs) < maxReqs {
			for p := int64(0); p < 2; p++ {
				p := p
				try(func(w *walk) {
					for _, r := range w.s.reqs {
						if r.ts == w.s.now {
							w.tick(1)
							break
						}
					}
					w.add("enq r=%d p=%d ttl=1500", len(w.s.reqs), p)
					w.s.enq(p, 1500)
				})
			}
		}
		for i, r := range s.reqs {
			i := i
			if r.ph == "gap" || r.ph == "gapdone" {
				try(func(w *walk) { w.doPark(i) })
			}
			if r.ph == "parked" && r.dl <= s.now {
				try(func(w *walk) { w.doExpire(i) })
				if s.rollDue <= s.now {
					try(func(w *walk) { w.doRollX(i) })
				}
			}
		}
		if s.rollDue <= s.now {
			try(func(w *walk) { w.doRoll() })
		}
		try(func(w *walk) { w.tick((w.s.now/w.s.win+1)*w.s.win - w.s.now) })
	}
	s := &sim{quota: quota, win: 1000, size: 2, now: 5000, widx: 5, rollDue: 6000}
	rec(s, []string{fmt.Sprintf("cfg quota=%d win=1000 size=2 t0=5000", quota)}, depth)
	return n
}

// genPluginBurst: plugin-level case, k concurrent FIRST requests per fresh remedy key, many rounds.
func genPluginBurst(r *prng.R, rounds int) []string {
	quota, size := r.Range(1, 4), r.Range(1, 6)
	ops := []string{fmt.Sprintf("pcfg quota=%d winsec=%d size=%d ttlsec=%d t0=%d", quota, prng.Pick(r, []int{1, 2, 5}),
		size, r.Range(1, 5), int64(r.Range(1, 100000))*1_000_000_000+500_000_000)}
	for n := r.Range(1, 3); n > 0; n-- {
		k := prng.Pick(r, []int{2, 3, 4, 8, 12, 16, quota, quota + 1, quota + size, quota + size + 1})
		ops = append(ops, fmt.Sprintf("pburst k=%d rounds=%d", k, rounds))
	}
	return ops
}

// genPluginSeq: plugin-level sequential scenario over 1-3 remedy keys; requests are 1 ms apart and
// start at x.5 s, the other clock steps are whole seconds, so that a TTL deadline never coincides
// with a window end and timestamps are distinct.
func genPluginSeq(r *prng.R, maxReqs int) []string {
	quota, size, ttl := r.Range(1, 3), r.Range(1, 4), r.Range(1, 4)
	ops := []string{fmt.Sprintf("pcfg quota=%d winsec=%d size=%d ttlsec=%d t0=%d", quota, prng.Pick(r, []int{1, 1, 2, 3}),
		size, ttl, int64(r.Range(1, 100000))*1_000_000_000+500_000_000)}
	keys, prios := r.Range(1, 3), r.Range(1, 4)
	id := 0
	for id < maxReqs {
		for b := r.Range(1, 5); b > 0 && id < maxReqs; b-- {
			ops = append(ops, "ptick d=1000000")
			ops = append(ops, fmt.Sprintf("preq id=%d key=%d p=%d", id, r.Intn(keys), r.Intn(prios)))
			id++
		}
		for t := r.Range(1, 3); t > 0; t-- {
			ops = append(ops, fmt.Sprintf("ptick d=%d", int64(r.Range(1, 3))*1_000_000_000))
		}
	}
	ops = append(ops, fmt.Sprintf("ptick d=%d", int64(ttl+3)*1_000_000_000))
	return ops
}

// genPluginReload: the same remedy NAME used with a changed strategy after its queue has been used
// (quota raised, quota lowered, window size changed — a policy reload), or two same-named remedies with
// different strategies interleaved.  One queue per FULL QueueKey: each strategy has its own quota/window.
func genPluginReload(r *prng.R, maxReqs int) []string {
	q1, w1 := r.Range(1, 3), prng.Pick(r, []int{1, 2})
	size, ttl := r.Range(1, 4), r.Range(1, 4)
	ops := []string{fmt.Sprintf("pcfg quota=%d winsec=%d size=%d ttlsec=%d t0=%d", q1, w1, size, ttl,
		int64(r.Range(1, 100000))*1_000_000_000+500_000_000)}
	q2, w2 := q1, w1
	switch r.Intn(4) {
	case 0:
		q2 = q1 + r.Range(1, 2) // quota raised
	case 1:
		if q1 > 1 {
			q2 = q1 - 1 // quota lowered
		} else {
			q1, q2 = 2, 1
			ops[0] = fmt.Sprintf("pcfg quota=%d winsec=%d size=%d ttlsec=%d t0=%d", q1, w1, size, ttl,
				int64(r.Range(1, 100000))*1_000_000_000+500_000_000)
		}
	case 2:
		w2 = w1 + r.Range(1, 2) // window size changed
	default:
		q2, w2 = q1+1, w1+1
	}
	interleave := r.Chance(35)
	names := r.Range(1, 2)
	id := 0
	strat := func(second bool) string {
		if second {
			return fmt.Sprintf(" q=%d w=%d", q2, w2)
		}
		if r.Bool() {
			return fmt.Sprintf(" q=%d w=%d", q1, w1) // explicit but equal to the default: same key
		}
		return ""
	}
	half := maxReqs / 2
	for id < maxReqs {
		for b := r.Range(1, 4); b > 0 && id < maxReqs; b-- {
			second := id >= half
			if interleave {
				second = r.Bool()
			}
			ops = append(ops, "ptick d=1000000")
			ops = append(ops, fmt.Sprintf("preq id=%d key=%d p=%d%s", id, r.Intn(names), r.Intn(2), strat(second)))
			id++
		}
		for t := r.Range(0, 2); t > 0; t-- {
			ops = append(ops, fmt.Sprintf("ptick d=%d", int64(r.Range(1, 2))*1_000_000_000))
		}
	}
	ops = append(ops, fmt.Sprintf("ptick d=%d", int64(ttl+3)*1_000_000_000))
	return ops
}

// genFile: strategy_based_queue remedies declared on the global scope and on endpoints, with names drawn
// from a small pool (duplicates inside one endpoint, across endpoints, global vs endpoint; equal or
// different strategies), read through the real policies reader, then traffic on the declared remedies.
func genFile(r *prng.R) []string {
	ops := []string{fmt.Sprintf("fcfg t0=%d", int64(r.Range(1, 100000))*1_000_000_000+500_000_000)}
	n := r.Range(1, 5)
	pool := r.Range(n, n+2)
	if r.Chance(45) {
		pool = n * 4 // mostly unique names
	}
	q0, w0 := r.Range(1, 3), prng.Pick(r, []int{1, 2, 5})
	for j := 0; j < n; j++ {
		q, w := q0, w0
		if r.Chance(40) {
			q, w = r.Range(1, 3), prng.Pick(r, []int{1, 2, 5})
		}
		if r.Chance(3) {
			q = 0 // refused for another reason
		}
		ops = append(ops, fmt.Sprintf("frem ep=%d name=%d quota=%d winsec=%d size=%d ttlsec=%d",
			r.Intn(4), r.Intn(pool), q, w, r.Range(1, 3), r.Range(1, 4)))
	}
	ops = append(ops, "fload")
	id := 0
	for k := r.Range(2, 10); k > 0; k-- {
		ops = append(ops, "ptick d=1000000", fmt.Sprintf("freq id=%d rem=%d p=%d", id, r.Intn(n), r.Intn(2)))
		id++
		if r.Chance(25) {
			ops = append(ops, fmt.Sprintf("ptick d=%d", int64(r.Range(1, 3))*1_000_000_000))
		}
	}
	ops = append(ops, "ptick d=8000000000")
	return ops
}

// genReal: production clock: resolution obligation + release order of bursts whose timestamps are taken
// back to back (quota 1 per short window).
func genReal(r *prng.R) []string {
	ops := []string{"rcfg", "rclock n=2000", "rclock n=20000", "rafter d=0", fmt.Sprintf("rafter d=-%d", r.Range(1, 5000)),
		fmt.Sprintf("rafter d=%d", r.Range(1, 20)), fmt.Sprintf("rstep win=%d", prng.Pick(r, []int{10, 15, 25}))}
	for b := 0; b < 2; b++ {
		n := r.Range(4, 8)
		ps := make([]string, n)
		same := b == 0 || r.Chance(40)
		for i := range ps {
			if same {
				ps[i] = "0"
			} else {
				ps[i] = fmt.Sprint(r.Intn(3))
			}
		}
		ops = append(ops, fmt.Sprintf("rburst win=%d prios=%s", prng.Pick(r, []int{10, 15, 25}), strings.Join(ps, ",")))
	}
	return ops
}

func gen(r *prng.R, f proto.Flags, emit func(proto.Case)) {
	n, maxReqs, maxOps := 3000, 9, 50
	if f.Tier == "thorough" {
		n, maxReqs, maxOps = 40000, 12, 80
	}
	n *= f.Budget
	for i, ops := range malformed {
		emit(proto.Case{ID: fmt.Sprintf("m%d", i), Ops: ops})
	}
	nb, rounds, ns := 30, 60, 300
	if f.Tier == "thorough" {
		nb, rounds, ns = 100, 150, 2500
	}
	emit(proto.Case{ID: "pm0", Ops: []string{"pcfg quota=1 winsec=0 size=1 ttlsec=1 t0=5", "preq id=0 key=0 p=0"}})
	emit(proto.Case{ID: "pm1", Ops: []string{"pcfg quota=1 winsec=1 size=1 ttlsec=1 t0=1500000000", "preq id=0 key=0 p=0",
		"pburst k=2 rounds=2", "preq id=0 key=0 p=0", "preq id=1 key=0 p=9", "preq id=2 key=0", "ptick", "cfg quota=1 win=5 size=1 t0=7", "roll",
		"ptick d=1000000", "preq id=3 key=0 p=1"}})
	rb := r.Fork() // burst cases run LAST: a queue they leave stuck leaks goroutines that would slow every later case down
	for k := 0; k < ns*f.Budget; k++ {
		rr := r.Fork()
		emit(proto.Case{ID: fmt.Sprintf("ps%d", k), Ops: genPluginSeq(rr, rr.Range(2, 14))})
	}
	for k := 0; k < ns*f.Budget; k++ {
		rr := r.Fork()
		emit(proto.Case{ID: fmt.Sprintf("pr%d", k), Ops: genPluginReload(rr, rr.Range(4, 14))})
	}
	nreal := 3
	if f.Tier == "thorough" {
		nreal = 25
	}
	for k := 0; k < nreal*f.Budget; k++ {
		emit(proto.Case{ID: fmt.Sprintf("rc%d", k), Ops: genReal(r.Fork())})
	}
	emit(proto.Case{ID: "fm0", Ops: []string{"fcfg t0=5500000000", "fload", "freq id=0 rem=0 p=0", "frem ep=1 name=1 quota=1 winsec=1 size=1 ttlsec=1",
		"pburst k=2 rounds=2", "rclock n=5", "ptick d=5", "fload"}})
	emit(proto.Case{ID: "fm1", Ops: []string{"rcfg", "rclock n=1", "rburst win=2 prios=0,0", "rburst win=20 prios=0,9", "preq id=0 key=0 p=0", "fload", "ptick d=5"}})
	for k := 0; k < ns*f.Budget; k++ {
		emit(proto.Case{ID: fmt.Sprintf("pf%d", k), Ops: genFile(r.Fork())})
	}
	if f.Tier == "thorough" {
		enumerate("x", 1, 9, 3, emit)
		enumerate("y", 2, 9, 4, emit)
	} else {
		enumerate("x", 1, 6, 3, emit)
		enumerate("y", 2, 6, 4, emit)
	}
	for k := 0; k < n; k++ {
		rr := r.Fork()
		style := k % 4
		emit(proto.Case{ID: fmt.Sprintf("w%d-s%d", k, style), Ops: genWalk(rr, style, rr.Range(3, maxReqs), rr.Range(10, maxOps))})
	}
	for k := 0; k < nb*f.Budget; k++ {
		emit(proto.Case{ID: fmt.Sprintf("pb%d", k), Ops: genPluginBurst(rb.Fork(), rounds)})
	}
}
