//go:build verif

// Harness for C10: drives the real queue.DelayedPriorityQueue with one goroutine per request, a
// deterministic clock whose timers fire only when the schedule says so, and the `verif` yield hook
// `dpq.unlocked-before-park` that holds an enqueuer between the unlock and the select.  Each op
// line is one step of one thread of the model's transition system (see Driver/C10Main.lean).
package main

import (
	"fmt"
	"reflect"
	"sort"
	"strconv"
	"strings"
	"time"

	"lunar/engine/utils/queue"
	"lunar/toolkit-core/logging"
	"lunar/toolkit-core/verifhook"

	"github.com/rs/zerolog"

	"verif/harness/internal/proto"
)

const rule = "schedules = random walks over the model's enabled steps (enqueue / park / roll-over / TTL expiry / clock tick, " +
	"natural, delayed-park, late-roll-over and mixed styles) + ALL schedules of a fixed length over a small step alphabet " +
	"(quota 1 and 2, <= 3-4 requests; length 6 quick / 9 thorough) + a malformed stream, replayed on the real queue, + corpus witnesses; " +
	"plugin level (real StrategyBasedQueuePlugin): bursts of k concurrent first requests per fresh remedy key behind a start barrier " +
	"(queues created per key, passed, waiting, refused), sequential multi-key scenarios, and reload scenarios (same remedy name with a " +
	"raised/lowered quota or another window size after its queue was used, same-named remedies with different strategies interleaved; one queue per full QueueKey); " +
	"policies-file level: remedies declared globally / per endpoint with colliding names, written to a YAML file, read and validated by the real reader, then traffic through the plugin; " +
	"production clock: strict monotonicity of consecutive readings + release order of back-to-back bursts on the real clock; " +
	"non-trivial = at least one request was queued and at least one roll-over ran; distinct by (ops, answers)"

type rq struct {
	id    int
	prio  int64
	ttl   int64
	phase  string // pass full gap parked done
	gate   chan struct{}
	res    chan bool
	req    *queue.Request
	handed bool // a hand-off was seen buffered in doneCh while the request was still in the gap
}

// handoffBuffered reads len(req.doneCh) (unexported field, read-only through reflection): after the
// repair of F10a the hand-off to a request that has not reached its select yet is a buffered send.
func handoffBuffered(req *queue.Request) bool {
	f := reflect.ValueOf(req).Elem().FieldByName("doneCh")
	return f.IsValid() && f.Kind() == reflect.Chan && f.Len() > 0
}

type world struct {
	q       *queue.DelayedPriorityQueue
	c       *clk
	g       *gateCtrl
	size    int64
	reqs    []*rq
	inSel   int // enqueuers expected to be blocked in select
	started int // enqueuer goroutines started and not yet finished
	fin     chan struct{}
	relGate map[chan struct{}]bool
	stuck   bool // the queue's mutex no longer answers: its goroutines cannot be collected
}

func kvI(w []string, k string) (int64, bool) {
	s, ok := proto.KV(w, k)
	if !ok {
		return 0, false
	}
	n, err := strconv.ParseInt(s, 10, 64)
	if err != nil || n < 0 {
		return 0, false
	}
	return n, true
}

func newWorld(quota, win, size, t0 int64) *world {
	w := &world{c: newClk(t0), g: newGateCtrl(), size: size, fin: make(chan struct{}, 256),
		relGate: map[chan struct{}]bool{}}
	verifhook.Install(w.g)
	w.q = queue.NewInMemoryDelayedPriorityQueue(
		queue.QueueKey{RemedyName: "verif", Strategy: queue.Strategy{WindowQuota: quota, WindowSize: time.Duration(win)}},
		w.c, logging.ContextLogger{Logger: zerolog.Nop()})
	w.c.awaitReg(ownerRoll) // the roll-over goroutine armed its timer
	return w
}

// countsWithin calls q.Counts() with a bound: a queue whose mutex is stuck yields ok=false instead of
// hanging the harness.
func countsWithin(q *queue.DelayedPriorityQueue, bound time.Duration) (map[float64]int64, bool) {
	ch := make(chan map[float64]int64, 1)
	go func() { ch <- q.Counts() }()
	select {
	case m := <-ch:
		return m, true
	case <-time.After(bound):
		return nil, false
	}
}

func (w *world) obs() string {
	if w.stuck {
		return " queue-stuck"
	}
	m, ok := countsWithin(w.q, 3*time.Second)
	if !ok {
		w.stuck = true
		return " queue-stuck"
	}
	tte := int64(w.q.GetTimeTillWindowEnd())
	var ps []float64
	for p, n := range m {
		if n != 0 {
			ps = append(ps, p)
		}
	}
	sort.Float64s(ps)
	var items []string
	for _, p := range ps {
		items = append(items, fmt.Sprintf("%d:%d", int64(p), m[p]))
	}
	c := "-"
	if len(items) > 0 {
		c = strings.Join(items, ",")
	}
	return fmt.Sprintf(" tte=%d c=%s", tte, c)
}

func (w *world) enq(p, ttl int64) string {
	r := &rq{id: len(w.reqs), prio: p, ttl: ttl, res: make(chan bool, 1)}
	w.reqs = append(w.reqs, r)
	req := queue.NewRequest(strconv.Itoa(r.id), float64(p), w.c)
	r.req = req
	w.started++
	go func() {
		defer func() { w.fin <- struct{}{} }()
		ok, _ := w.q.Enqueue(req, time.Duration(ttl), w.size)
		r.res <- ok
	}()
	select {
	case ok := <-r.res:
		w.awaitFin(1)
		if ok {
			r.phase = "pass"
		} else {
			r.phase = "full"
		}
	case ch := <-w.g.arrived:
		r.gate = ch
		r.phase = "gap"
	case <-time.After(settleTimeout):
		panic("harness: enqueue neither returned nor reached the hook")
	}
	a := r.phase
	if a == "gap" {
		a = "push"
	}
	// the locked section of this Enqueue is over: collect the waiters it served
	return a + " rel=" + w.collectReleased(r)
}

// collectReleased waits until every request handed off by the critical section that just ended has
// shown it (parked ones return true; requests still in the gap have the hand-off buffered in doneCh)
// and returns their ids, sorted.  `self` (may be nil) is the request whose Enqueue just ran.
func (w *world) collectReleased(self *rq) string {
	before := w.inSel
	var rel []int
	waitUntil("released waiters to return", func() bool {
		for _, r := range w.reqs {
			if r.phase == "parked" {
				select {
				case ok := <-r.res:
					w.awaitFin(1)
					r.phase = "done"
					if !ok {
						panic("harness: parked request returned false without its TTL timer")
					}
					rel = append(rel, r.id)
				default:
				}
			}
		}
		n := 0
		for _, id := range rel {
			if !w.reqs[id].handed {
				n++
			}
		}
		return enqueuersInSelect()+n == before
	})
	w.inSel -= len(rel)
	for _, r := range w.reqs {
		if r.phase == "gap" && r != self && !r.handed && handoffBuffered(r.req) {
			r.handed = true
			rel = append(rel, r.id)
		}
	}
	sort.Ints(rel)
	if len(rel) == 0 {
		return "-"
	}
	xs := make([]string, len(rel))
	for i, x := range rel {
		xs[i] = strconv.Itoa(x)
	}
	return strings.Join(xs, ",")
}

func (w *world) awaitFin(n int) {
	for i := 0; i < n; i++ {
		select {
		case <-w.fin:
			w.started--
		case <-time.After(settleTimeout):
			panic("harness: enqueuer goroutine did not finish")
		}
	}
}

func (w *world) awaitRes(r *rq) bool {
	select {
	case ok := <-r.res:
		w.awaitFin(1)
		return ok
	case <-time.After(settleTimeout):
		panic("harness: waiting request did not return")
	}
}

func (w *world) park(id int64) string {
	if id >= int64(len(w.reqs)) || w.reqs[id].phase != "gap" {
		return "not-enabled"
	}
	r := w.reqs[id]
	w.relGate[r.gate] = true
	close(r.gate)
	if r.ttl == 0 {
		// clock.After(0) is ready at once: the select takes the TTL case (doneCh cannot be ready)
		ok := w.awaitRes(r)
		r.phase = "done"
		if ok && r.handed {
			return "released"
		}
		if ok {
			return "ttl0-returned-true"
		}
		return "ttl0"
	}
	rg := w.c.awaitReg(r.id)
	want := w.inSel + 1
	returned, retOK := false, false
	waitUntil("enqueuer to block in select", func() bool {
		select {
		case ok := <-r.res: // did not block at all (never happens with the unchanged code)
			returned, retOK = true, ok
			return true
		default:
		}
		return enqueuersInSelect() == want
	})
	if returned {
		w.awaitFin(1)
		r.phase = "done"
		if retOK && r.handed {
			return "released" // the buffered hand-off is taken at once
		}
		return fmt.Sprintf("returned-without-parking ok=%v", retOK)
	}
	w.inSel++
	r.phase = "parked"
	return fmt.Sprintf("parked dl=%d", rg.due)
}

func (w *world) roll() string {
	rg, ok := w.c.find(ownerRoll)
	if !ok || rg.due > w.c.Now().UnixNano() {
		return "not-enabled"
	}
	w.c.fire(ownerRoll)
	w.c.awaitReg(ownerRoll) // locked section finished, timer re-armed
	return "rel=" + w.collectReleased(nil)
}

// rollx: the roll-over's critical section OVERLAPS the TTL firing of parked request `id`: the roll-over
// goroutine is held inside its locked section (at its clock reading), r's TTL timer fires and r runs up
// to the queue mutex, then the roll-over continues (and may hand the slot to r), then r gets the mutex.
// At critical-section granularity this is the schedule  expire r ; roll ; finish r.
func (w *world) rollx(id int64) string {
	if id >= int64(len(w.reqs)) || w.reqs[id].phase != "parked" {
		return "not-enabled"
	}
	r := w.reqs[id]
	now := w.c.Manual.Now().UnixNano()
	rr, ok1 := w.c.find(ownerRoll)
	rt, ok2 := w.c.find(r.id)
	if !ok1 || !ok2 || rr.due > now || rt.due > now {
		return "not-enabled"
	}
	w.c.gateArmed.Store(true)
	w.c.fire(ownerRoll)
	select {
	case <-w.c.gateEntered:
	case <-time.After(settleTimeout):
		panic("harness: roll-over goroutine did not reach its clock reading under the mutex")
	}
	w.c.fire(r.id)
	waitUntil("expiring request to reach the queue mutex", func() bool { return enqueuersWaitingForMutex() >= 1 })
	w.c.gateRelease <- struct{}{}
	w.c.awaitReg(ownerRoll)
	ok := w.awaitRes(r)
	r.phase = "done"
	w.inSel--
	rel := w.collectReleased(nil)
	if ok {
		ids := []string{}
		if rel != "-" {
			ids = strings.Split(rel, ",")
		}
		ids = append(ids, strconv.Itoa(r.id))
		sort.Slice(ids, func(i, j int) bool { a, _ := strconv.Atoi(ids[i]); b, _ := strconv.Atoi(ids[j]); return a < b })
		rel = strings.Join(ids, ",")
	}
	return fmt.Sprintf("rel=%s ret=%v", rel, ok)
}

func (w *world) expire(id int64) string {
	if id >= int64(len(w.reqs)) || w.reqs[id].phase != "parked" {
		return "not-enabled"
	}
	r := w.reqs[id]
	rg, ok := w.c.find(r.id)
	if !ok || rg.due > w.c.Now().UnixNano() {
		return "not-enabled"
	}
	w.c.fire(r.id)
	ok = w.awaitRes(r)
	r.phase = "done"
	w.inSel--
	if ok {
		return "expired-returned-true"
	}
	return "expired"
}

// shutdown terminates every goroutine of this case: pending timers fire, gates open, and any
// goroutine that asks the clock for a new timer exits.
func (w *world) shutdown() {
	w.c.mu.Lock()
	w.c.dead = true
	w.c.mu.Unlock()
	w.g.openAll(w.relGate)
	w.c.fireAll()
	if w.stuck {
		verifhook.Install(nil)
		return
	}
	// the roll-over goroutine ends at its next After(); gap enqueuers end at their After(ttl)
	deadline := time.After(settleTimeout)
	select {
	case <-w.c.exits:
	case <-deadline:
		panic("harness: roll-over goroutine did not stop")
	}
	for w.started > 0 {
		select {
		case <-w.fin:
			w.started--
		case <-deadline:
			panic("harness: enqueuer goroutines did not stop")
		}
	}
	verifhook.Install(nil)
}

func exec(c proto.Case, o *proto.Out) []string {
	if len(c.Ops) > 0 && (strings.HasPrefix(c.Ops[0], "pcfg") || strings.HasPrefix(c.Ops[0], "fcfg") ||
		strings.HasPrefix(c.Ops[0], "rcfg")) {
		return execPlugin(c, o)
	}
	outs := make([]string, len(c.Ops))
	var w *world
	defer func() {
		if w != nil {
			w.shutdown()
		}
	}()
	pushes, rolls, released := 0, 0, 0
	for i, op := range c.Ops {
		f := strings.Fields(op)
		if len(f) == 0 {
			outs[i] = "bad-op"
			continue
		}
		if f[0] == "cfg" {
			q, ok1 := kvI(f, "quota")
			win, ok2 := kvI(f, "win")
			sz, ok3 := kvI(f, "size")
			t0, ok4 := kvI(f, "t0")
			if !(ok1 && ok2 && ok3 && ok4) || win == 0 {
				outs[i] = "bad-op"
				continue
			}
			if w != nil {
				w.shutdown()
			}
			w = newWorld(q, win, sz, t0)
			outs[i] = "ok"
			continue
		}
		if w == nil {
			outs[i] = "bad-op"
			continue
		}
		a := "bad-op"
		if w.stuck {
			outs[i] = "queue-stuck"
			continue
		}
		switch f[0] {
		case "tick":
			if d, ok := kvI(f, "d"); ok {
				a = fmt.Sprintf("now=%d", w.c.tick(d))
			}
		case "enq":
			r, ok1 := kvI(f, "r")
			p, ok2 := kvI(f, "p")
			ttl, ok3 := kvI(f, "ttl")
			if ok1 && ok2 && ok3 && r == int64(len(w.reqs)) {
				waiting := 0
				for _, x := range w.reqs {
					if x.phase == "gap" || x.phase == "parked" {
						waiting++
					}
				}
				a = w.enq(p, ttl)
				kind := strings.Fields(a)[0]
				o.Count("enq-" + kind)
				if kind == "push" {
					pushes++
				}
				if !strings.HasSuffix(a, "rel=-") {
					o.Count("enq-" + kind + "-serving-waiters")
					released++
				}
				if kind == "pass" && waiting > 0 {
					o.Count("pass-after-serving-all-waiters")
				}
			}
		case "park":
			if r, ok := kvI(f, "r"); ok {
				a = w.park(r)
				o.Count("park-" + strings.Fields(a)[0])
			}
		case "roll":
			if len(f) == 1 {
				gaps := 0
				for _, x := range w.reqs {
					if x.phase == "gap" {
						gaps++
					}
				}
				a = w.roll()
				if a != "not-enabled" {
					rolls++
					n := 0
					if a != "rel=-" {
						n = strings.Count(a, ",") + 1
					}
					released += n
					o.Count(fmt.Sprintf("roll-released-%d", n))
					if gaps > 0 {
						o.Count("roll-with-request-in-gap")
					}
					if gaps > 0 && n > 0 {
						o.Count("roll-releasing-with-request-in-gap")
					}
				} else {
					o.Count("roll-not-enabled")
				}
			}
		case "rollx":
			if r, ok := kvI(f, "r"); ok && len(f) == 2 {
				a = w.rollx(r)
				o.Count("rollx-" + strings.Fields(a)[len(strings.Fields(a))-1])
				if a != "not-enabled" {
					rolls++
				}
			}
		case "expire":
			if r, ok := kvI(f, "r"); ok {
				a = w.expire(r)
				o.Count("expire-" + a)
			}
		}
		if a == "bad-op" {
			outs[i] = a
			o.Count("bad-op")
			continue
		}
		outs[i] = a + w.obs()
	}
	if pushes > 0 && rolls > 0 {
		o.NonTrivial(strings.Join(c.Ops, "|") + "#" + strings.Join(outs, "|"))
	}
	if released > 0 {
		o.Count("case-with-release")
	}
	return outs
}

func main() {
	zerolog.SetGlobalLevel(zerolog.Disabled)
	proto.Main(proto.Harness{Rule: rule, Gen: gen, Exec: exec})
}
