// c18race: search-only stress program for C18 (b).  Built with `-race`; drives the real engine
// concurrently so that the Go race detector can exhibit the unsynchronised accesses the lockset
// discipline flags.  Never a proof; used to confirm findings and as the failing-input search.
//
//	c18race <scenario> [seconds]      scenarios: flows | cache | vacuum | quota-metrics
package main

import (
	"fmt"
	"os"
	"strconv"
	"sync"
	"time"

	"lunar/engine/streams/resources"
	"lunar/engine/utils"
	"lunar/toolkit-core/clock"
	"lunar/toolkit-core/vacuum"

	"verif/harness/internal/engine"
)

const quotaYAML = `quotas:
  - id: q1
    filter:
      url: "a.com/*"
    strategy:
      fixed_window:
        max: 1000000
        interval: 1
        interval_unit: second
`

const quotaGroupYAML = `quotas:
  - id: q1
    filter:
      url: "a.com/*"
    strategy:
      fixed_window:
        max: 1000000
        interval: 1
        interval_unit: second
        group_by_header: x-group
`

const flowYAML = `name: f1
filter:
    url: "a.com/*"
processors:
    Lim:
      processor: Limiter
      parameters:
      - key: quota_id
        value: q1
    Gen:
      processor: GenerateResponse
      parameters:
      - key: status
        value: 429
      - key: body
        value: Too Many Requests
      - key: Content-Type
        value: text/plain
flow:
    request:
    - from:
        stream:
          name: globalStream
          at: start
      to:
        processor:
          name: Lim
    - from:
        processor:
          name: Lim
          condition: above_limit
      to:
        processor:
          name: Gen
    - from:
        processor:
          name: Lim
          condition: below_limit
      to:
        stream:
          name: globalStream
          at: end
    response:
    - from:
        processor:
          name: Gen
      to:
        stream:
          name: globalStream
          at: end
    - from:
        stream:
          name: globalStream
          at: start
      to:
        stream:
          name: globalStream
          at: end
`

func main() {
	sc := "flows"
	if len(os.Args) > 1 {
		sc = os.Args[1]
	}
	secs := 2.0
	if len(os.Args) > 2 {
		secs, _ = strconv.ParseFloat(os.Args[2], 64)
	}
	deadline := time.Now().Add(time.Duration(secs * float64(time.Second)))
	var wg sync.WaitGroup
	switch sc {
	case "quota-metrics":
		e, err := engine.New(map[string]string{"quotas/q.yaml": quotaGroupYAML, "flows/f.yaml": flowYAML}, false)
		if err != nil {
			fmt.Println("setup failed:", err)
			os.Exit(3)
		}
		defer e.Close()
		rm, err := resources.NewResourceManagement()
		if err != nil {
			fmt.Println("setup failed:", err)
			os.Exit(3)
		}
		for g := 0; g < 3; g++ {
			wg.Add(1)
			go func(g int) {
				defer wg.Done()
				for i := 0; time.Now().Before(deadline); i++ {
					id := fmt.Sprintf("t%d-%d", g, i)
					q, err := rm.GetQuota("q1", id)
					if err != nil {
						panic(err)
					}
					api := e.RequestStream(id, "GET", "a.com/x", map[string]string{"x-group": fmt.Sprintf("g%d", i%500)})
					_ = q.Inc(api)
					_, _ = q.Allowed(api)
				}
			}(g)
		}
		wg.Add(1)
		go func() {
			defer wg.Done()
			for time.Now().Before(deadline) {
				q, _ := rm.GetQuota("q1", "")
				if c, ok := q.(interface{ GetQuotaGroupsCounters() map[string]int64 }); ok {
					c.GetQuotaGroupsCounters()
				}
			}
		}()
	case "flows":
		e, err := engine.New(map[string]string{"quotas/q.yaml": quotaYAML, "flows/f.yaml": flowYAML}, false)
		if err != nil {
			fmt.Println("setup failed:", err)
			os.Exit(3)
		}
		defer e.Close()
		for g := 0; g < 4; g++ {
			wg.Add(1)
			go func(g int) {
				defer wg.Done()
				for i := 0; time.Now().Before(deadline); i++ {
					id := fmt.Sprintf("t%d-%d", g, i)
					e.Request(id, "GET", "a.com/x", nil)
					e.Response(id, "GET", "a.com/x", 200, nil)
				}
			}(g)
		}
	case "cache":
		c := utils.NewMemoryCache[string, string](clock.NewRealClock())
		c.WithMaxCacheSize(func(k, v string) float64 { return float64(len(k) + len(v)) }, 1e12)
		for g := 0; g < 4; g++ {
			wg.Add(1)
			go func(g int) {
				defer wg.Done()
				for i := 0; time.Now().Before(deadline); i++ {
					_ = c.Set(fmt.Sprintf("k%d-%d", g, i%50), "v", 0.001)
				}
			}(g)
		}
	case "vacuum":
		m := map[int]int{}
		mu := &sync.RWMutex{}
		v := vacuum.NewMapVacuum[int, int]("t", clock.NewRealClock(), time.Millisecond, time.Millisecond, m, mu)
		for g := 0; g < 2; g++ {
			wg.Add(1)
			go func(g int) {
				defer wg.Done()
				for i := 0; time.Now().Before(deadline); i++ {
					mu.Lock()
					m[i] = i
					mu.Unlock()
					v.VacuumKey(i)
				}
			}(g)
		}
	default:
		fmt.Println("unknown scenario")
		os.Exit(2)
	}
	wg.Wait()
	fmt.Println("done", sc)
}
