// Harness for C02: concurrency quotas bound in-flight requests and always free their slots.
//
// Engine level: a full streams engine is built per case from generated quota YAML (concurrent quotas with
// max 1-3, request_expiration_sec, gc_interval_sec, optional concurrent parent, optional never-limiting
// fixed-window companion) and a generated user flow (a chain of Limiters in a chosen order, each refusing
// with a 429 GenerateResponse, optionally followed by a branch in which the flow itself answers POST
// requests).  Events are applied through Stream.ExecuteFlow (request / response API streams) and
// Stream.OnError(id); the GC goroutines are driven by the mock clock (see engine.go).  After every event the
// member count of every concurrent quota is read (GetQuotaGroupsCounters).
//
// op lines                                           answers
//
//	reload gc=.. early=.. order=.. q<i>=.. [f<i>=..]   the configuration loaded again (same or changed) into the same process
//	cfg t0=<ns> gc=<sec|-> early=<0|1> [mod=<k>] order=<i,j,..> q0=c,<max>,<expSec|->,<parent|-> q1=f ...   ok | err:init
//	req r=<id> m=<G|P> [p=x|y] [h=0|1] [s=<n>|e]   (s: sequence id = transaction n's id / empty; default its own)
//	req r=<id> m=<G|P>                               v=<a|r|e> c=<n0,n1,..>    (a admitted, r refused 429, e answered early 200)
//	resp r=<id>                                      ok c=<..>
//	err r=<id>                                       ok c=<..>                  (Stream.OnError)
//	adv d=<ns>                                       ok c=<..>
package main

import (
	"fmt"
	"strconv"
	"strings"

	"github.com/rs/zerolog"

	"verif/harness/internal/proto"
)

const rule = "event histories (request / response / early answer / proxy error / clock advance with GC ticks) over <= 4 " +
	"transaction ids x quota set-ups (max 1-3, expiry 1-3 s, optional concurrent parent, optional fixed companion before/after); " +
	"non-trivial = at least one request admitted and at least one slot released; distinct by (ops, answers)"

func kvI(w []string, k string) (int64, bool) {
	s, ok := proto.KV(w, k)
	if !ok {
		return 0, false
	}
	n, err := strconv.ParseInt(s, 10, 64)
	if err != nil {
		return 0, false
	}
	return n, true
}

func parseCfg(w []string) (caseCfg, bool) {
	var c caseCfg
	var ok bool
	if c.t0, ok = kvI(w, "t0"); !ok {
		return c, false
	}
	if g, okg := proto.KV(w, "gc"); okg && g == "-" { // gc_interval_sec not configured
		c.gcSec, c.gcSet = defaultGCSec, false
	} else if c.gcSec, ok = kvI(w, "gc"); !ok || c.gcSec <= 0 {
		return c, false
	} else {
		c.gcSet = true
	}
	ev, ok := kvI(w, "early")
	if !ok {
		return c, false
	}
	c.early = ev != 0
	if _, has := proto.KV(w, "mod"); has {
		// a request-rewriting processor after the first <mod> limiters of the admitted path
		k, ok := kvI(w, "mod")
		if !ok || k < 0 {
			return c, false
		}
		c.modAt = int(k) + 1
	}
	for i := 0; ; i++ {
		s, ok := proto.KV(w, fmt.Sprintf("q%d", i))
		if !ok {
			break
		}
		p := strings.Split(s, ",")
		parent := func(x string) (int, bool) {
			if x == "-" {
				return -1, true
			}
			pp, err := strconv.Atoi(x)
			if err != nil || pp < 0 || pp >= i {
				return 0, false
			}
			return pp, true
		}
		switch {
		case len(p) == 1 && (p[0] == "f" || p[0] == "g"): // g: grouped by the header x-c02
			c.quotas = append(c.quotas, qspec{parent: -1, grouped: p[0] == "g"})
		case len(p) == 2 && (p[0] == "f" || p[0] == "g"): // fixed-window internal limit under quota p[1]
			par, ok := parent(p[1])
			if !ok || par < 0 {
				return c, false
			}
			c.quotas = append(c.quotas, qspec{parent: par, grouped: p[0] == "g"})
		case len(p) == 4 && p[0] == "c":
			mx, e1 := strconv.ParseInt(p[1], 10, 64)
			ex, e2 := strconv.ParseInt(p[2], 10, 64)
			expSet := true
			if p[2] == "-" { // request_expiration_sec not configured
				ex, e2, expSet = defaultExpSec, nil, false
			}
			par, ok := parent(p[3])
			if !ok || e1 != nil || e2 != nil || mx < 0 || ex <= 0 {
				return c, false
			}
			c.quotas = append(c.quotas, qspec{conc: true, max: mx, expSec: ex, expSet: expSet, parent: par})
		default:
			return c, false
		}
	}
	for i := range c.quotas {
		if f, ok := proto.KV(w, fmt.Sprintf("f%d", i)); ok {
			switch f {
			case "mG", "mP", "py", "h":
				c.quotas[i].flt = f
			default:
				return c, false
			}
		}
	}
	os, ok := proto.KV(w, "order")
	if !ok || len(c.quotas) == 0 {
		return c, false
	}
	seen := map[int]bool{}
	for _, s := range strings.Split(os, ",") {
		q, err := strconv.Atoi(s)
		if err != nil || q < 0 || q >= len(c.quotas) || seen[q] {
			return c, false
		}
		seen[q] = true
		c.order = append(c.order, q)
	}
	if c.modAt > len(c.order)+1 {
		return c, false
	}
	return c, true
}

// optional `s=<n|e>`: the sequence id is that of transaction <n> (a retried attempt carries its first attempt's id) or empty;
// default: the transaction's own id (a first attempt)
func seqOpt(w []string, id string) (string, bool) {
	s, ok := proto.KV(w, "s")
	if !ok {
		return id, true
	}
	if s == "e" {
		return "", true
	}
	n, err := strconv.ParseUint(s, 10, 32)
	if err != nil {
		return "", false
	}
	return fmt.Sprintf("t%d", n), true
}

// optional `p=<x|y>` (URL path, default x) and `h=<0|1>` (request header x-c02: 1, default 0)
func txOpts(w []string) (string, bool, bool) {
	path, hdr := "x", false
	if p, ok := proto.KV(w, "p"); ok {
		if p != "x" && p != "y" {
			return "", false, false
		}
		path = p
	}
	if h, ok := proto.KV(w, "h"); ok {
		if h != "0" && h != "1" {
			return "", false, false
		}
		hdr = h == "1"
	}
	return path, hdr, true
}

func exec(c proto.Case, o *proto.Out) []string {
	if len(c.Ops) > 0 && strings.HasPrefix(c.Ops[0], "stress-") {
		return execStress(c, o)
	}
	outs := make([]string, len(c.Ops))
	var e *engine
	defer func() {
		if e != nil {
			e.close()
		}
	}()
	admitted, released := false, false
	last := 0
	reqID := func(w []string) (string, bool) {
		n, ok := kvI(w, "r")
		if !ok || n < 0 {
			return "", false
		}
		return fmt.Sprintf("t%d", n), true
	}
	for i, op := range c.Ops {
		w := strings.Fields(op)
		if len(w) == 0 {
			outs[i] = "bad-op"
			continue
		}
		if w[0] == "cfg" {
			cfg, ok := parseCfg(w)
			if !ok || e != nil {
				outs[i] = "bad-op"
				continue
			}
			var err error
			e, err = newEngine(cfg)
			if err != nil {
				e = nil
				outs[i] = "err:init"
				continue
			}
			outs[i] = "ok"
			o.Count(fmt.Sprintf("cfg-quotas-%d-order-%d", len(cfg.quotas), len(cfg.order)))
			continue
		}
		if e == nil {
			outs[i] = "bad-op"
			continue
		}
		switch w[0] {
		case "reload":
			// the whole configuration again (the same or a changed one); it starts at the current instant
			if _, has := proto.KV(w, "t0"); has {
				outs[i] = "bad-op"
				continue
			}
			cfg, ok := parseCfg(append([]string{"cfg", fmt.Sprintf("t0=%d", e.clk.Now().UnixNano())}, w[1:]...))
			if !ok {
				outs[i] = "bad-op"
				continue
			}
			if err := e.load(cfg); err != nil {
				outs[i] = "err:reload"
				continue
			}
			outs[i] = "ok"
			o.Count("reload")
			last = 0
			continue
		case "req":
			id, ok1 := reqID(w)
			m, ok2 := proto.KV(w, "m")
			if !ok1 || !ok2 || (m != "G" && m != "P") {
				outs[i] = "bad-op"
				continue
			}
			path, hdr, ok3 := txOpts(w)
			if !ok3 {
				outs[i] = "bad-op"
				continue
			}
			seq, ok4 := seqOpt(w, id)
			if !ok4 {
				outs[i] = "bad-op"
				continue
			}
			v := e.requestSeq(id, seq, m == "P", path, hdr)
			if seq != id {
				o.Count("req-retried-attempt")
			}
			outs[i] = "v=" + v + " " + e.obs()
			o.Count("req-" + v)
			if e.rewrote {
				o.Count("req-rewritten-" + v)
			}
			if v == "a" {
				admitted = true
			}
		case "resp":
			id, ok := reqID(w)
			if !ok {
				outs[i] = "bad-op"
				continue
			}
			path, _, ok3 := txOpts(w)
			m, okm := proto.KV(w, "m")
			if !okm {
				m = "G"
			}
			if !ok3 || (m != "G" && m != "P") {
				outs[i] = "bad-op"
				continue
			}
			seq, ok4 := seqOpt(w, id)
			if !ok4 {
				outs[i] = "bad-op"
				continue
			}
			outs[i] = e.responseSeq(id, seq, m == "P", path) + " " + e.obs()
			o.Count("resp")
		case "err":
			id, ok := reqID(w)
			if !ok {
				outs[i] = "bad-op"
				continue
			}
			e.stream.OnError(id)
			outs[i] = "ok " + e.obs()
			o.Count("err")
		case "adv":
			d, ok := kvI(w, "d")
			if !ok || d < 0 {
				outs[i] = "bad-op"
				continue
			}
			ticked := e.advance(d)
			outs[i] = "ok " + e.obs()
			if ticked {
				o.Count("adv-with-gc-tick")
			} else {
				o.Count("adv-no-tick")
			}
		default:
			outs[i] = "bad-op"
			continue
		}
		cur := e.total()
		if cur < last {
			released = true
			o.Count("released-on-" + w[0])
		}
		last = cur
	}
	if admitted && released {
		o.NonTrivial(strings.Join(c.Ops, "|") + "#" + strings.Join(outs, "|"))
	}
	return outs
}

func main() {
	zerolog.SetGlobalLevel(zerolog.Disabled)
	proto.Main(proto.Harness{Rule: rule, Gen: gen, Exec: exec})
}
