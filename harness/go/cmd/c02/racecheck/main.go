// Stress probe (search only, not part of ./check): Inc and Dec of the SAME request id from two goroutines.
// Inc writes the status in two lock sections (setReqStatus, then `.member =`); a Dec in between deletes the
// entry and the second section dereferences a nil *allowedReqStatus.
package main

import (
	"fmt"
	"os"
	"sync"
	"time"

	lunar_messages "lunar/engine/messages"
	lunar_context "lunar/engine/streams/lunar-context"
	quotaresource "lunar/engine/streams/resources/quota"
	stream_types "lunar/engine/streams/types"

	"github.com/rs/zerolog"
)

func main() {
	zerolog.SetGlobalLevel(zerolog.Disabled)
	cfg := &quotaresource.QuotaConfig{ID: "q", Strategy: &quotaresource.StrategyConfig{
		Concurrent: &quotaresource.ConcurrentConfig{MaxRequestCount: 5, RequestExpirationSec: 60, GCIntervalSec: 60}}}
	cs, err := quotaresource.NewConcurrentStrategy(cfg, nil)
	if err != nil {
		fmt.Println("init:", err)
		os.Exit(2)
	}
	api := stream_types.NewRequestAPIStream(lunar_messages.OnRequest{ID: "t1", SequenceID: "t1", Method: "GET",
		URL: "a.com/x", Headers: map[string]string{}}, lunar_context.NewMemoryState[[]byte]())
	var wg sync.WaitGroup
	panicked := make(chan string, 8)
	start := time.Now()
	stop := start.Add(20 * time.Second)
	run := func(name string, f func() error) {
		defer wg.Done()
		defer func() {
			if r := recover(); r != nil {
				// the panic happens with cs.mutex held (no defer Unlock in Inc): everybody else is stuck now
				fmt.Printf("PANIC in %s after %s: %v\n", name, time.Since(start).Round(time.Millisecond), r)
				os.Exit(1)
			}
		}()
		for n := 0; time.Now().Before(stop); n++ {
			_ = f()
			if len(panicked) > 0 {
				return
			}
		}
	}
	wg.Add(5)
	go run("Inc", func() error { return cs.Inc(api) })
	for k := 0; k < 4; k++ { // several Dec of the same id (response, proxy error, drop, GC all delete by key)
		go run("Dec", func() error { return cs.Dec(api) })
	}
	wg.Wait()
	select {
	case p := <-panicked:
		fmt.Println("PANIC", p)
		os.Exit(1)
	default:
		fmt.Println("no panic in 20 s")
	}
}
