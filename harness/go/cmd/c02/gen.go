package main

import (
	"fmt"
	"strings"

	"verif/harness/internal/prng"
	"verif/harness/internal/proto"
)

const (
	sec    = int64(1_000_000_000)
	deltaD = int64(10_000_000) // timeDeltaForDeadRequestDecision
	baseT0 = int64(1_700_000_000) * sec
)

// topology = quota list + flow order; `%d` slots take (max, expSec) pairs of the concurrent quotas in order.
type topo struct {
	name   string
	quotas []string // "c" (root), "c<parent>" (child of quota index), "f"
	order  []int
}

var topos = []topo{
	{"C", []string{"c"}, []int{0}},
	{"F>C", []string{"f", "c"}, []int{0, 1}},         // fixed quota touched first (F02a, repaired)
	{"C>F", []string{"f", "c"}, []int{1, 0}},         // concurrent quota touched first
	{"P/C", []string{"c", "c0"}, []int{1}},           // child limiter, concurrent parent
	{"P/C/G", []string{"c", "c0", "c1"}, []int{2}},   // three levels
	{"F>P/C", []string{"f", "c", "c1"}, []int{0, 2}}, // fixed first, then child with parent
	{"C1>C2", []string{"c", "c"}, []int{0, 1}},       // two independent concurrent quotas in one flow
	{"C2>C1", []string{"c", "c"}, []int{1, 0}},
	{"U+C", []string{"c", "c"}, []int{1}},               // an unreferenced concurrent quota: its system Inc is live
	{"Uf+C", []string{"f", "c"}, []int{1}},              // an unreferenced fixed quota: touched first by its system Inc
	{"P>C", []string{"c", "c0"}, []int{0, 1}},           // parent limited first, then its child
	{"U+Uf+C", []string{"c", "f", "c"}, []int{2}},       // two unreferenced quotas: both system Incs are live, in file order
	{"P/C1,C2", []string{"c", "c0", "c0"}, []int{1, 2}}, // two children of one parent, both limited
	// mixed trees: the flow limits on the child
	{"P/f", []string{"c", "f0"}, []int{1}},         // fixed-window internal limit under a concurrent quota
	{"P/f/f", []string{"c", "f0", "f1"}, []int{2}}, // fixed-window grandchild
	{"F/c", []string{"f", "c0"}, []int{1}},         // concurrent internal limit under a fixed-window quota
	{"P/f/c", []string{"c", "f0", "c1"}, []int{2}}, // concurrent under fixed-window under concurrent
	{"P/f+P", []string{"c", "f0"}, []int{1, 0}},    // child first, then its concurrent parent
	// fixed-window levels grouped by a request header (one counter object per header value; the provider's response and
	// the proxy-error report carry no such header)
	{"P/g", []string{"c", "g0"}, []int{1}},
	{"P/g/g", []string{"c", "g0", "g1"}, []int{2}},
	{"P/g/c", []string{"c", "g0", "c1"}, []int{2}},
	{"G>C", []string{"g", "c"}, []int{0, 1}},
	{"P/g+P", []string{"c", "g0"}, []int{1, 0}},
	{"G/c", []string{"g", "c0"}, []int{1}},
}

func (t topo) grouped() bool {
	for _, q := range t.quotas {
		if q[0] == 'g' {
			return true
		}
	}
	return false
}

type gcfg struct {
	t0     int64
	gcSec  int64 // effective
	gcSet  bool
	modAt  int // 0: none; k+1: request-rewriting processor after the first k limiters
	expSet []bool
	early  bool
	tp     topo
	max    []int64 // per quota (conc only)
	expSec []int64
	flt    []string // per quota: own filter ("" = host/*)
}

func (g gcfg) line() string { return fmt.Sprintf("cfg t0=%d ", g.t0) + g.body() }

// the configuration loaded again; it starts at the instant of the reload
func (g gcfg) reloadLine() string { return "reload " + g.body() }

func (g gcfg) body() string {
	var b strings.Builder
	e := 0
	if g.early {
		e = 1
	}
	ord := make([]string, len(g.tp.order))
	for i, q := range g.tp.order {
		ord[i] = fmt.Sprint(q)
	}
	gcw := fmt.Sprint(g.gcSec)
	if g.expSet != nil && !g.gcSet {
		gcw = "-"
	}
	fmt.Fprintf(&b, "gc=%s early=%d", gcw, e)
	if g.modAt > 0 {
		fmt.Fprintf(&b, " mod=%d", g.modAt-1)
	}
	fmt.Fprintf(&b, " order=%s", strings.Join(ord, ","))
	for i, q := range g.tp.quotas {
		ex := fmt.Sprint(g.expSec[i])
		if g.expSet != nil && !g.expSet[i] {
			ex = "-"
		}
		switch {
		case q == "f" || q == "g":
			fmt.Fprintf(&b, " q%d=%s", i, q)
		case q[0] == 'f' || q[0] == 'g':
			fmt.Fprintf(&b, " q%d=%c,%s", i, q[0], q[1:])
		case q == "c":
			fmt.Fprintf(&b, " q%d=c,%d,%s,-", i, g.max[i], ex)
		default:
			fmt.Fprintf(&b, " q%d=c,%d,%s,%s", i, g.max[i], ex, q[1:])
		}
	}
	for i, f := range g.flt {
		if f != "" {
			fmt.Fprintf(&b, " f%d=%s", i, f)
		}
	}
	return b.String()
}

func randCfg(r *prng.R, tp topo) gcfg {
	g := gcfg{t0: baseT0, gcSec: int64(r.Range(1, 2)), early: r.Chance(60), tp: tp}
	if r.Chance(30) {
		g.t0 += int64(r.Intn(int(sec)))
	}
	g.max = make([]int64, len(tp.quotas))
	g.expSec = make([]int64, len(tp.quotas))
	for i := range tp.quotas {
		g.max[i] = int64(prng.Pick(r, []int{1, 1, 2, 2, 3, 3, 4}))
		g.expSec[i] = int64(r.Range(1, 3))
	}
	// request_expiration_sec / gc_interval_sec configured or left to the strategy's defaults (60 s / 30 s): all four
	// combinations
	if r.Chance(30) {
		g.expSet = make([]bool, len(tp.quotas))
		g.gcSet = r.Bool()
		if !g.gcSet {
			g.gcSec = defaultGCSec
		}
		for i := range tp.quotas {
			g.expSet[i] = r.Bool()
			if !g.expSet[i] {
				g.expSec[i] = defaultExpSec
			}
		}
	}
	// a processor that only rewrites the request, somewhere on the admitted path
	if r.Chance(25) {
		g.modAt = r.Range(0, len(tp.order)) + 1
	}
	// quota filters narrower than / different from the flow's filter (host/*): one method only, one path only, a
	// required request header
	if r.Chance(35) {
		g.flt = make([]string, len(tp.quotas))
		for i := range tp.quotas {
			if r.Chance(50) {
				g.flt[i] = prng.Pick(r, []string{"mG", "mP", "py", "h"})
			}
		}
	}
	return g
}

// history generator: tracks the virtual time and the expiry instants a request would get, so that clock
// advances land exactly on / one ns around expiries and GC instants.
type txShape struct {
	post bool
	path string
}

type hist struct {
	seq    map[int]string  // sequence id option of a transaction ("" = its own id: a first attempt)
	last   map[int]txShape // shape of the transaction's last request (its response carries the same method and URL)
	g      gcfg
	now    int64
	expiry []int64
	ops    []string
}

func (h *hist) nextTick() int64 {
	k := (h.now-h.g.t0)/(h.g.gcSec*sec) + 1
	return h.g.t0 + k*h.g.gcSec*sec
}

func (h *hist) req(id int, post bool) { h.reqShaped(id, post, "x", false) }

func (h *hist) reqShaped(id int, post bool, path string, hdr bool) {
	m := "G"
	if post {
		m = "P"
	}
	op := fmt.Sprintf("req r=%d m=%s", id, m)
	if path != "x" {
		op += " p=" + path
	}
	if hdr {
		op += " h=1"
	}
	if sq := h.seq[id]; sq != "" {
		op += " s=" + sq
	}
	if h.last == nil {
		h.last = map[int]txShape{}
	}
	h.last[id] = txShape{post, path}
	h.ops = append(h.ops, op)
	for i, q := range h.g.tp.quotas {
		if q[0] == 'c' {
			h.expiry = append(h.expiry, h.now+h.g.expSec[i]*sec+deltaD)
		}
	}
}

func (h *hist) resp(id int) {
	sh, ok := h.last[id]
	if !ok {
		sh = txShape{false, "x"}
	}
	op := fmt.Sprintf("resp r=%d", id)
	if sh.post {
		op += " m=P"
	}
	if sh.path != "x" {
		op += " p=" + sh.path
	}
	if sq := h.seq[id]; sq != "" {
		op += " s=" + sq
	}
	h.ops = append(h.ops, op)
}

// reload: a new engine from configuration g starts at the current instant; what the old one held is gone with it
func (h *hist) reload(g gcfg) {
	g.t0 = h.now
	h.g = g
	h.expiry = nil
	h.ops = append(h.ops, g.reloadLine())
}

func (h *hist) adv(d int64) {
	if d < 0 {
		d = 0
	}
	h.ops = append(h.ops, fmt.Sprintf("adv d=%d", d))
	h.now += d
}

func (h *hist) advRandom(r *prng.R) {
	var cands []int64
	nt := h.nextTick()
	cands = append(cands, nt-h.now, nt-h.now-1, nt-h.now+1, nt-h.now-deltaD, nt-h.now-deltaD+1, nt-h.now-deltaD-1,
		nt+h.g.gcSec*sec-h.now)
	for _, e := range h.expiry {
		if e >= h.now {
			cands = append(cands, e-h.now, e-h.now-1, e-h.now+1)
			// the first GC instant at or after the expiry
			k := (e - h.g.t0 + h.g.gcSec*sec - 1) / (h.g.gcSec * sec)
			cands = append(cands, h.g.t0+k*h.g.gcSec*sec-h.now)
		}
	}
	cands = append(cands, 1, deltaD, sec/2, sec, 3*sec+deltaD, int64(r.Intn(int(2*sec))))
	d := prng.Pick(r, cands)
	if d < 0 {
		d = int64(r.Intn(int(sec)))
	}
	h.adv(d)
}

func randomCase(r *prng.R, id string, maxLen int) proto.Case {
	g := randCfg(r, prng.Pick(r, topos))
	h := &hist{g: g, now: g.t0}
	h.ops = append(h.ops, g.line())
	ntx := r.Range(1, 4)
	fresh := 10
	ln := r.Range(4, maxLen)
	reloads := r.Chance(25)
	// retried attempts: the sequence id is another transaction's id (the first attempt's), an id nobody has, or empty
	if r.Chance(30) {
		h.seq = map[int]string{}
		for tx := 1; tx <= ntx; tx++ {
			if r.Chance(60) {
				h.seq[tx] = prng.Pick(r, []string{"e", "77", fmt.Sprint(r.Range(1, ntx))})
			}
		}
		h.seq[11+r.Intn(6)] = prng.Pick(r, []string{"e", "1"})
	}
	for len(h.ops) <= ln {
		tx := r.Range(1, ntx)
		if reloads && r.Chance(12) {
			// the same configuration again, changed settings on the same quota tree, or another tree
			switch r.Intn(3) {
			case 0:
				h.reload(h.g)
			case 1:
				h.reload(randCfg(r, h.g.tp))
			default:
				h.reload(randCfg(r, prng.Pick(r, topos)))
			}
			g = h.g
			continue
		}
		switch k := r.Intn(100); {
		case k < 38:
			if g.flt != nil || g.tp.grouped() {
				h.reqShaped(tx, r.Chance(45), prng.Pick(r, []string{"x", "x", "y"}), r.Chance(40))
			} else {
				h.req(tx, r.Chance(20))
			}
		case k < 55:
			h.resp(tx)
		case k < 68:
			h.ops = append(h.ops, fmt.Sprintf("err r=%d", tx))
		case k < 90:
			h.advRandom(r)
		default: // a probe with a fresh id
			fresh++
			h.req(fresh, false)
		}
	}
	fresh++
	h.req(fresh, false)
	return proto.Case{ID: id, Ops: h.ops}
}

// malformed stream for the glue: unknown ops, missing fields, events before cfg, a second cfg.
func malformedCase(r *prng.R, id string) proto.Case {
	g := randCfg(r, topos[0])
	bad := []string{"req r=1", "req m=G", "req r=x m=G", "resp", "err r=-1", "adv d=-5", "adv", "nop r=1", "req r=1 m=Q",
		"cfg t0=1 gc=0 early=0 order=0 q0=c,1,1,-", "cfg t0=1 gc=1 early=0 order=3 q0=c,1,1,-", "cfg t0=1 gc=1 early=0 order=0 q0=c,1,1,0",
		"reload", "reload t0=5 gc=1 early=0 order=0 q0=c,1,1,-", "reload gc=0 early=0 order=0 q0=c,1,1,-", "reload gc=1 early=0 order=2 q0=c,1,1,-"}
	ops := []string{}
	if r.Chance(30) {
		ops = append(ops, prng.Pick(r, bad)) // before any cfg
	}
	ops = append(ops, g.line())
	for k := 0; k < 6; k++ {
		if r.Chance(50) {
			ops = append(ops, prng.Pick(r, bad))
		} else {
			ops = append(ops, fmt.Sprintf("req r=%d m=G", r.Range(1, 3)))
		}
	}
	return proto.Case{ID: id, Ops: ops}
}

// ---- exhaustive small scope (thorough tier) -------------------------------------------------------------

// ending events of one transaction: response, proxy error, expiry (advance to the first GC instant at or after
// the latest expiry handed out so far).
var endings = []string{"resp", "err", "expire"}

func permutations(xs []string) [][]string {
	if len(xs) <= 1 {
		return [][]string{append([]string{}, xs...)}
	}
	var out [][]string
	for i := range xs {
		rest := append(append([]string{}, xs[:i]...), xs[i+1:]...)
		for _, p := range permutations(rest) {
			out = append(out, append([]string{xs[i]}, p...))
		}
	}
	return out
}

// all sequences of distinct ending events of length 0..3 (16 of them)
func endingSeqs() [][]string {
	seen := map[string]bool{}
	var out [][]string
	for _, p := range permutations(endings) {
		for k := 0; k <= len(p); k++ {
			key := strings.Join(p[:k], ",")
			if !seen[key] {
				seen[key] = true
				out = append(out, append([]string{}, p[:k]...))
			}
		}
	}
	return out
}

// interleavings of per-transaction scripts (each script keeps its own order)
func interleave(scripts [][]string, emit func([]string)) {
	idx := make([]int, len(scripts))
	var cur []string
	var rec func()
	rec = func() {
		done := true
		for i := range scripts {
			if idx[i] < len(scripts[i]) {
				done = false
				cur = append(cur, scripts[i][idx[i]])
				idx[i]++
				rec()
				idx[i]--
				cur = cur[:len(cur)-1]
			}
		}
		if done {
			emit(append([]string{}, cur...))
		}
	}
	rec()
}

func (h *hist) apply(tok string) {
	var kind string
	var tx int
	fmt.Sscanf(tok, "%s %d", &kind, &tx)
	switch kind {
	case "req":
		h.req(tx, false)
	case "early":
		h.req(tx, true)
	case "resp":
		h.resp(tx)
	case "err":
		h.ops = append(h.ops, fmt.Sprintf("err r=%d", tx))
	case "expire":
		var last int64
		for _, e := range h.expiry {
			if e > last {
				last = e
			}
		}
		k := (last - h.g.t0 + h.g.gcSec*sec - 1) / (h.g.gcSec * sec)
		h.adv(h.g.t0 + k*h.g.gcSec*sec - h.now)
	}
}

// exhaustive small scope: two transactions; the first admitted by a plain or an early-answered request; every
// sequence of distinct ending events (response, proxy error, expiry + GC) of bounded length for each; every
// interleaving of the two scripts; then a probe.
//
//	topology C, max 1, plain admission: ending sequences up to length 3 (all 16)        6 842 cases
//	topologies C, F>C, C>F: max 1 and 2, both admissions, sequences up to length 2     14 424 cases
//	the other topologies: max 1, plain admission, sequences up to length 2              9 616 cases
func exhaustive(emit func(proto.Case)) {
	all := endingSeqs()
	var short [][]string
	for _, s := range all {
		if len(s) <= 2 {
			short = append(short, s)
		}
	}
	id := 0
	run := func(tp topo, mx int64, admits []string, seqs [][]string) {
		g := gcfg{t0: baseT0, gcSec: 1, early: true, tp: tp, max: make([]int64, len(tp.quotas)), expSec: make([]int64, len(tp.quotas))}
		for i := range tp.quotas {
			g.max[i] = mx
			g.expSec[i] = 1
		}
		for _, a1 := range admits {
			for _, e1 := range seqs {
				for _, e2 := range seqs {
					s1 := []string{a1 + " 1"}
					for _, e := range e1 {
						s1 = append(s1, e+" 1")
					}
					s2 := []string{"req 2"}
					for _, e := range e2 {
						s2 = append(s2, e+" 2")
					}
					interleave([][]string{s1, s2}, func(toks []string) {
						h := &hist{g: g, now: g.t0}
						h.ops = append(h.ops, g.line())
						for _, t := range toks {
							h.apply(t)
						}
						h.req(9, false)
						id++
						emit(proto.Case{ID: fmt.Sprintf("x%d", id), Ops: h.ops})
					})
				}
			}
		}
	}
	run(topos[0], 1, []string{"req"}, all)
	for ti, tp := range topos {
		if ti < 3 {
			for _, mx := range []int64{1, 2} {
				run(tp, mx, []string{"req", "early"}, short)
			}
		} else if ti < 9 {
			run(tp, 1, []string{"req"}, short)
		}
	}
}

// request_expiration_sec and gc_interval_sec each configured (small value) or left out (the strategy's defaults, 60 s
// and 30 s): the four combinations, on a plain concurrent quota and on a parent/child pair. Transactions that nobody
// answers fill the quota; probes sit one GC instant before the effective expiry (still full), at the first GC instant
// at or after it (freed), and one instant later.
func defaultsFamily(emit func(proto.Case)) {
	id := 0
	for _, tp := range []topo{topos[0], topos[3]} {
		for _, gcSet := range []bool{false, true} {
			for _, expSet := range []bool{false, true} {
				for _, gcs := range []int64{1, 2} {
					for _, exs := range []int64{1, 3} {
						if (!gcSet && gcs != 1) || (!expSet && exs != 1) {
							continue
						}
						n := len(tp.quotas)
						g := gcfg{t0: baseT0, gcSec: gcs, gcSet: gcSet, early: false, tp: tp, max: make([]int64, n),
							expSec: make([]int64, n), expSet: make([]bool, n)}
						if !gcSet {
							g.gcSec = defaultGCSec
						}
						for i := range tp.quotas {
							g.max[i], g.expSec[i], g.expSet[i] = 2, exs, expSet
							if !expSet {
								g.expSec[i] = defaultExpSec
							}
						}
						h := &hist{g: g, now: g.t0}
						h.ops = append(h.ops, g.line())
						h.req(1, false)
						h.req(2, false)
						h.req(3, false) // full
						var last int64
						for _, e := range h.expiry {
							if e > last {
								last = e
							}
						}
						step := g.gcSec * sec
						k := (last - g.t0 + step - 1) / step // the first GC instant at or after the expiry
						if k > 1 {
							h.adv(g.t0 + (k-1)*step - h.now) // the GC instant before: nothing has expired
							h.req(4, false)
						}
						h.adv(last - 1 - h.now) // one nanosecond before the expiry, no GC instant
						h.req(5, false)
						h.adv(g.t0 + k*step - h.now)
						h.req(6, false)
						h.resp(6)
						h.adv(step)
						h.req(7, false)
						id++
						emit(proto.Case{ID: fmt.Sprintf("dflt%d", id), Ops: h.ops})
					}
				}
			}
		}
	}
}

// the configuration loaded twice and three times into the process (the same, then with changed settings), at a GC instant
// of the first load or between two; after every load transactions that nobody answers fill the quota and the clock
// moves past their expiry and the GC instants of that load: the rebuilt quota must give the slots back as the first
// one did. A transaction admitted before a reload is answered after it.
func reloadFamily(emit func(proto.Case)) {
	id := 0
	for _, tp := range []topo{topos[0], topos[3], topos[1], topos[13]} {
		for _, off := range []int64{0, sec / 2, 2*sec + 300*deltaD} {
			for _, gcs := range []int64{1, 2} {
				n := len(tp.quotas)
				g := gcfg{t0: baseT0, gcSec: gcs, early: false, tp: tp, max: make([]int64, n), expSec: make([]int64, n)}
				for i := range tp.quotas {
					g.max[i], g.expSec[i] = 1, 1
				}
				h := &hist{g: g, now: g.t0}
				h.ops = append(h.ops, g.line())
				tx := 0
				fill := func() {
					tx++
					h.req(tx, false) // admitted, nobody answers
					tx++
					h.req(tx, false) // refused: full
					h.apply("expire 0")
					tx++
					h.req(tx, false) // the slot is back
				}
				fill()
				h.adv(off)
				h.reload(h.g)
				fill()
				h.resp(tx - 3) // admitted by the first load, answered now
				tx++
				h.req(tx, false)
				g2 := h.g
				g2.max = append([]int64{}, g2.max...)
				g2.expSec = append([]int64{}, g2.expSec...)
				for i := range tp.quotas {
					g2.max[i], g2.expSec[i] = 2, 2
				}
				g2.gcSec = 3 - gcs
				h.adv(off / 2)
				h.reload(g2)
				tx++
				h.req(tx, false)
				fill()
				h.adv(g2.gcSec * sec)
				tx++
				h.req(tx, false)
				id++
				emit(proto.Case{ID: fmt.Sprintf("reload%d", id), Ops: h.ops})
			}
		}
	}
}

// a request-rewriting processor (TransformAPICall) at every position of the admitted path: before the limiters, between
// two, after the last one (with and without the flow answering POST requests itself afterwards). A rewritten request
// goes on to the provider: the transaction is in flight and keeps its slots until its response / error report / expiry.
func rewriteFamily(emit func(proto.Case)) {
	id := 0
	for _, tp := range []topo{topos[0], topos[1], topos[3], topos[6], topos[13]} {
		for pos := 0; pos <= len(tp.order); pos++ {
			for _, early := range []bool{false, true} {
				n := len(tp.quotas)
				g := gcfg{t0: baseT0, gcSec: 1, early: early, tp: tp, modAt: pos + 1, max: make([]int64, n), expSec: make([]int64, n)}
				for i := range tp.quotas {
					g.max[i], g.expSec[i] = 1, 2
				}
				h := &hist{g: g, now: g.t0}
				h.ops = append(h.ops, g.line())
				h.req(1, false) // admitted and forwarded (rewritten)
				h.req(2, false) // refused: the first one is in flight
				h.req(3, true)  // refused as well (POST)
				h.resp(1)
				h.req(4, true) // POST: admitted; answered by the flow itself when `early`
				h.req(5, false)
				h.ops = append(h.ops, "err r=5")
				h.req(6, false)
				h.apply("expire 0")
				h.req(7, false)
				id++
				emit(proto.Case{ID: fmt.Sprintf("rewrite%d", id), Ops: h.ops})
			}
		}
	}
}

// retried attempts (transaction id != sequence id: the first attempt's id, an unknown id, or no sequence id at all) admitted
// under a concurrency quota and ended by every release path: response, the flow's own early answer, proxy error report,
// response the quota's own filter does not select (POST-only quota, GET transaction), expiry. After each ending a
// newcomer must get the slot.
func retryFamily(emit func(proto.Case)) {
	id := 0
	for _, tp := range []topo{topos[0], topos[3], topos[2]} {
		for _, sq := range []string{"1", "77", "e"} {
			for _, narrow := range []bool{false, true} {
				n := len(tp.quotas)
				g := gcfg{t0: baseT0, gcSec: 1, early: true, tp: tp, max: make([]int64, n), expSec: make([]int64, n)}
				for i := range tp.quotas {
					g.max[i], g.expSec[i] = 1, 2
				}
				if narrow {
					g.flt = make([]string, n)
					for i, q := range tp.quotas {
						if q[0] == 'c' {
							g.flt[i] = "mP" // the quota's system flow selects POST only
						}
					}
				}
				h := &hist{g: g, now: g.t0, seq: map[int]string{2: sq, 3: sq, 4: sq, 5: sq, 6: sq}}
				h.ops = append(h.ops, g.line())
				h.req(1, false) // the first attempt
				h.resp(1)
				h.req(2, false) // retried attempts from here on
				h.req(9, false) // refused: 2 is in flight
				h.resp(2)       // response (outside the quota's filter when narrow)
				h.req(3, false)
				h.ops = append(h.ops, "err r=3") // proxy error report
				h.req(4, true)                   // POST: answered by the flow itself
				h.req(5, false)
				h.req(10, false) // refused
				h.apply("expire 0")
				h.req(6, false)
				h.resp(6)
				h.req(11, false)
				id++
				emit(proto.Case{ID: fmt.Sprintf("retry%d", id), Ops: h.ops})
			}
		}
	}
}

// fixed-window levels grouped by a request header in a tree with a concurrent quota: transactions that carry the header
// (first: the default group has never been used) or not, ended by every release path — the proxy-error report and the
// provider's response come without the header, a refusal / early answer is processed with the request's own headers.
func groupFamily(emit func(proto.Case)) {
	id := 0
	for _, tp := range topos {
		if !tp.grouped() {
			continue
		}
		for _, first := range []bool{true, false} { // does the first transaction carry the header
			for _, early := range []bool{false, true} {
				n := len(tp.quotas)
				g := gcfg{t0: baseT0, gcSec: 1, early: early, tp: tp, max: make([]int64, n), expSec: make([]int64, n)}
				for i := range tp.quotas {
					g.max[i], g.expSec[i] = 1, 2
				}
				h := &hist{g: g, now: g.t0}
				h.ops = append(h.ops, g.line())
				h.reqShaped(1, false, "x", first)
				h.reqShaped(2, false, "x", true) // refused
				h.ops = append(h.ops, "err r=1")
				h.reqShaped(3, false, "x", true)
				h.resp(3)
				h.reqShaped(4, true, "x", true) // POST: answered by the flow itself when `early`
				h.resp(4)
				h.reqShaped(5, false, "x", !first)
				h.reqShaped(5, false, "x", first) // the same transaction again, in the other group
				h.ops = append(h.ops, "err r=5")
				h.reqShaped(6, false, "x", true)
				h.apply("expire 0")
				h.reqShaped(7, false, "x", false)
				id++
				emit(proto.Case{ID: fmt.Sprintf("group%d", id), Ops: h.ops})
			}
		}
	}
}

func gen(r *prng.R, f proto.Flags, emit func(proto.Case)) {
	n := 1500
	if f.Tier == "thorough" {
		n = 2500
	}
	n *= f.Budget
	for k := 0; k < n; k++ {
		rr := r.Fork()
		if k%12 == 11 {
			emit(malformedCase(rr, fmt.Sprintf("m%d", k)))
		} else {
			emit(randomCase(rr, fmt.Sprintf("g%d", k), 25))
		}
	}
	// three transactions that nobody answers, then the GC: the crowded-set cases
	for _, mx := range []int64{3, 4} {
		for _, gcs := range []int64{1, 2} {
			g := gcfg{t0: baseT0, gcSec: gcs, early: false, tp: topos[0], max: []int64{mx}, expSec: []int64{1}}
			h := &hist{g: g, now: g.t0}
			h.ops = append(h.ops, g.line())
			for tx := 1; tx <= int(mx); tx++ {
				h.req(tx, false)
			}
			h.apply("expire 0")
			h.req(9, false)
			h.adv(gcs * sec)
			h.req(10, false)
			emit(proto.Case{ID: fmt.Sprintf("crowd%d-%d", mx, gcs), Ops: h.ops})
		}
	}
	defaultsFamily(emit)
	groupFamily(emit)
	retryFamily(emit)
	rewriteFamily(emit)
	reloadFamily(emit)
	genStress(emit, f.Tier == "thorough")
	if f.Tier == "thorough" {
		exhaustive(emit)
	}
}
