package main

// Search-only stress cases (no model behind them beyond "never panics"): Inc and Dec of the SAME request id from
// several goroutines on one real concurrentStrategy.  Before the repair F02e, Inc wrote the status in two lock
// sections and a Dec delete in between made it dereference nil while holding the strategy's mutex.
//   stress-incdec decs=<n> ms=<duration>      answer: ok | panic <where>
//   stress-arrive max=<m> workers=<n> rounds=<r>   (simultaneous arrivals at max-1)
//   stress-churn  max=<m> workers=<n> txns=<t>     (admit / in flight / release churn)
//   stress-firstuse max=<m> workers=<n> rounds=<r> slow=<0|1>   (simultaneous arrivals at a FRESH quota, every round)
//   stress-errorreport max=<m>                     (PUT /on_haproxy_error through the real admin route, idle and while a
//                                                   PUT /configuration is being handled)
//   stress-queue max=<m> waiters=<n> ttl=<sec>     (a Queue processor in front of the quota: waiters time out while the slots
//                                                   are held, the holders' responses arrive right after)
//   stress-realclock max=<m> exp=<sec> gc=<sec>    (a full engine on the PRODUCTION clock: abandoned transactions keep their
//                                                   slots until their expiry and lose them by the next collector pass)

import (
	"io"
	"net/http"
	"net/http/httptest"
	"reflect"
	"unsafe"

	"lunar/engine/routing"
	"lunar/toolkit-core/verifhook"

	"context"
	"fmt"
	"runtime"
	"strings"
	"sync"
	"sync/atomic"
	"time"

	lunar_messages "lunar/engine/messages"
	lunar_context "lunar/engine/streams/lunar-context"
	public_types "lunar/engine/streams/public-types"
	quotaresource "lunar/engine/streams/resources/quota"
	stream_types "lunar/engine/streams/types"
	context_manager "lunar/toolkit-core/context-manager"

	"verif/harness/internal/proto"
)

func stressIncDec(decs int, dur time.Duration) string {
	ctx, cancel := context.WithCancel(context.Background())
	context_manager.Get().WithContext(ctx).SetRealClock()
	defer func() {
		cancel()
		deadline := time.Now().Add(5 * time.Second)
		for time.Now().Before(deadline) {
			if _, t := gcParked(); t == 0 {
				break
			}
			time.Sleep(100 * time.Microsecond)
		}
	}()
	cfg := &quotaresource.QuotaConfig{ID: "q", Strategy: &quotaresource.StrategyConfig{
		Concurrent: &quotaresource.ConcurrentConfig{MaxRequestCount: 5, RequestExpirationSec: 60, GCIntervalSec: 60}}}
	cs, err := quotaresource.NewConcurrentStrategy(cfg, nil)
	if err != nil {
		return "err:init"
	}
	api := stream_types.NewRequestAPIStream(lunar_messages.OnRequest{ID: "t1", SequenceID: "t1", Method: "GET",
		URL: host + "/x", Headers: map[string]string{}}, lunar_context.NewMemoryState[[]byte]())
	var stop atomic.Bool
	result := make(chan string, decs+1)
	worker := func(name string, f func() error) {
		defer func() {
			if r := recover(); r != nil {
				// the panic happens with the strategy's mutex held: the other workers are stuck from now on
				stop.Store(true)
				result <- "panic " + name
				return
			}
			result <- "ok"
		}()
		for !stop.Load() {
			_ = f()
		}
	}
	go worker("Inc", func() error { return cs.Inc(api) })
	for k := 0; k < decs; k++ {
		go worker("Dec", func() error { return cs.Dec(api) })
	}
	timer := time.After(dur)
	select {
	case r := <-result:
		if strings.HasPrefix(r, "panic") {
			return r
		}
	case <-timer:
	}
	stop.Store(true)
	// collect what finishes promptly (after a panic the others never do)
	for k := 0; k < decs+1; k++ {
		select {
		case r := <-result:
			if strings.HasPrefix(r, "panic") {
				return r
			}
		case <-time.After(500 * time.Millisecond):
			return "panic stuck-workers"
		}
	}
	return "ok"
}

type gauge interface {
	GetQuotaGroupsCounters() map[string]int64
}

func newStrategy(max int64) (quotaresource.ResourceAdmI, func(), string) {
	ctx, cancel := context.WithCancel(context.Background())
	context_manager.Get().WithContext(ctx).SetRealClock()
	stop := func() {
		cancel()
		deadline := time.Now().Add(5 * time.Second)
		for time.Now().Before(deadline) {
			if _, t := gcParked(); t == 0 {
				break
			}
			time.Sleep(100 * time.Microsecond)
		}
	}
	cfg := &quotaresource.QuotaConfig{ID: "q", Strategy: &quotaresource.StrategyConfig{
		Concurrent: &quotaresource.ConcurrentConfig{MaxRequestCount: max, RequestExpirationSec: 600, GCIntervalSec: 600}}}
	cs, err := quotaresource.NewConcurrentStrategy(cfg, nil)
	if err != nil {
		stop()
		return nil, func() {}, "err:init"
	}
	return cs, stop, ""
}

func apiFor(id string) public_types.APIStreamI {
	return stream_types.NewRequestAPIStream(lunar_messages.OnRequest{ID: id, SequenceID: id, Method: "GET",
		URL: host + "/x", Headers: map[string]string{}}, lunar_context.NewMemoryState[[]byte]())
}

func held(cs quotaresource.ResourceAdmI) int64 {
	var n int64
	for _, v := range cs.GetQuotaGroupsCounters() {
		n += v
	}
	return n
}

// what the limiter processor does for a request
func limit(cs quotaresource.ResourceAdmI, a public_types.APIStreamI) bool {
	if err := cs.Inc(a); err != nil {
		return false
	}
	ok, err := cs.Allowed(a)
	return err == nil && ok
}

// stress-arrive: the set holds max-1 members; `workers` distinct new transactions arrive at the same instant (start
// barrier).  Any serial order admits exactly one of them.  answer: ok | exceeded round=<k> admitted=<n> held=<h>
func stressArrive(max, workers, rounds int) (res string) {
	defer func() {
		if r := recover(); r != nil {
			res = "panic arrive"
		}
	}()
	if runtime.GOMAXPROCS(0) < 4 {
		defer runtime.GOMAXPROCS(runtime.GOMAXPROCS(4))
	}
	cs, stop, e := newStrategy(int64(max))
	if e != "" {
		return e
	}
	defer stop()
	for k := 0; k < max-1; k++ {
		if !limit(cs, apiFor(fmt.Sprintf("t%d", 1000000+k))) {
			return "err:preload"
		}
	}
	for round := 0; round < rounds; round++ {
		var admitted atomic.Int64
		var ready, done sync.WaitGroup
		start := make(chan struct{})
		apis := make([]public_types.APIStreamI, workers)
		for w := 0; w < workers; w++ {
			apis[w] = apiFor(fmt.Sprintf("t%d", round*workers+w))
		}
		var arrived atomic.Int64
		ready.Add(workers)
		done.Add(workers)
		for w := 0; w < workers; w++ {
			go func(a public_types.APIStreamI) {
				defer done.Done()
				ready.Done()
				<-start
				// spin barrier: everybody enters the strategy within a few nanoseconds of each other
				arrived.Add(1)
				for spins := 0; arrived.Load() < int64(workers) && spins < 1_000_000; spins++ {
				}
				if limit(cs, a) {
					admitted.Add(1)
				}
			}(apis[w])
		}
		ready.Wait()
		close(start)
		done.Wait()
		h := held(cs)
		if admitted.Load() > 1 || h > int64(max) {
			return fmt.Sprintf("exceeded round=%d admitted=%d held=%d", round, admitted.Load(), h)
		}
		for _, a := range apis { // everybody ends (the refused ones as the engine does it: a drop)
			_ = cs.Dec(a)
		}
		if h2 := held(cs); h2 != int64(max-1) {
			return fmt.Sprintf("leak round=%d held=%d", round, h2)
		}
	}
	return "ok"
}

// stress-churn: `workers` goroutines each run `txns` transactions (limiter; if admitted: in flight for a moment; Dec)
// against one quota.  (a) never more than max admitted transactions in flight, (b) once all ended the set is empty,
// (c) a full set of newcomers is admitted afterwards.  answer: ok | exceeded peak=<n> | stuck held=<h> | starved admitted=<n>
func stressChurn(max, workers, txns int) (res string) {
	defer func() {
		if r := recover(); r != nil {
			res = "panic churn"
		}
	}()
	if runtime.GOMAXPROCS(0) < 4 {
		defer runtime.GOMAXPROCS(runtime.GOMAXPROCS(4))
	}
	cs, stop, e := newStrategy(int64(max))
	if e != "" {
		return e
	}
	defer stop()
	var inFlight, peak atomic.Int64
	var done sync.WaitGroup
	done.Add(workers)
	for w := 0; w < workers; w++ {
		go func(w int) {
			defer done.Done()
			defer func() { _ = recover() }()
			for k := 0; k < txns; k++ {
				a := apiFor(fmt.Sprintf("t%d", w*txns+k))
				if limit(cs, a) {
					n := inFlight.Add(1)
					if h := held(cs); h > n {
						n = h // slots held right now (a lower bound of what was held at the admission)
					}
					for {
						p := peak.Load()
						if n <= p || peak.CompareAndSwap(p, n) {
							break
						}
					}
					runtime.Gosched()
					inFlight.Add(-1)
				}
				_ = cs.Dec(a)
			}
		}(w)
	}
	done.Wait()
	if p := peak.Load(); p > int64(max) {
		return fmt.Sprintf("exceeded peak=%d", p)
	}
	if h := held(cs); h != 0 {
		return fmt.Sprintf("stuck held=%d", h)
	}
	n := 0
	for k := 0; k < max; k++ {
		if limit(cs, apiFor(fmt.Sprintf("t%d", 9000000+k))) {
			n++
		}
	}
	if n != max {
		return fmt.Sprintf("starved admitted=%d", n)
	}
	return "ok"
}

// A full engine (quota and flow files, streams.NewStream, ExecuteFlow) on the production clock, as the gateway runs.
// `max` transactions are admitted and never answered. Until the earliest expiry written into the set has passed on the
// wall clock every one of them must still hold its slot (gc_removes_only_expired: a collector pass must not free a live
// slot); once the latest expiry has passed they must be gone after at most one collector interval (plus slack for a
// loaded machine), and a newcomer gets a slot. Only wall-clock comparisons taken AFTER the reading decide, so a slow
// machine cannot produce a false report of the first kind.
func stressRealClock(max, expSec, gcSec int64) string {
	c := caseCfg{gcSec: gcSec, gcSet: true, order: []int{0},
		quotas: []qspec{{conc: true, max: max, expSec: expSec, expSet: true, parent: -1}}}
	e, err := newEngineOn(c, true)
	if err != nil {
		return "err:init"
	}
	defer e.close()
	for k := int64(1); k <= max; k++ {
		if v := e.request(fmt.Sprintf("t%d", k), false, "x", false); v != "a" {
			return fmt.Sprintf("not-admitted tx=%d v=%s", k, v)
		}
	}
	if v := e.request("t900", false, "x", false); v != "r" {
		return "exceeded at-start v=" + v
	}
	qo, err := e.rm.GetQuota(qname(0), "")
	if err != nil {
		return "err:quota"
	}
	ms, ok := members(qo)
	if !ok || int64(len(ms)) != max {
		return fmt.Sprintf("err:members %d/%d", len(ms), max)
	}
	var earliest, latest int64
	for _, m := range ms {
		var ex int64
		if _, err := fmt.Sscanf(m, "%d:", &ex); err != nil {
			return "err:member " + m
		}
		if earliest == 0 || ex < earliest {
			earliest = ex
		}
		if ex > latest {
			latest = ex
		}
	}
	for {
		l, _ := members(qo)
		t2 := time.Now().UnixNano()
		if t2 >= earliest {
			break
		}
		if int64(len(l)) < max {
			return fmt.Sprintf("freed-live-slot held=%d/%d ms-before-expiry=%d", len(l), max, (earliest-t2)/int64(time.Millisecond))
		}
		time.Sleep(10 * time.Millisecond)
	}
	deadline := latest + (gcSec+4)*int64(time.Second)
	for {
		l, _ := members(qo)
		if len(l) == 0 {
			break
		}
		if t2 := time.Now().UnixNano(); t2 > deadline {
			return fmt.Sprintf("kept-expired-slot held=%d/%d ms-after-expiry=%d", len(l), max, (t2-latest)/int64(time.Millisecond))
		}
		time.Sleep(10 * time.Millisecond)
	}
	if v := e.request("t901", false, "x", false); v != "a" {
		return "starved-after-expiry v=" + v
	}
	e.response("t901", false, "x")
	if n := e.total(); n != 0 {
		return fmt.Sprintf("leak held=%d", n)
	}
	return "ok"
}

// slowStore wraps the storage under a strategy's shared state (memoryState.contextMemory) by one that gives the processor
// away around every call: a storage layer that takes its time. Semantics unchanged.
type slowCtx struct{ in public_types.ContextI }

func pause() {
	runtime.Gosched()
	for t := time.Now(); time.Since(t) < 20*time.Microsecond; {
	}
	runtime.Gosched()
}
func (c *slowCtx) Set(k string, v interface{}) error { pause(); return c.in.Set(k, v) }
func (c *slowCtx) Get(k string) (interface{}, error) { return c.in.Get(k) }
func (c *slowCtx) Pop(k string) (interface{}, error) { return c.in.Pop(k) }
func (c *slowCtx) Exists(k string) bool              { r := c.in.Exists(k); pause(); return r }

func slowStore(cs any) bool {
	v := reflect.ValueOf(cs)
	if v.Kind() != reflect.Ptr || v.Elem().Kind() != reflect.Struct {
		return false
	}
	f := v.Elem().FieldByName("sharedContext")
	if !f.IsValid() {
		return false
	}
	sc := reflect.NewAt(f.Type(), unsafe.Pointer(f.UnsafeAddr())).Elem().Elem() // *memoryState[int64]
	if sc.Kind() != reflect.Ptr || sc.Elem().Kind() != reflect.Struct {
		return false
	}
	m := sc.Elem().FieldByName("contextMemory")
	if !m.IsValid() {
		return false
	}
	mv := reflect.NewAt(m.Type(), unsafe.Pointer(m.UnsafeAddr())).Elem()
	in, ok := mv.Interface().(public_types.ContextI)
	if !ok {
		return false
	}
	mv.Set(reflect.ValueOf(&slowCtx{in}))
	return true
}

// stress-firstuse: every round builds a FRESH quota (its set does not exist yet) already holding nothing, and `workers`
// transactions arrive at it at the same instant; at most `max` may be admitted and be members. slow=1 puts a storage layer
// that takes its time under the shared state.  answer: ok | exceeded first-use round=<r> admitted=<n> held=<h> | leak ...
func stressFirstUse(max, workers, rounds int, slow bool) (res string) {
	defer func() {
		if r := recover(); r != nil {
			res = "panic first-use"
		}
	}()
	if runtime.GOMAXPROCS(0) < 4 {
		defer runtime.GOMAXPROCS(runtime.GOMAXPROCS(4))
	}
	const chunk = 250
	for base := 0; base < rounds; base += chunk {
		ctx, cancel := context.WithCancel(context.Background())
		context_manager.Get().WithContext(ctx).SetRealClock()
		out := func() string {
			for round := base; round < base+chunk && round < rounds; round++ {
				cfg := &quotaresource.QuotaConfig{ID: fmt.Sprintf("fu%d", round), Strategy: &quotaresource.StrategyConfig{
					Concurrent: &quotaresource.ConcurrentConfig{MaxRequestCount: int64(max), RequestExpirationSec: 600, GCIntervalSec: 600}}}
				cs, err := quotaresource.NewConcurrentStrategy(cfg, nil)
				if err != nil {
					return "err:init"
				}
				if slow && !slowStore(cs) {
					return "err:store"
				}
				var admitted, arrived atomic.Int64
				var ready, done sync.WaitGroup
				start := make(chan struct{})
				apis := make([]public_types.APIStreamI, workers)
				ready.Add(workers)
				done.Add(workers)
				for w := 0; w < workers; w++ {
					apis[w] = apiFor(fmt.Sprintf("t%d", round*workers+w))
					go func(a public_types.APIStreamI) {
						defer done.Done()
						ready.Done()
						<-start
						arrived.Add(1)
						for spins := 0; arrived.Load() < int64(workers) && spins < 1_000_000; spins++ {
						}
						if limit(cs, a) {
							admitted.Add(1)
						}
					}(apis[w])
				}
				ready.Wait()
				close(start)
				done.Wait()
				if h := held(cs); admitted.Load() > int64(max) || h > int64(max) || h != admitted.Load() {
					return fmt.Sprintf("exceeded first-use round=%d admitted=%d held=%d max=%d", round, admitted.Load(), h, max)
				}
				for _, a := range apis {
					_ = cs.Dec(a)
				}
				if h := held(cs); h != 0 {
					return fmt.Sprintf("leak first-use round=%d held=%d", round, h)
				}
			}
			return "ok"
		}()
		cancel()
		for dl := time.Now().Add(5 * time.Second); time.Now().Before(dl); {
			if _, t := gcParked(); t == 0 {
				break
			}
			time.Sleep(100 * time.Microsecond)
		}
		if out != "ok" {
			return out
		}
	}
	return "ok"
}

// stress-errorreport: the proxy's failure report goes through the REAL admin route (PUT /on_haproxy_error on the mux that
// SetHandleRoutes fills, served over HTTP) for transactions that hold slots: once with nothing else going on, once while an
// operator's PUT /configuration is being handled (its body still uploading; it ends with a payload the handler rejects,
// so the engine is not replaced). Either way the report must be accepted and the slot be back at once.
// answer: ok | report-not-accepted ... | slot-not-released ... | starved ...
func stressErrorReport(max int64) string {
	c := caseCfg{gcSec: 600, gcSet: true, order: []int{0},
		quotas: []qspec{{conc: true, max: max, expSec: 600, expSet: true, parent: -1}}}
	e, err := newEngineOn(c, true)
	if err != nil {
		return "err:init"
	}
	defer e.close()
	// the admin handlers of the engine process, serving this stream (no telemetry, no HAProxy)
	rd := &routing.HandlingDataManager{}
	rv := reflect.ValueOf(rd).Elem()
	set := func(name string, x any) bool {
		f := rv.FieldByName(name)
		if !f.IsValid() {
			return false
		}
		reflect.NewAt(f.Type(), unsafe.Pointer(f.UnsafeAddr())).Elem().Set(reflect.ValueOf(x))
		return true
	}
	if !set("isStreamsEnabled", true) || !set("stream", e.stream) {
		return "err:admin"
	}
	mux := http.NewServeMux()
	rd.SetHandleRoutes(mux)
	srv := httptest.NewServer(mux)
	defer srv.Close()
	put := func(path string, body io.Reader) int {
		req, err := http.NewRequest(http.MethodPut, srv.URL+path, body)
		if err != nil {
			return -1
		}
		resp, err := http.DefaultClient.Do(req)
		if err != nil {
			return -1
		}
		_, _ = io.Copy(io.Discard, resp.Body)
		resp.Body.Close()
		return resp.StatusCode
	}
	report := func(id string) int {
		return put("/on_haproxy_error", strings.NewReader(fmt.Sprintf(`{"failed_transactions":{"%s":{}}}`, id)))
	}
	for k := int64(1); k <= max; k++ {
		if v := e.request(fmt.Sprintf("t%d", k), false, "x", false); v != "a" {
			return fmt.Sprintf("not-admitted tx=%d v=%s", k, v)
		}
	}
	if v := e.request("t900", false, "x", false); v != "r" {
		return "exceeded at-start v=" + v
	}
	// nothing else going on
	if st := report("t1"); st != http.StatusOK {
		return fmt.Sprintf("report-not-accepted idle status=%d", st)
	}
	if n := int64(e.total()); n != max-1 {
		return fmt.Sprintf("slot-not-released idle held=%d/%d", n, max)
	}
	if v := e.request("t1", false, "x", false); v != "a" {
		return "starved after-idle-report v=" + v
	}
	// an operator's PUT /configuration is being handled: its body is still uploading
	pr, pw := io.Pipe()
	cfgDone := make(chan int, 1)
	go func() { cfgDone <- put("/configuration", pr) }()
	if _, err := pw.Write([]byte(`{"padding": "` + strings.Repeat("x", 8192))); err != nil {
		return "err:upload"
	}
	// it is inside the handler once another configuration request is turned away (226)
	inside := false
	for dl := time.Now().Add(5 * time.Second); time.Now().Before(dl); {
		if put("/configuration", strings.NewReader("")) == http.StatusIMUsed {
			inside = true
			break
		}
		time.Sleep(time.Millisecond)
	}
	st := report("t1")
	held := int64(e.total())
	_, _ = pw.Write([]byte(`" this is not json`))
	pw.Close()
	var cfgStatus int
	select {
	case cfgStatus = <-cfgDone:
	case <-time.After(10 * time.Second):
		return "err:configuration-request-stuck"
	}
	if !inside {
		return "ok" // the window was not reached (never on a sane machine); nothing to say
	}
	if cfgStatus != http.StatusBadRequest {
		return fmt.Sprintf("err:configuration status=%d", cfgStatus)
	}
	if st != http.StatusOK {
		return fmt.Sprintf("report-not-accepted during-configuration-update status=%d held=%d/%d", st, e.total(), max)
	}
	if held != max-1 || int64(e.total()) != max-1 {
		return fmt.Sprintf("slot-not-released during-configuration-update held=%d/%d", e.total(), max)
	}
	if v := e.request("t901", false, "x", false); v != "a" {
		return "starved after-report v=" + v
	}
	return "ok"
}

// removeGate holds the asynchronous clean-up of queue entries (`go p.removeRequest`, hook point queue.before-remove) while
// it is closed: the window in which the processing loop can still meet the entry of a request that already has its verdict.
type removeGate struct {
	mu     sync.Mutex
	closed bool
	parked int
	ch     chan struct{}
}

func (g *removeGate) Yield(point string) {
	if point != "queue.before-remove" {
		return
	}
	g.mu.Lock()
	if !g.closed {
		g.mu.Unlock()
		return
	}
	g.parked++
	ch := g.ch
	g.mu.Unlock()
	<-ch
}

func (g *removeGate) Fault(string, string) error { return nil }

func (g *removeGate) waiting() int {
	g.mu.Lock()
	defer g.mu.Unlock()
	return g.parked
}

func (g *removeGate) open() {
	g.mu.Lock()
	defer g.mu.Unlock()
	if g.closed {
		g.closed = false
		close(g.ch)
	}
}

// A Queue processor in front of a concurrency quota, full engine, production clock. `max` transactions get the slots
// (through the queue) and stay in flight; `waiters` more queue up behind them and reach their TTL: the gateway answers
// them 429, they are over. Right after that the holders' responses arrive and free the slots, while the clean-up of the
// timed-out entries has not run yet, and the processing loop makes its rounds. Nothing is in flight then: every set must
// be empty (only a transaction that is in flight holds a slot), and `max` newcomers must get through the queue at once.
func stressQueue(max, waiters, ttlSec int64) string {
	c := caseCfg{gcSec: 60, gcSet: true, order: []int{0}, queueTTL: ttlSec,
		quotas: []qspec{{conc: true, max: max, expSec: 60, expSet: true, parent: -1}}}
	gate := &removeGate{closed: true, ch: make(chan struct{})}
	verifhook.Install(gate)
	defer verifhook.Install(nil)
	e, err := newEngineOn(c, true)
	if err != nil {
		gate.open()
		return "err:init"
	}
	defer e.close()
	defer gate.open()
	type res struct {
		id string
		v  string
	}
	run := func(ids []string, timeout time.Duration) (map[string]string, bool) {
		ch := make(chan res, len(ids))
		for _, id := range ids {
			go func(id string) { ch <- res{id, e.request(id, false, "x", false)} }(id)
		}
		out := map[string]string{}
		deadline := time.After(timeout)
		for range ids {
			select {
			case r := <-ch:
				out[r.id] = r.v
			case <-deadline:
				return out, false
			}
		}
		return out, true
	}
	ids := func(prefix string, n int64) []string {
		l := make([]string, n)
		for i := range l {
			l[i] = fmt.Sprintf("%s%d", prefix, i+1)
		}
		return l
	}
	ttl := time.Duration(ttlSec) * time.Second
	holders := ids("t1", max)
	if vs, ok := run(holders, ttl/2+5*time.Second); !ok {
		return "holders-stuck-in-queue"
	} else {
		for id, v := range vs {
			if v != "a" {
				return fmt.Sprintf("holder-not-admitted %s v=%s", id, v)
			}
		}
	}
	if n := int64(e.total()); n != max {
		return fmt.Sprintf("holders-without-slot held=%d/%d", n, max)
	}
	// the waiters queue up and time out (429); their transactions are over
	if vs, ok := run(ids("t2", waiters), ttl+10*time.Second); !ok {
		return "waiters-never-answered"
	} else {
		for id, v := range vs {
			if v == "a" {
				return fmt.Sprintf("exceeded waiter-admitted %s held=%d/%d", id, e.total(), max)
			}
		}
	}
	// every clean-up goroutine (holders' and waiters') is parked in front of its removal
	for dl := time.Now().Add(5 * time.Second); int64(gate.waiting()) < max+waiters && time.Now().Before(dl); {
		time.Sleep(time.Millisecond)
	}
	// the holders' responses arrive
	for _, id := range holders {
		e.response(id, false, "x")
	}
	if n := e.total(); n != 0 {
		return fmt.Sprintf("leak after-responses held=%d", n)
	}
	// the processing loop makes its rounds (every 100 ms) over whatever is still queued
	time.Sleep(450 * time.Millisecond)
	if n := e.total(); n != 0 {
		return fmt.Sprintf("slot-taken-with-nothing-in-flight held=%d/%d", n, max)
	}
	gate.open()
	if vs, ok := run(ids("t3", max), ttl/2+5*time.Second); !ok {
		return "starved newcomers-stuck-in-queue"
	} else {
		for id, v := range vs {
			if v != "a" {
				return fmt.Sprintf("starved newcomer %s v=%s", id, v)
			}
		}
	}
	for _, id := range ids("t3", max) {
		e.response(id, false, "x")
	}
	if n := e.total(); n != 0 {
		return fmt.Sprintf("leak at-end held=%d", n)
	}
	return "ok"
}

func execStress(c proto.Case, o *proto.Out) []string {
	outs := make([]string, len(c.Ops))
	in := func(v, lo, hi int64) bool { return v >= lo && v <= hi }
	for i, op := range c.Ops {
		w := strings.Fields(op)
		outs[i] = "bad-op"
		if len(w) == 0 {
			continue
		}
		switch w[0] {
		case "stress-incdec":
			decs, ok1 := kvI(w, "decs")
			ms, ok2 := kvI(w, "ms")
			if ok1 && ok2 && in(decs, 1, 16) && in(ms, 1, 5000) {
				outs[i] = stressIncDec(int(decs), time.Duration(ms)*time.Millisecond)
			}
		case "stress-arrive":
			mx, ok1 := kvI(w, "max")
			wk, ok2 := kvI(w, "workers")
			rd, ok3 := kvI(w, "rounds")
			if ok1 && ok2 && ok3 && in(mx, 1, 16) && in(wk, 2, 64) && in(rd, 1, 100000) {
				outs[i] = stressArrive(int(mx), int(wk), int(rd))
			}
		case "stress-realclock":
			mx, ok1 := kvI(w, "max")
			ex, ok2 := kvI(w, "exp")
			gc, ok3 := kvI(w, "gc")
			if ok1 && ok2 && ok3 && in(mx, 1, 16) && in(ex, 1, 10) && in(gc, 1, 10) {
				outs[i] = stressRealClock(mx, ex, gc)
			}
		case "stress-firstuse":
			mx, ok1 := kvI(w, "max")
			wk, ok2 := kvI(w, "workers")
			rd, ok3 := kvI(w, "rounds")
			sl, ok4 := kvI(w, "slow")
			if ok1 && ok2 && ok3 && ok4 && in(mx, 1, 16) && in(wk, 2, 64) && in(rd, 1, 100000) && in(sl, 0, 1) {
				outs[i] = stressFirstUse(int(mx), int(wk), int(rd), sl == 1)
			}
		case "stress-errorreport":
			mx, ok1 := kvI(w, "max")
			if ok1 && in(mx, 1, 16) {
				outs[i] = stressErrorReport(mx)
			}
		case "stress-queue":
			mx, ok1 := kvI(w, "max")
			wt, ok2 := kvI(w, "waiters")
			tt, ok3 := kvI(w, "ttl")
			if ok1 && ok2 && ok3 && in(mx, 1, 8) && in(wt, 1, 16) && in(tt, 1, 10) {
				outs[i] = stressQueue(mx, wt, tt)
			}
		case "stress-churn":
			mx, ok1 := kvI(w, "max")
			wk, ok2 := kvI(w, "workers")
			tx, ok3 := kvI(w, "txns")
			if ok1 && ok2 && ok3 && in(mx, 1, 16) && in(wk, 2, 64) && in(tx, 1, 100000) {
				outs[i] = stressChurn(int(mx), int(wk), int(tx))
			}
		}
		o.Count(w[0] + "-" + strings.Fields(outs[i])[0])
	}
	return outs
}

func genStress(emit func(proto.Case), thorough bool) {
	for _, d := range []int{1, 4} {
		emit(proto.Case{ID: fmt.Sprintf("stress:incdec-%d", d), Ops: []string{fmt.Sprintf("stress-incdec decs=%d ms=1500", d)}})
	}
	// expiry beyond the first collector pass (a live slot at a pass), and a pass interval beyond the expiry
	for _, p := range [][3]int{{2, 2, 1}, {1, 1, 2}} {
		emit(proto.Case{ID: fmt.Sprintf("stress:realclock-exp%d-gc%d", p[1], p[2]),
			Ops: []string{fmt.Sprintf("stress-realclock max=%d exp=%d gc=%d", p[0], p[1], p[2])}})
	}
	fu := 2000
	if thorough {
		fu = 20000
	}
	emit(proto.Case{ID: "stress:firstuse-max1", Ops: []string{fmt.Sprintf("stress-firstuse max=1 workers=%d rounds=%d slow=0", arriveWorkers(), fu)}})
	for _, mx := range []int{1, 2} {
		emit(proto.Case{ID: fmt.Sprintf("stress:firstuse-slowstore-max%d", mx), Ops: []string{fmt.Sprintf("stress-firstuse max=%d workers=4 rounds=%d slow=1", mx, fu/10)}})
	}
	for _, mx := range []int{1, 3} {
		emit(proto.Case{ID: fmt.Sprintf("stress:errorreport-max%d", mx), Ops: []string{fmt.Sprintf("stress-errorreport max=%d", mx)}})
	}
	for _, p := range [][2]int{{1, 1}, {2, 3}} {
		emit(proto.Case{ID: fmt.Sprintf("stress:queue-max%d-waiters%d", p[0], p[1]),
			Ops: []string{fmt.Sprintf("stress-queue max=%d waiters=%d ttl=1", p[0], p[1])}})
	}
	rounds, txns := 1500, 1500
	if thorough {
		rounds, txns = 10000, 6000
	}
	for _, mx := range []int{1, 2, 4} {
		emit(proto.Case{ID: fmt.Sprintf("stress:arrive-max%d", mx), Ops: []string{fmt.Sprintf("stress-arrive max=%d workers=%d rounds=%d", mx, arriveWorkers(), rounds)}})
	}
	for _, mx := range []int{2, 4} {
		emit(proto.Case{ID: fmt.Sprintf("stress:churn-max%d", mx), Ops: []string{fmt.Sprintf("stress-churn max=%d workers=32 txns=%d", mx, txns)}})
	}
}

// as many simultaneous arrivals as can really run in parallel (at least 4, at most 16)
func arriveWorkers() int {
	n := runtime.NumCPU()
	if n < 4 {
		n = 4
	}
	if n > 16 {
		n = 16
	}
	return n
}
