package main

// Search-only stress cases (no model behind them beyond "never panics"): Inc and Dec of the SAME request id from
// several goroutines on one real concurrentStrategy.  Before the repair F02e, Inc wrote the status in two lock
// sections and a Dec delete in between made it dereference nil while holding the strategy's mutex.
//   stress-incdec decs=<n> ms=<duration>      answer: ok | panic <where>

import (
	"context"
	"fmt"
	"strings"
	"sync/atomic"
	"time"

	lunar_messages "lunar/engine/messages"
	lunar_context "lunar/engine/streams/lunar-context"
	quotaresource "lunar/engine/streams/resources/quota"
	stream_types "lunar/engine/streams/types"
	context_manager "lunar/toolkit-core/context-manager"

	"verif/harness/internal/proto"
)

func stressIncDec(decs int, dur time.Duration) string {
	ctx, cancel := context.WithCancel(context.Background())
	context_manager.Get().WithContext(ctx).SetRealClock()
	defer func() {
		cancel()
		deadline := time.Now().Add(5 * time.Second)
		for time.Now().Before(deadline) {
			if _, t := gcParked(); t == 0 {
				break
			}
			time.Sleep(100 * time.Microsecond)
		}
	}()
	cfg := &quotaresource.QuotaConfig{ID: "q", Strategy: &quotaresource.StrategyConfig{
		Concurrent: &quotaresource.ConcurrentConfig{MaxRequestCount: 5, RequestExpirationSec: 60, GCIntervalSec: 60}}}
	cs, err := quotaresource.NewConcurrentStrategy(cfg, nil)
	if err != nil {
		return "err:init"
	}
	api := stream_types.NewRequestAPIStream(lunar_messages.OnRequest{ID: "t1", SequenceID: "t1", Method: "GET",
		URL: host + "/x", Headers: map[string]string{}}, lunar_context.NewMemoryState[[]byte]())
	var stop atomic.Bool
	result := make(chan string, decs+1)
	worker := func(name string, f func() error) {
		defer func() {
			if r := recover(); r != nil {
				// the panic happens with the strategy's mutex held: the other workers are stuck from now on
				stop.Store(true)
				result <- "panic " + name
				return
			}
			result <- "ok"
		}()
		for !stop.Load() {
			_ = f()
		}
	}
	go worker("Inc", func() error { return cs.Inc(api) })
	for k := 0; k < decs; k++ {
		go worker("Dec", func() error { return cs.Dec(api) })
	}
	timer := time.After(dur)
	select {
	case r := <-result:
		if strings.HasPrefix(r, "panic") {
			return r
		}
	case <-timer:
	}
	stop.Store(true)
	// collect what finishes promptly (after a panic the others never do)
	for k := 0; k < decs+1; k++ {
		select {
		case r := <-result:
			if strings.HasPrefix(r, "panic") {
				return r
			}
		case <-time.After(500 * time.Millisecond):
			return "panic stuck-workers"
		}
	}
	return "ok"
}

func execStress(c proto.Case, o *proto.Out) []string {
	outs := make([]string, len(c.Ops))
	for i, op := range c.Ops {
		w := strings.Fields(op)
		decs, ok1 := kvI(w, "decs")
		ms, ok2 := kvI(w, "ms")
		if len(w) == 0 || w[0] != "stress-incdec" || !ok1 || !ok2 || decs < 1 || decs > 16 || ms < 1 || ms > 5000 {
			outs[i] = "bad-op"
			continue
		}
		outs[i] = stressIncDec(int(decs), time.Duration(ms)*time.Millisecond)
		o.Count("stress-" + strings.Fields(outs[i])[0])
	}
	return outs
}

func genStress(emit func(proto.Case)) {
	for _, d := range []int{1, 4} {
		emit(proto.Case{ID: fmt.Sprintf("stress:incdec-%d", d), Ops: []string{fmt.Sprintf("stress-incdec decs=%d ms=1500", d)}})
	}
}
