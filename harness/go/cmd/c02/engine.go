// Engine-level set-up for C02: a full streams engine built from generated quota and flow YAML,
// driven through Stream.ExecuteFlow / Stream.OnError, with the repo's MockClock and a deterministic
// hand-shake with the GC goroutines of the concurrent strategies.
package main

import (
	"bytes"
	"context"
	"fmt"
	"os"
	"path/filepath"
	"reflect"
	"runtime"
	"strings"
	"time"
	"unsafe"

	"lunar/engine/actions"
	lunar_messages "lunar/engine/messages"
	"lunar/engine/streams"
	streamconfig "lunar/engine/streams/config"
	lunar_context "lunar/engine/streams/lunar-context"
	public_types "lunar/engine/streams/public-types"
	"lunar/engine/streams/resources"
	stream_types "lunar/engine/streams/types"
	"lunar/engine/utils/environment"
	"lunar/toolkit-core/clock"
	context_manager "lunar/toolkit-core/context-manager"
)

// what the strategy uses when a field is not configured (quota.type.go: defaultRequestExpiration, defaultGCInterval);
// the model takes the same values from the regenerated constants
const (
	defaultExpSec = 60
	defaultGCSec  = 30
)

const (
	host    = "c02.test"
	procDir = "proxy/src/services/lunar-engine/streams/processors/registry"
)

// quota specification of a case (index in the list = quota id `q<i>`).
type qspec struct {
	conc    bool
	max     int64
	expSec  int64  // effective value (the strategy's default when not configured)
	expSet  bool   // request_expiration_sec is written into the quota file
	parent  int    // -1 = root
	grouped bool   // fixed window with group_by_header: x-c02
	flt     string // own filter: "" (host/*), "mG" / "mP" (method GET / POST only), "py" (url host/y), "h" (header x-c02: 1)
}

type caseCfg struct {
	t0       int64 // ns
	gcSec    int64 // effective value (the strategy's default when not configured)
	gcSet    bool  // gc_interval_sec is written into the quota files
	quotas   []qspec
	order    []int // user flow: Limiter chain in this order
	early    bool  // the flow answers POST requests itself after the limiters admitted them
	queueTTL int64 // > 0: the first processor of the chain is a Queue (ttl_seconds) instead of a Limiter
	modAt    int   // 0: none; k+1: a request-rewriting processor (TransformAPICall) sits after the first k limiters, on the admitted path
}

type engine struct {
	cfg     caseCfg
	dir     string
	clk     *clock.MockClock
	cancel  context.CancelFunc
	stream  *streams.Stream
	rm      *resources.ResourceManagement
	nGC     int     // GC goroutines alive in this process (all loads of this case)
	rewrote bool    // the last request came back with a ModifyRequestAction
	gens    []gcGen // one entry per load of the configuration that started collectors
}

// the collectors one load of the configuration started: they registered their first timer at the load instant and share
// the interval. A reload leaves the collectors of the engine it replaces running (as the gateway does).
type gcGen struct {
	n    int
	next int64 // ns: next instant at which they are due
	step int64
}

// quota ids are unique per case: whatever the process keeps per quota id does not carry over from one case to the next
// (a case replayed alone behaves as in the batch); a reload inside a case uses the same ids again.
var caseSeq int

func qname(i int) string { return fmt.Sprintf("q%d_%d", i, caseSeq) }

func filterYAML(flt, indent string, always bool) string {
	url := host + "/*"
	extra := ""
	switch flt {
	case "mG":
		extra = indent + "  method: [GET]\n"
	case "mP":
		extra = indent + "  method: [POST]\n"
	case "py":
		url = host + "/y"
	case "h":
		extra = indent + "  headers:\n" + indent + "    - key: x-c02\n" + indent + "      value: \"1\"\n"
	case "":
		if !always {
			return ""
		}
	}
	return indent + "filter:\n" + indent + "  url: " + url + "\n" + extra
}

func quotaYAML(c caseCfg) string {
	var roots, kids strings.Builder
	for i, q := range c.quotas {
		var strat string
		if q.conc {
			strat = fmt.Sprintf("      concurrent:\n        max_request_count: %d\n", q.max)
			if q.expSet {
				strat += fmt.Sprintf("        request_expiration_sec: %d\n", q.expSec)
			}
			if c.gcSet {
				strat += fmt.Sprintf("        gc_interval_sec: %d\n", c.gcSec)
			}
		} else {
			strat = "      fixed_window:\n        max: 1000000\n        interval: 1\n        interval_unit: day\n"
			if q.grouped {
				strat += "        group_by_header: x-c02\n"
			}
		}
		if q.parent < 0 {
			fmt.Fprintf(&roots, "  - id: %s\n%s    strategy:\n%s", qname(i), filterYAML(q.flt, "    ", true), strat)
		} else {
			fmt.Fprintf(&kids, "  - id: %s\n    parent_id: %s\n%s    strategy:\n%s", qname(i), qname(q.parent), filterYAML(q.flt, "    ", false), strat)
		}
	}
	out := "quotas:\n" + roots.String()
	if kids.Len() > 0 {
		out += "internal_limits:\n" + kids.String()
	}
	return out
}

func flowYAML(c caseCfg) string {
	var procs, req, resp strings.Builder
	procRef := func(name, cond string) string {
		if cond == "" {
			return fmt.Sprintf("        processor:\n          name: %s\n", name)
		}
		return fmt.Sprintf("        processor:\n          name: %s\n          condition: %s\n", name, cond)
	}
	streamRef := func(at string) string {
		return fmt.Sprintf("        stream:\n          name: globalStream\n          at: %s\n", at)
	}
	edge := func(b *strings.Builder, from, to string) {
		fmt.Fprintf(b, "    - from:\n%s      to:\n%s", from, to)
	}
	// after the limiter chain
	tail := streamRef("end")
	if c.early {
		fmt.Fprintf(&procs, "  isPost:\n    processor: Filter\n    parameters:\n      - key: method\n        value: POST\n")
		fmt.Fprintf(&procs, "  answer:\n    processor: GenerateResponse\n    parameters:\n      - key: status\n        value: 200\n")
		tail = procRef("isPost", "")
	}
	prev := streamRef("start")
	// a processor that only rewrites the request (sets a header): the transaction goes on to the provider
	rewrite := func() {
		fmt.Fprintf(&procs, "  rewrite:\n    processor: TransformAPICall\n    parameters:\n      - key: set\n        value:\n          \"$.request.headers['x-c02-tag']\": \"tagged\"\n")
		edge(&req, prev, procRef("rewrite", ""))
		prev = procRef("rewrite", "")
	}
	for k, q := range c.order {
		if c.modAt == k+1 {
			rewrite()
		}
		lim := fmt.Sprintf("lim%d", k)
		deny := fmt.Sprintf("deny%d", k)
		below, above := "below_limit", "above_limit"
		if k == 0 && c.queueTTL > 0 {
			// a Queue in front of the quota: the request waits for a slot until the TTL
			fmt.Fprintf(&procs, "  %s:\n    processor: Queue\n    parameters:\n      - key: quota_id\n        value: %s\n      - key: queue_size\n        value: 32\n      - key: ttl_seconds\n        value: %d\n", lim, qname(q), c.queueTTL)
			below, above = "allowed", "blocked"
		} else {
			fmt.Fprintf(&procs, "  %s:\n    processor: Limiter\n    parameters:\n      - key: quota_id\n        value: %s\n", lim, qname(q))
		}
		fmt.Fprintf(&procs, "  %s:\n    processor: GenerateResponse\n    parameters:\n      - key: status\n        value: 429\n", deny)
		edge(&req, prev, procRef(lim, ""))
		edge(&req, procRef(lim, above), procRef(deny, ""))
		edge(&resp, procRef(deny, ""), streamRef("end"))
		prev = procRef(lim, below)
	}
	if c.modAt == len(c.order)+1 {
		rewrite()
	}
	if c.early {
		edge(&req, prev, procRef("isPost", ""))
		edge(&req, procRef("isPost", "hit"), procRef("answer", ""))
		edge(&req, procRef("isPost", "miss"), streamRef("end"))
		edge(&resp, procRef("answer", ""), streamRef("end"))
	} else {
		edge(&req, prev, tail)
	}
	edge(&resp, streamRef("start"), streamRef("end"))
	return fmt.Sprintf("name: c02flow\nfilter:\n  url: %s/*\nprocessors:\n%sflow:\n  request:\n%s  response:\n%s",
		host, procs.String(), req.String(), resp.String())
}

func repoRoot() string {
	if r := os.Getenv("VERIF_REPO"); r != "" {
		return r
	}
	return "/repo"
}

// gcParked reports how many goroutines sit in concurrentStrategy.runGC blocked in its select.
func gcParked() (parked, total int) {
	buf := make([]byte, 1<<20)
	for {
		n := runtime.Stack(buf, true)
		if n < len(buf) {
			buf = buf[:n]
			break
		}
		buf = make([]byte, 2*len(buf))
	}
	for _, g := range bytes.Split(buf, []byte("\n\n")) {
		// a collector that has not run yet shows only the wrapper of its `go` statement ("...NewConcurrentStrategy.gowrapN",
		// "created by ...NewConcurrentStrategy"); once it runs it shows runGC
		if !bytes.Contains(g, []byte("concurrentStrategy).runGC")) && !bytes.Contains(g, []byte("quota.NewConcurrentStrategy")) {
			continue
		}
		total++
		head := g
		if i := bytes.IndexByte(g, '\n'); i >= 0 {
			head = g[:i]
		}
		// parked in the select of runGC itself (not somewhere below it)
		if bytes.Contains(head, []byte("[select")) {
			lines := bytes.Split(g, []byte("\n"))
			// frame 0 is runtime.gopark/selectgo; the first non-runtime frame must be runGC
			for _, l := range lines[1:] {
				if bytes.HasPrefix(l, []byte("\t")) || bytes.HasPrefix(l, []byte("runtime.")) {
					continue
				}
				if bytes.Contains(l, []byte("concurrentStrategy).runGC")) {
					parked++
				}
				break
			}
		}
	}
	return
}

// waitGC blocks until exactly `want` GC goroutines exist and all of them are parked in their select
// (each then holds a freshly registered mock timer).
func waitGC(want int) {
	deadline := time.Now().Add(20 * time.Second)
	for {
		p, t := gcParked()
		if p == want && t == want {
			return
		}
		if time.Now().After(deadline) {
			panic(fmt.Sprintf("harness: GC goroutines did not settle: parked=%d total=%d want=%d", p, t, want))
		}
		time.Sleep(50 * time.Microsecond)
	}
}

func newEngine(c caseCfg) (*engine, error) { return newEngineOn(c, false) }

// real: the production clock (RealClock) instead of the mock clock; time then passes by itself and `advance` is not used
func newEngineOn(c caseCfg, real bool) (*engine, error) {
	dir, err := os.MkdirTemp("", "verif-c02-")
	if err != nil {
		return nil, err
	}
	caseSeq++
	e := &engine{cfg: c, dir: dir}
	for _, d := range []string{"flows", "quotas", "path_params"} {
		if err := os.MkdirAll(filepath.Join(dir, d), 0o755); err != nil {
			return nil, err
		}
	}
	environment.SetStreamsFlowsDirectory(filepath.Join(dir, "flows"))
	os.Setenv("LUNAR_PROXY_QUOTAS_DIRECTORY", filepath.Join(dir, "quotas"))
	os.Setenv("LUNAR_FLOWS_PATH_PARAM_DIR", filepath.Join(dir, "path_params"))
	os.Setenv("LUNAR_FLOWS_PATH_PARAM_CONFIG", filepath.Join(dir, "path_params_config.yaml"))
	environment.SetProcessorsDirectory(filepath.Join(repoRoot(), procDir))

	ctx, cancel := context.WithCancel(context.Background())
	e.cancel = cancel
	if real {
		context_manager.Get().WithContext(ctx).SetRealClock()
	} else {
		cm := context_manager.Get().WithContext(ctx).SetMockClock()
		e.clk = cm.GetClock().(*clock.MockClock)
		e.clk.Set(time.Unix(0, c.t0))
	}
	if err := e.load(c); err != nil {
		e.close()
		return nil, err
	}
	return e, nil
}

// load writes the configuration files and builds an engine from them in this process, the way
// HandlingDataManager.initializeStreams does at start-up and on every reload (streams.NewStream -> quota loader ->
// NewQuota -> NewConcurrentStrategy with the same quota ids; Initialize; then the new engine serves). The engine that
// served so far is dropped; its collectors keep running, as in the gateway.
func (e *engine) load(c caseCfg) error {
	if err := os.WriteFile(filepath.Join(e.dir, "quotas", "quotas.yaml"), []byte(quotaYAML(c)), 0o644); err != nil {
		return err
	}
	if err := os.WriteFile(filepath.Join(e.dir, "flows", "flow.yaml"), []byte(flowYAML(c)), 0o644); err != nil {
		return err
	}
	st, err := streams.NewStream()
	// every `go runGC()` of this load has been executed: the collectors that exist now are the ones there are (the
	// harness waits for those, not for the number it would like to see)
	_, total := gcParked()
	started := total - e.nGC
	e.nGC = total
	// each of them has read the clock and registered its first timer at the load instant
	waitGC(e.nGC)
	if started > 0 {
		step := c.gcSec * int64(time.Second)
		e.gens = append(e.gens, gcGen{n: started, next: e.now().UnixNano() + step, step: step})
	}
	if err != nil {
		return err
	}
	if err := st.Initialize(); err != nil {
		return err
	}
	e.cfg = c
	e.stream = st
	f := reflect.ValueOf(st).Elem().FieldByName("resources")
	e.rm = reflect.NewAt(f.Type(), unsafe.Pointer(f.UnsafeAddr())).Elem().Interface().(*resources.ResourceManagement)
	return nil
}

func (e *engine) close() {
	if e.cancel != nil {
		e.cancel()
		// the GC goroutines of this engine leave their loop on ctx.Done
		deadline := time.Now().Add(20 * time.Second)
		for {
			if _, t := gcParked(); t == 0 {
				break
			}
			if time.Now().After(deadline) {
				panic("harness: GC goroutines did not exit")
			}
			time.Sleep(50 * time.Microsecond)
		}
	}
	os.RemoveAll(e.dir)
}

// advance moves the mock clock by d ns; every GC instant on the way is visited exactly (clock set to the
// due instant, GC goroutines run and re-arm at that instant) before the clock moves on.
func (e *engine) now() time.Time {
	if e.clk == nil {
		return time.Now()
	}
	return e.clk.Now()
}

func (e *engine) advance(d int64) (ticked bool) {
	target := e.clk.Now().UnixNano() + d
	for {
		next := int64(-1)
		for _, g := range e.gens {
			if next < 0 || g.next < next {
				next = g.next
			}
		}
		if next < 0 || next > target {
			break
		}
		e.clk.Set(time.Unix(0, next))
		waitGC(e.nGC)
		for i := range e.gens {
			if e.gens[i].next == next {
				e.gens[i].next += e.gens[i].step
			}
		}
		ticked = true
	}
	e.clk.Set(time.Unix(0, target))
	return ticked
}

type counters interface {
	GetQuotaGroupsCounters() map[string]int64
}

// members reads the in-flight set of a concurrent strategy in set order (white-box: the strategy's private
// shared state and set key), as `expiryNs:requestNumber` words.
func members(qo any) ([]string, bool) {
	v := reflect.ValueOf(qo)
	if v.Kind() != reflect.Ptr || v.Elem().Kind() != reflect.Struct {
		return nil, false
	}
	st := v.Elem()
	f := st.FieldByName("sharedContext")
	k := st.FieldByName("concurrentSetKey")
	if !f.IsValid() || !k.IsValid() || k.Kind() != reflect.String {
		return nil, false
	}
	sc, ok := reflect.NewAt(f.Type(), unsafe.Pointer(f.UnsafeAddr())).Elem().Interface().(public_types.SharedStateI[int64])
	if !ok {
		return nil, false
	}
	raw, err := sc.SMembers(k.String())
	if err != nil {
		return nil, false
	}
	out := make([]string, 0, len(raw))
	for _, m := range raw { // copy at once: SMembers hands out the stored slice itself
		p := strings.Split(m, "::")
		if len(p) != 3 || !strings.HasPrefix(p[1], "t") || p[2] != "unknown" {
			out = append(out, "bad")
			continue
		}
		out = append(out, p[0]+":"+p[1][1:])
	}
	return out, true
}

// obs prints `c=<count per quota> m=<members per quota>` (fixed quotas: `-`; empty set: `_`).
func (e *engine) obs() string {
	cs := make([]string, len(e.cfg.quotas))
	ms := make([]string, len(e.cfg.quotas))
	for i, q := range e.cfg.quotas {
		if !q.conc {
			cs[i], ms[i] = "-", "-"
			continue
		}
		cs[i], ms[i] = "?", "?"
		qo, err := e.rm.GetQuota(qname(i), "")
		if err != nil {
			continue
		}
		if c, ok := qo.(counters); ok {
			var sum int64
			for _, v := range c.GetQuotaGroupsCounters() {
				sum += v
			}
			cs[i] = fmt.Sprint(sum)
		}
		if l, ok := members(qo); ok {
			if len(l) == 0 {
				ms[i] = "_"
			} else {
				ms[i] = strings.Join(l, ",")
			}
		}
	}
	return "c=" + strings.Join(cs, ",") + " m=" + strings.Join(ms, ";")
}

func (e *engine) request(id string, post bool, path string, hdr bool) string {
	return e.requestSeq(id, id, post, path, hdr)
}

// seq: the transaction's sequence id — the id of the first attempt for a retried one (x-lunar-sequence-id), its own id for a
// first attempt, empty when the proxy sent none
func (e *engine) requestSeq(id, seq string, post bool, path string, hdr bool) string {
	method := "GET"
	if post {
		method = "POST"
	}
	headers := map[string]string{}
	if hdr {
		headers["x-c02"] = "1"
	}
	on := lunar_messages.OnRequest{
		ID: id, SequenceID: seq, Method: method, Scheme: "https", URL: host + "/" + path, Path: "/" + path,
		Headers: headers, Time: e.now(),
	}
	api := stream_types.NewRequestAPIStream(on, lunar_context.NewMemoryState[[]byte]())
	acts := &streamconfig.StreamActions{Request: &streamconfig.RequestStream{}, Response: &streamconfig.ResponseStream{}}
	if err := e.stream.ExecuteFlow(api, acts); err != nil {
		return "err:execute"
	}
	v := "a"
	e.rewrote = false
	for _, a := range acts.Request.Actions {
		if _, ok := a.(*actions.ModifyRequestAction); ok {
			e.rewrote = true
		}
		if er, ok := a.(*actions.EarlyResponseAction); ok {
			switch er.Status {
			case 429:
				v = "r"
			case 200:
				v = "e"
			default:
				v = fmt.Sprintf("x%d", er.Status)
			}
		}
	}
	return v
}

func (e *engine) response(id string, post bool, path string) string {
	return e.responseSeq(id, id, post, path)
}

func (e *engine) responseSeq(id, seq string, post bool, path string) string {
	method := "GET"
	if post {
		method = "POST"
	}
	on := lunar_messages.OnResponse{
		ID: id, SequenceID: seq, Method: method, URL: host + "/" + path, Status: 200,
		Headers: map[string]string{}, Time: e.now(),
	}
	api := stream_types.NewResponseAPIStream(on, lunar_context.NewMemoryState[[]byte]())
	acts := &streamconfig.StreamActions{Request: &streamconfig.RequestStream{}, Response: &streamconfig.ResponseStream{}}
	if err := e.stream.ExecuteFlow(api, acts); err != nil {
		return "err:execute"
	}
	return "ok"
}

// total number of members over all concurrent quotas.
func (e *engine) total() int {
	n := 0
	for i, q := range e.cfg.quotas {
		if !q.conc {
			continue
		}
		if qo, err := e.rm.GetQuota(qname(i), ""); err == nil {
			if l, ok := members(qo); ok {
				n += len(l)
			}
		}
	}
	return n
}
